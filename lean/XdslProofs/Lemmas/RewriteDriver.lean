import XdslModel.RewriteDriver
import XdslProofs.C12Worklist
/-!
Helper lemmas for C11 (greedy rewrite driver): worklist facts lifted from the C12 refinement
theorem (`Worklist.step_refines`), and frame lemmas for `exec` / `matchOp` / `process`.
-/
namespace Xdsl.RewriteDriver
open Xdsl.Worklist (WL Inv abs step_refines)

/-! ### worklist -/

theorem push_spec (w : WL) (h : Inv w) (x : Nat) :
    Inv (Worklist.step w (.push x)).1 ∧
    ∀ y, y ∈ abs (Worklist.step w (.push x)).1 ↔ (y ∈ abs w ∨ y = x) := by
  obtain ⟨_, h2, h3⟩ := step_refines w h (.push x)
  refine ⟨h3, fun y => ?_⟩
  rw [h2]; simp only [Worklist.Spec.step]
  by_cases hx : x ∈ abs w
  · simp only [hx, if_true]
    constructor
    · exact Or.inl
    · rintro (h | h); exact h; exact h ▸ hx
  · simp only [hx, if_false, List.mem_cons]
    constructor
    · rintro (h | h); exact Or.inr h; exact Or.inl h
    · rintro (h | h); exact Or.inr h; exact Or.inl h

theorem remove_spec (w : WL) (h : Inv w) (x : Nat) :
    Inv (Worklist.step w (.remove x)).1 ∧
    ∀ y, y ∈ abs (Worklist.step w (.remove x)).1 ↔ (y ∈ abs w ∧ y ≠ x) := by
  obtain ⟨_, h2, h3⟩ := step_refines w h (.remove x)
  refine ⟨h3, fun y => ?_⟩
  rw [h2]; simp [Worklist.Spec.step]

theorem pushAll_spec (w : WL) (h : Inv w) (xs : List Nat) :
    Inv (pushAll w xs) ∧ ∀ y, y ∈ abs (pushAll w xs) ↔ (y ∈ abs w ∨ y ∈ xs) := by
  induction xs generalizing w with
  | nil => exact ⟨h, fun y => by simp [pushAll]⟩
  | cons x r ih =>
    obtain ⟨h1, h2⟩ := push_spec w h x
    obtain ⟨i1, i2⟩ := ih _ h1
    refine ⟨by simpa [pushAll] using i1, fun y => ?_⟩
    have := i2 y
    simp only [pushAll, List.foldl_cons] at this ⊢
    rw [this, h2 y]
    simp only [List.mem_cons]
    constructor
    · rintro ((h | h) | h)
      · exact Or.inl h
      · exact Or.inr (Or.inl h)
      · exact Or.inr (Or.inr h)
    · rintro (h | h | h)
      · exact Or.inl (Or.inl h)
      · exact Or.inl (Or.inr h)
      · exact Or.inr h

theorem removeAll_spec (w : WL) (h : Inv w) (xs : List Nat) :
    Inv (removeAll w xs) ∧ ∀ y, y ∈ abs (removeAll w xs) ↔ (y ∈ abs w ∧ y ∉ xs) := by
  induction xs generalizing w with
  | nil => exact ⟨h, fun y => by simp [removeAll]⟩
  | cons x r ih =>
    obtain ⟨h1, h2⟩ := remove_spec w h x
    obtain ⟨i1, i2⟩ := ih _ h1
    refine ⟨by simpa [removeAll] using i1, fun y => ?_⟩
    have := i2 y
    simp only [removeAll, List.foldl_cons] at this ⊢
    rw [this, h2 y]
    simp only [List.mem_cons, not_or]
    constructor
    · rintro ⟨⟨a, b⟩, c⟩; exact ⟨a, b, c⟩
    · rintro ⟨a, b, c⟩; exact ⟨⟨a, b⟩, c⟩

theorem pushAll_nil (w : WL) : pushAll w [] = w := rfl

/-- What a successful `popNext` returns, for every schedule. -/
theorem popNext_some (pick : Option (List Nat → Nat)) (w w' : WL) (x : Nat) (h : Inv w)
    (hp : popNext pick w = some (x, w')) :
    Inv w' ∧ x ∈ abs w ∧ (∀ y, y ∈ abs w' → y ∈ abs w) ∧ (∀ y, y ∈ abs w → y = x ∨ y ∈ abs w') := by
  obtain ⟨e1, e2, e3⟩ := step_refines w h .isEmpty
  unfold popNext at hp
  generalize hq : Worklist.step w .isEmpty = q at hp e1 e2 e3
  obtain ⟨w1, o⟩ := q
  simp only [Worklist.Spec.step] at e1 e2
  simp only at e1 e2 e3
  subst e1
  cases hne : (abs w).isEmpty with
  | true => simp [hne] at hp
  | false =>
    simp only [hne, Bool.not_false] at hp
    cases pick with
    | none =>
      simp only at hp
      obtain ⟨p1, p2, p3⟩ := step_refines w1 e3 .pop
      generalize hq2 : Worklist.step w1 .pop = q2 at hp p1 p2 p3
      obtain ⟨w2, o2⟩ := q2
      simp only at p1 p2 p3
      rw [e2] at p1 p2
      cases hl : abs w with
      | nil => simp [hl] at hne
      | cons a r =>
        rw [hl] at p1 p2
        simp only [Worklist.Spec.step] at p1 p2
        subst p1
        simp only [Option.some.injEq, Prod.mk.injEq] at hp
        obtain ⟨rfl, rfl⟩ := hp
        refine ⟨p3, by simp, ?_, ?_⟩
        · intro y hy; rw [p2] at hy; exact List.mem_cons_of_mem _ hy
        · intro y hy; rw [p2]; simpa using hy
    | some f =>
      simp only at hp
      cases hg : (abs w1)[f (abs w1) % (abs w1).length]? with
      | none => simp [hg] at hp
      | some z =>
        simp only [hg, Option.some.injEq, Prod.mk.injEq] at hp
        obtain ⟨rfl, rfl⟩ := hp
        obtain ⟨r1, r2⟩ := remove_spec w1 e3 z
        have hz : z ∈ abs w := by rw [← e2]; exact List.mem_of_getElem? hg
        refine ⟨r1, hz, ?_, ?_⟩
        · intro y hy; rw [← e2]; exact ((r2 y).mp hy).1
        · intro y hy
          by_cases hyz : y = z
          · exact Or.inl hyz
          · right; rw [r2 y, e2]; exact ⟨hy, hyz⟩

/-- `popNext` fails only on an (abstractly) empty worklist, for every schedule. -/
theorem popNext_none (pick : Option (List Nat → Nat)) (w : WL) (h : Inv w)
    (hp : popNext pick w = none) : abs w = [] := by
  obtain ⟨e1, e2, e3⟩ := step_refines w h .isEmpty
  unfold popNext at hp
  generalize hq : Worklist.step w .isEmpty = q at hp e1 e2 e3
  obtain ⟨w1, o⟩ := q
  simp only [Worklist.Spec.step] at e1 e2
  simp only at e1 e2 e3
  subst e1
  cases hl : abs w with
  | nil => rfl
  | cons a r =>
    exfalso
    simp only [hl, List.isEmpty_cons, Bool.not_false] at hp
    cases pick with
    | none =>
      simp only at hp
      obtain ⟨p1, p2, p3⟩ := step_refines w1 e3 .pop
      generalize hq2 : Worklist.step w1 .pop = q2 at hp p1 p2 p3
      obtain ⟨w2, o2⟩ := q2
      simp only at p1
      rw [e2, hl] at p1
      simp only [Worklist.Spec.step] at p1
      subst p1
      simp at hp
    | some f =>
      simp only at hp
      have hlen : 0 < (abs w1).length := by rw [e2, hl]; simp
      have hlt : f (abs w1) % (abs w1).length < (abs w1).length := Nat.mod_lt _ hlen
      cases hg : (abs w1)[f (abs w1) % (abs w1).length]? with
      | none => rw [List.getElem?_eq_none_iff] at hg; omega
      | some z => simp [hg] at hp

/-! ### frame lemmas for `exec` -/

theorem not_setsFlag_iff (a : Action) : a.setsFlag = false ↔ a = .rauw false [] := by
  cases a <;> simp [Action.setsFlag]

/-- The events the model delivers for one call (read off `exec`). -/
def Action.events : Action → List Event
  | .insert op _ => [.inserted op]
  | .replaced op _ => [.replaced op]
  | .rauw _ users => users.map .modified
  | .erase op _ _ => [.removed op]
  | .modify op => [.modified op]
  | .blockArg => []
  | .inlineBlock _ _ => []
  | .createBlock => [.blockCreated]

/-- Effect of one call on the attached set. -/
def attAfter (att : List Nat) : Action → List Nat
  | .insert op nested => att ++ (op :: nested).filter fun y => !att.contains y
  | .erase op nested _ => att.filter fun y => !(op :: nested).contains y
  | _ => att

theorem exec_trace (r : Bool) (s : St) (a : Action) : (exec r s a).trace = s.trace := by
  cases a <;> simp [exec]

theorem exec_changed (r : Bool) (s : St) (a : Action) : (exec r s a).changed = s.changed := by
  cases a <;> simp [exec]

theorem exec_flag (r : Bool) (s : St) (a : Action) : (exec r s a).flag = (s.flag || a.setsFlag) := by
  cases a <;> simp [exec, Action.setsFlag, Bool.or_assoc]

theorem exec_log (r : Bool) (s : St) (a : Action) : (exec r s a).log = s.log ++ a.events := by
  cases a <;> simp [exec, Action.events]

theorem exec_executed (r : Bool) (s : St) (a : Action) : (exec r s a).executed = s.executed ++ [a] := by
  cases a <;> simp [exec]

theorem exec_attached (r : Bool) (s : St) (a : Action) : (exec r s a).attached = attAfter s.attached a := by
  cases a <;> simp [exec, attAfter]

theorem execAll_trace (r : Bool) (s : St) (as : List Action) : (execAll r s as).trace = s.trace := by
  induction as generalizing s with
  | nil => rfl
  | cons a t ih => simp only [execAll, List.foldl_cons] at ih ⊢; rw [ih, exec_trace]

theorem execAll_changed (r : Bool) (s : St) (as : List Action) : (execAll r s as).changed = s.changed := by
  induction as generalizing s with
  | nil => rfl
  | cons a t ih => simp only [execAll, List.foldl_cons] at ih ⊢; rw [ih, exec_changed]

theorem execAll_flag (r : Bool) (s : St) (as : List Action) :
    (execAll r s as).flag = (s.flag || as.any Action.setsFlag) := by
  induction as generalizing s with
  | nil => simp [execAll]
  | cons a t ih =>
    simp only [execAll, List.foldl_cons] at ih ⊢
    rw [ih, exec_flag]; simp [Bool.or_assoc]

theorem execAll_log (r : Bool) (s : St) (as : List Action) :
    (execAll r s as).log = s.log ++ as.flatMap Action.events := by
  induction as generalizing s with
  | nil => simp [execAll]
  | cons a t ih =>
    simp only [execAll, List.foldl_cons] at ih ⊢
    rw [ih, exec_log]; simp

theorem execAll_executed (r : Bool) (s : St) (as : List Action) :
    (execAll r s as).executed = s.executed ++ as := by
  induction as generalizing s with
  | nil => simp [execAll]
  | cons a t ih =>
    simp only [execAll, List.foldl_cons] at ih ⊢
    rw [ih, exec_executed]; simp

theorem execAll_attached (r : Bool) (s : St) (as : List Action) :
    (execAll r s as).attached = as.foldl attAfter s.attached := by
  induction as generalizing s with
  | nil => rfl
  | cons a t ih =>
    simp only [execAll, List.foldl_cons] at ih ⊢
    rw [ih, exec_attached]

/-- A call that does not set the flag leaves worklist and attached set alone. -/
theorem exec_quiet (r : Bool) (s : St) (a : Action) (h : a.setsFlag = false) :
    (exec r s a).wl = s.wl ∧ (exec r s a).attached = s.attached := by
  rw [not_setsFlag_iff] at h; subst h
  cases r <;> simp [exec, pushAll]

theorem execAll_quiet (r : Bool) (s : St) (as : List Action) (h : ∀ a ∈ as, a.setsFlag = false) :
    (execAll r s as).wl = s.wl ∧ (execAll r s as).attached = s.attached := by
  induction as generalizing s with
  | nil => exact ⟨rfl, rfl⟩
  | cons a t ih =>
    simp only [execAll, List.foldl_cons] at ih ⊢
    obtain ⟨q1, q2⟩ := exec_quiet r s a (h a (by simp))
    obtain ⟨i1, i2⟩ := ih (exec r s a) (fun b hb => h b (by simp [hb]))
    exact ⟨i1.trans q1, i2.trans q2⟩

/-! ### worklist invariant through `exec` -/

theorem exec_wlInv (r : Bool) (s : St) (a : Action) (h : Inv s.wl) : Inv (exec r s a).wl := by
  cases a <;> cases r <;> simp only [exec, if_true, if_false, Bool.false_eq_true] <;>
    first
    | exact h
    | exact (pushAll_spec _ h _).1
    | exact (removeAll_spec _ h _).1
    | exact (removeAll_spec _ (pushAll_spec _ h _).1 _).1

theorem execAll_wlInv (r : Bool) (s : St) (as : List Action) (h : Inv s.wl) :
    Inv (execAll r s as).wl := by
  induction as generalizing s with
  | nil => exact h
  | cons a t ih => simp only [execAll, List.foldl_cons] at ih ⊢; exact ih _ (exec_wlInv r s a h)

/-- The ops a call hands to the listeners (and hence possibly to the worklist) are attached. -/
def Action.wf (att : List Nat) : Action → Prop
  | .replaced _ users => ∀ u ∈ users, u ∈ att
  | .rauw _ users => ∀ u ∈ users, u ∈ att
  | .erase _ _ defs => ∀ d ∈ defs, d ∈ att
  | .modify op => op ∈ att
  | _ => True

/-- Every call of the list is well-formed at the moment it is made. -/
def wfActs : List Nat → List Action → Prop
  | _, [] => True
  | att, a :: as => a.wf att ∧ wfActs (attAfter att a) as

/-- worklist ⊆ attached ops -/
def Sub (s : St) : Prop := ∀ x ∈ abs s.wl, x ∈ s.attached

theorem exec_sub (r : Bool) (s : St) (a : Action) (h : Inv s.wl) (hs : Sub s)
    (hw : a.wf s.attached) : Sub (exec r s a) := by
  intro y hy
  cases a with
  | insert op nested =>
    cases r
    · simp only [exec, Bool.false_eq_true, if_false] at hy ⊢
      exact List.mem_append_left _ (hs y hy)
    · simp only [exec, if_true] at hy ⊢
      rw [(pushAll_spec _ h _).2] at hy
      rcases hy with hy | hy
      · exact List.mem_append_left _ (hs y hy)
      · simp only [List.mem_singleton] at hy; subst hy
        by_cases hc : y ∈ s.attached
        · exact List.mem_append_left _ hc
        · apply List.mem_append_right
          simp [hc]
  | replaced op users =>
    cases r
    · simp only [exec, Bool.false_eq_true, if_false] at hy ⊢; exact hs y hy
    · simp only [exec, if_true] at hy ⊢
      rw [(pushAll_spec _ h _).2] at hy
      rcases hy with hy | hy
      · exact hs y hy
      · exact hw y hy
  | rauw b users =>
    cases r
    · simp only [exec, Bool.false_eq_true, if_false] at hy ⊢; exact hs y hy
    · simp only [exec, if_true] at hy ⊢
      rw [(pushAll_spec _ h _).2] at hy
      rcases hy with hy | hy
      · exact hs y hy
      · exact hw y hy
  | erase op nested defs =>
    cases r
    · simp only [exec, Bool.false_eq_true, if_false] at hy ⊢
      rw [(removeAll_spec _ h _).2] at hy
      simp only [List.mem_filter, List.contains_eq_mem, Bool.not_eq_true', decide_eq_false_iff_not]
      exact ⟨hs y hy.1, hy.2⟩
    · simp only [exec, if_true] at hy ⊢
      rw [(removeAll_spec _ (pushAll_spec _ h _).1 _).2, (pushAll_spec _ h _).2] at hy
      simp only [List.mem_filter, List.contains_eq_mem, Bool.not_eq_true', decide_eq_false_iff_not]
      refine ⟨?_, hy.2⟩
      rcases hy.1 with h1 | h1
      · exact hs y h1
      · exact hw y h1
  | modify op =>
    cases r
    · simp only [exec, Bool.false_eq_true, if_false] at hy ⊢; exact hs y hy
    · simp only [exec, if_true] at hy ⊢
      rw [(pushAll_spec _ h _).2] at hy
      rcases hy with hy | hy
      · exact hs y hy
      · simp only [List.mem_singleton] at hy; subst hy; exact hw
  | blockArg => simp only [exec] at hy ⊢; exact hs y hy
  | inlineBlock m u => simp only [exec] at hy ⊢; exact hs y hy
  | createBlock => simp only [exec] at hy ⊢; exact hs y hy

theorem execAll_sub (r : Bool) (s : St) (as : List Action) (h : Inv s.wl) (hs : Sub s)
    (hw : wfActs s.attached as) : Sub (execAll r s as) := by
  induction as generalizing s with
  | nil => exact hs
  | cons a t ih =>
    simp only [execAll, List.foldl_cons] at ih ⊢
    obtain ⟨w1, w2⟩ := hw
    apply ih _ (exec_wlInv r s a h) (exec_sub r s a h hs w1)
    rw [exec_attached]; exact w2

end Xdsl.RewriteDriver
