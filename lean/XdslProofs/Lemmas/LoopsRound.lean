import XdslModel.Loops
import XdslProofs.Lemmas.Loops
/-! Helper lemmas for C16 (flattening): trip counts of ranges whose upper bound is rounded up to a
whole number of steps (core Lean only). -/
namespace Xdsl.Loops

/-- characterisation of a positive trip count: the `k`-th induction value is the last one below `ub` -/
theorem tripCount_eq_succ {lb ub S : Int} (hS : 0 < S) (k : Int) (hk : 0 ≤ k)
    (h1 : lb + k * S < ub) (h2 : ub ≤ lb + k * S + S) : tripCount lb ub S = k.toNat + 1 := by
  have hkS : 0 ≤ k * S := Int.mul_nonneg hk (by omega)
  unfold tripCount
  rw [if_pos ⟨by omega, hS⟩]
  have e : ub - lb - 1 = (ub - lb - 1 - k * S) + k * S := by omega
  rw [e, Int.add_mul_ediv_right _ _ (by omega), Int.ediv_eq_zero_of_lt (by omega) (by omega)]
  omega

/-- `[lb, lb + S*n)` step `S` has `n` iterations -/
theorem tripCount_whole {lb S : Int} (hS : 0 < S) (n : Int) (hn : 0 ≤ n) :
    tripCount lb (lb + S * n) S = n.toNat := by
  by_cases h0 : n = 0
  · subst h0
    rw [tripCount_of_not_lt (by omega)]; rfl
  · have e : S * n = (n - 1) * S + S := by rw [Int.sub_mul, Int.mul_comm S n]; omega
    rw [tripCount_eq_succ hS (n - 1) (by omega) (by omega) (by omega)]
    omega

/-- `ceilDiv d S * S` is the least multiple of `S` that is `≥ d` -/
theorem ceilDiv_spec {d S : Int} (hS : 0 < S) : d ≤ ceilDiv d S * S ∧ ceilDiv d S * S < d + S := by
  unfold ceilDiv
  rw [Int.fdiv_eq_ediv_of_nonneg _ (by omega)]
  have h1 := Int.ediv_mul_add_emod (-d) S
  have h2 := Int.emod_nonneg (-d) (show S ≠ 0 by omega)
  have h3 := Int.emod_lt_of_pos (-d) hS
  rw [Int.neg_mul]
  omega

theorem ceilDiv_nonpos {d S : Int} (hS : 0 < S) (hd : d ≤ 0) : ceilDiv d S * S ≤ 0 := by
  unfold ceilDiv
  rw [Int.fdiv_eq_ediv_of_nonneg _ (by omega), Int.neg_mul]
  have := Int.mul_nonneg (Int.ediv_nonneg (show 0 ≤ -d by omega) (show 0 ≤ S by omega)) (show 0 ≤ S by omega)
  omega

/-- what the flattened loops need of a rounded upper bound `r` of `[lb, ub)` step `S` -/
def Rounded (lb ub S r : Int) : Prop :=
  (ub ≤ lb → r ≤ lb) ∧ (lb < ub → ub ≤ r ∧ r < ub + S ∧ S ∣ (r - lb))

/-- `_whole_steps_ub` delivers such a bound in each of its three cases (`olb`/`oub` are the
constant values of the bounds where the pass could evaluate them) -/
theorem wholeStepsUb_rounded (olb oub : Option Int) (lb ub S : Int) (hS : 0 < S)
    (hl : ∀ v, olb = some v → v = lb) (hu : ∀ v, oub = some v → v = ub) :
    Rounded lb ub S ((wholeStepsUb olb oub S).val lb ub S) := by
  have harith : Rounded lb ub S (NewUb.val lb ub S .arith) := by
    simp only [NewUb.val]
    have ⟨c1, c2⟩ := ceilDiv_spec (d := ub - lb) hS
    refine ⟨fun h => ?_, fun h => ⟨by omega, by omega, ?_⟩⟩
    · have := ceilDiv_nonpos (d := ub - lb) hS (by omega)
      omega
    · have e : lb + ceilDiv (ub - lb) S * S - lb = ceilDiv (ub - lb) S * S := by omega
      rw [e]; exact Int.dvd_mul_left _ _
  cases olb with
  | none => exact harith
  | some l =>
    cases oub with
    | none => exact harith
    | some u =>
      have el := hl l rfl
      have eu := hu u rfl
      subst el; subst eu
      simp only [wholeStepsUb]
      have hm : Int.fmod (l - u) S = (l - u) % S := Int.fmod_eq_emod_of_nonneg _ (by omega)
      have h1 := Int.ediv_mul_add_emod (l - u) S
      have h2 := Int.emod_nonneg (l - u) (show S ≠ 0 by omega)
      have h3 := Int.emod_lt_of_pos (l - u) hS
      by_cases hc : u ≤ l ∨ Int.fmod (l - u) S = 0
      · rw [if_pos hc]
        simp only [NewUb.val]
        refine ⟨fun h => h, fun h => ⟨by omega, by omega, ?_⟩⟩
        cases hc with
        | inl h' => omega
        | inr h' =>
          rw [hm] at h'
          have : u - l = (-((l - u) / S)) * S := by rw [Int.neg_mul]; omega
          rw [this]; exact Int.dvd_mul_left _ _
      · rw [if_neg hc]
        simp only [NewUb.val]
        rw [hm]
        refine ⟨fun h => absurd (Or.inl h) hc, fun h => ⟨by omega, by omega, ?_⟩⟩
        have : u + (l - u) % S - l = (-((l - u) / S)) * S := by rw [Int.neg_mul]; omega
        rw [this]; exact Int.dvd_mul_left _ _

/-- rounding the upper bound up to a whole number of steps keeps the trip count -/
theorem tripCount_rounded {lb ub S r : Int} (hS : 0 < S) (h : Rounded lb ub S r) :
    tripCount lb r S = tripCount lb ub S := by
  by_cases hlt : lb < ub
  · obtain ⟨h1, h2, q, hq⟩ := h.2 hlt
    have hq1 : 1 ≤ q := by
      apply Classical.byContradiction; intro hh
      have : S * q ≤ 0 := Int.mul_nonpos_of_nonneg_of_nonpos (by omega) (by omega)
      omega
    have e : S * q = (q - 1) * S + S := by rw [Int.sub_mul, Int.mul_comm S q]; omega
    rw [tripCount_eq_succ hS (q - 1) (by omega) (by omega) (by omega),
        tripCount_eq_succ hS (q - 1) (by omega) (by omega) (by omega)]
  · have := h.1 (by omega)
    rw [tripCount_of_not_lt hlt, tripCount_of_not_lt (by omega)]

/-- `scf.for` depends on its upper bound only through the trip count -/
theorem forLoop_congr_trip {σ : Type} {lb a b S : Int} (h : tripCount lb a S = tripCount lb b S)
    (body : Int → σ → Option σ) (s : σ) : forLoop lb a S body s = forLoop lb b S body s := by
  unfold forLoop
  rw [h]

/-- the clamped ceiling the pass computes for the inner loop is its trip count -/
theorem tripCount_eq_ceil {il iu s : Int} (hs : 0 < s) :
    (tripCount il iu s : Int) = max 0 (-(Int.fdiv (il - iu) s)) := by
  rw [Int.fdiv_eq_ediv_of_nonneg _ (by omega)]
  have h1 := Int.ediv_mul_add_emod (il - iu) s
  have h2 := Int.emod_nonneg (il - iu) (show s ≠ 0 by omega)
  have h3 := Int.emod_lt_of_pos (il - iu) hs
  by_cases hlt : il < iu
  · have hneg : (il - iu) / s < 0 := by
      apply Classical.byContradiction; intro hh
      have := Int.mul_nonneg (show 0 ≤ (il - iu) / s by omega) (show 0 ≤ s by omega)
      omega
    have e : (-((il - iu) / s) - 1) * s = -((il - iu) / s * s) - s := by
      rw [Int.sub_mul, Int.neg_mul]; omega
    rw [tripCount_eq_succ hs (-((il - iu) / s) - 1) (by omega) (by omega) (by omega), Int.max_def]
    split <;> omega
  · rw [tripCount_of_not_lt hlt, Int.max_def]
    have := Int.ediv_nonneg (show 0 ≤ il - iu by omega) (show 0 ≤ s by omega)
    split <;> omega

/-- product loop: `[0, r * m)` step `S` has `m` times the iterations of `[0, r)` step `S` when `r`
is a whole number of steps (or the range is empty) -/
theorem tripCount_mul_whole {S r : Int} (hS : 0 < S) (m : Nat) (h : r ≤ 0 ∨ S ∣ r) :
    tripCount 0 (r * (m : Int)) S = tripCount 0 r S * m := by
  by_cases hr : r ≤ 0
  · have : r * (m : Int) ≤ 0 := Int.mul_nonpos_of_nonpos_of_nonneg hr (by omega)
    rw [tripCount_of_not_lt (by omega), tripCount_of_not_lt (by omega)]; simp
  · cases h with
    | inl h => omega
    | inr h =>
      obtain ⟨q, rfl⟩ := h
      have hq : 0 ≤ q := by
        apply Classical.byContradiction; intro hh
        have : S * q ≤ 0 := Int.mul_nonpos_of_nonneg_of_nonpos (by omega) (by omega)
        omega
      have t1 := tripCount_whole (lb := 0) hS q hq
      have t2 := tripCount_whole (lb := 0) hS (q * (m : Int)) (Int.mul_nonneg hq (by omega))
      simp only [Int.zero_add] at t1 t2
      rw [Int.mul_assoc, t1, t2, Int.toNat_mul hq (by omega)]
      simp

end Xdsl.Loops
