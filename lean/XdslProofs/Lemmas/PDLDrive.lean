import XdslProofs.C27
/-!
Helper lemmas about the model of `PatternRewriteWalker` (`driveWith`, XdslModel/PDL.lean) for XdslProofs/C27Drive.lean.
-/
namespace Xdsl.PDL
open Xdsl

/-! ### the listener's bookkeeping never influences the payload of one visit -/

theorem stepsW_fst (rootId : OpId) (b : Binding) :
    ∀ (rw : List Action) (st : RState) (sd : Side),
      (stepsW rootId b st sd rw).map (·.1) = steps rootId b st rw := by
  intro rw
  induction rw with
  | nil => intro st sd; simp [stepsW, steps]
  | cons a r ih =>
    intro st sd
    simp only [stepsW, steps]
    cases h : step rootId b st a with
    | none => simp
    | some st' => simpa using ih st' (sideStep b st sd a)

/-- one visit by the walker is one application of the specification's `rewriteAt`: either the operation does not
match and nothing at all changes, or the payload becomes what `rewriteAt` says (an `error` of the specification is an
aborted walk: no successor state) -/
theorem visitW_spec {p : Pattern} {rw : List Action} {ir ir' : IR} {sd sd' : Side} {o : OpId} {ch : Bool}
    (h : visitW (matchRoot p) rw ir sd o = some (ir', sd', ch)) :
    (matchRoot p ir o = none ∧ ir' = ir ∧ sd' = sd ∧ ch = false) ∨
    (rewriteAt p rw ir o = .done ir' ∧ ch = !rw.isEmpty) := by
  unfold visitW at h
  unfold rewriteAt applyRw
  cases hm : matchRoot p ir o with
  | none =>
    rw [hm] at h
    simp only [Option.some.injEq, Prod.mk.injEq] at h
    obtain ⟨e1, e2, e3⟩ := h
    exact Or.inl ⟨rfl, e1.symm, e2.symm, e3.symm⟩
  | some b =>
    rw [hm] at h
    simp only at h
    have hf := stepsW_fst o b rw { ir := ir, created := [] } sd
    cases hw : stepsW o b { ir := ir, created := [] } sd rw with
    | none => rw [hw] at h; cases h
    | some x =>
      obtain ⟨st, sd1⟩ := x
      rw [hw] at h hf
      simp only [Option.some.injEq, Prod.mk.injEq] at h
      obtain ⟨e1, _, e3⟩ := h
      simp only [Option.map_some] at hf
      right
      dsimp only
      rw [← hf]
      simp only [Option.map_some]
      exact ⟨by rw [e1], e3.symm⟩

/-! ### reachability by rewrites of the pattern -/

/-- `ir'` is reached from `ir` by applications of the pattern at operations of the payload, nothing else -/
inductive Reach (p : Pattern) (rw : List Action) : IR → IR → Prop where
  | refl (ir : IR) : Reach p rw ir ir
  | step {ir ir₁ ir' : IR} (o : OpId) (h : rewriteAt p rw ir o = .done ir₁) (t : Reach p rw ir₁ ir') : Reach p rw ir ir'

theorem Reach.closed {p : Pattern} {rw : List Action} {ir ir' : IR} (h : Reach p rw ir ir')
    (hc : ir.closed = true) : ir'.closed = true := by
  induction h with
  | refl => exact hc
  | step o h _ ih => exact ih (rewriteAt_wf hc h)

theorem driveLoop_reach (p : Pattern) (rw : List Action) (rev : Bool) :
    ∀ (fuel : Nat) (s : DState) (ir' : IR), driveLoop (matchRoot p) rw rev fuel s = .done ir' → Reach p rw s.ir ir' := by
  intro fuel
  induction fuel with
  | zero => intro s ir' h; simp [driveLoop] at h
  | succ f ih =>
    intro s ir' h
    simp only [driveLoop] at h
    split at h
    · split at h
      · have hr := ih _ _ h
        exact hr
      · cases h; exact Reach.refl _
    · rename_i o rest hwl
      split at h
      · cases h
      · rename_i ir1 sd1 ch hvis
        have hr := ih _ _ h
        simp only at hr
        rcases visitW_spec hvis with ⟨_, e, _, _⟩ | ⟨hd, _⟩
        · rw [e] at hr; exact hr
        · exact Reach.step o hd hr

/-! ### normal form -/

theorem mem_wlPush {o x : OpId} {wl : List OpId} : x ∈ wlPush o wl ↔ x = o ∨ x ∈ wl := by
  unfold wlPush
  split
  · rename_i h
    constructor
    · exact Or.inr
    · rintro (e | h')
      · subst e; exact h
      · exact h'
  · simp

theorem mem_foldl_wlPush {x : OpId} : ∀ (l : List OpId) (wl : List OpId),
    x ∈ l.foldl (fun wl o => wlPush o wl) wl ↔ x ∈ l ∨ x ∈ wl := by
  intro l
  induction l with
  | nil => intro wl; simp
  | cons a r ih =>
    intro wl
    simp only [List.foldl_cons, ih, mem_wlPush, List.mem_cons]
    constructor
    · rintro (h | h | h)
      · exact Or.inl (Or.inr h)
      · exact Or.inl (Or.inl h)
      · exact Or.inr h
    · rintro ((h | h) | h)
      · exact Or.inr (Or.inl h)
      · exact Or.inl h
      · exact Or.inr (Or.inr h)

/-- after `_populate_worklist` every operation of the payload is on the worklist (both walk orders) -/
theorem mem_populate {rev : Bool} {ir : IR} {x : Op} (hx : x ∈ ir.ops) : x.id ∈ populate rev ir [] := by
  unfold populate
  simp only
  rw [mem_foldl_wlPush]
  left
  split
  · exact List.mem_map.2 ⟨x, hx, rfl⟩
  · exact List.mem_reverse.2 (List.mem_map.2 ⟨x, hx, rfl⟩)

/-- invariant of a walk that has not changed anything so far: every operation is still to be visited or was found
not to match the CURRENT payload -/
def Pending (m : IR → OpId → Option Binding) (s : DState) : Prop :=
  s.changed = false → ∀ x ∈ s.ir.ops, x.id ∈ s.sd.wl ∨ m s.ir x.id = none

theorem driveLoop_normal (m : IR → OpId → Option Binding) (rw : List Action) (hrw : rw ≠ []) (rev : Bool) :
    ∀ (fuel : Nat) (s : DState) (ir' : IR), Pending m s → driveLoop m rw rev fuel s = .done ir' →
      ∀ x ∈ ir'.ops, m ir' x.id = none := by
  intro fuel
  induction fuel with
  | zero => intro s ir' _ h; simp [driveLoop] at h
  | succ f ih =>
    intro s ir' hinv h
    simp only [driveLoop] at h
    split at h
    · rename_i hwl
      split at h
      · refine ih _ _ ?_ h
        intro _ x hx
        exact Or.inl (mem_populate hx)
      · rename_i hch
        cases h
        intro x hx
        have := hinv (by simpa using hch) x hx
        rw [hwl] at this
        simpa using this
    · rename_i o rest hwl
      split at h
      · cases h
      · rename_i ir1 sd1 ch hvis
        refine ih _ _ ?_ h
        intro hch x hx
        simp only [Bool.or_eq_false_iff] at hch
        obtain ⟨hch1, hch2⟩ := hch
        unfold visitW at hvis
        cases hm : m s.ir o with
        | none =>
          rw [hm] at hvis
          simp only [Option.some.injEq, Prod.mk.injEq] at hvis
          obtain ⟨e1, e2, _⟩ := hvis
          subst e1 e2
          simp only at hx ⊢
          rcases hinv hch1 x hx with h1 | h1
          · rw [hwl] at h1
            rcases List.mem_cons.mp h1 with e | h2
            · right; rw [e]; exact hm
            · left; exact h2
          · right; exact h1
        | some b =>
          rw [hm] at hvis
          simp only at hvis
          split at hvis
          · cases hvis
          · simp only [Option.some.injEq, Prod.mk.injEq] at hvis
            obtain ⟨_, _, e3⟩ := hvis
            rw [← e3] at hch2
            cases rw with
            | nil => exact absurd rfl hrw
            | cons a r => simp at hch2

end Xdsl.PDL
