import XdslModel.RiscVLabels
/-!
Helper lemmas for `XdslProofs/C22Labels.lean` (symbol table scan, label numbering): no property statements here.
-/
namespace Xdsl.RiscV.Labels

theorem firstDup_none_iff (seen l : List Nat) :
    firstDup seen l = none ↔ l.Nodup ∧ ∀ x ∈ l, x ∉ seen := by
  induction l generalizing seen with
  | nil => simp [firstDup]
  | cons n r ih =>
    simp only [firstDup]
    by_cases h : n ∈ seen
    · simp [h]
    · simp only [h, if_false, ih, List.nodup_cons, List.mem_cons]
      constructor
      · rintro ⟨hn, hs⟩
        refine ⟨⟨fun hm => ?_, hn⟩, ?_⟩
        · exact (hs n hm) (Or.inl rfl)
        · intro x hx
          rcases hx with rfl | hx
          · exact h
          · exact fun hxs => hs x hx (Or.inr hxs)
      · rintro ⟨⟨hnr, hn⟩, hs⟩
        refine ⟨hn, fun x hx hxs => ?_⟩
        rcases hxs with rfl | hxs
        · exact hnr hx
        · exact hs x (Or.inr hx) hxs


theorem firstPos_none_of_not_mem (n : Nat) (u : List Item) (k : Nat) (h : n ∉ defs u) :
    firstPos n u k = none := by
  induction u generalizing k with
  | nil => rfl
  | cons it r ih =>
    cases it with
    | label m =>
      simp only [defs, List.mem_cons, not_or] at h
      simp [firstPos, Ne.symm h.1, ih (k + 1) h.2]
    | ins t => simpa [firstPos] using ih (k + 1) (by simpa [defs] using h)

theorem lastPos_none_of_not_mem (n : Nat) (u : List Item) (k : Nat) (h : n ∉ defs u) :
    lastPos n u k = none := by
  induction u generalizing k with
  | nil => rfl
  | cons it r ih =>
    cases it with
    | label m =>
      simp only [defs, List.mem_cons, not_or] at h
      simp [lastPos, Ne.symm h.1, ih (k + 1) h.2]
    | ins t => simpa [lastPos] using ih (k + 1) (by simpa [defs] using h)


theorem mem_funcLabels {kinds : List Nat} {c n : Nat} {l : Lbl} :
    l ∈ funcLabels kinds c n ↔ l.kind ∈ kinds ∧ c ≤ l.idx ∧ l.idx < c + n := by
  simp only [funcLabels, loopLabels, List.mem_flatMap, List.mem_range'_1, List.mem_map]
  constructor
  · rintro ⟨k, ⟨h1, h2⟩, c', hc, rfl⟩
    exact ⟨hc, h1, h2⟩
  · rintro ⟨hk, h1, h2⟩
    exact ⟨l.idx, ⟨h1, h2⟩, l.kind, hk, rfl⟩

theorem loopLabels_nodup {kinds : List Nat} (hk : kinds.Nodup) (c : Nat) : (loopLabels kinds c).Nodup := by
  induction kinds with
  | nil => simp [loopLabels]
  | cons k r ih =>
    simp only [List.nodup_cons] at hk
    simp only [loopLabels, List.map_cons, List.nodup_cons, List.mem_map, Lbl.mk.injEq, and_true,
      exists_eq_right]
    exact ⟨hk.1, ih hk.2⟩

theorem funcLabels_nodup {kinds : List Nat} (hk : kinds.Nodup) (c n : Nat) :
    (funcLabels kinds c n).Nodup := by
  induction n generalizing c with
  | zero => simp [funcLabels]
  | succ n ih =>
    have : funcLabels kinds c (n + 1) = loopLabels kinds c ++ funcLabels kinds (c + 1) n := by
      simp [funcLabels, List.range'_succ]
    rw [this, List.nodup_append]
    refine ⟨loopLabels_nodup hk c, ih (c + 1), ?_⟩
    intro a ha b hb hab
    subst hab
    have h2 := (mem_funcLabels.mp hb).2.1
    simp only [loopLabels, List.mem_map] at ha
    obtain ⟨c', _, rfl⟩ := ha
    simp only at h2
    omega

theorem mem_allocFrom_flatten {kinds : List Nat} {c : Nat} {ns : List Nat} {l : Lbl}
    (h : l ∈ (allocFrom kinds c ns).flatten) : c ≤ l.idx := by
  induction ns generalizing c with
  | nil => simp [allocFrom] at h
  | cons n r ih =>
    simp only [allocFrom, List.flatten_cons, List.mem_append] at h
    rcases h with h | h
    · exact (mem_funcLabels.mp h).2.1
    · have := ih h; omega

theorem allocFrom_nodup {kinds : List Nat} (hk : kinds.Nodup) (c : Nat) (ns : List Nat) :
    (allocFrom kinds c ns).flatten.Nodup := by
  induction ns generalizing c with
  | nil => simp [allocFrom]
  | cons n r ih =>
    simp only [allocFrom, List.flatten_cons, List.nodup_append]
    refine ⟨funcLabels_nodup hk c n, ih (c + n), ?_⟩
    intro a ha b hb hab
    subst hab
    have h1 := (mem_funcLabels.mp ha).2.2
    have h2 := mem_allocFrom_flatten hb
    omega


end Xdsl.RiscV.Labels
