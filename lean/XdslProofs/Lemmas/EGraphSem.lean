import XdslModel.EGraph
/-!
Semantics for the e-graph model (C28) and the consistency-preservation lemmas.

* `Interp V` — abstract semantics of operations: an arbitrary function of (name, key, operand values).
* `Node.Sat I ρ n` — the valuation `ρ : Nat → V` satisfies node `n`: an op node has the value of its
  function on its operands' values; every alternative of an e-class has the class's value.
* `Consistent I g env ρ` — `ρ` gives block argument `i` the value `env[i]` and satisfies every node.
* `evalSeq I g env` — ordinary sequential execution of the block (what running the function means);
  fails on a use before its definition.  A leftover e-class evaluates to its alternatives' value.
No Mathlib.
-/
namespace Xdsl.EGraph

abbrev Interp (V : Type) := String → String → List V → V

variable {V : Type}

def Node.Sat (I : Interp V) (ρ : Nat → V) : Node → Prop
  | .op r n k a _ => ρ r = I n k (a.map ρ)
  | .cls r a _ => ∀ x ∈ a, ρ x = ρ r

structure Consistent (I : Interp V) (g : Prog) (env : List V) (ρ : Nat → V) : Prop where
  len : env.length = g.nargs
  args : ∀ i (h : i < env.length), ρ i = env[i]
  nodes : ∀ n ∈ g.body, n.Sat I ρ

/-! ## sequential execution -/

abbrev Env (V : Type) := Nat → Option V

def Env.set (σ : Env V) (r : Nat) (v : V) : Env V := fun x => if x = r then some v else σ x

def initEnv (env : List V) : Env V := fun i => env[i]?

def evalNode (I : Interp V) (σ : Env V) : Node → Option (Env V)
  | .op r n k a _ => (a.mapM σ).map fun vs => σ.set r (I n k vs)
  | .cls r a _ => match a.mapM σ with
    | some (v :: _) => some (σ.set r v)
    | _ => none

def evalNodes (I : Interp V) : List Node → Env V → Option (Env V)
  | [], σ => some σ
  | n :: rest, σ => (evalNode I σ n).bind (evalNodes I rest)

def evalSeq (I : Interp V) (g : Prog) (env : List V) : Option (List V) :=
  if env.length = g.nargs then (evalNodes I g.body (initEnv env)).bind fun σ => g.ret.mapM σ else none

/-- `σ` only holds values that `ρ` agrees with -/
def Agrees (σ : Env V) (ρ : Nat → V) : Prop := ∀ x v, σ x = some v → v = ρ x

theorem mapM_agrees {σ : Env V} {ρ : Nat → V} (h : Agrees σ ρ) :
    ∀ (a : List Nat) (vs : List V), a.mapM σ = some vs → vs = a.map ρ := by
  intro a
  induction a with
  | nil => intro vs h'; simp at h'; simp [h']
  | cons x a ih =>
    intro vs h'
    rw [List.mapM_cons] at h'
    cases hx : σ x with
    | none => simp [hx] at h'
    | some v =>
      cases ha : a.mapM σ with
      | none => simp [hx, ha] at h'
      | some ws =>
        simp [hx, ha] at h'
        subst h'
        simp [h x v hx, ih ws ha]

theorem Agrees.set {σ : Env V} {ρ : Nat → V} (h : Agrees σ ρ) (r : Nat) (v : V) (hv : v = ρ r) :
    Agrees (σ.set r v) ρ := by
  intro x w hw
  unfold Env.set at hw
  split at hw
  · rename_i e; subst e; simp at hw; rw [← hw, hv]
  · exact h x w hw

theorem evalNode_agrees (I : Interp V) {σ σ' : Env V} {ρ : Nat → V} {n : Node}
    (hs : n.Sat I ρ) (h : Agrees σ ρ) (he : evalNode I σ n = some σ') : Agrees σ' ρ := by
  cases n with
  | op r nm k a c =>
    simp only [evalNode] at he
    cases ha : a.mapM σ with
    | none => simp [ha] at he
    | some vs =>
      simp [ha] at he
      subst he
      apply h.set
      rw [mapM_agrees h a vs ha]
      exact hs.symm
  | cls r a m =>
    simp only [evalNode] at he
    cases ha : a.mapM σ with
    | none => simp [ha] at he
    | some vs =>
      have hvs := mapM_agrees h a vs ha
      cases vs with
      | nil => simp [ha] at he
      | cons v vs =>
        simp [ha] at he
        subst he
        apply h.set
        cases a with
        | nil => simp at hvs
        | cons x a =>
          simp at hvs
          rw [hvs.1]
          exact hs x (by simp)

theorem evalNodes_agrees (I : Interp V) {ρ : Nat → V} :
    ∀ (body : List Node) (σ σ' : Env V), (∀ n ∈ body, n.Sat I ρ) → Agrees σ ρ →
      evalNodes I body σ = some σ' → Agrees σ' ρ := by
  intro body
  induction body with
  | nil => intro σ σ' _ h he; simp [evalNodes] at he; subst he; exact h
  | cons n rest ih =>
    intro σ σ' hs h he
    simp only [evalNodes] at he
    cases hn : evalNode I σ n with
    | none => simp [hn] at he
    | some σ1 =>
      simp [hn] at he
      exact ih σ1 σ' (fun m hm => hs m (by simp [hm])) (evalNode_agrees I (hs n (by simp)) h hn) he

theorem initEnv_agrees {env : List V} {ρ : Nat → V} (h : ∀ i (h : i < env.length), ρ i = env[i]) :
    Agrees (initEnv env) ρ := by
  intro x v hv
  unfold initEnv at hv
  obtain ⟨hx, e⟩ := List.getElem?_eq_some_iff.mp hv
  rw [← e, h x hx]

/-- a successful sequential run of a consistent graph returns the valuation's values of the roots -/
theorem evalSeq_of_consistent (I : Interp V) {g : Prog} {env : List V} {ρ : Nat → V} {rs : List V}
    (hc : Consistent I g env ρ) (he : evalSeq I g env = some rs) : rs = g.ret.map ρ := by
  unfold evalSeq at he
  simp only [hc.len, if_true] at he
  cases hb : evalNodes I g.body (initEnv env) with
  | none => simp [hb] at he
  | some σ =>
    simp [hb] at he
    exact mapM_agrees (evalNodes_agrees I g.body _ σ hc.nodes (initEnv_agrees hc.args) hb) g.ret rs he

/-! ## renaming operands by an id with the same value -/

theorem map_substId (ρ : Nat → V) {old new : Nat} (h : ρ old = ρ new) (a : List Nat) :
    (a.map (substId old new)).map ρ = a.map ρ := by
  induction a with
  | nil => rfl
  | cons x a ih =>
    simp only [List.map_cons, ih]
    congr 1
    unfold substId
    split
    · rename_i e; rw [e, h]
    · rfl

theorem mem_map_substId {old new x : Nat} {a : List Nat} (h : x ∈ a.map (substId old new)) :
    x ∈ a ∨ (x = new ∧ old ∈ a) := by
  simp only [List.mem_map] at h
  obtain ⟨y, hy, e⟩ := h
  unfold substId at e
  split at e
  · rename_i e'; subst e'; right; exact ⟨e.symm, hy⟩
  · left; rw [← e]; exact hy

theorem Sat_mapArgs (I : Interp V) (ρ : Nat → V) {old new : Nat} (h : ρ old = ρ new) (n : Node)
    (hs : n.Sat I ρ) : (n.mapArgs (substId old new)).Sat I ρ := by
  cases n with
  | op r nm k a c =>
    simp only [Node.mapArgs, Node.Sat] at *
    rw [map_substId ρ h]; exact hs
  | cls r a m =>
    simp only [Node.mapArgs, Node.Sat] at *
    intro x hx
    rcases mem_map_substId hx with hx | ⟨e, ho⟩
    · exact hs x hx
    · rw [e, ← h]; exact hs old ho

theorem replUsesNonCls_consistent (I : Interp V) {g : Prog} {env : List V} {ρ : Nat → V} {old new : Nat}
    (hc : Consistent I g env ρ) (h : ρ old = ρ new) :
    Consistent I (replUsesNonCls old new g) env ρ ∧ (replUsesNonCls old new g).ret.map ρ = g.ret.map ρ := by
  refine ⟨⟨hc.len, hc.args, ?_⟩, map_substId ρ h g.ret⟩
  intro n hn
  simp only [replUsesNonCls, List.mem_map] at hn
  obtain ⟨m, hm, e⟩ := hn
  subst e
  split
  · exact hc.nodes m hm
  · exact Sat_mapArgs I ρ h m (hc.nodes m hm)

theorem replUsesExcept_consistent (I : Interp V) {g : Prog} {env : List V} {ρ : Nat → V} {old new : Nat}
    (ex : Option Nat) (hc : Consistent I g env ρ) (h : ρ old = ρ new) :
    Consistent I (replUsesExcept old new ex g) env ρ ∧ (replUsesExcept old new ex g).ret.map ρ = g.ret.map ρ := by
  refine ⟨⟨hc.len, hc.args, ?_⟩, map_substId ρ h g.ret⟩
  intro n hn
  simp only [replUsesExcept, List.mem_map] at hn
  obtain ⟨m, hm, e⟩ := hn
  subst e
  split
  · exact hc.nodes m hm
  · exact Sat_mapArgs I ρ h m (hc.nodes m hm)

/-- dropping nodes (erasing ops) keeps a graph consistent -/
theorem filter_consistent (I : Interp V) {g : Prog} {env : List V} {ρ : Nat → V} (p : Node → Bool)
    (hc : Consistent I g env ρ) : Consistent I { g with body := g.body.filter p } env ρ :=
  ⟨hc.len, hc.args, fun n hn => hc.nodes n (List.mem_filter.mp hn).1⟩

/-- changing only `eqsat_cost` / `min_cost_index` keeps `Sat` -/
def Node.sameSem : Node → Node → Prop
  | .op r n k a _, .op r' n' k' a' _ => r = r' ∧ n = n' ∧ k = k' ∧ a = a'
  | .cls r a _, .cls r' a' _ => r = r' ∧ a = a'
  | _, _ => False

theorem Sat_of_sameSem (I : Interp V) (ρ : Nat → V) {n m : Node} (h : n.sameSem m) (hs : n.Sat I ρ) :
    m.Sat I ρ := by
  cases n <;> cases m <;> simp only [Node.sameSem] at h
  · obtain ⟨rfl, rfl, rfl, rfl⟩ := h; exact hs
  · obtain ⟨rfl, rfl⟩ := h; exact hs

theorem map_sameSem_consistent (I : Interp V) {g : Prog} {env : List V} {ρ : Nat → V} (f : Node → Node)
    (hf : ∀ n : Node, n.sameSem (f n)) (hc : Consistent I g env ρ) :
    Consistent I { g with body := g.body.map f } env ρ := by
  refine ⟨hc.len, hc.args, ?_⟩
  intro n hn
  simp only [List.mem_map] at hn
  obtain ⟨m, hm, e⟩ := hn
  subst e
  exact Sat_of_sameSem I ρ (hf m) (hc.nodes m hm)

end Xdsl.EGraph
