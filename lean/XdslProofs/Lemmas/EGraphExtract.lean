import XdslProofs.Lemmas.EGraphOrd
/-!
`eqsat-extract` terminates successfully and keeps the block ordered on e-graphs in which every
remaining e-class is a singleton class that is the only user of its operand (the shape produced by
`eqsat-create-eclasses`; C28, totality part).  No Mathlib.
-/
namespace Xdsl.EGraph

/-- the class `c` is the only user of `x` -/
def OnlyUser (g : Prog) (x c : Nat) : Prop := (∀ n ∈ g.body, x ∈ n.args → n.res = c) ∧ x ∉ g.ret

def IsClsRes (g : Prog) (x : Nat) : Prop := ∃ a m, Node.cls x a m ∈ g.body

/-- loop invariant of `eqsat_extract`; `W` = the classes still on the work list -/
structure LInv (g : Prog) (W : List Nat) : Prop where
  nodup : (g.body.map (·.res)).Nodup
  fresh : ∀ n ∈ g.body, g.nargs ≤ n.res
  ord : Ordered g
  wnodup : W.Nodup
  cls : ∀ c ∈ W, ∃ x m, Node.cls c [x] m ∈ g.body ∧ (m = none ∨ m = some 0) ∧ x ≠ c ∧ OnlyUser g x c
    ∧ ¬ IsClsRes g x

theorem findDef_of_mem : ∀ {body : List Node} {n : Node}, (body.map (·.res)).Nodup → n ∈ body →
    findDef body n.res = some n
  | [], _, _, h => by simp at h
  | m :: rest, n, hnd, h => by
    simp only [List.map_cons, List.nodup_cons, List.mem_map, not_exists, not_and] at hnd
    simp only [List.mem_cons] at h
    unfold findDef
    rw [List.find?_cons]
    by_cases e : m.res = n.res
    · simp only [e, decide_true]
      rcases h with rfl | h
      · rfl
      · exact absurd e.symm (hnd.1 n h)
    · simp only [e, decide_false]
      rcases h with rfl | h
      · exact absurd rfl e
      · exact findDef_of_mem hnd.2 h

theorem used_eq_false {g : Prog} {v : Nat} (hb : ∀ n ∈ g.body, v ∉ n.args) (hr : v ∉ g.ret) :
    used g v = false := by
  unfold used
  simp only [Bool.or_eq_false_iff, List.any_eq_false, List.contains_eq_mem, decide_eq_true_eq, decide_eq_false_iff_not]
  exact ⟨hb, hr⟩

theorem used_eq_false_iff {g : Prog} {v : Nat} (h : used g v = false) :
    (∀ n ∈ g.body, v ∉ n.args) ∧ v ∉ g.ret := by
  unfold used at h
  simpa only [Bool.or_eq_false_iff, List.any_eq_false, List.contains_eq_mem, decide_eq_true_eq, decide_eq_false_iff_not] using h

def eraseNode (g : Prog) (v : Nat) : Prog := { g with body := g.body.filter (·.res ≠ v) }

theorem eraseDef_of_unused {g : Prog} {v : Nat} (hb : ∀ n ∈ g.body, v ∉ n.args) (hr : v ∉ g.ret) :
    eraseDef g v = some (eraseNode g v) := by
  unfold eraseDef
  rw [used_eq_false hb hr]
  rfl

theorem mem_eraseNode {g : Prog} {v : Nat} {n : Node} : n ∈ (eraseNode g v).body ↔ n ∈ g.body ∧ n.res ≠ v := by
  simp [eraseNode, List.mem_filter]

/-- erasing an unused definition that is not a pending class keeps the invariant -/
theorem LInv.erase {g : Prog} {W : List Nat} {v : Nat} (h : LInv g W) (hb : ∀ n ∈ g.body, v ∉ n.args)
    (hr : v ∉ g.ret) (hw : ∀ c ∈ W, c ≠ v) : LInv (eraseNode g v) W := by
  refine ⟨?_, fun n hn => h.fresh n (mem_eraseNode.mp hn).1, ⟨?_, ?_, ?_⟩, h.wnodup, ?_⟩
  · exact List.Nodup.sublist (List.Sublist.map _ List.filter_sublist) h.nodup
  · exact OrdFrom.erase h.ord.body hb
  · intro x hx
    rcases h.ord.ret x hx with h' | h'
    · exact Or.inl h'
    · right
      simp only [List.mem_map] at h' ⊢
      obtain ⟨n, hn, e⟩ := h'
      exact ⟨n, mem_eraseNode.mpr ⟨hn, fun e' => hr (by rw [← e', e]; exact hx)⟩, e⟩
  · intro r a m hm
    exact h.ord.clsArgs r a m (mem_eraseNode.mp hm).1
  · intro c hc
    obtain ⟨x, m, hm, hmv, hxc, hou, hnc⟩ := h.cls c hc
    refine ⟨x, m, mem_eraseNode.mpr ⟨hm, hw c hc⟩, hmv, hxc, ⟨?_, hou.2⟩, ?_⟩
    · intro n hn; exact hou.1 n (mem_eraseNode.mp hn).1
    · intro ⟨a, m', hm'⟩; exact hnc ⟨a, m', (mem_eraseNode.mp hm').1⟩

/-- maps that change neither result ids, nor operands, nor which nodes are classes -/
theorem LInv.map {g : Prog} {W : List Nat} (f : Node → Node) (h : LInv g W)
    (hf : ∀ n, (f n).res = n.res ∧ (f n).args = n.args ∧ (f n).isCls = n.isCls)
    (hm : ∀ c ∈ W, ∀ x m, Node.cls c [x] m ∈ g.body.map f → m = none ∨ m = some 0) :
    LInv { g with body := g.body.map f } W := by
  have hres : (g.body.map f).map (·.res) = g.body.map (·.res) := by
    rw [List.map_map]; apply List.map_congr_left; intro n _; exact (hf n).1
  have hshape : ∀ n, ∀ r a m, f n = Node.cls r a m → ∃ m', n = Node.cls r a m' := by
    intro n r a m e
    have h1 := hf n
    rw [e] at h1
    cases n with
    | op r' nm k a' c => simp [Node.isCls] at h1
    | cls r' a' m' =>
      simp only [Node.res, Node.args] at h1
      exact ⟨m', by rw [← h1.1, ← h1.2.1]⟩
  refine ⟨by rw [hres]; exact h.nodup, ?_, ⟨?_, ?_, ?_⟩, h.wnodup, ?_⟩
  · intro n hn
    simp only [List.mem_map] at hn
    obtain ⟨n0, hn0, e⟩ := hn
    subst e
    rw [(hf n0).1]; exact h.fresh n0 hn0
  · exact OrdFrom.congr f (fun n => ⟨(hf n).1, (hf n).2.1⟩) h.ord.body
  · intro x hx; rw [hres]; exact h.ord.ret x hx
  · intro r a m hm'
    simp only [List.mem_map] at hm'
    obtain ⟨n, hn, e⟩ := hm'
    obtain ⟨m', rfl⟩ := hshape n r a m e
    exact h.ord.clsArgs r a m' hn
  · intro c hc
    obtain ⟨x, m, hmem, _, hxc, hou, hnc⟩ := h.cls c hc
    have hfm : ∃ m', f (Node.cls c [x] m) = Node.cls c [x] m' := by
      have h1 := hf (Node.cls c [x] m)
      cases hfn : f (Node.cls c [x] m) with
      | op r' nm k a' c' => rw [hfn] at h1; simp [Node.isCls] at h1
      | cls r' a' m' =>
        rw [hfn] at h1
        simp only [Node.res, Node.args] at h1
        exact ⟨m', by rw [h1.1, h1.2.1]⟩
    obtain ⟨m', hm'⟩ := hfm
    have hmem' : Node.cls c [x] m' ∈ g.body.map f := List.mem_map.mpr ⟨_, hmem, hm'⟩
    refine ⟨x, m', hmem', hm c hc x m' hmem', hxc, ⟨?_, hou.2⟩, ?_⟩
    · intro n hn hx
      simp only [List.mem_map] at hn
      obtain ⟨n0, hn0, e⟩ := hn
      subst e
      rw [(hf n0).1]
      exact hou.1 n0 hn0 (by rw [← (hf n0).2.1]; exact hx)
    · intro ⟨a, m'', hm''⟩
      simp only [List.mem_map] at hm''
      obtain ⟨n0, hn0, e⟩ := hm''
      obtain ⟨m3, rfl⟩ := hshape n0 x a m'' e
      exact hnc ⟨a, m3, hn0⟩

theorem clearCost_eq_map (v : Nat) (body : List Node) :
    clearCost v body = body.map (fun n => match n with
      | .op r nm k a c => if r = v then .op r nm k a none else .op r nm k a c
      | n => n) := rfl

/-- redirecting the uses of the pending class `c = [x]` to `x` -/
theorem LInv.replace {g : Prog} {W : List Nat} {c x : Nat} {m : Option Nat} (h : LInv g (c :: W))
    (hmem : Node.cls c [x] m ∈ g.body) (hxc : x ≠ c) (hou : OnlyUser g x c) :
    LInv (replUsesExcept c x (some c) g) W
    ∧ (∀ n ∈ (replUsesExcept c x (some c) g).body, c ∉ n.args) ∧ c ∉ (replUsesExcept c x (some c) g).ret := by
  have hwn := h.wnodup
  simp only [List.nodup_cons] at hwn
  have hres : (replUsesExcept c x (some c) g).body.map (·.res) = g.body.map (·.res) := by
    simp only [replUsesExcept, List.map_map]
    apply List.map_congr_left
    intro n _
    simp only [Function.comp]
    split
    · rfl
    · exact mapArgs_res _ _
  have hnode : ∀ n ∈ g.body, n.res = c → n = Node.cls c [x] m := by
    intro n hn e
    have h1 := findDef_of_mem h.nodup hn
    have h2 := findDef_of_mem h.nodup hmem
    simp only [Node.res] at h2
    rw [e, h2] at h1
    exact (Option.some.inj h1).symm
  have hcx : x < g.nargs ∨ x ∈ g.body.map (·.res) :=
    OrdFrom.arg_defined h.ord.body _ hmem x (by simp [Node.args])
  have hnoc : (∀ n ∈ (replUsesExcept c x (some c) g).body, c ∉ n.args) ∧ c ∉ (replUsesExcept c x (some c) g).ret := by
    refine ⟨?_, ?_⟩
    · intro n hn hc
      simp only [replUsesExcept, List.mem_map] at hn
      obtain ⟨n0, hn0, e⟩ := hn
      subst e
      split at hc
      · rename_i e
        have e' : n0.res = c := by simpa using e
        rw [hnode n0 hn0 e'] at hc
        simp [Node.args] at hc
        exact hxc hc.symm
      · rw [mapArgs_args] at hc
        simp only [List.mem_map] at hc
        obtain ⟨y, _, e⟩ := hc
        unfold substId at e
        split at e
        · exact hxc e
        · rename_i hne; exact hne e
    · intro hc
      simp only [replUsesExcept, List.mem_map] at hc
      obtain ⟨y, _, e⟩ := hc
      unfold substId at e
      split at e
      · exact hxc e
      · rename_i hne; exact hne e
  refine ⟨⟨by rw [hres]; exact h.nodup, ?_, ⟨?_, ?_, ?_⟩, hwn.2, ?_⟩, hnoc⟩
  · intro n hn
    simp only [replUsesExcept, List.mem_map] at hn
    obtain ⟨n0, hn0, e⟩ := hn
    subst e
    split
    · exact h.fresh n0 hn0
    · rw [mapArgs_res]; exact h.fresh n0 hn0
  · apply OrdFrom.replace h.ord.body
    · intro hc
      -- `c` is a result id of the body, hence not a block argument
      have := h.fresh _ hmem
      simp only [Node.res] at this
      omega
    · intro n hn e
      rw [hnode n hn e]; simp [Node.args]
  · intro y hy
    rw [hres]
    simp only [replUsesExcept, List.mem_map] at hy
    obtain ⟨z, hz, e⟩ := hy
    subst e
    unfold substId
    split
    · exact hcx
    · exact h.ord.ret z hz
  · intro r a m' hm'
    simp only [replUsesExcept, List.mem_map] at hm'
    obtain ⟨n0, hn0, e⟩ := hm'
    split at e
    · subst e; exact h.ord.clsArgs r a m' hn0
    · cases n0 with
      | op _ _ _ _ _ => simp [Node.mapArgs] at e
      | cls r0 a0 m0 =>
        simp only [Node.mapArgs, Node.cls.injEq] at e
        have := h.ord.clsArgs r0 a0 m0 hn0
        intro ha
        rw [← e.2.1] at ha
        simp at ha
        exact this ha
  · intro c' hc'
    obtain ⟨x', m', hmem', hmv, hxc', hou', hnc'⟩ := h.cls c' (List.mem_cons_of_mem _ hc')
    have hc'c : c' ≠ c := fun e => hwn.1 (e ▸ hc')
    have hx'c : x' ≠ c := fun e => hnc' ⟨[x], m, e ▸ hmem⟩
    have hx'x : x' ≠ x := by
      intro e
      have := hou.1 _ hmem' (by simp [Node.args, e])
      simp only [Node.res] at this
      exact hc'c this
    have hkeep : Node.cls c' [x'] m' ∈ (replUsesExcept c x (some c) g).body := by
      simp only [replUsesExcept, List.mem_map]
      refine ⟨_, hmem', ?_⟩
      have : ¬ (some (Node.cls c' [x'] m').res = some c) := by simpa [Node.res] using hc'c
      simp only [this, if_false, Node.mapArgs, List.map_cons, List.map_nil, substId, hx'c]
    refine ⟨x', m', hkeep, hmv, hxc', ⟨?_, ?_⟩, ?_⟩
    · intro n hn hx
      simp only [replUsesExcept, List.mem_map] at hn
      obtain ⟨n0, hn0, e⟩ := hn
      subst e
      split at hx
      · split
        · exact hou'.1 n0 hn0 hx
        · rename_i h1 h2; exact absurd h1 h2
      · rename_i hne
        simp only [hne, if_false, mapArgs_res]
        rw [mapArgs_args] at hx
        rcases mem_map_substId hx with hx | ⟨e, _⟩
        · exact hou'.1 n0 hn0 hx
        · exact absurd e hx'x
    · intro hx
      simp only [replUsesExcept, List.mem_map] at hx
      obtain ⟨z, hz, e⟩ := hx
      unfold substId at e
      split at e
      · exact hx'x e.symm
      · rw [e] at hz; exact hou'.2 hz
    · intro ⟨a, m'', hm''⟩
      simp only [replUsesExcept, List.mem_map] at hm''
      obtain ⟨n0, hn0, e⟩ := hm''
      split at e
      · subst e; exact hnc' ⟨a, m'', hn0⟩
      · cases n0 with
        | op _ _ _ _ _ => simp [Node.mapArgs] at e
        | cls r0 a0 m0 =>
          simp only [Node.mapArgs, Node.cls.injEq] at e
          exact hnc' ⟨a0, m0, by rw [← e.1]; exact hn0⟩

theorem LInv.tail {g : Prog} {W : List Nat} {c : Nat} (h : LInv g (c :: W)) : LInv g W :=
  ⟨h.nodup, h.fresh, h.ord, (List.nodup_cons.mp h.wnodup).2, fun c' hc' => h.cls c' (List.mem_cons_of_mem _ hc')⟩

theorem dropIdx_singleton (x : Nat) : dropIdx [x] 0 = [] := by simp [dropIdx]

/-- one iteration of the extraction loop succeeds and re-establishes the invariant -/
theorem extractStep_total {g : Prog} {W : List Nat} {c : Nat} (h : LInv g (c :: W)) :
    ∃ g', extractStep g c = some g' ∧ LInv g' W ∧ g'.nargs = g.nargs := by
  obtain ⟨x, m, hmem, hmv, hxc, hou, hnc⟩ := h.cls c (by simp)
  have hf : findDef g.body c = some (Node.cls c [x] m) := by
    have := findDef_of_mem h.nodup hmem
    simpa [Node.res] using this
  have hwn := List.nodup_cons.mp h.wnodup
  have hWc : ∀ c' ∈ W, c' ≠ c := fun c' hc' e => hwn.1 (e ▸ hc')
  have hWcls : ∀ c' ∈ W, IsClsRes g c' := by
    intro c' hc'
    obtain ⟨x', m', hm', _⟩ := h.cls c' (List.mem_cons_of_mem _ hc')
    exact ⟨[x'], m', hm'⟩
  unfold extractStep
  rw [hf]
  simp only
  by_cases hu : used g c = false
  · obtain ⟨hb, hr⟩ := used_eq_false_iff hu
    simp only [hu, Bool.not_false, if_true]
    have h1 : LInv (eraseNode g c) W := h.tail.erase hb hr hWc
    by_cases hx : isOpResult g x = true
    · have hxu : ∀ n ∈ (eraseNode g c).body, x ∉ n.args := by
        intro n hn hxa
        obtain ⟨hn1, hn2⟩ := mem_eraseNode.mp hn
        exact hn2 (hou.1 n hn1 hxa)
      refine ⟨eraseNode (eraseNode g c) x, ?_, ?_, rfl⟩
      · simp only [eraseDefs, List.filter_cons, hx, if_true, List.filter_nil, List.foldlM_cons,
          eraseDef_of_unused hb hr]
        show (eraseDef (eraseNode g c) x).bind _ = _
        rw [eraseDef_of_unused hxu hou.2]
        rfl
      · apply h1.erase hxu hou.2
        intro c' hc' e
        exact hnc (e ▸ hWcls c' hc')
    · refine ⟨eraseNode g c, ?_, h1, rfl⟩
      simp only [eraseDefs, List.filter_cons, hx, List.filter_nil, List.foldlM_cons,
        eraseDef_of_unused hb hr]
      rfl
  · have hu' : used g c = true := by cases hc : used g c <;> simp_all
    simp only [hu', Bool.not_true]
    rcases hmv with rfl | rfl
    · exact ⟨g, by simp, h.tail, rfl⟩
    · obtain ⟨h1, hb1, hr1⟩ := h.replace hmem hxc hou
      have h2 : LInv (eraseNode (replUsesExcept c x (some c) g) c) W := h1.erase hb1 hr1 hWc
      refine ⟨{ eraseNode (replUsesExcept c x (some c) g) c with
                body := clearCost x (eraseNode (replUsesExcept c x (some c) g) c).body }, ?_, ?_, rfl⟩
      · simp only [List.getElem?_cons_zero, dropIdx_singleton, List.filter_nil, eraseDefs, List.foldlM_cons,
          eraseDef_of_unused hb1 hr1]
        rfl
      · rw [clearCost_eq_map]
        apply h2.map
        · intro n
          cases n with
          | op r nm k a c' => simp only; split <;> simp [Node.res, Node.args, Node.isCls]
          | cls r a m' => simp
        · intro c' hc' x' m' hm'
          simp only [List.mem_map] at hm'
          obtain ⟨n0, hn0, e⟩ := hm'
          cases n0 with
          | op r nm k a c'' => simp only at e; split at e <;> cases e
          | cls r a m'' =>
            simp only at e
            obtain ⟨x'', m3, hm3, hmv3, _⟩ := h2.cls c' hc'
            have e1 := findDef_of_mem h2.nodup hn0
            have e2 := findDef_of_mem h2.nodup hm3
            rw [e] at e1
            simp only [Node.res] at e1 e2
            rw [e1] at e2
            cases e2
            exact hmv3

theorem extractLoop_total : ∀ {W : List Nat} {g : Prog}, LInv g W →
    ∃ g', W.foldlM extractStep g = some g' ∧ LInv g' [] ∧ g'.nargs = g.nargs
  | [], g, h => ⟨g, rfl, h, rfl⟩
  | c :: W, g, h => by
    obtain ⟨g1, e1, h1, n1⟩ := extractStep_total h
    obtain ⟨g2, e2, h2, n2⟩ := extractLoop_total h1
    exact ⟨g2, by simp [List.foldlM_cons, e1, e2], h2, n2.trans n1⟩

/-! ## the re-ordering pass leaves an ordered block alone -/

theorem posOf_lt {d : Nat} : ∀ {pre suf : List Node}, d ∈ pre.map (·.res) → posOf (pre ++ suf) d < pre.length
  | [], _, h => by simp at h
  | n :: pre, suf, h => by
    simp only [List.map_cons, List.mem_cons] at h
    simp only [List.cons_append, posOf, List.length_cons]
    split
    · omega
    · rename_i hne
      rcases h with h | h
      · exact absurd h.symm hne
      · have := posOf_lt (suf := suf) h
        omega

theorem isOrdered_aux (body : List Node) (nargs : Nat) (hfresh : ∀ n ∈ body, nargs ≤ n.res) :
    ∀ (suf pre : List Node), body = pre ++ suf →
      OrdFrom (fun x => x < nargs ∨ x ∈ pre.map (·.res)) suf →
      (suf.zipIdx pre.length).all (fun (ni : Node × Nat) => (deps body ni.1).all fun d => posOf body d < ni.2) = true := by
  intro suf
  induction suf with
  | nil => intro _ _ _; rfl
  | cons n rest ih =>
    intro pre hb ho
    obtain ⟨ha, hr⟩ := ho
    simp only [List.zipIdx_cons, List.all_cons, Bool.and_eq_true]
    refine ⟨?_, ?_⟩
    · simp only [List.all_eq_true, decide_eq_true_eq]
      intro d hd
      simp only [deps, List.mem_filter, Bool.and_eq_true, decide_eq_true_eq] at hd
      obtain ⟨hda, _, hdef⟩ := hd
      rcases ha d hda with hlt | hpre
      · exfalso
        cases hfd : findDef body d with
        | none => simp [hfd] at hdef
        | some n' =>
          obtain ⟨hm, hres⟩ := findDef_mem hfd
          have := hfresh n' hm
          omega
      · rw [hb]; exact posOf_lt hpre
    · have := ih (pre ++ [n]) (by rw [hb]; simp) (OrdFrom.mono (fun x hx => by
        rcases hx with (h | h) | h
        · exact Or.inl h
        · exact Or.inr (by simp [h])
        · exact Or.inr (by simp [h])) hr)
      simpa using this

theorem isOrdered_of_ordFrom {body : List Node} {nargs : Nat} (hfresh : ∀ n ∈ body, nargs ≤ n.res)
    (ho : OrdFrom (· < nargs) body) : isOrdered body = true := by
  have := isOrdered_aux body nargs hfresh body [] rfl (OrdFrom.mono (fun x hx => Or.inl hx) ho)
  simpa [isOrdered] using this

/-- **extraction is total** on the invariant: it succeeds, the result is ordered (so it runs) -/
theorem extract_total {g : Prog} (h : LInv g (classIds g.body).reverse) :
    ∃ p', extract g = some p' ∧ Ordered p' ∧ p'.nargs = g.nargs := by
  obtain ⟨g', e, h', hn⟩ := extractLoop_total h
  refine ⟨g', ?_, h'.ord, hn⟩
  · unfold extract extractLoop
    rw [e]
    simp only
    unfold topoSort
    rw [isOrdered_of_ordFrom h'.fresh h'.ord.body]
    rfl

end Xdsl.EGraph
