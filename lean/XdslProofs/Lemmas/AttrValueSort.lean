import XdslModel.AttrValue
/-!
Helper lemmas for C08: the key-sorted normal form of dictionaries and frozensets does not depend on
the insertion order (`sortKeyed` of a permutation with pairwise distinct keys is the same list).
-/
namespace Xdsl.AttrValue

theorem lexLe_refl : ∀ a : List Int, lexLe a a = true
  | [] => by simp [lexLe]
  | x :: xs => by simp [lexLe, lexLe_refl xs]

theorem lexLe_total : ∀ a b : List Int, lexLe a b = true ∨ lexLe b a = true
  | [], _ => by simp [lexLe]
  | _ :: _, [] => by simp [lexLe]
  | x :: xs, y :: ys => by
    simp only [lexLe]
    by_cases h1 : x < y
    · simp [h1]
    · by_cases h2 : y < x
      · simp [h2]
      · simp [h1, h2, lexLe_total xs ys]

theorem lexLe_antisymm : ∀ a b : List Int, lexLe a b = true → lexLe b a = true → a = b
  | [], [] => by simp
  | [], _ :: _ => by simp [lexLe]
  | _ :: _, [] => by simp [lexLe]
  | x :: xs, y :: ys => by
    simp only [lexLe]
    by_cases h1 : x < y
    · have : ¬ y < x := by omega
      simp [h1, this]
    · by_cases h2 : y < x
      · simp [h1, h2]
      · simp only [h1, h2, if_false]
        intro p q
        have : x = y := by omega
        rw [this, lexLe_antisymm xs ys p q]

theorem lexLe_trans : ∀ a b c : List Int, lexLe a b = true → lexLe b c = true → lexLe a c = true
  | [], _, _ => by simp [lexLe]
  | _ :: _, [], _ => by simp [lexLe]
  | _ :: _, _ :: _, [] => by simp [lexLe]
  | x :: xs, y :: ys, z :: zs => by
    simp only [lexLe]
    by_cases h1 : x < y
    · by_cases h2 : y < z
      · have : x < z := by omega
        simp [this]
      · by_cases h3 : z < y
        · simp [h2, h3]
        · have : x < z := by omega
          simp [this]
    · by_cases h1' : y < x
      · simp [h1, h1']
      · have hxy : x = y := by omega
        subst hxy
        simp only [h1, if_false]
        by_cases h2 : x < z
        · simp [h2]
        · by_cases h3 : z < x
          · simp [h2, h3]
          · simp only [h2, h3, if_false]
            exact lexLe_trans xs ys zs

abbrev Entry := List Int × V

/-- strictly smaller key -/
def klt (x y : Entry) : Prop := lexLe x.1 y.1 = true ∧ x.1 ≠ y.1

abbrev Sorted (l : List Entry) : Prop := l.Pairwise klt

theorem klt_trans {x y z : Entry} (h1 : klt x y) (h2 : klt y z) : klt x z := by
  refine ⟨lexLe_trans _ _ _ h1.1 h2.1, ?_⟩
  intro e
  have : lexLe y.1 x.1 = true := by rw [e]; exact h2.1
  exact h1.2 (lexLe_antisymm _ _ h1.1 this)

theorem klt_asymm {x y : Entry} (h1 : klt x y) (h2 : klt y x) : False :=
  h1.2 (lexLe_antisymm _ _ h1.1 h2.1)

theorem mem_insert_sub (e : Entry) : ∀ (acc : List Entry) (y : Entry),
    y ∈ insertKeyed e acc → y = e ∨ y ∈ acc
  | [], y => by simp [insertKeyed]
  | x :: xs, y => by
    simp only [insertKeyed]
    split
    · intro h
      rcases List.mem_cons.1 h with h | h
      · exact Or.inl h
      · exact Or.inr (List.mem_cons_of_mem _ h)
    · split
      · intro h
        rcases List.mem_cons.1 h with h | h
        · exact Or.inl h
        · exact Or.inr h
      · intro h
        rcases List.mem_cons.1 h with h | h
        · exact Or.inr (by rw [h]; exact List.mem_cons_self)
        · rcases mem_insert_sub e xs y h with h | h
          · exact Or.inl h
          · exact Or.inr (List.mem_cons_of_mem _ h)

theorem mem_insert_self (e : Entry) : ∀ acc : List Entry, e ∈ insertKeyed e acc
  | [] => by simp [insertKeyed]
  | x :: xs => by
    simp only [insertKeyed]
    split
    · exact List.mem_cons_self
    · split
      · exact List.mem_cons_self
      · exact List.mem_cons_of_mem _ (mem_insert_self e xs)

theorem mem_insert_of_mem (e : Entry) : ∀ (acc : List Entry) (y : Entry),
    y ∈ acc → y.1 ≠ e.1 → y ∈ insertKeyed e acc
  | [], y => by simp
  | x :: xs, y => by
    intro hy hne
    simp only [insertKeyed]
    split
    · rename_i hk
      rcases List.mem_cons.1 hy with h | h
      · exact absurd (by rw [h]; exact hk.symm) hne
      · exact List.mem_cons_of_mem _ h
    · split
      · exact List.mem_cons_of_mem _ hy
      · rcases List.mem_cons.1 hy with h | h
        · rw [h]; exact List.mem_cons_self
        · exact List.mem_cons_of_mem _ (mem_insert_of_mem e xs y h hne)

theorem sorted_insert (e : Entry) : ∀ acc : List Entry, Sorted acc → Sorted (insertKeyed e acc)
  | [] => by simp [insertKeyed]
  | x :: xs => by
    intro hs
    have hx : ∀ y ∈ xs, klt x y := (List.pairwise_cons.1 hs).1
    have hxs : Sorted xs := (List.pairwise_cons.1 hs).2
    simp only [insertKeyed]
    split
    · rename_i hk
      refine List.pairwise_cons.2 ⟨?_, hxs⟩
      intro y hy
      have := hx y hy
      exact ⟨by rw [hk]; exact this.1, by rw [hk]; exact this.2⟩
    · rename_i hk
      split
      · rename_i hle
        have hex : klt e x := ⟨hle, hk⟩
        refine List.pairwise_cons.2 ⟨?_, hs⟩
        intro y hy
        rcases List.mem_cons.1 hy with h | h
        · rw [h]; exact hex
        · exact klt_trans hex (hx y h)
      · rename_i hle
        have hxe : klt x e := by
          refine ⟨?_, fun h => hk h.symm⟩
          rcases lexLe_total e.1 x.1 with h | h
          · exact absurd h hle
          · exact h
        refine List.pairwise_cons.2 ⟨?_, sorted_insert e xs hxs⟩
        intro y hy
        rcases mem_insert_sub e xs y hy with h | h
        · rw [h]; exact hxe
        · exact hx y h

theorem sorted_foldl : ∀ (l acc : List Entry), Sorted acc →
    Sorted (l.foldl (fun a e => insertKeyed e a) acc)
  | [], acc, h => by simpa using h
  | e :: l, acc, h => by
    simp only [List.foldl_cons]
    exact sorted_foldl l _ (sorted_insert e acc h)

theorem mem_foldl : ∀ (l acc : List Entry), Sorted acc →
    (∀ a ∈ acc, ∀ e ∈ l, a.1 ≠ e.1) → (l.map (·.1)).Nodup →
    ∀ y, y ∈ l.foldl (fun a e => insertKeyed e a) acc ↔ y ∈ acc ∨ y ∈ l
  | [], acc, _, _, _, y => by simp
  | e :: l, acc, hs, hd, hn, y => by
    simp only [List.foldl_cons]
    have hn' : e.1 ∉ l.map (·.1) ∧ (l.map (·.1)).Nodup := by
      simpa [List.nodup_cons] using hn
    have hd' : ∀ a ∈ insertKeyed e acc, ∀ e' ∈ l, a.1 ≠ e'.1 := by
      intro a ha e' he'
      rcases mem_insert_sub e acc a ha with h | h
      · rw [h]
        intro hk
        exact hn'.1 (List.mem_map.2 ⟨e', he', hk.symm⟩)
      · exact hd a h e' (List.mem_cons_of_mem _ he')
    rw [mem_foldl l (insertKeyed e acc) (sorted_insert e acc hs) hd' hn'.2 y]
    constructor
    · rintro (h | h)
      · rcases mem_insert_sub e acc y h with h | h
        · exact Or.inr (by rw [h]; exact List.mem_cons_self)
        · exact Or.inl h
      · exact Or.inr (List.mem_cons_of_mem _ h)
    · rintro (h | h)
      · exact Or.inl (mem_insert_of_mem e acc y h (hd y h e List.mem_cons_self))
      · rcases List.mem_cons.1 h with h | h
        · rw [h]; exact Or.inl (mem_insert_self e acc)
        · exact Or.inr h

theorem sorted_ext : ∀ (l₁ l₂ : List Entry), Sorted l₁ → Sorted l₂ → (∀ y, y ∈ l₁ ↔ y ∈ l₂) → l₁ = l₂
  | [], [], _, _, _ => rfl
  | [], y :: ys, _, _, h => by
    have := (h y).2 List.mem_cons_self
    simp at this
  | x :: xs, [], _, _, h => by
    have := (h x).1 List.mem_cons_self
    simp at this
  | x :: xs, y :: ys, h1, h2, h => by
    have hx := (List.pairwise_cons.1 h1)
    have hy := (List.pairwise_cons.1 h2)
    have hxy : x = y := by
      rcases List.mem_cons.1 ((h x).1 List.mem_cons_self) with e | e
      · exact e
      · rcases List.mem_cons.1 ((h y).2 List.mem_cons_self) with e' | e'
        · exact e'.symm
        · exact (klt_asymm (hx.1 y e') (hy.1 x e)).elim
    subst hxy
    have : xs = ys := by
      apply sorted_ext xs ys hx.2 hy.2
      intro z
      constructor
      · intro hz
        rcases List.mem_cons.1 ((h z).1 (List.mem_cons_of_mem _ hz)) with e | e
        · exact ((hx.1 z hz).2 (by rw [e])).elim
        · exact e
      · intro hz
        rcases List.mem_cons.1 ((h z).2 (List.mem_cons_of_mem _ hz)) with e | e
        · exact ((hy.1 z hz).2 (by rw [e])).elim
        · exact e
    rw [this]

/-- The sorted normal form is independent of the insertion order (keys pairwise distinct). -/
theorem sortKeyed_perm {l₁ l₂ : List Entry} (hp : l₁.Perm l₂) (hk : (l₁.map (·.1)).Nodup) :
    sortKeyed l₁ = sortKeyed l₂ := by
  have hk2 : (l₂.map (·.1)).Nodup := (hp.map _).nodup_iff.1 hk
  apply sorted_ext
  · exact sorted_foldl l₁ [] List.Pairwise.nil
  · exact sorted_foldl l₂ [] List.Pairwise.nil
  · intro y
    unfold sortKeyed
    rw [mem_foldl l₁ [] List.Pairwise.nil (by simp) hk y,
        mem_foldl l₂ [] List.Pairwise.nil (by simp) hk2 y]
    simp [hp.mem_iff]

/-- Attaching keys and sorting gives the same result for every order of the elements. -/
theorem keyed_sort_perm {ps qs : List V} (hp : ps.Perm qs)
    (hk : ps.Pairwise (fun x y => x.sortKey ≠ y.sortKey)) :
    (keyed ps).map sortKeyed = (keyed qs).map sortKeyed := by
  unfold keyed
  rw [← hp.all_eq (f := fun x => x.sortKey.isSome)]
  by_cases hall : ps.all (fun x => x.sortKey.isSome) = true
  · simp only [hall, if_true, Option.map_some]
    congr 1
    apply sortKeyed_perm (hp.map _)
    rw [List.map_map]
    refine List.pairwise_map.2 (hk.imp_of_mem ?_)
    intro a b ha hb hne
    have ha' := List.all_eq_true.1 hall a ha
    have hb' := List.all_eq_true.1 hall b hb
    cases hsa : a.sortKey with
    | none => simp [hsa] at ha'
    | some ka =>
      cases hsb : b.sortKey with
      | none => simp [hsb] at hb'
      | some kb =>
        simp only [Function.comp_apply, hsa, hsb, Option.getD_some]
        intro e
        exact hne (by rw [hsa, hsb, e])
  · simp [hall]

end Xdsl.AttrValue
