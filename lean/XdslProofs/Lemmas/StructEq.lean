import XdslModel.StructEq
import XdslProofs.Lemmas.AL
/-!
Definitions (`Agree`, `Iso`, `WF`, `Scoped`, `Sep`, `Shape`) and helper lemmas for C03.
`Sep a b` is what the final step of the repaired code (`oneToOne`) checks: `oneToOne_iff_sep`.
-/
namespace Xdsl.StructEq
open Xdsl

/-! ## The property's vocabulary -/

/-- Every field of the two trees agrees under the map `f` of values and blocks: operation names,
attribute and property dictionaries, result types, operands and successors (`f`-images), nested
regions, block argument types; and definitions correspond (`f` of a result / argument / block of
`a` is the result / argument / block at the same place of `b`). -/
def Agree (f : Nat → Nat) : T → T → Prop
  | .nil, .nil => True
  | .op h rs n, .op h' rs' n' =>
    h.name = h'.name ∧ h.attrs = h'.attrs ∧ h.props = h'.props
      ∧ tys h.results = tys h'.results ∧ (ids h.results).map f = ids h'.results
      ∧ h.operands.map f = h'.operands ∧ h.succs.map f = h'.succs
      ∧ Agree f rs rs' ∧ Agree f n n'
  | .block i a o n, .block i' a' o' n' =>
    f i = i' ∧ tys a = tys a' ∧ (ids a).map f = ids a' ∧ Agree f o o' ∧ Agree f n n'
  | .region bs n, .region bs' n' => Agree f bs bs' ∧ Agree f n n'
  | _, _ => False

/-- everything the tree mentions: its definitions and its references -/
def vals (a : T) : List Nat := defs a ++ uses a

/-- `a` and `b` are isomorphic: some map of values and blocks, the identity on everything that is
not defined inside `a` and one-to-one on everything `a` mentions, makes every field agree. -/
def Iso (a b : T) : Prop :=
  ∃ f : Nat → Nat, Agree f a b ∧ (∀ u, u ∉ defs a → f u = u)
    ∧ (∀ x ∈ vals a, ∀ y ∈ vals a, f x = f y → x = y)

/-- every object is defined at one place only (holds for every real object graph) -/
def WF (a : T) : Prop := (defs a).Nodup

/-- region scoping as the walk sees it (see `scopedB`) -/
def Scoped (a : T) : Prop := scopedRoot a = true

/-- what `a` takes from outside is not a definition of `b` -/
def Sep (a b : T) : Prop := ∀ u ∈ uses a, u ∉ defs a → u ∉ defs b

/-- same tree shape as far as definitions are concerned -/
def Shape : T → T → Prop
  | .nil, .nil => True
  | .op h rs n, .op h' rs' n' => h.results.length = h'.results.length ∧ Shape rs rs' ∧ Shape n n'
  | .block _ a o n, .block _ a' o' n' => a.length = a'.length ∧ Shape o o' ∧ Shape n n'
  | .region bs n, .region bs' n' => Shape bs bs' ∧ Shape n n'
  | _, _ => False

/-! ## Lists -/

theorem nodup_iff (l : List Nat) : nodup l = true ↔ l.Nodup := by
  induction l with
  | nil => simp [nodup]
  | cons x xs ih => simp [nodup, ih, List.nodup_cons]

theorem typesOk_iff (xs ys : List (Nat × Nat)) : typesOk xs ys = true ↔ tys xs = tys ys := by
  induction xs generalizing ys with
  | nil => cases ys <;> simp [typesOk, tys]
  | cons x xs ih =>
    cases ys with
    | nil => simp [typesOk, tys]
    | cons y ys =>
      obtain ⟨x1, x2⟩ := x; obtain ⟨y1, y2⟩ := y
      have := ih ys
      simp only [tys] at this
      simp [typesOk, tys, this]

theorem tys_length {xs ys : List (Nat × Nat)} (h : tys xs = tys ys) : xs.length = ys.length := by
  have := congrArg List.length h
  simpa [tys] using this

theorem zipIds_fst {xs ys : List (Nat × Nat)} (h : xs.length = ys.length) :
    (zipIds xs ys).map Prod.fst = ids xs := by
  induction xs generalizing ys with
  | nil => simp [zipIds, ids]
  | cons x xs ih =>
    cases ys with
    | nil => simp at h
    | cons y ys =>
      obtain ⟨x1, x2⟩ := x; obtain ⟨y1, y2⟩ := y
      have := ih (ys := ys) (by simpa using h)
      simp only [ids] at this
      simp [zipIds, ids, this]

theorem zipIds_snd {xs ys : List (Nat × Nat)} (h : xs.length = ys.length) :
    (zipIds xs ys).map Prod.snd = ids ys := by
  induction xs generalizing ys with
  | nil => cases ys <;> simp_all [zipIds, ids]
  | cons x xs ih =>
    cases ys with
    | nil => simp at h
    | cons y ys =>
      obtain ⟨x1, x2⟩ := x; obtain ⟨y1, y2⟩ := y
      have := ih (ys := ys) (by simpa using h)
      simp only [ids] at this
      simp [zipIds, ids, this]

/-- the pairs of a zip are `f`-related iff the id lists are `f`-images -/
theorem zipIds_map {f : Nat → Nat} {xs ys : List (Nat × Nat)} (h : xs.length = ys.length) :
    (∀ p ∈ zipIds xs ys, f p.1 = p.2) ↔ (ids xs).map f = ids ys := by
  induction xs generalizing ys with
  | nil => cases ys <;> simp_all [zipIds, ids]
  | cons x xs ih =>
    cases ys with
    | nil => simp at h
    | cons y ys =>
      obtain ⟨x1, x2⟩ := x; obtain ⟨y1, y2⟩ := y
      have := ih (ys := ys) (by simpa using h)
      simp only [ids, List.map_map, Prod.forall] at this
      simp [zipIds, ids, this]

theorem zipIds_self (xs : List (Nat × Nat)) : ∀ p ∈ zipIds xs xs, p.2 = p.1 := by
  induction xs with
  | nil => simp [zipIds]
  | cons x xs ih =>
    obtain ⟨x1, x2⟩ := x
    intro p hp
    simp only [zipIds, List.mem_cons] at hp
    rcases hp with rfl | hp
    · rfl
    · exact ih p hp

instance (a : T) : Decidable (WF a) := decidable_of_iff (nodup (defs a) = true) (nodup_iff _)

instance (a : T) : Decidable (Scoped a) := inferInstanceAs (Decidable (scopedRoot a = true))

/-! ## Association lists -/

theorem get_append (l1 l2 : AL Nat Nat) (k : Nat) :
    AL.get (l1 ++ l2) k = match AL.get l1 k with | some v => some v | none => AL.get l2 k := by
  induction l1 with
  | nil => simp
  | cons p r ih =>
    obtain ⟨a, b⟩ := p
    simp only [List.cons_append, AL.get_cons]
    split <;> simp_all

theorem get_some_mem {l : AL Nat Nat} {k v : Nat} (h : AL.get l k = some v) : (k, v) ∈ l := by
  induction l with
  | nil => simp at h
  | cons p r ih =>
    obtain ⟨a, b⟩ := p
    simp only [AL.get_cons] at h
    split at h
    · rename_i e; subst e; simp at h; subst h; simp
    · exact List.mem_cons_of_mem _ (ih h)

theorem get_none_iff {l : AL Nat Nat} {k : Nat} : AL.get l k = none ↔ k ∉ l.map Prod.fst := by
  induction l with
  | nil => simp
  | cons p r ih =>
    obtain ⟨a, b⟩ := p
    simp only [AL.get_cons, List.map_cons, List.mem_cons, not_or]
    split
    · rename_i e; subst e; simp
    · rename_i e
      rw [ih]
      constructor
      · intro h; exact ⟨fun e' => e e'.symm, h⟩
      · intro h; exact h.2

theorem mem_get_of_nodup {l : AL Nat Nat} {k v : Nat} (hn : (l.map Prod.fst).Nodup) (h : (k, v) ∈ l) :
    AL.get l k = some v := by
  induction l with
  | nil => simp at h
  | cons p r ih =>
    obtain ⟨a, b⟩ := p
    simp only [List.map_cons, List.nodup_cons] at hn
    simp only [List.mem_cons, Prod.mk.injEq] at h
    simp only [AL.get_cons]
    rcases h with ⟨rfl, rfl⟩ | h
    · simp
    · have : a ≠ k := by
        intro e; subst e
        exact hn.1 (List.mem_map.mpr ⟨(a, v), h, rfl⟩)
      simp [this, ih hn.2 h]

/-- in a list with distinct values, a value determines its key -/
theorem key_unique_of_nodup_snd {l : AL Nat Nat} {k k' v : Nat} (hn : (l.map Prod.snd).Nodup)
    (h : (k, v) ∈ l) (h' : (k', v) ∈ l) : k = k' := by
  induction l with
  | nil => simp at h
  | cons p r ih =>
    obtain ⟨a, b⟩ := p
    simp only [List.map_cons, List.nodup_cons] at hn
    simp only [List.mem_cons, Prod.mk.injEq] at h h'
    rcases h with ⟨rfl, rfl⟩ | h <;> rcases h' with ⟨rfl, hb⟩ | h'
    · rfl
    · exact absurd (List.mem_map.mpr ⟨(k', v), h', rfl⟩) hn.1
    · subst hb; exact absurd (List.mem_map.mpr ⟨(k, v), h, rfl⟩) hn.1
    · exact ih hn.2 h h'

theorem lookup_of_get {c : Ctx} {k v : Nat} (h : AL.get c k = some v) : lookup c k = v := by
  simp [lookup, h]

theorem lookup_of_none {c : Ctx} {k : Nat} (h : AL.get c k = none) : lookup c k = k := by
  simp [lookup, h]

/-! ## Registration: a sequence of `context[x] = y` -/

/-- `for (x, y) in l: context[x] = y` -/
def regList (l : List (Nat × Nat)) (c : Ctx) : Ctx := l.foldl (fun c p => AL.set c p.1 p.2) c

theorem regList_append (l1 l2 : List (Nat × Nat)) (c : Ctx) :
    regList (l1 ++ l2) c = regList l2 (regList l1 c) := by
  simp [regList, List.foldl_append]

theorem regVals_eq (xs ys : List (Nat × Nat)) (c : Ctx) :
    regVals xs ys c = regList (zipIds xs ys) c := by
  induction xs generalizing ys c with
  | nil => simp [regVals, zipIds, regList]
  | cons x xs ih =>
    cases ys with
    | nil => simp [regVals, zipIds, regList]
    | cons y ys =>
      obtain ⟨x1, x2⟩ := x; obtain ⟨y1, y2⟩ := y
      simp only [regVals, zipIds, ih]
      simp [regList]

/-- pairs the registration loop of a block stores for its operations -/
def prePairsOps : T → T → List (Nat × Nat)
  | .op h _ n, .op h' _ n' => zipIds h.results h'.results ++ prePairsOps n n'
  | _, _ => []

theorem preOps_eq (o o' : T) (c : Ctx) : preOps o o' c = regList (prePairsOps o o') c := by
  induction o generalizing o' c with
  | nil => cases o' <;> simp [preOps, prePairsOps, regList]
  | op h rs n _ ih =>
    cases o' <;> simp [preOps, prePairsOps, regList_append, regVals_eq, ih] <;> simp [regList]
  | block i a o n _ _ => cases o' <;> simp [preOps, prePairsOps, regList]
  | region bs n _ _ => cases o' <;> simp [preOps, prePairsOps, regList]

def blockPairs (i : Nat) (a : List (Nat × Nat)) (o : T) (i' : Nat) (a' : List (Nat × Nat)) (o' : T) :
    List (Nat × Nat) :=
  (i, i') :: (zipIds a a' ++ prePairsOps o o')

theorem addBlock_eq (i a o i' a' o') (c : Ctx) :
    addBlock i a o i' a' o' c = regList (blockPairs i a o i' a' o') c := by
  simp only [addBlock, preOps_eq, regVals_eq, blockPairs]
  simp [regList, List.foldl_append]

def prePairsBlocks : T → T → List (Nat × Nat)
  | .block i a o n, .block i' a' o' n' => blockPairs i a o i' a' o' ++ prePairsBlocks n n'
  | _, _ => []

theorem preBlocks_eq (b b' : T) (c : Ctx) : preBlocks b b' c = regList (prePairsBlocks b b') c := by
  induction b generalizing b' c with
  | nil => cases b' <;> simp [preBlocks, prePairsBlocks, regList]
  | op h rs n _ _ => cases b' <;> simp [preBlocks, prePairsBlocks, regList]
  | block i a o n _ ih =>
    cases b' <;> simp [preBlocks, prePairsBlocks, regList_append, addBlock_eq, ih] <;> simp [regList]
  | region bs n _ _ => cases b' <;> simp [preBlocks, prePairsBlocks, regList]

/-- `k` has an entry -/
def Reg (c : Ctx) (k : Nat) : Prop := AL.get c k ≠ none

/-- every entry of `c` is an entry of `p` -/
def Sub (c p : Ctx) : Prop := ∀ k x, AL.get c k = some x → AL.get p k = some x

theorem regList_sub {l : List (Nat × Nat)} {c p : Ctx} (hc : Sub c p)
    (hl : ∀ q ∈ l, AL.get p q.1 = some q.2) : Sub (regList l c) p := by
  induction l generalizing c with
  | nil => simpa [regList] using hc
  | cons q l ih =>
    have : regList (q :: l) c = regList l (AL.set c q.1 q.2) := by simp [regList]
    rw [this]
    apply ih
    · intro k x hk
      rw [AL.get_set] at hk
      split at hk
      · rename_i e; subst e
        have := hl q (by simp)
        simp at hk; subst hk; exact this
      · exact hc k x hk
    · intro q' hq'; exact hl q' (List.mem_cons_of_mem _ hq')

theorem regList_reg {l : List (Nat × Nat)} {c : Ctx} {k : Nat} :
    Reg (regList l c) k ↔ Reg c k ∨ k ∈ l.map Prod.fst := by
  induction l generalizing c with
  | nil => simp [regList]
  | cons q l ih =>
    have : regList (q :: l) c = regList l (AL.set c q.1 q.2) := by simp [regList]
    rw [this, ih]
    simp only [Reg, AL.get_set, List.map_cons, List.mem_cons]
    by_cases e : k = q.1
    · simp [e]
    · simp [e]

/-! ## Reflexivity -/

/-- the context only maps objects to themselves -/
def PId (c : Ctx) : Prop := ∀ k x, AL.get c k = some x → x = k

theorem regList_pid {l : List (Nat × Nat)} {c : Ctx} (hc : PId c) (hl : ∀ q ∈ l, q.2 = q.1) :
    PId (regList l c) := by
  induction l generalizing c with
  | nil => simpa [regList] using hc
  | cons q l ih =>
    have : regList (q :: l) c = regList l (AL.set c q.1 q.2) := by simp [regList]
    rw [this]
    apply ih
    · intro k x hk
      rw [AL.get_set] at hk
      split at hk
      · rename_i e; subst e
        have := hl q (by simp)
        simp at hk; subst hk; exact this
      · exact hc k x hk
    · intro q' hq'; exact hl q' (List.mem_cons_of_mem _ hq')

theorem lookup_pid {c : Ctx} (hc : PId c) (u : Nat) : lookup c u = u := by
  unfold lookup
  cases h : AL.get c u with
  | none => rfl
  | some x => simp [hc u x h]

theorem usesOk_pid {c : Ctx} (hc : PId c) (us : List Nat) : usesOk c us us = true := by
  induction us with
  | nil => rfl
  | cons u us ih => simp [usesOk, lookup_pid hc, ih]

theorem typesOk_self (xs : List (Nat × Nat)) : typesOk xs xs = true := (typesOk_iff xs xs).mpr rfl

theorem hdrOk_self (h : OpHdr) : hdrOk h h = true := by simp [hdrOk, typesOk_self]

theorem prePairsOps_self (o : T) : ∀ q ∈ prePairsOps o o, q.2 = q.1 := by
  induction o with
  | nil => simp [prePairsOps]
  | op h rs n _ ih =>
    intro q hq
    simp only [prePairsOps, List.mem_append] at hq
    rcases hq with hq | hq
    · exact zipIds_self _ q hq
    · exact ih q hq
  | block i a o n _ _ => simp [prePairsOps]
  | region bs n _ _ => simp [prePairsOps]

theorem blockPairs_self (i : Nat) (a : List (Nat × Nat)) (o : T) :
    ∀ q ∈ blockPairs i a o i a o, q.2 = q.1 := by
  intro q hq
  simp only [blockPairs, List.mem_cons, List.mem_append] at hq
  rcases hq with rfl | hq | hq
  · rfl
  · exact zipIds_self _ q hq
  · exact prePairsOps_self _ q hq

theorem prePairsBlocks_self (b : T) : ∀ q ∈ prePairsBlocks b b, q.2 = q.1 := by
  induction b with
  | nil => simp [prePairsBlocks]
  | op h rs n _ _ => simp [prePairsBlocks]
  | block i a o n _ ih =>
    intro q hq
    simp only [prePairsBlocks, List.mem_append] at hq
    rcases hq with hq | hq
    · exact blockPairs_self _ _ _ q hq
    · exact ih q hq
  | region bs n _ _ => simp [prePairsBlocks]

theorem isImage_iff {c : Ctx} {x : Nat} : isImage c x = true ↔ ∃ k, AL.get c k = some x := by
  simp only [isImage, List.any_eq_true, Bool.and_eq_true, beq_iff_eq]
  constructor
  · rintro ⟨q, _, h1, h2⟩
    exact ⟨q.1, h2 ▸ h1⟩
  · rintro ⟨k, hk⟩
    exact ⟨(k, x), get_some_mem hk, hk, rfl⟩

theorem oneToOne_iff {c : Ctx} {a : T} :
    oneToOne c a = true ↔ ∀ u ∈ uses a, AL.get c u = none → ¬ ∃ k, AL.get c k = some u := by
  simp only [oneToOne, List.all_eq_true, Bool.or_eq_true, Bool.not_eq_true', ← isImage_iff]
  constructor
  · intro h u hu hn
    rcases h u hu with h1 | h1
    · simp [hn] at h1
    · simp [h1]
  · intro h u hu
    cases hg : AL.get c u with
    | some x => simp
    | none =>
      right
      have := h u hu hg
      simpa using this

/-- a context that maps objects to themselves passes the one-to-one check -/
theorem oneToOne_pid {c : Ctx} (hc : PId c) (a : T) : oneToOne c a = true := by
  rw [oneToOne_iff]
  rintro u _ hn ⟨k, hk⟩
  have := hc k u hk
  subst this
  simp [hk] at hn

theorem eqT_self (a : T) : ∀ c, PId c → ∃ c', eqT a a c = some c' ∧ PId c' := by
  induction a with
  | nil => intro c hc; exact ⟨c, rfl, hc⟩
  | op h rs n ihr ihn =>
    intro c hc
    have h1 : PId (regVals h.results h.results c) := by
      rw [regVals_eq]; exact regList_pid hc (zipIds_self _)
    obtain ⟨c2, e2, h2⟩ := ihr _ h1
    obtain ⟨c3, e3, h3⟩ := ihn _ h2
    refine ⟨c3, ?_, h3⟩
    simp [eqT, hdrOk_self, usesOk_pid h1, e2, e3]
  | block i a o n iho ihn =>
    intro c hc
    have h1 : PId (addBlock i a o i a o c) := by
      rw [addBlock_eq]; exact regList_pid hc (blockPairs_self _ _ _)
    obtain ⟨c2, e2, h2⟩ := iho _ h1
    obtain ⟨c3, e3, h3⟩ := ihn _ h2
    refine ⟨c3, ?_, h3⟩
    simp [eqT, typesOk_self, e2, e3]
  | region bs n ihb ihn =>
    intro c hc
    have h1 : PId (preBlocks bs bs c) := by
      rw [preBlocks_eq]; exact regList_pid hc (prePairsBlocks_self _)
    obtain ⟨c2, e2, h2⟩ := ihb _ h1
    obtain ⟨c3, e3, h3⟩ := ihn _ h2
    refine ⟨c3, ?_, h3⟩
    simp [eqT, e2, e3]

/-! ## Unfolding the walk -/

theorem eqT_op (h : OpHdr) (rs n : T) (h' : OpHdr) (rs' n' : T) (c : Ctx) :
    eqT (.op h rs n) (.op h' rs' n') c =
      if hdrOk h h' = true ∧ usesOk (regVals h.results h'.results c) h.operands h'.operands = true
          ∧ usesOk (regVals h.results h'.results c) h.succs h'.succs = true then
        (eqT rs rs' (regVals h.results h'.results c)).bind (fun c2 => eqT n n' c2)
      else none := by
  simp only [eqT]
  by_cases h1 : hdrOk h h' = true
  · by_cases h2 : usesOk (regVals h.results h'.results c) h.operands h'.operands = true
    · by_cases h3 : usesOk (regVals h.results h'.results c) h.succs h'.succs = true
      · simp only [h1, h2, h3, Bool.and_self, if_true, and_self]
        cases eqT rs rs' (regVals h.results h'.results c) <;> rfl
      · simp [h1, h2, h3]
    · simp [h1, h2]
  · simp [h1]

theorem eqT_block (i : Nat) (a : List (Nat × Nat)) (o n : T) (i' : Nat) (a' : List (Nat × Nat))
    (o' n' : T) (c : Ctx) :
    eqT (.block i a o n) (.block i' a' o' n') c =
      if typesOk a a' = true then
        (eqT o o' (addBlock i a o i' a' o' c)).bind (fun c2 => eqT n n' c2)
      else none := by
  simp only [eqT]
  by_cases h1 : typesOk a a' = true
  · simp only [h1, if_true]
    cases eqT o o' (addBlock i a o i' a' o' c) <;> rfl
  · simp [h1]

theorem eqT_region (bs n bs' n' : T) (c : Ctx) :
    eqT (.region bs n) (.region bs' n') c =
      (eqT bs bs' (preBlocks bs bs' c)).bind (fun c2 => eqT n n' c2) := by
  simp only [eqT]
  cases eqT bs bs' (preBlocks bs bs' c) <;> rfl

theorem hdrOk_iff (h h' : OpHdr) :
    hdrOk h h' = true ↔ h.name = h'.name ∧ h.attrs = h'.attrs ∧ h.props = h'.props
      ∧ tys h.results = tys h'.results := by
  simp [hdrOk, typesOk_iff, and_assoc]

/-! ## Shapes and positional pairs -/

theorem eqT_shape : ∀ (a b : T) (c c' : Ctx), eqT a b c = some c' → Shape a b := by
  intro a
  induction a with
  | nil => intro b c c' h; cases b <;> simp_all [eqT, Shape]
  | op h rs n ihr ihn =>
    intro b c c' he
    cases b with
    | op h' rs' n' =>
      rw [eqT_op] at he
      split at he
      · rename_i hc
        obtain ⟨c2, e2, e3⟩ := Option.bind_eq_some_iff.mp he
        exact ⟨tys_length ((hdrOk_iff h h').mp hc.1).2.2.2, ihr _ _ _ e2, ihn _ _ _ e3⟩
      · simp at he
    | nil => simp [eqT] at he
    | block _ _ _ _ => simp [eqT] at he
    | region _ _ => simp [eqT] at he
  | block i a o n iho ihn =>
    intro b c c' he
    cases b with
    | block i' a' o' n' =>
      rw [eqT_block] at he
      split at he
      · rename_i hc
        obtain ⟨c2, e2, e3⟩ := Option.bind_eq_some_iff.mp he
        exact ⟨tys_length ((typesOk_iff a a').mp hc), iho _ _ _ e2, ihn _ _ _ e3⟩
      · simp at he
    | nil => simp [eqT] at he
    | op _ _ _ => simp [eqT] at he
    | region _ _ => simp [eqT] at he
  | region bs n ihb ihn =>
    intro b c c' he
    cases b with
    | region bs' n' =>
      rw [eqT_region] at he
      obtain ⟨c2, e2, e3⟩ := Option.bind_eq_some_iff.mp he
      exact ⟨ihb _ _ _ e2, ihn _ _ _ e3⟩
    | nil => simp [eqT] at he
    | op _ _ _ => simp [eqT] at he
    | block _ _ _ _ => simp [eqT] at he

theorem agree_shape {f : Nat → Nat} : ∀ (a b : T), Agree f a b → Shape a b := by
  intro a
  induction a with
  | nil => intro b h; cases b <;> simp_all [Agree, Shape]
  | op h rs n ihr ihn =>
    intro b hb
    cases b with
    | op h' rs' n' =>
      simp only [Agree] at hb
      exact ⟨tys_length hb.2.2.2.1, ihr _ hb.2.2.2.2.2.2.2.1, ihn _ hb.2.2.2.2.2.2.2.2⟩
    | nil => simp [Agree] at hb
    | block _ _ _ _ => simp [Agree] at hb
    | region _ _ => simp [Agree] at hb
  | block i a o n iho ihn =>
    intro b hb
    cases b with
    | block i' a' o' n' =>
      simp only [Agree] at hb
      exact ⟨tys_length hb.2.1, iho _ hb.2.2.2.1, ihn _ hb.2.2.2.2⟩
    | nil => simp [Agree] at hb
    | op _ _ _ => simp [Agree] at hb
    | region _ _ => simp [Agree] at hb
  | region bs n ihb ihn =>
    intro b hb
    cases b with
    | region bs' n' =>
      simp only [Agree] at hb
      exact ⟨ihb _ hb.1, ihn _ hb.2⟩
    | nil => simp [Agree] at hb
    | op _ _ _ => simp [Agree] at hb
    | block _ _ _ _ => simp [Agree] at hb

theorem shape_pairs_fst : ∀ (a b : T), Shape a b → (pairs a b).map Prod.fst = defs a := by
  intro a
  induction a with
  | nil => intro b h; cases b <;> simp_all [Shape, pairs, defs]
  | op h rs n ihr ihn =>
    intro b hb
    cases b <;> simp only [Shape] at hb
    simp [pairs, defs, zipIds_fst hb.1, ihr _ hb.2.1, ihn _ hb.2.2]
  | block i a o n iho ihn =>
    intro b hb
    cases b <;> simp only [Shape] at hb
    simp [pairs, defs, zipIds_fst hb.1, iho _ hb.2.1, ihn _ hb.2.2]
  | region bs n ihb ihn =>
    intro b hb
    cases b <;> simp only [Shape] at hb
    simp [pairs, defs, ihb _ hb.1, ihn _ hb.2]

theorem shape_pairs_snd : ∀ (a b : T), Shape a b → (pairs a b).map Prod.snd = defs b := by
  intro a
  induction a with
  | nil => intro b h; cases b <;> simp_all [Shape, pairs, defs]
  | op h rs n ihr ihn =>
    intro b hb
    cases b <;> simp only [Shape] at hb
    simp [pairs, defs, zipIds_snd hb.1, ihr _ hb.2.1, ihn _ hb.2.2]
  | block i a o n iho ihn =>
    intro b hb
    cases b <;> simp only [Shape] at hb
    simp [pairs, defs, zipIds_snd hb.1, iho _ hb.2.1, ihn _ hb.2.2]
  | region bs n ihb ihn =>
    intro b hb
    cases b <;> simp only [Shape] at hb
    simp [pairs, defs, ihb _ hb.1, ihn _ hb.2]

theorem prePairsOps_sub : ∀ (o o' : T), ∀ q ∈ prePairsOps o o', q ∈ pairs o o' := by
  intro o
  induction o with
  | nil => intro o' q hq; cases o' <;> simp [prePairsOps] at hq
  | op h rs n _ ihn =>
    intro o' q hq
    cases o' <;> simp only [prePairsOps, List.mem_append, List.not_mem_nil] at hq
    simp only [pairs, List.mem_append]
    rcases hq with hq | hq
    · exact Or.inl hq
    · exact Or.inr (Or.inr (ihn _ q hq))
  | block i a o n _ _ => intro o' q hq; cases o' <;> simp [prePairsOps] at hq
  | region bs n _ _ => intro o' q hq; cases o' <;> simp [prePairsOps] at hq

theorem prePairsOps_fst : ∀ (o o' : T), Shape o o' → (prePairsOps o o').map Prod.fst = preKeysOps o := by
  intro o
  induction o with
  | nil => intro o' h; cases o' <;> simp_all [Shape, prePairsOps, preKeysOps]
  | op h rs n _ ihn =>
    intro o' hb
    cases o' <;> simp only [Shape] at hb
    simp [prePairsOps, preKeysOps, zipIds_fst hb.1, ihn _ hb.2.2]
  | block i a o n _ _ => intro o' hb; cases o' <;> simp_all [Shape, prePairsOps, preKeysOps]
  | region bs n _ _ => intro o' hb; cases o' <;> simp_all [Shape, prePairsOps, preKeysOps]

theorem prePairsBlocks_sub : ∀ (b b' : T), ∀ q ∈ prePairsBlocks b b', q ∈ pairs b b' := by
  intro b
  induction b with
  | nil => intro b' q hq; cases b' <;> simp [prePairsBlocks] at hq
  | op h rs n _ _ => intro b' q hq; cases b' <;> simp [prePairsBlocks] at hq
  | block i a o n _ ihn =>
    intro b' q hq
    cases b' <;> simp only [prePairsBlocks, blockPairs, List.mem_append, List.mem_cons, List.not_mem_nil] at hq
    simp only [pairs, List.mem_append, List.mem_cons]
    rcases hq with (hq | hq | hq) | hq
    · exact Or.inl hq
    · exact Or.inr (Or.inl hq)
    · exact Or.inr (Or.inr (Or.inl (prePairsOps_sub _ _ q hq)))
    · exact Or.inr (Or.inr (Or.inr (ihn _ q hq)))
  | region bs n _ _ => intro b' q hq; cases b' <;> simp [prePairsBlocks] at hq

theorem prePairsBlocks_fst : ∀ (b b' : T), Shape b b' →
    (prePairsBlocks b b').map Prod.fst = preKeysBlocks b := by
  intro b
  induction b with
  | nil => intro b' h; cases b' <;> simp_all [Shape, prePairsBlocks, preKeysBlocks]
  | op h rs n _ _ => intro b' h; cases b' <;> simp_all [Shape, prePairsBlocks, preKeysBlocks]
  | block i a o n _ ihn =>
    intro b' hb
    cases b' <;> simp only [Shape] at hb
    simp [prePairsBlocks, blockPairs, preKeysBlocks, zipIds_fst hb.1, prePairsOps_fst _ _ hb.2.1, ihn _ hb.2.2]
  | region bs n _ _ => intro b' h; cases b' <;> simp_all [Shape, prePairsBlocks, preKeysBlocks]

/-! ## The walk against the positional map -/

theorem lookup_agree {c p : Ctx} {u : Nat} (hs : Sub c p) (h : Reg c u ∨ u ∉ p.map Prod.fst) :
    lookup c u = lookup p u := by
  cases hc : AL.get c u with
  | some x => rw [lookup_of_get hc, lookup_of_get (hs u x hc)]
  | none =>
    rcases h with h | h
    · exact absurd hc h
    · rw [lookup_of_none hc, lookup_of_none (get_none_iff.mpr h)]

theorem usesOk_iff {c : Ctx} {f : Nat → Nat} : ∀ (us us' : List Nat),
    (∀ u ∈ us, lookup c u = f u) → (usesOk c us us' = true ↔ us.map f = us') := by
  intro us
  induction us with
  | nil => intro us' _; cases us' <;> simp [usesOk]
  | cons u us ih =>
    intro us' h
    cases us' with
    | nil => simp [usesOk]
    | cons u' us' =>
      have h1 := h u (by simp)
      have h2 := ih us' (fun v hv => h v (List.mem_cons_of_mem _ hv))
      simp [usesOk, h1, h2]

theorem scopedB_op (d r : List Nat) (h : OpHdr) (rs n : T) :
    scopedB d r (.op h rs n) = true ↔
      (∀ u ∈ h.operands ++ h.succs, u ∈ r ++ ids h.results ∨ u ∉ d)
        ∧ scopedB d (r ++ ids h.results) rs = true
        ∧ scopedB d (r ++ ids h.results ++ defs rs) n = true := by
  simp only [scopedB, Bool.and_eq_true, List.all_eq_true, Bool.or_eq_true, List.contains_iff_mem,
    Bool.not_eq_true', and_assoc]
  constructor
  · rintro ⟨h1, h2, h3⟩
    refine ⟨fun u hu => ?_, h2, h3⟩
    rcases h1 u hu with h | h
    · exact Or.inl h
    · right; intro hm; exact absurd hm (by simpa using h)
  · rintro ⟨h1, h2, h3⟩
    refine ⟨fun u hu => ?_, h2, h3⟩
    rcases h1 u hu with h | h
    · exact Or.inl h
    · right; cases hc : d.contains u
      · rfl
      · exact absurd (List.contains_iff_mem.mp hc) h

/-- What the walk does, stated against the positional pairing `p` of the two root trees: when the
sub-trees have the same shape, their definition pairs are entries of `p`, the context so far is
part of `p`, `r` is registered and the sub-tree is scoped w.r.t. `r`, then (1) a successful walk
leaves a context that is part of `p` and has `r` and the sub-tree's definitions registered, and
(2) the walk succeeds iff the sub-trees agree under `lookup p`. -/
theorem eqT_main (p : Ctx) : ∀ (s s' : T) (c : Ctx) (r : List Nat),
    Shape s s' → (∀ q ∈ pairs s s', AL.get p q.1 = some q.2) → Sub c p → (∀ k ∈ r, Reg c k) →
    scopedB (p.map Prod.fst) r s = true →
    ((∀ c', eqT s s' c = some c' → Sub c' p ∧ ∀ k ∈ r ++ defs s, Reg c' k)
      ∧ ((eqT s s' c).isSome = true ↔ Agree (lookup p) s s')) := by
  intro s
  induction s with
  | nil =>
    intro s' c r hsh _ hsub hreg _
    cases s' <;> simp only [Shape] at hsh
    refine ⟨fun c' hc' => ?_, by simp [eqT, Agree]⟩
    simp only [eqT, Option.some.injEq] at hc'
    subst hc'
    exact ⟨hsub, by simpa [defs] using hreg⟩
  | op h rs n ihr ihn =>
    intro s' c r hsh hp hsub hreg hsc
    cases s' <;> simp only [Shape] at hsh
    rename_i h' rs' n'
    obtain ⟨hlen, hshr, hshn⟩ := hsh
    simp only [pairs, List.mem_append] at hp
    have hp1 : ∀ q ∈ zipIds h.results h'.results, AL.get p q.1 = some q.2 := fun q hq => hp q (Or.inl hq)
    have hp2 : ∀ q ∈ pairs rs rs', AL.get p q.1 = some q.2 := fun q hq => hp q (Or.inr (Or.inl hq))
    have hp3 : ∀ q ∈ pairs n n', AL.get p q.1 = some q.2 := fun q hq => hp q (Or.inr (Or.inr hq))
    obtain ⟨hu, hsr, hsn⟩ := (scopedB_op _ _ _ _ _).mp hsc
    have hsub1 : Sub (regVals h.results h'.results c) p := by
      rw [regVals_eq]; exact regList_sub hsub hp1
    have hreg1 : ∀ k ∈ r ++ ids h.results, Reg (regVals h.results h'.results c) k := by
      intro k hk
      rw [regVals_eq, regList_reg, zipIds_fst hlen]
      rcases List.mem_append.mp hk with hk | hk
      · exact Or.inl (hreg k hk)
      · exact Or.inr hk
    have hlk : ∀ u ∈ h.operands ++ h.succs, lookup (regVals h.results h'.results c) u = lookup p u := by
      intro u hu'
      apply lookup_agree hsub1
      rcases hu u hu' with h1 | h1
      · exact Or.inl (hreg1 u h1)
      · exact Or.inr h1
    have hres : (ids h.results).map (lookup p) = ids h'.results :=
      (zipIds_map hlen).mp (fun q hq => lookup_of_get (hp1 q hq))
    have huo := usesOk_iff (c := regVals h.results h'.results c) (f := lookup p) h.operands h'.operands
      (fun u hu' => hlk u (List.mem_append_left _ hu'))
    have hus := usesOk_iff (c := regVals h.results h'.results c) (f := lookup p) h.succs h'.succs
      (fun u hu' => hlk u (List.mem_append_right _ hu'))
    obtain ⟨inv_r, iff_r⟩ := ihr rs' _ (r ++ ids h.results) hshr hp2 hsub1 hreg1 hsr
    rw [eqT_op]
    cases e2 : eqT rs rs' (regVals h.results h'.results c) with
    | none =>
      have nr : ¬ Agree (lookup p) rs rs' := by rw [← iff_r]; simp [e2]
      constructor
      · intro c' hc'; split at hc' <;> simp at hc'
      · simp only [Agree]
        constructor
        · intro hx; split at hx <;> simp at hx
        · intro hx; exact absurd hx.2.2.2.2.2.2.2.1 nr
    | some c2 =>
      obtain ⟨hsub2, hreg2⟩ := inv_r c2 e2
      have ar : Agree (lookup p) rs rs' := iff_r.mp (by simp [e2])
      obtain ⟨inv_n, iff_n⟩ := ihn n' c2 (r ++ ids h.results ++ defs rs) hshn hp3 hsub2 hreg2 hsn
      constructor
      · intro c' hc'
        split at hc'
        · simp only [Option.bind_some] at hc'
          obtain ⟨hs3, hr3⟩ := inv_n c' hc'
          refine ⟨hs3, fun k hk => hr3 k ?_⟩
          simp only [defs, List.mem_append] at hk ⊢
          rcases hk with hk | hk | hk | hk <;> simp [hk]
        · simp at hc'
      · simp only [Agree]
        constructor
        · intro hx
          split at hx
          · rename_i hc
            simp only [Option.bind_some] at hx
            obtain ⟨hh, ho, hs⟩ := hc
            obtain ⟨a1, a2, a3, a4⟩ := (hdrOk_iff h h').mp hh
            exact ⟨a1, a2, a3, a4, hres, huo.mp ho, hus.mp hs, ar, iff_n.mp hx⟩
          · simp at hx
        · rintro ⟨a1, a2, a3, a4, _, a6, a7, _, a9⟩
          rw [if_pos ⟨(hdrOk_iff h h').mpr ⟨a1, a2, a3, a4⟩, huo.mpr a6, hus.mpr a7⟩]
          simpa using iff_n.mpr a9
  | block i a o n iho ihn =>
    intro s' c r hsh hp hsub hreg hsc
    cases s' <;> simp only [Shape] at hsh
    rename_i i' a' o' n'
    obtain ⟨hlen, hsho, hshn⟩ := hsh
    simp only [pairs, List.mem_cons, List.mem_append] at hp
    have hp0 : AL.get p i = some i' := hp (i, i') (Or.inl rfl)
    have hp1 : ∀ q ∈ zipIds a a', AL.get p q.1 = some q.2 := fun q hq => hp q (Or.inr (Or.inl hq))
    have hp2 : ∀ q ∈ pairs o o', AL.get p q.1 = some q.2 := fun q hq => hp q (Or.inr (Or.inr (Or.inl hq)))
    have hp3 : ∀ q ∈ pairs n n', AL.get p q.1 = some q.2 := fun q hq => hp q (Or.inr (Or.inr (Or.inr hq)))
    simp only [scopedB, Bool.and_eq_true] at hsc
    obtain ⟨hso, hsn⟩ := hsc
    have hbp : ∀ q ∈ blockPairs i a o i' a' o', AL.get p q.1 = some q.2 := by
      intro q hq
      simp only [blockPairs, List.mem_cons, List.mem_append] at hq
      rcases hq with rfl | hq | hq
      · exact hp0
      · exact hp1 q hq
      · exact hp2 q (prePairsOps_sub _ _ q hq)
    have hsub1 : Sub (addBlock i a o i' a' o' c) p := by
      rw [addBlock_eq]; exact regList_sub hsub hbp
    have hreg1 : ∀ k ∈ r ++ (i :: (ids a ++ preKeysOps o)), Reg (addBlock i a o i' a' o' c) k := by
      intro k hk
      rw [addBlock_eq, regList_reg]
      simp only [blockPairs, List.map_cons, List.map_append, zipIds_fst hlen, prePairsOps_fst _ _ hsho]
      rcases List.mem_append.mp hk with hk | hk
      · exact Or.inl (hreg k hk)
      · exact Or.inr hk
    have hi : lookup p i = i' := lookup_of_get hp0
    have hargs : (ids a).map (lookup p) = ids a' :=
      (zipIds_map hlen).mp (fun q hq => lookup_of_get (hp1 q hq))
    obtain ⟨inv_o, iff_o⟩ := iho o' _ _ hsho hp2 hsub1 hreg1 hso
    rw [eqT_block]
    cases e2 : eqT o o' (addBlock i a o i' a' o' c) with
    | none =>
      have nr : ¬ Agree (lookup p) o o' := by rw [← iff_o]; simp [e2]
      constructor
      · intro c' hc'; split at hc' <;> simp at hc'
      · simp only [Agree]
        constructor
        · intro hx; split at hx <;> simp at hx
        · intro hx; exact absurd hx.2.2.2.1 nr
    | some c2 =>
      obtain ⟨hsub2, hreg2⟩ := inv_o c2 e2
      have ao : Agree (lookup p) o o' := iff_o.mp (by simp [e2])
      have hreg2' : ∀ k ∈ r ++ (i :: (ids a ++ defs o)), Reg c2 k := by
        intro k hk
        apply hreg2
        simp only [List.mem_append, List.mem_cons] at hk ⊢
        rcases hk with hk | hk | hk | hk <;> simp [hk]
      obtain ⟨inv_n, iff_n⟩ := ihn n' c2 _ hshn hp3 hsub2 hreg2' hsn
      constructor
      · intro c' hc'
        split at hc'
        · simp only [Option.bind_some] at hc'
          obtain ⟨hs3, hr3⟩ := inv_n c' hc'
          refine ⟨hs3, fun k hk => hr3 k ?_⟩
          simp only [defs, List.mem_append, List.mem_cons] at hk ⊢
          rcases hk with hk | hk | hk | hk | hk <;> simp [hk]
        · simp at hc'
      · simp only [Agree]
        constructor
        · intro hx
          split at hx
          · rename_i hc
            simp only [Option.bind_some] at hx
            exact ⟨hi, (typesOk_iff a a').mp hc, hargs, ao, iff_n.mp hx⟩
          · simp at hx
        · rintro ⟨_, a2, _, _, a5⟩
          rw [if_pos ((typesOk_iff a a').mpr a2)]
          simpa using iff_n.mpr a5
  | region bs n ihb ihn =>
    intro s' c r hsh hp hsub hreg hsc
    cases s' <;> simp only [Shape] at hsh
    rename_i bs' n'
    obtain ⟨hshb, hshn⟩ := hsh
    simp only [pairs, List.mem_append] at hp
    have hp2 : ∀ q ∈ pairs bs bs', AL.get p q.1 = some q.2 := fun q hq => hp q (Or.inl hq)
    have hp3 : ∀ q ∈ pairs n n', AL.get p q.1 = some q.2 := fun q hq => hp q (Or.inr hq)
    simp only [scopedB, Bool.and_eq_true] at hsc
    obtain ⟨hsb, hsn⟩ := hsc
    have hsub1 : Sub (preBlocks bs bs' c) p := by
      rw [preBlocks_eq]
      exact regList_sub hsub (fun q hq => hp2 q (prePairsBlocks_sub _ _ q hq))
    have hreg1 : ∀ k ∈ r ++ preKeysBlocks bs, Reg (preBlocks bs bs' c) k := by
      intro k hk
      rw [preBlocks_eq, regList_reg, prePairsBlocks_fst _ _ hshb]
      rcases List.mem_append.mp hk with hk | hk
      · exact Or.inl (hreg k hk)
      · exact Or.inr hk
    obtain ⟨inv_b, iff_b⟩ := ihb bs' _ _ hshb hp2 hsub1 hreg1 hsb
    rw [eqT_region]
    cases e2 : eqT bs bs' (preBlocks bs bs' c) with
    | none =>
      have nr : ¬ Agree (lookup p) bs bs' := by rw [← iff_b]; simp [e2]
      constructor
      · intro c' hc'; simp at hc'
      · simp only [Agree]
        constructor
        · intro hx; simp at hx
        · intro hx; exact absurd hx.1 nr
    | some c2 =>
      obtain ⟨hsub2, hreg2⟩ := inv_b c2 e2
      have ab : Agree (lookup p) bs bs' := iff_b.mp (by simp [e2])
      have hreg2' : ∀ k ∈ r ++ defs bs, Reg c2 k := by
        intro k hk
        apply hreg2
        simp only [List.mem_append] at hk ⊢
        rcases hk with hk | hk <;> simp [hk]
      obtain ⟨inv_n, iff_n⟩ := ihn n' c2 _ hshn hp3 hsub2 hreg2' hsn
      constructor
      · intro c' hc'
        simp only [Option.bind_some] at hc'
        obtain ⟨hs3, hr3⟩ := inv_n c' hc'
        refine ⟨hs3, fun k hk => hr3 k ?_⟩
        simp only [defs, List.mem_append] at hk ⊢
        rcases hk with hk | hk | hk <;> simp [hk]
      · simp only [Agree, Option.bind_some]
        constructor
        · intro hx; exact ⟨ab, iff_n.mp hx⟩
        · intro hx; exact iff_n.mpr hx.2

/-! ## `Agree`: congruence, pairs, converse, renaming, decision -/

theorem agree_congr {f g : Nat → Nat} : ∀ (a b : T), (∀ u ∈ defs a, f u = g u) → (∀ u ∈ uses a, f u = g u) →
    Agree f a b → Agree g a b := by
  intro a
  induction a with
  | nil => intro b _ _ h; cases b <;> simp_all [Agree]
  | op h rs n ihr ihn =>
    intro b hd hu hb
    cases b <;> simp only [Agree] at hb ⊢
    simp only [defs, uses, List.mem_append] at hd hu
    obtain ⟨a1, a2, a3, a4, a5, a6, a7, a8, a9⟩ := hb
    refine ⟨a1, a2, a3, a4, ?_, ?_, ?_, ihr _ (fun u hx => hd u (Or.inr (Or.inl hx))) (fun u hx => hu u (Or.inr (Or.inr (Or.inl hx)))) a8,
      ihn _ (fun u hx => hd u (Or.inr (Or.inr hx))) (fun u hx => hu u (Or.inr (Or.inr (Or.inr hx)))) a9⟩
    · rw [← a5]; exact (List.map_congr_left (fun u hx => hd u (Or.inl hx))).symm
    · rw [← a6]; exact (List.map_congr_left (fun u hx => hu u (Or.inl hx))).symm
    · rw [← a7]; exact (List.map_congr_left (fun u hx => hu u (Or.inr (Or.inl hx)))).symm
  | block i a o n iho ihn =>
    intro b hd hu hb
    cases b <;> simp only [Agree] at hb ⊢
    simp only [defs, uses, List.mem_append, List.mem_cons] at hd hu
    obtain ⟨a1, a2, a3, a4, a5⟩ := hb
    refine ⟨?_, a2, ?_, iho _ (fun u hx => hd u (Or.inr (Or.inr (Or.inl hx)))) (fun u hx => hu u (Or.inl hx)) a4,
      ihn _ (fun u hx => hd u (Or.inr (Or.inr (Or.inr hx)))) (fun u hx => hu u (Or.inr hx)) a5⟩
    · rw [← a1]; exact (hd i (Or.inl rfl)).symm
    · rw [← a3]; exact (List.map_congr_left (fun u hx => hd u (Or.inr (Or.inl hx)))).symm
  | region bs n ihb ihn =>
    intro b hd hu hb
    cases b <;> simp only [Agree] at hb ⊢
    simp only [defs, uses, List.mem_append] at hd hu
    exact ⟨ihb _ (fun u hx => hd u (Or.inl hx)) (fun u hx => hu u (Or.inl hx)) hb.1,
      ihn _ (fun u hx => hd u (Or.inr hx)) (fun u hx => hu u (Or.inr hx)) hb.2⟩

theorem agree_pairs {f : Nat → Nat} : ∀ (a b : T), Agree f a b → ∀ q ∈ pairs a b, f q.1 = q.2 := by
  intro a
  induction a with
  | nil => intro b _ q hq; cases b <;> simp [pairs] at hq
  | op h rs n ihr ihn =>
    intro b hb q hq
    cases b <;> simp only [Agree] at hb <;> simp only [pairs, List.mem_append] at hq
    obtain ⟨_, _, _, a4, a5, _, _, a8, a9⟩ := hb
    rcases hq with hq | hq | hq
    · exact (zipIds_map (tys_length a4)).mpr a5 q hq
    · exact ihr _ a8 q hq
    · exact ihn _ a9 q hq
  | block i a o n iho ihn =>
    intro b hb q hq
    cases b <;> simp only [Agree] at hb <;> simp only [pairs, List.mem_append, List.mem_cons] at hq
    obtain ⟨a1, a2, a3, a4, a5⟩ := hb
    rcases hq with rfl | hq | hq | hq
    · exact a1
    · exact (zipIds_map (tys_length a2)).mpr a3 q hq
    · exact iho _ a4 q hq
    · exact ihn _ a5 q hq
  | region bs n ihb ihn =>
    intro b hb q hq
    cases b <;> simp only [Agree] at hb <;> simp only [pairs, List.mem_append] at hq
    rcases hq with hq | hq
    · exact ihb _ hb.1 q hq
    · exact ihn _ hb.2 q hq

theorem map_inv {f g : Nat → Nat} {l l' : List Nat} (h : l.map f = l') (hg : ∀ u ∈ l, g (f u) = u) :
    l'.map g = l := by
  subst h
  rw [List.map_map]
  conv => rhs; rw [← List.map_id l]
  exact List.map_congr_left (fun u hu => by simpa using hg u hu)

/-- the converse direction under a left inverse of the map -/
theorem agree_symm {f g : Nat → Nat} : ∀ (a b : T), (∀ u ∈ defs a, g (f u) = u) →
    (∀ u ∈ uses a, g (f u) = u) → Agree f a b → Agree g b a := by
  intro a
  induction a with
  | nil => intro b _ _ h; cases b <;> simp_all [Agree]
  | op h rs n ihr ihn =>
    intro b hd hu hb
    cases b <;> simp only [Agree] at hb ⊢
    simp only [defs, uses, List.mem_append] at hd hu
    obtain ⟨a1, a2, a3, a4, a5, a6, a7, a8, a9⟩ := hb
    exact ⟨a1.symm, a2.symm, a3.symm, a4.symm, map_inv a5 (fun u hx => hd u (Or.inl hx)),
      map_inv a6 (fun u hx => hu u (Or.inl hx)), map_inv a7 (fun u hx => hu u (Or.inr (Or.inl hx))),
      ihr _ (fun u hx => hd u (Or.inr (Or.inl hx))) (fun u hx => hu u (Or.inr (Or.inr (Or.inl hx)))) a8,
      ihn _ (fun u hx => hd u (Or.inr (Or.inr hx))) (fun u hx => hu u (Or.inr (Or.inr (Or.inr hx)))) a9⟩
  | block i a o n iho ihn =>
    intro b hd hu hb
    cases b <;> simp only [Agree] at hb ⊢
    simp only [defs, uses, List.mem_append, List.mem_cons] at hd hu
    obtain ⟨a1, a2, a3, a4, a5⟩ := hb
    refine ⟨?_, a2.symm, map_inv a3 (fun u hx => hd u (Or.inr (Or.inl hx))),
      iho _ (fun u hx => hd u (Or.inr (Or.inr (Or.inl hx)))) (fun u hx => hu u (Or.inl hx)) a4,
      ihn _ (fun u hx => hd u (Or.inr (Or.inr (Or.inr hx)))) (fun u hx => hu u (Or.inr hx)) a5⟩
    rw [← a1]; exact hd i (Or.inl rfl)
  | region bs n ihb ihn =>
    intro b hd hu hb
    cases b <;> simp only [Agree] at hb ⊢
    simp only [defs, uses, List.mem_append] at hd hu
    exact ⟨ihb _ (fun u hx => hd u (Or.inl hx)) (fun u hx => hu u (Or.inl hx)) hb.1,
      ihn _ (fun u hx => hd u (Or.inr hx)) (fun u hx => hu u (Or.inr hx)) hb.2⟩

theorem ids_mapIds (f : Nat → Nat) (l : List (Nat × Nat)) : ids (mapIds f l) = (ids l).map f := by
  simp [ids, mapIds, List.map_map, Function.comp_def]

theorem tys_mapIds (f : Nat → Nat) (l : List (Nat × Nat)) : tys (mapIds f l) = tys l := by
  simp [tys, mapIds, List.map_map, Function.comp_def]

/-- a tree agrees with its image under any renaming -/
theorem agree_mapT (f : Nat → Nat) : ∀ a : T, Agree f a (mapT f a) := by
  intro a
  induction a with
  | nil => simp [mapT, Agree]
  | op h rs n ihr ihn => simp [mapT, Agree, ids_mapIds, tys_mapIds, ihr, ihn]
  | block i a o n iho ihn => simp [mapT, Agree, ids_mapIds, tys_mapIds, iho, ihn]
  | region bs n ihb ihn => simp [mapT, Agree, ihb, ihn]

theorem agreeB_iff (f : Nat → Nat) : ∀ (a b : T), agreeB f a b = true ↔ Agree f a b := by
  intro a
  induction a with
  | nil => intro b; cases b <;> simp [agreeB, Agree]
  | op h rs n ihr ihn => intro b; cases b <;> simp [agreeB, Agree, ihr, ihn, and_assoc]
  | block i a o n iho ihn => intro b; cases b <;> simp [agreeB, Agree, iho, ihn, and_assoc]
  | region bs n ihb ihn => intro b; cases b <;> simp [agreeB, Agree, ihb, ihn]

/-! ## Root level -/

theorem pairs_get {a b : T} (hw : WF a) (hs : Shape a b) :
    ∀ q ∈ pairs a b, AL.get (pairs a b) q.1 = some q.2 := by
  intro q hq
  apply mem_get_of_nodup
  · rw [shape_pairs_fst a b hs]; exact hw
  · exact hq

/-- The context a successful walk from the empty context leaves behind (it is part of the
positional pairing and has every definition of `a` registered) has exactly the definitions of `a`
as keys and exactly the definitions of `b` as values, so the final one-to-one check of the code
is the separation `Sep a b`. -/
theorem oneToOne_iff_sep {a b : T} {c' : Ctx} (hw : WF a) (hs : Shape a b)
    (hsub : Sub c' (pairs a b)) (hreg : ∀ k ∈ defs a, Reg c' k) :
    oneToOne c' a = true ↔ Sep a b := by
  have hkey : ∀ u, AL.get c' u = none ↔ u ∉ defs a := by
    intro u
    constructor
    · intro hn hd; exact hreg u hd hn
    · intro hd
      cases hg : AL.get c' u with
      | none => rfl
      | some x =>
        exfalso
        have h1 := hsub u x hg
        have h2 : AL.get (pairs a b) u = none := by
          rw [get_none_iff, shape_pairs_fst a b hs]; exact hd
        simp [h1] at h2
  have himg : ∀ x, (∃ k, AL.get c' k = some x) ↔ x ∈ defs b := by
    intro x
    constructor
    · rintro ⟨k, hk⟩
      rw [← shape_pairs_snd a b hs]
      exact List.mem_map.mpr ⟨(k, x), get_some_mem (hsub k x hk), rfl⟩
    · intro hx
      rw [← shape_pairs_snd a b hs] at hx
      obtain ⟨q, hq, rfl⟩ := List.mem_map.mp hx
      have hq1 : q.1 ∈ defs a := by
        rw [← shape_pairs_fst a b hs]; exact List.mem_map.mpr ⟨q, hq, rfl⟩
      have hp := pairs_get hw hs q hq
      cases hg : AL.get c' q.1 with
      | none => exact absurd hg (hreg q.1 hq1)
      | some y =>
        have := hsub q.1 y hg
        rw [hp] at this
        simp at this
        exact ⟨q.1, by rw [hg, this]⟩
  rw [oneToOne_iff]
  simp only [hkey, himg, Sep]

theorem structEq_iff_agree_of_shape {a b : T} (hw : WF a) (hsc : Scoped a) (hs : Shape a b) :
    structEq a b = true ↔ Agree (lookup (pairs a b)) a b ∧ Sep a b := by
  have h := eqT_main (pairs a b) a b [] [] hs (pairs_get hw hs) (by intro k x hk; simp at hk)
    (by simp) (by rw [shape_pairs_fst a b hs]; exact hsc)
  unfold structEq
  cases e : eqT a b [] with
  | none =>
    constructor
    · intro hx; simp at hx
    · intro hx
      have := h.2.mpr hx.1
      simp [e] at this
  | some c' =>
    obtain ⟨hsub, hreg⟩ := h.1 c' e
    have hag : Agree (lookup (pairs a b)) a b := h.2.mp (by simp [e])
    simp only
    rw [oneToOne_iff_sep hw hs hsub (fun k hk => hreg k (by simpa using hk))]
    exact ⟨fun hx => ⟨hag, hx⟩, fun hx => hx.2⟩

theorem structEq_shape {a b : T} (h : structEq a b = true) : Shape a b := by
  unfold structEq at h
  cases e : eqT a b [] with
  | none => simp [e] at h
  | some c' => exact eqT_shape a b [] c' e

theorem structEq_iff_agree {a b : T} (hw : WF a) (hsc : Scoped a) :
    structEq a b = true ↔ Agree (lookup (pairs a b)) a b ∧ Sep a b := by
  constructor
  · intro h
    exact (structEq_iff_agree_of_shape hw hsc (structEq_shape h)).mp h
  · intro h
    exact (structEq_iff_agree_of_shape hw hsc (agree_shape a b h.1)).mpr h

/-- the positional map sends a definition of `a` to the definition of `b` at the same place -/
theorem lookup_pairs_mem {a b : T} (hw : WF a) (hs : Shape a b) {u : Nat} (hu : u ∈ defs a) :
    (u, lookup (pairs a b) u) ∈ pairs a b := by
  rw [← shape_pairs_fst a b hs] at hu
  obtain ⟨q, hq, rfl⟩ := List.mem_map.mp hu
  rw [lookup_of_get (pairs_get hw hs q hq)]
  exact hq

theorem lookup_pairs_ext {a b : T} (hs : Shape a b) {u : Nat} (hu : u ∉ defs a) :
    lookup (pairs a b) u = u := by
  apply lookup_of_none
  rw [get_none_iff, shape_pairs_fst a b hs]
  exact hu

theorem iso_imp_agree {a b : T} (hwa : WF a) :
    Iso a b → Agree (lookup (pairs a b)) a b ∧ Sep a b := by
    rintro ⟨f, hag, hid, hinj⟩
    have hs := agree_shape a b hag
    have hfp := agree_pairs a b hag
    have hdef : ∀ u ∈ defs a, f u = lookup (pairs a b) u := by
      intro u hu
      exact hfp _ (lookup_pairs_mem hwa hs hu)
    refine ⟨agree_congr a b hdef ?_ hag, ?_⟩
    · intro u _
      by_cases hd : u ∈ defs a
      · exact hdef u hd
      · rw [hid u hd, lookup_pairs_ext hs hd]
    · intro u hu hd hb
      rw [← shape_pairs_snd a b hs] at hb
      obtain ⟨q, hq, hq2⟩ := List.mem_map.mp hb
      have hq1 : q.1 ∈ defs a := by
        rw [← shape_pairs_fst a b hs]; exact List.mem_map.mpr ⟨q, hq, rfl⟩
      have e : f q.1 = f u := by rw [hfp q hq, hq2, hid u hd]
      have := hinj q.1 (by simp [vals, hq1]) u (by simp [vals, hu]) e
      exact hd (this ▸ hq1)

theorem agree_imp_iso {a b : T} (hwa : WF a) (hwb : WF b) :
    Agree (lookup (pairs a b)) a b ∧ Sep a b → Iso a b := by
    rintro ⟨hag, hsep⟩
    have hs := agree_shape a b hag
    refine ⟨lookup (pairs a b), hag, fun u hu => lookup_pairs_ext hs hu, ?_⟩
    intro x hx y hy e
    have hvb : ((pairs a b).map Prod.snd).Nodup := by rw [shape_pairs_snd a b hs]; exact hwb
    by_cases hxd : x ∈ defs a <;> by_cases hyd : y ∈ defs a
    · have h1 := lookup_pairs_mem hwa hs hxd
      have h2 := lookup_pairs_mem hwa hs hyd
      rw [e] at h1
      exact key_unique_of_nodup_snd hvb h1 h2
    · exfalso
      have h1 := lookup_pairs_mem hwa hs hxd
      rw [e, lookup_pairs_ext hs hyd] at h1
      have hyb : y ∈ defs b := by
        rw [← shape_pairs_snd a b hs]; exact List.mem_map.mpr ⟨_, h1, rfl⟩
      have hyu : y ∈ uses a := by
        simp only [vals, List.mem_append] at hy; exact hy.resolve_left hyd
      exact hsep y hyu hyd hyb
    · exfalso
      have h2 := lookup_pairs_mem hwa hs hyd
      rw [← e, lookup_pairs_ext hs hxd] at h2
      have hxb : x ∈ defs b := by
        rw [← shape_pairs_snd a b hs]; exact List.mem_map.mpr ⟨_, h2, rfl⟩
      have hxu : x ∈ uses a := by
        simp only [vals, List.mem_append] at hx; exact hx.resolve_left hxd
      exact hsep x hxu hxd hxb
    · rwa [lookup_pairs_ext hs hxd, lookup_pairs_ext hs hyd] at e

theorem iso_iff_agree {a b : T} (hwa : WF a) (hwb : WF b) :
    Iso a b ↔ Agree (lookup (pairs a b)) a b ∧ Sep a b :=
  ⟨iso_imp_agree hwa, agree_imp_iso hwa hwb⟩

theorem sep_iff (a b : T) :
    (uses a).all (fun u => (defs a).contains u || !(defs b).contains u) = true ↔ Sep a b := by
  simp only [List.all_eq_true, Bool.or_eq_true, List.contains_iff_mem, Bool.not_eq_true', Sep]
  constructor
  · intro h u hu hd hb
    rcases h u hu with h1 | h1
    · exact hd h1
    · exact absurd hb (by simpa using h1)
  · intro h u hu
    by_cases hd : u ∈ defs a
    · exact Or.inl hd
    · right
      have := h u hu hd
      cases hc : (defs b).contains u
      · rfl
      · exact absurd (List.contains_iff_mem.mp hc) this

/-! ## Swapping the sides -/

theorem zipIds_swap (xs ys : List (Nat × Nat)) : zipIds ys xs = (zipIds xs ys).map Prod.swap := by
  induction xs generalizing ys with
  | nil => cases ys <;> simp [zipIds]
  | cons x xs ih =>
    cases ys with
    | nil => simp [zipIds]
    | cons y ys => obtain ⟨x1, x2⟩ := x; obtain ⟨y1, y2⟩ := y; simp [zipIds, ih]

theorem pairs_swap : ∀ (a b : T), pairs b a = (pairs a b).map Prod.swap := by
  intro a
  induction a with
  | nil => intro b; cases b <;> simp [pairs]
  | op h rs n ihr ihn => intro b; cases b <;> simp [pairs, zipIds_swap h.results, ihr, ihn]
  | block i a o n iho ihn => intro b; cases b <;> simp [pairs, zipIds_swap a, iho, ihn]
  | region bs n ihb ihn => intro b; cases b <;> simp [pairs, ihb, ihn]

theorem shape_symm : ∀ (a b : T), Shape a b → Shape b a := by
  intro a
  induction a with
  | nil => intro b h; cases b <;> simp_all [Shape]
  | op h rs n ihr ihn =>
    intro b hb; cases b <;> simp only [Shape] at hb ⊢
    exact ⟨hb.1.symm, ihr _ hb.2.1, ihn _ hb.2.2⟩
  | block i a o n iho ihn =>
    intro b hb; cases b <;> simp only [Shape] at hb ⊢
    exact ⟨hb.1.symm, iho _ hb.2.1, ihn _ hb.2.2⟩
  | region bs n ihb ihn =>
    intro b hb; cases b <;> simp only [Shape] at hb ⊢
    exact ⟨ihb _ hb.1, ihn _ hb.2⟩

/-- agreement under the positional map can be read from right to left when what `a` takes from
outside is not a definition of `b` -/
theorem agree_swap {a b : T} (hwa : WF a) (hwb : WF b) (hsep : Sep a b)
    (hag : Agree (lookup (pairs a b)) a b) : Agree (lookup (pairs b a)) b a := by
  have hs := agree_shape a b hag
  have hs' := shape_symm a b hs
  have hdef : ∀ u ∈ defs a, lookup (pairs b a) (lookup (pairs a b) u) = u := by
    intro u hu
    have h1 := lookup_pairs_mem hwa hs hu
    have h2 : (lookup (pairs a b) u, u) ∈ pairs b a := by
      rw [pairs_swap a b]; exact List.mem_map.mpr ⟨_, h1, rfl⟩
    exact lookup_of_get (pairs_get hwb hs' _ h2)
  apply agree_symm a b hdef _ hag
  intro u hu
  by_cases hd : u ∈ defs a
  · exact hdef u hd
  · rw [lookup_pairs_ext hs hd, lookup_pairs_ext hs' (hsep u hu hd)]

/-! ## Clones -/

theorem iso_mapT_renId (ρ : Nat → Nat) (a : T)
    (hinj : ∀ x ∈ defs a, ∀ y ∈ defs a, ρ x = ρ y → x = y)
    (hfresh : ∀ x ∈ defs a, ρ x ∉ vals a) : Iso a (cloneT ρ a) := by
  refine ⟨renId (defs a) ρ, agree_mapT _ a, ?_, ?_⟩
  · intro u hu
    simp [renId, hu]
  · intro x hx y hy e
    by_cases hxd : x ∈ defs a <;> by_cases hyd : y ∈ defs a
    · simp only [renId, List.contains_iff_mem.mpr hxd, List.contains_iff_mem.mpr hyd, if_true] at e
      exact hinj x hxd y hyd e
    · exfalso
      have hyc : (defs a).contains y = false := by
        cases hc : (defs a).contains y
        · rfl
        · exact absurd (List.contains_iff_mem.mp hc) hyd
      simp only [renId, List.contains_iff_mem.mpr hxd, hyc, if_true] at e
      exact hfresh x hxd (e ▸ hy)
    · exfalso
      have hxc : (defs a).contains x = false := by
        cases hc : (defs a).contains x
        · rfl
        · exact absurd (List.contains_iff_mem.mp hc) hxd
      simp only [renId, List.contains_iff_mem.mpr hyd, hxc, if_true] at e
      exact hfresh y hyd (e ▸ hx)
    · simpa [renId, hxd, hyd] using e

/-! ## `Iso` is symmetric -/

theorem agree_uses {f : Nat → Nat} : ∀ (a b : T), Agree f a b → (uses a).map f = uses b := by
  intro a
  induction a with
  | nil => intro b h; cases b <;> simp_all [Agree, uses]
  | op h rs n ihr ihn =>
    intro b hb
    cases b <;> simp only [Agree] at hb
    obtain ⟨_, _, _, _, _, a6, a7, a8, a9⟩ := hb
    simp [uses, a6, a7, ihr _ a8, ihn _ a9]
  | block i a o n iho ihn =>
    intro b hb
    cases b <;> simp only [Agree] at hb
    simp [uses, iho _ hb.2.2.2.1, ihn _ hb.2.2.2.2]
  | region bs n ihb ihn =>
    intro b hb
    cases b <;> simp only [Agree] at hb
    simp [uses, ihb _ hb.1, ihn _ hb.2]

theorem iso_symm {a b : T} (hwa : WF a) (hwb : WF b) (h : Iso a b) : Iso b a := by
  obtain ⟨hag, hsep⟩ := iso_imp_agree hwa h
  have hs := agree_shape a b hag
  refine agree_imp_iso hwb hwa ⟨agree_swap hwa hwb hsep hag, ?_⟩
  intro u hu hdb hda
  rw [← agree_uses a b hag] at hu
  obtain ⟨v, hv, rfl⟩ := List.mem_map.mp hu
  by_cases hvd : v ∈ defs a
  · apply hdb
    rw [← shape_pairs_snd a b hs]
    exact List.mem_map.mpr ⟨_, lookup_pairs_mem hwa hs hvd, rfl⟩
  · rw [lookup_pairs_ext hs hvd] at hda
    exact hvd hda

end Xdsl.StructEq
