import XdslProofs.Lemmas.RegMachine
import XdslProofs.Lemmas.AL
/-!
C19 helper lemmas, part 2: pure liveness, consequences of a successful validation
(pairwise distinct registers of simultaneously live values), congruence of the validator.
-/
namespace Xdsl.RegAlloc
open Xdsl.RegMachine

def valsOf (os : List Op) : List ValId := os.flatMap fun o => o.reads ++ o.defs
def defsOf (os : List Op) : List ValId := os.flatMap Op.defs

/-- values live before the block `os` when `L` is live after it -/
def liveBefore : List Op → List ValId → List ValId
  | [], L => L
  | o :: os, L => liveIn o (liveBefore os L)

/-- two different values of `L` never share a register (except in the zero register) -/
def PW (z : Bool) (a : ValId → Reg) (L : List ValId) : Prop :=
  ∀ v ∈ L, ∀ w ∈ L, v ≠ w → a v = a w → (z = true ∧ a v = 0)

theorem mem_liveIn {o : Op} {L : List ValId} {v : ValId} :
    v ∈ liveIn o L ↔ v ∈ o.reads ∨ (v ∈ L ∧ v ∉ o.defs) := by
  simp [liveIn]

theorem checkOps_some {z : Bool} {a : ValId → Reg} (os : List Op) :
    ∀ (Z L Lin : List ValId), checkOps z a Z os L = some Lin → Lin = liveBefore os L := by
  induction os with
  | nil => intro Z L Lin h; simp only [checkOps, Option.some.injEq] at h; exact h.symm
  | cons o os ih =>
    intro Z L Lin h
    simp only [checkOps] at h
    split at h
    · exact absurd h (by simp)
    · rename_i L' hL'
      split at h
      · simp only [Option.some.injEq] at h
        rw [← h, ih _ _ _ hL']
        rfl
      · exact absurd h (by simp)

theorem liveBefore_subset (os : List Op) (L : List ValId) :
    ∀ v ∈ liveBefore os L, v ∈ valsOf os ∨ v ∈ L := by
  induction os with
  | nil => intro v hv; exact Or.inr hv
  | cons o os ih =>
    intro v hv
    simp only [liveBefore] at hv
    rcases mem_liveIn.1 hv with h | ⟨h, _⟩
    · left; simp [valsOf, h]
    · rcases ih v h with h | h
      · left
        simp only [valsOf, List.flatMap_cons, List.mem_append] at h ⊢
        exact Or.inr h
      · exact Or.inr h

/-- a value read in the block (or live after it) and not defined in it is live before it -/
theorem mem_liveBefore_of_not_def (os : List Op) (L : List ValId) (v : ValId)
    (hv : (∃ o ∈ os, v ∈ o.reads) ∨ v ∈ L) (hd : v ∉ defsOf os) : v ∈ liveBefore os L := by
  induction os with
  | nil =>
    rcases hv with ⟨o, ho, _⟩ | hv
    · simp at ho
    · exact hv
  | cons o os ih =>
    simp only [defsOf, List.flatMap_cons, List.mem_append, not_or] at hd
    simp only [liveBefore]
    rw [mem_liveIn]
    rcases hv with ⟨o', ho', hr⟩ | hv
    · rcases List.mem_cons.1 ho' with rfl | ho'
      · exact Or.inl hr
      · exact Or.inr ⟨ih (Or.inl ⟨o', ho', hr⟩) hd.2, hd.1⟩
    · exact Or.inr ⟨ih (Or.inr hv) hd.2, hd.1⟩

/-- the forward step of the "no two live values share a register" invariant -/
theorem pw_step {z : Bool} {a : ValId → Reg} {Z Z' : List ValId} {o : Op} {L : List ValId}
    (hok : opOk z a Z Z' o L = true) (hpw : PW z a (liveIn o L)) : PW z a L := by
  obtain ⟨_, _, hclash, _, _⟩ := opOk_iff.1 hok
  intro v hv w hw hne heq
  by_cases hvd : v ∈ o.defs
  · have := hclash v hvd w (List.mem_append_right _ hw) (fun e => hne e.symm) heq.symm
    exact this
  · by_cases hwd : w ∈ o.defs
    · have := hclash w hwd v (List.mem_append_right _ hv) hne heq
      exact ⟨this.1, heq ▸ this.2⟩
    · exact hpw v (mem_liveIn_of_live hv hvd) w (mem_liveIn_of_live hw hwd) hne heq

/-- everything a successful validation says about one allocation, point by point -/
def Good (z : Bool) (a : ValId → Reg) : List ValId → List Op → List ValId → Prop
  | _, [], L => PW z a L
  | Z, o :: os, L =>
    Good z a (Z ++ newZero true Z o) os L
    ∧ opOk z a Z (Z ++ newZero true Z o) o (liveBefore os L) = true
    ∧ PW z a (liveBefore (o :: os) L)

theorem good_of_check {z : Bool} {a : ValId → Reg} (os : List Op) :
    ∀ (Z L Lin : List ValId), checkOps z a Z os L = some Lin → PW z a Lin → Good z a Z os L := by
  induction os with
  | nil =>
    intro Z L Lin h hpw
    simp only [checkOps, Option.some.injEq] at h
    subst h
    exact hpw
  | cons o os ih =>
    intro Z L Lin h hpw
    have hLin := checkOps_some _ _ _ _ h
    simp only [checkOps] at h
    split at h
    · exact absurd h (by simp)
    · rename_i L' hL'
      have hL'eq := checkOps_some _ _ _ _ hL'
      split at h
      · rename_i hok
        simp only [Option.some.injEq] at h
        subst h
        have hpw' : PW z a L' := pw_step hok hpw
        refine ⟨ih _ _ _ hL' hpw', ?_, ?_⟩
        · rw [← hL'eq]; exact hok
        · rw [← hLin]; exact hpw
      · exact absurd h (by simp)

theorem good_pw {z : Bool} {a : ValId → Reg} {Z : List ValId} {os : List Op} {L : List ValId}
    (h : Good z a Z os L) : PW z a (liveBefore os L) := by
  cases os with
  | nil => exact h
  | cons o os => exact h.2.2

theorem inj_of_nodup_map {a : ValId → Reg} (l : List ValId) (hnd : (l.map a).Nodup) :
    ∀ v ∈ l, ∀ w ∈ l, a v = a w → v = w := by
  induction l with
  | nil => intro v hv; simp at hv
  | cons x xs ih =>
    simp only [List.map_cons, List.nodup_cons, List.mem_map, not_exists, not_and] at hnd
    intro v hv w hw heq
    rcases List.mem_cons.1 hv with hvx | hv <;> rcases List.mem_cons.1 hw with hwx | hw
    · rw [hvx, hwx]
    · rw [hvx] at heq; exact absurd heq.symm (hnd.1 w hw)
    · rw [hwx] at heq; exact absurd heq (hnd.1 v hv)
    · exact ih hnd.2 v hv w hw heq

theorem pw_of_nodup_map {z : Bool} {a : ValId → Reg} {args L : List ValId}
    (hsub : ∀ v ∈ L, v ∈ args) (hnd : (args.map a).Nodup) : PW z a L := by
  intro v hv w hw hne heq
  exact absurd (inj_of_nodup_map args hnd v (hsub v hv) w (hsub w hw) heq) hne

/-- the validator looks at the assignment only on the values of the block and of the live-out set -/
theorem checkOps_congr {z : Bool} {a b : ValId → Reg} (os : List Op) :
    ∀ (Z L : List ValId), (∀ v, v ∈ valsOf os ∨ v ∈ L → a v = b v) →
      checkOps z a Z os L = checkOps z b Z os L := by
  induction os with
  | nil => intro Z L _; rfl
  | cons o os ih =>
    intro Z L hab
    have hrec : checkOps z a (Z ++ newZero true Z o) os L = checkOps z b (Z ++ newZero true Z o) os L := by
      apply ih
      intro v hv
      apply hab
      rcases hv with hv | hv
      · left
        simp only [valsOf, List.flatMap_cons, List.mem_append] at hv ⊢
        exact Or.inr hv
      · exact Or.inr hv
    simp only [checkOps, hrec]
    split
    · rfl
    · rename_i L' hL'
      have hL'eq := checkOps_some _ _ _ _ hL'
      have hdefs : ∀ d ∈ o.defs, a d = b d := by
        intro d hd; apply hab; left; simp [valsOf, hd]
      have hreads : ∀ d ∈ o.reads, a d = b d := by
        intro d hd; apply hab; left; simp [valsOf, hd]
      have hL' : ∀ w ∈ L', a w = b w := by
        intro w hw
        apply hab
        rw [hL'eq] at hw
        rcases liveBefore_subset os L w hw with h | h
        · left
          simp only [valsOf, List.flatMap_cons, List.mem_append] at h ⊢
          exact Or.inr h
        · exact Or.inr h
      have hDL : ∀ w ∈ o.defs ++ L', a w = b w := by
        intro w hw
        rcases List.mem_append.1 hw with h | h
        · exact hdefs w h
        · exact hL' w h
      have : opOk z a Z (Z ++ newZero true Z o) o L' = opOk z b Z (Z ++ newZero true Z o) o L' := by
        apply Bool.eq_iff_iff.2
        rw [opOk_iff, opOk_iff]
        constructor
        · rintro ⟨h1, h2, h3, h4, h5⟩
          refine ⟨h1, h2, ?_, ?_, ?_⟩
          · intro d hd w hw hne heq
            rw [← hdefs d hd, ← hDL w hw] at heq
            have := h3 d hd w hw hne heq
            rw [← hdefs d hd]; exact this
          · intro hz d hd h0
            rw [← hdefs d hd] at h0
            exact h4 hz d hd h0
          · intro p hp
            have h1' : p.1 ∈ o.reads := by
              simp only [Op.reads, List.mem_append, List.mem_map]
              exact Or.inr ⟨p, hp, rfl⟩
            have h2' : p.2 ∈ o.defs := by
              simp only [Op.defs, List.mem_append, List.mem_map]
              exact Or.inr ⟨p, hp, rfl⟩
            rw [← hreads _ h1', ← hdefs _ h2']
            exact h5 p hp
        · rintro ⟨h1, h2, h3, h4, h5⟩
          refine ⟨h1, h2, ?_, ?_, ?_⟩
          · intro d hd w hw hne heq
            rw [hdefs d hd, hDL w hw] at heq
            have := h3 d hd w hw hne heq
            rw [hdefs d hd]; exact this
          · intro hz d hd h0
            rw [hdefs d hd] at h0
            exact h4 hz d hd h0
          · intro p hp
            have h1' : p.1 ∈ o.reads := by
              simp only [Op.reads, List.mem_append, List.mem_map]
              exact Or.inr ⟨p, hp, rfl⟩
            have h2' : p.2 ∈ o.defs := by
              simp only [Op.defs, List.mem_append, List.mem_map]
              exact Or.inr ⟨p, hp, rfl⟩
            rw [hreads _ h1', hdefs _ h2']
            exact h5 p hp
      rw [this]

end Xdsl.RegAlloc
