import XdslProofs.Lemmas.RegAllocStep
/-!
C19 helper lemmas, part 5: the whole backward walk over a block without in/out pairs.
-/
namespace Xdsl.RegAlloc
open Xdsl.RegMachine

/-! ### constants that `get_constant_value` recognises are zero for the validator too -/

def zfold (b : Bool) (Z : List ValId) (os : List Op) : List ValId :=
  os.foldl (fun Z o => Z ++ newZero b Z o) Z

theorem zeroConsts_eq (os : List Op) : zeroConsts os = zfold false [] os := rfl

theorem newZero_subset_defs {b : Bool} {Z : List ValId} {o : Op} {v : ValId}
    (h : v ∈ newZero b Z o) : v ∈ o.defs := by
  unfold newZero at h
  split at h
  · exact h
  · split at h
    · rw [List.mem_filterMap] at h
      obtain ⟨⟨r, d⟩, hmem, hsome⟩ := h
      simp only at hsome
      split at hsome
      · simp only [Option.some.injEq] at hsome
        subst hsome
        exact (List.of_mem_zip hmem).2
      · exact absurd hsome (by simp)
    · simp at h

theorem newZero_mono {Z1 Z2 : List ValId} {o : Op} {v : ValId} (hsub : ∀ x ∈ Z1, x ∈ Z2)
    (h : v ∈ newZero false Z1 o) : v ∈ newZero true Z2 o := by
  unfold newZero at h ⊢
  split at h
  · rename_i h1; simp only [h1, if_true]; exact h
  · rename_i h1
    simp only [h1, if_false]
    split at h
    · rename_i h2
      have h2' : o.zk = 2 := by
        rcases h2 with h2 | h2
        · exact h2
        · exact absurd h2.1 (by simp)
      simp only [h2', true_or, if_true]
      rw [List.mem_filterMap] at h ⊢
      obtain ⟨p, hmem, hsome⟩ := h
      refine ⟨p, hmem, ?_⟩
      split at hsome
      · rename_i hz
        have : Z2.contains p.1 = true := by
          simp only [List.contains_eq_mem, decide_eq_true_eq] at hz ⊢
          exact hsub _ hz
        simp only [this, if_true]
        exact hsome
      · exact absurd hsome (by simp)
    · simp at h

theorem zfold_mem {b : Bool} (os : List Op) :
    ∀ (Z : List ValId) (v : ValId), v ∈ zfold b Z os → v ∈ Z ∨ v ∈ defsOf os := by
  induction os with
  | nil => intro Z v h; exact Or.inl h
  | cons o os ih =>
    intro Z v h
    simp only [zfold, List.foldl_cons] at h
    rcases ih _ v h with h | h
    · rcases List.mem_append.1 h with h | h
      · exact Or.inl h
      · right
        simp only [defsOf, List.flatMap_cons, List.mem_append]
        exact Or.inl (newZero_subset_defs h)
    · right
      simp only [defsOf, List.flatMap_cons, List.mem_append] at h ⊢
      exact Or.inr h

/-- every result that the allocator considers constant 0 is known to be 0 where it is defined -/
def ZcOk (Zc : List ValId) : List ValId → List Op → Prop
  | _, [] => True
  | Z, o :: os =>
    (∀ d ∈ o.defs, d ∈ Zc → d ∈ Z ++ newZero true Z o) ∧ ZcOk Zc (Z ++ newZero true Z o) os

theorem zcOk_zfold (os : List Op) :
    ∀ (ZF ZT : List ValId), (∀ x ∈ ZF, x ∈ ZT) → (defsOf os).Nodup →
      ZcOk (zfold false ZF os) ZT os := by
  induction os with
  | nil => intro _ _ _ _; trivial
  | cons o os ih =>
    intro ZF ZT hsub hnd
    simp only [defsOf, List.flatMap_cons] at hnd
    have hnd' := List.nodup_append.1 hnd
    have hsub' : ∀ x ∈ ZF ++ newZero false ZF o, x ∈ ZT ++ newZero true ZT o := by
      intro x hx
      rcases List.mem_append.1 hx with hx | hx
      · exact List.mem_append_left _ (hsub x hx)
      · exact List.mem_append_right _ (newZero_mono hsub hx)
    refine ⟨?_, ?_⟩
    · intro d hd hdZ
      simp only [zfold, List.foldl_cons] at hdZ
      rcases zfold_mem os _ d hdZ with h | h
      · exact hsub' d h
      · exact absurd rfl (hnd'.2.2 d hd d h)
    · simp only [zfold, List.foldl_cons]
      exact ih _ _ hsub' hnd'.2.1

/-! ### one operation -/

theorem Inv.transfer {c : Cfg} {pre : AL ValId Reg} {A0 : List Reg} {Zc : List ValId}
    {Tie : (ValId → Reg) → Prop} {s : St} {V M : List ValId} {i d : ValId}
    (h : Inv c pre A0 Zc Tie s V (d :: M)) (hdM : d ∉ M) (hiV : i ∈ V)
    (heq : allocOf s.asg i = allocOf s.asg d) : Inv c pre A0 Zc Tie s V (i :: M) :=
  have hclash : ∀ w ∈ M, allocOf s.asg w = allocOf s.asg d → (c.z = true ∧ allocOf s.asg d = 0) :=
    fun w hw e => h.pw d (List.mem_cons_self ..) w (List.mem_cons_of_mem _ hw)
      (fun e' => hdM (e' ▸ hw)) e.symm
  { h with
    liveSub := fun w hw => by
      rcases List.mem_cons.1 hw with rfl | hw
      · exact hiV
      · exact h.liveSub w (List.mem_cons_of_mem _ hw)
    pw := fun x hx y hy hne hxy => by
      rcases List.mem_cons.1 hx with hxi | hx <;> rcases List.mem_cons.1 hy with hyi | hy
      · exact absurd (hxi.trans hyi.symm) hne
      · rw [hxi, heq] at hxy ⊢
        exact hclash y hy hxy.symm
      · rw [hyi, heq] at hxy
        have := hclash x hx hxy
        exact ⟨this.1, hxy ▸ this.2⟩
      · exact h.pw x (List.mem_cons_of_mem _ hx) y (List.mem_cons_of_mem _ hy) hne hxy
    notAvail := fun x hx => by
      rcases List.mem_cons.1 hx with hxi | hx
      · rw [hxi, heq]; exact h.notAvail d (List.mem_cons_self ..)
      · exact h.notAvail x (List.mem_cons_of_mem _ hx) }

/-- results, frees and operands of one operation, after its in/out pair (if any: `I1 = [i]`,
`D1 = [d]`) has been given one register -/
theorem allocOp_tail {c : Cfg} {pre : AL ValId Reg} {A0 : List Reg} {Zc U : List ValId}
    {Tie : (ValId → Reg) → Prop} {a0 : ValId → Reg} (hst : Static c pre A0 U)
    (hext0 : ∀ v r, AL.get pre v = some r → a0 v = r) (hTie0 : Tie a0)
    {o : Op} {Z V' V1 L' I1 D1 : List ValId} {s1 s2 s' : St}
    (hreads : o.reads = o.ins ++ I1) (hdefs : o.defs = o.outs ++ D1)
    (hU : ∀ v, v ∈ o.reads ∨ v ∈ o.defs → v ∈ U)
    (hs2 : foldE (allocValue c Zc) s1 o.outs = .ok s2)
    (hs' : foldE (allocValue c Zc) (o.outs.reverse.foldl (freeValue c) s2) o.ins = .ok s')
    (hinv1 : Inv c pre A0 Zc Tie s1 V1 (D1 ++ L'))
    (hV1 : ∀ v, v ∈ V1 ↔ (v ∈ I1 ∨ v ∈ D1 ∨ v ∈ V'))
    (hpair : (I1 = [] ∧ D1 = []) ∨ ∃ i d, I1 = [i] ∧ D1 = [d]
        ∧ allocOf s1.asg i = allocOf s1.asg d
        ∧ (AL.get s1.asg i).isSome = true ∧ (AL.get s1.asg d).isSome = true)
    (hgood : opOk c.z a0 Z (Z ++ newZero true Z o) o L' = true)
    (hpw0 : PW c.z a0 (liveIn o L'))
    (hZc : ∀ d ∈ o.defs, d ∈ Zc → d ∈ Z ++ newZero true Z o)
    (hRD : ∀ v ∈ o.reads, v ∉ o.defs)
    (hVLd : ∀ d ∈ o.defs, d ∈ V' → d ∈ L')
    (hVLr : ∀ v ∈ o.reads, v ∈ V' → v ∈ L') :
    ∃ V, (∀ v, v ∈ V ↔ (v ∈ o.reads ∨ v ∈ o.defs ∨ v ∈ V'))
      ∧ Inv c pre A0 Zc Tie s' V (liveIn o L') ∧ Extends s1 s'
      ∧ opOk c.z (allocOf s'.asg) Z (Z ++ newZero true Z o) o L' = true := by
  obtain ⟨hnd, hdZ, hclash0, hzero0, _⟩ := opOk_iff.1 hgood
  have hpwL' : PW c.z a0 L' := pw_step hgood hpw0
  -- the feasibility witness separates all results and all values live after the operation
  have hpwT : PW c.z a0 (o.defs ++ L') := by
    intro x hx y hy hne heq
    rcases List.mem_append.1 hx with hxd | hxL
    · exact hclash0 x hxd y hy (fun e => hne e.symm) heq.symm
    · rcases List.mem_append.1 hy with hyd | hyL
      · have := hclash0 y hyd x hx hne heq
        exact ⟨this.1, heq ▸ this.2⟩
      · exact hpwL' x hxL y hyL hne heq
  have hndD : ∀ d ∈ D1, d ∉ o.outs := by
    intro d hd ho
    rw [hdefs] at hnd
    exact (List.nodup_append.1 hnd).2.2 d ho d hd rfl
  have hI1r : ∀ v ∈ I1, v ∈ o.reads := fun v hv => by rw [hreads]; exact List.mem_append_right _ hv
  have hD1d : ∀ v ∈ D1, v ∈ o.defs := fun v hv => by rw [hdefs]; exact List.mem_append_right _ hv
  have houtd : ∀ v ∈ o.outs, v ∈ o.defs := fun v hv => by rw [hdefs]; exact List.mem_append_left _ hv
  have hinr : ∀ v ∈ o.ins, v ∈ o.reads := fun v hv => by rw [hreads]; exact List.mem_append_left _ hv
  -- results
  obtain ⟨hinv2, hext2⟩ := fold_live hst hext0 hTie0 hpwT o.outs s1 s2 V1 (D1 ++ L') hs2 hinv1
    (fun v hv => hU v (Or.inr (houtd v hv))) (fun v hv => List.mem_append_left _ (houtd v hv))
    (fun w hw => by
      rcases List.mem_append.1 hw with h | h
      · exact List.mem_append_left _ (hD1d w h)
      · exact List.mem_append_right _ h)
    (fun v hv hvV => by
      rcases (hV1 v).1 hvV with h | h | h
      · exact absurd (houtd v hv) (hRD v (hI1r v h))
      · exact absurd hv (hndD v h)
      · exact List.mem_append_right _ (hVLd v (houtd v hv) h))
  -- free the results (not the in/out result: its register goes on to the in/out operand)
  let L'' := L'.filter fun v => !o.defs.contains v
  have hL''L : ∀ w ∈ L'', w ∈ L' := fun w hw => (List.mem_filter.1 hw).1
  have hL''d : ∀ w ∈ L'', w ∉ o.defs := fun w hw => by simpa using (List.mem_filter.1 hw).2
  have hsome2 : ∀ d ∈ o.outs, (AL.get s2.asg d).isSome = true := fun d hd =>
    hinv2.allocd d (List.mem_append_left _ (List.mem_reverse.2 hd))
  have hinv2' : Inv c pre A0 Zc Tie s2 (o.outs.reverse ++ V1) (D1 ++ L'') :=
    hinv2.mono (fun _ => Iff.rfl) (fun v hv => by
      rcases List.mem_append.1 hv with h | h
      · exact List.mem_append_right _ (List.mem_append_left _ h)
      · exact List.mem_append_right _ (List.mem_append_right _ (hL''L v h)))
  obtain ⟨hinv3, hasg3⟩ := fold_free hst o.outs.reverse s2 hinv2'
    (fun d hd => hsome2 d (List.mem_reverse.1 hd))
    (fun d hd w hw heq => by
      have hd' := List.mem_reverse.1 hd
      have hwne : w ≠ d := by
        rcases List.mem_append.1 hw with h | h
        · exact fun e => hndD w h (e ▸ hd')
        · exact fun e => hL''d w h (e ▸ houtd d hd')
      have hwM : w ∈ o.outs.reverse ++ (D1 ++ L') := by
        rcases List.mem_append.1 hw with h | h
        · exact List.mem_append_right _ (List.mem_append_left _ h)
        · exact List.mem_append_right _ (List.mem_append_right _ (hL''L w h))
      have := hinv2.pw w hwM d (List.mem_append_left _ hd) hwne heq
      exact ⟨this.1, heq ▸ this.2⟩)
  have hext3 : Extends s2 (o.outs.reverse.foldl (freeValue c) s2) := by
    intro w r hw; rw [hasg3]; exact hw
  -- hand the register of the in/out result to the in/out operand
  have hinv3' : Inv c pre A0 Zc Tie (o.outs.reverse.foldl (freeValue c) s2) (o.outs.reverse ++ V1)
      (I1 ++ L'') := by
    rcases hpair with ⟨hI, hD⟩ | ⟨i, d, hI, hD, heq, hiS, hdS⟩
    · rw [hI]; rw [hD] at hinv3; exact hinv3
    · rw [hI]; rw [hD] at hinv3
      have hdL'' : d ∉ L'' := fun h => hL''d d h (hD1d d (by rw [hD]; exact List.mem_cons_self ..))
      refine Inv.transfer hinv3 hdL'' ?_ ?_
      · exact List.mem_append_right _ ((hV1 i).2 (Or.inl (by rw [hI]; exact List.mem_cons_self ..)))
      · have e1 := (hext2.trans hext3).allocOf hiS
        have e2 := (hext2.trans hext3).allocOf hdS
        rw [e1, e2]; exact heq
  -- operands
  obtain ⟨hinv4, hext4⟩ := fold_live hst hext0 hTie0 hpw0 o.ins _ s' _ _ hs' hinv3'
    (fun v hv => hU v (Or.inl (hinr v hv))) (fun v hv => mem_liveIn_reads (hinr v hv))
    (fun w hw => by
      rcases List.mem_append.1 hw with h | h
      · exact mem_liveIn_reads (hI1r w h)
      · exact mem_liveIn_of_live (hL''L w h) (hL''d w h))
    (fun v hv hvV => by
      have hvd : v ∉ o.defs := hRD v (hinr v hv)
      rcases List.mem_append.1 hvV with h1 | h1
      · exact absurd (houtd v (List.mem_reverse.1 h1)) hvd
      · rcases (hV1 v).1 h1 with h | h | h
        · exact List.mem_append_left _ h
        · exact absurd (hD1d v h) hvd
        · exact List.mem_append_right _
            (List.mem_filter.2 ⟨hVLr v (hinr v hv) h, by simpa using hvd⟩))
  have hextAll : Extends s2 s' := hext3.trans hext4
  refine ⟨o.ins.reverse ++ (o.outs.reverse ++ V1), ?_, ?_, hext2.trans hextAll, ?_⟩
  · intro v
    simp only [List.mem_append, List.mem_reverse, hV1 v, hreads, hdefs]
    constructor
    · rintro (h | h | h | h | h)
      · exact Or.inl (Or.inl h)
      · exact Or.inr (Or.inl (Or.inl h))
      · exact Or.inl (Or.inr h)
      · exact Or.inr (Or.inl (Or.inr h))
      · exact Or.inr (Or.inr h)
    · rintro ((h | h) | (h | h) | h)
      · exact Or.inl h
      · exact Or.inr (Or.inr (Or.inl h))
      · exact Or.inr (Or.inl h)
      · exact Or.inr (Or.inr (Or.inr (Or.inl h)))
      · exact Or.inr (Or.inr (Or.inr (Or.inr h)))
  · refine hinv4.mono (fun _ => Iff.rfl) ?_
    intro v hv
    rcases mem_liveIn.1 hv with h1 | ⟨h1, h2⟩
    · rw [hreads] at h1
      rcases List.mem_append.1 h1 with h | h
      · exact List.mem_append_left _ (List.mem_reverse.2 h)
      · exact List.mem_append_right _ (List.mem_append_left _ h)
    · exact List.mem_append_right _ (List.mem_append_right _
        (List.mem_filter.2 ⟨h1, by simpa using h2⟩))
  · -- the operation passes the validator with the final assignment
    have hsomeD : ∀ d ∈ o.defs, (AL.get s2.asg d).isSome = true := by
      intro d hd
      rw [hdefs] at hd
      rcases List.mem_append.1 hd with h | h
      · exact hsome2 d h
      · exact hinv2.allocd d (hinv2.liveSub d
          (List.mem_append_right _ (List.mem_append_left _ h)))
    have hmemM : ∀ w ∈ o.defs ++ L', w ∈ o.outs.reverse ++ (D1 ++ L') := by
      intro w hw
      rw [hdefs] at hw
      rcases List.mem_append.1 hw with h | h
      · rcases List.mem_append.1 h with h | h
        · exact List.mem_append_left _ (List.mem_reverse.2 h)
        · exact List.mem_append_right _ (List.mem_append_left _ h)
      · exact List.mem_append_right _ (List.mem_append_right _ h)
    rw [opOk_iff]
    refine ⟨hnd, hdZ, ?_, ?_, ?_⟩
    · intro d hd w hw hne heq
      have hdS := hsomeD d hd
      have hwM := hmemM w hw
      have hwS : (AL.get s2.asg w).isSome = true := hinv2.allocd w (hinv2.liveSub w hwM)
      rw [hextAll.allocOf hdS, hextAll.allocOf hwS] at heq
      rw [hextAll.allocOf hdS]
      have := hinv2.pw w hwM d (hmemM d (List.mem_append_left _ hd)) hne heq
      exact ⟨this.1, heq ▸ this.2⟩
    · intro hz d hd h0
      have hdS := hsomeD d hd
      rw [hextAll.allocOf hdS] at h0
      have hg := get_of_isSome hdS
      rw [h0] at hg
      cases hp : AL.get pre d with
      | some r =>
        have := hinv2.ext d r hp
        rw [hg] at this
        simp only [Option.some.injEq] at this
        have ha0 : a0 d = 0 := by rw [hext0 d r hp, ← this]
        exact hzero0 hz d hd ha0
      | none =>
        rcases hinv2.origin d 0 hg hp with h1 | h1 | h1 | h1
        · exact absurd h1 (hst.zeroNotAlloc hz)
        · have := hst.basePos hz; omega
        · exact hZc d hd h1.2.2
        · exact hzero0 hz d hd (h1 a0 hext0 hTie0)
    · intro p hp
      rcases hpair with ⟨hI, hD⟩ | ⟨i, d, hI, hD, heq, hiS, hdS⟩
      · have : o.ios.map Prod.snd = [] := by
          have := hdefs
          simp only [Op.defs, hD, List.append_nil] at this
          simpa using this
        have : o.ios = [] := by simpa using this
        rw [this] at hp; simp at hp
      · have h1 : o.ios.map Prod.fst = [i] := by
          have := hreads
          simp only [Op.reads, hI] at this
          exact List.append_cancel_left this
        have h2 : o.ios.map Prod.snd = [d] := by
          have := hdefs
          simp only [Op.defs, hD] at this
          exact List.append_cancel_left this
        have hp1 : p.1 = i := by
          have : p.1 ∈ o.ios.map Prod.fst := List.mem_map.2 ⟨p, hp, rfl⟩
          rw [h1] at this; simpa using this
        have hp2 : p.2 = d := by
          have : p.2 ∈ o.ios.map Prod.snd := List.mem_map.2 ⟨p, hp, rfl⟩
          rw [h2] at this; simpa using this
        rw [hp1, hp2, (hext2.trans hextAll).allocOf hiS, (hext2.trans hextAll).allocOf hdS]
        exact heq

theorem allocOp_step {c : Cfg} {pre : AL ValId Reg} {A0 : List Reg} {Zc U : List ValId}
    {Tie : (ValId → Reg) → Prop} {a0 : ValId → Reg} (hst : Static c pre A0 U)
    (hext0 : ∀ v r, AL.get pre v = some r → a0 v = r) (hTie0 : Tie a0)
    {o : Op} {Z V' L' : List ValId} {s s' : St}
    (hios : o.ios.length ≤ 1) (hzios : c.z = true → o.ios = [])
    (hTieo : ∀ a, Tie a → ∀ p ∈ o.ios, a p.1 = a p.2)
    (hU : ∀ v, v ∈ o.reads ∨ v ∈ o.defs → v ∈ U)
    (h : allocOp c Zc s o = .ok s')
    (hinv : Inv c pre A0 Zc Tie s V' L')
    (hgood : opOk c.z a0 Z (Z ++ newZero true Z o) o L' = true)
    (hpw0 : PW c.z a0 (liveIn o L'))
    (hZc : ∀ d ∈ o.defs, d ∈ Zc → d ∈ Z ++ newZero true Z o)
    (hRD : ∀ v ∈ o.reads, v ∉ o.defs)
    (hVLd : ∀ d ∈ o.defs, d ∈ V' → d ∈ L')
    (hVLr : ∀ v ∈ o.reads, v ∈ V' → v ∈ L') :
    ∃ V, (∀ v, v ∈ V ↔ (v ∈ o.reads ∨ v ∈ o.defs ∨ v ∈ V'))
      ∧ Inv c pre A0 Zc Tie s' V (liveIn o L') ∧ Extends s s'
      ∧ opOk c.z (allocOf s'.asg) Z (Z ++ newZero true Z o) o L' = true := by
  unfold allocOp at h
  cases hio : o.ios with
  | nil =>
    rw [hio] at h
    simp only [foldE] at h
    split at h
    · exact absurd h (by simp)
    · rename_i s2 hs2
      exact allocOp_tail hst hext0 hTie0 (I1 := []) (D1 := []) (V1 := V')
        (by simp [Op.reads, hio]) (by simp [Op.defs, hio]) hU hs2 h (by simpa using hinv)
        (fun v => by simp) (Or.inl ⟨rfl, rfl⟩) hgood hpw0 hZc hRD hVLd hVLr
  | cons pr rest =>
    have hrest : rest = [] := by
      rw [hio] at hios
      simp only [List.length_cons] at hios
      exact List.length_eq_zero_iff.1 (by omega)
    subst hrest
    obtain ⟨i, d⟩ := pr
    have hz : c.z = false := by
      cases hzc : c.z with
      | false => rfl
      | true => have := hzios hzc; rw [hio] at this; simp at this
    rw [hio] at h
    simp only [foldE] at h
    split at h
    · exact absurd h (by simp)
    · rename_i s1 hs1
      split at h
      · exact absurd h (by simp)
      · rename_i s2 hs2
        have hs1 : sameReg c s i d = .ok s1 := by
          split at hs1
          · exact absurd hs1 (by simp)
          · rename_i sx hsx
            simp only [Except.ok.injEq] at hs1
            rw [← hs1]; exact hsx
        have hir : i ∈ o.reads := by simp [Op.reads, hio]
        have hdd : d ∈ o.defs := by simp [Op.defs, hio]
        obtain ⟨hnd, _, hclash0, _, _⟩ := opOk_iff.1 hgood
        have hpwL' : PW c.z a0 L' := pw_step hgood hpw0
        have hpwT : PW c.z a0 (o.defs ++ L') := by
          intro x hx y hy hne heq
          rcases List.mem_append.1 hx with hxd | hxL
          · exact hclash0 x hxd y hy (fun e => hne e.symm) heq.symm
          · rcases List.mem_append.1 hy with hyd | hyL
            · have := hclash0 y hyd x hx hne heq
              exact ⟨this.1, heq ▸ this.2⟩
            · exact hpwL' x hxL y hyL hne heq
        obtain ⟨hinv1, hext1, heq1, hiS, hdS⟩ := sameReg_step hst hz hinv hs1 (hU i (Or.inl hir))
          (hU d (Or.inr hdd)) (fun e => hRD i hir (e ▸ hdd))
          (fun a hT => hTieo a hT (i, d) (by rw [hio]; exact List.mem_cons_self ..))
          hext0 hTie0 hpwT (fun w hw => List.mem_append_right _ hw) (List.mem_append_left _ hdd)
          (hVLd d hdd) (hVLr i hir)
        obtain ⟨V, hV, hinv', hext', hok'⟩ := allocOp_tail hst hext0 hTie0 (I1 := [i]) (D1 := [d])
          (V1 := i :: d :: V')
          (by simp [Op.reads, hio]) (by simp [Op.defs, hio]) hU hs2 h
          (by simpa using hinv1) (fun v => by simp) (Or.inr ⟨i, d, rfl, rfl, heq1, hiS, hdS⟩)
          hgood hpw0 hZc hRD hVLd hVLr
        exact ⟨V, hV, hinv', hext1.trans hext', hok'⟩

/-! ### the block -/

/-- the in/out ties of a list of operations hold in `a` -/
def TiesOn (os : List Op) (a : ValId → Reg) : Prop := ∀ o ∈ os, ∀ p ∈ o.ios, a p.1 = a p.2

theorem good_ties {z : Bool} {a : ValId → Reg} (os : List Op) :
    ∀ (Z L : List ValId), Good z a Z os L → TiesOn os a := by
  induction os with
  | nil => intro _ _ _ o ho; simp at ho
  | cons o os ih =>
    intro Z L hg o' ho' p hp
    rcases List.mem_cons.1 ho' with rfl | ho'
    · exact (opOk_iff.1 hg.2.1).2.2.2.2 p hp
    · exact ih _ _ hg.1 o' ho' p hp

theorem alloc_ops {c : Cfg} {pre : AL ValId Reg} {A0 : List Reg} {Zc U rets : List ValId}
    {a0 : ValId → Reg} (hst : Static c pre A0 U)
    (hext0 : ∀ v r, AL.get pre v = some r → a0 v = r) :
    ∀ (os : List Op) (Z : List ValId) (s0 s : St) (V0 : List ValId),
      (∀ o ∈ os, o.ios.length ≤ 1) → (c.z = true → ∀ o ∈ os, o.ios = []) →
      (∀ v ∈ valsOf os, v ∈ U) →
      foldE (allocOp c Zc) s0 os.reverse = .ok s →
      Inv c pre A0 Zc (TiesOn []) s0 V0 rets → (∀ v, v ∈ V0 ↔ v ∈ rets) →
      Good c.z a0 Z os rets → ZcOk Zc Z os → (defsOf os).Nodup →
      (∀ v ∈ liveBefore os rets, v ∉ defsOf os) →
      ∃ V, (∀ v, v ∈ V ↔ (v ∈ valsOf os ∨ v ∈ rets))
        ∧ Inv c pre A0 Zc (TiesOn os) s V (liveBefore os rets) ∧ Extends s0 s
        ∧ checkOps c.z (allocOf s.asg) Z os rets = some (liveBefore os rets) := by
  intro os
  induction os with
  | nil =>
    intro Z s0 s V0 _ _ _ h hinv hV0 _ _ _ _
    simp only [List.reverse_nil, foldE, Except.ok.injEq] at h
    subst h
    exact ⟨V0, fun v => by simp [valsOf, hV0 v], hinv, Extends.refl _, rfl⟩
  | cons o os ih =>
    intro Z s0 s V0 hios hzios hU h hinv hV0 hgood hzc hnd hld
    rw [List.reverse_cons] at h
    obtain ⟨s1, hs1, hlast⟩ := foldE_append _ _ _ _ _ h
    have hop : allocOp c Zc s1 o = .ok s := by
      rw [foldE_cons] at hlast
      split at hlast
      · exact absurd hlast (by simp)
      · rename_i s2 hs2
        simp only [foldE, Except.ok.injEq] at hlast
        rw [← hlast]; exact hs2
    have hties0 : TiesOn (o :: os) a0 := good_ties _ _ _ hgood
    obtain ⟨hgood', hok0, hpw0⟩ := hgood
    simp only [defsOf, List.flatMap_cons] at hnd
    have hnd' := List.nodup_append.1 hnd
    have hDD : ∀ d ∈ o.defs, d ∉ defsOf os := fun d hd hd' => hnd'.2.2 d hd d hd' rfl
    have hld' : ∀ v ∈ liveBefore os rets, v ∉ defsOf os := by
      intro v hv
      by_cases hvd : v ∈ o.defs
      · exact hDD v hvd
      · have := hld v (mem_liveIn_of_live hv hvd)
        simp only [defsOf, List.flatMap_cons, List.mem_append, not_or] at this
        exact this.2
    have hUo : ∀ v, v ∈ o.reads ∨ v ∈ o.defs → v ∈ U := by
      intro v hv
      apply hU
      simp only [valsOf, List.flatMap_cons, List.mem_append]
      exact Or.inl hv
    obtain ⟨V1, hV1, hinv1, hext1, hchk1⟩ := ih _ s0 s1 V0
      (fun o' ho' => hios o' (List.mem_cons_of_mem _ ho'))
      (fun hz o' ho' => hzios hz o' (List.mem_cons_of_mem _ ho'))
      (fun v hv => hU v (by
        simp only [valsOf, List.flatMap_cons, List.mem_append] at hv ⊢
        exact Or.inr hv))
      hs1 hinv hV0 hgood' hzc.2 hnd'.2.1 hld'
    have hinv1' : Inv c pre A0 Zc (TiesOn (o :: os)) s1 V1 (liveBefore os rets) :=
      hinv1.monoTie (fun a hT o' ho' => hT o' (List.mem_cons_of_mem _ ho'))
    -- facts about `o` relative to the rest of the block
    have hRD : ∀ v ∈ o.reads, v ∉ o.defs ∧ v ∉ defsOf os := by
      intro v hv
      have := hld v (mem_liveIn_reads hv)
      simp only [defsOf, List.flatMap_cons, List.mem_append, not_or] at this
      exact this
    have hlive_of_V1 : ∀ v, v ∉ defsOf os → v ∈ V1 → v ∈ liveBefore os rets := by
      intro v hvd hv
      apply mem_liveBefore_of_not_def os rets v _ hvd
      rcases (hV1 v).1 hv with hv | hv
      · simp only [valsOf, List.mem_flatMap, List.mem_append] at hv
        obtain ⟨o', ho', hv⟩ := hv
        rcases hv with hv | hv
        · exact Or.inl ⟨o', ho', hv⟩
        · exfalso; apply hvd
          simp only [defsOf, List.mem_flatMap]
          exact ⟨o', ho', hv⟩
      · exact Or.inr hv
    obtain ⟨V2, hV2, hinv2, hext2, hok2⟩ := allocOp_step hst hext0 hties0
      (hios o (List.mem_cons_self ..)) (fun hz => hzios hz o (List.mem_cons_self ..))
      (fun a hT p hp => hT o (List.mem_cons_self ..) p hp)
      hUo hop hinv1'
      hok0 hpw0 hzc.1 (fun v hv => (hRD v hv).1)
      (fun d hd hdV => hlive_of_V1 d (hDD d hd) hdV)
      (fun v hv hvV => hlive_of_V1 v (hRD v hv).2 hvV)
    refine ⟨V2, ?_, hinv2, hext1.trans hext2, ?_⟩
    · intro v
      simp only [hV2 v, hV1 v, valsOf, List.flatMap_cons, List.mem_append]
      constructor
      · rintro (h | h | h | h)
        · exact Or.inl (Or.inl (Or.inl h))
        · exact Or.inl (Or.inl (Or.inr h))
        · exact Or.inl (Or.inr h)
        · exact Or.inr h
      · rintro ((( h | h) | h) | h)
        · exact Or.inl h
        · exact Or.inr (Or.inl h)
        · exact Or.inr (Or.inr (Or.inl h))
        · exact Or.inr (Or.inr (Or.inr h))
    · have hcongr : checkOps c.z (allocOf s.asg) (Z ++ newZero true Z o) os rets
          = checkOps c.z (allocOf s1.asg) (Z ++ newZero true Z o) os rets := by
        apply checkOps_congr
        intro v hv
        exact hext2.allocOf (hinv1.allocd v ((hV1 v).2 hv))
      simp only [checkOps, hcongr, hchk1, hok2, if_true, liveBefore]

end Xdsl.RegAlloc

namespace Xdsl.RegAlloc
open Xdsl.RegMachine

/-! ### the initial state (`RegisterStack.get`, `exclude_register`) -/

def stackOf (pool : List Reg) : List Reg := pool.foldl (fun st r => r :: st.filter (· != r)) []

theorem stackOf_aux (pool : List Reg) :
    ∀ (st : List Reg), st.Nodup → (∀ r ∈ st, r ∈ pool ∨ r ∈ st) →
      (pool.foldl (fun st r => r :: st.filter (· != r)) st).Nodup
      ∧ ∀ r ∈ pool.foldl (fun st r => r :: st.filter (· != r)) st, r ∈ pool ∨ r ∈ st := by
  induction pool with
  | nil => intro st hnd _; exact ⟨hnd, fun r hr => Or.inr hr⟩
  | cons x xs ih =>
    intro st hnd _
    simp only [List.foldl_cons]
    have hnd' : (x :: st.filter (· != x)).Nodup := by
      refine List.nodup_cons.2 ⟨?_, hnd.filter _⟩
      simp [List.mem_filter]
    obtain ⟨h1, h2⟩ := ih _ hnd' (fun r hr => Or.inr hr)
    refine ⟨h1, ?_⟩
    intro r hr
    rcases h2 r hr with h | h
    · exact Or.inl (List.mem_cons_of_mem _ h)
    · simp only [List.mem_cons, List.mem_filter] at h
      rcases h with rfl | ⟨h, _⟩
      · exact Or.inl (List.mem_cons_self ..)
      · exact Or.inr h

theorem stackOf_nodup (pool : List Reg) : (stackOf pool).Nodup :=
  (stackOf_aux pool [] List.nodup_nil (fun _ h => Or.inr h)).1

theorem stackOf_subset (pool : List Reg) : ∀ r ∈ stackOf pool, r ∈ pool := by
  intro r hr
  rcases (stackOf_aux pool [] List.nodup_nil (fun _ h => Or.inr h)).2 r hr with h | h
  · exact h
  · simp at h

theorem inv_init {c : Cfg} {pool : List Reg} {pre : AL ValId Reg} {p : Prog} {Zc : List ValId}
    (hpreLt : ∀ (v : ValId) (r : Nat), AL.get pre v = some r → r < c.infBase) :
    Inv c pre (pool.filter fun r => !(usedPre pre p).contains r) Zc (TiesOn []) (initSt pool pre p) [] [] where
  ext := fun _ _ h => h
  allocd := fun v hv => by simp at hv
  only := fun v hv => Or.inl hv
  liveSub := fun v hv => by simp at hv
  pw := fun v hv => by simp at hv
  notAvail := fun v hv => by simp at hv
  nodup := (stackOf_nodup pool).filter _
  availOk := fun r hr => by
    left
    simp only [initSt, List.mem_filter] at hr ⊢
    exact ⟨stackOf_subset pool r hr.1, hr.2⟩
  tbl := rfl
  infFresh := fun v r hv hge => by
    have := hpreLt v r hv
    omega
  origin := fun v r hv hp => by
    simp only [initSt] at hv
    rw [hp] at hv; simp at hv

/-! ### splitting the block at a program point -/

theorem good_suffix {z : Bool} {a : ValId → Reg} (front : List Op) :
    ∀ (os : List Op) (Z L : List ValId), Good z a Z (front ++ os) L → Good z a (zfold true Z front) os L := by
  induction front with
  | nil => intro os Z L h; exact h
  | cons o front ih => intro os Z L h; exact ih os _ L h.1

theorem zcOk_suffix {Zc : List ValId} (front : List Op) :
    ∀ (os : List Op) (Z : List ValId), ZcOk Zc Z (front ++ os) → ZcOk Zc (zfold true Z front) os := by
  induction front with
  | nil => intro os Z h; exact h
  | cons o front ih => intro os Z h; exact ih os _ h.2

theorem liveBefore_append (front os : List Op) (L : List ValId) :
    ∀ v ∈ liveBefore os L, v ∈ liveBefore (front ++ os) L ∨ v ∈ defsOf front := by
  induction front with
  | nil => intro v hv; exact Or.inl hv
  | cons o front ih =>
    intro v hv
    rcases ih v hv with h | h
    · by_cases hd : v ∈ o.defs
      · right; simp [defsOf, hd]
      · left
        simp only [List.cons_append, liveBefore]
        exact mem_liveIn_of_live h hd
    · right
      simp only [defsOf, List.flatMap_cons, List.mem_append] at h ⊢
      exact Or.inr h

end Xdsl.RegAlloc
