import XdslProofs.Lemmas.RewriteDriverInduct
/-!
Step lemmas for C11: what one match / post-walk / sweep does to the worklist invariant, to the
"worklist ⊆ attached" invariant, to the trace and the accumulated flag; and the "quiet sweep"
lemmas behind the fixpoint theorem.  The hypothesis bundles `Disciplined` and `ThroughRewriter` and
the trace classifiers used in the statements of `XdslProofs/C11.lean` are defined here.
-/
namespace Xdsl.RewriteDriver
open Xdsl.Worklist (WL Inv abs)

variable {IR : Type}

theorem matchOp_eq (P : Params IR) (d : D IR) (x : Nat) :
    matchOp P d x =
      let s1 := execAll P.recursive { d.st with flag := false } (P.pat d.ir x).1
      { ir := (P.pat d.ir x).2,
        st := { s1 with
          changed := s1.changed || s1.flag,
          trace := s1.trace ++ [.visit x (d.st.attached.contains x) s1.flag (Worklist.abs s1.wl)
            (s1.log.drop d.st.log.length) s1.attached] } } := rfl

/-- `has_done_action` after a match = "some call of the match sets the flag" -/
theorem matchOp_flag (P : Params IR) (d : D IR) (x : Nat) :
    (matchOp P d x).st.flag = (P.pat d.ir x).1.any Action.setsFlag := by
  rw [matchOp_eq]
  show (execAll _ _ _).flag = _
  rw [execAll_flag]; rfl

theorem postWalk_wlInv (P : Params IR) (d : D IR) (h : Inv d.st.wl) : Inv (postWalk P d).st.wl := by
  unfold postWalk
  cases P.post with
  | none => exact h
  | some f => exact execAll_wlInv _ _ _ h

theorem sweep_wlInv (P : Params IR) (fuel : Nat) (d d' : D IR) (h : Inv d.st.wl)
    (hs : sweep P fuel d = some d') : Inv d'.st.wl := by
  refine sweep_induct P (fun d => Inv d.st.wl) ?_ ?_ ?_ fuel d d' h hs
  · intro d hd; exact (pushAll_spec _ hd _).1
  · intro d x w hd hp
    rw [matchOp_eq]
    exact execAll_wlInv _ _ _ (popNext_some _ _ _ _ hd hp).1
  · intro d hd; exact postWalk_wlInv P d hd

/-- Pattern discipline: under a coupling `R ir att` ("`att` is the set of ops attached in `ir`"),
every op a call hands to the listeners is attached at that moment, the coupling is kept by every
match / post-walk, and `_populate_worklist` walks attached ops only. -/
structure Disciplined (P : Params IR) (R : IR → List Nat → Prop) : Prop where
  pat_wf : ∀ ir att x, R ir att → x ∈ att → wfActs att (P.pat ir x).1
  pat_R : ∀ ir att x, R ir att → x ∈ att → R (P.pat ir x).2 ((P.pat ir x).1.foldl attAfter att)
  post_wf : ∀ f ir att, P.post = some f → R ir att → wfActs att (f ir).1
  post_R : ∀ f ir att, P.post = some f → R ir att → R (f ir).2.1 ((f ir).1.foldl attAfter att)
  enum_sub : ∀ ir att, R ir att → ∀ y ∈ P.enum ir att, y ∈ att

def TraceItem.visitedDetached : TraceItem → Bool
  | .visit _ att _ _ _ _ => !att
  | _ => false

/-- The invariant behind `visit_attached`: worklist ⊆ attached ops. -/
def VInv (R : IR → List Nat → Prop) (d : D IR) : Prop :=
  Inv d.st.wl ∧ Sub d.st ∧ R d.ir d.st.attached

theorem vinv_populate (P : Params IR) (R : IR → List Nat → Prop) (hD : Disciplined P R) (d : D IR)
    (h : VInv R d) : VInv R (populate P (reset d)) := by
  obtain ⟨h1, h2, h3⟩ := h
  refine ⟨(pushAll_spec _ h1 _).1, ?_, h3⟩
  intro y hy
  simp only [populate] at hy ⊢
  rw [(pushAll_spec _ h1 _).2] at hy
  rcases hy with hy | hy
  · exact h2 y hy
  · exact hD.enum_sub _ _ h3 y hy

theorem vinv_match (P : Params IR) (R : IR → List Nat → Prop) (hD : Disciplined P R) (d : D IR)
    (x : Nat) (w : WL) (h : VInv R d)
    (hp : popNext (P.pick.map fun f => f d.ir) d.st.wl = some (x, w)) :
    x ∈ d.st.attached ∧ VInv R (matchOp P (popped d w) x) := by
  obtain ⟨h1, h2, h3⟩ := h
  obtain ⟨p1, p2, p3, _⟩ := popNext_some _ _ _ _ h1 hp
  have hx : x ∈ d.st.attached := h2 x p2
  have hsub0 : Sub { (popped d w).st with flag := false } := fun y hy => h2 y (p3 y hy)
  have hwf := hD.pat_wf d.ir d.st.attached x h3 hx
  refine ⟨hx, ?_⟩
  rw [matchOp_eq]
  refine ⟨execAll_wlInv _ _ _ p1, ?_, ?_⟩
  · intro y hy
    exact execAll_sub P.recursive _ _ p1 hsub0 hwf y hy
  · show R _ (execAll _ _ _).attached
    rw [execAll_attached]
    exact hD.pat_R d.ir d.st.attached x h3 hx

theorem vinv_post (P : Params IR) (R : IR → List Nat → Prop) (hD : Disciplined P R) (d : D IR)
    (h : VInv R d) : VInv R (postWalk P d) := by
  obtain ⟨h1, h2, h3⟩ := h
  unfold postWalk
  cases hpost : P.post with
  | none => exact ⟨h1, h2, h3⟩
  | some f =>
    have hwf := hD.post_wf f d.ir d.st.attached hpost h3
    refine ⟨execAll_wlInv _ _ _ h1, ?_, ?_⟩
    · intro y hy
      exact execAll_sub P.recursive _ _ h1 h2 hwf y hy
    · show R _ (execAll _ _ _).attached
      rw [execAll_attached]
      exact hD.post_R f d.ir d.st.attached hpost h3

def TraceItem.reportsChange : TraceItem → Bool
  | .visit _ _ f _ _ _ => f
  | .post c _ _ _ => c
  | .sweep _ _ => false

theorem matchOp_trace_changed (P : Params IR) (d : D IR) (x : Nat) :
    ∃ it, (matchOp P d x).st.trace = d.st.trace ++ [it] ∧
      (matchOp P d x).st.changed = (d.st.changed || it.reportsChange) := by
  rw [matchOp_eq]
  refine ⟨?w, ?a, ?b⟩
  case a =>
    show (execAll _ _ _).trace ++ [_] = _
    rw [execAll_trace]
  case b =>
    show ((execAll _ _ _).changed || (execAll _ _ _).flag) = _
    rw [execAll_changed]
    rfl

theorem process_changed (P : Params IR) (fuel : Nat) (d d' : D IR) (h : process P fuel d = some d') :
    ∃ t, d'.st.trace = d.st.trace ++ t ∧
      d'.st.changed = (d.st.changed || t.any TraceItem.reportsChange) := by
  refine process_induct P (fun e => ∃ t, e.st.trace = d.st.trace ++ t ∧
      e.st.changed = (d.st.changed || t.any TraceItem.reportsChange)) ?_ fuel d d' ⟨[], by simp⟩ h
  intro e x w ⟨t, h1, h2⟩ _
  obtain ⟨it, m1, m2⟩ := matchOp_trace_changed P (popped e w) x
  refine ⟨t ++ [it], ?_, ?_⟩
  · rw [m1]
    show e.st.trace ++ _ = _
    rw [h1, List.append_assoc]
  · rw [m2]
    show (e.st.changed || _) = _
    rw [h2]
    simp [Bool.or_assoc]

theorem postWalk_trace_changed (P : Params IR) (d : D IR) :
    ∃ t, (postWalk P d).st.trace = d.st.trace ++ t ∧
      (postWalk P d).st.changed = (d.st.changed || t.any TraceItem.reportsChange) := by
  unfold postWalk
  cases hpost : P.post with
  | none => exact ⟨[], by simp, by simp⟩
  | some f =>
    refine ⟨[?w], ?a, ?b⟩
    case a =>
      show (execAll _ _ _).trace ++ [_] = _
      rw [execAll_trace]
    case b =>
      show (d.st.changed || (f d.ir).2.2) = _
      simp only [List.any_cons, List.any_nil, Bool.or_false, TraceItem.reportsChange]
      cases d.st.changed <;> simp

theorem sweep_changed (P : Params IR) (fuel : Nat) (d d' : D IR) (h : sweep P fuel d = some d') :
    ∃ t, d'.st.trace = d.st.trace ++ t ∧ d'.st.changed = t.any TraceItem.reportsChange := by
  simp only [sweep, Option.map_eq_some_iff] at h
  obtain ⟨d1, h1, rfl⟩ := h
  obtain ⟨t, t1, t2⟩ := process_changed P fuel _ _ h1
  obtain ⟨u, u1, u2⟩ := postWalk_trace_changed P d1
  simp only [populate] at t1 t2
  refine ⟨[.sweep (P.enum d.ir d.st.attached) d.st.attached] ++ t ++ u, ?_, ?_⟩
  · rw [u1, t1]; simp
  · rw [u2, t2]; simp [TraceItem.reportsChange]

theorem outer_changed (P : Params IR) (fuel : Nat) : ∀ n (d d' : D IR), outer P fuel n d = some d' →
    ∃ t, d'.st.trace = d.st.trace ++ t ∧ (d.st.changed = false → t = []) := by
  intro n
  induction n with
  | zero => intro d d' h; simp [outer] at h
  | succ n ih =>
    intro d d' h
    simp only [outer] at h
    split at h
    · rename_i hc
      split at h
      · cases h
      · rename_i d1 hs
        obtain ⟨t1, a1, _⟩ := sweep_changed P fuel _ _ hs
        obtain ⟨t2, a2, _⟩ := ih _ _ h
        exact ⟨t1 ++ t2, by rw [a2, a1, List.append_assoc], fun hf => by simp [hc] at hf⟩
    · cases h; exact ⟨[], by simp, fun _ => rfl⟩

/-- The quantifier's side conditions for the fixpoint clause: patterns (and the post-walk function)
are functions of the IR that change it only through flag-setting rewriter calls / report their
changes, and `_populate_worklist` walks every attached op. -/
structure ThroughRewriter (P : Params IR) : Prop where
  pat_quiet : ∀ ir x, (∀ a ∈ (P.pat ir x).1, a.setsFlag = false) → (P.pat ir x).2 = ir
  post_quiet : ∀ f ir, P.post = some f → (f ir).2.2 = false → (f ir).1 = [] ∧ (f ir).2.1 = ir
  enum_all : ∀ ir att, ∀ y ∈ att, y ∈ P.enum ir att

/-- A `_process_worklist` that reports "nothing done" has visited every op that was on the worklist,
left IR and attached set untouched, and on none of those ops did the pattern make a flag-setting
call — for every schedule. -/
theorem process_quiet (P : Params IR) (hT : ThroughRewriter P) :
    ∀ fuel (d d' : D IR), Inv d.st.wl → process P fuel d = some d' → d'.st.changed = false →
      d'.ir = d.ir ∧ d'.st.attached = d.st.attached ∧
      ∀ x ∈ abs d.st.wl, ∀ a ∈ (P.pat d.ir x).1, a.setsFlag = false := by
  intro fuel
  induction fuel with
  | zero => intro d d' _ h; simp [process] at h
  | succ n ih =>
    intro d d' hinv h hc
    simp only [process] at h
    split at h
    · rename_i hp
      cases h
      have := popNext_none _ _ hinv hp
      exact ⟨rfl, rfl, by simp [this]⟩
    · rename_i x w hp
      obtain ⟨p1, p2, p3, p4⟩ := popNext_some _ _ _ _ hinv hp
      -- the state after the match still has `changed = false`
      obtain ⟨t, _, tc⟩ := process_changed P n _ _ h
      rw [hc] at tc
      have hec : (matchOp P (popped d w) x).st.changed = false := by
        cases hh : (matchOp P (popped d w) x).st.changed with
        | false => rfl
        | true => rw [hh] at tc; simp at tc
      obtain ⟨it, _, m2⟩ := matchOp_trace_changed P (popped d w) x
      have hflag : (matchOp P (popped d w) x).st.flag = false := by
        have e1 : (matchOp P (popped d w) x).st.changed =
            ((popped d w).st.changed || (matchOp P (popped d w) x).st.flag) := by
          rw [matchOp_eq]
          show ((execAll _ _ _).changed || _) = _
          rw [execAll_changed]
        rw [hec] at e1
        cases hf : (matchOp P (popped d w) x).st.flag with
        | false => rfl
        | true => rw [hf] at e1; simp at e1
      rw [matchOp_flag] at hflag
      have hq : ∀ a ∈ (P.pat d.ir x).1, a.setsFlag = false := by
        intro a ha
        cases hs : a.setsFlag with
        | false => rfl
        | true =>
          have : (P.pat d.ir x).1.any Action.setsFlag = true := List.any_eq_true.mpr ⟨a, ha, hs⟩
          rw [this] at hflag; cases hflag
      have hir : (matchOp P (popped d w) x).ir = d.ir := hT.pat_quiet d.ir x hq
      obtain ⟨q1, q2⟩ := execAll_quiet P.recursive { (popped d w).st with flag := false } _ hq
      have hwl : (matchOp P (popped d w) x).st.wl = w := q1
      have hatt : (matchOp P (popped d w) x).st.attached = d.st.attached := q2
      obtain ⟨i1, i2, i3⟩ := ih _ _ (by rw [hwl]; exact p1) h hc
      refine ⟨i1.trans hir, i2.trans hatt, ?_⟩
      intro y hy
      rcases p4 y hy with rfl | hy'
      · exact hq
      · have := i3 y (by rw [hwl]; exact hy')
        rwa [hir] at this

/-- A sweep that reports "nothing changed" did not change the IR, and in that IR no attached op
has a flag-setting rewrite left; the post-walk function reported no change either. -/
theorem sweep_quiet (P : Params IR) (hT : ThroughRewriter P) (fuel : Nat) (d d' : D IR)
    (hinv : Inv d.st.wl) (hs : sweep P fuel d = some d') (hc : d'.st.changed = false) :
    (∀ x ∈ d'.st.attached, ∀ a ∈ (P.pat d'.ir x).1, a.setsFlag = false) ∧
    (∀ f, P.post = some f → (f d'.ir).2.2 = false) := by
  simp only [sweep, Option.map_eq_some_iff] at hs
  obtain ⟨d1, h1, rfl⟩ := hs
  have hinv0 : Inv (populate P (reset d)).st.wl := (pushAll_spec _ hinv _).1
  -- split the post-walk
  have key : d1.st.changed = false ∧ (postWalk P d1).ir = d1.ir ∧
      (postWalk P d1).st.attached = d1.st.attached ∧
      (∀ f, P.post = some f → (f d1.ir).2.2 = false) := by
    unfold postWalk at hc ⊢
    cases hpost : P.post with
    | none =>
      simp only [hpost] at hc
      exact ⟨hc, rfl, rfl, fun f hf => by cases hf⟩
    | some f =>
      simp only [hpost] at hc
      have hc' : (d1.st.changed || (f d1.ir).2.2) = false := hc
      have c1 : d1.st.changed = false := by
        cases hh : d1.st.changed with
        | false => rfl
        | true => rw [hh] at hc'; simp at hc'
      have c2 : (f d1.ir).2.2 = false := by
        cases hh : (f d1.ir).2.2 with
        | false => rfl
        | true => rw [hh, c1] at hc'; simp at hc'
      obtain ⟨e1, e2⟩ := hT.post_quiet f d1.ir hpost c2
      refine ⟨c1, e2, ?_, fun g hg => by cases hg; exact c2⟩
      show (execAll _ _ _).attached = _
      rw [e1]; rfl
  obtain ⟨k1, k2, k3, k4⟩ := key
  obtain ⟨q1, q2, q3⟩ := process_quiet P hT fuel _ _ hinv0 h1 k1
  have hir : (postWalk P d1).ir = d.ir := k2.trans q1
  have hatt : (postWalk P d1).st.attached = d.st.attached := k3.trans q2
  refine ⟨?_, ?_⟩
  · intro x hx
    rw [hir]
    rw [hatt] at hx
    apply q3 x
    show x ∈ abs (pushAll _ _)
    rw [(pushAll_spec _ hinv _).2]
    exact Or.inr (hT.enum_all _ _ x hx)
  · intro f hf
    rw [k2]; exact k4 f hf

theorem outer_last_sweep (P : Params IR) (fuel : Nat) :
    ∀ n (d d' : D IR), Inv d.st.wl → outer P fuel n d = some d' →
      d'.st.changed = false ∧ (d' = d ∨ ∃ dp, Inv dp.st.wl ∧ sweep P fuel dp = some d') := by
  intro n
  induction n with
  | zero => intro d d' _ h; simp [outer] at h
  | succ n ih =>
    intro d d' hinv h
    simp only [outer] at h
    split at h
    · split at h
      · cases h
      · rename_i d1 hs
        obtain ⟨c, r⟩ := ih _ _ (sweep_wlInv P fuel _ _ hinv hs) h
        refine ⟨c, Or.inr ?_⟩
        rcases r with rfl | r
        · exact ⟨_, hinv, hs⟩
        · exact r
    · rename_i hc
      cases h
      exact ⟨by simpa using hc, Or.inl rfl⟩

end Xdsl.RewriteDriver
