import XdslModel.AttrValue
/-!
Helper lemmas for C08: the Boolean comparison functions of `XdslModel/AttrValue.lean` decide
propositional equality of the value trees.
-/
namespace Xdsl.AttrValue

theorem natListEq_iff : ∀ (a b : List Nat), natListEq a b = true ↔ a = b
  | [], [] => by simp [natListEq]
  | [], _ :: _ => by simp [natListEq]
  | _ :: _, [] => by simp [natListEq]
  | x :: xs, y :: ys => by simp [natListEq, natListEq_iff xs ys]

theorem Leaf.eq_iff (a b : Leaf) : Leaf.eq a b = true ↔ a = b := by
  cases a <;> cases b <;> simp [Leaf.eq, natListEq_iff]

theorem Tag.eq_iff (a b : Tag) : Tag.eq a b = true ↔ a = b := by
  cases a <;> cases b <;> simp [Tag.eq]

mutual
theorem V.eq_iff : ∀ (a b : V), V.eq a b = true ↔ a = b
  | .leaf x, .leaf y => by simp [V.eq, Leaf.eq_iff]
  | .node t xs, .node u ys => by simp [V.eq, Tag.eq_iff, V.eqList_iff xs ys]
  | .leaf _, .node _ _ => by simp [V.eq]
  | .node _ _, .leaf _ => by simp [V.eq]
theorem V.eqList_iff : ∀ (xs ys : List V), V.eqList xs ys = true ↔ xs = ys
  | [], [] => by simp [V.eqList]
  | x :: xs, y :: ys => by simp [V.eqList, V.eq_iff x y, V.eqList_iff xs ys]
  | [], _ :: _ => by simp [V.eqList]
  | _ :: _, [] => by simp [V.eqList]
end

theorem V.eq_false_iff (a b : V) : V.eq a b = false ↔ a ≠ b := by
  rw [← Bool.not_eq_true, V.eq_iff]

theorem V.hashList_eq_map (xs : List V) : V.hashList xs = xs.map V.hash := by
  induction xs with
  | nil => rfl
  | cons x xs ih => simp [V.hashList, ih]

/-! ### vocabulary of the property statements -/

/-- An attribute of class `cls` built from the parameter list `ps`
(`ParametrizedAttribute.__init__` / `Data.__init__`). -/
def mkAttr (cls : String) (ps : List V) : V := .node (.obj cls) ps

mutual
/-- the payload leaves of a value, in field order -/
def payload : V → List Leaf
  | .leaf l => [l]
  | .node _ xs => payloadList xs
def payloadList : List V → List Leaf
  | [] => []
  | x :: xs => payload x ++ payloadList xs
end

/-- one-hole contexts: the position of a sub-attribute inside an enclosing attribute -/
inductive Ctx where
  | hole
  | node (t : Tag) (pre : List V) (c : Ctx) (post : List V)

def Ctx.plug : Ctx → V → V
  | .hole, v => v
  | .node t pre c post, v => .node t (pre ++ c.plug v :: post)

/-- a `FloatAttr`-shaped value: class, `FloatData` payload, type -/
def floatAttr (bits : Nat) (ty : String) : V :=
  mkAttr "FloatAttr" [.leaf (.fbits bits), mkAttr ty []]

end Xdsl.AttrValue
