import XdslProofs.Lemmas.IRUses
/-!
# C01 — the calls for which preservation of `Inv` is proved, and the step lemma over them
-/
namespace Xdsl.IR
open Xdsl Xdsl.DLL IRStore

theorem liveO_reg {s : IRStore} {k : Nat} (h : s.liveO k = true) : regO s k := by
  simp [IRStore.liveO] at h; exact h.1
theorem liveB_reg {s : IRStore} {k : Nat} (h : s.liveB k = true) : regB s k := by
  simp [IRStore.liveB] at h; exact h.1
theorem liveR_reg {s : IRStore} {k : Nat} (h : s.liveR k = true) : regR s k := by
  simp [IRStore.liveR] at h; exact h.1
theorem allO_reg {s : IRStore} {l : List Nat} (h : l.all s.liveO = true) : ∀ o ∈ l, regO s o := by
  intro o ho; exact liveO_reg (List.all_eq_true.mp h o ho)
theorem allB_reg {s : IRStore} {l : List Nat} (h : l.all s.liveB = true) : ∀ o ∈ l, regB s o := by
  intro o ho; exact liveB_reg (List.all_eq_true.mp h o ho)
theorem manyO_reg {s : IRStore} {m : Many} (h : okMany s.liveO m = true) : ∀ o ∈ m.ids, regO s o := by
  simp only [okMany, Bool.and_eq_true] at h; exact allO_reg h.1
theorem manyB_reg {s : IRStore} {m : Many} (h : okMany s.liveB m = true) : ∀ o ∈ m.ids, regB s o := by
  simp only [okMany, Bool.and_eq_true] at h; exact allB_reg h.1

/-- The calls for which `inv_step` is proved (the others are listed in `XdslProofs/C01.lean`). -/
def covered : Call → Bool
  | .insertOpBefore .. | .insertOpAfter .. | .addOp .. | .addOps .. | .insertOpsBefore ..
  | .insertOpsAfter .. | .detachOp .. | .opDetach .. | .addBlock .. | .insertBlockBefore ..
  | .insertBlockAfter .. | .insertBlock .. | .detachBlock .. | .detachBlockIdx .. | .moveBlocks ..
  | .moveBlocksBefore .. | .rwInsertBlock .. | .rwInsertOp .. | .rwInlineRegion .. | .prInsert ..
  | .prInlineRegion .. | .newBlock .. | .newRegion .. | .splitBefore .. | .rwMoveRegionContents ..
  | .prMoveRegionContents .. | .prCreateBlock .. | .newOp .. | .setOperand .. | .setOperands ..
  | .setSuccessor .. | .setSuccessors .. | .addRegion .. | .replaceAllUsesWith .. | .replaceUsesWithIf ..
  | .prReplaceUsesWithIf .. | .detachRegion .. | .detachRegionIdx .. | .insertArg ..
  | .prInsertBlockArgument .. | .eraseArg .. | .prEraseBlockArgument .. | .prReplaceAllUsesWith ..
  | .rwReplaceValueWithNewType .. | .prReplaceValueWithNewType .. => true
  | _ => false

theorem inv_api_covered {s s' : IRStore} (h : Inv s) (c : Call) (hc : covered c = true)
    (href : s.refsOk c = true) (hok : s.api c = .ok s') : Inv s' := by
  cases c <;> simp only [covered] at hc <;> try (exact absurd hc (by decide))
  all_goals simp only [IRStore.refsOk, Bool.and_eq_true] at href
  all_goals simp only [IRStore.api] at hok
  case insertOpBefore b new ex => exact (h.insertOpBefore (liveO_reg href.1.2) hok).1
  case insertOpAfter b new ex => exact (h.insertOpAfter (liveO_reg href.1.2) hok).1
  case addOp b o => exact (h.addOp (liveO_reg href.2) (liveB_reg href.1) hok).1
  case addOps b ops => exact (h.addOps (allO_reg href.2) (liveB_reg href.1) hok).1
  case insertOpsBefore b ops ex => exact (h.insertOpsBefore (allO_reg href.1.2) hok).1
  case insertOpsAfter b ops ex => exact (h.insertOpsAfter (allO_reg href.1.2) hok).1
  case detachOp b o => exact (h.detachOp hok).1
  case opDetach o => exact (h.opDetach hok).1
  case addBlock r bs => exact (h.addBlock (manyB_reg href.2) (liveR_reg href.1) hok).1
  case insertBlockBefore r bs t => exact (h.insertBlockBefore (manyB_reg href.1.2) hok).1
  case insertBlockAfter r bs t => exact (h.insertBlockAfter (manyB_reg href.1.2) (liveR_reg href.1.1) hok).1
  case insertBlock r bs idx => exact (h.insertBlock (manyB_reg href.2) (liveR_reg href.1) hok).1
  case detachBlock r b => exact (h.detachBlock hok).1
  case detachBlockIdx r idx => exact (h.detachBlockIdx hok).1
  case moveBlocks r dst => exact (h.moveBlocks (liveR_reg href.2) hok).1
  case moveBlocksBefore r t => exact (h.moveBlocksBefore hok).1
  case rwInsertBlock bs bip => exact (h.rwInsertBlock (manyB_reg href.1) href.2 hok).1
  case rwInsertOp ops ip => exact (h.rwInsertOp (manyO_reg href.1) href.2 hok).1
  case rwInlineRegion r bip => exact (h.rwInlineRegion href.2 hok).1
  case prInsert cur ops ip =>
    refine (h.prInsert (manyO_reg href.1.2) href.1.1 (fun x hx => ?_) hok).1
    subst hx; simpa using href.2
  case prInlineRegion cur r bip =>
    simp only [IRStore.withCur, bind_eq_ok_iff] at hok
    obtain ⟨_, _, hok⟩ := hok
    exact (h.rwInlineRegion href.2 hok).1
  case newBlock b args ops => exact h.newBlock href.1.1 href.1.2 (allO_reg href.2) hok
  case newRegion r bs => exact h.newRegion href.1 (allB_reg href.2) hok
  case splitBefore b o nb args => exact h.splitBefore href.1.2 href.2 (liveB_reg href.1.1.1) hok
  case rwMoveRegionContents r nr => exact h.rwMoveRegionContents href.2 hok
  case prMoveRegionContents cur r nr =>
    simp only [IRStore.withCur, bind_eq_ok_iff] at hok
    obtain ⟨_, _, hok⟩ := hok
    exact h.rwMoveRegionContents href.2 hok
  case newOp k kind res operands succs regions => exact h.newOp href.1.1.1.1.1 href.1.1.1.2 hok
  case setOperand o i v => exact h.setOperand hok
  case setOperands o vs => simp at hok; subst hok; exact h.setOperands vs (liveO_reg href.1)
  case setSuccessor o i b => exact h.setSuccessor hok
  case setSuccessors o bs => simp at hok; subst hok; exact h.setSuccessors bs (liveO_reg href.1)
  case addRegion o r => exact h.addRegion (liveO_reg href.1) hok
  case replaceAllUsesWith v w => exact h.replaceAllUsesWith hok
  case replaceUsesWithIf v w mode => exact h.replaceUsesIf hok
  case prReplaceUsesWithIf cur v w mode =>
    simp only [IRStore.withCur, bind_eq_ok_iff] at hok
    obtain ⟨_, _, hok⟩ := hok
    split at hok
    · simp at hok; exact hok ▸ h
    · exact h.replaceUsesIf hok
  case detachRegion o r => exact h.detachRegion hok
  case detachRegionIdx o i => exact h.detachRegionIdx (liveO_reg href) hok
  case insertArg b idx nv => exact h.insertArg (liveB_reg href.1) href.2 hok
  case prInsertBlockArgument cur b idx nv =>
    simp only [IRStore.withCur, bind_eq_ok_iff] at hok
    obtain ⟨_, _, hok⟩ := hok
    exact h.insertArg (liveB_reg href.1.2) href.2 hok
  case eraseArg b v safe => exact h.eraseArg' hok
  case prEraseBlockArgument cur v safe =>
    simp only [IRStore.withCur, bind_eq_ok_iff] at hok
    obtain ⟨_, _, hok⟩ := hok
    exact h.prEraseBlockArgument hok
  case prReplaceAllUsesWith cur v w safe =>
    simp only [IRStore.withCur, bind_eq_ok_iff] at hok
    obtain ⟨_, _, hok⟩ := hok
    exact h.prReplaceAllUsesWith hok
  case rwReplaceValueWithNewType v nv => exact h.replaceValueWithNewType href.2 hok
  case prReplaceValueWithNewType cur v nv =>
    simp only [IRStore.withCur, bind_eq_ok_iff] at hok
    obtain ⟨_, _, hok⟩ := hok
    exact h.replaceValueWithNewType href.2 hok
  case prCreateBlock cur bip nb args =>
    simp only [IRStore.withCur, bind_eq_ok_iff] at hok
    obtain ⟨_, _, hok⟩ := hok
    exact h.prCreateBlock href.1.2 href.2 href.1.1.2 hok

end Xdsl.IR
