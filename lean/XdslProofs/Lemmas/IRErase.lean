import XdslProofs.Lemmas.IRSubtree
/-!
# C01 — erasure: `drop_all_references` over a detached subtree preserves the store invariant

`dropTree s root = (subtreeOf s root).foldl dropOne s`.  In the middle of the fold the intrusive
lists are broken (operations of a block are nulled before the block's end pointers are), so the
fold is followed with

* `InvU`: the part of the invariant about use lists and index fields, preserved by every step, and
* `DropSt`: a frame description of the tree part relative to the initial store (which link fields
  have been nulled so far),

and the invariant is re-assembled at the end from the closure properties of the subtree
(`Subtree.closed`): an object is in the dropped set iff its parent is.
-/
namespace Xdsl.DLL
open L

/-- nulling the nodes `N` and the containers `C`, where a member is nulled iff its container is -/
theorem WF.clear {l l' : L} {f : Nat → List Nat} (h : WF l f) (N C : Nat → Prop)
    [DecidablePred N] [DecidablePred C]
    (hnd : ∀ n, l'.nd n = if N n then {} else l.nd n)
    (hen : ∀ c, l'.en c = if C c then {} else l.en c)
    (hhas : ∀ n, l.has n → l'.has n)
    (hNC : ∀ c n, n ∈ f c → (N n ↔ C c)) :
    WF l' (fun c => if C c then [] else f c) := by
  refine ⟨fun c => ?_, ?_, ?_, ?_⟩
  · by_cases hc : C c
    · simp only [hc, if_true]
      exact ⟨by rw [hen]; simp [hc], by rw [hen]; simp [hc], by simp, List.nodup_nil⟩
    · simp only [hc, if_false]
      have r := h.rep c
      refine ⟨by rw [hen]; simp [hc, r.first], by rw [hen]; simp [hc, r.last], fun n hn => ?_, r.nodup⟩
      have : ¬ N n := fun hN => hc ((hNC c n hn).mp hN)
      rw [hnd]; simp only [this, if_false]; exact r.link n hn
  · intro c c' n hn hn'
    by_cases hc : C c <;> by_cases hc' : C c' <;> simp [hc, hc'] at hn hn'
    exact h.disj c c' n hn hn'
  · intro n hn
    rw [hnd]
    by_cases hN : N n
    · simp [hN]
    · simp only [hN, if_false]
      apply h.free
      intro c hm
      have hc : ¬ C c := fun hC => hN ((hNC c n hm).mpr hC)
      have := hn c
      simp [hc] at this
      exact this hm
  · intro c n hn
    by_cases hc : C c
    · simp [hc] at hn
    · simp [hc] at hn; exact hhas n (h.has c n hn)

end Xdsl.DLL

namespace Xdsl.IR
open Xdsl Xdsl.DLL IRStore

/-- the use-list / index-field part of `InvA` -/
structure InvU (s : IRStore) (vu bu : Nat → List Nat) : Prop where
  vuseL : WF s.vuseL vu
  buseL : WF s.buseL bu
  operandUses : UseInv s (·.operands) (·.operandUses) vu
  successorUses : UseInv s (·.successors) (·.successorUses) bu
  results : ∀ o d i v, AL.get s.ops o = some d → d.results[i]? = some v →
    AL.get s.vals v = some { kind := .result, owner := o, index := i }
  args : ∀ b d i v, AL.get s.blocks b = some d → d.args[i]? = some v →
    AL.get s.vals v = some { kind := .arg, owner := b, index := i }

theorem InvA.toU {s : IRStore} {a : Abs} (h : InvA s a) : InvU s a.vuses a.buses :=
  ⟨h.vuseL, h.buseL, h.operandUses, h.successorUses, h.results, h.args⟩

/-- what `drop_all_references` leaves of the data of an operation -/
def clearedOp (d : OpData) : OpData :=
  { d with operands := [], operandUses := [], successors := [], successorUses := [], regions := [] }

theorem dropOne_op (s : IRStore) (o : Nat) :
    s.dropOne (.op o) =
      { s with
        vuseL := ((s.op! o).operands.zip (s.op! o).operandUses).foldl (fun l p => l.remove p.1 p.2) s.vuseL
        buseL := ((s.op! o).successors.zip (s.op! o).successorUses).foldl (fun l p => l.remove p.1 p.2) s.buseL
        ops := AL.set s.ops o (clearedOp (s.op! o))
        opL := s.opL.setNd o {}
        deadO := o :: s.deadO
        deadV := (s.op! o).results ++ s.deadV } := by
  unfold IRStore.dropOne
  simp only [fold_removeUseV, fold_removeUseB]
  rfl

/-- one operation drops its references: its uses leave the use lists -/
theorem InvU.dropOp {s : IRStore} {vu bu : Nat → List Nat} (h : InvU s vu bu) {o : Nat} {d : OpData}
    (hd : AL.get s.ops o = some d) : ∃ vu' bu', InvU (s.dropOne (.op o)) vu' bu' := by
  have hop : s.op! o = d := by simp [IRStore.op!, hd]
  rw [dropOne_op, hop]
  have U := h.operandUses
  have S := h.successorUses
  obtain ⟨f1, w1, m1⟩ := h.vuseL.removeAll (d.operands.zip d.operandUses)
    (fun p hp => by
      obtain ⟨i, h1, h2⟩ := mem_zip_iff_getElem?.mp (show (p.1, p.2) ∈ _ from hp)
      exact (U.fwd o d i p.2 p.1 hd h2 h1).2)
    (by rw [zip_map_snd (U.len o d hd)]; exact U.uid_nodup hd)
  rw [zip_map_snd (U.len o d hd)] at m1
  obtain ⟨g1, x1, n1⟩ := h.buseL.removeAll (d.successors.zip d.successorUses)
    (fun p hp => by
      obtain ⟨i, h1, h2⟩ := mem_zip_iff_getElem?.mp (show (p.1, p.2) ∈ _ from hp)
      exact (S.fwd o d i p.2 p.1 hd h2 h1).2)
    (by rw [zip_map_snd (S.len o d hd)]; exact S.uid_nodup hd)
  rw [zip_map_snd (S.len o d hd)] at n1
  refine ⟨f1, g1, ⟨w1, x1, ?_, ?_, ?_, h.args⟩⟩
  · exact U.reset (pos := (·.operands)) (uid := (·.operandUses)) (d' := clearedOp d) (new := []) (f2 := f1)
      hd rfl rfl (fun w x => by rw [m1]; simp) rfl rfl rfl
  · exact S.reset (pos := (·.successors)) (uid := (·.successorUses)) (d' := clearedOp d) (new := []) (f2 := g1)
      hd rfl rfl (fun w x => by rw [n1]; simp) rfl rfl rfl
  · intro o' d'' i v h1 h2
    change AL.get (AL.set s.ops o (clearedOp d)) o' = some d'' at h1
    rw [AL.get_set] at h1
    by_cases ho : o' = o
    · rw [if_pos ho] at h1; cases h1; subst ho; exact h.results _ d i v hd h2
    · rw [if_neg ho] at h1; exact h.results o' d'' i v h1 h2

/-- the state of the fold of `dropOne` after the objects `D`, relative to the initial store `s` -/
structure DropSt (s t : IRStore) (D : List Ref) : Prop where
  opNd : ∀ n, t.opL.nd n = if Ref.op n ∈ D then {} else s.opL.nd n
  opEn : ∀ c, t.opL.en c = if Ref.block c ∈ D then {} else s.opL.en c
  opHas : ∀ n, s.opL.has n → t.opL.has n
  blNd : ∀ n, t.blockL.nd n = if Ref.block n ∈ D then {} else s.blockL.nd n
  blEn : ∀ c, t.blockL.en c = if Ref.region c ∈ D then {} else s.blockL.en c
  blHas : ∀ n, s.blockL.has n → t.blockL.has n
  rpar : ∀ r, t.regionParent r = if Ref.region r ∈ D then none else s.regionParent r
  mono : Mono s t
  opsBack : ∀ o d', AL.get t.ops o = some d' → ∃ d, AL.get s.ops o = some d ∧
    d'.regions = if Ref.op o ∈ D then [] else d.regions
  uses : ∃ vu bu, InvU t vu bu

theorem DropSt.init {s : IRStore} {a : Abs} (ha : InvA s a) : DropSt s s [] where
  opNd := by simp
  opEn := by simp
  opHas := fun _ h => h
  blNd := by simp
  blEn := by simp
  blHas := fun _ h => h
  rpar := by simp
  mono := Mono.refl s
  opsBack := fun o d' h => ⟨d', h, by simp⟩
  uses := ⟨_, _, ha.toU⟩

theorem DropSt.step {s t : IRStore} {D : List Ref} (h : DropSt s t D) {x : Ref} (hx : Reg s x) :
    DropSt s (t.dropOne x) (x :: D) := by
  obtain ⟨vu, bu, hu⟩ := h.uses
  cases x with
  | op o =>
    obtain ⟨d, hd⟩ := Option.isSome_iff_exists.mp (h.mono.o o hx)
    have hU := hu.dropOp hd
    rw [dropOne_op] at hU ⊢
    refine ⟨?_, ?_, ?_, ?_, ?_, h.blHas, ?_, ?_, ?_, hU⟩
    · intro n
      show (t.opL.setNd o {}).nd n = _
      rw [L.nd_setNd, h.opNd]
      by_cases hn : n = o
      · simp [hn]
      · simp [hn]
    · intro c
      show t.opL.en c = _
      rw [h.opEn]; simp
    · intro n hn
      exact (L.has_setNd _ _ _ _).mpr (Or.inr (h.opHas n hn))
    · intro n; rw [h.blNd]; simp
    · intro c; rw [h.blEn]; simp
    · intro r
      show t.regionParent r = _
      rw [h.rpar]; simp
    · refine ⟨fun k hk => ?_, h.mono.b, h.mono.r⟩
      have := h.mono.o k hk
      unfold IR.regO at *
      show (AL.get (AL.set t.ops o _) k).isSome
      rw [AL.get_set]; split <;> simp [this]
    · intro o' d' h1
      change AL.get (AL.set t.ops o _) o' = some d' at h1
      rw [AL.get_set] at h1
      split at h1
      · cases h1
        subst_vars
        obtain ⟨d0, hd0⟩ := Option.isSome_iff_exists.mp hx
        exact ⟨d0, hd0, by simp [clearedOp]⟩
      · rename_i hne
        obtain ⟨d0, hd0, hr⟩ := h.opsBack o' d' h1
        exact ⟨d0, hd0, by rw [hr]; simp [hne]⟩
  | block b =>
    refine ⟨?_, ?_, h.opHas, ?_, ?_, ?_, ?_, ⟨h.mono.o, h.mono.b, h.mono.r⟩, ?_, ⟨vu, bu, ?_⟩⟩
    · intro n
      show t.opL.nd n = _
      rw [h.opNd]; simp
    · intro c
      show (t.opL.setEn b {}).en c = _
      rw [L.en_setEn, h.opEn]
      by_cases hc : c = b
      · simp [hc]
      · simp [hc]
    · intro n
      show (t.blockL.setNd b {}).nd n = _
      rw [L.nd_setNd, h.blNd]
      by_cases hn : n = b
      · simp [hn]
      · simp [hn]
    · intro c
      show t.blockL.en c = _
      rw [h.blEn]; simp
    · intro n hn
      exact (L.has_setNd _ _ _ _).mpr (Or.inr (h.blHas n hn))
    · intro r
      show t.regionParent r = _
      rw [h.rpar]; simp
    · intro o' d' h1
      obtain ⟨d0, hd0, hr⟩ := h.opsBack o' d' h1
      exact ⟨d0, hd0, by rw [hr]; simp⟩
    · exact ⟨hu.vuseL, hu.buseL,
        ⟨hu.operandUses.len, hu.operandUses.fwd, hu.operandUses.bwd, hu.operandUses.lt⟩,
        ⟨hu.successorUses.len, hu.successorUses.fwd, hu.successorUses.bwd, hu.successorUses.lt⟩,
        hu.results, hu.args⟩
  | region r =>
    refine ⟨?_, ?_, h.opHas, ?_, ?_, h.blHas, ?_, ?_, ?_, ⟨vu, bu, ?_⟩⟩
    · intro n
      show t.opL.nd n = _
      rw [h.opNd]; simp
    · intro c
      show t.opL.en c = _
      rw [h.opEn]; simp
    · intro n
      show t.blockL.nd n = _
      rw [h.blNd]; simp
    · intro c
      show (t.blockL.setEn r {}).en c = _
      rw [L.en_setEn, h.blEn]
      by_cases hc : c = r
      · simp [hc]
      · simp [hc]
    · intro r'
      have key : (t.dropOne (.region r)).regionParent r' = if r' = r then none else t.regionParent r' := by
        show ((AL.get (AL.set t.regions r ({ parent := none } : RegionData)) r').getD {}).parent = _
        rw [AL.get_set]; by_cases hr : r' = r <;> simp [hr, IRStore.regionParent, IRStore.region!]
      rw [key, h.rpar]
      by_cases hr : r' = r <;> simp [hr]
    · refine ⟨h.mono.o, h.mono.b, fun k hk => ?_⟩
      have := h.mono.r k hk
      unfold IR.regR at *
      show (AL.get (AL.set t.regions r _) k).isSome
      rw [AL.get_set]; split <;> simp [this]
    · intro o' d' h1
      obtain ⟨d0, hd0, hr⟩ := h.opsBack o' d' h1
      exact ⟨d0, hd0, by rw [hr]; simp⟩
    · exact ⟨hu.vuseL, hu.buseL,
        ⟨hu.operandUses.len, hu.operandUses.fwd, hu.operandUses.bwd, hu.operandUses.lt⟩,
        ⟨hu.successorUses.len, hu.successorUses.fwd, hu.successorUses.bwd, hu.successorUses.lt⟩,
        hu.results, hu.args⟩

theorem DropSt.fold {s : IRStore} : ∀ (l : List Ref) (t : IRStore) (D : List Ref), DropSt s t D →
    (∀ x ∈ l, Reg s x) → DropSt s (l.foldl IRStore.dropOne t) (l.reverse ++ D) := by
  intro l
  induction l with
  | nil => intro t D h _; simpa using h
  | cons x r ih =>
    intro t D h hr
    simp only [List.foldl_cons, List.reverse_cons, List.append_assoc, List.singleton_append]
    exact ih _ _ (h.step (hr x List.mem_cons_self)) (fun y hy => hr y (List.mem_cons_of_mem _ hy))

/-- re-assembling the invariant once a parent-closed set of objects has been dropped -/
theorem DropSt.finish {s t : IRStore} {a : Abs} {D : List Ref} (ha : InvA s a) (h : DropSt s t D)
    (closed : ∀ c p, s.parentRef c = some p → (c ∈ D ↔ p ∈ D)) : Inv t := by
  obtain ⟨vu, bu, hu⟩ := h.uses
  have clO : ∀ b o, o ∈ a.ops b → (Ref.op o ∈ D ↔ Ref.block b ∈ D) := fun b o ho =>
    closed (.op o) (.block b) (by simp [IRStore.parentRef, IRStore.opParent, ha.opL.parent_of_mem ho])
  have clB : ∀ r b, b ∈ a.blocks r → (Ref.block b ∈ D ↔ Ref.region r ∈ D) := fun r b hb =>
    closed (.block b) (.region r) (by simp [IRStore.parentRef, IRStore.blockParent, ha.blockL.parent_of_mem hb])
  have clR : ∀ r o, s.regionParent r = some o → (Ref.region r ∈ D ↔ Ref.op o ∈ D) := fun r o hp =>
    closed (.region r) (.op o) (by simp [IRStore.parentRef, hp])
  refine ⟨⟨fun b => if Ref.block b ∈ D then [] else a.ops b,
    fun r => if Ref.region r ∈ D then [] else a.blocks r, vu, bu⟩, ?_⟩
  exact {
    opL := ha.opL.clear (fun n => Ref.op n ∈ D) (fun c => Ref.block c ∈ D) h.opNd h.opEn h.opHas clO
    blockL := ha.blockL.clear (fun n => Ref.block n ∈ D) (fun c => Ref.region c ∈ D) h.blNd h.blEn h.blHas clB
    vuseL := hu.vuseL
    buseL := hu.buseL
    operandUses := hu.operandUses
    successorUses := hu.successorUses
    results := hu.results
    args := hu.args
    regions := by
      intro o d' hd'
      obtain ⟨d, hd, hr⟩ := h.opsBack o d' hd'
      rw [hr]
      by_cases hoD : Ref.op o ∈ D
      · simp [hoD]
      · simp only [hoD, if_false]
        refine ⟨(ha.regions o d hd).1, fun r hr' => ?_⟩
        have hp := (ha.regions o d hd).2 r hr'
        have : Ref.region r ∉ D := fun e => hoD ((clR r o hp).mp e)
        rw [h.rpar]; simp [this, hp]
    regionParent := by
      intro r o hp
      rw [h.rpar] at hp
      by_cases hrD : Ref.region r ∈ D
      · simp [hrD] at hp
      · simp only [hrD, if_false] at hp
        obtain ⟨d, hd, hr⟩ := ha.regionParent r o hp
        have hoD : Ref.op o ∉ D := fun e => hrD ((clR r o hp).mpr e)
        have hreg : regO t o := h.mono.o o (by unfold IR.regO; simp [hd])
        obtain ⟨d', hd'⟩ := Option.isSome_iff_exists.mp hreg
        obtain ⟨d0, hd0, hr0⟩ := h.opsBack o d' hd'
        rw [hd] at hd0; cases hd0
        exact ⟨d', hd', by rw [hr0]; simp [hoD, hr]⟩
    regOps := by
      intro b o ho
      by_cases hb : Ref.block b ∈ D
      · simp [hb] at ho
      · simp only [hb, if_false] at ho
        exact ⟨h.mono.o o (ha.regOps b o ho).1, h.mono.b b (ha.regOps b o ho).2⟩
    regBlocks := by
      intro r b hb
      by_cases hr : Ref.region r ∈ D
      · simp [hr] at hb
      · simp only [hr, if_false] at hb
        exact ⟨h.mono.b b (ha.regBlocks r b hb).1, h.mono.r r (ha.regBlocks r b hb).2⟩ }

/-- **`drop_all_references` over the subtree of a detached object** preserves the invariant -/
theorem Inv.dropTree {s : IRStore} (h : Inv s) {root : Ref} (hroot : s.parentRef root = none)
    (hreg : Reg s root) : Inv (s.dropTree root) ∧ Mono s (s.dropTree root) := by
  obtain ⟨a, ha⟩ := h
  have T := subtreeOf_spec ha hroot hreg
  unfold IRStore.dropTree
  have st := DropSt.fold (s.subtreeOf root) s [] (DropSt.init ha) T.reg
  exact ⟨st.finish ha (fun c p hp => by simpa using T.closed c p hp), st.mono⟩

end Xdsl.IR
