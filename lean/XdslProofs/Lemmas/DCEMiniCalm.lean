import XdslProofs.Lemmas.DCEMiniSim
/-!
Operations that are calm by their names are quiet on `Sem` (C13).

`calm` (`XdslModel/DCEMini.lean`) is a check on operation NAMES only: every operation of the tree is a
region-free operation outside the list of state-changing ones (`leafQuiet`), one of the terminators
`Sem` knows, or a structured operation (`scf.if/for/while`, `affine.for`) over calm operations.
`calm_all`: running calm operations with any fuel leaves a related state (same effect log, memory,
symref variables; the environment changes only at the values the operations define).
`quiet_of_calm`: hence an erased calm operation that is no terminator is `Quiet`.  One-sided fuel
induction as in `Lemmas/SemEffects.lean`.  No Mathlib.
-/
namespace Xdsl.DCEM
open Xdsl.DCE Xdsl.MiniIR Xdsl.Sem

variable {D : Nat → Prop} {P : Prog}

/-- outside `mutNames`, a region-free state operation returns the state it was given -/
theorem stateOp_same {st st1 : St} {o : Op} {args rs : List Val} (hn : mutNames.contains o.name = false)
    (h : stateOp st o args = some (.ok (st1, rs))) : st1 = st := by
  unfold stateOp at h
  split at h
  all_goals first
    | (rename_i hname; rw [hname] at hn; exact absurd hn (by decide))
    | skip
  all_goals repeat' split at h
  all_goals first | (cases h; rfl) | (cases h; done)

theorem term_ne {n : String} (h : termNames.contains n = false) :
    n ≠ "func.return" ∧ n ≠ "scf.yield" ∧ n ≠ "affine.yield" ∧ n ≠ "scf.condition" ∧ n ≠ "cf.br"
      ∧ n ≠ "cf.cond_br" := by
  simp only [termNames, List.contains_eq_mem, List.mem_cons, List.not_mem_nil, or_false, decide_eq_false_iff_not,
    not_or] at h
  exact h

theorem leaf_calm {n : Nat} {m : MHdr} {rs : List Region} {st s1 : St} {t : Option Term}
    (h1 : m.name ≠ "func.call") (h2 : m.name ≠ "scf.if") (h3 : m.name ≠ "scf.for")
    (h4 : m.name ≠ "scf.while") (h5 : m.name ≠ "affine.for") (hm : mutNames.contains m.name = false)
    (hD : ∀ r ∈ m.results, D r.1)
    (h : runOp (n + 1) P st (mkOp m rs) = .ok (s1, t)) :
    Rel D st s1 ∧ (termNames.contains m.name = false → t = none) := by
  rw [runOp] at h
  simp only [mkOp_name, mkOp_operands, mkOp_succs, mkOp_regions, mkOp_results, mkOp_stateOp, mkOp_pureOp] at h
  split at h
  · cases h
  · cases h
  · cases h
  split at h
  iterate 6
    · repeat' split at h
      all_goals first
        | (cases h; done)
        | (cases h
           refine ⟨Rel.refl _, fun hn => ?_⟩
           obtain ⟨a1, a2, a3, a4, a5, a6⟩ := term_ne hn
           first
             | exact absurd (by assumption) a1
             | exact absurd (by assumption) a2
             | exact absurd (by assumption) a3
             | exact absurd (by assumption) a4
             | exact absurd (by assumption) a5
             | exact absurd (by assumption) a6)
  · exact absurd (by assumption) h1
  · exact absurd (by assumption) h2
  · exact absurd (by assumption) h3
  · exact absurd (by assumption) h4
  · exact absurd (by assumption) h5
  · split at h
    · rename_i st1 rs0 hs
      have := stateOp_same (o := mkOp m []) hm hs
      subst this
      split at h
      · cases h; exact ⟨bind_keep hD (by assumption), fun _ => rfl⟩
      · cases h
    · cases h
    · cases h
    · cases h
    · split at h
      · split at h
        · cases h; exact ⟨bind_keep hD (by assumption), fun _ => rfl⟩
        · cases h
      all_goals cases h


structure CalmAt (D : Nat → Prop) (P : Prog) (n : Nat) : Prop where
  ops : ∀ a st s1 t, calm a = true → (∀ v ∈ defsA a, D v) →
    runOps n P st (opsOf a) = .ok (s1, t) → Rel D st s1
  op : ∀ m rs st s1 t, calmCell m rs = true → (∀ r ∈ m.results, D r.1) → (∀ v ∈ defsA rs, D v) →
    runOp n P st (mkOp m (regionsOf rs)) = .ok (s1, t) →
    Rel D st s1 ∧ (termNames.contains m.name = false → t = none)
  region : ∀ bs st args s1 t, calm bs = true → (∀ v ∈ defsA bs, D v) →
    runRegion n P st (.mk (blocksOf bs)) args = .ok (s1, t) → Rel D st s1
  block : ∀ bs st bid args s1 t, calm bs = true → (∀ v ∈ defsA bs, D v) →
    runBlock n P st (.mk (blocksOf bs)) bid args = .ok (s1, t) → Rel D st s1
  for_ : ∀ bs st w i ub step iters s1 vs, calm bs = true → (∀ v ∈ defsA bs, D v) →
    runFor n P st (.mk (blocksOf bs)) w i ub step iters = .ok (s1, vs) → Rel D st s1
  while_ : ∀ bb ba st args s1 vs, calm bb = true → calm ba = true → (∀ v ∈ defsA bb, D v) →
    (∀ v ∈ defsA ba, D v) →
    runWhile n P st (.mk (blocksOf bb)) (.mk (blocksOf ba)) args = .ok (s1, vs) → Rel D st s1

theorem calmAt_zero : CalmAt D P 0 where
  ops := fun _ _ _ _ _ _ h => by rw [runOps] at h; cases h
  op := fun _ _ _ _ _ _ _ _ h => by rw [runOp] at h; cases h
  region := fun _ _ _ _ _ _ _ h => by rw [runRegion] at h; cases h
  block := fun _ _ _ _ _ _ _ _ h => by rw [runBlock] at h; cases h
  for_ := fun _ _ _ _ _ _ _ _ _ _ _ h => by rw [runFor] at h; cases h
  while_ := fun _ _ _ _ _ _ _ _ _ _ h => by rw [runWhile] at h; cases h

theorem calm_ops_step {n : Nat} (ih : CalmAt D P n) (a : AT) (st s1 : St) (t : Term) (hc : calm a = true)
    (hD : ∀ v ∈ defsA a, D v) (h : runOps (n + 1) P st (opsOf a) = .ok (s1, t)) : Rel D st s1 := by
  cases a with
  | nil => rw [opsOf_nil, runOps.eq_2 _ _ _ (by omega)] at h; cases h
  | block _ _ _ _ => rw [opsOf_block, runOps.eq_2 _ _ _ (by omega)] at h; cases h
  | region _ _ => rw [opsOf_region, runOps.eq_2 _ _ _ (by omega)] at h; cases h
  | op hd m rs next =>
    simp only [calm, Bool.and_eq_true] at hc
    simp only [defsA, List.mem_append, List.mem_map] at hD
    rw [opsOf_op, runOps] at h
    have hop := fun s1 t => ih.op m rs st s1 t hc.1 (fun r hr => hD _ (Or.inl ⟨r, hr, rfl⟩))
      (fun v hv => hD v (Or.inr (Or.inl hv)))
    split at h
    · rename_i s2 hL
      exact (hop _ _ hL).1.trans (ih.ops next s2 s1 t hc.2 (fun v hv => hD v (Or.inr (Or.inr hv))) h)
    · rename_i s2 t2 hL
      cases h
      exact (hop _ _ hL).1
    all_goals cases h

/-- the regions of a calm region list -/
theorem regions_calm (rs : AT) (hc : calm rs = true) :
    ∀ r ∈ regionsOf rs, ∃ bs, r = .mk (blocksOf bs) ∧ calm bs = true ∧ ∀ v ∈ defsA bs, v ∈ defsA rs := by
  induction rs with
  | nil => intro r hr; simp at hr
  | op _ _ _ _ _ _ => intro r hr; simp at hr
  | block _ _ _ _ _ _ => intro r hr; simp at hr
  | region bs next _ ihn =>
    intro r hr
    simp only [calm, Bool.and_eq_true] at hc
    simp only [regionsOf_region, List.mem_cons] at hr
    rcases hr with rfl | hr
    · exact ⟨bs, rfl, hc.1, fun v hv => by simp [defsA, hv]⟩
    · obtain ⟨b, e1, e2, e3⟩ := ihn hc.2 r hr
      exact ⟨b, e1, e2, fun v hv => by simp [defsA, e3 v hv]⟩

theorem calm_struct {m : MHdr} {rs : AT} (hs : structNames.contains m.name = true) (hc : calmCell m rs = true) :
    calm rs = true ∧ termNames.contains m.name = false := by
  simp only [structNames, List.contains_eq_mem, List.mem_cons, List.not_mem_nil, or_false, decide_eq_true_eq] at hs
  unfold calmCell at hc
  rcases hs with h | h | h | h <;> rw [h] at hc ⊢
  · rw [show leafQuiet "scf.if" = false by decide, show termNames.contains "scf.if" = false by decide,
      show structNames.contains "scf.if" = true by decide] at hc
    exact ⟨by simpa using hc, rfl⟩
  · rw [show leafQuiet "scf.for" = false by decide, show termNames.contains "scf.for" = false by decide,
      show structNames.contains "scf.for" = true by decide] at hc
    exact ⟨by simpa using hc, rfl⟩
  · rw [show leafQuiet "scf.while" = false by decide, show termNames.contains "scf.while" = false by decide,
      show structNames.contains "scf.while" = true by decide] at hc
    exact ⟨by simpa using hc, rfl⟩
  · rw [show leafQuiet "affine.for" = false by decide, show termNames.contains "affine.for" = false by decide,
      show structNames.contains "affine.for" = true by decide] at hc
    exact ⟨by simpa using hc, rfl⟩


theorem calm_op_step {n : Nat} (ih : CalmAt D P n) (m : MHdr) (rs : AT) (st s1 : St) (t : Option Term)
    (hc : calmCell m rs = true) (hDr : ∀ r ∈ m.results, D r.1) (hD : ∀ v ∈ defsA rs, D v)
    (h : runOp (n + 1) P st (mkOp m (regionsOf rs)) = .ok (s1, t)) :
    Rel D st s1 ∧ (termNames.contains m.name = false → t = none) := by
  by_cases h1 : m.name = "func.call"
  · unfold calmCell at hc; rw [h1] at hc
    rw [show leafQuiet "func.call" = false by decide, show termNames.contains "func.call" = false by decide,
      show structNames.contains "func.call" = false by decide] at hc
    simp at hc
  have hreg : structNames.contains m.name = true → ∀ r ∈ regionsOf rs,
      ∃ bs, r = .mk (blocksOf bs) ∧ calm bs = true ∧ ∀ v ∈ defsA bs, D v := by
    intro hs r hr
    obtain ⟨bs, e1, e2, e3⟩ := regions_calm rs (calm_struct hs hc).1 r hr
    exact ⟨bs, e1, e2, fun v hv => hD v (e3 v hv)⟩
  have hR : structNames.contains m.name = true → ∀ {r : Region} {st s' : St} {args : List Val} {t : Term},
      runRegion n P st r args = .ok (s', t) → r ∈ regionsOf rs → Rel D st s' := by
    intro hs r st s' args t hrun hr
    obtain ⟨bs, rfl, e2, e3⟩ := hreg hs r hr
    exact ih.region bs st args s' t e2 e3 hrun
  have hF : structNames.contains m.name = true → ∀ {r : Region} {st s' : St} {w : Nat} {i ub step : Int}
      {iters vs : List Val},
      runFor n P st r w i ub step iters = .ok (s', vs) → r ∈ regionsOf rs → Rel D st s' := by
    intro hs r st s' w i ub step iters vs hrun hr
    obtain ⟨bs, rfl, e2, e3⟩ := hreg hs r hr
    exact ih.for_ bs st w i ub step iters s' vs e2 e3 hrun
  have hW : structNames.contains m.name = true → ∀ {r1 r2 : Region} {st s' : St} {args vs : List Val},
      runWhile n P st r1 r2 args = .ok (s', vs) → r1 ∈ regionsOf rs → r2 ∈ regionsOf rs → Rel D st s' := by
    intro hs r1 r2 st s' args vs hrun hr1 hr2
    obtain ⟨b1, rfl, e2, e3⟩ := hreg hs r1 hr1
    obtain ⟨b2, rfl, f2, f3⟩ := hreg hs r2 hr2
    exact ih.while_ b1 b2 st args s' vs e2 f2 e3 f3 hrun
  by_cases h2 : m.name = "scf.if"
  · have hs : structNames.contains m.name = true := by rw [h2]; decide
    rw [runOp] at h
    simp only [mkOp_name, mkOp_operands, mkOp_regions, mkOp_results, h2] at h
    repeat' split at h
    all_goals first
      | (cases h; done)
      | (cases h
         rename_i cb _ _ _ _ _ _ _
         exact ⟨(hR hs (by assumption) (by
            rw [‹regionsOf rs = [_, _]›]; cases cb <;> simp)).trans (bind_keep hDr (by assumption)), fun _ => rfl⟩)
  by_cases h3 : m.name = "scf.for"
  · have hs : structNames.contains m.name = true := by rw [h3]; decide
    rw [runOp] at h
    simp only [mkOp_name, mkOp_operands, mkOp_regions, mkOp_results, h3] at h
    repeat' split at h
    all_goals first
      | (cases h; done)
      | (cases h
         exact ⟨(hF hs (by assumption) (by rw [‹regionsOf rs = [_]›]; simp)).trans
            (bind_keep hDr (by assumption)), fun _ => rfl⟩)
  by_cases h4 : m.name = "scf.while"
  · have hs : structNames.contains m.name = true := by rw [h4]; decide
    rw [runOp] at h
    simp only [mkOp_name, mkOp_operands, mkOp_regions, mkOp_results, h4] at h
    repeat' split at h
    all_goals first
      | (cases h; done)
      | (cases h
         exact ⟨(hW hs (by assumption) (by rw [‹regionsOf rs = [_, _]›]; simp)
            (by rw [‹regionsOf rs = [_, _]›]; simp)).trans
            (bind_keep hDr (by assumption)), fun _ => rfl⟩)
  by_cases h5 : m.name = "affine.for"
  · have hs : structNames.contains m.name = true := by rw [h5]; decide
    rw [runOp] at h
    simp only [mkOp_name, mkOp_operands, mkOp_regions, mkOp_results, mkOp_affineForBounds, h5] at h
    repeat' split at h
    all_goals first
      | (cases h; done)
      | (cases h
         exact ⟨(hF hs (by assumption) (by rw [‹regionsOf rs = [_]›]; simp)).trans
            (bind_keep hDr (by assumption)), fun _ => rfl⟩)
  have hm : mutNames.contains m.name = false := by
    unfold calmCell at hc
    cases hq : leafQuiet m.name with
    | true =>
      simp only [leafQuiet, Bool.and_eq_true, Bool.not_eq_true'] at hq
      exact hq.2
    | false =>
      rw [hq] at hc
      simp only [Bool.false_or, Bool.or_eq_true, Bool.and_eq_true] at hc
      rcases hc with hc | hc
      · simp only [termNames, List.contains_eq_mem, List.mem_cons, List.not_mem_nil, or_false,
          decide_eq_true_eq] at hc
        rcases hc with e | e | e | e | e | e <;> rw [e] <;> decide
      · have := hc.1
        simp only [structNames, List.contains_eq_mem, List.mem_cons, List.not_mem_nil, or_false,
          decide_eq_true_eq] at this
        rcases this with e | e | e | e <;> rw [e] <;> decide
  exact leaf_calm h1 h2 h3 h4 h5 hm hDr h


theorem calm_region_step {n : Nat} (ih : CalmAt D P n) (bs : AT) (st : St) (args : List Val) (s1 : St) (t : Term)
    (hc : calm bs = true) (hD : ∀ v ∈ defsA bs, D v)
    (h : runRegion (n + 1) P st (.mk (blocksOf bs)) args = .ok (s1, t)) : Rel D st s1 := by
  rw [runRegion] at h
  split at h
  · cases h
  · exact ih.block bs st _ args s1 t hc hD h

theorem find_block_calm (b : Nat) (bs : AT) (hc : calm bs = true) :
    ∀ B, findBlock (.mk (blocksOf bs)) b = some B →
      ∃ i a ops, B = .mk i a (opsOf ops) ∧ calm ops = true
        ∧ (∀ p ∈ a, p.1 ∈ defsA bs) ∧ ∀ v ∈ defsA ops, v ∈ defsA bs := by
  induction bs with
  | nil => intro B h; simp [findBlock] at h
  | op _ _ _ _ _ _ => intro B h; simp [findBlock] at h
  | region _ _ _ _ => intro B h; simp [findBlock] at h
  | block i a ops next _ ihn =>
    intro B hB
    simp only [calm, Bool.and_eq_true] at hc
    simp only [findBlock, region_blocks_mk, blocksOf_block, List.find?_cons, block_id_mk] at hB
    by_cases hib : i = b
    · subst hib
      simp only [decide_true] at hB
      cases hB
      exact ⟨i, a, ops, rfl, hc.1, fun p hp => by simp only [defsA, List.mem_append, List.mem_map]; exact Or.inl ⟨p, hp, rfl⟩,
        fun v hv => by simp [defsA, hv]⟩
    · simp only [hib, decide_false] at hB
      obtain ⟨i', a', ops', e1, e2, e3, e4⟩ := ihn hc.2 B (by simpa [findBlock] using hB)
      exact ⟨i', a', ops', e1, e2, fun p hp => by simp [defsA, e3 p hp], fun v hv => by simp [defsA, e4 v hv]⟩

theorem calm_block_step {n : Nat} (ih : CalmAt D P n) (bs : AT) (st : St) (bid : Nat) (args : List Val) (s1 : St)
    (t : Term) (hc : calm bs = true) (hD : ∀ v ∈ defsA bs, D v)
    (h : runBlock (n + 1) P st (.mk (blocksOf bs)) bid args = .ok (s1, t)) : Rel D st s1 := by
  rw [runBlock] at h
  split at h
  · cases h
  · rename_i B hf
    obtain ⟨i, a, ops, rfl, hco, ha, ho⟩ := find_block_calm bid bs hc B hf
    simp only [Block.args, Block.ops] at h
    split at h
    · rename_i s0 hb
      have r0 : Rel D st s0 := bind_keep (fun p hp => hD _ (ha p hp)) hb
      split at h
      · rename_i s2 b' as hL
        exact (r0.trans (ih.ops ops s0 s2 _ hco (fun v hv => hD v (ho v hv)) hL)).trans
          (ih.block bs s2 b' as s1 t hc hD h)
      · exact r0.trans (ih.ops ops s0 s1 t hco (fun v hv => hD v (ho v hv)) h)
    · cases h

theorem calm_for_step {n : Nat} (ih : CalmAt D P n) (bs : AT) (st : St) (w : Nat) (i ub step : Int)
    (iters : List Val) (s1 : St) (vs : List Val) (hc : calm bs = true) (hD : ∀ v ∈ defsA bs, D v)
    (h : runFor (n + 1) P st (.mk (blocksOf bs)) w i ub step iters = .ok (s1, vs)) : Rel D st s1 := by
  rw [runFor] at h
  split at h
  · split at h
    · exact (ih.region bs st _ _ _ hc hD (by assumption)).trans (ih.for_ bs _ w _ ub step _ s1 vs hc hD h)
    all_goals cases h
  · cases h; exact Rel.refl _

theorem calm_while_step {n : Nat} (ih : CalmAt D P n) (bb ba : AT) (st : St) (args : List Val) (s1 : St)
    (vs : List Val) (hcb : calm bb = true) (hca : calm ba = true) (hDb : ∀ v ∈ defsA bb, D v)
    (hDa : ∀ v ∈ defsA ba, D v)
    (h : runWhile (n + 1) P st (.mk (blocksOf bb)) (.mk (blocksOf ba)) args = .ok (s1, vs)) : Rel D st s1 := by
  rw [runWhile] at h
  split at h
  · have r1 := ih.region bb st _ _ _ hcb hDb (by assumption)
    split at h
    · split at h
      · have r2 := ih.region ba _ _ _ _ hca hDa (by assumption)
        exact (r1.trans r2).trans (ih.while_ bb ba _ _ s1 vs hcb hca hDb hDa h)
      all_goals cases h
    · cases h; exact r1
  all_goals cases h

theorem calm_all : ∀ n, CalmAt D P n := by
  intro n
  induction n with
  | zero => exact calmAt_zero
  | succ n ih =>
    exact {
      ops := calm_ops_step ih
      op := calm_op_step ih
      region := calm_region_step ih
      block := calm_block_step ih
      for_ := calm_for_step ih
      while_ := calm_while_step ih }

/-- **calm operations are quiet**: an operation that by its names (and those of everything nested in it)
cannot touch the effect log, the memory or the symref variables, and is no terminator, leaves a related
state when all values it defines are in `D` -/
theorem quiet_of_calm {m : MHdr} {rs : AT} (hc : calmCell m rs = true) (ht : termNames.contains m.name = false)
    (hDr : ∀ r ∈ m.results, D r.1) (hD : ∀ v ∈ defsA rs, D v) : Quiet P D (mkOp m (regionsOf rs)) := by
  intro n st s1 t h
  have := (calm_all n).op m rs st s1 t hc hDr hD h
  exact ⟨this.2 ht, this.1⟩

end Xdsl.DCEM
