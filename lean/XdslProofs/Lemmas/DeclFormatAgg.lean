import XdslProofs.Lemmas.DeclFormatList
/-!
C05 helper lemmas for the aggregate directives (`operands`, `type(operands)`, `type(results)`,
`functional-type`): `_set_using_variadic_index` gives back the segments of a flat list when the
definition has at most one optional/variadic member (`splitByKinds_flatten`).
-/
namespace Xdsl.DeclFormat

theorem len1 {xs : List Nat} (h : xs.length = 1) : ∃ x, xs = [x] := by
  match xs, h with
  | [x], _ => exact ⟨x, rfl⟩

theorem le1 {xs : List Nat} (h : xs.length ≤ 1) : xs = [] ∨ ∃ x, xs = [x] := by
  match xs, h with
  | [], _ => exact Or.inl rfl
  | [x], _ => exact Or.inr ⟨x, rfl⟩

theorem countSingle_cons (k : Kind) (ks : List Kind) :
    countSingle (k :: ks) = (if k = Kind.single then 1 else 0) + countSingle ks := by
  cases k <;> simp [countSingle, List.filter_cons] <;> omega

theorem nonSingle_cons (k : Kind) (ks : List Kind) :
    nonSingle (k :: ks) = (if k = Kind.single then 0 else 1) + nonSingle ks := by
  cases k <;> simp [nonSingle, List.filter_cons] <;> omega

theorem length_eq_count (ks : List Kind) : ks.length = countSingle ks + nonSingle ks := by
  induction ks with
  | nil => rfl
  | cons k ks ih =>
    rw [countSingle_cons, nonSingle_cons, List.length_cons, ih]
    cases k <;> simp <;> omega

theorem fits_length {ks : List Kind} {segs : List (List Nat)} (h : fits ks segs = true) :
    segs.length = ks.length := by
  induction ks generalizing segs with
  | nil => cases segs <;> simp_all [fits]
  | cons k ks ih =>
    cases segs with
    | nil => simp [fits] at h
    | cons s ss =>
      simp only [fits, Bool.and_eq_true] at h
      simp [ih h.2]

theorem countSingle_single (ks : List Kind) : countSingle (Kind.single :: ks) = 1 + countSingle ks := by
  rw [countSingle_cons]; rfl
theorem countSingle_opt (ks : List Kind) : countSingle (Kind.opt :: ks) = countSingle ks := by
  rw [countSingle_cons]; simp
theorem countSingle_var (ks : List Kind) : countSingle (Kind.var :: ks) = countSingle ks := by
  rw [countSingle_cons]; simp

theorem flen_cons (s : List Nat) (ss : List (List Nat)) :
    (s :: ss).flatten.length = s.length + ss.flatten.length := by
  rw [List.flatten_cons, List.length_append]

/-- all definitions single: the flat list has one element per definition and splits back -/
theorem splitFlat_allSingle (ks : List Kind) (segs : List (List Nat)) (n : Nat)
    (hf : fits ks segs = true) (hn : nonSingle ks = 0) :
    splitFlat ks segs.flatten n = some segs ∧ segs.flatten.length = countSingle ks := by
  induction ks generalizing segs with
  | nil => cases segs <;> simp_all [fits, splitFlat, countSingle]
  | cons k ks ih =>
    cases segs with
    | nil => simp [fits] at hf
    | cons s ss =>
      simp only [fits, Bool.and_eq_true] at hf
      rw [nonSingle_cons] at hn
      cases k with
      | single =>
        simp only [if_true] at hn
        have hs : s.length = 1 := by simpa [fitsK] using hf.1
        obtain ⟨x, rfl⟩ := len1 hs
        obtain ⟨i1, i2⟩ := ih ss hf.2 (by omega)
        refine ⟨?_, ?_⟩
        · rw [List.flatten_cons, List.singleton_append]
          simp only [splitFlat, i1, Option.map_some]
        · rw [flen_cons, countSingle_single, i2]; rfl
      | opt => simp at hn
      | var => simp at hn

theorem countSingle_le_flatten {ks : List Kind} {segs : List (List Nat)} (hf : fits ks segs = true) :
    countSingle ks ≤ segs.flatten.length := by
  induction ks generalizing segs with
  | nil => simp [countSingle]
  | cons k ks ih =>
    cases segs with
    | nil => simp [fits] at hf
    | cons s ss =>
      simp only [fits, Bool.and_eq_true] at hf
      have := ih hf.2
      rw [flen_cons]
      cases k with
      | single =>
        have hs : s.length = 1 := by simpa [fitsK] using hf.1
        rw [hs, countSingle_single]; omega
      | opt => rw [countSingle_opt]; omega
      | var => rw [countSingle_var]; omega

theorem splitFlat_unique (ks : List Kind) (segs : List (List Nat))
    (hf : fits ks segs = true) (hn : nonSingle ks ≤ 1) :
    splitFlat ks segs.flatten (segs.flatten.length - countSingle ks) = some segs := by
  induction ks generalizing segs with
  | nil => cases segs <;> simp_all [fits, splitFlat]
  | cons k ks ih =>
    cases segs with
    | nil => simp [fits] at hf
    | cons s ss =>
      simp only [fits, Bool.and_eq_true] at hf
      rw [nonSingle_cons] at hn
      cases k with
      | single =>
        simp only [if_true] at hn
        have hs : s.length = 1 := by simpa [fitsK] using hf.1
        obtain ⟨x, rfl⟩ := len1 hs
        have i1 := ih ss hf.2 (by omega)
        have e : ([x] :: ss).flatten.length - countSingle (Kind.single :: ks) =
            ss.flatten.length - countSingle ks := by
          rw [countSingle_single, flen_cons]; simp; omega
        rw [e, List.flatten_cons, List.singleton_append]
        simp only [splitFlat, i1, Option.map_some]
      | opt =>
        have hn0 : nonSingle ks = 0 := by simp at hn; omega
        obtain ⟨i1, i2⟩ := splitFlat_allSingle ks ss 0 hf.2 hn0
        have hs : s.length ≤ 1 := by simpa [fitsK] using hf.1
        have e : (s :: ss).flatten.length - countSingle (Kind.opt :: ks) = s.length := by
          rw [countSingle_opt, flen_cons, i2]; omega
        rw [e, List.flatten_cons]
        have hgt : ¬ (s.length > 1) := by omega
        simp [splitFlat, i1, hgt]
      | var =>
        have hn0 : nonSingle ks = 0 := by simp at hn; omega
        obtain ⟨i1, i2⟩ := splitFlat_allSingle ks ss 0 hf.2 hn0
        have e : (s :: ss).flatten.length - countSingle (Kind.var :: ks) = s.length := by
          rw [countSingle_var, flen_cons, i2]; omega
        rw [e, List.flatten_cons]
        simp [splitFlat, i1]

/-- `_set_using_variadic_index` on the flattened segments of a fitting instance returns the segments -/
theorem splitByKinds_flatten (ks : List Kind) (segs : List (List Nat))
    (hf : fits ks segs = true) (hu : uniqueVar ks = true) :
    splitByKinds ks segs.flatten = some segs := by
  have hn : nonSingle ks ≤ 1 := by simpa [uniqueVar] using hu
  have hlen := length_eq_count ks
  have hle := countSingle_le_flatten hf
  unfold splitByKinds
  have e1 : ks.length - countSingle ks = nonSingle ks := by omega
  simp only [e1]
  have h1 : ¬ (nonSingle ks > 1) := by omega
  have h2 : ¬ (segs.flatten.length < countSingle ks) := by omega
  simp only [h1, h2, if_false]
  by_cases h0 : nonSingle ks = 0
  · have i2 := (splitFlat_allSingle ks segs 0 hf h0).2
    simp only [h0, i2, decide_true, Bool.true_and, ne_eq, not_true_eq_false, decide_false,
      Bool.false_eq_true, if_false]
    exact (splitFlat_allSingle ks segs _ hf h0).1
  · simp only [h0, decide_false, Bool.false_and, Bool.false_eq_true, if_false]
    exact splitFlat_unique ks segs hf hn

end Xdsl.DeclFormat
