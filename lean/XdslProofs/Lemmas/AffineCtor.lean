import XdslModel.Affine
/-!
Evaluation lemmas for the smart constructors of `XdslModel/Affine.lean` (C26).
-/
namespace Xdsl.Affine

variable (ρd ρs : Nat → Int)

theorem eval_addCore (a b : Expr) :
    eval ρd ρs (addCore a b) = eval ρd ρs a + eval ρd ρs b := by
  fun_induction addCore a b <;> simp_all [eval, evalBin] <;> omega

theorem eval_mkAdd' (a b : Expr) :
    eval ρd ρs (mkAdd a b) = eval ρd ρs a + eval ρd ρs b := by
  unfold mkAdd
  split <;> simp [eval_addCore, eval] <;> omega

theorem eval_mulC (e : Expr) (k : Int) :
    eval ρd ρs (mulC e k) = eval ρd ρs e * k := by
  fun_induction mulC e k <;> simp_all [eval, evalBin, eval_mkAdd'] <;> grind

theorem eval_mkMul' {a b e : Expr} (h : mkMul a b = .ok e) :
    eval ρd ρs e = eval ρd ρs a * eval ρd ρs b := by
  unfold mkMul at h
  split at h
  · cases h; simp [eval_mulC, eval, Int.mul_comm]
  · cases h; simp [eval_mulC, eval]
  · cases h

theorem eval_mkNeg' (e : Expr) : eval ρd ρs (mkNeg e) = - eval ρd ρs e := by
  unfold mkNeg
  split <;> simp [eval, eval_mulC]

theorem eval_mkSub' (a b : Expr) :
    eval ρd ρs (mkSub a b) = eval ρd ρs a - eval ρd ρs b := by
  simp [mkSub, eval_mkAdd', eval_mulC]; omega

theorem eval_foldConst {k : Kind} {x y : Int} {e : Expr} (h : foldConst k x y = .ok e) :
    eval ρd ρs e = evalBin k x y := by
  unfold foldConst at h
  cases k <;> simp at h
  · cases h; simp [eval, evalBin]
  · cases h; simp [eval, evalBin]
  all_goals (split at h <;> first | (cases h; done) | (cases h; simp [eval, evalBin]))

theorem eval_mkDiv' {k : Kind} {a b e : Expr} (h : mkDiv k a b = .ok e) :
    eval ρd ρs e = evalBin k (eval ρd ρs a) (eval ρd ρs b) := by
  unfold mkDiv at h
  split at h
  · split at h
    · cases h; simp [eval]
    · simpa [eval] using eval_foldConst ρd ρs h
  · cases h; simp [eval]
  · cases h

theorem eval_mkBin' {k : Kind} {a b e : Expr} (h : mkBin k a b = .ok e) :
    eval ρd ρs e = evalBin k (eval ρd ρs a) (eval ρd ρs b) := by
  unfold mkBin at h
  split at h
  · cases h; simp [eval_mkAdd', evalBin]
  · simpa [evalBin] using eval_mkMul' ρd ρs h
  · exact eval_mkDiv' ρd ρs h

end Xdsl.Affine

