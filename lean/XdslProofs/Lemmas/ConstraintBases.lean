import XdslProofs.Lemmas.Constraint
/-! `get_bases` is sound for the declarative meaning (C09). -/
namespace Xdsl.Constraint

theorem mem_interL (x : Nat) (a b : List Nat) : x ∈ interL a b ↔ x ∈ a ∧ x ∈ b := by
  simp [interL, List.mem_filter]

theorem basesUnion_sat (U : Univ) (σ : Asg) (a : Attr) :
    ∀ cs, (∀ c ∈ cs, ∀ b, sat U σ c a → bases U c = some b → a.cls ∈ b) →
      ∀ b, satAny U σ cs a → basesUnion U cs = some b → a.cls ∈ b
  | [], _, _, h, _ => by simp [satAny] at h
  | c :: cs, ih, b, h, hb => by
    simp only [basesUnion] at hb
    cases hc : bases U c with
    | none => simp [hc] at hb
    | some bc =>
      cases hcs : basesUnion U cs with
      | none => simp [hc, hcs] at hb
      | some bcs =>
        simp [hc, hcs] at hb
        subst hb
        simp only [satAny] at h
        rcases h with h | h
        · exact List.mem_append_left _ (ih c (List.mem_cons_self ..) bc h hc)
        · exact List.mem_append_right _
            (basesUnion_sat U σ a cs (fun c' hc' => ih c' (List.mem_cons_of_mem _ hc')) bcs h hcs)

theorem basesInter_sat (U : Univ) (σ : Asg) (a : Attr) :
    ∀ cs, (∀ c ∈ cs, ∀ b, sat U σ c a → bases U c = some b → a.cls ∈ b) →
      ∀ b, satAll U σ cs a → basesInter U cs = some b → a.cls ∈ b
  | [], _, _, _, hb => by simp [basesInter] at hb
  | c :: cs, ih, b, h, hb => by
    simp only [satAll] at h
    have ih' := basesInter_sat U σ a cs (fun c' hc' => ih c' (List.mem_cons_of_mem _ hc'))
    have ihc := ih c (List.mem_cons_self ..)
    simp only [basesInter] at hb
    cases hc : bases U c with
    | none =>
      simp only [hc] at hb
      exact ih' b h.2 hb
    | some bc =>
      cases hcs : basesInter U cs with
      | none =>
        simp only [hc, hcs] at hb
        cases hb
        exact ihc _ h.1 hc
      | some bcs =>
        simp only [hc, hcs] at hb
        cases hb
        exact (mem_interL _ _ _).2 ⟨ihc bc h.1 hc, ih' bcs h.2 hcs⟩

/-- `get_bases` is sound for the declarative meaning -/
theorem bases_sat (U : Univ) (hU : UnivOK U) (σ : Asg) :
    ∀ c a b, WF U c → sat U σ c a → bases U c = some b → a.cls ∈ b := by
  intro c
  induction c using C.ind with
  | any => intro a b _ _ hb; simp [bases] at hb
  | eq x => intro a b _ h hb; simp [bases] at hb; simp [sat] at h; subst hb; subst h; simp
  | set vs =>
    intro a b _ h hb; simp [bases] at hb; simp [sat] at h; subst hb
    exact List.mem_map.2 ⟨a, h, rfl⟩
  | base d =>
    intro a b _ h hb
    simp only [bases] at hb
    split at hb
    · rename_i hf; cases hb
      simp only [sat] at h
      simp [hU _ _ hf h]
    · cases hb
  | anyOf cs ih =>
    intro a b hw h hb
    simp only [WF] at hw
    exact basesUnion_sat U σ a cs (fun c hc b' => ih c hc a b' ((WFL_iff U cs).1 hw.2 c hc)) b h hb
  | allOf cs ih =>
    intro a b hw h hb
    simp only [WF] at hw
    exact basesInter_sat U σ a cs (fun c hc b' => ih c hc a b' ((WFL_iff U cs).1 hw c hc)) b h hb
  | param d ps _ =>
    intro a b _ h hb
    simp only [bases] at hb
    split at hb
    · rename_i hf; cases hb
      simp only [sat] at h
      simp [hU _ _ hf h.1]
    · cases hb
  | var n c ih => intro a b hw h hb; exact ih a b hw h.2 hb
  | msg n c ih => intro a b hw h hb; exact ih a b hw h hb
  | tvar n c ih => intro a b hw h hb; exact ih a b hw h hb
  | arrayOf k c _ =>
    intro a b hw h hb
    simp only [bases] at hb; cases hb
    simp only [WF] at hw
    simp only [sat] at h
    simp [hU _ _ hw.1 h.1]

end Xdsl.Constraint
