import XdslProofs.Lemmas.RiscVNorm
/-!
The symbolic executor of `XdslModel/RiscVValidate.lean` abstracts the RV32 machine (`symExec_sound`),
and the source trees denote the source values (`srcTerms_sound`).  Core Lean only.
-/
namespace Xdsl.RiscV.TV

/-! ### source operations vs. the instructions they are lowered to -/

theorem srcBin_val {op : BinOp} {a b v : W} (h : srcBin op a b = some v) :
    Sem.intBin op.name a b = .val v := by
  unfold srcBin at h
  split at h
  · cases h; assumption
  · cases h

/-- a defined MLIR result is what the lowered instruction computes -/
theorem srcBin_rop (op : BinOp) (a b v : W) (h : srcBin op a b = some v) : v = aluR op.rop a b := by
  have h := srcBin_val h
  cases op <;> simp only [BinOp.name, Sem.intBin, BinOp.rop, aluR] at h ⊢
  case addi => cases h; rfl
  case subi => cases h; rfl
  case muli => cases h; rfl
  case andi => cases h; rfl
  case ori => cases h; rfl
  case xori => cases h; rfl
  case shli =>
    split at h
    · cases h
    · next hb => cases h; rw [Nat.mod_eq_of_lt (by omega)]
  case shrsi =>
    split at h
    · cases h
    · next hb => cases h; rw [Nat.mod_eq_of_lt (by omega)]
  case shrui =>
    split at h
    · cases h
    · next hb => cases h; rw [Nat.mod_eq_of_lt (by omega)]
  case divui =>
    split at h
    · cases h
    · next hb => cases h; simp at hb; simp [hb]
  case remui =>
    split at h
    · cases h
    · next hb => cases h; simp at hb; simp [hb]
  case divsi =>
    split at h
    · cases h
    · next hb =>
      cases h
      simp only [Bool.or_eq_true, beq_iff_eq, Bool.and_eq_true, not_or, not_and] at hb
      obtain ⟨hb0, hov⟩ := hb
      have hov' : ¬(a = intMin ∧ b = BitVec.allOnes 32) := by
        intro ⟨h1, h2⟩; exact hov (by rw [h1]; rfl) h2
      simp only [hb0, hov', if_false]
      have hne : a ≠ BitVec.intMin 32 ∨ b ≠ -1#32 := by
        by_cases ha : a = BitVec.intMin 32
        · right; intro hb1; exact hov ha (by rw [hb1]; rfl)
        · left; exact ha
      rw [← BitVec.toInt_sdiv_of_ne_or_ne _ _ hne, BitVec.ofInt_toInt]
  case remsi =>
    split at h
    · cases h
    · next hb =>
      cases h
      simp only [Bool.or_eq_true, beq_iff_eq, Bool.and_eq_true, not_or, not_and] at hb
      obtain ⟨hb0, hov⟩ := hb
      have hov' : ¬(a = intMin ∧ b = BitVec.allOnes 32) := by
        intro ⟨h1, h2⟩; exact hov (by rw [h1]; rfl) h2
      simp only [hb0, hov', if_false]
      rw [← BitVec.toInt_srem, BitVec.ofInt_toInt]

theorem cmpiTerm_ok (base : Nat → W) (p : Nat) (x y t : T) (v : W) (ht : cmpiTerm p x y = some t)
    (hv : srcCmpi p (den base x) (den base y) = some v) : v = den base t := by
  unfold cmpiTerm at ht
  simp only [srcCmpi, Sem.cmpi] at hv
  split at ht <;> cases ht <;> simp at hv <;> subst hv <;> simp only [den, aluR]
  · exact (cmp_eq _ _).symm
  · have := cmp_ne (den base x) (den base y); simpa [imm32] using this.symm
  · rw [not_b2w, BitVec.sle_eq_not_slt]
  · rw [not_b2w, BitVec.sle_eq_not_slt]
  · rw [not_b2w, BitVec.ule_eq_not_ult]
  · rw [not_b2w, BitVec.ule_eq_not_ult]

theorem getElem?_map_den (base : Nat → W) (ts : List T) (i : Nat) :
    (ts.map (den base))[i]? = (ts[i]?).map (den base) := by simp

/-- the tree of every SSA value denotes the value the source semantics gives it -/
theorem srcTerms_sound (base : Nat → W) (ops : List SrcOp) : ∀ (ts ts' : List T) (vs : List W),
    srcTerms ops ts = some ts' → evalOps ops (ts.map (den base)) = some vs → vs = ts'.map (den base) := by
  induction ops with
  | nil => intro ts ts' vs h1 h2; simp [srcTerms] at h1; simp [evalOps] at h2; subst h1; exact h2.symm
  | cons o r ih =>
    intro ts ts' vs h1 h2
    cases o with
    | const c =>
      simp only [srcTerms] at h1
      simp only [evalOps] at h2
      apply ih _ _ _ h1
      simpa [den] using h2
    | bin op a b =>
      simp only [srcTerms] at h1
      simp only [evalOps, getElem?_map_den] at h2
      cases hx : ts[a]? <;> cases hy : ts[b]? <;> simp only [hx, hy, Option.map] at h1 h2 <;> try (cases h1; done)
      all_goals try (cases h2; done)
      rename_i x y
      split at h2
      · next v hv =>
        apply ih _ _ _ h1
        have := srcBin_rop op _ _ _ hv
        simpa [den, this] using h2
      · cases h2
    | cmpi p a b =>
      simp only [srcTerms] at h1
      simp only [evalOps, getElem?_map_den] at h2
      cases hx : ts[a]? <;> cases hy : ts[b]? <;> simp only [hx, hy, Option.map] at h1 h2 <;> try (cases h1; done)
      all_goals try (cases h2; done)
      rename_i x y
      split at h1
      · next t ht =>
        split at h2
        · next v hv =>
          apply ih _ _ _ h1
          have := cmpiTerm_ok base p x y t v ht hv
          simpa [this] using h2
        · cases h2
      · cases h1

/-! ### the machine -/

theorem set_mem (s : St) (r : Reg) (v : W) : (s.set r v).mem = s.mem := by
  unfold St.set; split <;> rfl

theorem store_get (s : St) (a v : W) (r : Reg) : (s.store a v).get r = s.get r := rfl

def baseOf (σ0 : St) : Nat → W := fun i => σ0.get i

/-- the abstraction relation between machine state and symbolic state -/
structure Inv (σ0 σ : St) (S : Sym) : Prop where
  reg : ∀ r, 0 < r → r < 32 → σ.get r = den (baseOf σ0) (S.reg r)
  stk : ∀ k t, 0 ≤ k → k < M32 → S.stk k = some t → σ.mem (σ0.get SP + imm32 k) = den (baseOf σ0) t

theorem Inv_init (σ0 : St) : Inv σ0 σ0 symInit :=
  ⟨fun _ _ _ => rfl, fun _ _ _ _ h => by simp [symInit] at h⟩

theorem Inv.get {σ0 σ : St} {S : Sym} (I : Inv σ0 σ S) {r : Reg} {t : T} (h : S.get r = some t) :
    σ.get r = den (baseOf σ0) t := by
  unfold Sym.get at h
  by_cases h0 : r = 0
  · simp only [h0, if_true] at h; cases h; subst h0; simp [den, imm32]
  · by_cases h1 : r < 32
    · simp only [h0, h1, if_true, if_false] at h; cases h
      exact I.reg r (Nat.pos_of_ne_zero h0) h1
    · simp [h0, h1] at h

theorem Inv.set {σ0 σ : St} {S S' : Sym} (I : Inv σ0 σ S) {rd : Reg} {t : T} {v : W}
    (h : S.set rd t = some S') (hv : v = den (baseOf σ0) t) : Inv σ0 (σ.set rd v) S' := by
  unfold Sym.set at h
  by_cases h0 : rd = 0
  · simp only [h0, if_true] at h; cases h; subst h0; simpa using I
  · by_cases h1 : rd < 32
    · simp only [h0, h1, if_true, if_false] at h; cases h
      refine ⟨?_, ?_⟩
      · intro r hr0 hr
        by_cases e : r = rd
        · subst e; simp only [if_true]; rw [get_set_same _ _ _ h0, hv]
        · simp only [e, if_false]; rw [get_set_ne _ _ _ _ e]; exact I.reg r hr0 hr
      · intro k t' hk0 hk hs
        rw [set_mem]; exact I.stk k t' hk0 hk hs
    · simp [h0, h1] at h

theorem spOff_den (σ0 : St) : ∀ (t : T) (k : Int), spOff t = some k →
    den (baseOf σ0) t = σ0.get SP + imm32 k := by
  intro t
  induction t with
  | var i =>
    intro k h
    simp only [spOff] at h
    split at h
    · next e => cases h; subst e; simp [den, baseOf, imm32]
    · cases h
  | const c => intro k h; simp [spOff] at h
  | bin op a b iha _ =>
    intro k h
    cases op <;> try (simp [spOff] at h; done)
    cases b <;> try (simp [spOff] at h; done)
    rename_i c
    simp only [spOff, Option.map_eq_some_iff] at h
    obtain ⟨k', hk', rfl⟩ := h
    simp only [den, aluR, iha k' hk', imm32_add, BitVec.add_assoc]

theorem imm32_emod (k : Int) : imm32 (k % M32) = imm32 k := ofInt_emod k

theorem toNat_imm32_range (k : Int) (h0 : 0 ≤ k) (h1 : k < M32) : (imm32 k).toNat = k.toNat := by
  simp only [imm32, BitVec.toNat_ofInt, M32] at *
  have : ((2 ^ 32 : Nat) : Int) = 4294967296 := by decide
  rw [this, Int.emod_eq_of_lt h0 h1]

theorem aligned_key (sp : W) (k : Int) (h0 : 0 ≤ k) (h1 : k < M32) (hk : k % 4 = 0)
    (hal : aligned sp = true) : aligned (sp + imm32 k) = true := by
  unfold aligned at *
  rw [BitVec.toNat_add, toNat_imm32_range k h0 h1]
  simp only [M32] at h1
  simp at hal ⊢
  have : k.toNat % 4 = 0 := by omega
  omega

theorem key_inj (sp : W) (k j : Int) (hk0 : 0 ≤ k) (hk1 : k < M32) (hj0 : 0 ≤ j) (hj1 : j < M32)
    (h : sp + imm32 k = sp + imm32 j) : k = j := by
  have h' : imm32 k = imm32 j := by
    have := congrArg (fun x => x - sp) h
    simpa [BitVec.add_comm sp, BitVec.add_sub_cancel] using this
  have := congrArg BitVec.toNat h'
  rw [toNat_imm32_range k hk0 hk1, toNat_imm32_range j hj0 hj1] at this
  omega

theorem key_range (x : Int) : 0 ≤ x % M32 ∧ x % M32 < M32 :=
  ⟨Int.emod_nonneg _ (by decide), Int.emod_lt_of_pos _ (by decide)⟩

theorem aluI_eq (op : IOp) (a : W) (imm : Int) : aluI op a imm = aluR (iopROp op) a (imm32 imm) := by
  cases op <;> rfl

theorem aluS_eq (op : SOp) (o : ROp) (a : W) (n : Nat) (ho : sopROp op = some o) (hn : n < 32) :
    aluS op a n = aluR o a (imm32 (n : Int)) := by
  have hm : (imm32 (n : Int)).toNat % 32 = n := by
    rw [toNat_imm32_range _ (by omega) (by simp [M32]; omega)]
    simp; omega
  cases op <;> simp [sopROp] at ho <;> subst ho <;> simp only [aluS, aluR, hm]

/-- one symbolic step follows one machine step; no trap on an aligned stack -/
theorem symStep_sound {σ0 σ : St} {S S' : Sym} (i : Instr) (I : Inv σ0 σ S)
    (hal : aligned (σ0.get SP) = true) (h : symStep i S = some S') :
    ∃ σ', exec1 i σ = some σ' ∧ Inv σ0 σ' S' := by
  cases i with
  | r op rd a b =>
    simp only [symStep] at h
    split at h
    · next x y hx hy =>
      exact ⟨_, rfl, I.set h (by simp only [den, I.get hx, I.get hy])⟩
    · cases h
  | i op rd a imm =>
    simp only [symStep] at h
    split at h
    · next x hx => exact ⟨_, rfl, I.set h (by simp only [den, I.get hx, aluI_eq])⟩
    · cases h
  | sh op rd a n =>
    simp only [symStep] at h
    split at h
    · next x o hx ho =>
      split at h
      · next hn => exact ⟨_, rfl, I.set h (by simp only [den, I.get hx, aluS_eq op o _ n ho hn])⟩
      · cases h
    · cases h
  | li rd imm =>
    simp only [symStep] at h
    exact ⟨_, rfl, I.set h rfl⟩
  | mv rd a =>
    simp only [symStep] at h
    split at h
    · next x hx => exact ⟨_, rfl, I.set h (I.get hx)⟩
    · cases h
  | lw rd base off =>
    simp only [symStep] at h
    split at h
    · next k hk =>
      obtain ⟨tb, htb, hsp⟩ := Option.bind_eq_some_iff.mp hk
      have haddr : σ.get base + imm32 off = σ0.get SP + imm32 ((k + off) % M32) := by
        rw [I.get htb, spOff_den σ0 tb k hsp, imm32_emod, imm32_add, BitVec.add_assoc]
      obtain ⟨hr0, hr1⟩ := key_range (k + off)
      split at h
      · next hk4 =>
        split at h
        · next t ht =>
          have hA : aligned (σ.get base + imm32 off) = true := by
            rw [haddr]; exact aligned_key _ _ hr0 hr1 hk4 hal
          refine ⟨σ.set rd (σ.mem (σ.get base + imm32 off)), by simp only [exec1, hA, if_true], I.set h ?_⟩
          rw [haddr]; exact I.stk _ t hr0 hr1 ht
        · cases h
      · cases h
    · cases h
  | sw v base off =>
    simp only [symStep] at h
    split at h
    · next k x hk hx =>
      obtain ⟨tb, htb, hsp⟩ := Option.bind_eq_some_iff.mp hk
      have haddr : σ.get base + imm32 off = σ0.get SP + imm32 ((k + off) % M32) := by
        rw [I.get htb, spOff_den σ0 tb k hsp, imm32_emod, imm32_add, BitVec.add_assoc]
      obtain ⟨hr0, hr1⟩ := key_range (k + off)
      split at h
      · next hk4 =>
        cases h
        have hA : aligned (σ.get base + imm32 off) = true := by
          rw [haddr]; exact aligned_key _ _ hr0 hr1 hk4 hal
        refine ⟨σ.store (σ.get base + imm32 off) (σ.get v), by simp only [exec1, hA, if_true], ?_, ?_⟩
        · intro r hr0' hr; rw [store_get]; exact I.reg r hr0' hr
        · intro j t hj0 hj1 hs
          simp only [St.store, haddr]
          by_cases e : j = (k + off) % M32
          · subst e
            simp only [if_true] at hs ⊢
            cases hs; exact I.get hx
          · simp only [e, if_false] at hs
            have hne : σ0.get SP + imm32 j ≠ σ0.get SP + imm32 ((k + off) % M32) :=
              fun hh => e (key_inj _ _ _ hj0 hj1 hr0 hr1 hh)
            simp only [hne, if_false]
            exact I.stk j t hj0 hj1 hs
      · cases h
    · cases h
  | nop => simp only [symStep] at h; cases h; exact ⟨_, rfl, I⟩
  | br _ _ _ _ => simp [symStep] at h
  | j _ => simp [symStep] at h
  | jal _ => simp [symStep] at h
  | ret => simp [symStep] at h

theorem symExec_sound (is : List Instr) : ∀ {σ0 σ : St} {S S' : Sym}, Inv σ0 σ S →
    aligned (σ0.get SP) = true → symExec is S = some S' →
    ∃ σ', exec is σ = some σ' ∧ Inv σ0 σ' S' := by
  induction is with
  | nil => intro σ0 σ S S' I _ h; simp [symExec] at h; subst h; exact ⟨σ, rfl, I⟩
  | cons i r ih =>
    intro σ0 σ S S' I hal h
    simp only [symExec] at h
    obtain ⟨S1, h1, h2⟩ := Option.bind_eq_some_iff.mp h
    obtain ⟨σ1, e1, I1⟩ := symStep_sound i I hal h1
    obtain ⟨σ', e2, I2⟩ := ih I1 hal h2
    exact ⟨σ', by simp only [exec, e1, Option.bind, e2], I2⟩

end Xdsl.RiscV.TV
