import XdslProofs.Lemmas.ParallelMovSym
/-!
Lemmas for C20: the move graph of a well-formed parallel move (edges, `pred`, `outIdx`, counting).
-/
namespace Xdsl.ParallelMov

open Env

/-- What `ParallelMovOp.verify_` guarantees and what "designated free" means:
non-`zero` destinations are pairwise distinct; a designated free register is not `zero` and is
neither read nor written by the parallel move. -/
structure WF (e : Env) : Prop where
  dstDistinct : e.moves.Pairwise (fun a b => a.dst = b.dst → a.dst = Reg.zero)
  freeOk : ∀ f ∈ e.free, f ≠ Reg.zero ∧ ∀ m ∈ e.moves, m.src ≠ f ∧ m.dst ≠ f

/-- `s → d` is an edge of the move graph: an operand that is neither a self-move nor a move into `zero`. -/
def Edge (e : Env) (s d : Reg) : Prop :=
  ∃ m ∈ e.moves, m.src = s ∧ m.dst = d ∧ s ≠ d ∧ d ≠ Reg.zero

theorem isEdge_iff (m : Move) : isEdge m = true ↔ m.src ≠ m.dst ∧ m.dst ≠ Reg.zero := by
  simp [isEdge]

theorem Edge.ne {e : Env} {s d : Reg} (h : Edge e s d) : s ≠ d := by
  obtain ⟨m, _, _, _, h, _⟩ := h; exact h

theorem Edge.dst_ne_zero {e : Env} {s d : Reg} (h : Edge e s d) : d ≠ Reg.zero := by
  obtain ⟨m, _, _, _, _, h⟩ := h; exact h

/-- Two operands with the same non-zero destination are the same operand. -/
theorem pairwise_unique {l : List Move}
    (h : l.Pairwise (fun a b => a.dst = b.dst → a.dst = Reg.zero))
    {a b : Move} (ha : a ∈ l) (hb : b ∈ l) (hd : a.dst = b.dst) (hz : a.dst ≠ Reg.zero) : a = b := by
  induction l with
  | nil => simp at ha
  | cons x t ih =>
    rw [List.pairwise_cons] at h
    rcases List.mem_cons.mp ha with ha' | ha'
    · rcases List.mem_cons.mp hb with hb' | hb'
      · rw [ha', hb']
      · subst ha'; exact absurd (h.1 b hb' hd) hz
    · rcases List.mem_cons.mp hb with hb' | hb'
      · subst hb'; exact absurd (h.1 a ha' hd.symm) (by rw [← hd]; exact hz)
      · exact ih h.2 ha' hb'

theorem WF.dst_unique {e : Env} (w : WF e) {a b : Move} (ha : a ∈ e.moves) (hb : b ∈ e.moves)
    (hd : a.dst = b.dst) (hz : a.dst ≠ Reg.zero) : a = b :=
  pairwise_unique w.dstDistinct ha hb hd hz

theorem Edge.src_unique {e : Env} (w : WF e) {s s' d : Reg} (h : Edge e s d) (h' : Edge e s' d) :
    s = s' := by
  obtain ⟨m, hm, rfl, rfl, _, hz⟩ := h
  obtain ⟨m', hm', rfl, hd, _, _⟩ := h'
  rw [w.dst_unique hm hm' hd.symm hz]

/-! ### `pred` -/

theorem pred_some_edge {e : Env} {d s : Reg} (h : e.pred d = some s) : Edge e s d := by
  unfold Env.pred at h
  cases hf : e.moves.reverse.find? (fun m => isEdge m && m.dst = d) with
  | none => simp [hf] at h
  | some m =>
    rw [hf] at h
    simp only [Option.map_some, Option.some.injEq] at h
    have hp := List.find?_some hf
    have hm := List.mem_reverse.mp (List.mem_of_find?_eq_some hf)
    simp only [Bool.and_eq_true, decide_eq_true_eq] at hp
    obtain ⟨he, hd⟩ := hp
    rw [isEdge_iff] at he
    exact ⟨m, hm, h, hd, by rw [← h, ← hd]; exact he.1, by rw [← hd]; exact he.2⟩

theorem edge_pred {e : Env} (w : WF e) {d s : Reg} (h : Edge e s d) : e.pred d = some s := by
  cases hp : e.pred d with
  | none =>
    unfold Env.pred at hp
    simp only [Option.map_eq_none_iff, List.find?_eq_none] at hp
    obtain ⟨m, hm, hs, hd, hne, hz⟩ := h
    exact absurd (by simp [isEdge, hs, hd, hne, hz]) (hp m (List.mem_reverse.mpr hm))
  | some s' => rw [Edge.src_unique w (pred_some_edge hp) h]

theorem pred_eq_some_iff {e : Env} (w : WF e) {d s : Reg} : e.pred d = some s ↔ Edge e s d :=
  ⟨pred_some_edge, edge_pred w⟩

theorem pred_none_iff {e : Env} (w : WF e) {d : Reg} : e.pred d = none ↔ ∀ s, ¬ Edge e s d := by
  constructor
  · intro h s hs; rw [edge_pred w hs] at h; cases h
  · intro h
    cases hp : e.pred d with
    | none => rfl
    | some s => exact absurd (pred_some_edge hp) (h s)

/-! ### `outIdx` -/

theorem outIdx_some {e : Env} {d : Reg} {i : Nat} (h : e.outIdx d = some i) :
    ∃ m, e.moves[i]? = some m ∧ m.dst = d := by
  unfold Env.outIdx at h
  cases hf : e.moves.zipIdx.reverse.find? (fun p => p.1.dst = d) with
  | none => simp [hf] at h
  | some p =>
    rw [hf] at h
    simp only [Option.map_some, Option.some.injEq] at h
    have hp := List.find?_some hf
    have hm := List.mem_reverse.mp (List.mem_of_find?_eq_some hf)
    rw [List.mem_zipIdx_iff_getElem?] at hm
    simp only [decide_eq_true_eq] at hp
    exact ⟨p.1, by rw [← h]; exact hm, hp⟩

theorem outIdx_isSome {e : Env} {d : Reg} {m : Move} (hm : m ∈ e.moves) (hd : m.dst = d) :
    ∃ i, e.outIdx d = some i := by
  cases h : e.outIdx d with
  | some i => exact ⟨i, rfl⟩
  | none =>
    unfold Env.outIdx at h
    simp only [Option.map_eq_none_iff, List.find?_eq_none] at h
    obtain ⟨i, hi⟩ := List.mem_iff_getElem?.mp hm
    have : (m, i) ∈ e.moves.zipIdx := by rw [List.mem_zipIdx_iff_getElem?]; exact hi
    exact absurd (by simp [hd]) (h (m, i) (List.mem_reverse.mpr this))

/-- index-level uniqueness of non-zero destinations -/
theorem pairwise_idx_unique {l : List Move}
    (h : l.Pairwise (fun a b => a.dst = b.dst → a.dst = Reg.zero))
    {i j : Nat} {a b : Move} (ha : l[i]? = some a) (hb : l[j]? = some b) (hd : a.dst = b.dst)
    (hz : a.dst ≠ Reg.zero) : i = j := by
  induction l generalizing i j with
  | nil => simp at ha
  | cons x t ih =>
    rw [List.pairwise_cons] at h
    cases i with
    | zero =>
      cases j with
      | zero => rfl
      | succ j =>
        simp only [List.getElem?_cons_zero, Option.some.injEq] at ha
        simp only [List.getElem?_cons_succ] at hb
        subst ha
        exact absurd (h.1 b (List.mem_of_getElem? hb) hd) hz
    | succ i =>
      cases j with
      | zero =>
        simp only [List.getElem?_cons_zero, Option.some.injEq] at hb
        simp only [List.getElem?_cons_succ] at ha
        subst hb
        exact absurd (h.1 a (List.mem_of_getElem? ha) hd.symm) (by rw [← hd]; exact hz)
      | succ j =>
        simp only [List.getElem?_cons_succ] at ha hb
        rw [ih h.2 ha hb]

theorem WF.outIdx_eq {e : Env} (w : WF e) {i : Nat} {m : Move} (hm : e.moves[i]? = some m)
    (hz : m.dst ≠ Reg.zero) : e.outIdx m.dst = some i := by
  obtain ⟨j, hj⟩ := outIdx_isSome (List.mem_of_getElem? hm) rfl
  obtain ⟨m', hm', hd⟩ := outIdx_some hj
  rw [hj, pairwise_idx_unique w.dstDistinct hm' hm hd (by rw [hd]; exact hz)]

/-! ### `enum` -/

theorem mem_enum {l : List Move} {i : Nat} {m : Move} : (i, m) ∈ enum l ↔ l[i]? = some m := by
  unfold enum
  simp only [List.mem_map, Prod.mk.injEq, Prod.exists]
  constructor
  · rintro ⟨a, b, hab, rfl, rfl⟩
    exact List.mem_zipIdx_iff_getElem?.mp hab
  · intro h
    exact ⟨m, i, List.mem_zipIdx_iff_getElem?.mpr h, rfl, rfl⟩

/-! ### counting unprocessed out-edges -/

/-- number of edges out of `s` whose destination is not in `P` -/
def cnt (e : Env) (P : List Reg) (s : Reg) : Nat :=
  e.moves.countP fun m => isEdge m && m.src = s && !P.contains m.dst

theorem cnt_eq_zero_iff {e : Env} {P : List Reg} {s : Reg} :
    cnt e P s = 0 ↔ ∀ x, Edge e s x → x ∈ P := by
  unfold cnt
  rw [List.countP_eq_zero]
  constructor
  · intro h x ⟨m, hm, hs, hd, hne, hz⟩
    have := h m hm
    have he : isEdge m = true := by rw [isEdge_iff, hs, hd]; exact ⟨hne, hz⟩
    simp only [he, hs, hd, decide_true, Bool.and_self, Bool.true_and, Bool.not_eq_true',
      Bool.not_eq_false, Bool.not_not, List.contains_eq_mem, decide_eq_true_eq] at this
    exact this
  · intro h m hm
    simp only [Bool.and_eq_true, decide_eq_true_eq, Bool.not_eq_true', List.contains_eq_mem,
      decide_eq_false_iff_not, not_and, Decidable.not_not]
    intro ⟨he, hs⟩
    rw [isEdge_iff] at he
    exact h m.dst ⟨m, hm, hs, rfl, by rw [← hs]; exact he.1, he.2⟩

theorem cnt_pos_iff {e : Env} {P : List Reg} {s : Reg} :
    0 < cnt e P s ↔ ∃ x, Edge e s x ∧ x ∉ P := by
  constructor
  · intro h
    unfold cnt at h
    rw [List.countP_pos_iff] at h
    obtain ⟨m, hm, hp⟩ := h
    simp only [Bool.and_eq_true, decide_eq_true_eq, Bool.not_eq_true', List.contains_eq_mem,
      decide_eq_false_iff_not] at hp
    obtain ⟨⟨he, hs⟩, hn⟩ := hp
    rw [isEdge_iff] at he
    exact ⟨m.dst, ⟨m, hm, hs, rfl, by rw [← hs]; exact he.1, he.2⟩, hn⟩
  · rintro ⟨x, hx, hn⟩
    rw [Nat.pos_iff_ne_zero, ne_eq, cnt_eq_zero_iff]
    exact fun h => hn (h x hx)

/-- processing the edge `s → d` (adding `d` to `P`) decrements the count of `s` and of nothing else -/
theorem countP_add {l : List Move}
    (hD : l.Pairwise (fun a b => a.dst = b.dst → a.dst = Reg.zero))
    {P : List Reg} {s d : Reg} {m : Move} (hm : m ∈ l) (hms : m.src = s) (hmd : m.dst = d)
    (hne : s ≠ d) (hz : d ≠ Reg.zero) (hP : d ∉ P) (s' : Reg) :
    l.countP (fun m => isEdge m && m.src = s' && !P.contains m.dst)
      = l.countP (fun m => isEdge m && m.src = s' && !(d :: P).contains m.dst)
        + (if s' = s then 1 else 0) := by
  induction l with
  | nil => simp at hm
  | cons x t ih =>
    rw [List.pairwise_cons] at hD
    rw [List.countP_cons, List.countP_cons]
    rcases List.mem_cons.mp hm with hx | hx
    · -- the head is the edge itself: no other element of the tail has destination `d`
      subst hx
      have htail : t.countP (fun m => isEdge m && m.src = s' && !P.contains m.dst)
          = t.countP (fun m => isEdge m && m.src = s' && !(d :: P).contains m.dst) := by
        apply List.countP_congr
        intro y hy
        have hyd : y.dst ≠ d := by
          intro e
          exact hz (by rw [← hmd]; exact hD.1 y hy (by rw [hmd, e]))
        simp [hyd]
      rw [htail]
      have he : isEdge m = true := by rw [isEdge_iff, hms, hmd]; exact ⟨hne, hz⟩
      by_cases hs : s' = s
      · subst hs
        simp [he, hms, hmd, hP]
      · have : ¬ m.src = s' := by rw [hms]; exact fun e => hs e.symm
        simp [this, hs]
    · have := ih hD.2 hx
      rw [this]
      have hxd : x.dst ≠ d := by
        intro e
        exact hz (by rw [← e]; exact hD.1 m hx (by rw [hmd, e]))
      have : (isEdge x && decide (x.src = s') && !P.contains x.dst)
          = (isEdge x && decide (x.src = s') && !(d :: P).contains x.dst) := by
        simp [hxd]
      rw [this]
      omega

theorem cnt_add {e : Env} (w : WF e) {P : List Reg} {s d : Reg} (h : Edge e s d) (hP : d ∉ P)
    (s' : Reg) : cnt e P s' = cnt e (d :: P) s' + (if s' = s then 1 else 0) := by
  obtain ⟨m, hm, hs, hd, hne, hz⟩ := h
  exact countP_add w.dstDistinct hm hs hd hne hz hP s'

/-- monotonicity: processing more destinations never increases a count -/
theorem cnt_mono {e : Env} {P Q : List Reg} (h : ∀ x ∈ P, x ∈ Q) (s : Reg) : cnt e Q s ≤ cnt e P s := by
  unfold cnt
  apply List.countP_mono_left
  intro m _
  simp only [Bool.and_eq_true, decide_eq_true_eq, Bool.not_eq_true', List.contains_eq_mem,
    decide_eq_false_iff_not, and_imp]
  intro he hs hq
  exact ⟨⟨he, hs⟩, fun hp => hq (h _ hp)⟩

end Xdsl.ParallelMov
