import XdslModel.PyInt
import XdslModel.Generated.Comparisons
import Mathlib.Data.Int.Bitwise
/-!
Bridge lemmas: the Python-integer primitives emitted by the translator vs. core/Mathlib notions, and
the two normalisation functions of `xdsl/utils/comparisons.py` (as translated) vs. `BitVec`.
-/
namespace Xdsl.Py

theorem mod_eq_emod (x m : Int) (hm : 0 ≤ m) : Py.mod x m = x % m :=
  Int.fmod_eq_emod_of_nonneg x hm

theorem floordiv_eq_ediv (x m : Int) (hm : 0 ≤ m) : Py.floordiv x m = x / m :=
  Int.fdiv_eq_ediv_of_nonneg x hm

@[simp] theorem shl_one_nat (w : Nat) : Py.shl 1 (w : Int) = (2 : Int) ^ w := by
  simp [Py.shl]

theorem shl_nat (a : Int) (w : Nat) : Py.shl a (w : Int) = a * (2 : Int) ^ w := by
  simp [Py.shl]

theorem shr_nat (a : Int) (k : Nat) : Py.shr a (k : Int) = a / (2 : Int) ^ k := by
  simp only [Py.shr, Int.toNat_natCast]
  exact Int.fdiv_eq_ediv_of_nonneg a (Int.pow_nonneg (by omega))

theorem shr_one (a : Int) : Py.shr a 1 = a / 2 := by
  have := shr_nat a 1
  simpa using this

theorem land_eq (a b : Int) : Py.land a b = Int.land a b := by
  cases a <;> cases b <;> rfl

theorem lor_eq (a b : Int) : Py.lor a b = Int.lor a b := by
  cases a <;> cases b <;> rfl

theorem xor_eq (a b : Int) : Py.xor a b = Int.xor a b := by
  cases a <;> cases b <;> rfl

end Xdsl.Py

namespace Xdsl.Generated.Comparisons
open Xdsl

theorem unsigned_upper_bound_eq (w : Nat) : unsigned_upper_bound (w : Int) = (2 : Int) ^ w := by
  simp [unsigned_upper_bound]

theorem pow_half (w : Nat) (hw : 0 < w) : (2 : Int) ^ w = 2 * ((2 : Int) ^ w / 2) := by
  cases w with
  | zero => omega
  | succ n => rw [Int.pow_succ]; omega

/-- `to_unsigned x w` is the unsigned value of the `w`-bit pattern of `x`. -/
theorem to_unsigned_eq (x : Int) (w : Nat) :
    to_unsigned x (w : Int) = ((BitVec.ofInt w x).toNat : Int) := by
  have hpos : (0 : Int) < 2 ^ w := Int.pow_pos (by omega)
  simp only [to_unsigned, unsigned_upper_bound_eq, BitVec.toNat_ofInt]
  rw [Py.mod_eq_emod _ _ (Int.le_of_lt hpos)]
  have e : (((2 : Nat) ^ w : Nat) : Int) = 2 ^ w := by push_cast; rfl
  rw [e, Int.toNat_of_nonneg (Int.emod_nonneg _ (Int.ne_of_gt hpos))]
  simp

/-- `to_signed x w` is the two's-complement value of the `w`-bit pattern of `x`. -/
theorem to_signed_eq (x : Int) (w : Nat) :
    to_signed x (w : Int) = (BitVec.ofInt w x).toInt := by
  have hpos : (0 : Int) < 2 ^ w := Int.pow_pos (by omega)
  simp only [to_signed, unsigned_upper_bound_eq, Py.shr_one, BitVec.toInt_ofInt]
  rw [Py.mod_eq_emod _ _ (Int.le_of_lt hpos)]
  cases w with
  | zero => simp [Int.bmod]
  | succ n =>
    have h2 : (2 : Int) ^ (n + 1) = 2 * 2 ^ n := by rw [Int.pow_succ]; omega
    have hp : (0 : Int) < 2 ^ n := Int.pow_pos (by omega)
    rw [Int.bmod_def]
    have e1 : (2 : Int) ^ (n + 1) / 2 = 2 ^ n := by rw [h2]; omega
    have e2 : (((2 : Nat) ^ (n + 1) : Nat) : Int) = 2 * 2 ^ n := by push_cast; exact h2
    rw [e1]
    simp only [e2, h2]
    have e3 : (2 * (2 : Int) ^ n + 1) / 2 = 2 ^ n := by omega
    rw [e3]
    generalize (2 : Int) ^ n = h at *
    have hr := Int.emod_nonneg x (show (2 * h) ≠ 0 by omega)
    have hr2 := Int.emod_lt_of_pos x (show 0 < 2 * h by omega)
    rw [Int.add_emod]
    have hh : h % (2 * h) = h := Int.emod_eq_of_lt (by omega) (by omega)
    rw [hh]
    generalize x % (2 * h) = r at *
    split
    · rw [Int.emod_eq_of_lt (by omega) (by omega)]; omega
    · have : (r + h) % (2 * h) = r + h - 2 * h := by
        rw [← Int.sub_emod_right]
        exact Int.emod_eq_of_lt (by omega) (by omega)
      rw [this]; omega

end Xdsl.Generated.Comparisons
