import XdslProofs.Lemmas.DeclFormatBuild
/-!
C05: assembling stage 1 and stage 2.
-/
namespace Xdsl.DeclFormat
set_option linter.unusedSimpArgs false

/-- `attr-dict` side condition on the instance -/
def attrDictDisj (op : OpInst) : SDir → Prop
  | .attrDict _ _ exp => ∀ n, n ∈ exp → AL.get op.attrs n = none
  | _ => True

/-- the dictionaries of the instance are dictionaries (no duplicate keys), no attribute is named like
a property that the attr-dict carries, and every entry that is not at its default has a directive
(or the attr-dict) responsible for it -/
structure CoversDicts (D : Defs) (fmt : List Dir) (op : OpInst) : Prop where
  nodupP : (op.props.map Prod.fst).Nodup
  nodupA : (op.attrs.map Prod.fst).Nodup
  disj : ∀ d ∈ allS fmt, attrDictDisj op d
  covered : ∀ isProp n v, dictGet isProp op n = some v → defaultOf D isProp n ≠ some v →
    ∃ d ∈ allS fmt, coversS D isProp n d = true

theorem soundDir_exec (D : Defs) (op : OpInst) (fmt : List Dir) (K : List Cls)
    (hwf : wfD fmt K = true) (hv : ValidD D op fmt) (hc : CoversDicts D fmt op) :
    ∀ d ∈ execS op fmt, soundDir op d := by
  have hdict : ∀ d ∈ allS fmt, ∀ w res exp, d = SDir.attrDict w res exp → soundDir op d := by
    intro d hd w res exp he
    subst he
    exact ⟨hc.nodupP, hc.nodupA, hc.disj _ hd⟩
  clear hc
  induction fmt with
  | nil => intro d hd; cases hd
  | cons x xs ih =>
    cases x with
    | s x =>
      intro d hd
      simp only [execS, List.mem_cons] at hd
      rcases hd with rfl | hd
      · cases d with
        | unitAttr name ip u =>
          simp only [wfD, Bool.and_eq_true] at hwf
          have := hwf.1.1
          simp [okTop] at this
        | attrDict w res exp => exact hdict _ (List.mem_cons_self ..) w res exp rfl
        | _ => trivial
      · exact ih (wfD_tail' hwf) hv.2 (fun y hy => hdict y (List.mem_cons_of_mem _ hy)) d hd
    | group a f r e =>
      intro d hd
      have hwf0 := hwf
      simp only [wfD, Bool.and_eq_true] at hwf
      obtain ⟨⟨⟨⟨⟨⟨⟨⟨⟨hfirst, _⟩, _⟩, _⟩, _⟩, hinge⟩, _⟩, _⟩, _⟩, _⟩ := hwf
      obtain ⟨_, _, hcons, hv4⟩ := hv
      simp only [execS, List.mem_append] at hd
      rcases hd with hd | hd
      · have hall : d ∈ allS (Dir.group a f r e :: xs) := by
          simp only [allS, List.mem_append]
          by_cases hp : presentS op a = true
          · simp only [hp, if_true] at hd; exact Or.inl (Or.inl hd)
          · simp only [hp, if_false, Bool.false_eq_true] at hd
            rcases List.mem_cons.mp hd with h | h
            · exact Or.inl (Or.inl (h ▸ List.mem_cons_self ..))
            · exact Or.inl (Or.inr h)
        cases d with
        | unitAttr name ip u =>
          by_cases hp : presentS op a = true
          · simp only [hp, if_true] at hd
            simp only [GroupCons, hp, if_true] at hcons
            exact hcons.2 _ hd
          · simp only [hp, if_false, Bool.false_eq_true] at hd
            rcases List.mem_cons.mp hd with h | h
            · rw [← h] at hfirst; simp [okFirst] at hfirst
            · have := mem_all hinge h
              simp at this
        | attrDict w res exp => exact hdict _ hall w res exp rfl
        | _ => trivial
      · exact ih (wfD_tail' hwf0) hv4 (fun y hy => hdict y (by
          simp only [allS, List.mem_append]; exact Or.inr hy)) d hd

/-- equivalence of two instances modulo declared defaults -/
structure Equiv (D : Defs) (a b : OpInst) : Prop where
  operands : a.operands = b.operands
  operandTys : a.operandTys = b.operandTys
  resultTys : a.resultTys = b.resultTys
  regions : a.regions = b.regions
  succs : a.succs = b.succs
  props : ∀ n, normGet D.propDefaults a.props n = normGet D.propDefaults b.props n
  attrs : ∀ n, normGet D.attrDefaults a.attrs n = normGet D.attrDefaults b.attrs n

theorem dicts_replayD (D : Defs) (op : OpInst) (fmt : List Dir) (K : List Cls)
    (hwf : wfD fmt K = true) (hv : ValidD D op fmt) (hc : CoversDicts D fmt op) :
    (∀ n, normGet D.propDefaults (replayD D op fmt {}).props n = normGet D.propDefaults op.props n) ∧
    (∀ n, normGet D.attrDefaults (replayD D op fmt {}).attrs n = normGet D.attrDefaults op.attrs n) := by
  have hdp := dp_replayD D op fmt {}
  have hsound : SoundP op (replayDictSeq D op (execS op fmt) (dp {})) :=
    soundP_replayDictSeq D op _ _ (soundDir_exec D op fmt K hwf hv hc)
      ⟨fun n v h => by simp [dp] at h, fun n v h => by simp [dp] at h⟩
  rw [← hdp] at hsound
  have hcomplete : ∀ isProp n v, dictGet isProp op n = some v → defaultOf D isProp n ≠ some v →
      HasP isProp n (dp (replayD D op fmt {})) := by
    intro isProp n v hg hnd
    obtain ⟨d, hd, hcv⟩ := hc.covered isProp n v hg hnd
    rw [hdp]
    exact hasP_final D op fmt K _ isProp n v d hwf hv hd hcv hg hnd
  refine ⟨fun n => normGet_eq (fun v h => hsound.1 n v h) (fun v hg hnd => ?_),
          fun n => normGet_eq (fun v h => hsound.2 n v h) (fun v hg hnd => ?_)⟩
  · have := hcomplete true n v (by simpa [dictGet] using hg) (by simpa [defaultOf] using hnd)
    simpa [HasP, dsel, dp] using this
  · have := hcomplete false n v (by simpa [dictGet] using hg) (by simpa [defaultOf] using hnd)
    simpa [HasP, dsel, dp] using this

end Xdsl.DeclFormat
