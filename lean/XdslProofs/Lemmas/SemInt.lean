import XdslModel.Sem
/-!
# What `Sem.intBin`, `Sem.cmpi` and `Sem.pureOp` compute, per operation name

Unfolding lemmas (all by evaluation of the string match) so that other proofs can name the `BitVec`
operation the reference semantics executes for an `arith` operation without unfolding `intBin`.
No Mathlib.
-/
namespace Xdsl.SemMeta
open Xdsl.Sem Xdsl.MiniIR

/-- the common undefined-behaviour condition of signed division-like operations -/
def sdivUB {w : Nat} (a b : BitVec w) : Bool := b == 0#w || (a == BitVec.intMin w && b == BitVec.allOnes w)

section
variable {w : Nat} (a b : BitVec w)
theorem intBin_addi : intBin "arith.addi" a b = .val (a + b) := rfl
theorem intBin_subi : intBin "arith.subi" a b = .val (a - b) := rfl
theorem intBin_muli : intBin "arith.muli" a b = .val (a * b) := rfl
theorem intBin_andi : intBin "arith.andi" a b = .val (a &&& b) := rfl
theorem intBin_ori : intBin "arith.ori" a b = .val (a ||| b) := rfl
theorem intBin_xori : intBin "arith.xori" a b = .val (a ^^^ b) := rfl
theorem intBin_shli : intBin "arith.shli" a b = if b.toNat ≥ w then .ub else .val (a <<< b.toNat) := rfl
theorem intBin_shrui : intBin "arith.shrui" a b = if b.toNat ≥ w then .ub else .val (a >>> b.toNat) := rfl
theorem intBin_shrsi :
    intBin "arith.shrsi" a b = if b.toNat ≥ w then .ub else .val (a.sshiftRight b.toNat) := rfl
theorem intBin_divui : intBin "arith.divui" a b = if b == 0#w then .ub else .val (a / b) := rfl
theorem intBin_remui : intBin "arith.remui" a b = if b == 0#w then .ub else .val (a % b) := rfl
theorem intBin_divsi : intBin "arith.divsi" a b = if sdivUB a b then .ub else .val (a.sdiv b) := rfl
theorem intBin_remsi : intBin "arith.remsi" a b = if sdivUB a b then .ub else .val (a.srem b) := rfl
theorem intBin_floordivsi :
    intBin "arith.floordivsi" a b
      = if sdivUB a b then .ub else .val (BitVec.ofInt w (Int.fdiv a.toInt b.toInt)) := rfl
theorem intBin_ceildivsi :
    intBin "arith.ceildivsi" a b
      = if sdivUB a b then .ub else .val (BitVec.ofInt w (-(Int.fdiv (-a.toInt) b.toInt))) := rfl
theorem intBin_ceildivui :
    intBin "arith.ceildivui" a b
      = if b == 0#w then .ub else .val (BitVec.ofNat w ((a.toNat + b.toNat - 1) / b.toNat)) := rfl
theorem intBin_minsi : intBin "arith.minsi" a b = .val (if a.slt b then a else b) := rfl
theorem intBin_maxsi : intBin "arith.maxsi" a b = .val (if a.slt b then b else a) := rfl
theorem intBin_minui : intBin "arith.minui" a b = .val (if a.ult b then a else b) := rfl
theorem intBin_maxui : intBin "arith.maxui" a b = .val (if a.ult b then b else a) := rfl

theorem cmpi_eq : cmpi 0 a b = some (a == b) := rfl
theorem cmpi_ne : cmpi 1 a b = some (a != b) := rfl
theorem cmpi_slt : cmpi 2 a b = some (a.slt b) := rfl
theorem cmpi_sle : cmpi 3 a b = some (a.sle b) := rfl
theorem cmpi_sgt : cmpi 4 a b = some (b.slt a) := rfl
theorem cmpi_sge : cmpi 5 a b = some (b.sle a) := rfl
theorem cmpi_ult : cmpi 6 a b = some (a.ult b) := rfl
theorem cmpi_ule : cmpi 7 a b = some (a.ule b) := rfl
theorem cmpi_ugt : cmpi 8 a b = some (b.ult a) := rfl
theorem cmpi_uge : cmpi 9 a b = some (b.ule a) := rfl
end

/-- `pureOp` on two integers of one width is `intBin` of the operation's name, for every operation
other than `arith.cmpi` -/
theorem pureOp_int_bin (o : Op) {w : Nat} (a b : BitVec w) (h : o.name ≠ "arith.cmpi") :
    pureOp o [.int w a, .int w b] =
      match intBin o.name a b with
      | .val v => .ok [.int w v]
      | .ub => .ub o.name
      | .unknown => .err s!"unsupported op {o.name}" := by
  unfold pureOp
  dsimp only
  split
  all_goals try (simp_all; done)
  · rename_i heq _
    simp only [List.cons.injEq, Val.int.injEq, and_true] at heq
    obtain ⟨⟨rfl, h1⟩, rfl, h2⟩ := heq
    cases h1; cases h2
    simp only [↓reduceDIte]
    cases intBin o.name a b <;> rfl
  · rename_i hx _ _ _ _ _ _ _ _ _ _
    exact (hx w a w b rfl).elim

/-- the program-level oracle returns the value `intBin` computes -/
theorem pureOp_of_intBin_val (o : Op) {w : Nat} (a b v : BitVec w) (h : o.name ≠ "arith.cmpi")
    (hv : intBin o.name a b = .val v) : pureOp o [.int w a, .int w b] = .ok [.int w v] := by
  rw [pureOp_int_bin o a b h, hv]

/-- … and reports undefined behaviour exactly when `intBin` does -/
theorem pureOp_of_intBin_ub (o : Op) {w : Nat} (a b : BitVec w) (h : o.name ≠ "arith.cmpi")
    (hv : intBin o.name a b = .ub) : pureOp o [.int w a, .int w b] = .ub o.name := by
  rw [pureOp_int_bin o a b h, hv]

/-- `pureOp` on `arith.cmpi` is `Sem.cmpi` of the predicate attribute -/
theorem pureOp_cmpi (o : Op) {w : Nat} (a b : BitVec w) (p : Int) (t : Ty) (h : o.name = "arith.cmpi")
    (hp : o.attr? "predicate" = some (.int p t)) :
    pureOp o [.int w a, .int w b] =
      match cmpi p a b with
      | some r => .ok [.int 1 (if r then 1#1 else 0#1)]
      | none => .err "cmpi predicate" := by
  unfold pureOp
  dsimp only
  split
  all_goals try (simp_all; done)
  · rename_i heq
    simp only [List.cons.injEq, Val.int.injEq, and_true] at heq
    obtain ⟨⟨rfl, h1⟩, rfl, h2⟩ := heq
    cases h1; cases h2
    simp only [↓reduceDIte, hp]
    cases cmpi p a b <;> rfl
  · rename_i hx _ _ _ _ _ _ _ _ _ _
    exact (hx w a w b rfl).elim

end Xdsl.SemMeta
