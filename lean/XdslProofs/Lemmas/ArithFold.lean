import XdslProofs.Lemmas.ArithInterp
import XdslModel.Generated.BuiltinInt
import XdslModel.Generated.ArithPyOps
/-!
Helper lemmas for C14: `IntegerType.normalized_value` (as translated from `xdsl/dialects/builtin.py`,
signless case) is the two's-complement representative of the `w`-bit pattern.
-/
namespace Xdsl.C14
open Xdsl Xdsl.Generated Xdsl.Generated.Comparisons Xdsl.Generated.BuiltinInt

theorem signed_upper_bound_eq (w : Nat) (hw : 1 ≤ w) :
    signed_upper_bound (w : Int) = (2 : Int) ^ (w - 1) := by
  have : Py.max ((w : Int) - 1) 0 = ((w - 1 : Nat) : Int) := by
    simp only [Py.max]; split <;> omega
  simp only [signed_upper_bound, this, Py.shl_one_nat]

theorem signed_lower_bound_eq (w : Nat) (hw : 1 ≤ w) :
    signed_lower_bound (w : Int) = -(2 : Int) ^ (w - 1) := by
  simp only [signed_lower_bound, Py.shl_one_nat, Py.shr_one]
  obtain ⟨n, rfl⟩ : ∃ n, w = n + 1 := ⟨w - 1, by omega⟩
  rw [Int.pow_succ]; simp

/-- uniqueness of the two's-complement representative: an integer congruent to `v` modulo `2^w`
that lies in the signed range is `(BitVec.ofInt w v).toInt`. -/
theorem toInt_unique (w : Nat) (hw : 1 ≤ w) (v r : Int) (hc : r % 2 ^ w = v % 2 ^ w)
    (hlo : -(2 : Int) ^ (w - 1) ≤ r) (hhi : r < (2 : Int) ^ (w - 1)) :
    r = (BitVec.ofInt w v).toInt := by
  have e : BitVec.ofInt w v = BitVec.ofInt w r := by
    apply BitVec.eq_of_toNat_eq
    simp only [BitVec.toNat_ofInt]
    have : (((2 : Nat) ^ w : Nat) : Int) = (2 : Int) ^ w := by push_cast; rfl
    rw [this, hc]
  obtain ⟨n, rfl⟩ : ∃ n, w = n + 1 := ⟨w - 1, by omega⟩
  have h2 : (((2 : Nat) ^ (n + 1) : Nat) : Int) = 2 * 2 ^ n := by push_cast; rw [Int.pow_succ]; omega
  simp only [Nat.add_sub_cancel] at hlo hhi
  rw [e, BitVec.toInt_ofInt]
  symm
  apply Int.bmod_eq_of_le <;> rw [h2] <;> omega

/-- `IntegerType.normalized_value(v, truncate_bits=t)` for a signless type of width `w ≥ 1`: when
truncation is requested, or `v` already lies in the signless range `[-2^(w-1), 2^w)`, the result is
the two's-complement value of the `w`-bit pattern of `v`. -/
theorem normalized_eq (w : Nat) (hw : 1 ≤ w) (v : Int) (t : Bool)
    (h : t = true ∨ (-(2 : Int) ^ (w - 1) ≤ v ∧ v < (2 : Int) ^ w)) :
    normalized_value_signless (w : Int) v t = some (BitVec.ofInt w v).toInt := by
  have hpos : (0 : Int) < 2 ^ w := Int.pow_pos (by omega)
  have hm : (2 : Int) ^ w = 2 * 2 ^ (w - 1) := by
    obtain ⟨n, rfl⟩ : ∃ n, w = n + 1 := ⟨w - 1, by omega⟩
    rw [Int.pow_succ]; simp; omega
  simp only [normalized_value_signless, signless_value_range, signed_lower_bound_eq w hw,
    unsigned_upper_bound_eq, signed_upper_bound_eq w hw, Int.toNat_natCast]
  rw [Py.mod_eq_emod _ _ (Int.le_of_lt hpos)]
  have hr0 := Int.emod_nonneg v (Int.ne_of_gt hpos)
  have hr1 := Int.emod_lt_of_pos v hpos
  have c1 : (v % 2 ^ w) % 2 ^ w = v % 2 ^ w := Int.emod_emod_of_dvd _ (Int.dvd_refl _)
  have c2 : (v % 2 ^ w - 2 ^ w) % 2 ^ w = v % 2 ^ w := by rw [Int.sub_emod_right, c1]
  have c3 : (v - 2 ^ w) % 2 ^ w = v % 2 ^ w := Int.sub_emod_right _ _
  generalize hh : (2 : Int) ^ (w - 1) = k at *
  simp only [decide_eq_true_eq, if_true]
  split
  · rename_i hout
    simp only [Bool.not_eq_true', Bool.and_eq_false_iff, decide_eq_false_iff_not] at hout
    have ht : t = true := by
      rcases h with h | h
      · exact h
      · omega
    subst ht
    simp only [Bool.not_true, Bool.false_eq_true, if_false]
    split
    · congr 1; apply toInt_unique w hw <;> (try rw [hh]) <;> first | exact c2 | omega
    · congr 1; apply toInt_unique w hw <;> (try rw [hh]) <;> first | exact c1 | omega
  · rename_i hin
    simp only [Bool.not_eq_true', Bool.and_eq_false_iff, decide_eq_false_iff_not, not_or,
      Decidable.not_not] at hin
    split
    · congr 1; apply toInt_unique w hw <;> (try rw [hh]) <;> first | exact c3 | omega
    · congr 1; apply toInt_unique w hw <;> (try rw [hh]) <;> first | rfl | omega

/-- without truncation a value outside the signless range is refused -/
theorem normalized_none (w : Nat) (hw : 1 ≤ w) (v : Int)
    (h : v < -(2 : Int) ^ (w - 1) ∨ (2 : Int) ^ w ≤ v) :
    normalized_value_signless (w : Int) v false = none := by
  simp only [normalized_value_signless, signless_value_range, signed_lower_bound_eq w hw,
    unsigned_upper_bound_eq]
  have : (!(decide (-(2 : Int) ^ (w - 1) ≤ v) && decide (v < (2 : Int) ^ w))) = true := by
    simp only [Bool.not_eq_true', Bool.and_eq_false_iff, decide_eq_false_iff_not]; omega
  simp [this]

/-- `IntegerAttr(1, iw).value.data` denotes the bit pattern `1` (it is `-1` for `i1`). -/
theorem ofInt_normalized_one (w : Nat) (hw : 1 ≤ w) :
    BitVec.ofInt w (ArithPyOps.normalized_one (w : Int)) = 1#w := by
  have h1 : (1 : Int) < 2 ^ w := by
    obtain ⟨n, rfl⟩ : ∃ n, w = n + 1 := ⟨w - 1, by omega⟩
    have : (0 : Int) < 2 ^ n := Int.pow_pos (by omega)
    rw [Int.pow_succ]; omega
  have h0 : -(2 : Int) ^ (w - 1) ≤ 1 := by
    have : (0 : Int) < 2 ^ (w - 1) := Int.pow_pos (by omega)
    omega
  simp only [ArithPyOps.normalized_one, normalized_eq w hw 1 false (Or.inr ⟨h0, h1⟩), Option.getD_some,
    BitVec.ofInt_toInt]
  rfl

end Xdsl.C14
