import XdslModel.DCE
import XdslProofs.Lemmas.PostOrder
/-!
Lemmas for C13: one liveness pass only grows the live set; what a pass visits (`vcells`); the least
live set `LV`; the invariant "every member of the live set is justified" and the closure of the live
set once a pass adds nothing.
-/
namespace Xdsl.DCE
open Xdsl.Graph

/-! ## a pass only adds elements at the front -/

theorem foldl_grow {β : Type} (f : List Nat → β → List Nat)
    (hf : ∀ l b, ∃ new, f l b = new ++ l) (bs : List β) :
    ∀ l, ∃ new, bs.foldl f l = new ++ l := by
  induction bs with
  | nil => intro l; exact ⟨[], rfl⟩
  | cons b bs ih =>
    intro l
    obtain ⟨n1, h1⟩ := hf l b
    obtain ⟨n2, h2⟩ := ih (f l b)
    refine ⟨n2 ++ n1, ?_⟩
    rw [List.foldl_cons, h2, h1, List.append_assoc]

theorem pass_grow (root : T) (t : T) : ∀ sel live, ∃ new, pass root t sel live = new ++ live := by
  induction t with
  | nil => intro sel live; exact ⟨[], by simp [pass]⟩
  | op h rs next ihr ihn =>
    intro sel live
    obtain ⟨n1, h1⟩ := ihn none live
    simp only [pass]
    rw [h1]
    split
    · obtain ⟨n2, h2⟩ := ihr none (n1 ++ live)
      exact ⟨n2 ++ n1, by rw [h2]; simp⟩
    · split
      · obtain ⟨n2, h2⟩ := ihr none (h.id :: (n1 ++ live))
        exact ⟨n2 ++ h.id :: n1, by rw [h2]; simp⟩
      · exact ⟨n1, rfl⟩
  | block ops next iho ihn =>
    intro sel live
    match sel with
    | none => exact ⟨[], by simp [pass]⟩
    | some 0 => simpa [pass] using iho none live
    | some (k + 1) => simpa [pass] using ihn (some k) live
  | region bs next ihb ihn =>
    intro sel live
    simp only [pass]
    obtain ⟨n1, h1⟩ := foldl_grow (fun l b => pass root bs (some b) l)
      (fun l b => ihb (some b) l) (reachSet bs) live
    obtain ⟨n2, h2⟩ := ihn none ((reachSet bs).foldl (fun l b => pass root bs (some b) l) live)
    exact ⟨n2 ++ n1, by rw [h2, h1]; simp⟩

/-! ## what a pass visits, the least live set -/

/-- all operation cells of the tree (pre-order, as `allHdrs`) -/
def allCells : T → List (Hdr × T)
  | .nil => []
  | .op h rs next => (h, rs) :: (allCells rs ++ allCells next)
  | .block ops next => allCells ops ++ allCells next
  | .region bs next => allCells bs ++ allCells next

/-- the operation cells a pass run on `t` handles itself (those of nested regions are handled by
the recursive call, if the operation is live): operations of reachable blocks -/
def vcells : T → Option Nat → List (Hdr × T)
  | .nil, _ => []
  | .op h rs next, _ => (h, rs) :: vcells next none
  | .block ops _, some 0 => vcells ops none
  | .block _ next, some (k + 1) => vcells next (some k)
  | .block _ _, none => []
  | .region bs next, _ => (reachSet bs).flatMap (fun b => vcells bs (some b)) ++ vcells next none

/-- **The least live set.**  An operation of a reachable block of the top region, or of a region of
a live operation, is live when it is not would-be-trivially-dead or when an operation using one of
its results is live. -/
inductive LV (P : T) : Hdr → T → Prop
  | base_top {h rs} : (h, rs) ∈ vcells P none → wbd h rs = false → LV P h rs
  | base_in {h rs h' rs'} : LV P h' rs' → (h, rs) ∈ vcells rs' none → wbd h rs = false → LV P h rs
  | user_top {h rs u urs} : (h, rs) ∈ vcells P none → LV P u urs → h.id ∈ u.operands → LV P h rs
  | user_in {h rs h' rs' u urs} : LV P h' rs' → (h, rs) ∈ vcells rs' none → LV P u urs →
      h.id ∈ u.operands → LV P h rs

/-- the operation is visited: it sits in a reachable block of the top region or of a region of a
live operation -/
def Vis (P : T) (c : Hdr × T) : Prop :=
  c ∈ vcells P none ∨ ∃ h' rs', LV P h' rs' ∧ c ∈ vcells rs' none

def LiveId (P : T) (i : Nat) : Prop := ∃ h rs, LV P h rs ∧ h.id = i

theorem LV.of_vis_base {P : T} {h : Hdr} {rs : T} (hv : Vis P (h, rs)) (hw : wbd h rs = false) :
    LV P h rs := by
  rcases hv with hv | ⟨h', rs', hl, hv⟩
  · exact .base_top hv hw
  · exact .base_in hl hv hw

theorem LV.of_vis_user {P : T} {h u : Hdr} {rs urs : T} (hv : Vis P (h, rs)) (hu : LV P u urs)
    (hm : h.id ∈ u.operands) : LV P h rs := by
  rcases hv with hv | ⟨h', rs', hl, hv⟩
  · exact .user_top hv hu hm
  · exact .user_in hl hv hu hm

theorem LV.vis {P : T} {h : Hdr} {rs : T} (hl : LV P h rs) : Vis P (h, rs) := by
  cases hl with
  | base_top hv _ => exact Or.inl hv
  | base_in hl' hv _ => exact Or.inr ⟨_, _, hl', hv⟩
  | user_top hv _ _ => exact Or.inl hv
  | user_in hl' hv _ _ => exact Or.inr ⟨_, _, hl', hv⟩

/-! ### cells, ids -/

theorem allCells_map_fst (t : T) : (allCells t).map Prod.fst = allHdrs t := by
  induction t with
  | nil => rfl
  | op h rs next ihr ihn => simp [allCells, allHdrs, ihr, ihn]
  | block ops next iho ihn => simp [allCells, allHdrs, iho, ihn]
  | region bs next ihb ihn => simp [allCells, allHdrs, ihb, ihn]

theorem mem_allHdrs_of_cell {t : T} {h : Hdr} {rs : T} (hc : (h, rs) ∈ allCells t) :
    h ∈ allHdrs t := by
  rw [← allCells_map_fst]; exact List.mem_map.mpr ⟨(h, rs), hc, rfl⟩

theorem mem_allIds_of_cell {t : T} {h : Hdr} {rs : T} (hc : (h, rs) ∈ allCells t) :
    h.id ∈ allIds t :=
  List.mem_map.mpr ⟨h, mem_allHdrs_of_cell hc, rfl⟩

theorem vcells_sub (t : T) : ∀ sel c, c ∈ vcells t sel → c ∈ allCells t := by
  induction t with
  | nil => intro sel c hc; simp [vcells] at hc
  | op h rs next ihr ihn =>
    intro sel c hc
    simp only [vcells, List.mem_cons] at hc
    rcases hc with rfl | hc
    · simp [allCells]
    · simp only [allCells, List.mem_cons, List.mem_append]
      exact Or.inr (Or.inr (ihn none c hc))
  | block ops next iho ihn =>
    intro sel c hc
    simp only [allCells, List.mem_append]
    match sel with
    | none => simp [vcells] at hc
    | some 0 => exact Or.inl (iho none c (by simpa [vcells] using hc))
    | some (k + 1) => exact Or.inr (ihn (some k) c (by simpa [vcells] using hc))
  | region bs next ihb ihn =>
    intro sel c hc
    simp only [vcells, List.mem_append, List.mem_flatMap] at hc
    simp only [allCells, List.mem_append]
    rcases hc with ⟨b, _, hc⟩ | hc
    · exact Or.inl (ihb (some b) c hc)
    · exact Or.inr (ihn none c hc)

/-- cells of the regions of a cell of `t` are cells of `t` -/
theorem allCells_nested (t : T) : ∀ h rs c, (h, rs) ∈ allCells t → c ∈ allCells rs → c ∈ allCells t := by
  induction t with
  | nil => intro h rs c hc; simp [allCells] at hc
  | op h0 rs0 next ihr ihn =>
    intro h rs c hc hin
    simp only [allCells, List.mem_cons, List.mem_append] at hc ⊢
    rcases hc with heq | hc | hc
    · cases heq; exact Or.inr (Or.inl hin)
    · exact Or.inr (Or.inl (ihr h rs c hc hin))
    · exact Or.inr (Or.inr (ihn h rs c hc hin))
  | block ops next iho ihn =>
    intro h rs c hc hin
    simp only [allCells, List.mem_append] at hc ⊢
    rcases hc with hc | hc
    · exact Or.inl (iho h rs c hc hin)
    · exact Or.inr (ihn h rs c hc hin)
  | region bs next ihb ihn =>
    intro h rs c hc hin
    simp only [allCells, List.mem_append] at hc ⊢
    rcases hc with hc | hc
    · exact Or.inl (ihb h rs c hc hin)
    · exact Or.inr (ihn h rs c hc hin)

theorem LV.mem {P : T} {h : Hdr} {rs : T} (hl : LV P h rs) : (h, rs) ∈ allCells P := by
  induction hl with
  | base_top hv _ => exact vcells_sub _ _ _ hv
  | base_in _ hv _ ih => exact allCells_nested _ _ _ _ ih (vcells_sub _ _ _ hv)
  | user_top hv _ _ _ => exact vcells_sub _ _ _ hv
  | user_in _ hv _ _ ih _ => exact allCells_nested _ _ _ _ ih (vcells_sub _ _ _ hv)

theorem Vis.mem {P : T} {c : Hdr × T} (hv : Vis P c) : c ∈ allCells P := by
  rcases hv with hv | ⟨h', rs', hl, hv⟩
  · exact vcells_sub _ _ _ hv
  · exact allCells_nested _ _ _ _ hl.mem (vcells_sub _ _ _ hv)

theorem inj_of_nodup_map {α β : Type} (f : α → β) : ∀ (l : List α), (l.map f).Nodup →
    ∀ x ∈ l, ∀ y ∈ l, f x = f y → x = y := by
  intro l
  induction l with
  | nil => intro _ x hx; cases hx
  | cons a l ih =>
    intro hnd x hx y hy hxy
    simp only [List.map_cons, List.nodup_cons, List.mem_map, not_exists, not_and] at hnd
    rcases List.mem_cons.mp hx with hxa | hx' <;> rcases List.mem_cons.mp hy with hya | hy'
    · rw [hxa, hya]
    · exact absurd (by rw [← hxa, hxy]) (hnd.1 y hy')
    · exact absurd (by rw [← hya, hxy]) (hnd.1 x hx')
    · exact ih hnd.2 x hx' y hy' hxy

/-- with unique ids, an id names one operation cell -/
theorem cell_unique {P : T} (hnd : (allIds P).Nodup) {c d : Hdr × T} (hc : c ∈ allCells P)
    (hd : d ∈ allCells P) (hid : c.1.id = d.1.id) : c = d := by
  have h : ((allCells P).map fun c => c.1.id).Nodup := by
    have : ((allCells P).map fun c => c.1.id) = allIds P := by
      unfold allIds; rw [← allCells_map_fst, List.map_map]; rfl
    rw [this]; exact hnd
  exact inj_of_nodup_map (fun c : Hdr × T => c.1.id) _ h c hc d hd hid

/-- every member of the live set is justified -/
def Just (P : T) (live : List Nat) : Prop := ∀ i ∈ live, LiveId P i

theorem Just.lv {P : T} (hnd : (allIds P).Nodup) {live : List Nat} (hj : Just P live) {h : Hdr} {rs : T}
    (hv : Vis P (h, rs)) (hm : h.id ∈ live) : LV P h rs := by
  obtain ⟨h2, rs2, hl, hid⟩ := hj _ hm
  have := cell_unique hnd hl.mem hv.mem hid
  cases this; exact hl

theorem hasLiveUser_iff {root : T} {live : List Nat} {i : Nat} :
    hasLiveUser root live i = true ↔ ∃ u ∈ allHdrs root, i ∈ u.operands ∧ u.id ∈ live := by
  simp [hasLiveUser]

theorem foldl_inv {β : Type} (f : List Nat → β → List Nat) (Q : List Nat → Prop) (bs : List β)
    (hf : ∀ l, ∀ b ∈ bs, Q l → Q (f l b)) : ∀ l, Q l → Q (bs.foldl f l) := by
  induction bs with
  | nil => intro l h; exact h
  | cons b bs ih =>
    intro l h
    exact ih (fun l b hb => hf l b (List.mem_cons_of_mem _ hb)) _ (hf l b (by simp) h)

/-- a pass keeps the live set justified -/
theorem pass_just {P : T} (hnd : (allIds P).Nodup) (t : T) :
    ∀ sel live, (∀ c ∈ vcells t sel, Vis P c) → Just P live → Just P (pass P t sel live) := by
  induction t with
  | nil => intro sel live _ hj; simpa [pass] using hj
  | op h rs next ihr ihn =>
    intro sel live hv hj
    have hvn : ∀ c ∈ vcells next none, Vis P c := fun c hc => hv c (by simp [vcells, hc])
    have hvh : Vis P (h, rs) := hv _ (by simp [vcells])
    have hj1 := ihn none live hvn hj
    simp only [pass]
    split
    · rename_i hc
      have hl : LV P h rs := hj1.lv hnd hvh (by simpa using hc)
      exact ihr none _ (fun c hc => Or.inr ⟨h, rs, hl, hc⟩) hj1
    · split
      · rename_i hc hcond
        have hl : LV P h rs := by
          simp only [Bool.or_eq_true, Bool.not_eq_true'] at hcond
          rcases hcond with hw | hu
          · exact .of_vis_base hvh hw
          · obtain ⟨u, hu, hop, hul⟩ := hasLiveUser_iff.mp hu
            obtain ⟨u2, urs, hlu, hid⟩ := hj1 _ hul
            -- the live user is an operation cell of P with that id
            obtain ⟨cu, hcu, hfst⟩ := List.mem_map.mp (by rw [allCells_map_fst]; exact hu :
              u ∈ (allCells P).map Prod.fst)
            have := cell_unique hnd hlu.mem hcu (by rw [hfst]; exact hid)
            cases this
            cases hfst
            exact .of_vis_user hvh hlu hop
        refine ihr none _ (fun c hc => Or.inr ⟨h, rs, hl, hc⟩) ?_
        intro i hi
        rcases List.mem_cons.mp hi with rfl | hi
        · exact ⟨h, rs, hl, rfl⟩
        · exact hj1 i hi
      · exact hj1
  | block ops next iho ihn =>
    intro sel live hv hj
    match sel with
    | none => simpa [pass] using hj
    | some 0 => simpa [pass] using iho none live (by simpa [vcells] using hv) hj
    | some (k + 1) => simpa [pass] using ihn (some k) live (by simpa [vcells] using hv) hj
  | region bs next ihb ihn =>
    intro sel live hv hj
    simp only [pass]
    refine ihn none _ (fun c hc => hv c (by simp [vcells, hc])) ?_
    refine foldl_inv (fun l b => pass P bs (some b) l) (Just P) (reachSet bs) ?_ live hj
    intro l b hb hl
    exact ihb (some b) l (fun c hc => hv c (by
      simp only [vcells, List.mem_append, List.mem_flatMap]; exact Or.inl ⟨b, hb, hc⟩)) hl

/-! ## a pass that adds nothing: the live set is closed -/

/-- the live set is closed under the two liveness rules on everything a pass visits from `t` -/
def Closed (P : T) (live : List Nat) : T → Option Nat → Prop
  | .nil, _ => True
  | .op h rs next, _ =>
    Closed P live next none
      ∧ ((wbd h rs = false ∨ hasLiveUser P live h.id = true) → h.id ∈ live)
      ∧ (h.id ∈ live → Closed P live rs none)
  | .block ops _, some 0 => Closed P live ops none
  | .block _ next, some (k + 1) => Closed P live next (some k)
  | .block _ _, none => True
  | .region bs next, _ => (∀ b ∈ reachSet bs, Closed P live bs (some b)) ∧ Closed P live next none

theorem append_eq_self {α : Type} {n l : List α} (h : n ++ l = l) : n = [] := by
  have := congrArg List.length h
  simp at this
  exact this

theorem foldl_fix {β : Type} (f : List Nat → β → List Nat)
    (hf : ∀ l b, ∃ new, f l b = new ++ l) (bs : List β) (l : List Nat)
    (h : bs.foldl f l = l) : ∀ b ∈ bs, f l b = l := by
  induction bs with
  | nil => intro b hb; cases hb
  | cons b bs ih =>
    obtain ⟨n1, h1⟩ := hf l b
    obtain ⟨n2, h2⟩ := foldl_grow f hf bs (f l b)
    rw [List.foldl_cons, h2, h1, ← List.append_assoc] at h
    have h0 := append_eq_self h
    have hn1 : n1 = [] := by
      cases n1 with
      | nil => rfl
      | cons a n1 => cases n2 <;> simp at h0
    have hfb : f l b = l := by rw [h1, hn1]; rfl
    intro b' hb'
    rcases List.mem_cons.mp hb' with rfl | hb'
    · exact hfb
    · refine ih ?_ b' hb'
      have h3 : List.foldl f l (b :: bs) = l := by
        rw [List.foldl_cons, h2, h1, ← List.append_assoc, h0]; rfl
      rw [List.foldl_cons, hfb] at h3
      exact h3

theorem pass_fix {P : T} (t : T) : ∀ sel live, pass P t sel live = live → Closed P live t sel := by
  induction t with
  | nil => intro sel live _; trivial
  | op h rs next ihr ihn =>
    intro sel live hp
    obtain ⟨n1, h1⟩ := pass_grow P next none live
    simp only [pass] at hp
    rw [h1] at hp
    split at hp
    · rename_i hc
      obtain ⟨n2, h2⟩ := pass_grow P rs none (n1 ++ live)
      rw [h2, ← List.append_assoc] at hp
      have h0 := append_eq_self hp
      have hn1 : n1 = [] := by
        cases n1 with
        | nil => rfl
        | cons a n1 => cases n2 <;> simp at h0
      have hn2 : n2 = [] := by subst hn1; simpa using h0
      subst hn1; subst hn2
      simp only [List.nil_append] at h1 h2 hc
      have hm : h.id ∈ live := by simpa using hc
      exact ⟨ihn none live h1, fun _ => hm, fun _ => ihr none live h2⟩
    · split at hp
      · obtain ⟨n2, h2⟩ := pass_grow P rs none (h.id :: (n1 ++ live))
        rw [h2] at hp
        have : (n2 ++ h.id :: n1) ++ live = live := by simpa using hp
        have h0 := append_eq_self this
        cases n2 <;> simp at h0
      · rename_i hc hcond
        have hn1 : n1 = [] := append_eq_self hp
        subst hn1
        simp only [List.nil_append] at h1 hc hcond
        have hm : h.id ∉ live := by simpa using hc
        refine ⟨ihn none live h1, ?_, fun hx => absurd hx hm⟩
        intro hor
        exfalso; apply hcond
        simp only [Bool.or_eq_true, Bool.not_eq_true']
        exact hor
  | block ops next iho ihn =>
    intro sel live hp
    match sel with
    | none => trivial
    | some 0 => exact iho none live (by simpa [pass] using hp)
    | some (k + 1) => exact ihn (some k) live (by simpa [pass] using hp)
  | region bs next ihb ihn =>
    intro sel live hp
    simp only [pass] at hp
    obtain ⟨n1, h1⟩ := foldl_grow (fun l b => pass P bs (some b) l)
      (fun l b => pass_grow P bs (some b) l) (reachSet bs) live
    obtain ⟨n2, h2⟩ := pass_grow P next none ((reachSet bs).foldl (fun l b => pass P bs (some b) l) live)
    rw [h2, h1, ← List.append_assoc] at hp
    have h0 := append_eq_self hp
    have hn1 : n1 = [] := by
      cases n1 with
      | nil => rfl
      | cons a n1 => cases n2 <;> simp at h0
    have hn2 : n2 = [] := by subst hn1; simpa using h0
    subst hn1; subst hn2
    simp only [List.nil_append] at h1 h2
    rw [h1] at h2
    refine ⟨?_, ihn none live h2⟩
    intro b hb
    exact ihb (some b) live (foldl_fix (fun l b => pass P bs (some b) l)
      (fun l b => pass_grow P bs (some b) l) (reachSet bs) live h1 b hb)

theorem closed_mem {P : T} {live : List Nat} (t : T) : ∀ sel, Closed P live t sel →
    ∀ h rs, (h, rs) ∈ vcells t sel →
      ((wbd h rs = false ∨ hasLiveUser P live h.id = true) → h.id ∈ live)
      ∧ (h.id ∈ live → Closed P live rs none) := by
  induction t with
  | nil => intro sel _ h rs hc; simp [vcells] at hc
  | op h0 rs0 next ihr ihn =>
    intro sel hcl h rs hc
    simp only [vcells, List.mem_cons] at hc
    obtain ⟨c1, c2, c3⟩ := hcl
    rcases hc with heq | hc
    · cases heq; exact ⟨c2, c3⟩
    · exact ihn none c1 h rs hc
  | block ops next iho ihn =>
    intro sel hcl h rs hc
    match sel with
    | none => simp [vcells] at hc
    | some 0 => exact iho none hcl h rs (by simpa [vcells] using hc)
    | some (k + 1) => exact ihn (some k) hcl h rs (by simpa [vcells] using hc)
  | region bs next ihb ihn =>
    intro sel hcl h rs hc
    simp only [vcells, List.mem_append, List.mem_flatMap] at hc
    rcases hc with ⟨b, hb, hc⟩ | hc
    · exact ihb (some b) (hcl.1 b hb) h rs hc
    · exact ihn none hcl.2 h rs hc

/-- a closed live set contains the least live set -/
theorem LV.sub_closed {P : T} {live : List Nat} (hcl : Closed P live P none) {h : Hdr} {rs : T}
    (hl : LV P h rs) : h.id ∈ live ∧ Closed P live rs none := by
  induction hl with
  | base_top hv hw =>
    have := closed_mem P none hcl _ _ hv
    have hm := this.1 (Or.inl hw)
    exact ⟨hm, this.2 hm⟩
  | base_in _ hv hw ih =>
    have := closed_mem _ none ih.2 _ _ hv
    have hm := this.1 (Or.inl hw)
    exact ⟨hm, this.2 hm⟩
  | user_top hv hu hop ihu =>
    have := closed_mem P none hcl _ _ hv
    have hm := this.1 (Or.inr (hasLiveUser_iff.mpr ⟨_, mem_allHdrs_of_cell hu.mem, hop, ihu.1⟩))
    exact ⟨hm, this.2 hm⟩
  | user_in _ hv hu hop ih ihu =>
    have := closed_mem _ none ih.2 _ _ hv
    have hm := this.1 (Or.inr (hasLiveUser_iff.mpr ⟨_, mem_allHdrs_of_cell hu.mem, hop, ihu.1⟩))
    exact ⟨hm, this.2 hm⟩

/-! ## the `while changed` loop -/

@[simp] theorem allIds_nil : allIds .nil = [] := rfl
@[simp] theorem allIds_op (h : Hdr) (rs next : T) :
    allIds (.op h rs next) = h.id :: (allIds rs ++ allIds next) := by simp [allIds, allHdrs]
@[simp] theorem allIds_block (ops next : T) :
    allIds (.block ops next) = allIds ops ++ allIds next := by simp [allIds, allHdrs]
@[simp] theorem allIds_region (bs next : T) :
    allIds (.region bs next) = allIds bs ++ allIds next := by simp [allIds, allHdrs]

theorem pass_nodup (P : T) (t : T) : ∀ sel live, live.Nodup → (pass P t sel live).Nodup := by
  induction t with
  | nil => intro sel live h; simpa [pass] using h
  | op h rs next ihr ihn =>
    intro sel live hn
    have h1 := ihn none live hn
    simp only [pass]
    split
    · exact ihr none _ h1
    · split
      · rename_i hc _
        refine ihr none _ (List.nodup_cons.mpr ⟨by simpa using hc, h1⟩)
      · exact h1
  | block ops next iho ihn =>
    intro sel live hn
    match sel with
    | none => simpa [pass] using hn
    | some 0 => simpa [pass] using iho none live hn
    | some (k + 1) => simpa [pass] using ihn (some k) live hn
  | region bs next ihb ihn =>
    intro sel live hn
    simp only [pass]
    exact ihn none _ (foldl_inv (fun l b => pass P bs (some b) l) List.Nodup (reachSet bs)
      (fun l b _ hl => ihb (some b) l hl) live hn)

theorem pass_sub (P : T) (Q : Nat → Prop) (t : T) : ∀ sel live, (∀ i ∈ allIds t, Q i) →
    (∀ i ∈ live, Q i) → ∀ i ∈ pass P t sel live, Q i := by
  induction t with
  | nil => intro sel live _ h; simpa [pass] using h
  | op h rs next ihr ihn =>
    intro sel live ht hl
    simp only [allIds_op, List.mem_cons, List.mem_append] at ht
    have h1 := ihn none live (fun i hi => ht i (Or.inr (Or.inr hi))) hl
    have hr : ∀ i ∈ allIds rs, Q i := fun i hi => ht i (Or.inr (Or.inl hi))
    simp only [pass]
    split
    · exact ihr none _ hr h1
    · split
      · refine ihr none _ hr ?_
        intro i hi
        rcases List.mem_cons.mp hi with rfl | hi
        · exact ht _ (Or.inl rfl)
        · exact h1 i hi
      · exact h1
  | block ops next iho ihn =>
    intro sel live ht hl
    simp only [allIds_block, List.mem_append] at ht
    match sel with
    | none => simpa [pass] using hl
    | some 0 => simpa [pass] using iho none live (fun i hi => ht i (Or.inl hi)) hl
    | some (k + 1) => simpa [pass] using ihn (some k) live (fun i hi => ht i (Or.inr hi)) hl
  | region bs next ihb ihn =>
    intro sel live ht hl
    simp only [allIds_region, List.mem_append] at ht
    simp only [pass]
    refine ihn none _ (fun i hi => ht i (Or.inr hi)) ?_
    exact foldl_inv (fun l b => pass P bs (some b) l) (fun l => ∀ i ∈ l, Q i) (reachSet bs)
      (fun l b _ h => ihb (some b) l (fun i hi => ht i (Or.inl hi)) h) live hl

/-- pigeonhole: a duplicate-free list inside `m` is not longer than `m` -/
theorem nodup_sub_length : ∀ (l m : List Nat), l.Nodup → (∀ x ∈ l, x ∈ m) → l.length ≤ m.length := by
  intro l
  induction l with
  | nil => intro m _ _; simp
  | cons a l ih =>
    intro m hn hs
    have ha : a ∈ m := hs a (by simp)
    have hn' := List.nodup_cons.mp hn
    have := ih (m.erase a) hn'.2 (fun x hx => by
      have hne : x ≠ a := fun h => hn'.1 (h ▸ hx)
      exact (List.mem_erase_of_ne hne).mpr (hs x (List.mem_cons_of_mem _ hx)))
    rw [List.length_erase_of_mem ha] at this
    have hpos : 0 < m.length := List.length_pos_of_mem ha
    simp only [List.length_cons]
    omega

theorem vcells_top_vis (P : T) : ∀ c ∈ vcells P none, Vis P c := fun _ hc => Or.inl hc

theorem liveLoop_spec {P : T} (hnd : (allIds P).Nodup) : ∀ fuel live n, live.Nodup →
    (∀ i ∈ live, i ∈ allIds P) → Just P live → (allIds P).length < fuel + live.length →
    (liveLoop P fuel live n).2.2 = true
      ∧ pass P P none (liveLoop P fuel live n).1 = (liveLoop P fuel live n).1
      ∧ Just P (liveLoop P fuel live n).1 := by
  intro fuel
  induction fuel with
  | zero =>
    intro live n hn hs _ hlt
    have := nodup_sub_length live (allIds P) hn hs
    omega
  | succ fuel ih =>
    intro live n hn hs hj hlt
    obtain ⟨new, hnew⟩ := pass_grow P P none live
    have hn' := pass_nodup P P none live hn
    have hs' := pass_sub P (· ∈ allIds P) P none live (fun i hi => hi) hs
    have hj' := pass_just hnd P none live (vcells_top_vis P) hj
    simp only [liveLoop]
    split
    · rename_i heq
      have hl : (pass P P none live).length = live.length := by simpa using heq
      have hnil : new = [] := by
        rw [hnew] at hl
        simp at hl
        exact hl
      have hfix : pass P P none live = live := by rw [hnew, hnil]; rfl
      refine ⟨rfl, ?_, ?_⟩
      · show pass P P none (pass P P none live) = pass P P none live
        rw [hfix, hfix]
      · exact hj'
    · rename_i hne
      have hl : (pass P P none live).length ≠ live.length := by simpa using hne
      have hgt : live.length < (pass P P none live).length := by
        rw [hnew] at hl ⊢
        simp at hl ⊢
        cases new with
        | nil => simp at hl
        | cons a new => simp
      exact ih _ _ hn' hs' hj' (by omega)

theorem length_allIds (P : T) : (allIds P).length = (allHdrs P).length := by simp [allIds]

theorem liveSet_spec {P : T} (hnd : (allIds P).Nodup) :
    pass P P none (liveSet P) = liveSet P ∧ Just P (liveSet P) := by
  have := liveLoop_spec hnd ((allHdrs P).length + 1) [] 0 List.nodup_nil (by simp)
    (fun i hi => by cases hi) (by rw [length_allIds]; simp)
  exact ⟨this.2.1, this.2.2⟩

/-- the `while changed` loop ends within `#operations + 1` passes -/
theorem liveLoop_converges {P : T} (hnd : (allIds P).Nodup) :
    (liveLoop P ((allHdrs P).length + 1) [] 0).2.2 = true :=
  (liveLoop_spec hnd ((allHdrs P).length + 1) [] 0 List.nodup_nil (by simp)
    (fun i hi => by cases hi) (by rw [length_allIds]; simp)).1

theorem liveSet_closed {P : T} (hnd : (allIds P).Nodup) : Closed P (liveSet P) P none :=
  pass_fix P none _ (liveSet_spec hnd).1

/-- the live set computed by the loop is the least live set -/
theorem live_iff {P : T} (hnd : (allIds P).Nodup) (i : Nat) : i ∈ liveSet P ↔ LiveId P i := by
  constructor
  · exact fun h => (liveSet_spec hnd).2 i h
  · rintro ⟨h, rs, hl, rfl⟩
    exact (hl.sub_closed (liveSet_closed hnd)).1

end Xdsl.DCE
