import XdslProofs.Lemmas.ClonePhase2
/-!
C02 helper lemmas, part 6: a follow-up edit addressed to an identity that does not occur in a tree
leaves that tree unchanged.
-/
namespace Xdsl.Clone

/-- the identity (op, block, or dict object) an edit is addressed to -/
def Edit.target : Edit → Nat
  | .setOperand id _ _ => id
  | .eraseOp id => id
  | .addBlockArg id _ _ => id
  | .setDict r _ _ => r

theorem setOperand_frame {k : Kind} (id i v : Nat) (t : T k) (h : id ∉ ids t) :
    setOperand id i v t = t := by
  induction t with
  | nil => rfl
  | op hd rs nx ih1 ih2 =>
    simp only [ids, hdrIds, List.mem_append, List.mem_cons, not_or] at h
    have : ¬ hd.id = id := fun e => h.1.1 e.symm
    simp only [setOperand, this, if_false, ih1 h.2.1, ih2 h.2.2]
  | region bs nx ih1 ih2 =>
    simp only [ids, List.mem_append, not_or] at h
    simp only [setOperand, ih1 h.1, ih2 h.2]
  | block hd ops nx ih1 ih2 =>
    simp only [ids, List.mem_append, not_or] at h
    simp only [setOperand, ih1 h.2.1, ih2 h.2.2]

theorem eraseOp_frame {k : Kind} (id : Nat) (t : T k) (h : id ∉ ids t) : eraseOp id t = t := by
  induction t with
  | nil => rfl
  | op hd rs nx ih1 ih2 =>
    simp only [ids, hdrIds, List.mem_append, List.mem_cons, not_or] at h
    have : ¬ hd.id = id := fun e => h.1.1 e.symm
    simp only [eraseOp, this, if_false, ih1 h.2.1, ih2 h.2.2]
  | region bs nx ih1 ih2 =>
    simp only [ids, List.mem_append, not_or] at h
    simp only [eraseOp, ih1 h.1, ih2 h.2]
  | block hd ops nx ih1 ih2 =>
    simp only [ids, List.mem_append, not_or] at h
    simp only [eraseOp, ih1 h.2.1, ih2 h.2.2]

theorem addBlockArg_frame {k : Kind} (id v ty : Nat) (t : T k) (h : id ∉ ids t) :
    addBlockArg id v ty t = t := by
  induction t with
  | nil => rfl
  | op hd rs nx ih1 ih2 =>
    simp only [ids, List.mem_append, not_or] at h
    simp only [addBlockArg, ih1 h.2.1, ih2 h.2.2]
  | region bs nx ih1 ih2 =>
    simp only [ids, List.mem_append, not_or] at h
    simp only [addBlockArg, ih1 h.1, ih2 h.2]
  | block hd ops nx ih1 ih2 =>
    simp only [ids, List.mem_append, List.mem_cons, not_or] at h
    have : ¬ hd.id = id := fun e => h.1.1 e.symm
    simp only [addBlockArg, this, if_false, ih1 h.2.1, ih2 h.2.2]

theorem setDict_frame {k : Kind} (r key val : Nat) (t : T k) (h : r ∉ ids t) :
    setDict r key val t = t := by
  induction t with
  | nil => rfl
  | op hd rs nx ih1 ih2 =>
    simp only [ids, hdrIds, List.mem_append, List.mem_cons, not_or] at h
    have a : ¬ hd.aref = r := fun e => h.1.2.1 e.symm
    have p : ¬ hd.pref = r := fun e => h.1.2.2.1 e.symm
    simp only [setDict, a, p, if_false, ih1 h.2.1, ih2 h.2.2]
  | region bs nx ih1 ih2 =>
    simp only [ids, List.mem_append, not_or] at h
    simp only [setDict, ih1 h.1, ih2 h.2]
  | block hd ops nx ih1 ih2 =>
    simp only [ids, List.mem_append, not_or] at h
    simp only [setDict, ih1 h.2.1, ih2 h.2.2]

theorem Edit.apply_frame {k : Kind} (e : Edit) (t : T k) (h : e.target ∉ ids t) : e.apply t = t := by
  cases e with
  | setOperand id i v => exact setOperand_frame id i v t h
  | eraseOp id => exact eraseOp_frame id t h
  | addBlockArg id v ty => exact addBlockArg_frame id v ty t h
  | setDict r key val => exact setDict_frame r key val t h

end Xdsl.Clone
