import XdslProofs.Lemmas.DCEDel
/-!
Lemmas for C13: what "`delete_dead` erased nothing" means (`AllKept`), that every block holding a
live operation is one the liveness pass visits (`AllReach`), and the termination of
`while region_dce(...)`.
-/
namespace Xdsl.DCE
open Xdsl.Graph

theorem size_del_le (live : List Nat) (t : T) : ∀ f m, size (del live t f m) ≤ size t := by
  induction t with
  | nil => intro f m; simp [del]
  | op h rs next ihr ihn =>
    intro f m
    simp only [del]
    split
    · have := ihr true []; have := ihn false m; simp only [size]; omega
    · have := ihn false m; simp only [size]; omega
  | block ops next iho ihn =>
    intro f m
    simp only [del]
    split
    · have := ihn false m; simp only [size]; omega
    · have := iho false m; have := ihn false m; simp only [size]; omega
  | region bs next ihb ihn =>
    intro f m
    have := ihb true (keepMask live bs true); have := ihn true []
    simp only [del, size]; omega

/-- nothing would be erased: every operation is live and every block but the entry block of a
region holds a live operation -/
def AllKept (live : List Nat) : T → Bool → Prop
  | .nil, _ => True
  | .op h rs next, _ => h.id ∈ live ∧ AllKept live rs true ∧ AllKept live next false
  | .block ops next, first =>
    (first = true ∨ anyLive live ops = true) ∧ AllKept live ops false ∧ AllKept live next false
  | .region bs next, _ => AllKept live bs true ∧ AllKept live next true

theorem allKept_of_size (live : List Nat) (t : T) : ∀ f m, size (del live t f m) = size t →
    AllKept live t f := by
  induction t with
  | nil => intro f m _; trivial
  | op h rs next ihr ihn =>
    intro f m hs
    simp only [del] at hs
    have h1 := size_del_le live rs true []
    have h2 := size_del_le live next false m
    split at hs
    · rename_i hc
      simp only [size] at hs
      exact ⟨by simpa using hc, ihr true [] (by omega), ihn false m (by omega)⟩
    · simp only [size] at hs; omega
  | block ops next iho ihn =>
    intro f m hs
    simp only [del] at hs
    have h1 := size_del_le live ops false m
    have h2 := size_del_le live next false m
    split at hs
    · simp only [size] at hs; omega
    · rename_i hc
      simp only [size] at hs
      refine ⟨?_, iho false m (by omega), ihn false m (by omega)⟩
      simp only [Bool.and_eq_true, Bool.not_eq_true', not_and, Bool.not_eq_false] at hc
      cases f with
      | true => exact Or.inl rfl
      | false => exact Or.inr (hc rfl)
  | region bs next ihb ihn =>
    intro f m hs
    have h1 := size_del_le live bs true (keepMask live bs true)
    have h2 := size_del_le live next true []
    simp only [del, size] at hs
    exact ⟨ihb true (keepMask live bs true) (by omega), ihn true [] (by omega)⟩

theorem allKept_ids (live : List Nat) (t : T) : ∀ f, AllKept live t f → ∀ i ∈ allIds t, i ∈ live := by
  induction t with
  | nil => intro f _ i hi; simp at hi
  | op h rs next ihr ihn =>
    intro f hk i hi
    simp only [allIds_op, List.mem_cons, List.mem_append] at hi
    rcases hi with rfl | hi | hi
    · exact hk.1
    · exact ihr true hk.2.1 i hi
    · exact ihn false hk.2.2 i hi
  | block ops next iho ihn =>
    intro f hk i hi
    simp only [allIds_block, List.mem_append] at hi
    rcases hi with hi | hi
    · exact iho false hk.2.1 i hi
    · exact ihn false hk.2.2 i hi
  | region bs next ihb ihn =>
    intro f hk i hi
    simp only [allIds_region, List.mem_append] at hi
    rcases hi with hi | hi
    · exact ihb true hk.1 i hi
    · exact ihn true hk.2 i hi

/-! ### blocks with a live operation are visited -/

/-- ids of the operations a pass can reach at all (whatever is live); on a block list: the blocks
with index `idx, idx+1, …` of a region whose iteration yields `reach` -/
def rIds : T → List Nat → Nat → List Nat
  | .nil, _, _ => []
  | .op h rs next, _, _ => h.id :: (rIds rs [] 0 ++ rIds next [] 0)
  | .block ops next, reach, idx =>
    (if reach.contains idx then rIds ops [] 0 else []) ++ rIds next reach (idx + 1)
  | .region bs next, _, _ => rIds bs (reachSet bs) 0 ++ rIds next [] 0

/-- every block except the entry block of a region is yielded by the post-order iteration from the
entry block of its region -/
def AllReach : T → Bool → List Nat → Nat → Prop
  | .nil, _, _, _ => True
  | .op _ rs next, _, _, _ => AllReach rs true [] 0 ∧ AllReach next false [] 0
  | .block ops next, first, reach, idx =>
    (first = true ∨ reach.contains idx = true) ∧ AllReach ops false [] 0
      ∧ AllReach next false reach (idx + 1)
  | .region bs next, _, _, _ => AllReach bs true (reachSet bs) 0 ∧ AllReach next true [] 0

theorem rIds_sub (t : T) : ∀ reach idx i, i ∈ rIds t reach idx → i ∈ allIds t := by
  induction t with
  | nil => intro reach idx i hi; simp [rIds] at hi
  | op h rs next ihr ihn =>
    intro reach idx i hi
    simp only [rIds, List.mem_cons, List.mem_append] at hi
    simp only [allIds_op, List.mem_cons, List.mem_append]
    rcases hi with rfl | hi | hi
    · exact Or.inl rfl
    · exact Or.inr (Or.inl (ihr _ _ i hi))
    · exact Or.inr (Or.inr (ihn _ _ i hi))
  | block ops next iho ihn =>
    intro reach idx i hi
    simp only [rIds, List.mem_append] at hi
    simp only [allIds_block, List.mem_append]
    rcases hi with hi | hi
    · split at hi
      · exact Or.inl (iho _ _ i hi)
      · cases hi
    · exact Or.inr (ihn _ _ i hi)
  | region bs next ihb ihn =>
    intro reach idx i hi
    simp only [rIds, List.mem_append] at hi
    simp only [allIds_region, List.mem_append]
    rcases hi with hi | hi
    · exact Or.inl (ihb _ _ i hi)
    · exact Or.inr (ihn _ _ i hi)

/-- what a pass visits from `t` lies in `rIds` -/
theorem rIds_vcell (t : T) : ∀ sel reach idx,
    (∀ k, sel = some k → reach.contains (idx + k) = true) → ∀ h rs, (h, rs) ∈ vcells t sel →
    h.id ∈ rIds t reach idx ∧ ∀ i ∈ rIds rs [] 0, i ∈ rIds t reach idx := by
  induction t with
  | nil => intro sel reach idx _ h rs hc; simp [vcells] at hc
  | op h0 rs0 next _ ihn =>
    intro sel reach idx _ h rs hc
    simp only [vcells, List.mem_cons] at hc
    simp only [rIds, List.mem_cons, List.mem_append]
    rcases hc with heq | hc
    · cases heq; exact ⟨Or.inl rfl, fun i hi => Or.inr (Or.inl hi)⟩
    · have := ihn none [] 0 (fun k hk => by cases hk) h rs hc
      exact ⟨Or.inr (Or.inr this.1), fun i hi => Or.inr (Or.inr (this.2 i hi))⟩
  | block ops next iho ihn =>
    intro sel reach idx hsel h rs hc
    simp only [rIds, List.mem_append]
    match sel with
    | none => simp [vcells] at hc
    | some 0 =>
      have hr : reach.contains idx = true := by simpa using hsel 0 rfl
      have := iho none [] 0 (fun k hk => by cases hk) h rs (by simpa [vcells] using hc)
      rw [if_pos hr]
      exact ⟨Or.inl this.1, fun i hi => Or.inl (this.2 i hi)⟩
    | some (k + 1) =>
      have := ihn (some k) reach (idx + 1) (fun k' hk' => by
        cases hk'
        have := hsel (k + 1) rfl
        rwa [show idx + (k + 1) = idx + 1 + k by omega] at this) h rs (by simpa [vcells] using hc)
      exact ⟨Or.inr this.1, fun i hi => Or.inr (this.2 i hi)⟩
  | region bs next ihb ihn =>
    intro sel reach idx _ h rs hc
    simp only [vcells, List.mem_append, List.mem_flatMap] at hc
    simp only [rIds, List.mem_append]
    rcases hc with ⟨b, hb, hc⟩ | hc
    · have := ihb (some b) (reachSet bs) 0 (fun k hk => by
        cases hk; simpa using hb) h rs hc
      exact ⟨Or.inl this.1, fun i hi => Or.inl (this.2 i hi)⟩
    · have := ihn none [] 0 (fun k hk => by cases hk) h rs hc
      exact ⟨Or.inr this.1, fun i hi => Or.inr (this.2 i hi)⟩

theorem LV.rIds {P : T} {h : Hdr} {rs : T} (hl : LV P h rs) :
    h.id ∈ rIds P [] 0 ∧ ∀ i ∈ rIds rs [] 0, i ∈ rIds P [] 0 := by
  induction hl with
  | base_top hv _ => exact rIds_vcell P none [] 0 (fun k hk => by cases hk) _ _ hv
  | base_in _ hv _ ih =>
    have := rIds_vcell _ none [] 0 (fun k hk => by cases hk) _ _ hv
    exact ⟨ih.2 _ this.1, fun i hi => ih.2 _ (this.2 i hi)⟩
  | user_top hv _ _ _ => exact rIds_vcell P none [] 0 (fun k hk => by cases hk) _ _ hv
  | user_in _ hv _ _ ih _ =>
    have := rIds_vcell _ none [] 0 (fun k hk => by cases hk) _ _ hv
    exact ⟨ih.2 _ this.1, fun i hi => ih.2 _ (this.2 i hi)⟩

theorem anyLive_mem (live : List Nat) (t : T) : anyLive live t = true →
    ∃ i, i ∈ live ∧ i ∈ allIds t := by
  induction t with
  | nil => intro h; simp [anyLive] at h
  | op h rs next _ ihn =>
    intro ha
    simp only [anyLive, Bool.or_eq_true] at ha
    rcases ha with ha | ha
    · exact ⟨h.id, by simpa using ha, by simp⟩
    · obtain ⟨i, h1, h2⟩ := ihn ha
      exact ⟨i, h1, by simp [h2]⟩
  | block ops next _ _ => intro h; simp [anyLive] at h
  | region bs next _ _ => intro h; simp [anyLive] at h

theorem nodup_append_disjoint {l m : List Nat} (h : (l ++ m).Nodup) {i : Nat} (hl : i ∈ l)
    (hm : i ∈ m) : False := by
  rw [List.nodup_append] at h
  exact h.2.2 i hl i hm rfl

/-- if every live id of `t` is one a pass can reach and nothing would be erased, then every block
is one the post-order iteration yields -/
theorem allReach_of_kept (live : List Nat) (t : T) : ∀ reach idx f, (allIds t).Nodup →
    (∀ i ∈ live, i ∈ allIds t → i ∈ rIds t reach idx) → AllKept live t f →
    AllReach t f reach idx := by
  induction t with
  | nil => intro reach idx f _ _ _; trivial
  | op h rs next ihr ihn =>
    intro reach idx f hnd hsub hk
    simp only [allIds_op, List.nodup_cons] at hnd
    have hnd2 := List.nodup_append.mp hnd.2
    refine ⟨ihr [] 0 true hnd2.1 ?_ hk.2.1, ihn [] 0 false hnd2.2.1 ?_ hk.2.2⟩
    · intro i hi hin
      have := hsub i hi (by simp [hin])
      simp only [rIds, List.mem_cons, List.mem_append] at this
      rcases this with rfl | h1 | h1
      · exact absurd (List.mem_append_left _ hin) hnd.1
      · exact h1
      · exact (nodup_append_disjoint hnd.2 hin (rIds_sub _ _ _ _ h1)).elim
    · intro i hi hin
      have := hsub i hi (by simp [hin])
      simp only [rIds, List.mem_cons, List.mem_append] at this
      rcases this with rfl | h1 | h1
      · exact absurd (List.mem_append_right _ hin) hnd.1
      · exact (nodup_append_disjoint hnd.2 (rIds_sub _ _ _ _ h1) hin).elim
      · exact h1
  | block ops next iho ihn =>
    intro reach idx f hnd hsub hk
    simp only [allIds_block] at hnd
    have hnd2 := List.nodup_append.mp hnd
    have hops : ∀ i ∈ live, i ∈ allIds ops → reach.contains idx = true ∧ i ∈ rIds ops [] 0 := by
      intro i hi hin
      have := hsub i hi (by simp [hin])
      simp only [rIds, List.mem_append] at this
      rcases this with h1 | h1
      · split at h1
        · rename_i hr; exact ⟨hr, h1⟩
        · cases h1
      · exact (nodup_append_disjoint hnd hin (rIds_sub _ _ _ _ h1)).elim
    refine ⟨?_, iho [] 0 false hnd2.1 (fun i hi hin => (hops i hi hin).2) hk.2.1,
      ihn reach (idx + 1) false hnd2.2.1 ?_ hk.2.2⟩
    · rcases hk.1 with hf | ha
      · exact Or.inl hf
      · obtain ⟨i, hi, hin⟩ := anyLive_mem live ops ha
        exact Or.inr (hops i hi hin).1
    · intro i hi hin
      have := hsub i hi (by simp [hin])
      simp only [rIds, List.mem_append] at this
      rcases this with h1 | h1
      · split at h1
        · exact (nodup_append_disjoint hnd (rIds_sub _ _ _ _ h1) hin).elim
        · cases h1
      · exact h1
  | region bs next ihb ihn =>
    intro reach idx f hnd hsub hk
    simp only [allIds_region] at hnd
    have hnd2 := List.nodup_append.mp hnd
    refine ⟨ihb (reachSet bs) 0 true hnd2.1 ?_ hk.1, ihn [] 0 true hnd2.2.1 ?_ hk.2⟩
    · intro i hi hin
      have := hsub i hi (by simp [hin])
      simp only [rIds, List.mem_append] at this
      rcases this with h1 | h1
      · exact h1
      · exact (nodup_append_disjoint hnd hin (rIds_sub _ _ _ _ h1)).elim
    · intro i hi hin
      have := hsub i hi (by simp [hin])
      simp only [rIds, List.mem_append] at this
      rcases this with h1 | h1
      · exact (nodup_append_disjoint hnd (rIds_sub _ _ _ _ h1) hin).elim
      · exact h1

/-! ### `while region_dce(op.body): pass` -/

theorem dceOnce_nodup {t : T} (h : (allIds t).Nodup) : (allIds (dceOnce t).1).Nodup := by
  unfold dceOnce
  simp only
  split
  · exact h
  · rw [allIds_del]; exact (kIds_sublist _ t true).nodup h

/-- the loop ends within `size + 1` calls of `region_dce`; the last call erased nothing from the
tree it answers -/
theorem dceLoop_spec : ∀ fuel t n, (allIds t).Nodup → size t < fuel →
    (dceLoop fuel t n).2.2 = true ∧ (allIds (dceLoop fuel t n).1).Nodup
      ∧ size (del (liveSet (dceLoop fuel t n).1) (dceLoop fuel t n).1 true [])
          = size (dceLoop fuel t n).1 := by
  intro fuel
  induction fuel with
  | zero => intro t n _ h; omega
  | succ fuel ih =>
    intro t n hnd hlt
    have hle := size_del_le (liveSet t) t true []
    by_cases heq : size (del (liveSet t) t true []) = size t
    · have h1 : dceOnce t = (t, false) := by unfold dceOnce; simp [heq]
      simp only [dceLoop, h1, Bool.false_eq_true, if_false]
      exact ⟨trivial, hnd, heq⟩
    · have h1 : dceOnce t = (del (liveSet t) t true [], true) := by unfold dceOnce; simp [heq]
      have hnd' : (allIds (del (liveSet t) t true [])).Nodup := by
        have := dceOnce_nodup hnd; rwa [h1] at this
      simp only [dceLoop, h1, if_true]
      exact ih _ _ hnd' (by omega)

end Xdsl.DCE
