import XdslProofs.Lemmas.Literals
/-!
C06: the hypotheses about CPython's float formatting (`Lawful`) and the helper lemmas of
`float_tree_roundtrip`.
-/
namespace Xdsl.Literals

/-! ## floats -/

def FloatOracle.finite (O : FloatOracle) (x : O.F) : Prop := O.isNan x = false ∧ O.isInf x = false

/-- the body of a printed float after an optional leading `-` is one `FLOAT_LIT` -/
def floatLitText (s : List Char) : Prop := isFloatLit (stripMinus s).2 = true

/-- The laws of CPython (`'%.5e'`, `'%.9g'`, `'%.17g'`, `repr`, `float()`), `struct` and the xDSL
`pack`/`unpack` that `float_tree_roundtrip` assumes; each is sampled against the running
interpreter by the check. -/
structure Lawful (O : FloatOracle) : Prop where
  size_pos : ∀ ty, 0 < O.size ty
  pack_length : ∀ ty x, (O.pack ty x).length = O.size ty
  /-- `float("-" + t) = -float(t)` -/
  parse_neg : ∀ t, O.parse ('-' :: t) = O.neg (O.parse t)
  /-- `'%.5e'` has the form `-?d.ddddde±dd`: with the inserted `0` it is one float literal -/
  fmt5e_shape : ∀ x, O.finite x → floatLitText (ins0 (O.fmt5e x))
  /-- `==` on the re-read 6-digit form implies bit identity (sign of zero is kept by format/parse) -/
  fmt5e_exact : ∀ ty x, O.finite x →
    O.pyEq (O.round ty (O.parse (ins0 (O.fmt5e x)))) x = true →
    O.round ty (O.parse (ins0 (O.fmt5e x))) = x
  fmt9g_shape : ∀ x, O.finite x → (O.fmt9g x).contains '.' = true → floatLitText (O.fmt9g x)
  fmt9g_roundtrip : ∀ x, O.finite x → O.round .f32 x = x → O.round .f32 (O.parse (O.fmt9g x)) = x
  fmt17g_shape : ∀ x, O.finite x → (O.fmt17g x).contains '.' = true → floatLitText (O.fmt17g x)
  fmt17g_roundtrip : ∀ x, O.finite x → O.round .f64 x = x → O.round .f64 (O.parse (O.fmt17g x)) = x
  /-- `repr` is the shortest round-tripping form; when the 6-digit form is not exact it has a `.` -/
  repr_shape : ∀ ty x, O.finite x → O.round ty x = x →
    O.pyEq (O.round ty (O.parse (ins0 (O.fmt5e x)))) x = false → floatLitText (O.repr x)
  repr_roundtrip : ∀ ty x, O.finite x → O.round ty x = x → O.round ty (O.parse (O.repr x)) = x

theorem stripMinus_cases (s : List Char) :
    (∃ t, s = '-' :: t ∧ stripMinus s = (true, t)) ∨ stripMinus s = (false, s) := by
  unfold stripMinus
  split
  · rename_i r; exact Or.inl ⟨r, rfl, rfl⟩
  · exact Or.inr rfl

/-- a decimal float text is read back as `round ty (float(text))` -/
theorem parseFloatLit_text (O : FloatOracle) (hO : Lawful O) (ty : FTy) (s : List Char)
    (h : floatLitText s) : parseFloatLit O ty s = some (O.round ty (O.parse s)) := by
  unfold floatLitText at h
  have hl := lexNumber_floatLit _ h
  unfold parseFloatLit
  rcases stripMinus_cases s with ⟨t, rfl, hs⟩ | hs
  · rw [hs] at hl
    simp only [hs, hl, if_true, hO.parse_neg]
  · rw [hs] at hl
    simp only [hs, hl, Bool.false_eq_true, if_false]

/-- a hexadecimal bit pattern of the right size is read back as `round ty (unpack ty bytes)` -/
theorem parseFloatLit_hex (O : FloatOracle) (ty : FTy) (hs : List Char) (bs : List UInt8)
    (hne : hs ≠ []) (hall : ∀ c ∈ hs, isHexDigit c = true) (hval : ofDigits 16 hs = unpackLEU bs)
    (hlen : bs.length = O.size ty) :
    parseFloatLit O ty ('0' :: 'x' :: hs) = some (O.round ty (O.unpack ty bs)) := by
  have hl := lexNumber_hex hs hne hall
  have hsm : stripMinus ('0' :: 'x' :: hs) = (false, '0' :: 'x' :: hs) := rfl
  unfold parseFloatLit
  simp only [hsm, hl, Bool.not_false, Bool.and_true, if_true, hval]
  rw [← hlen, toBytesLE?_unpackLEU]
  rfl


theorem round_unpack_pack (O : FloatOracle) (ty : FTy) (x : O.F) (hx : O.round ty x = x) :
    O.round ty (O.unpack ty (O.pack ty x)) = x := by
  show O.round ty (O.round ty x) = x
  rw [hx, hx]

/-! ## `builtin.FloatData` -/

/-- The laws of CPython and `struct` that `floatdata_roundtrip` assumes in addition to
`Lawful.parse_neg`/`pack_length` (sampled against the running interpreter by the check):
a binary64 is 8 bytes, `struct.unpack("<d", struct.pack("<d", x))` is bit-identical to `x`
(NaN payloads and signs included), and `repr` of a finite float — with `.0` spliced in before the
exponent when it has no `.` — is one float literal that `float()` reads back bit-identically. -/
structure LawfulData (O : FloatOracle) : Prop where
  size_f64 : O.size .f64 = 8
  bits_roundtrip : ∀ x, O.unpack .f64 (O.pack .f64 x) = x
  fd_shape : ∀ x, O.finite x → floatLitText (fdText (O.repr x))
  fd_exact : ∀ x, O.finite x → O.parse (fdText (O.repr x)) = x

/-- a decimal float text is read back as `float(text)` -/
theorem parseFloatData_text (O : FloatOracle) (hO : Lawful O) (s : List Char)
    (h : floatLitText s) : parseFloatData O s = some (O.parse s) := by
  unfold floatLitText at h
  have hl := lexNumber_floatLit _ h
  unfold parseFloatData
  rcases stripMinus_cases s with ⟨t, rfl, hs⟩ | hs
  · rw [hs] at hl
    simp only [hs, hl, if_true, hO.parse_neg]
  · rw [hs] at hl
    simp only [hs, hl, Bool.false_eq_true, if_false]

/-- a hexadecimal bit pattern of 8 bytes is read back as `struct.unpack("<d", bytes)` -/
theorem parseFloatData_hex (O : FloatOracle) (hs : List Char) (bs : List UInt8)
    (hne : hs ≠ []) (hall : ∀ c ∈ hs, isHexDigit c = true) (hval : ofDigits 16 hs = unpackLEU bs)
    (hlen : bs.length = 8) :
    parseFloatData O ('0' :: 'x' :: hs) = some (O.unpack .f64 bs) := by
  have hl := lexNumber_hex hs hne hall
  have hsm : stripMinus ('0' :: 'x' :: hs) = (false, '0' :: 'x' :: hs) := rfl
  unfold parseFloatData
  simp only [hsm, hl, Bool.not_false, Bool.and_true, if_true, hval]
  rw [← hlen, toBytesLE?_unpackLEU]
  rfl

end Xdsl.Literals
