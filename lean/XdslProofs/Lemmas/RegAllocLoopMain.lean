import XdslProofs.Lemmas.RegAllocLoopGroup
import XdslProofs.Lemmas.RegAllocLoopLive
/-!
C19 (loops) helper lemmas, part 7: the allocator for blocks with loops keeps its invariant and its
result passes the validator — the induction over the block.
-/
namespace Xdsl.RegAllocLoop
open Xdsl.RegMachine Xdsl.RegAlloc

/-! ### static side conditions -/

/-- Well-formedness of a block with loops, as far as the allocator theorem needs it: SSA form and
scoping (nothing is used before or outside its definition), only `riscv_scf.for` loops (no `frep`),
no in/out instruction; the loop-carried values are local to their loop: a yielded value is not live
throughout the loop, no value is yielded twice, the bounds are not loop-carried, results are new;
and no loop-carried value is one of the zero constants. -/
def WfT (U Zc : List ValId) : LT → List ValId → Prop
  | .nil, _ => True
  | .op o next, L =>
    o.ios = [] ∧ (∀ v ∈ o.reads, v ∉ o.defs)
    ∧ (∀ v, v ∈ o.reads ∨ v ∈ o.defs → v ∉ defsT next ∧ v ∈ U) ∧ WfT U Zc next L
  | .loop h body next, L =>
    h.rep = none
    ∧ (∀ v, v ∈ h.hdr ∨ v ∈ allValsT body → v ∉ defsT next ∧ v ∈ U)
    ∧ (∀ y ∈ h.yields, y ∉ throughOf h body (liveT next L)) ∧ h.yields.Nodup
    ∧ (∀ r ∈ h.res, r ∉ h.yields ∧ r ∉ h.inits ∧ r ∉ allValsT body)
    ∧ (∀ m, m ∈ h.bound ∨ m ∈ h.inits ∨ m ∈ h.yields ∨ m ∈ h.res → m ∉ Zc)
    ∧ (∀ v ∈ h.operands, v ∉ h.bound ∧ v ∉ h.res ∧ v ∉ defsT body)
    ∧ (∀ v, v ∈ optL h.ub ∨ v ∈ optL h.step ∨ v ∈ optL h.lb → v ∉ h.inits ∧ v ∉ h.yields)
    ∧ (∀ v ∈ h.bound, v ∉ defsT body)
    ∧ (∀ v ∈ optL h.iv, v ∉ h.yields)
    ∧ (∀ v ∈ throughOf h body (liveT next L), v ∉ defsT body)
    ∧ WfT U Zc body (bodyOutOf h (throughOf h body (liveT next L))) ∧ WfT U Zc next L

/-- the assignment `a` gives every loop-carried group of the block one register -/
def TiedT (a : ValId → Reg) : LT → Prop
  | .nil => True
  | .op _ next => TiedT a next
  | .loop h body next => (∀ g ∈ h.groups, tiedB a g = true) ∧ TiedT a body ∧ TiedT a next

theorem tiedT_of_good {z : Bool} {a : ValId → Reg} : ∀ (t : LT) (Z L : List ValId),
    GoodT z a Z t L → TiedT a t := by
  intro t
  induction t with
  | nil => intro _ _ _; trivial
  | op o next ih => intro Z L h; exact ih _ _ h.1
  | loop hd body next ihb ihn => intro Z L h; exact ⟨h.2.2.1.tied, ihb _ _ h.2.1, ihn _ _ h.1⟩

/-! ### the groups of a loop, positionally -/

theorem groups_mem : ∀ (bs is ys rs : List ValId), ∀ g ∈ groups bs is ys rs,
    gB g ∈ bs ∧ gI g ∈ is ∧ gY g ∈ ys ∧ gR g ∈ rs := by
  intro bs
  induction bs with
  | nil => intro is ys rs g hg; simp [groups] at hg
  | cons b bs ih =>
    intro is ys rs g hg
    cases is with
    | nil => simp [groups] at hg
    | cons i is =>
      cases ys with
      | nil => simp [groups] at hg
      | cons y ys =>
        cases rs with
        | nil => simp [groups] at hg
        | cons r rs =>
          simp only [groups, List.mem_cons] at hg
          rcases hg with rfl | hg
          · simp [gB, gI, gY, gR]
          · obtain ⟨h1, h2, h3, h4⟩ := ih is ys rs g hg
            exact ⟨List.mem_cons_of_mem _ h1, List.mem_cons_of_mem _ h2, List.mem_cons_of_mem _ h3,
              List.mem_cons_of_mem _ h4⟩

theorem groups_maps : ∀ (bs is ys rs : List ValId), bs.length = is.length → ys.length = is.length →
    rs.length = is.length →
    (groups bs is ys rs).map gB = bs ∧ (groups bs is ys rs).map gI = is
    ∧ (groups bs is ys rs).map gY = ys ∧ (groups bs is ys rs).map gR = rs := by
  intro bs
  induction bs with
  | nil =>
    intro is ys rs h1 h2 h3
    cases is with
    | nil =>
      cases ys with
      | nil =>
        cases rs with
        | nil => simp [groups]
        | cons _ _ => simp at h3
      | cons _ _ => simp at h2
    | cons _ _ => simp at h1
  | cons b bs ih =>
    intro is ys rs h1 h2 h3
    cases is with
    | nil => simp at h1
    | cons i is =>
      cases ys with
      | nil => simp at h2
      | cons y ys =>
        cases rs with
        | nil => simp at h3
        | cons r rs =>
          obtain ⟨e1, e2, e3, e4⟩ := ih is ys rs (by simpa using h1) (by simpa using h2) (by simpa using h3)
          simp only [groups, List.map_cons, e1, e2, e3, e4]
          simp [gB, gI, gY, gR]

theorem groups_pairwise : ∀ (bs is ys rs : List ValId), rs.Nodup →
    (∀ r ∈ rs, r ∉ bs ∧ r ∉ is ∧ r ∉ ys) → (groups bs is ys rs).Pairwise (fun g g' => gR g ∉ g') := by
  intro bs
  induction bs with
  | nil => intro is ys rs _ _; simp [groups]
  | cons b bs ih =>
    intro is ys rs hnd hr
    cases is with
    | nil => simp [groups]
    | cons i is =>
      cases ys with
      | nil => simp [groups]
      | cons y ys =>
        cases rs with
        | nil => simp [groups]
        | cons r rs =>
          simp only [groups]
          refine List.pairwise_cons.2 ⟨?_, ih is ys rs (List.nodup_cons.1 hnd).2 ?_⟩
          · intro g' hg' hm
            have hr0 := hr r (List.mem_cons_self ..)
            have hsh := groups_shape bs is ys rs g' hg'
            obtain ⟨m1, m2, m3, m4⟩ := groups_mem bs is ys rs g' hg'
            have hrr : gR [b, i, y, r] = r := by simp [gR]
            rw [hrr, hsh] at hm
            simp only [List.mem_cons, List.not_mem_nil, or_false] at hm
            rcases hm with e | e | e | e
            · exact hr0.1 (e ▸ List.mem_cons_of_mem _ m1)
            · exact hr0.2.1 (e ▸ List.mem_cons_of_mem _ m2)
            · exact hr0.2.2 (e ▸ List.mem_cons_of_mem _ m3)
            · exact (List.nodup_cons.1 hnd).1 (e ▸ m4)
          · intro r' hr'
            obtain ⟨h1, h2, h3⟩ := hr r' (List.mem_cons_of_mem _ hr')
            exact ⟨fun h => h1 (List.mem_cons_of_mem _ h), fun h => h2 (List.mem_cons_of_mem _ h),
              fun h => h3 (List.mem_cons_of_mem _ h)⟩

theorem gB_mem {g : List ValId} (h : g = [gB g, gI g, gY g, gR g]) : gB g ∈ g := by
  generalize gB g = b at h ⊢
  generalize gI g = i at h
  generalize gY g = y at h
  generalize gR g = r at h
  subst h; simp

theorem gI_mem {g : List ValId} (h : g = [gB g, gI g, gY g, gR g]) : gI g ∈ g := by
  generalize gI g = i at h ⊢
  generalize gB g = b at h
  generalize gY g = y at h
  generalize gR g = r at h
  subst h; simp

theorem gY_mem {g : List ValId} (h : g = [gB g, gI g, gY g, gR g]) : gY g ∈ g := by
  generalize gY g = y at h ⊢
  generalize gB g = b at h
  generalize gI g = i at h
  generalize gR g = r at h
  subst h; simp

theorem gR_mem {g : List ValId} (h : g = [gB g, gI g, gY g, gR g]) : gR g ∈ g := by
  generalize gR g = r at h ⊢
  generalize gB g = b at h
  generalize gI g = i at h
  generalize gY g = y at h
  subst h; simp

theorem inj_of_nodup_map' {α β : Type} (f : α → β) : ∀ (l : List α), (l.map f).Nodup →
    ∀ v ∈ l, ∀ w ∈ l, f v = f w → v = w := by
  intro l
  induction l with
  | nil => intro _ v hv; simp at hv
  | cons x l ih =>
    intro hnd v hv w hw e
    simp only [List.map_cons, List.nodup_cons, List.mem_map, not_exists, not_and] at hnd
    rcases List.mem_cons.1 hv with ev | hv'
    · rcases List.mem_cons.1 hw with ew | hw'
      · exact ev.trans ew.symm
      · exact absurd (ev ▸ e.symm) (hnd.1 w hw')
    · rcases List.mem_cons.1 hw with ew | hw'
      · exact absurd (ew ▸ e) (hnd.1 v hv')
      · exact ih hnd.2 v hv' w hw' e

theorem group_tied {a : ValId → Reg} {h : Loop} (ht : ∀ g ∈ h.groups, tiedB a g = true) :
    ∀ g ∈ h.groups, a (gI g) = a (gB g) ∧ a (gY g) = a (gB g) ∧ a (gR g) = a (gB g) := by
  intro g hg
  have := ht g hg
  rw [groups_shape _ _ _ _ g hg] at this
  exact tied4 this

section Loop
variable {x : Ctx} {pre : AL ValId Reg} {A0 : List Reg} {Zc U : List ValId}
  {Tie : (ValId → Reg) → Prop} {a0 : ValId → Reg}

theorem Shadow.ext {s s' : LSt} {M M' S inits yields : List ValId}
    (h : Shadow a0 s M S inits yields) (he : LExt s s')
    (hM : ∀ w ∈ M, (AL.get s.st.asg w).isSome = true ∧ w ∈ M') : Shadow a0 s' M' S inits yields := by
  intro q hq
  obtain ⟨h1, y, hyM, hyY, h2, h3, i, hiI, h4, h5⟩ := h q hq
  have e := fun w (hw : (AL.get s.st.asg w).isSome = true) => he.allocOf hw
  have sm : ∀ w, (AL.get s.st.asg w).isSome = true → (AL.get s'.st.asg w).isSome = true := by
    intro w hw
    obtain ⟨r, hr⟩ := Option.isSome_iff_exists.1 hw
    rw [he w r hr]; rfl
  exact ⟨sm q h1, y, (hM y hyM).2, hyY, by rw [e y (hM y hyM).1, e q h1]; exact h2, h3, i, hiI, sm i h4,
    by rw [e i h4, e q h1]; exact h5⟩

/-- `reserve_registers(iter_args.types)`: from here on the block arguments and the iter_args of the
loop are protected by the reservation -/
theorem linv_reserve {s : LSt} {V M P S inits yields : List ValId}
    (hst : Static x.c pre A0 U) (hext0 : ∀ v r, AL.get pre v = some r → a0 v = r) (hTie0 : Tie a0)
    (hinv : LInv x.c pre A0 Zc Tie x.zi a0 s V M P) (hsh : Shadow a0 s M S inits yields)
    (hSnz : x.c.z = true → ∀ q ∈ S, allocOf s.st.asg q ≠ 0) (hSV : ∀ q ∈ S, q ∈ V)
    (hIS : ∀ i ∈ inits, i ∈ S) :
    LInv x.c pre A0 Zc Tie x.zi a0 ((regsOf s inits).foldl reserveR s) V M (P ++ S) := by
  have hstEq : ((regsOf s inits).foldl reserveR s).st = s.st := reserveFold_st _ _
  have hpos := reserveFold_pos (regsOf s inits) s hinv.rpos
  have hres : ∀ r, ((regsOf s inits).foldl reserveR s).isReserved r = true ↔
      (s.isReserved r = true ∨ r ∈ regsOf s inits) := by
    intro r
    rw [isReserved_iff_cnt hpos, isReserved_iff_cnt hinv.rpos, reserveFold_cnt]
    constructor
    · intro h
      by_cases h0 : 0 < s.cnt r
      · exact Or.inl h0
      · exact Or.inr (List.count_pos_iff.1 (by omega))
    · rintro (h | h)
      · omega
      · have := List.count_pos_iff.2 h; omega
  have hregs : ∀ q ∈ S, allocOf s.st.asg q ∈ regsOf s inits := by
    intro q hq
    obtain ⟨_, _, _, _, _, _, i, hiI, h4, h5⟩ := hsh q hq
    unfold regsOf
    rw [List.mem_filterMap]
    exact ⟨i, hiI, by rw [← h5]; exact get_of_isSome h4⟩
  have hheld : ∀ p ∈ P ++ S, Held pre U M P S p := by
    intro p hp
    rcases List.mem_append.1 hp with h | h
    · exact Or.inr (Or.inl h)
    · exact Or.inr (Or.inr (Or.inl h))
  have hpnz : x.c.z = true → ∀ p ∈ P ++ S, allocOf s.st.asg p ≠ 0 := by
    intro hz p hp
    rcases List.mem_append.1 hp with h | h
    · exact hinv.pnz hz p h
    · exact hSnz hz p h
  exact {
    inv := hstEq ▸ hinv.inv
    rpos := hpos
    rdisj := fun r hr => by
      rw [hstEq]
      rcases (hres r).1 hr with h | h
      · exact hinv.rdisj r h
      · unfold regsOf at h
        obtain ⟨i, hiI, hg⟩ := List.mem_filterMap.1 h
        have := held_notAvail hst hinv hsh (Or.inr (Or.inr (Or.inl (hIS i hiI))) : Held pre U M P S i)
        rwa [allocOf_of_get hg] at this
    prot := fun p hp => by
      rw [hstEq]
      rcases List.mem_append.1 hp with h | h
      · obtain ⟨h1, h2, h3⟩ := hinv.prot p h
        exact ⟨h1, (hres _).2 (Or.inl h2), h3⟩
      · exact ⟨(hsh p h).1, (hres _).2 (Or.inr (hregs p h)), hSV p h⟩
    pnz := fun hz p hp => by rw [hstEq]; exact hpnz hz p hp
    share := fun p hp w hw heq => by
      rw [hstEq] at heq
      have hnz : ¬ (x.c.z = true ∧ allocOf s.st.asg p = 0) := fun ⟨hz, h0⟩ => hpnz hz p hp h0
      have key : ∀ w', (w' ∈ M ∨ w' ∈ P) → allocOf s.st.asg w' = allocOf s.st.asg p → w' = p ∨ a0 w' = a0 p := by
        intro w' hw' he
        rcases held_coh hst hext0 hTie0 hinv hsh (hheld p hp) hw' he with e | e | e
        · exact Or.inl e
        · exact Or.inr e
        · exact absurd e hnz
      rcases hw with hw | hw
      · exact key w (Or.inl hw) heq
      · rcases List.mem_append.1 hw with hw | hw
        · exact key w (Or.inr hw) heq
        · obtain ⟨_, y, hyM, _, hyq, hya, _⟩ := hsh w hw
          rcases key y (Or.inl hyM) (hyq.trans heq) with e | e
          · exact Or.inr (by rw [← hya, e])
          · exact Or.inr (by rw [← hya, e])
    zres := fun hz w hw => by rw [hstEq]; exact hinv.zres hz w hw }

/-- at the loop entry the block arguments die and the iter_args are live (in the same registers) -/
theorem linv_enter {s : LSt} {V Lb P2 inits bound T : List ValId}
    (hinv : LInv x.c pre A0 Zc Tie x.zi a0 s V Lb P2) (hI : ∀ i ∈ inits, i ∈ P2)
    (ha0 : PW x.c.z a0 T)
    (hT : ∀ w, (w ∈ Lb ∧ w ∉ bound) ∨ w ∈ inits → w ∈ T)
    (hPa0 : x.c.z = true → ∀ p ∈ P2, a0 p ≠ 0) :
    LInv x.c pre A0 Zc Tie x.zi a0 s V ((Lb.filter fun w => !bound.contains w) ++ inits) P2 := by
  have hI' := hinv.inv
  have hmem : ∀ w ∈ (Lb.filter fun w => !bound.contains w) ++ inits, (w ∈ Lb ∧ w ∉ bound) ∨ w ∈ inits := by
    intro w hw
    rcases List.mem_append.1 hw with h | h
    · exact Or.inl (by simpa using List.mem_filter.1 h)
    · exact Or.inr h
  -- an iter_arg shares its register with no other value of the new live set
  have hinit : ∀ i ∈ inits, ∀ w, ((w ∈ Lb ∧ w ∉ bound) ∨ w ∈ inits) → w ≠ i →
      allocOf s.st.asg w ≠ allocOf s.st.asg i := by
    intro i hi w hw hne heq
    have hwLP : w ∈ Lb ∨ w ∈ P2 := by
      rcases hw with ⟨h, _⟩ | h
      · exact Or.inl h
      · exact Or.inr (hI w h)
    rcases hinv.share i (hI i hi) w hwLP heq with e | e
    · exact hne e
    · have := ha0 w (hT w hw) i (hT i (Or.inr hi)) hne e
      exact hPa0 this.1 i (hI i hi) (e ▸ this.2)
  exact { hinv with
    inv := { hI' with
      liveSub := fun w hw => by
        rcases hmem w hw with ⟨h, _⟩ | h
        · exact hI'.liveSub w h
        · exact (hinv.prot w (hI w h)).2.2
      pw := fun a ha b hb hne heq => by
        rcases hmem a ha with ⟨ha1, ha2⟩ | ha1
        · rcases hmem b hb with ⟨hb1, _⟩ | hb1
          · exact hI'.pw a ha1 b hb1 hne heq
          · exact absurd heq (hinit b hb1 a (Or.inl ⟨ha1, ha2⟩) hne)
        · exact absurd heq.symm (hinit a ha1 b (hmem b hb) (fun e => hne e.symm))
      notAvail := fun w hw => by
        rcases hmem w hw with ⟨h, _⟩ | h
        · exact hI'.notAvail w h
        · exact hinv.rdisj _ (hinv.prot w (hI w h)).2.1 }
    share := fun p hp w hw heq => by
      refine hinv.share p hp w ?_ heq
      rcases hw with hw | hw
      · rcases hmem w hw with ⟨h, _⟩ | h
        · exact Or.inl h
        · exact Or.inr (hI w h)
      · exact Or.inr hw }

/-- after the body: the reservations of this loop are gone, those of the loops around it remain -/
theorem linv_drop {s s6 : LSt} {V L P S : List ValId}
    (hinv : LInv x.c pre A0 Zc Tie x.zi a0 s V L (P ++ S)) (hst' : s6.st = s.st) (hpos : RPos s6)
    (hsub : ∀ r, s6.isReserved r = true → s.isReserved r = true)
    (hresP : ∀ p ∈ P, s6.isReserved (allocOf s.st.asg p) = true) :
    LInv x.c pre A0 Zc Tie x.zi a0 s6 V L P :=
  { inv := hst' ▸ hinv.inv
    rpos := hpos
    rdisj := fun r hr => by rw [hst']; exact hinv.rdisj r (hsub r hr)
    prot := fun p hp => by
      rw [hst']
      obtain ⟨h1, _, h3⟩ := hinv.prot p (List.mem_append_left _ hp)
      exact ⟨h1, hresP p hp, h3⟩
    pnz := fun hz p hp => by rw [hst']; exact hinv.pnz hz p (List.mem_append_left _ hp)
    share := fun p hp w hw => by
      rw [hst']
      exact hinv.share p (List.mem_append_left _ hp) w (hw.imp id (List.mem_append_left _))
    zres := fun hz w hw => by rw [hst']; exact hinv.zres hz w hw }

end Loop

section Main
variable {x : Ctx} {pre : AL ValId Reg} {A0 : List Reg} {Zc U : List ValId}
  {Tie : (ValId → Reg) → Prop} {a0 : ValId → Reg}

theorem af_of_ext {af : ValId → Reg} {s s' : LSt} (he : LExt s s')
    (hf : ∀ v r, AL.get s'.st.asg v = some r → af v = r) : ∀ v r, AL.get s.st.asg v = some r → af v = r :=
  fun v r h => hf v r (he v r h)

theorem af_allocOf {af : ValId → Reg} {s : LSt} (hf : ∀ v r, AL.get s.st.asg v = some r → af v = r)
    {v : ValId} (hv : (AL.get s.st.asg v).isSome = true) : af v = allocOf s.st.asg v := by
  obtain ⟨r, hr⟩ := Option.isSome_iff_exists.1 hv
  rw [hf v r hr, allocOf_of_get hr]

/-- **The allocator keeps its invariant over a whole block with loops, and the block passes the
validator with the final assignment.**  `V0` / `L` / `P` / `D`: the values seen so far / live after the
block / protected by the reservations of the loops around it / dead (defined further down). -/
theorem allocT_inv {af : ValId → Reg} (hst : Static x.c pre A0 U) (hzc : ZClosed x.zi Zc)
    (hext0 : ∀ v r, AL.get pre v = some r → a0 v = r) (hTie0 : Tie a0) :
    ∀ (t : LT) (Z L : List ValId) (s0 s : LSt) (V0 P D : List ValId),
      allocT x s0 t = .ok s →
      LInv x.c pre A0 Zc Tie x.zi a0 s0 V0 L P →
      GoodT x.c.z a0 Z t L → ZcOkT Zc Z t → WfT U Zc t L → (∀ a, Tie a → TiedT a t) →
      (∀ v ∈ V0, v ∈ L ∨ v ∈ P ∨ v ∈ D) →
      (∀ v ∈ D, v ∉ allValsT t) → (∀ p ∈ P, p ∉ defsT t) →
      (x.c.z = true → ∀ p ∈ P, a0 p ≠ 0) →
      (∀ v r, AL.get s.st.asg v = some r → af v = r) →
      ∃ V, (∀ v, v ∈ V ↔ (v ∈ allValsT t ∨ v ∈ V0))
        ∧ LInv x.c pre A0 Zc Tie x.zi a0 s V (liveT t L) P ∧ LExt s0 s
        ∧ checkT x.c.z af Z t L = some (liveT t L)
        ∧ (∀ v ∈ V, v ∈ liveT t L ∨ v ∈ P ∨ v ∈ D ∨ v ∈ defsT t) := by
  intro t
  induction t with
  | nil =>
    intro Z L s0 s V0 P D hrun hinv _ _ _ _ hV0 _ _ _ _
    simp only [allocT, Except.ok.injEq] at hrun
    subst hrun
    refine ⟨V0, fun v => by simp [allValsT], hinv, LExt.refl _, rfl, ?_⟩
    intro v hv
    rcases hV0 v hv with h | h | h
    · exact Or.inl h
    · exact Or.inr (Or.inl h)
    · exact Or.inr (Or.inr (Or.inl h))
  | op o next ih =>
    intro Z L s0 s V0 P D hrun hinv hgood hzcok hwf htied hV0 hD hPd hPa0 hf
    obtain ⟨gN, gOk, gPW⟩ := hgood
    obtain ⟨zO, zN⟩ := hzcok
    obtain ⟨wIo, wRD, wSc, wfN⟩ := hwf
    simp only [allocT] at hrun
    split at hrun
    · exact absurd hrun (by simp)
    rename_i s1 hs1
    have hext1s := allocOpR_ext hrun
    obtain ⟨V1, hV1, hinv1, hext01, hchkN, hVL1⟩ := ih _ L s0 s1 V0 P D hs1 hinv gN zN wfN
      (fun a ha => htied a ha) hV0
      (fun v hv hm => hD v hv (by simp only [allValsT, List.mem_append]; exact Or.inr hm))
      (fun p hp hm => hPd p hp (by simp only [defsT, List.mem_append]; exact Or.inr hm))
      hPa0 (af_of_ext hext1s hf)
    have hocc : ∀ v, v ∈ o.reads ∨ v ∈ o.defs → v ∈ allValsT (.op o next) := by
      intro v hv; simp only [allValsT, List.mem_append]; exact Or.inl hv
    have hseen : ∀ v, v ∈ o.reads ∨ v ∈ o.defs → v ∈ V1 → v ∈ liveT next L ∨ v ∈ P := by
      intro v hv hvV
      rcases hVL1 v hvV with h | h | h | h
      · exact Or.inl h
      · exact Or.inr h
      · exact absurd (hocc v hv) (hD v h)
      · exact absurd h (wSc v hv).1
    obtain ⟨V, hV, hinvS, hextS, hok⟩ := allocOpR_step hst hzc hext0 hTie0 hPa0 wIo
      (fun v hv => (wSc v hv).2) hrun hinv1 gOk gPW zO wRD
      (fun d hd hdV => by
        rcases hseen d (Or.inr hd) hdV with h | h
        · exact h
        · exact absurd (by simp only [defsT, List.mem_append]; exact Or.inl hd) (hPd d h))
      (fun v hv hvV => hseen v (Or.inl hv) hvV)
    refine ⟨V, ?_, hinvS, hext01.trans hextS, ?_, ?_⟩
    · intro v
      rw [hV, hV1]
      simp only [allValsT, List.mem_append]
      constructor
      · rintro (h | h | h | h)
        · exact Or.inl (Or.inl (Or.inl h))
        · exact Or.inl (Or.inl (Or.inr h))
        · exact Or.inl (Or.inr h)
        · exact Or.inr h
      · rintro (((h | h) | h) | h)
        · exact Or.inl h
        · exact Or.inr (Or.inl h)
        · exact Or.inr (Or.inr (Or.inl h))
        · exact Or.inr (Or.inr (Or.inr h))
    · simp only [checkT, hchkN]
      have hok' : opOk x.c.z af Z (Z ++ newZero true Z o) o (liveT next L) = true := by
        refine opOk_congr ?_ hok
        intro w hw
        have hwV : w ∈ V := by
          rw [hV]
          rcases hw with h | h | h
          · exact Or.inl h
          · exact Or.inr (Or.inl h)
          · exact Or.inr (Or.inr (hinv1.inv.liveSub w h))
        exact (af_allocOf hf (hinvS.inv.allocd w hwV)).symm
      rw [if_pos hok']
      rfl
    · intro v hv
      rw [hV] at hv
      simp only [liveT, defsT, List.mem_append]
      rcases hv with h | h | h
      · exact Or.inl (mem_liveIn_reads h)
      · exact Or.inr (Or.inr (Or.inr (Or.inl h)))
      · rcases hVL1 v h with h1 | h1 | h1 | h1
        · by_cases hd : v ∈ o.defs
          · exact Or.inr (Or.inr (Or.inr (Or.inl hd)))
          · exact Or.inl (mem_liveIn_of_live h1 hd)
        · exact Or.inr (Or.inl h1)
        · exact Or.inr (Or.inr (Or.inl h1))
        · exact Or.inr (Or.inr (Or.inr (Or.inr h1)))
  | loop hd body next ihb ihn =>
    intro Z L s0 s V0 P D hrun hinv hgood hzcok hwf htied hV0 hD hPd hPa0 hf
    obtain ⟨gN, gBd, G0, gPW⟩ := hgood
    obtain ⟨zB, zN⟩ := hzcok
    obtain ⟨wRep, wSc, wYL, wYnd, wRes, wZc, wOps, wBnds, wBound, wIvY, wTh, wfB, wfN⟩ := hwf
    have tG : ∀ a, Tie a → ∀ g ∈ hd.groups, tiedB a g = true := fun a ha => (htied a ha).1
    -- names for the live sets
    generalize hL' : liveT next L = L' at *
    generalize hth : throughOf hd body L' = th at *
    generalize hbo : bodyOutOf hd th = bo at *
    generalize hbi : liveT body bo = bi at *
    generalize hae : atEntryOf hd bi th = ae at *
    have hbf : liveT (.loop hd body next) L = beforeOf hd ae := by
      simp only [liveT, hL', hth, hbo, hbi, hae]
    -- the run, piece by piece
    simp only [allocT] at hrun
    split at hrun
    · exact absurd hrun (by simp)
    rename_i s1 hs1
    split at hrun
    · exact absurd hrun (by simp)
    rename_i s2 hs2
    split at hrun
    · exact absurd hrun (by simp)
    rename_i s3 hs3
    split at hrun
    · exact absurd hrun (by simp)
    rename_i s4 hs4
    split at hrun
    · exact absurd hrun (by simp)
    rename_i s5 hs5
    split at hrun
    · exact absurd hrun (by simp)
    rename_i s6 hs6
    have e12 := foldL_ext _ (fun s v s' hh => allocValueR_ext hh) _ _ _ hs2
    have e23 := foldL_ext _ (fun s v s' hh => sameRegN_ext hh) _ _ _ hs3
    have e34 := foldL_ext _ (fun s v s' hh => allocValueR_ext hh) _ _ _ hs4
    have e44r : LExt s4 ((regsOf s4 hd.inits).foldl reserveR s4) := lext_of_asg (reserveFold_asg ..)
    have e4r5 := allocT_ext x body _ _ hs5
    have e56 := foldL_ext _ (fun s r s' hh => lext_of_asg (unreserveR_asg hh)) _ _ _ hs6
    have e67 : LExt s6 ((optL hd.iv).foldl (freeValueR x.c) s6) := lext_of_asg (freeFold_asg ..)
    have e7s := foldL_ext _ (fun s v s' hh => allocValueR_ext hh) _ _ _ hrun
    have e1s : LExt s1 s := e12.trans (e23.trans (e34.trans (e44r.trans (e4r5.trans (e56.trans (e67.trans e7s))))))
    -- the rest of the block
    obtain ⟨V1, hV1, hinv1, hext01, hchkN, hVL1⟩ := ihn Z L s0 s1 V0 P D hs1 hinv gN zN wfN
      (fun a ha => (htied a ha).2.2) hV0
      (fun v hv hm => hD v hv (by simp only [allValsT, List.mem_append]; exact Or.inr hm))
      (fun p hp hm => hPd p hp (by simp only [defsT, List.mem_append]; exact Or.inr hm))
      hPa0 (af_of_ext e1s hf)
    rw [hL'] at hinv1 hchkN hVL1
    -- values of the loop (header or body) that have been seen are live after the loop or protected
    have hocc : ∀ v, v ∈ hd.hdr ∨ v ∈ allValsT body → v ∈ allValsT (.loop hd body next) := by
      intro v hv
      simp only [allValsT, Loop.hdr, List.mem_append] at hv ⊢
      rcases hv with (((h | h) | h) | h) | h
      · exact Or.inl (Or.inl (Or.inl (Or.inl (Or.inl h))))
      · exact Or.inl (Or.inl (Or.inl (Or.inl (Or.inr h))))
      · exact Or.inl (Or.inl (Or.inl (Or.inr h)))
      · exact Or.inl (Or.inl (Or.inr h))
      · exact Or.inl (Or.inr h)
    have hseen : ∀ v, v ∈ hd.hdr ∨ v ∈ allValsT body → v ∈ V1 → v ∈ L' ∨ v ∈ P := by
      intro v hv hvV
      rcases hVL1 v hvV with h | h | h | h
      · exact Or.inl h
      · exact Or.inr h
      · exact absurd (hocc v hv) (hD v h)
      · exact absurd h (wSc v hv).1
    -- membership facts
    have hboundB : ∀ v ∈ hd.bargs, v ∈ hd.bound := fun v hv => by
      simp only [Loop.bound, List.mem_append]; exact Or.inr hv
    have hboundI : ∀ v ∈ optL hd.iv, v ∈ hd.bound := fun v hv => by
      simp only [Loop.bound, List.mem_append]; exact Or.inl hv
    have hhdrB : ∀ v ∈ hd.bound, v ∈ hd.hdr := fun v hv => by
      simp only [Loop.hdr, List.mem_append]; exact Or.inl (Or.inr hv)
    have hhdrO : ∀ v ∈ hd.operands, v ∈ hd.hdr := fun v hv => by
      simp only [Loop.hdr, List.mem_append]; exact Or.inl (Or.inl (Or.inl hv))
    have hhdrR : ∀ v ∈ hd.res, v ∈ hd.hdr := fun v hv => by
      simp only [Loop.hdr, List.mem_append]; exact Or.inl (Or.inl (Or.inr hv))
    have hhdrY : ∀ v ∈ hd.yields, v ∈ hd.hdr := fun v hv => by
      simp only [Loop.hdr, List.mem_append]; exact Or.inr hv
    have hopI : ∀ v ∈ hd.inits, v ∈ hd.operands := fun v hv => by
      simp only [Loop.operands, List.mem_append]; exact Or.inr hv
    have hopU : ∀ v ∈ optL hd.ub, v ∈ hd.operands := fun v hv => by
      simp only [Loop.operands, List.mem_append]; exact Or.inl (Or.inl (Or.inl (Or.inr hv)))
    have hopS : ∀ v ∈ optL hd.step, v ∈ hd.operands := fun v hv => by
      simp only [Loop.operands, List.mem_append]; exact Or.inl (Or.inl (Or.inr hv))
    have hopL : ∀ v ∈ optL hd.lb, v ∈ hd.operands := fun v hv => by
      simp only [Loop.operands, List.mem_append]; exact Or.inl (Or.inl (Or.inl (Or.inl hv)))
    have hthbo : ∀ v ∈ th, v ∈ bo := fun v hv => by rw [← hbo, mem_bodyOutOf]; exact Or.inl hv
    have hybo : ∀ v ∈ hd.yields, v ∈ bo := fun v hv => by rw [← hbo, mem_bodyOutOf]; exact Or.inr (Or.inr hv)
    have hivbo : ∀ v ∈ optL hd.iv, v ∈ bo := fun v hv => by rw [← hbo, mem_bodyOutOf]; exact Or.inr (Or.inl hv)
    have hLth : ∀ v ∈ L', v ∉ hd.res → v ∈ th := fun v hv hr => by
      rw [← hth, mem_throughOf]; exact Or.inl ⟨hv, hr⟩
    have hLIth : ∀ v ∈ liveIns hd body, v ∈ th := fun v hv => by
      rw [← hth, mem_throughOf]; exact Or.inr (Or.inl hv)
    have hndB : hd.bound.Nodup := (List.nodup_append.1 G0.nodup).1
    have hndR : hd.res.Nodup := (List.nodup_append.1 G0.nodup).2.1
    have hBR : ∀ v ∈ hd.bound, v ∉ hd.res := fun v hv hr => (List.nodup_append.1 G0.nodup).2.2 v hv v hr rfl
    obtain ⟨mB', mI', mY', mR'⟩ := groups_maps hd.bargs hd.inits hd.yields hd.res G0.lenB G0.lenY G0.lenR
    have mB : hd.groups.map gB = hd.bargs := mB'
    have mI : hd.groups.map gI = hd.inits := mI'
    have mY : hd.groups.map gY = hd.yields := mY'
    have mR : hd.groups.map gR = hd.res := mR'
    have gmem := groups_mem hd.bargs hd.inits hd.yields hd.res
    have gtie0 := group_tied (a := a0) G0.tied
    have hnzB : x.c.z = true → ∀ v ∈ hd.bound ++ hd.res, a0 v ≠ 0 := G0.nz
    -- a result has the register of its yielded value, which is separated from everything live throughout
    have hresY : ∀ r ∈ hd.res, ∃ g ∈ hd.groups, gR g = r := fun r hr => by
      rw [← mR] at hr; exact List.mem_map.1 hr
    have hinitG : ∀ i ∈ hd.inits, ∃ g ∈ hd.groups, gI g = i := fun i hi => by
      rw [← mI] at hi; exact List.mem_map.1 hi
    have hbargG : ∀ b ∈ hd.bargs, ∃ g ∈ hd.groups, gB g = b := fun b hb => by
      rw [← mB] at hb; exact List.mem_map.1 hb
    have hyNZ : x.c.z = true → ∀ g ∈ hd.groups, a0 (gY g) ≠ 0 := fun hz g hg h0 =>
      hnzB hz (gB g) (List.mem_append_left _ (hboundB _ (gmem g hg).1)) ((gtie0 g hg).2.1 ▸ h0)
    have hysep : ∀ g ∈ hd.groups, ∀ w ∈ bo, w ≠ gY g → a0 w ≠ a0 (gY g) := by
      intro g hg w hw hne heq
      have := G0.pwOut w hw (gY g) (hybo _ (gmem g hg).2.2.1) hne heq
      exact hyNZ this.1 g hg (heq ▸ this.2)
    have hpwT1 : PW x.c.z a0 (L' ++ th) := by
      have key : ∀ r ∈ hd.res, ∀ w ∈ th, a0 r ≠ a0 w := by
        intro r hr w hw heq
        obtain ⟨g, hg, rfl⟩ := hresY r hr
        have hwy : w ≠ gY g := fun e => wYL _ (gmem g hg).2.2.1 (e ▸ hw)
        exact hysep g hg w (hthbo w hw) hwy (heq.symm.trans (gtie0 g hg).2.2 |>.trans (gtie0 g hg).2.1.symm)
      intro v hv w hw hne heq
      rcases List.mem_append.1 hv with hv | hv <;> rcases List.mem_append.1 hw with hw | hw
      · exact G0.pwAfter v hv w hw hne heq
      · by_cases hr : v ∈ hd.res
        · exact absurd heq (key v hr w hw)
        · exact G0.pwOut v (hthbo v (hLth v hv hr)) w (hthbo w hw) hne heq
      · by_cases hr : w ∈ hd.res
        · exact absurd heq.symm (key w hr v hv)
        · exact G0.pwOut v (hthbo v hv) w (hthbo w (hLth w hw hr)) hne heq
      · exact G0.pwOut v (hthbo v hv) w (hthbo w hw) hne heq
    -- (1) the live-ins
    obtain ⟨hinv2, _⟩ := lfold_live hst hzc hext0 hTie0 hpwT1 hPa0 (liveIns hd body) s1 s2 V1 L' hs2 hinv1
      (fun v hv => by
        rcases (liveIns_sub hd body v hv).1 with h | h
        · exact (wSc v (Or.inr h)).2
        · exact (wSc v (Or.inl (hhdrY v h))).2)
      (fun v hv => List.mem_append_right _ (hLIth v hv))
      (fun w hw => List.mem_append_left _ hw)
      (fun v hv hvV => by
        rcases (liveIns_sub hd body v hv).1 with h | h
        · exact hseen v (Or.inr h) hvV
        · exact hseen v (Or.inl (hhdrY v h)) hvV)
    -- (2) the loop-carried groups
    have hgmemHdr : ∀ g ∈ hd.groups, ∀ m ∈ g, m ∈ hd.hdr ∧ (m ∈ hd.bound ∨ m ∈ hd.inits ∨ m ∈ hd.yields ∨ m ∈ hd.res) := by
      intro g hg m hm
      rw [groups_shape _ _ _ _ g hg] at hm
      obtain ⟨h1, h2, h3, h4⟩ := gmem g hg
      simp only [List.mem_cons, List.not_mem_nil, or_false] at hm
      rcases hm with e | e | e | e
      · exact ⟨hhdrB m (e ▸ hboundB _ h1), Or.inl (e ▸ hboundB _ h1)⟩
      · exact ⟨hhdrO m (e ▸ hopI _ h2), Or.inr (Or.inl (e ▸ h2))⟩
      · exact ⟨hhdrY m (e ▸ h3), Or.inr (Or.inr (Or.inl (e ▸ h3)))⟩
      · exact ⟨hhdrR m (e ▸ h4), Or.inr (Or.inr (Or.inr (e ▸ h4)))⟩
    have hyinj : ∀ g ∈ hd.groups, ∀ g' ∈ hd.groups, gY g = gY g' → g = g' := by
      have hnd : (hd.groups.map gY).Nodup := by rw [mY]; exact wYnd
      exact fun g hg g' hg' e => inj_of_nodup_map' gY _ hnd g hg g' hg' e
    obtain ⟨V3, M3, S3, hinv3, hsh3, hSnz3, _, hV3, hM3, hS3, hsame3⟩ :=
      groups_fold (inits := hd.inits) (yields := hd.yields) (M0 := (liveIns hd body).reverse ++ L')
        hst hext0 hTie0 hd.groups s2 s3 _ _ [] hs3 hinv2
        (fun q hq => by simp at hq) (fun _ q hq => by simp at hq) (fun w hw => Or.inl hw)
        (groups_shape _ _ _ _)
        (fun g hg a ha => group_tied (tG a ha) g hg)
        (fun g hg m hm => ⟨(wSc m (Or.inl (hgmemHdr g hg m hm).1)).2, wZc m (hgmemHdr g hg m hm).2⟩)
        (fun hz g hg => hnzB hz _ (List.mem_append_left _ (hboundB _ (gmem g hg).1)))
        (fun g hg => ⟨(gmem g hg).2.1, (gmem g hg).2.2.1, (wRes _ (gmem g hg).2.2.2).1⟩)
        (by
          intro g hg w hw hwy hwr heq
          have hwbo : w ∈ bo ∨ w ∈ hd.res := by
            rcases hw with hw | hw
            · rcases List.mem_append.1 hw with hw | hw
              · exact Or.inl (hthbo w (hLIth w (List.mem_reverse.1 hw)))
              · by_cases hr : w ∈ hd.res
                · exact Or.inr hr
                · exact Or.inl (hthbo w (hLth w hw hr))
            · exact Or.inl (hybo w hw)
          rcases hwbo with hwbo | hwr'
          · exact hysep g hg w hwbo hwy heq
          · obtain ⟨g', hg', rfl⟩ := hresY w hwr'
            have e1 : a0 (gY g') = a0 (gY g) :=
              ((gtie0 g' hg').2.1.trans (gtie0 g' hg').2.2.symm).trans heq
            by_cases hyy : gY g' = gY g
            · exact hwr (by rw [hyinj g' hg' g hg hyy])
            · exact hysep g hg (gY g') (hybo _ (gmem g' hg').2.2.1) hyy e1)
        (groups_pairwise _ _ _ _ hndR (fun r hr =>
          ⟨fun hb => hBR r (hboundB r hb) hr, (wRes r hr).2.1, (wRes r hr).1⟩))
        (by
          intro g hg m hm hS
          rcases hinv2.inv.only m hS with hp | hmV
          · exact Or.inr (Or.inr (Or.inr ⟨hp, (wSc m (Or.inl (hgmemHdr g hg m hm).1)).2⟩))
          · rcases List.mem_append.1 hmV with h | h
            · exact Or.inl (List.mem_append_left _ h)
            · rcases hseen m (Or.inl (hgmemHdr g hg m hm).1) h with h1 | h1
              · exact Or.inl (List.mem_append_right _ h1)
              · exact Or.inr (Or.inl h1))
    rw [mY, mR] at hM3
    rw [mB, mI] at hS3
    have hM2 : ∀ w, w ∈ (liveIns hd body).reverse ++ L' ↔ (w ∈ liveIns hd body ∨ w ∈ L') := by
      intro w; simp only [List.mem_append, List.mem_reverse]
    have hLIres : ∀ w ∈ liveIns hd body, w ∉ hd.res := by
      intro w hw hr
      rcases (liveIns_sub hd body w hw).1 with h | h
      · exact (wRes w hr).2.2 h
      · exact (wRes w hr).1 h
    have hM3bo : ∀ w ∈ M3, w ∈ bo := by
      intro w hw
      rcases (hM3 w).1 hw with h | ⟨h, hr⟩
      · exact hybo w h
      · rcases (hM2 w).1 h with h | h
        · exact hthbo w (hLIth w h)
        · exact hthbo w (hLth w h hr)
    have hthM3 : ∀ w ∈ th, w ∉ optL hd.ub → w ∉ optL hd.step → w ∈ M3 := by
      intro w hw hu hs'
      rw [← hth, mem_throughOf] at hw
      rcases hw with ⟨h1, h2⟩ | h1 | h1 | h1
      · exact (hM3 w).2 (Or.inr ⟨(hM2 w).2 (Or.inr h1), h2⟩)
      · exact (hM3 w).2 (Or.inr ⟨(hM2 w).2 (Or.inl h1), hLIres w h1⟩)
      · exact absurd h1 hu
      · exact absurd h1 hs'
    -- (3) the induction variable, ub, step
    have hvsEq : optL hd.iv ++ optL hd.ub ++ optL hd.step ++ optL hd.rep = optL hd.iv ++ optL hd.ub ++ optL hd.step := by
      rw [wRep]; simp [optL]
    rw [hvsEq] at hs4
    have hvsmem : ∀ v ∈ optL hd.iv ++ optL hd.ub ++ optL hd.step, v ∈ optL hd.iv ∨ v ∈ optL hd.ub ∨ v ∈ optL hd.step := by
      intro v hv; simp only [List.mem_append] at hv
      rcases hv with (h | h) | h
      · exact Or.inl h
      · exact Or.inr (Or.inl h)
      · exact Or.inr (Or.inr h)
    have hV3mem : ∀ v ∈ V3, v ∈ liveIns hd body ∨ v ∈ V1 ∨ v ∈ hd.bargs ∨ v ∈ hd.inits ∨ v ∈ hd.yields ∨ v ∈ hd.res := by
      intro v hv
      rcases (hV3 v).1 hv with h | ⟨g, hg, hm⟩
      · rcases List.mem_append.1 h with h | h
        · exact Or.inl (List.mem_reverse.1 h)
        · exact Or.inr (Or.inl h)
      · rw [groups_shape _ _ _ _ g hg] at hm
        obtain ⟨h1, h2, h3, h4⟩ := gmem g hg
        simp only [List.mem_cons, List.not_mem_nil, or_false] at hm
        rcases hm with e | e | e | e
        · exact Or.inr (Or.inr (Or.inl (e ▸ h1)))
        · exact Or.inr (Or.inr (Or.inr (Or.inl (e ▸ h2))))
        · exact Or.inr (Or.inr (Or.inr (Or.inr (Or.inl (e ▸ h3)))))
        · exact Or.inr (Or.inr (Or.inr (Or.inr (Or.inr (e ▸ h4)))))
    obtain ⟨hinv4, _⟩ := lfold_live hst hzc hext0 hTie0 G0.pwOut hPa0 _ s3 s4 V3 M3 hs4 hinv3
      (fun v hv => by
        rcases hvsmem v hv with h | h | h
        · exact (wSc v (Or.inl (hhdrB v (hboundI v h)))).2
        · exact (wSc v (Or.inl (hhdrO v (hopU v h)))).2
        · exact (wSc v (Or.inl (hhdrO v (hopS v h)))).2)
      (fun v hv => by
        rcases hvsmem v hv with h | h | h
        · exact hivbo v h
        · exact hthbo v (by rw [← hth, mem_throughOf]; exact Or.inr (Or.inr (Or.inl h)))
        · exact hthbo v (by rw [← hth, mem_throughOf]; exact Or.inr (Or.inr (Or.inr h))))
      hM3bo
      (fun v hv hvV => by
        rcases hvsmem v hv with h | h
        · -- the induction variable is new
          exfalso
          have hb := hboundI v h
          rcases hV3mem v hvV with h1 | h1 | h1 | h1 | h1 | h1
          · exact (liveIns_sub hd body v h1).2 hb
          · rcases hseen v (Or.inl (hhdrB v hb)) h1 with h2 | h2
            · exact (G0.fresh v (List.mem_append_left _ hb)).2 (hLth v h2 (hBR v hb))
            · exact hPd v h2 (by simp only [defsT, List.mem_append]; exact Or.inl (Or.inl (Or.inl hb)))
          · have hnd := hndB
            simp only [Loop.bound] at hnd
            exact (List.nodup_append.1 hnd).2.2 v h v h1 rfl
          · exact (wOps v (hopI v h1)).1 hb
          · exact wIvY v h h1
          · exact hBR v hb h1
        · -- ub, step: outer values
          have hop : v ∈ hd.operands := h.elim (hopU v) (hopS v)
          have hnr : v ∉ hd.res := (wOps v hop).2.1
          have hbnd := wBnds v (h.elim Or.inl (fun h' => Or.inr (Or.inl h')))
          rcases hV3mem v hvV with h1 | h1 | h1 | h1 | h1 | h1
          · exact Or.inl ((hM3 v).2 (Or.inr ⟨(hM2 v).2 (Or.inl h1), hnr⟩))
          · rcases hseen v (Or.inl (hhdrO v hop)) h1 with h2 | h2
            · exact Or.inl ((hM3 v).2 (Or.inr ⟨(hM2 v).2 (Or.inr h2), hnr⟩))
            · exact Or.inr h2
          · exact absurd (hboundB v h1) (wOps v hop).1
          · exact absurd h1 hbnd.1
          · exact absurd h1 hbnd.2
          · exact absurd h1 hnr)
    generalize hM4 : (optL hd.iv ++ optL hd.ub ++ optL hd.step).reverse ++ M3 = M4 at hinv4
    generalize hV4 : (optL hd.iv ++ optL hd.ub ++ optL hd.step).reverse ++ V3 = V4 at hinv4
    have hM4mem : ∀ w, w ∈ M4 ↔ (w ∈ optL hd.iv ∨ w ∈ optL hd.ub ∨ w ∈ optL hd.step ∨ w ∈ M3) := by
      intro w; rw [← hM4]; simp only [List.mem_append, List.mem_reverse, or_assoc]
    have hV4mem : ∀ w, w ∈ V4 ↔ (w ∈ optL hd.iv ∨ w ∈ optL hd.ub ∨ w ∈ optL hd.step ∨ w ∈ V3) := by
      intro w; rw [← hV4]; simp only [List.mem_append, List.mem_reverse, or_assoc]
    have hboM4 : ∀ w ∈ bo, w ∈ M4 := by
      intro w hw
      rw [← hbo, mem_bodyOutOf] at hw
      rcases hw with h | h | h
      · by_cases hu : w ∈ optL hd.ub
        · exact (hM4mem w).2 (Or.inr (Or.inl hu))
        · by_cases hs' : w ∈ optL hd.step
          · exact (hM4mem w).2 (Or.inr (Or.inr (Or.inl hs')))
          · exact (hM4mem w).2 (Or.inr (Or.inr (Or.inr (hthM3 w h hu hs'))))
      · exact (hM4mem w).2 (Or.inl h)
      · exact (hM4mem w).2 (Or.inr (Or.inr (Or.inr ((hM3 w).2 (Or.inl h)))))
    have hM4bo : ∀ w ∈ M4, w ∈ bo := by
      intro w hw
      rcases (hM4mem w).1 hw with h | h | h | h
      · exact hivbo w h
      · exact hthbo w (by rw [← hth, mem_throughOf]; exact Or.inr (Or.inr (Or.inl h)))
      · exact hthbo w (by rw [← hth, mem_throughOf]; exact Or.inr (Or.inr (Or.inr h)))
      · exact hM3bo w h
    -- the groups keep their registers
    have hM3S : ∀ w ∈ M3, (AL.get s3.st.asg w).isSome = true :=
      fun w hw => hinv3.inv.allocd w (hinv3.inv.liveSub w hw)
    have hsh4 : Shadow a0 s4 M4 S3 hd.inits hd.yields :=
      hsh3.ext e34 (fun w hw => ⟨hM3S w hw, (hM4mem w).2 (Or.inr (Or.inr (Or.inr hw)))⟩)
    have hSnz4 : x.c.z = true → ∀ q ∈ S3, allocOf s4.st.asg q ≠ 0 := fun hz q hq => by
      rw [e34.allocOf (hsh3 q hq).1]; exact hSnz3 hz q hq
    have hS3mem : ∀ q, q ∈ S3 ↔ (q ∈ hd.bargs ∨ q ∈ hd.inits) := by
      intro q; rw [hS3]; simp
    have hS3V : ∀ q ∈ S3, q ∈ V4 := by
      intro q hq
      refine (hV4mem q).2 (Or.inr (Or.inr (Or.inr ((hV3 q).2 (Or.inr ?_)))))
      rcases (hS3mem q).1 hq with h | h
      · obtain ⟨g, hg, rfl⟩ := hbargG q h
        exact ⟨g, hg, gB_mem (groups_shape _ _ _ _ g hg)⟩
      · obtain ⟨g, hg, rfl⟩ := hinitG q h
        exact ⟨g, hg, gI_mem (groups_shape _ _ _ _ g hg)⟩
    -- (4) the reservation
    have hinv4r := linv_reserve hst hext0 hTie0 hinv4 hsh4 hSnz4 hS3V
      (fun i hi => (hS3mem i).2 (Or.inr hi))
    have hinv4b : LInv x.c pre A0 Zc Tie x.zi a0 ((regsOf s4 hd.inits).foldl reserveR s4) V4 bo (P ++ S3) :=
      hinv4r.mono (fun _ => Iff.rfl) hboM4
    -- (5) the body
    have e5s : LExt s5 s := e56.trans (e67.trans e7s)
    have hPa0b : x.c.z = true → ∀ p ∈ P ++ S3, a0 p ≠ 0 := by
      intro hz p hp
      rcases List.mem_append.1 hp with h | h
      · exact hPa0 hz p h
      · rcases (hS3mem p).1 h with h1 | h1
        · exact hnzB hz p (List.mem_append_left _ (hboundB p h1))
        · obtain ⟨g, hg, rfl⟩ := hinitG p h1
          rw [(gtie0 g hg).1]
          exact hnzB hz _ (List.mem_append_left _ (hboundB _ (gmem g hg).1))
    obtain ⟨V5, hV5, hinv5, _, hchkB, hVL5⟩ := ihb Z bo _ s5 V4 (P ++ S3) (D ++ defsT next ++ hd.res) hs5 hinv4b
      gBd zB wfB (fun a ha => (htied a ha).2.1)
      (by
        intro v hv
        have hV1case : v ∈ V1 → v ∈ bo ∨ v ∈ P ++ S3 ∨ v ∈ D ++ defsT next ++ hd.res := by
          intro h1
          rcases hVL1 v h1 with h2 | h2 | h2 | h2
          · by_cases hr : v ∈ hd.res
            · exact Or.inr (Or.inr (List.mem_append_right _ hr))
            · exact Or.inl (hthbo v (hLth v h2 hr))
          · exact Or.inr (Or.inl (List.mem_append_left _ h2))
          · exact Or.inr (Or.inr (List.mem_append_left _ (List.mem_append_left _ h2)))
          · exact Or.inr (Or.inr (List.mem_append_left _ (List.mem_append_right _ h2)))
        rcases (hV4mem v).1 hv with h | h | h | h
        · exact Or.inl (hivbo v h)
        · exact Or.inl (hthbo v (by rw [← hth, mem_throughOf]; exact Or.inr (Or.inr (Or.inl h))))
        · exact Or.inl (hthbo v (by rw [← hth, mem_throughOf]; exact Or.inr (Or.inr (Or.inr h))))
        · rcases hV3mem v h with h1 | h1 | h1 | h1 | h1 | h1
          · exact Or.inl (hthbo v (hLIth v h1))
          · exact hV1case h1
          · exact Or.inr (Or.inl (List.mem_append_right _ ((hS3mem v).2 (Or.inl h1))))
          · exact Or.inr (Or.inl (List.mem_append_right _ ((hS3mem v).2 (Or.inr h1))))
          · exact Or.inl (hybo v h1)
          · exact Or.inr (Or.inr (List.mem_append_right _ h1)))
      (by
        intro v hv hb
        rcases List.mem_append.1 hv with h | h
        · rcases List.mem_append.1 h with h | h
          · exact hD v h (hocc v (Or.inr hb))
          · exact (wSc v (Or.inr hb)).1 h
        · exact (wRes v h).2.2 hb)
      (by
        intro p hp hb
        rcases List.mem_append.1 hp with h | h
        · exact hPd p h (by simp only [defsT, List.mem_append]; exact Or.inl (Or.inr hb))
        · rcases (hS3mem p).1 h with h1 | h1
          · exact wBound p (hboundB p h1) hb
          · exact (wOps p (hopI p h1)).2.2 hb)
      hPa0b (af_of_ext e5s hf)
    rw [hbi] at hinv5 hchkB hVL5
    -- (6) the loop entry: block arguments die, iter_args are live
    have hbiae : ∀ w ∈ bi, w ∈ ae := fun w hw => by rw [← hae, mem_atEntryOf]; exact Or.inl hw
    have hthbi : ∀ w ∈ th, w ∈ bi := fun w hw => by
      rw [← hbi]; exact liveT_of_live body bo w (hthbo w hw) (wTh w hw)
    have hivbi : ∀ w ∈ optL hd.iv, w ∈ bi := fun w hw => by
      rw [← hbi]; exact liveT_of_live body bo w (hivbo w hw) (wBound w (hboundI w hw))
    have haebi : ∀ w ∈ ae, w ∈ bi := by
      intro w hw
      rw [← hae, mem_atEntryOf] at hw
      rcases hw with h | h | h
      · exact h
      · exact hthbi w h
      · exact hivbi w h
    rw [hbf] at gPW
    have hLxbf : ∀ w, (w ∈ bi ∧ w ∉ hd.bound) ∨ w ∈ hd.inits → w ∈ beforeOf hd ae := by
      intro w hw
      rw [mem_beforeOf]
      rcases hw with ⟨h1, h2⟩ | h
      · exact Or.inl ⟨hbiae w h1, h2⟩
      · exact Or.inr (Or.inr (Or.inr h))
    have hinv5x := linv_enter (bound := hd.bound) (inits := hd.inits) hinv5
      (fun i hi => List.mem_append_right _ ((hS3mem i).2 (Or.inr hi))) gPW hLxbf hPa0b
    generalize hLx : (bi.filter fun w => !hd.bound.contains w) ++ hd.inits = Lx at hinv5x
    have hLxmem : ∀ w, w ∈ Lx ↔ ((w ∈ bi ∧ w ∉ hd.bound) ∨ w ∈ hd.inits) := by
      intro w; rw [← hLx]; simp [List.mem_filter]
    -- (7) the reservations of this loop end
    have hpos4r := reserveFold_pos (regsOf s4 hd.inits) s4 hinv4.rpos
    have hrest := allocT_restored x body _ _ hpos4r hs5
    obtain ⟨hpos6, hcnt6⟩ := unreserveFold_cnt _ _ _ hrest.pos hs6
    have hst6 : s6.st = s5.st := unreserveFold_st _ _ _ hs6
    have hcnt64 : ∀ r, s6.cnt r = s4.cnt r := by
      intro r; rw [hcnt6, hrest.cnt, reserveFold_cnt]; omega
    have hinv6 : LInv x.c pre A0 Zc Tie x.zi a0 s6 V5 Lx P := by
      refine linv_drop hinv5x hst6 hpos6 ?_ ?_
      · intro r hr
        rw [isReserved_iff_cnt hpos6, hcnt6] at hr
        rw [isReserved_iff_cnt hrest.pos]
        omega
      · intro p hp
        obtain ⟨hpS, hpR, _⟩ := hinv4.prot p hp
        have e45 : LExt s4 s5 := e44r.trans e4r5
        rw [e45.allocOf hpS, isReserved_iff_cnt hpos6, hcnt64, ← isReserved_iff_cnt hinv4.rpos]
        exact hpR
    -- (8) `free_value(induction variable)`
    have hnzIv : x.c.z = true → ∀ v ∈ optL hd.iv, allocOf s4.st.asg v ≠ 0 := by
      intro hz v hv
      have hvM : v ∈ M4 := (hM4mem v).2 (Or.inl hv)
      exact held_nz (b := v) hst hext0 hTie0 hinv4 hSnz4 (Or.inl hvM : Held pre U M4 P S3 v)
        (hinv4.inv.allocd v (hinv4.inv.liveSub v hvM)) rfl
        (fun hz' => hnzB hz' v (List.mem_append_left _ (hboundI v hv)))
        (wZc v (Or.inl (hboundI v hv))) hz
    have e46 : LExt s4 s6 := e44r.trans (e4r5.trans e56)
    have hM4S : ∀ w ∈ M4, (AL.get s4.st.asg w).isSome = true :=
      fun w hw => hinv4.inv.allocd w (hinv4.inv.liveSub w hw)
    -- an iter_arg and the induction variable have different registers
    have hinitIv : ∀ i ∈ hd.inits, ∀ v ∈ optL hd.iv, allocOf s4.st.asg i ≠ allocOf s4.st.asg v := by
      intro i hi v hv heq
      obtain ⟨_, y, hyM, hyY, hyq, _⟩ := hsh4 i ((hS3mem i).2 (Or.inr hi))
      have hvM : v ∈ M4 := (hM4mem v).2 (Or.inl hv)
      have hne : y ≠ v := fun e => wIvY v hv (e ▸ hyY)
      have := hinv4.inv.pw y hyM v hvM hne (hyq.trans heq)
      exact hSnz4 this.1 i ((hS3mem i).2 (Or.inr hi)) (hyq ▸ this.2)
    have hS3S : ∀ q ∈ S3, (AL.get s4.st.asg q).isSome = true := fun q hq => (hsh4 q hq).1
    have hivS4 : ∀ v ∈ optL hd.iv, (AL.get s4.st.asg v).isSome = true :=
      fun v hv => hM4S v ((hM4mem v).2 (Or.inl hv))
    obtain ⟨hinv7, hasg7⟩ := lfold_free hst (optL hd.iv) s6 hinv6
      (fun d hd' => by
        obtain ⟨r, hr⟩ := Option.isSome_iff_exists.1 (hivS4 d hd')
        rw [e46 d r hr]; rfl)
      (by
        intro d hd' w hw heq
        rcases (hLxmem w).1 hw with ⟨h1, h2⟩ | h1
        · have hne : w ≠ d := fun e => h2 (e ▸ hboundI d hd')
          rw [hst6] at heq ⊢
          have := hinv5.inv.pw w h1 d (hivbi d hd') hne heq
          exact ⟨this.1, heq ▸ this.2⟩
        · exfalso
          rw [e46.allocOf (hS3S w ((hS3mem w).2 (Or.inr h1))), e46.allocOf (hivS4 d hd')] at heq
          exact hinitIv w h1 d hd' heq)
    -- (9) `allocate_value(lb)`
    obtain ⟨hinvF, _⟩ := lfold_live hst hzc hext0 hTie0 gPW hPa0 (optL hd.lb) _ s V5 Lx hrun hinv7
      (fun v hv => (wSc v (Or.inl (hhdrO v (hopL v hv)))).2)
      (fun v hv => by rw [mem_beforeOf]; exact Or.inr (Or.inl hv))
      (fun w hw => hLxbf w ((hLxmem w).1 hw))
      (by
        intro v hv hvV
        have hop := hopL v hv
        rcases hVL5 v hvV with h | h | h | h
        · exact Or.inl ((hLxmem v).2 (Or.inl ⟨h, (wOps v hop).1⟩))
        · rcases List.mem_append.1 h with h | h
          · exact Or.inr h
          · rcases (hS3mem v).1 h with h1 | h1
            · exact absurd (hboundB v h1) (wOps v hop).1
            · exact Or.inl ((hLxmem v).2 (Or.inr h1))
        · rcases List.mem_append.1 h with h | h
          · rcases List.mem_append.1 h with h | h
            · exact absurd (hocc v (Or.inl (hhdrO v hop))) (hD v h)
            · exact absurd h (wSc v (Or.inl (hhdrO v hop))).1
          · exact absurd h (wOps v hop).2.1
        · exact absurd h (wOps v hop).2.2)
    -- registers in the final assignment
    have e4s : LExt s4 s := e44r.trans (e4r5.trans e5s)
    have e3s : LExt s3 s := e34.trans e4s
    have haf4 : ∀ v, (AL.get s4.st.asg v).isSome = true → af v = allocOf s4.st.asg v :=
      fun v hv => af_allocOf (af_of_ext e4s hf) hv
    have haf5 : ∀ v, (AL.get s5.st.asg v).isSome = true → af v = allocOf s5.st.asg v :=
      fun v hv => af_allocOf (af_of_ext e5s hf) hv
    have haf1 : ∀ v, (AL.get s1.st.asg v).isSome = true → af v = allocOf s1.st.asg v :=
      fun v hv => af_allocOf (af_of_ext e1s hf) hv
    -- all members of a group: one register
    have hgrp : ∀ g ∈ hd.groups, ∀ m ∈ g, af m = af (gB g) := by
      intro g hg m hm
      obtain ⟨ρ, hρ⟩ := hsame3 g hg
      have hfs := af_of_ext e3s hf
      rw [hfs m ρ (hρ m hm), hfs (gB g) ρ (hρ _ (gB_mem (groups_shape _ _ _ _ g hg)))]
    have hafB : ∀ g ∈ hd.groups, af (gB g) = allocOf s4.st.asg (gB g) := fun g hg =>
      haf4 _ (hS3S _ ((hS3mem _).2 (Or.inl (gmem g hg).1)))
    have hnzS : x.c.z = true → ∀ g ∈ hd.groups, af (gB g) ≠ 0 := fun hz g hg => by
      rw [hafB g hg]; exact hSnz4 hz _ ((hS3mem _).2 (Or.inl (gmem g hg).1))
    have hafIv : ∀ v ∈ optL hd.iv, af v = allocOf s4.st.asg v := fun v hv => haf4 v (hivS4 v hv)
    have hpwM4 : ∀ v ∈ M4, ∀ w ∈ M4, v ≠ w → af v = af w → (x.c.z = true ∧ af v = 0) := by
      intro v hv w hw hne heq
      rw [haf4 v (hM4S v hv), haf4 w (hM4S w hw)] at heq
      rw [haf4 v (hM4S v hv)]
      exact hinv4.inv.pw v hv w hw hne heq
    have hbiS : ∀ w ∈ bi, (AL.get s5.st.asg w).isSome = true :=
      fun w hw => hinv5.inv.allocd w (hinv5.inv.liveSub w hw)
    have hpwBi : ∀ v ∈ bi, ∀ w ∈ bi, v ≠ w → af v = af w → (x.c.z = true ∧ af v = 0) := by
      intro v hv w hw hne heq
      rw [haf5 v (hbiS v hv), haf5 w (hbiS w hw)] at heq
      rw [haf5 v (hbiS v hv)]
      exact hinv5.inv.pw v hv w hw hne heq
    have hafnzIv : x.c.z = true → ∀ v ∈ optL hd.iv, af v ≠ 0 := fun hz v hv => by
      rw [hafIv v hv]; exact hnzIv hz v hv
    have Gf : LoopGood x.c.z af Z hd L' th bo bi ae := {
      ivlb := G0.ivlb, ivub := G0.ivub, stepiv := G0.stepiv, repiv := G0.repiv
      lenB := G0.lenB, lenY := G0.lenY, lenR := G0.lenR, nodup := G0.nodup, fresh := G0.fresh
      inSub := G0.inSub
      tied := by
        intro g hg
        have hs := groups_shape _ _ _ _ g hg
        have h1 := hgrp g hg _ (gI_mem hs)
        have h2 := hgrp g hg _ (gY_mem hs)
        have h3 := hgrp g hg _ (gR_mem hs)
        rw [hs]
        simp only [tiedB, List.all_cons, List.all_nil, Bool.and_true, Bool.and_eq_true, beq_iff_eq]
        exact ⟨h1, h2, h3⟩
      nz := by
        intro hz v hv
        rcases List.mem_append.1 hv with h | h
        · simp only [Loop.bound, List.mem_append] at h
          rcases h with h | h
          · exact hafnzIv hz v h
          · obtain ⟨g, hg, rfl⟩ := hbargG v h
            exact hnzS hz g hg
        · obtain ⟨g, hg, rfl⟩ := hresY v h
          rw [hgrp g hg _ (gR_mem (groups_shape _ _ _ _ g hg))]
          exact hnzS hz g hg
      resFree := by
        intro d hd' w hw hwr heq
        obtain ⟨g, hg, rfl⟩ := hresY d hd'
        have hs := groups_shape _ _ _ _ g hg
        rw [hgrp g hg _ (gR_mem hs), ← hgrp g hg _ (gY_mem hs)] at heq
        have hyM : gY g ∈ M4 := hboM4 _ (hybo _ (gmem g hg).2.2.1)
        have hwM : w ∈ M4 := hboM4 _ (hthbo w (hLth w hw hwr))
        have hne : w ≠ gY g := fun e => wYL _ (gmem g hg).2.2.1 (e ▸ hLth w hw hwr)
        have := hpwM4 w hwM _ hyM hne heq
        rw [heq, hgrp g hg _ (gY_mem hs)] at this
        exact hnzS this.1 g hg this.2
      pwAfter := by
        intro v hv w hw hne heq
        have hvS := hinv1.inv.allocd v (hinv1.inv.liveSub v hv)
        have hwS := hinv1.inv.allocd w (hinv1.inv.liveSub w hw)
        rw [haf1 v hvS, haf1 w hwS] at heq
        rw [haf1 v hvS]
        exact hinv1.inv.pw v hv w hw hne heq
      pwOut := fun v hv w hw hne heq => hpwM4 v (hboM4 v hv) w (hboM4 w hw) hne heq
      ivY := by
        intro d hd' y hy heq
        have hne : y ≠ d := fun e => wIvY d hd' (e ▸ hy)
        have := hpwM4 y (hboM4 y (hybo y hy)) d (hboM4 d (hivbo d hd')) hne heq
        exact hafnzIv this.1 d hd' (heq ▸ this.2)
      pwEntry := fun v hv w hw hne heq => hpwBi v (haebi v hv) w (haebi w hw) hne heq
      ivFree := by
        intro d hd' w hw heq
        rcases hw with ⟨h1, h2⟩ | h1
        · have hne : w ≠ d := fun e => h2 (e ▸ hboundI d hd')
          have := hpwBi w (haebi w h1) d (hivbi d hd') hne heq
          exact hafnzIv this.1 d hd' (heq ▸ this.2)
        · rw [haf4 w (hS3S w ((hS3mem w).2 (Or.inr h1))), hafIv d hd'] at heq
          exact hinitIv w h1 d hd' heq }
    -- the seen values
    have hV5mem : ∀ v, v ∈ V5 ↔ (v ∈ allValsT body ∨ v ∈ V4) := hV5
    refine ⟨(optL hd.lb).reverse ++ V5, ?_, ?_, ?_, ?_, ?_⟩
    · intro v
      simp only [List.mem_append, List.mem_reverse, hV5mem, hV4mem, allValsT, Loop.operands, Loop.bound, wRep]
      constructor
      · rintro (h | h | h | h | h | h)
        · exact Or.inl (Or.inl (Or.inl (Or.inl (Or.inl (Or.inl (Or.inl (Or.inl (Or.inl (Or.inl h)))))))))
        · exact Or.inl (Or.inl (Or.inr h))
        · exact Or.inl (Or.inl (Or.inl (Or.inl (Or.inr (Or.inl h)))))
        · exact Or.inl (Or.inl (Or.inl (Or.inl (Or.inl (Or.inl (Or.inl (Or.inl (Or.inl (Or.inr h)))))))))
        · exact Or.inl (Or.inl (Or.inl (Or.inl (Or.inl (Or.inl (Or.inl (Or.inl (Or.inr h))))))))
        · rcases hV3mem v h with h1 | h1 | h1 | h1 | h1 | h1
          · rcases (liveIns_sub hd body v h1).1 with h2 | h2
            · exact Or.inl (Or.inl (Or.inr h2))
            · exact Or.inl (Or.inl (Or.inl (Or.inr h2)))
          · rcases (hV1 v).1 h1 with h2 | h2
            · exact Or.inl (Or.inr h2)
            · exact Or.inr h2
          · exact Or.inl (Or.inl (Or.inl (Or.inl (Or.inr (Or.inr h1)))))
          · exact Or.inl (Or.inl (Or.inl (Or.inl (Or.inl (Or.inl (Or.inr h1))))))
          · exact Or.inl (Or.inl (Or.inl (Or.inr h1)))
          · exact Or.inl (Or.inl (Or.inl (Or.inl (Or.inl (Or.inr h1)))))
      · intro h
        have hV3in : v ∈ V3 → v ∈ optL hd.lb ∨ v ∈ allValsT body ∨ v ∈ optL hd.iv ∨ v ∈ optL hd.ub ∨ v ∈ optL hd.step ∨ v ∈ V3 :=
          fun h' => Or.inr (Or.inr (Or.inr (Or.inr (Or.inr h'))))
        have hgm : ∀ g ∈ hd.groups, ∀ m ∈ g, m ∈ V3 := fun g hg m hm => (hV3 m).2 (Or.inr ⟨g, hg, hm⟩)
        rcases h with (((((((((h | h) | h) | h) | h) | h) | (h | h)) | h) | h) | h) | h
        · exact Or.inl h
        · exact Or.inr (Or.inr (Or.inr (Or.inl h)))
        · exact Or.inr (Or.inr (Or.inr (Or.inr (Or.inl h))))
        · simp [optL] at h
        · obtain ⟨g, hg, rfl⟩ := hinitG v h
          exact hV3in (hgm g hg _ (gI_mem (groups_shape _ _ _ _ g hg)))
        · obtain ⟨g, hg, rfl⟩ := hresY v h
          exact hV3in (hgm g hg _ (gR_mem (groups_shape _ _ _ _ g hg)))
        · exact Or.inr (Or.inr (Or.inl h))
        · obtain ⟨g, hg, rfl⟩ := hbargG v h
          exact hV3in (hgm g hg _ (gB_mem (groups_shape _ _ _ _ g hg)))
        · have : v ∈ hd.groups.map gY := by rw [mY]; exact h
          obtain ⟨g, hg, rfl⟩ := List.mem_map.1 this
          exact hV3in (hgm g hg _ (gY_mem (groups_shape _ _ _ _ g hg)))
        · exact Or.inr (Or.inl h)
        · exact hV3in ((hV3 v).2 (Or.inl (List.mem_append_right _ ((hV1 v).2 (Or.inl h)))))
        · exact hV3in ((hV3 v).2 (Or.inl (List.mem_append_right _ ((hV1 v).2 (Or.inr h)))))
    · rw [hbf]
      refine hinvF.mono (fun _ => Iff.rfl) ?_
      intro v hv
      rw [mem_beforeOf] at hv
      rcases hv with ⟨h1, h2⟩ | h1 | h1 | h1
      · exact List.mem_append_right _ ((hLxmem v).2 (Or.inl ⟨haebi v h1, h2⟩))
      · exact List.mem_append_left _ (List.mem_reverse.2 h1)
      · rw [wRep] at h1; simp [optL] at h1
      · exact List.mem_append_right _ ((hLxmem v).2 (Or.inr h1))
    · exact hext01.trans e1s
    · rw [hbf]
      simp only [checkT, hchkN, hth, hbo, hchkB, hae]
      rw [if_pos (loopOk_of_good Gf)]
    · intro v hv
      rw [hbf]
      simp only [defsT, List.mem_append]
      have hbnd : v ∈ hd.bound → v ∈ beforeOf hd ae ∨ v ∈ P ∨ v ∈ D ∨ (((v ∈ hd.bound ∨ v ∈ hd.res) ∨ v ∈ defsT body) ∨ v ∈ defsT next) :=
        fun h => Or.inr (Or.inr (Or.inr (Or.inl (Or.inl (Or.inl h)))))
      rcases List.mem_append.1 hv with h | h
      · exact Or.inl (by rw [mem_beforeOf]; exact Or.inr (Or.inl (List.mem_reverse.1 h)))
      · rcases hVL5 v h with h1 | h1 | h1 | h1
        · by_cases hb : v ∈ hd.bound
          · exact hbnd hb
          · exact Or.inl (by rw [mem_beforeOf]; exact Or.inl ⟨hbiae v h1, hb⟩)
        · rcases List.mem_append.1 h1 with h2 | h2
          · exact Or.inr (Or.inl h2)
          · rcases (hS3mem v).1 h2 with h3 | h3
            · exact hbnd (hboundB v h3)
            · exact Or.inl (by rw [mem_beforeOf]; exact Or.inr (Or.inr (Or.inr h3)))
        · rcases List.mem_append.1 h1 with h2 | h2
          · rcases List.mem_append.1 h2 with h3 | h3
            · exact Or.inr (Or.inr (Or.inl h3))
            · exact Or.inr (Or.inr (Or.inr (Or.inr h3)))
          · exact Or.inr (Or.inr (Or.inr (Or.inl (Or.inl (Or.inr h2)))))
        · exact Or.inr (Or.inr (Or.inr (Or.inl (Or.inr h1))))

end Main

end Xdsl.RegAllocLoop
