import XdslModel.Skeleton
import XdslProofs.Lemmas.AL
/-!
A naming read off two parallel lists (values in some order, the names allocated for them).
-/
namespace Xdsl.Skeleton
open Names

theorem allocFrom_length (hs : List (Option Str)) : ∀ sc : Scope, (allocFrom sc hs).length = hs.length := by
  induction hs with
  | nil => intro sc; rfl
  | cons h hs ih => intro sc; simp [allocFrom, ih]

/-- the naming that gives the `i`-th value of `order` the `i`-th allocated name -/
def namingOf (order : List Nat) (names : List Str) (x : Nat) : Str :=
  (AL.get (order.zip names) x).getD []

theorem get_zip_mem (order : List Nat) : ∀ (names : List Str) (x : Nat) (n : Str),
    AL.get (order.zip names) x = some n → n ∈ names := by
  induction order with
  | nil => intro names x n h; simp at h
  | cons a order ih =>
    intro names x n h
    cases names with
    | nil => simp at h
    | cons m names =>
      simp only [List.zip_cons_cons, AL.get_cons] at h
      split at h
      · cases h; simp
      · exact List.mem_cons_of_mem _ (ih names x n h)

theorem get_zip_some (order : List Nat) : ∀ (names : List Str) (x : Nat),
    order.length = names.length → x ∈ order → ∃ n, AL.get (order.zip names) x = some n := by
  induction order with
  | nil => intro names x _ h; cases h
  | cons a order ih =>
    intro names x hl hx
    cases names with
    | nil => simp at hl
    | cons m names =>
      simp only [List.zip_cons_cons, AL.get_cons]
      by_cases e : a = x
      · exact ⟨m, by simp [e]⟩
      · simp only [e, if_false]
        exact ih names x (by simpa using hl) (by
          rcases List.mem_cons.mp hx with h | h
          · exact absurd h.symm e
          · exact h)

theorem get_zip_inj (order : List Nat) : ∀ (names : List Str) (x y : Nat) (n : Str),
    names.Nodup → AL.get (order.zip names) x = some n → AL.get (order.zip names) y = some n →
    x = y := by
  induction order with
  | nil => intro names x y n _ h; simp at h
  | cons a order ih =>
    intro names x y n hnd hx hy
    cases names with
    | nil => simp at hx
    | cons m names =>
      simp only [List.zip_cons_cons, AL.get_cons] at hx hy
      have hnd' := List.nodup_cons.mp hnd
      split at hx <;> split at hy
      · rename_i e1 e2; exact e1.symm.trans e2
      · cases hx; exact absurd (get_zip_mem order names y _ hy) hnd'.1
      · cases hy; exact absurd (get_zip_mem order names x _ hx) hnd'.1
      · exact ih names x y n hnd'.2 hx hy

end Xdsl.Skeleton
