import XdslProofs.Lemmas.CloneIso
/-!
C02 helper lemmas, part 4: every identity created by phase 1 comes from the allocator — it is
`≥ st.next`, below the final `next`, and no identity is handed out twice.
-/
namespace Xdsl.Clone

theorem nodup_hdr (n len : Nat) : (n :: (n + 1) :: (n + 2) :: List.range' (n + 3) len).Nodup := by
  simp only [List.nodup_cons, List.mem_cons, List.mem_range'_1]
  exact ⟨by omega, by omega, by omega, List.nodup_range' 1⟩

theorem mem_hdr {n len i : Nat} (h : i ∈ (n :: (n + 1) :: (n + 2) :: List.range' (n + 3) len)) :
    n ≤ i ∧ i < n + 3 + len := by
  simp only [List.mem_cons, List.mem_range'_1] at h
  omega

theorem hdrIds_cloneHdr (st : St) (h : OpHdr) (co : Bool) :
    hdrIds (cloneHdr st h co).1
      = st.next :: (st.next + 1) :: (st.next + 2) :: List.range' (st.next + 3) h.results.length := by
  simp [hdrIds, cloneHdr, cloneVals_ids]

/-- identities of the copy: the blocks of the chain itself are the pending ones `nb …`, everything
else was allocated during the call -/
theorem c1_ids_range {k : Kind} (t : T k) (nb : Nat) (st : St) :
    ∀ i ∈ ids (c1 nb st t).1,
      (nb ≤ i ∧ i < nb + dlen t) ∨ (st.next ≤ i ∧ i < (c1 nb st t).2.next) := by
  induction t generalizing nb st with
  | nil => simp [c1, ids]
  | op h rs nx ih1 ih2 =>
    intro i hi
    simp only [c1, ids, List.mem_append] at hi
    have l1 := c1_next_le rs 0 (cloneHdr st h false).2
    have l2 := c1_next_le nx 0 (c1 0 (cloneHdr st h false).2 rs).2
    simp only [cloneHdr_next] at l1
    simp only [c1]
    right
    rcases hi with hi | hi | hi
    · rw [hdrIds_cloneHdr] at hi
      have := mem_hdr hi
      omega
    · have := ih1 0 (cloneHdr st h false).2 i hi
      simp only [dlen_regions, cloneHdr_next] at this
      omega
    · have := ih2 0 (c1 0 (cloneHdr st h false).2 rs).2 i hi
      simp only [dlen_ops] at this
      omega
  | region bs nx ih1 ih2 =>
    intro i hi
    simp only [c1, ids, List.mem_append] at hi
    have l1 := c1_next_le bs st.next { st with bm := (regBlocks st.bm st.next bs).1, next := (regBlocks st.bm st.next bs).2 }
    have l2 := c1_next_le nx 0 (c1 st.next { st with bm := (regBlocks st.bm st.next bs).1, next := (regBlocks st.bm st.next bs).2 } bs).2
    simp only [regBlocks_next] at l1 l2
    simp only [c1, regBlocks_next]
    right
    rcases hi with hi | hi
    · have := ih1 st.next { st with bm := (regBlocks st.bm st.next bs).1, next := (regBlocks st.bm st.next bs).2 } i hi
      simp only [regBlocks_next] at this
      omega
    · have := ih2 0 (c1 st.next { st with bm := (regBlocks st.bm st.next bs).1, next := (regBlocks st.bm st.next bs).2 } bs).2 i hi
      simp only [dlen_regions, regBlocks_next] at this
      omega
  | block h ops nx ih1 ih2 =>
    intro i hi
    simp only [c1, ids, List.mem_append, List.mem_cons, cloneVals_ids, List.mem_range'_1] at hi
    have l1 := c1_next_le ops 0 { st with vm := (cloneVals st.vm st.next h.args).2.1, next := (cloneVals st.vm st.next h.args).2.2 }
    have l2 := c1_next_le nx (nb + 1) (c1 0 { st with vm := (cloneVals st.vm st.next h.args).2.1, next := (cloneVals st.vm st.next h.args).2.2 } ops).2
    simp only [cloneVals_next] at l1 l2
    simp only [c1, dlen, cloneVals_next]
    rcases hi with (hi | hi) | hi | hi
    · left; omega
    · right; omega
    · have := ih1 0 { st with vm := (cloneVals st.vm st.next h.args).2.1, next := (cloneVals st.vm st.next h.args).2.2 } i hi
      simp only [dlen_ops, cloneVals_next] at this
      right; omega
    · have := ih2 (nb + 1) (c1 0 { st with vm := (cloneVals st.vm st.next h.args).2.1, next := (cloneVals st.vm st.next h.args).2.2 } ops).2 i hi
      simp only [cloneVals_next] at this
      omega

theorem c1_next_le' {k : Kind} (t : T k) (nb : Nat) (vm bm : AL Nat Nat) (n : Nat) :
    n ≤ (c1 nb ⟨vm, bm, n⟩ t).2.next := c1_next_le t nb ⟨vm, bm, n⟩

theorem c1_ids_range' {k : Kind} (t : T k) (nb : Nat) (vm bm : AL Nat Nat) (n : Nat) :
    ∀ i ∈ ids (c1 nb ⟨vm, bm, n⟩ t).1,
      (nb ≤ i ∧ i < nb + dlen t) ∨ (n ≤ i ∧ i < (c1 nb ⟨vm, bm, n⟩ t).2.next) :=
  c1_ids_range t nb ⟨vm, bm, n⟩

theorem c1_ids_nodup {k : Kind} (t : T k) (nb : Nat) (st : St) (hnb : nb + dlen t ≤ st.next) :
    (ids (c1 nb st t).1).Nodup := by
  induction t generalizing nb st with
  | nil => simp [c1, ids]
  | op h rs nx ih1 ih2 =>
    have l1 := c1_next_le rs 0 (cloneHdr st h false).2
    simp only [cloneHdr_next] at l1
    have r1 := c1_ids_range rs 0 (cloneHdr st h false).2
    have r2 := c1_ids_range nx 0 (c1 0 (cloneHdr st h false).2 rs).2
    simp only [dlen_regions, cloneHdr_next] at r1
    simp only [dlen_ops] at r2
    simp only [c1, ids, List.nodup_append, List.mem_append]
    refine ⟨by rw [hdrIds_cloneHdr]; exact nodup_hdr _ _,
      ⟨ih1 0 _ (by simp [dlen_regions]), ih2 0 _ (by simp [dlen_ops]), ?_⟩, ?_⟩
    · intro a ha b hb
      have := r1 a ha; have := r2 b hb; omega
    · intro a ha b hb
      rw [hdrIds_cloneHdr] at ha
      have := mem_hdr ha
      rcases hb with hb | hb
      · have := r1 b hb; omega
      · have := r2 b hb; omega
  | region bs nx ih1 ih2 =>
    have r1 := c1_ids_range' bs st.next st.vm (regBlocks st.bm st.next bs).1 (regBlocks st.bm st.next bs).2
    have r2 := c1_ids_range nx 0 (c1 st.next { st with bm := (regBlocks st.bm st.next bs).1, next := (regBlocks st.bm st.next bs).2 } bs).2
    have l1 := c1_next_le' bs st.next st.vm (regBlocks st.bm st.next bs).1 (regBlocks st.bm st.next bs).2
    have e1 := regBlocks_next st.bm st.next bs
    simp only [dlen_regions] at r2
    simp only [c1, ids, List.nodup_append]
    refine ⟨ih1 st.next _ (by simp [regBlocks_next]), ih2 0 _ (by simp [dlen_regions]), ?_⟩
    intro a ha b hb
    have := r1 a ha; have := r2 b hb; omega
  | block h ops nx ih1 ih2 =>
    simp only [dlen] at hnb
    have l1 := c1_next_le' ops 0 (cloneVals st.vm st.next h.args).2.1 st.bm (cloneVals st.vm st.next h.args).2.2
    have e1 := cloneVals_next st.vm st.next h.args
    have r1 := c1_ids_range' ops 0 (cloneVals st.vm st.next h.args).2.1 st.bm (cloneVals st.vm st.next h.args).2.2
    have r2 := c1_ids_range nx (nb + 1) (c1 0 { st with vm := (cloneVals st.vm st.next h.args).2.1, next := (cloneVals st.vm st.next h.args).2.2 } ops).2
    simp only [dlen_ops] at r1
    simp only [c1, ids, List.nodup_append, List.mem_append, List.nodup_cons, List.mem_cons,
      cloneVals_ids, List.mem_range'_1]
    refine ⟨⟨by omega, List.nodup_range' 1⟩,
      ⟨ih1 0 _ (by simp [dlen_ops]), ih2 (nb + 1) _ (by omega), ?_⟩, ?_⟩
    · intro a ha b hb
      have := r1 a ha; have := r2 b hb; omega
    · intro a ha b hb
      rcases hb with hb | hb
      · have := r1 b hb; omega
      · have := r2 b hb; omega

end Xdsl.Clone
