import XdslProofs.Lemmas.ArgSpecLex
/-!
C18: the token image of printed specs (stage A: the lexer on printed text yields it; stage B: the
parser on it yields the spec back).
-/
namespace Xdsl.ArgSpec

def commaTok : Token := ⟨.comma, [',']⟩
def spaceTok : Token := ⟨.space, [' ']⟩
def equalsTok : Token := ⟨.equals, ['=']⟩
def lbraceTok : Token := ⟨.lbrace, ['{']⟩
def rbraceTok : Token := ⟨.rbrace, ['}']⟩
def eofTok : Token := ⟨.eof, []⟩

section
variable {F : Type} (repr : F → List Char) (ofText : List Char → F)

/-- the single token a printed value lexes to -/
def valTok : PVal F → Token
  | .bool b => ⟨.ident, if b then kwTrue else kwFalse⟩
  | .str s => ⟨.stringLit, strText s⟩
  | .int i => ⟨.number, showInt i⟩
  | .float f => floatTok (printFloatText (repr f))

def valsToks : List (PVal F) → List Token
  | [] => []
  | [v] => [valTok repr v]
  | v :: w :: r => valTok repr v :: commaTok :: valsToks (w :: r)

def paramToks (p : List Char × List (PVal F)) : List Token :=
  match p.2 with
  | [] => [⟨.ident, p.1⟩]
  | vs => ⟨.ident, p.1⟩ :: equalsTok :: valsToks repr vs

def paramsToks : List (List Char × List (PVal F)) → List Token
  | [] => []
  | [p] => paramToks repr p
  | p :: q :: r => paramToks repr p ++ spaceTok :: paramsToks (q :: r)

def specToks (s : Spec F) : List Token :=
  match s.params with
  | [] => [⟨.ident, s.name⟩]
  | ps => ⟨.ident, s.name⟩ :: lbraceTok :: (paramsToks repr ps ++ [rbraceTok])

def pipeToks : List (Spec F) → List Token
  | [] => []
  | [s] => specToks repr s
  | s :: t :: r => specToks repr s ++ commaTok :: pipeToks (t :: r)

/-! ### stage A: lexing printed text -/

theorem delimStart_comma (r : List Char) : DelimStart (',' :: r) := by simp [DelimStart, isDelim]
theorem delimStart_space (r : List Char) : DelimStart (' ' :: r) := by simp [DelimStart, isDelim]
theorem delimStart_rbrace (r : List Char) : DelimStart ('}' :: r) := by simp [DelimStart, isDelim]
theorem delimStart_lbrace (r : List Char) : DelimStart ('{' :: r) := by simp [DelimStart, isDelim]
theorem delimStart_equals (r : List Char) : DelimStart ('=' :: r) := by simp [DelimStart, isDelim]

theorem lex_val (hrepr : ∀ f, FloatRepr (repr f)) (v : PVal F) {rest : List Char} (hrest : DelimStart rest) :
    lexAll (printVal repr v ++ rest) = valTok repr v :: lexAll rest := by
  cases v with
  | bool b =>
    cases b
    · exact lex_name isName_kwFalse hrest
    · exact lex_name isName_kwTrue hrest
  | str s => exact lex_string s rest
  | int i => exact lex_int i hrest
  | float f => exact lex_float (hrepr f) hrest

theorem lex_vals (hrepr : ∀ f, FloatRepr (repr f)) (vs : List (PVal F)) (hne : vs ≠ []) {rest : List Char}
    (hrest : DelimStart rest) :
    lexAll (joinWith ',' (vs.map (printVal repr)) ++ rest) = valsToks repr vs ++ lexAll rest := by
  induction vs with
  | nil => exact absurd rfl hne
  | cons v vs ih =>
    cases vs with
    | nil => simpa [joinWith, valsToks] using lex_val repr hrepr v hrest
    | cons w r =>
      have ih' := ih (by simp)
      simp only [List.map_cons, joinWith, valsToks, List.append_assoc, List.cons_append] at ih' ⊢
      rw [lex_val repr hrepr v (delimStart_comma _), lex_comma]
      rw [ih']; rfl

theorem lex_param (hrepr : ∀ f, FloatRepr (repr f)) (p : List Char × List (PVal F)) (hk : IsName p.1)
    {rest : List Char} (hrest : DelimStart rest) :
    lexAll (printParam repr p ++ rest) = paramToks repr p ++ lexAll rest := by
  obtain ⟨k, vs⟩ := p
  cases vs with
  | nil => simpa [printParam, paramToks] using lex_name hk hrest
  | cons v vs =>
    simp only [printParam, paramToks, List.append_assoc, List.cons_append]
    rw [lex_name hk (delimStart_equals _), lex_equals, lex_vals repr hrepr (v :: vs) (by simp) hrest]
    rfl

theorem printParam_head (p : List Char × List (PVal F)) (hk : IsName p.1) :
    ∃ c t, printParam repr p = c :: t ∧ isSpace c = false := by
  obtain ⟨k, vs⟩ := p
  obtain ⟨c, r, hkr, hc⟩ := isName_head hk
  simp only at hkr
  subst hkr
  cases vs with
  | nil => exact ⟨c, r, rfl, hc⟩
  | cons v vs => exact ⟨c, r ++ '=' :: joinWith ',' ((v :: vs).map (printVal repr)), by simp [printParam], hc⟩

theorem joinWith_head {sep : Char} {x : List Char} {xs : List (List Char)} {c : Char} {t : List Char}
    (h : x = c :: t) : ∃ t', joinWith sep (x :: xs) = c :: t' := by
  cases xs with
  | nil => exact ⟨t, by simp [joinWith, h]⟩
  | cons y ys => exact ⟨t ++ sep :: joinWith sep (y :: ys), by simp [joinWith, h]⟩

theorem lex_params (hrepr : ∀ f, FloatRepr (repr f)) (ps : List (List Char × List (PVal F)))
    (hk : ∀ p ∈ ps, IsName p.1) (hne : ps ≠ []) (rest : List Char) :
    lexAll (joinWith ' ' (ps.map (printParam repr)) ++ '}' :: rest) =
      paramsToks repr ps ++ lexAll ('}' :: rest) := by
  induction ps with
  | nil => exact absurd rfl hne
  | cons p ps ih =>
    cases ps with
    | nil => simpa [joinWith, paramsToks] using lex_param repr hrepr p (hk p (by simp)) (delimStart_rbrace rest)
    | cons q r =>
      have ih' := ih (fun x hx => hk x (by simp [hx])) (by simp)
      obtain ⟨c, t, hq, hc⟩ := printParam_head repr q (hk q (by simp))
      obtain ⟨t', hj⟩ := joinWith_head (sep := ' ') (xs := r.map (printParam repr)) hq
      simp only [List.map_cons, joinWith, paramsToks, List.append_assoc, List.cons_append] at ih' ⊢
      rw [lex_param repr hrepr p (hk p (by simp)) (delimStart_space _)]
      rw [lex_space (by rw [hj]; exact Or.inr ⟨c, _, rfl, hc⟩)]
      rw [ih']; rfl

theorem lex_spec (hrepr : ∀ f, FloatRepr (repr f)) (s : Spec F) (hn : IsName s.name)
    (hk : ∀ p ∈ s.params, IsName p.1) {rest : List Char} (hrest : DelimStart rest) :
    lexAll (printSpec repr s ++ rest) = specToks repr s ++ lexAll rest := by
  obtain ⟨name, params⟩ := s
  cases params with
  | nil => simpa [printSpec, specToks] using lex_name hn hrest
  | cons p ps =>
    simp only [printSpec, specToks, List.append_assoc, List.cons_append, List.nil_append]
    rw [lex_name hn (delimStart_lbrace _), lex_lbrace, lex_params repr hrepr (p :: ps) hk (by simp), lex_rbrace]
    simp [rbraceTok, lbraceTok]

theorem lex_pipeline (hrepr : ∀ f, FloatRepr (repr f)) (ss : List (Spec F))
    (hn : ∀ s ∈ ss, IsName s.name ∧ ∀ p ∈ s.params, IsName p.1) :
    lexAll (printPipeline repr ss) = pipeToks repr ss ++ [eofTok] := by
  induction ss with
  | nil => simp [printPipeline, joinWith, pipeToks, lexAll_nil, eofTok]
  | cons s ss ih =>
    cases ss with
    | nil =>
      have := lex_spec repr hrepr s (hn s (by simp)).1 (hn s (by simp)).2 (rest := []) trivial
      simpa [printPipeline, joinWith, pipeToks, lexAll_nil, eofTok] using this
    | cons t r =>
      have ih' := ih (fun x hx => hn x (by simp [hx]))
      simp only [printPipeline, List.map_cons, joinWith, pipeToks, List.append_assoc, List.cons_append] at ih' ⊢
      rw [lex_spec repr hrepr s (hn s (by simp)).1 (hn s (by simp)).2 (delimStart_comma _), lex_comma, ih']
      rfl


/-! ### stage B: parsing the token image -/

theorem parseElem_valTok (hrepr : ∀ f, FloatRepr (repr f)) (hlaw : ∀ f, ofText (printFloatText (repr f)) = f)
    (v : PVal F) : parseElem ofText (valTok repr v) = some v := by
  cases v with
  | bool b => cases b <;> simp [valTok, parseElem] <;> decide
  | str s => simp only [valTok, parseElem]; rw [strText_body, unescape_escape]
  | int i => simp only [valTok, parseElem, showInt_no_dot]; simp [parseInt_showInt]
  | float f =>
    rcases printFloatText_shape (hrepr f) with h | h | h | h
    · simp only [valTok, floatTok_of_dot h, parseElem, h, ↓reduceIte, hlaw]
    · have := hlaw f
      rw [h] at this
      simp only [valTok, h, show floatTok kwInf = ⟨.ident, kwInf⟩ by decide, parseElem]
      simp [this, show kwInf ≠ kwTrue by decide, show kwInf ≠ kwFalse by decide]
    · have := hlaw f
      rw [h] at this
      simp only [valTok, h, show floatTok kwNegInf = ⟨.ident, kwNegInf⟩ by decide, parseElem]
      simp [this, show kwNegInf ≠ kwTrue by decide, show kwNegInf ≠ kwFalse by decide]
    · have := hlaw f
      rw [h] at this
      simp only [valTok, h, show floatTok kwNan = ⟨.ident, kwNan⟩ by decide, parseElem]
      simp [this, show kwNan ≠ kwTrue by decide, show kwNan ≠ kwFalse by decide]

/-- `d[k] = v` for every parameter in turn -/
def foldDict (args : List (List Char × List (PVal F))) (ps : List (List Char × List (PVal F))) :
    List (List Char × List (PVal F)) := ps.foldl (fun d p => dictSet d p.1 p.2) args

theorem pElems_vals (hrepr : ∀ f, FloatRepr (repr f)) (hlaw : ∀ f, ofText (printFloatText (repr f)) = f)
    (acc : List (Spec F)) (name : List Char) (args : List (List Char × List (PVal F))) (key : List Char)
    (vs : List (PVal F)) (hne : vs ≠ []) (elems : List (PVal F)) (r : List Token) :
    pElems ofText acc name args key elems (valsToks repr vs ++ spaceTok :: r) =
        pParams ofText acc name (dictSet args key (elems ++ vs)) r ∧
    pElems ofText acc name args key elems (valsToks repr vs ++ rbraceTok :: r) =
        pAfter ofText (acc ++ [⟨name, dictSet args key (elems ++ vs)⟩]) r := by
  induction vs generalizing elems with
  | nil => exact absurd rfl hne
  | cons v vs ih =>
    cases vs with
    | nil =>
      simp [valsToks, pElems, parseElem_valTok repr ofText hrepr hlaw, spaceTok, rbraceTok]
    | cons w t =>
      have ih' := ih (by simp) (elems ++ [v])
      simp only [valsToks, List.cons_append, pElems, parseElem_valTok repr ofText hrepr hlaw, commaTok]
      simpa using ih'

theorem pParams_param (hrepr : ∀ f, FloatRepr (repr f)) (hlaw : ∀ f, ofText (printFloatText (repr f)) = f)
    (acc : List (Spec F)) (name : List Char) (args : List (List Char × List (PVal F)))
    (p : List Char × List (PVal F)) (r : List Token) :
    pParams ofText acc name args (paramToks repr p ++ spaceTok :: r) =
        pParams ofText acc name (dictSet args p.1 p.2) r ∧
    pParams ofText acc name args (paramToks repr p ++ rbraceTok :: r) =
        pAfter ofText (acc ++ [⟨name, dictSet args p.1 p.2⟩]) r := by
  obtain ⟨k, vs⟩ := p
  cases vs with
  | nil => simp [paramToks, pParams, spaceTok, rbraceTok]
  | cons v vs =>
    have := pElems_vals repr ofText hrepr hlaw acc name args k (v :: vs) (by simp) [] r
    simp only [paramToks, List.cons_append, pParams, equalsTok]
    simpa using this

theorem pParams_params (hrepr : ∀ f, FloatRepr (repr f)) (hlaw : ∀ f, ofText (printFloatText (repr f)) = f)
    (acc : List (Spec F)) (name : List Char) (ps : List (List Char × List (PVal F))) (hne : ps ≠ [])
    (args : List (List Char × List (PVal F))) (r : List Token) :
    pParams ofText acc name args (paramsToks repr ps ++ rbraceTok :: r) =
      pAfter ofText (acc ++ [⟨name, foldDict args ps⟩]) r := by
  induction ps generalizing args with
  | nil => exact absurd rfl hne
  | cons p ps ih =>
    cases ps with
    | nil => simpa [paramsToks, foldDict] using (pParams_param repr ofText hrepr hlaw acc name args p r).2
    | cons q t =>
      have ih' := ih (by simp) (dictSet args p.1 p.2)
      simp only [paramsToks, List.append_assoc, List.cons_append] at ih' ⊢
      rw [(pParams_param repr ofText hrepr hlaw acc name args p _).1, ih']
      rfl

theorem dictSet_new {α β : Type} [DecidableEq α] (d : List (α × β)) (k : α) (v : β)
    (h : k ∉ d.map Prod.fst) : dictSet d k v = d ++ [(k, v)] := by
  induction d with
  | nil => rfl
  | cons x d ih =>
    obtain ⟨a, b⟩ := x
    simp only [List.map_cons, List.mem_cons, not_or] at h
    simp [dictSet, Ne.symm h.1, ih h.2]

theorem foldDict_nodup (args ps : List (List Char × List (PVal F)))
    (h : ((args ++ ps).map Prod.fst).Nodup) : foldDict args ps = args ++ ps := by
  induction ps generalizing args with
  | nil => simp [foldDict]
  | cons p ps ih =>
    have hp : p.1 ∉ args.map Prod.fst := by
      simp only [List.map_append, List.map_cons, List.nodup_append, List.nodup_cons] at h
      intro hm
      exact h.2.2 _ hm _ (by simp) rfl
    have : foldDict args (p :: ps) = foldDict (dictSet args p.1 p.2) ps := rfl
    rw [this, dictSet_new args p.1 p.2 hp, ih (args ++ [(p.1, p.2)]) (by simpa using h)]
    simp

/-- the spec the parser rebuilds (duplicate keys would be merged; see `foldDict_nodup`) -/
def normSpec (s : Spec F) : Spec F := ⟨s.name, foldDict [] s.params⟩

theorem pPipeline_spec (hrepr : ∀ f, FloatRepr (repr f)) (hlaw : ∀ f, ofText (printFloatText (repr f)) = f)
    (acc : List (Spec F)) (s : Spec F) (r : List Token) :
    pPipeline ofText acc (specToks repr s ++ commaTok :: r) = pPipeline ofText (acc ++ [normSpec s]) r ∧
    pPipeline ofText acc (specToks repr s ++ [eofTok]) = .ok (acc ++ [normSpec s]) := by
  obtain ⟨name, params⟩ := s
  cases params with
  | nil => simp [specToks, pPipeline, commaTok, eofTok, normSpec, foldDict]
  | cons p ps =>
    have h1 := pParams_params repr ofText hrepr hlaw acc name (p :: ps) (by simp) [] (commaTok :: r)
    have h2 := pParams_params repr ofText hrepr hlaw acc name (p :: ps) (by simp) [] [eofTok]
    simp only [specToks, List.cons_append, List.append_assoc, List.nil_append, pPipeline, lbraceTok, normSpec]
    constructor
    · rw [h1]; simp [pAfter, commaTok]
    · rw [h2]; simp [pAfter, eofTok]

theorem pPipeline_pipe (hrepr : ∀ f, FloatRepr (repr f)) (hlaw : ∀ f, ofText (printFloatText (repr f)) = f)
    (ss : List (Spec F)) (acc : List (Spec F)) :
    pPipeline ofText acc (pipeToks repr ss ++ [eofTok]) = .ok (acc ++ ss.map normSpec) := by
  induction ss generalizing acc with
  | nil => simp [pipeToks, pPipeline, eofTok]
  | cons s ss ih =>
    cases ss with
    | nil => simpa [pipeToks] using (pPipeline_spec repr ofText hrepr hlaw acc s []).2
    | cons t r =>
      have ih' := ih (acc ++ [normSpec s])
      simp only [pipeToks, List.append_assoc, List.cons_append] at ih' ⊢
      rw [(pPipeline_spec repr ofText hrepr hlaw acc s _).1, ih']
      simp

end
end Xdsl.ArgSpec
