import XdslModel.OpDef
import Mathlib.Tactic.Linarith
import Mathlib.Tactic.Ring
/-!
Helper definitions and lemmas for C10 (segment sizes, accessors, builder).
-/
namespace Xdsl.OpDef

/-! ## specification vocabulary -/

/-- a segment of kind `d` may have `s` elements -/
def kindOk : Seg → Nat → Prop
  | .single, s => s = 1
  | .optional, s => s ≤ 1
  | .variadic, _ => True

/-- one non-negative size per declared segment, each matching its kind -/
def KindsOk : List Seg → List Nat → Prop
  | [], [] => True
  | d :: ds, s :: ss => kindOk d s ∧ KindsOk ds ss
  | _, _ => False

/-- every variable (optional or variadic) segment has size `k` -/
def AllVar (k : Nat) : List Seg → List Nat → Prop
  | d :: ds, s :: ss => (d.isVariadic = true → s = k) ∧ AllVar k ds ss
  | _, _ => True

/-- the sizes every same-size segmentation with common size `k` has -/
def mkSizes (k : Nat) (defs : List Seg) : List Nat :=
  defs.map fun d => if d.isVariadic then k else 1

def numSingle (defs : List Seg) : Nat := defs.countP fun d => !d.isVariadic

def prefixSum (sizes : List Nat) (i : Nat) : Nat := (sizes.take i).sum

/-- the `i`-th piece of `xs` when it is cut according to `sizes` -/
def segAt {α : Type} (sizes : List Nat) (xs : List α) (i : Nat) : List α :=
  (xs.drop (prefixSum sizes i)).take (sizes.getD i 0)

/-! ## counting -/

theorem numVariadic_cons (d : Seg) (ds : List Seg) :
    numVariadic (d :: ds) = numVariadic ds + (if d.isVariadic then 1 else 0) := by
  simp [numVariadic, List.countP_cons]

theorem numSingle_cons (d : Seg) (ds : List Seg) :
    numSingle (d :: ds) = numSingle ds + (if d.isVariadic then 0 else 1) := by
  cases d <;> simp [numSingle, Seg.isVariadic]

theorem single_add_variadic (defs : List Seg) : numSingle defs + numVariadic defs = defs.length := by
  induction defs with
  | nil => rfl
  | cons d ds ih =>
    rw [numVariadic_cons, numSingle_cons, List.length_cons]
    split <;> omega

theorem numVariadic_le (defs : List Seg) : numVariadic defs ≤ defs.length := by
  have := single_add_variadic defs; omega

theorem KindsOk.length_eq : ∀ {defs : List Seg} {sizes : List Nat}, KindsOk defs sizes →
    sizes.length = defs.length
  | [], [], _ => rfl
  | _ :: _, [], h => h.elim
  | [], _ :: _, h => h.elim
  | _ :: ds, _ :: ss, h => by simp [KindsOk.length_eq (defs := ds) (sizes := ss) h.2]


/-! ## attribute-sized verification -/

theorem entryOk_iff (d : Seg) (l : Int) :
    entryOk d l = true ↔ ∃ s : Nat, l = (s : Int) ∧ kindOk d s := by
  cases d <;> simp only [entryOk, Seg.isOptional, Seg.isVariadic, kindOk] <;> constructor
  · intro h
    refine ⟨1, ?_, rfl⟩
    simp at h; omega
  · rintro ⟨s, rfl, rfl⟩; simp
  · intro h
    simp at h
    refine ⟨l.toNat, ?_, ?_⟩ <;> omega
  · rintro ⟨s, rfl, hs⟩
    have : s = 0 ∨ s = 1 := by omega
    rcases this with rfl | rfl <;> simp
  · intro h
    simp at h
    exact ⟨l.toNat, by omega, trivial⟩
  · rintro ⟨s, rfl, -⟩; simp

theorem sum_map_ofNat (l : List Nat) : (l.map Int.ofNat).sum = ((l.sum : Nat) : Int) := by
  induction l with
  | nil => rfl
  | cons a r ih => simp [List.sum_cons, ih]

theorem entriesOk_of_kindsOk : ∀ {defs : List Seg} {sizes : List Nat}, KindsOk defs sizes →
    entriesOk defs (sizes.map Int.ofNat) = true
  | [], [], _ => rfl
  | _ :: _, [], h => h.elim
  | [], _ :: _, h => h.elim
  | d :: ds, s :: ss, h => by
    simp only [List.map_cons, entriesOk, Bool.and_eq_true]
    exact ⟨(entryOk_iff d _).2 ⟨s, rfl, h.1⟩, entriesOk_of_kindsOk h.2⟩

theorem kindsOk_of_entriesOk : ∀ {defs : List Seg} {vals : List Int}, vals.length = defs.length →
    entriesOk defs vals = true → ∃ sizes, KindsOk defs sizes ∧ vals = sizes.map Int.ofNat
  | [], [], _, _ => ⟨[], trivial, rfl⟩
  | _ :: _, [], h, _ => by simp at h
  | [], _ :: _, h, _ => by simp at h
  | d :: ds, l :: ls, h, he => by
    simp only [entriesOk, Bool.and_eq_true] at he
    obtain ⟨s, rfl, hs⟩ := (entryOk_iff d l).1 he.1
    obtain ⟨ss, hk, rfl⟩ := kindsOk_of_entriesOk (defs := ds) (vals := ls) (by simpa using h) he.2
    exact ⟨s :: ss, ⟨hs, hk⟩, rfl⟩

theorem map_ofNat_injective {a b : List Nat} (h : a.map Int.ofNat = b.map Int.ofNat) : a = b := by
  induction a generalizing b with
  | nil => cases b <;> simp_all
  | cons x xs ih =>
    cases b with
    | nil => simp at h
    | cons y ys =>
      simp only [List.map_cons, List.cons.injEq] at h
      rw [ih h.2, Int.ofNat.inj h.1]


/-! ## same-size segmentations -/

@[simp] theorem mkSizes_nil (k : Nat) : mkSizes k [] = [] := rfl

@[simp] theorem mkSizes_cons (k : Nat) (d : Seg) (ds : List Seg) :
    mkSizes k (d :: ds) = (if d.isVariadic then k else 1) :: mkSizes k ds := rfl

@[simp] theorem length_mkSizes (k : Nat) (defs : List Seg) : (mkSizes k defs).length = defs.length := by
  simp [mkSizes]

theorem sum_mkSizes (k : Nat) (defs : List Seg) :
    (mkSizes k defs).sum = numSingle defs + numVariadic defs * k := by
  induction defs with
  | nil => simp [numSingle, numVariadic]
  | cons d ds ih =>
    rw [mkSizes_cons, List.sum_cons, ih, numSingle_cons, numVariadic_cons]
    split <;> simp [Nat.add_mul] <;> omega

theorem allVar_mkSizes (k : Nat) (defs : List Seg) : AllVar k defs (mkSizes k defs) := by
  induction defs with
  | nil => trivial
  | cons d ds ih => exact ⟨fun h => by simp [h], ih⟩

theorem any_optional_cons (d : Seg) (ds : List Seg) :
    (d :: ds).any Seg.isOptional = (d.isOptional || ds.any Seg.isOptional) := rfl

theorem kindsOk_mkSizes (k : Nat) (defs : List Seg)
    (h : k ≤ 1 ∨ defs.any Seg.isOptional = false) : KindsOk defs (mkSizes k defs) := by
  induction defs with
  | nil => trivial
  | cons d ds ih =>
    refine ⟨?_, ih ?_⟩
    · cases d <;> simp [kindOk, Seg.isVariadic]
      rcases h with h | h
      · exact h
      · simp [Seg.isOptional] at h
    · rcases h with h | h
      · exact Or.inl h
      · right
        rw [any_optional_cons] at h
        cases hd : d.isOptional <;> simp_all

theorem eq_mkSizes : ∀ {defs : List Seg} {sizes : List Nat} {k : Nat}, KindsOk defs sizes →
    AllVar k defs sizes → sizes = mkSizes k defs
  | [], [], _, _, _ => rfl
  | _ :: _, [], _, h, _ => h.elim
  | [], _ :: _, _, h, _ => h.elim
  | d :: ds, s :: ss, k, hk, ha => by
    rw [mkSizes_cons, eq_mkSizes hk.2 ha.2]
    congr 1
    cases d
    · simpa [kindOk, Seg.isVariadic] using hk.1
    · simpa [Seg.isVariadic] using ha.1
    · simpa [Seg.isVariadic] using ha.1

theorem optional_le_one (k : Nat) (defs : List Seg) (hk : KindsOk defs (mkSizes k defs))
    (ho : defs.any Seg.isOptional = true) : k ≤ 1 := by
  induction defs with
  | nil => simp at ho
  | cons d ds ih =>
    rw [any_optional_cons] at ho
    cases d
    · exact ih hk.2 (by simpa [Seg.isOptional] using ho)
    · simpa [kindOk, Seg.isVariadic] using hk.1
    · exact ih hk.2 (by simpa [Seg.isOptional] using ho)

theorem optional_variadic (defs : List Seg) (ho : defs.any Seg.isOptional = true) :
    1 ≤ numVariadic defs := by
  induction defs with
  | nil => simp at ho
  | cons d ds ih =>
    rw [numVariadic_cons]
    rw [any_optional_cons] at ho
    cases d
    · have : ds.any Seg.isOptional = true := by simpa [Seg.isOptional] using ho
      have := ih this
      omega
    · simp [Seg.isVariadic]
    · simp [Seg.isVariadic]

theorem allVar_of_zero (k : Nat) : ∀ {defs : List Seg} {sizes : List Nat}, numVariadic defs = 0 →
    AllVar k defs sizes
  | [], _, _ => by unfold AllVar; trivial
  | _ :: _, [], _ => by unfold AllVar; trivial
  | d :: ds, s :: ss, h0 => by
    rw [numVariadic_cons] at h0
    have he : d.isVariadic = false := by
      cases h : d.isVariadic <;> simp_all
    exact ⟨fun h => by simp [he] at h, allVar_of_zero k (by omega)⟩

/-- with at most one variable segment every kind-correct size list is "same-size" -/
theorem allVar_of_le_one : ∀ {defs : List Seg} {sizes : List Nat}, numVariadic defs ≤ 1 →
    KindsOk defs sizes → ∃ k, AllVar k defs sizes
  | [], [], _, _ => ⟨0, trivial⟩
  | _ :: _, [], _, h => h.elim
  | [], _ :: _, _, h => h.elim
  | d :: ds, s :: ss, hn, hk => by
    rw [numVariadic_cons] at hn
    by_cases hd : d.isVariadic = true
    · simp only [hd, if_true] at hn
      have h0 : numVariadic ds = 0 := by omega
      exact ⟨s, fun _ => rfl, allVar_of_zero s h0⟩
    · simp only [hd] at hn
      obtain ⟨k, hk'⟩ := allVar_of_le_one (defs := ds) (sizes := ss) (by omega) hk.2
      exact ⟨k, fun h => absurd h hd, hk'⟩

/-- arithmetic core of `verify_variadic_same_size`'s last branch -/
theorem same_size_arith (n ns nv : Nat) (hv : 0 < nv) :
    (ns ≤ n ∧ ((n : Int) - ((ns + nv : Nat) : Int)) % (nv : Int) = 0) ↔ ∃ k : Nat, ns + nv * k = n := by
  constructor
  · rintro ⟨hle, hmod⟩
    obtain ⟨c, hc⟩ := Int.dvd_of_emod_eq_zero hmod
    have hc1 : 0 ≤ c + 1 := by
      by_contra hneg
      have : (nv : Int) * (c + 1) ≤ (nv : Int) * (-1) :=
        Int.mul_le_mul_of_nonneg_left (by omega) (by omega)
      have h2 : (nv : Int) * (c + 1) = (nv : Int) * c + nv := by ring
      push_cast at hc
      omega
    refine ⟨(c + 1).toNat, ?_⟩
    have h3 : ((nv * (c + 1).toNat : Nat) : Int) = (nv : Int) * (c + 1) := by
      push_cast; rw [Int.toNat_of_nonneg hc1]
    have h2 : (nv : Int) * (c + 1) = (nv : Int) * c + nv := by ring
    push_cast at hc
    omega
  · rintro ⟨k, rfl⟩
    refine ⟨by omega, ?_⟩
    have : ((ns + nv * k : Nat) : Int) - ((ns + nv : Nat) : Int) = (nv : Int) * ((k : Int) - 1) := by
      push_cast; ring
    rw [this]
    exact Int.mul_emod_right _ _

theorem verifySameSize_iff (defs : List Seg) (n : Nat) :
    verifySameSize defs n = true ↔
      ∃ k, KindsOk defs (mkSizes k defs) ∧ numSingle defs + numVariadic defs * k = n := by
  have hlen := single_add_variadic defs
  unfold verifySameSize
  simp only []
  by_cases hv : numVariadic defs = 0
  · simp only [hv, if_true, beq_iff_eq]
    have hno : defs.any Seg.isOptional = false := by
      cases h : defs.any Seg.isOptional
      · rfl
      · have := optional_variadic defs h; omega
    constructor
    · intro h; exact ⟨0, kindsOk_mkSizes 0 defs (Or.inl (by omega)), by omega⟩
    · rintro ⟨k, -, h⟩; simp at h; omega
  · simp only [hv, if_false]
    by_cases ho : defs.any Seg.isOptional = true
    · simp only [ho, if_true, Bool.or_eq_true, beq_iff_eq]
      constructor
      · rintro (h | h)
        · exact ⟨1, kindsOk_mkSizes 1 defs (Or.inl (by omega)), by omega⟩
        · exact ⟨0, kindsOk_mkSizes 0 defs (Or.inl (by omega)), by omega⟩
      · rintro ⟨k, hk, h⟩
        have := optional_le_one k defs hk ho
        have : k = 0 ∨ k = 1 := by omega
        rcases this with rfl | rfl
        · right; omega
        · left; omega
    · have ho' : defs.any Seg.isOptional = false := by simpa using ho
      simp only [ho', Bool.false_eq_true, if_false, Bool.and_eq_true, decide_eq_true_eq, beq_iff_eq]
      have hnd : defs.length - numVariadic defs = numSingle defs := by omega
      have hnd' : ((defs.length : Nat) : Int) = ((numSingle defs + numVariadic defs : Nat) : Int) := by
        rw [hlen]
      rw [hnd, hnd', same_size_arith n (numSingle defs) (numVariadic defs) (by omega)]
      constructor
      · rintro ⟨k, h⟩; exact ⟨k, kindsOk_mkSizes k defs (Or.inr ho'), h⟩
      · rintro ⟨k, -, h⟩; exact ⟨k, h⟩


/-! ## Python indexing on in-range arguments -/

theorem take_one_drop {α : Type} (xs : List α) (p : Nat) (h : p < xs.length) :
    (xs.drop p).take 1 = [xs[p]] := by
  induction xs generalizing p with
  | nil => simp at h
  | cons x r ih =>
    cases p with
    | zero => simp
    | succ q => simpa using ih q (by simpa using h)

theorem pyIndex_nat {α : Type} (xs : List α) (i : Int) (p : Nat) (hi : i = (p : Int))
    (h : p < xs.length) : pyIndex xs i = .ok ((xs.drop p).take 1) := by
  subst hi
  unfold pyIndex
  have h1 : ¬ ((p : Int) < 0) := by omega
  simp only [h1, if_false, Int.toNat_natCast]
  rw [List.getElem?_eq_getElem h, take_one_drop xs p h]

theorem pyIndex_neg {α : Type} (xs : List α) (i : Int) (p : Nat) (hi : i < 0)
    (hp : i + (xs.length : Int) = (p : Int)) (h : p < xs.length) :
    pyIndex xs i = .ok ((xs.drop p).take 1) := by
  unfold pyIndex
  simp only [hi, if_true, hp]
  have h1 : ¬ ((p : Int) < 0) := by omega
  simp only [h1, if_false, Int.toNat_natCast]
  rw [List.getElem?_eq_getElem h, take_one_drop xs p h]

theorem pyClamp_nat (n p : Nat) (a : Int) (ha : a = (p : Int)) (h : p ≤ n) : pyClamp n a = p := by
  subst ha
  unfold pyClamp
  have h1 : ¬ ((p : Int) < 0) := by omega
  simp only [h1, if_false, Int.toNat_natCast]
  omega

theorem pySlice_nat {α : Type} (xs : List α) (a b : Int) (p s : Nat) (ha : a = (p : Int))
    (hb : b = (p : Int) + (s : Int)) (h : p + s ≤ xs.length) :
    pySlice xs a b = (xs.drop p).take s := by
  simp only [pySlice]
  have hb' : b = ((p + s : Nat) : Int) := by rw [hb]; push_cast; rfl
  rw [pyClamp_nat xs.length p a ha (by omega), pyClamp_nat xs.length (p + s) b hb' h]
  congr 1
  omega

/-! ## prefix sums -/

theorem prefix_add_le : ∀ (sizes : List Nat) (i : Nat), i < sizes.length →
    prefixSum sizes i + sizes.getD i 0 ≤ sizes.sum
  | [], i, h => by simp at h
  | s :: ss, 0, _ => by simp [prefixSum]
  | s :: ss, i + 1, h => by
    have := prefix_add_le ss i (by simpa using h)
    simp only [prefixSum, List.take_succ_cons, List.sum_cons, List.getD_cons_succ] at this ⊢
    omega

theorem take_mkSizes (k : Nat) (defs : List Seg) (i : Nat) :
    (mkSizes k defs).take i = mkSizes k (defs.take i) := by
  simp [mkSizes, List.map_take]

theorem prefixSum_mkSizes (k : Nat) (defs : List Seg) (i : Nat) :
    prefixSum (mkSizes k defs) i = numSingle (defs.take i) + numVariadic (defs.take i) * k := by
  rw [prefixSum, take_mkSizes, sum_mkSizes]

theorem count_take (defs : List Seg) (i : Nat) (hi : i ≤ defs.length) :
    numSingle (defs.take i) + numVariadic (defs.take i) = i := by
  rw [single_add_variadic, List.length_take]; omega

theorem getD_mkSizes (k : Nat) (defs : List Seg) (i : Nat) (hi : i < defs.length) :
    (mkSizes k defs).getD i 0 = if defs[i].isVariadic then k else 1 := by
  simp [mkSizes, List.getD, hi]

theorem numVariadic_take_le (defs : List Seg) (i : Nat) :
    numVariadic (defs.take i) ≤ numVariadic defs := by
  unfold numVariadic
  exact (List.take_sublist i defs).countP_le

theorem getElem_optional_any (defs : List Seg) (i : Nat) (hi : i < defs.length)
    (h : defs[i] = .optional) : defs.any Seg.isOptional = true := by
  rw [List.any_eq_true]
  exact ⟨defs[i], List.getElem_mem hi, by rw [h]; rfl⟩

/-! ## cutting a list by sizes -/

theorem segAt_cons_zero {α : Type} (s : Nat) (ss : List Nat) (xs : List α) :
    segAt (s :: ss) xs 0 = xs.take s := by
  simp [segAt, prefixSum]

theorem segAt_cons_succ {α : Type} (s : Nat) (ss : List Nat) (xs : List α) (j : Nat) :
    segAt (s :: ss) xs (j + 1) = segAt ss (xs.drop s) j := by
  simp only [segAt, prefixSum, List.take_succ_cons, List.sum_cons, List.getD_cons_succ, List.drop_drop]

theorem flatten_segAt {α : Type} : ∀ (sizes : List Nat) (xs : List α), sizes.sum = xs.length →
    ((List.range sizes.length).map (segAt sizes xs)).flatten = xs
  | [], xs, h => by
    have : xs = [] := List.eq_nil_of_length_eq_zero (by simpa using h.symm)
    simp [this]
  | s :: ss, xs, h => by
    rw [List.length_cons, List.range_succ_eq_map, List.map_cons, List.flatten_cons, segAt_cons_zero,
      List.map_map]
    have : (segAt (s :: ss) xs ∘ Nat.succ) = segAt ss (xs.drop s) := by
      funext j; exact segAt_cons_succ s ss xs j
    rw [this, flatten_segAt ss (xs.drop s) (by simp at h ⊢; omega), List.take_append_drop]

theorem length_segAt {α : Type} (sizes : List Nat) (xs : List α) (h : sizes.sum = xs.length)
    (i : Nat) (hi : i < sizes.length) : (segAt sizes xs i).length = sizes.getD i 0 := by
  have := prefix_add_le sizes i hi
  simp only [segAt, List.length_take, List.length_drop]
  omega

end Xdsl.OpDef
