import XdslModel.X86
/-!
Soundness of the polynomial operations of `XdslModel.X86` with respect to evaluation in `BitVec w`
(any width).  Only ring laws of `BitVec w` are used.
-/
namespace Xdsl.X86

variable {w : Nat} (env : Nat → BitVec w)

@[simp] theorem evalMono_nil : evalMono env [] = 1 := rfl
@[simp] theorem evalMono_cons (v : Nat) (m : Mono) : evalMono env (v :: m) = env v * evalMono env m := rfl
@[simp] theorem evalPoly_nil : evalPoly env [] = 0 := rfl
@[simp] theorem evalPoly_cons (t : Mono × Int) (p : Poly) :
    evalPoly env (t :: p) = BitVec.ofInt w t.2 * evalMono env t.1 + evalPoly env p := rfl

theorem evalMono_minsert (v : Nat) (m : Mono) :
    evalMono env (minsert v m) = env v * evalMono env m := by
  induction m with
  | nil => simp [minsert]
  | cons x r ih =>
    unfold minsert
    split
    · simp
    · simp [ih]; grind

theorem evalMono_mmul (a b : Mono) :
    evalMono env (mmul a b) = evalMono env a * evalMono env b := by
  induction a with
  | nil => simp [mmul]
  | cons v a ih =>
    have : mmul (v :: a) b = minsert v (mmul a b) := rfl
    rw [this, evalMono_minsert, ih]; simp; grind

theorem evalPoly_pins (m : Mono) (c : Int) (p : Poly) :
    evalPoly env (pins m c p) = BitVec.ofInt w c * evalMono env m + evalPoly env p := by
  induction p with
  | nil => simp [pins]
  | cons t r ih =>
    obtain ⟨m', c'⟩ := t
    unfold pins
    split
    · next h => subst h; simp [BitVec.ofInt_add]; grind
    · split
      · simp
      · simp [ih]; grind

theorem evalPoly_padd (p q : Poly) :
    evalPoly env (padd p q) = evalPoly env p + evalPoly env q := by
  induction p with
  | nil => simp [padd]
  | cons t r ih =>
    have : padd (t :: r) q = pins t.1 t.2 (padd r q) := rfl
    rw [this, evalPoly_pins, ih]; simp; grind

theorem evalPoly_pscale (m : Mono) (c : Int) (q acc : Poly) :
    evalPoly env (pscale m c q acc)
      = BitVec.ofInt w c * evalMono env m * evalPoly env q + evalPoly env acc := by
  induction q with
  | nil => simp [pscale]
  | cons t r ih =>
    have : pscale m c (t :: r) acc = pins (mmul m t.1) (c * t.2) (pscale m c r acc) := rfl
    rw [this, evalPoly_pins, ih, evalMono_mmul, BitVec.ofInt_mul]; simp; grind

theorem evalPoly_pmul (p q : Poly) :
    evalPoly env (pmul p q) = evalPoly env p * evalPoly env q := by
  induction p with
  | nil => simp [pmul]
  | cons t r ih =>
    have : pmul (t :: r) q = pscale t.1 t.2 q (pmul r q) := rfl
    rw [this, evalPoly_pscale, ih]; simp; grind

theorem evalPoly_pclean (p : Poly) : evalPoly env (pclean p) = evalPoly env p := by
  induction p with
  | nil => rfl
  | cons t r ih =>
    have hr : pclean (t :: r) = if t.2 ≠ 0 then t :: pclean r else pclean r := by
      simp [pclean, List.filter_cons]
    rw [hr]
    by_cases h : t.2 = 0
    · simp [h, ih]
    · simp [h, ih]

theorem evalPoly_pneg (p : Poly) : evalPoly env (pneg p) = - evalPoly env p := by
  induction p with
  | nil => simp [pneg]
  | cons t r ih =>
    have : pneg (t :: r) = (t.1, -t.2) :: pneg r := rfl
    rw [this]; simp [ih, BitVec.ofInt_neg]; grind

@[simp] theorem evalPoly_pconst (c : Int) : evalPoly env (pconst c) = BitVec.ofInt w c := by
  simp [pconst]

@[simp] theorem evalPoly_pvar (i : Nat) : evalPoly env (pvar i) = env i := by
  simp [pvar]

theorem evalPoly_pmul? (p q r : Poly) (h : pmul? p q = some r) :
    evalPoly env r = evalPoly env p * evalPoly env q := by
  unfold pmul? at h
  split at h
  · cases h; rw [evalPoly_pclean, evalPoly_pmul]
  · cases h

end Xdsl.X86
