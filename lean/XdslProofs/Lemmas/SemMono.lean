import XdslModel.Sem
/-!
# Fuel monotonicity of the reference semantics `XdslModel/Sem.lean`

`Le a b` ("`a` is `b`, unless `a` ran out of fuel") is the information order on outcomes.  Every
function of the mutual block `runOps / runOp / runRegion / runBlock / runFor / runWhile / callFunc`
(which also covers `affine.for`, and — through the non-recursive `stateOp` — affine.apply/load/store,
memref and symref operations) is monotone in its fuel argument for this order: `MonoAt P n m` for all
`n ≤ m` (`mono_all`).  Proved by induction on the smaller fuel with the combined statement; one
`*_step` lemma per function.  No Mathlib.
-/
namespace Xdsl.SemMeta
open Xdsl.Sem Xdsl.MiniIR

/-- information order on outcomes: `fuel` is below everything, all other outcomes are maximal -/
def Le {α : Type} (a b : Res α) : Prop := a = .fuel ∨ a = b

theorem Le.refl {α : Type} (a : Res α) : Le a a := Or.inr rfl
theorem Le.fuel {α : Type} (b : Res α) : Le .fuel b := Or.inl rfl
theorem Le.trans {α : Type} {a b c : Res α} (h1 : Le a b) (h2 : Le b c) : Le a c := by
  rcases h1 with h | h
  · exact Or.inl h
  · subst h; exact h2
theorem Le.eq_of_ne {α : Type} {a b : Res α} (h : Le a b) (hne : a ≠ .fuel) : b = a := by
  rcases h with h | h
  · exact absurd h hne
  · exact h.symm

/-- the combined statement: every function of the mutual block, run with fuel `m`, refines its run
with fuel `n` -/
structure MonoAt (P : Prog) (n m : Nat) : Prop where
  ops : ∀ st ops, Le (runOps n P st ops) (runOps m P st ops)
  op : ∀ st o, Le (runOp n P st o) (runOp m P st o)
  region : ∀ st r args, Le (runRegion n P st r args) (runRegion m P st r args)
  block : ∀ st r b args, Le (runBlock n P st r b args) (runBlock m P st r b args)
  for_ : ∀ st body w i ub step iters,
    Le (runFor n P st body w i ub step iters) (runFor m P st body w i ub step iters)
  while_ : ∀ st b a args, Le (runWhile n P st b a args) (runWhile m P st b a args)
  call : ∀ st name args, Le (callFunc n P st name args) (callFunc m P st name args)

/-- use an induction hypothesis `t : Le x x'` for the sub-call `x` that the goal's left side matches on:
either `x` ran out of fuel (then so does the left side) or `x = x'` and both sides match on `x'`. -/
local macro "subcall " t:term : tactic =>
  `(tactic| (have hsub0 := $t; rcases hsub0 with hsub | hsub <;> rw [hsub] <;> try (first | exact Le.fuel _ | exact Le.refl _)))

theorem ops_step {P : Prog} {n m : Nat} (ih : MonoAt P n m) (st : St) (ops : List Op) :
    Le (runOps (n + 1) P st ops) (runOps (m + 1) P st ops) := by
  cases ops with
  | nil => rw [runOps.eq_2 _ _ _ (by omega), runOps.eq_2 _ _ _ (by omega)]; exact Le.refl _
  | cons o rest =>
    rw [runOps, runOps]
    subcall (ih.op st o)
    split
    · exact ih.ops _ _
    all_goals exact Le.refl _

theorem op_step {P : Prog} {n m : Nat} (ih : MonoAt P n m) (st : St) (o : Op) :
    Le (runOp (n + 1) P st o) (runOp (m + 1) P st o) := by
  rw [runOp, runOp]
  split
  · exact Le.refl _
  · exact Le.refl _
  · exact Le.refl _
  rename_i args _
  split
  all_goals try exact Le.refl _
  · -- func.call
    split
    · rename_i callee _
      subcall (ih.call st callee args)
    · exact Le.refl _
  · -- scf.if
    split
    · split
      · rename_i rt re _ _ _ cb _
        subcall (ih.region st (if cb = true then rt else re) [])
      · exact Le.refl _
    · exact Le.refl _
  · -- scf.for
    split
    · split
      · split
        · exact Le.refl _
        · rename_i iters body _ _ _ _ _ w l _ u _ s _ _ _ _
          subcall (ih.for_ st body w l u s iters)
      · exact Le.refl _
    · exact Le.refl _
  · -- scf.while
    split
    · rename_i before after _
      subcall (ih.while_ st before after args)
    · exact Le.refl _
  · -- affine.for
    split
    · split
      · split
        · exact Le.refl _
        · rename_i body _ _ l u s inits _ _
          subcall (ih.for_ st body 64 l u s inits)
      all_goals exact Le.refl _
    · exact Le.refl _

theorem region_step {P : Prog} {n m : Nat} (ih : MonoAt P n m) (st : St) (r : Region) (args : List Val) :
    Le (runRegion (n + 1) P st r args) (runRegion (m + 1) P st r args) := by
  rw [runRegion, runRegion]
  split
  · exact Le.refl _
  · exact ih.block _ _ _ _

theorem block_step {P : Prog} {n m : Nat} (ih : MonoAt P n m) (st : St) (r : Region) (b : Nat)
    (args : List Val) :
    Le (runBlock (n + 1) P st r b args) (runBlock (m + 1) P st r b args) := by
  rw [runBlock, runBlock]
  split
  · exact Le.refl _
  · split
    · rename_i blk _ _ st' _
      subcall (ih.ops st' blk.ops)
      split
      · exact ih.block _ _ _ _
      · exact Le.refl _
    · exact Le.refl _

theorem for_step {P : Prog} {n m : Nat} (ih : MonoAt P n m) (st : St) (body : Region) (w : Nat)
    (i ub step : Int) (iters : List Val) :
    Le (runFor (n + 1) P st body w i ub step iters) (runFor (m + 1) P st body w i ub step iters) := by
  rw [runFor, runFor]
  split
  · subcall (ih.region st body (.int w (BitVec.ofInt w i) :: iters))
    split
    · exact ih.for_ _ _ _ _ _ _ _
    all_goals exact Le.refl _
  · exact Le.refl _

theorem while_step {P : Prog} {n m : Nat} (ih : MonoAt P n m) (st : St) (before after : Region)
    (args : List Val) :
    Le (runWhile (n + 1) P st before after args) (runWhile (m + 1) P st before after args) := by
  rw [runWhile, runWhile]
  subcall (ih.region st before args)
  split
  · split
    · rename_i st' c vs _ _
      subcall (ih.region st' after vs)
      split
      · exact ih.while_ _ _ _ _
      all_goals exact Le.refl _
    · exact Le.refl _
  all_goals exact Le.refl _

theorem call_step {P : Prog} {n m : Nat} (ih : MonoAt P n m) (st : St) (name : String) (args : List Val) :
    Le (callFunc (n + 1) P st name args) (callFunc (m + 1) P st name args) := by
  rw [callFunc, callFunc]
  split
  · exact Le.refl _
  · split
    · exact Le.refl _
    · rename_i r _
      subcall (ih.region { env := [], eff := st.eff, sym := [], mem := st.mem } r args)

theorem monoAt_zero (P : Prog) (m : Nat) : MonoAt P 0 m where
  ops := fun _ _ => by rw [runOps]; exact Le.fuel _
  op := fun _ _ => by rw [runOp]; exact Le.fuel _
  region := fun _ _ _ => by rw [runRegion]; exact Le.fuel _
  block := fun _ _ _ _ => by rw [runBlock]; exact Le.fuel _
  for_ := fun _ _ _ _ _ _ _ => by rw [runFor]; exact Le.fuel _
  while_ := fun _ _ _ _ => by rw [runWhile]; exact Le.fuel _
  call := fun _ _ _ => by rw [callFunc]; exact Le.fuel _

theorem monoAt_succ {P : Prog} {n m : Nat} (ih : MonoAt P n m) : MonoAt P (n + 1) (m + 1) where
  ops := ops_step ih
  op := op_step ih
  region := region_step ih
  block := block_step ih
  for_ := for_step ih
  while_ := while_step ih
  call := call_step ih

/-- **fuel monotonicity, combined form**: for `n ≤ m` every function of the mutual block, run with
fuel `m`, returns the outcome it returned with fuel `n` unless that outcome was `fuel`. -/
theorem mono_all (P : Prog) : ∀ n m : Nat, n ≤ m → MonoAt P n m := by
  intro n
  induction n with
  | zero => intro m _; exact monoAt_zero P m
  | succ n ih =>
    intro m h
    cases m with
    | zero => omega
    | succ m => exact monoAt_succ (ih m (by omega))

end Xdsl.SemMeta
