import XdslModel.Lexer
/-!
Helper lemmas for C07: no matcher of `XdslModel/Lexer.lean` reads the `isnumeric` / `isspace` bits
of a code point (`reflag` replaces them arbitrarily, every matcher commutes with it).
-/
namespace Xdsl.Lexer


/-- forget / replace the `isnumeric` and `isspace` bits -/
def reflag (f g : CP → Bool) (c : CP) : CP := { c with numeric := f c, space := g c }

section
variable (f g : CP → Bool)

@[simp] theorem reflag_val (c : CP) : (reflag f g c).val = c.val := rfl
@[simp] theorem reflag_alpha (c : CP) : (reflag f g c).alpha = c.alpha := rfl

theorem countWhile_map (p : CP → Bool) (hp : ∀ c, p (reflag f g c) = p c) (l : List CP) :
    countWhile p (l.map (reflag f g)) = countWhile p l := by
  induction l with
  | nil => rfl
  | cons c r ih => simp [countWhile, hp, ih]

theorem skipWs_map (b : Bool) (l : List CP) : skipWs b (l.map (reflag f g)) = skipWs b l := by
  fun_induction skipWs b l
  all_goals simp only [List.map_cons, List.map_nil]
  all_goals rw [skipWs.eq_def]
  all_goals simp_all
  all_goals exact ⟨rfl, rfl⟩

theorem suffixId_map (l : List CP) : suffixId (l.map (reflag f g)) = suffixId l := by
  cases l with
  | nil => rfl
  | cons c r =>
    simp [suffixId, countWhile_map f g isDigit (fun _ => rfl), countWhile_map f g isSuffixChar (fun _ => rfl)]

theorem strBody_map (l : List CP) : strBody (l.map (reflag f g)) = strBody l := by
  fun_induction strBody l
  all_goals simp only [List.map_cons, List.map_nil]
  all_goals rw [strBody.eq_def]
  all_goals simp_all
  all_goals exact ⟨rfl, rfl⟩

theorem hasBackslash_map (l : List CP) : hasBackslash (l.map (reflag f g)) = hasBackslash l := by
  induction l with
  | nil => rfl
  | cons c r ih => simp [hasBackslash, ih]

theorem litBytes_map (l : List CP) : litBytes (l.map (reflag f g)) = litBytes l := by
  fun_induction litBytes l
  all_goals simp only [List.map_cons, List.map_nil]
  all_goals rw [litBytes.eq_def]
  all_goals simp_all
  all_goals exact ⟨rfl, rfl⟩

theorem litKind_map (l : List CP) : litKind (l.map (reflag f g)) = litKind l := by
  simp [litKind, hasBackslash_map, litBytes_map]

theorem lexString_map (l : List CP) : lexString (l.map (reflag f g)) = lexString l := by
  simp [lexString, strBody_map, ← List.map_take, litKind_map]

theorem lexAt_map (l : List CP) : lexAt (l.map (reflag f g)) = lexAt l := by
  cases l with
  | nil => rfl
  | cons c r =>
    simp [lexAt, countWhile_map f g isIdentChar (fun _ => rfl), strBody_map, ← List.map_take, litKind_map]

theorem matchExp_map (l : List CP) : matchExp (l.map (reflag f g)) = matchExp l := by
  cases l with
  | nil => rfl
  | cons c r =>
    cases r with
    | nil => simp [matchExp, countWhile]
    | cons s r' =>
      have h0 := countWhile_map f g isDigit (fun _ => rfl) (s :: r')
      have h1 := countWhile_map f g isDigit (fun _ => rfl) r'
      simp only [List.map_cons] at h0
      simp only [matchExp, List.map_cons, reflag_val]
      by_cases hs : (s.val == 43 || s.val == 45) = true
      · simp only [hs, if_true, List.drop_succ_cons, List.drop_zero, h1]
      · simp [hs, h0]

theorem isHexPrefix_map (d0 : Nat) (l : List CP) : isHexPrefix d0 (l.map (reflag f g)) = isHexPrefix d0 l := by
  match l with
  | [] => rfl
  | [_] => rfl
  | x :: h :: r => simp [isHexPrefix]

theorem lexNumber_map (d0 : Nat) (l : List CP) : lexNumber d0 (l.map (reflag f g)) = lexNumber d0 l := by
  unfold lexNumber
  simp only [isHexPrefix_map, ← List.map_drop, countWhile_map f g isHex (fun _ => rfl),
    countWhile_map f g isDigit (fun _ => rfl)]
  split
  · rfl
  · cases h : List.drop (countWhile isDigit l).1 l with
    | nil => simp
    | cons dot r2 =>
      simp only [List.map_cons, reflag_val, ← List.map_drop, countWhile_map f g isDigit (fun _ => rfl),
        matchExp_map]

theorem startsWith1_map (a : Nat) (l : List CP) : startsWith1 a (l.map (reflag f g)) = startsWith1 a l := by
  cases l <;> simp [startsWith1]

theorem startsWith2_map (a b : Nat) (l : List CP) : startsWith2 a b (l.map (reflag f g)) = startsWith2 a b l := by
  match l with
  | [] => rfl
  | [_] => rfl
  | x :: h :: r => simp [startsWith2]

theorem lexTok_map (l : List CP) : lexTok (l.map (reflag f g)) = lexTok l := by
  cases l with
  | nil => rfl
  | cons c r =>
    simp only [lexTok, List.map_cons, reflag_val, reflag_alpha, countWhile_map f g isIdentChar (fun _ => rfl),
      startsWith1_map, startsWith2_map, lexAt_map, suffixId_map, lexString_map, lexNumber_map]

theorem lexLoop_map (fuel pos : Nat) (l : List CP) : lexLoop fuel pos (l.map (reflag f g)) = lexLoop fuel pos l := by
  induction fuel generalizing pos l with
  | zero => rfl
  | succ n ih =>
    simp only [lexLoop, skipWs_map, ← List.map_drop, lexTok_map, ih]
end

end Xdsl.Lexer
