import XdslProofs.Lemmas.RegAllocLoopMain
/-!
C19 (loops) helper lemmas, part 8: the executable side conditions (`wfB`, `zclosedB`, `zcOkB`,
`thmHyps` of the model file) imply their logical readings; the initial state of `allocate_func`
satisfies the invariant.
-/
namespace Xdsl.RegAllocLoop
open Xdsl.RegMachine Xdsl.RegAlloc

theorem notIn_iff {l : List ValId} {v : ValId} : notIn l v = true ↔ v ∉ l := by
  simp [notIn]

theorem wfB_sound (U Zc : List ValId) : ∀ (t : LT) (L : List ValId), wfB U Zc t L = true → WfT U Zc t L := by
  intro t
  induction t with
  | nil => intro L _; trivial
  | op o next ih =>
    intro L h
    simp only [wfB, Bool.and_eq_true, List.all_eq_true, notIn_iff, List.isEmpty_iff,
      List.contains_eq_mem, decide_eq_true_eq, List.mem_append] at h
    obtain ⟨⟨⟨h1, h2⟩, h3⟩, h4⟩ := h
    exact ⟨h1, h2, fun v hv => h3 v hv, ih L h4⟩
  | loop hd body next ihb ihn =>
    intro L h
    simp only [wfB, Bool.and_eq_true, List.all_eq_true, notIn_iff, Option.isNone_iff_eq_none,
      List.contains_eq_mem, decide_eq_true_eq, List.mem_append] at h
    obtain ⟨⟨⟨⟨⟨⟨⟨⟨⟨⟨⟨⟨h1, h2⟩, h3⟩, h4⟩, h5⟩, h6⟩, h7⟩, h8⟩, h9⟩, h10⟩, h11⟩, h12⟩, h13⟩ := h
    refine ⟨h1, fun v hv => h2 v hv, h3, h4, fun r hr => ?_, fun m hm => ?_, fun v hv => ?_,
      fun v hv => ?_, h9, h10, h11, ihb _ h12, ihn _ h13⟩
    · obtain ⟨⟨a, b⟩, c⟩ := h5 r hr
      exact ⟨a, b, c⟩
    · refine h6 m ?_
      rcases hm with h | h | h | h
      · exact Or.inl (Or.inl (Or.inl h))
      · exact Or.inl (Or.inl (Or.inr h))
      · exact Or.inl (Or.inr h)
      · exact Or.inr h
    · obtain ⟨⟨a, b⟩, c⟩ := h7 v hv
      exact ⟨a, b, c⟩
    · refine h8 v ?_
      rcases hv with h | h | h
      · exact Or.inl (Or.inl h)
      · exact Or.inl (Or.inr h)
      · exact Or.inr h

theorem zclosedB_sound {zi : ZInfo} {Zc : List ValId} (h : zclosedB zi Zc = true) : ZClosed zi Zc := by
  simp only [zclosedB, List.all_eq_true, Bool.and_eq_true, Bool.or_eq_true, Bool.not_eq_true',
    List.contains_eq_mem, decide_eq_true_eq, decide_eq_false_iff_not] at h
  refine ⟨fun v hv hz => ?_, fun v hv x hx hxz => ?_⟩
  · rcases (h v hv).1 with h1 | h1
    · exact absurd hz h1
    · exact h1
  · have := (h v hv).2
    rw [hx] at this
    simp only [Bool.or_eq_true, Bool.not_eq_true', List.contains_eq_mem, decide_eq_true_eq,
      decide_eq_false_iff_not] at this
    rcases this with h1 | h1
    · exact absurd hxz h1
    · exact h1

theorem zcOkB_sound (Zc : List ValId) : ∀ (t : LT) (Z : List ValId), zcOkB Zc Z t = true → ZcOkT Zc Z t := by
  intro t
  induction t with
  | nil => intro Z _; trivial
  | op o next ih =>
    intro Z h
    simp only [zcOkB, Bool.and_eq_true, List.all_eq_true, Bool.or_eq_true, Bool.not_eq_true',
      List.contains_eq_mem, decide_eq_true_eq, decide_eq_false_iff_not] at h
    refine ⟨fun d hd hz => ?_, ih _ h.2⟩
    rcases h.1 d hd with h1 | h1
    · exact absurd hz h1
    · exact h1
  | loop hd body next ihb ihn =>
    intro Z h
    simp only [zcOkB, Bool.and_eq_true] at h
    exact ⟨ihb _ h.1, ihn _ h.2⟩

theorem goodT_pw_out {z : Bool} {a : ValId → Reg} : ∀ (t : LT) (Z L : List ValId), GoodT z a Z t L → PW z a L := by
  intro t
  induction t with
  | nil => intro Z L h; exact h
  | op o next ih => intro Z L h; exact ih _ _ h.1
  | loop hd body next _ ihn => intro Z L h; exact ihn _ _ h.1

/-- the state in which `allocate_func` starts -/
theorem linv_init {c : Cfg} {pool excl : List Reg} {pre : AL ValId Reg} {p : LProg} {Zc : List ValId}
    {Tie : (ValId → Reg) → Prop} {zi : ZInfo} {a0 : ValId → Reg}
    (hpreLt : ∀ (v : ValId) (r : Nat), AL.get pre v = some r → r < c.infBase)
    (hpre0 : c.z = true → ∀ w ∈ zi.opres, AL.get pre w = some 0 → w ∈ Zc) :
    LInv c pre (pool.filter fun r => !(usedPreT pre p).contains r && !excl.contains r) Zc Tie zi a0
      (initL pool excl pre p) [] [] [] where
  inv := {
    ext := fun _ _ h => h
    allocd := fun v hv => by simp at hv
    only := fun v hv => Or.inl hv
    liveSub := fun v hv => by simp at hv
    pw := fun v hv => by simp at hv
    notAvail := fun v hv => by simp at hv
    nodup := (stackOf_nodup pool).filter _
    availOk := fun r hr => by
      left
      simp only [initL, List.mem_filter] at hr ⊢
      exact ⟨stackOf_subset pool r hr.1, hr.2⟩
    tbl := rfl
    infFresh := fun v r hv hge => by
      have := hpreLt v r hv
      omega
    origin := fun v r hv hp => by
      simp only [initL] at hv
      rw [hp] at hv; simp at hv }
  rpos := fun r n h => by simp [initL, AL.get] at h
  rdisj := fun r h => by simp [LSt.isReserved, initL, AL.get] at h
  prot := fun p hp => by simp at hp
  pnz := fun _ p hp => by simp at hp
  share := fun p hp => by simp at hp
  zres := fun hz w hw h0 => hpre0 hz w hw h0

theorem al_mem_of_get : ∀ (m : AL ValId Reg) (v : ValId) (r : Reg), AL.get m v = some r → (v, r) ∈ m := by
  intro m
  induction m with
  | nil => intro v r hv; simp [AL.get] at hv
  | cons kv rest ih =>
    intro v r hv
    obtain ⟨k, w⟩ := kv
    simp only [AL.get_cons] at hv
    split at hv
    · rename_i hk
      simp only [Option.some.injEq] at hv
      subst hk; subst hv
      exact List.mem_cons_self ..
    · exact List.mem_cons_of_mem _ (ih v r hv)

/-- the most permissive assignment keeps the pre-assigned registers -/
theorem canon_ext (pre : AL ValId Reg) (p : LProg) :
    ∀ v r, AL.get pre v = some r → canon pre p v = r := by
  intro v r h
  simp [canon, h]

end Xdsl.RegAllocLoop
