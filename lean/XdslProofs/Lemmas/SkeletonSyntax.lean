import XdslModel.Skeleton
/-!
Print/parse lemmas of the token grammar of `XdslModel/Skeleton.lean` (no symbol tables).
-/
namespace Xdsl.Skeleton
set_option linter.unusedSimpArgs false

/-- the next token is not `t` -/
def NotHead (t : Tok) (rest : List Tok) : Prop := rest.head? ≠ some t

theorem paVals_pr (a : Str) (l : List Str) (rest : List Tok) (h : NotHead .comma rest) :
    paVals (prVals (a :: l) ++ rest) = some (a :: l, rest) := by
  induction l generalizing a with
  | nil =>
    cases rest with
    | nil => simp [prVals, paVals]
    | cons t r =>
      cases t <;> simp [prVals, paVals] <;> simp [NotHead] at h
  | cons b l ih => simp [prVals, paVals, ih b]

theorem paCarets_pr (a : Str) (l : List Str) (rest : List Tok) (h : NotHead .comma rest) :
    paCarets (prCarets (a :: l) ++ rest) = some (a :: l, rest) := by
  induction l generalizing a with
  | nil =>
    cases rest with
    | nil => simp [prCarets, paCarets]
    | cons t r =>
      cases t <;> simp [prCarets, paCarets] <;> simp [NotHead] at h
  | cons b l ih => simp [prCarets, paCarets, ih b]

theorem paTys_pr (a : Opq) (l : List Opq) (rest : List Tok) (h : NotHead .comma rest) :
    paTys (prTys (a :: l) ++ rest) = some (a :: l, rest) := by
  induction l generalizing a with
  | nil =>
    cases rest with
    | nil => simp [prTys, paTys]
    | cons t r =>
      cases t <;> simp [prTys, paTys] <;> simp [NotHead] at h
  | cons b l ih => simp [prTys, paTys, ih b]

theorem paArgs_pr (a : Str × Opq) (l : List (Str × Opq)) (rest : List Tok)
    (h : NotHead .comma rest) :
    paArgs (prArgs (a :: l) ++ rest) = some (a :: l, rest) := by
  induction l generalizing a with
  | nil =>
    obtain ⟨a, t⟩ := a
    cases rest with
    | nil => simp [prArgs, paArgs]
    | cons t r =>
      cases t <;> simp [prArgs, paArgs] <;> simp [NotHead] at h
  | cons b l ih =>
    obtain ⟨a, t⟩ := a
    simp [prArgs, paArgs, ih b]

@[simp] theorem asKey_keyTok (k : Key) : asKey (keyTok k) = some k := by
  obtain ⟨i, b⟩ := k
  cases b <;> simp [keyTok, asKey]

theorem paEntries_pr (e : Entry) (l : List Entry) (rest : List Tok)
    (h : NotHead .comma rest) (h2 : NotHead .eq rest) :
    paEntries (prEntries (e :: l) ++ rest) = some (e :: l, rest) := by
  induction l generalizing e with
  | nil =>
    obtain ⟨k, v⟩ := e
    cases v with
    | none =>
      simp only [prEntries, prEntry, List.cons_append, List.nil_append]
      rw [paEntries]; simp only [asKey_keyTok]
      cases rest with
      | nil => rfl
      | cons t r =>
        cases t <;> first | rfl | (simp [NotHead] at h h2)
    | some a =>
      simp only [prEntries, prEntry, List.cons_append, List.nil_append]
      rw [paEntries]; simp only [asKey_keyTok]
      cases rest with
      | nil => rfl
      | cons t r =>
        cases t <;> first | rfl | (simp [NotHead] at h)
  | cons f l ih =>
    obtain ⟨k, v⟩ := e
    cases v with
    | none =>
      simp only [prEntries, prEntry, List.cons_append, List.nil_append]
      rw [paEntries]; simp only [asKey_keyTok, ih f]
    | some a =>
      simp only [prEntries, prEntry, List.cons_append, List.nil_append]
      rw [paEntries]; simp only [asKey_keyTok, ih f]

theorem closed_nil {α : Type} (c : Tok) (p : List Tok → Option (List α × List Tok))
    (rest : List Tok) : closed c p (c :: rest) = some ([], rest) := by
  simp [closed]

theorem closed_of {α : Type} (c : Tok) (p : List Tok → Option (List α × List Tok))
    (t : Tok) (tl rest : List Tok) (l : List α) (hne : t ≠ c)
    (hp : p (t :: tl) = some (l, c :: rest)) : closed c p (t :: tl) = some (l, rest) := by
  simp [closed, hne, hp]

theorem prVals_head (a : Str) (l : List Str) : ∃ tl, prVals (a :: l) = .pct a :: tl := by
  cases l <;> simp [prVals]

theorem prCarets_head (a : Str) (l : List Str) : ∃ tl, prCarets (a :: l) = .caret a :: tl := by
  cases l <;> simp [prCarets]

theorem prTys_head (a : Opq) (l : List Opq) : ∃ tl, prTys (a :: l) = .opq a :: tl := by
  cases l <;> simp [prTys]

theorem prArgs_head (a : Str × Opq) (l : List (Str × Opq)) :
    ∃ tl, prArgs (a :: l) = .pct a.1 :: tl := by
  obtain ⟨a, t⟩ := a
  cases l <;> simp [prArgs]

theorem prEntries_head (e : Entry) (l : List Entry) :
    ∃ tl, prEntries (e :: l) = keyTok e.1 :: tl := by
  obtain ⟨k, v⟩ := e
  cases l <;> cases v <;> simp [prEntries, prEntry]

theorem keyTok_ne (k : Key) : keyTok k ≠ .rbrace := by
  unfold keyTok; split <;> simp

theorem closed_vals (l : List Str) (rest : List Tok) :
    closed .rparen paVals (prVals l ++ .rparen :: rest) = some (l, rest) := by
  cases l with
  | nil => exact closed_nil _ _ _
  | cons a l =>
    have hp := paVals_pr a l (.rparen :: rest) (by simp [NotHead])
    obtain ⟨tl, e⟩ := prVals_head a l
    rw [e] at hp ⊢
    exact closed_of _ _ _ _ _ _ (by simp) hp

theorem closed_carets (l : List Str) (rest : List Tok) :
    closed .rsq paCarets (prCarets l ++ .rsq :: rest) = some (l, rest) := by
  cases l with
  | nil => exact closed_nil _ _ _
  | cons a l =>
    have hp := paCarets_pr a l (.rsq :: rest) (by simp [NotHead])
    obtain ⟨tl, e⟩ := prCarets_head a l
    rw [e] at hp ⊢
    exact closed_of _ _ _ _ _ _ (by simp) hp

theorem closed_tys (l : List Opq) (rest : List Tok) :
    closed .rparen paTys (prTys l ++ .rparen :: rest) = some (l, rest) := by
  cases l with
  | nil => exact closed_nil _ _ _
  | cons a l =>
    have hp := paTys_pr a l (.rparen :: rest) (by simp [NotHead])
    obtain ⟨tl, e⟩ := prTys_head a l
    rw [e] at hp ⊢
    exact closed_of _ _ _ _ _ _ (by simp) hp

theorem closed_args (l : List (Str × Opq)) (rest : List Tok) :
    closed .rparen paArgs (prArgs l ++ .rparen :: rest) = some (l, rest) := by
  cases l with
  | nil => exact closed_nil _ _ _
  | cons a l =>
    have hp := paArgs_pr a l (.rparen :: rest) (by simp [NotHead])
    obtain ⟨tl, e⟩ := prArgs_head a l
    rw [e] at hp ⊢
    exact closed_of _ _ _ _ _ _ (by simp) hp

theorem closed_entries (l : List Entry) (rest : List Tok) :
    closed .rbrace paEntries (prEntries l ++ .rbrace :: rest) = some (l, rest) := by
  cases l with
  | nil => exact closed_nil _ _ _
  | cons a l =>
    have hp := paEntries_pr a l (.rbrace :: rest) (by simp [NotHead]) (by simp [NotHead])
    obtain ⟨tl, e⟩ := prEntries_head a l
    rw [e] at hp ⊢
    exact closed_of _ _ _ _ _ _ (keyTok_ne _) hp

/-! ### the pieces of an operation -/

theorem paResults_pr (l : List Str) (k : Nat) (rest : List Tok) :
    paResults ((if l.isEmpty then [] else prVals l ++ [.eq]) ++ .str k :: rest) =
      some (l, .str k :: rest) := by
  cases l with
  | nil => simp [paResults]
  | cons a l =>
    have hp := paVals_pr a l (.eq :: .str k :: rest) (by simp [NotHead])
    obtain ⟨tl, e⟩ := prVals_head a l
    simp only [List.isEmpty_cons, Bool.false_eq_true, if_false, List.append_assoc,
      List.cons_append, List.nil_append]
    rw [e] at hp ⊢
    simp only [List.cons_append] at hp ⊢
    simp [paResults, hp, expect]

theorem paSuccs_pr (l : List Str) (rest : List Tok) (h : NotHead .lsq rest) :
    paSuccs ((if l.isEmpty then [] else .lsq :: prCarets l ++ [.rsq]) ++ rest) = some (l, rest) := by
  cases l with
  | nil =>
    cases rest with
    | nil => simp [paSuccs]
    | cons t r => cases t <;> simp [paSuccs] <;> simp [NotHead] at h
  | cons a l =>
    simp only [List.isEmpty_cons, Bool.false_eq_true, if_false, List.append_assoc,
      List.cons_append, List.nil_append]
    simp [paSuccs, closed_carets]

theorem paProps_pr (l : List Entry) (rest : List Tok) (h : NotHead .lt rest)
    (hd : dupKey l = false) :
    paProps ((if l.isEmpty then [] else .lt :: .lbrace :: prEntries l ++ [.rbrace, .gt]) ++ rest) =
      some (l, rest) := by
  cases l with
  | nil =>
    cases rest with
    | nil => simp [paProps]
    | cons t r => cases t <;> simp [paProps] <;> simp [NotHead] at h
  | cons a l =>
    simp only [List.isEmpty_cons, Bool.false_eq_true, if_false, List.append_assoc,
      List.cons_append, List.nil_append]
    simp [paProps, closed_entries, hd]

theorem paAttrs_pr (l : List Entry) (rest : List Tok) (hd : dupKey l = false) :
    paAttrs ((if l.isEmpty then [] else .lbrace :: prEntries l ++ [.rbrace]) ++ .colon :: rest) =
      some (l, .colon :: rest) := by
  cases l with
  | nil => simp [paAttrs]
  | cons a l =>
    simp only [List.isEmpty_cons, Bool.false_eq_true, if_false, List.append_assoc,
      List.cons_append, List.nil_append]
    simp [paAttrs, closed_entries, hd]

theorem paHead_pr (h : Hdr Str Str) (rest : List Tok) (h1 : NotHead .lsq rest)
    (h2 : NotHead .lt rest) (hd : dupKey h.props = false) :
    paHead (prHead h ++ rest) = some (⟨h.results, h.name, h.operands, h.succs, h.props⟩, rest) := by
  unfold prHead paHead
  simp only [List.append_assoc, List.cons_append]
  rw [paResults_pr]
  simp only [closed_vals]
  have hs : NotHead .lsq
      ((if h.props.isEmpty then [] else .lt :: .lbrace :: prEntries h.props ++ [.rbrace, .gt]) ++ rest) := by
    cases hp : h.props.isEmpty <;> simp [NotHead] <;> simpa [NotHead] using h1
  have e1 := paSuccs_pr h.succs _ hs
  have e2 := paProps_pr _ _ h2 hd
  simp only [List.append_assoc, List.cons_append, List.nil_append] at e1 e2
  simp only [e1, e2]

theorem paFnType_pr (ins outs : List Opq) (rest : List Tok) :
    paFnType (.lparen :: prTys ins ++ .rparen :: .arrow :: prOuts outs ++ rest) =
      some ((ins, outs), rest) := by
  simp only [paFnType, List.cons_append, List.append_assoc, closed_tys]
  match outs with
  | [] => simp [prOuts, closed_nil]
  | [t] =>
    cases hf : t.fn
    · simp [prOuts, hf]
    · have := closed_tys [t] rest
      simp only [prTys, List.cons_append, List.nil_append] at this
      simp [prOuts, hf, this]
  | a :: b :: r =>
    have := closed_tys (a :: b :: r) rest
    simp only [prOuts, List.cons_append, List.append_assoc, List.nil_append] at this ⊢
    simp [this]

theorem paTail_pr (h : Hdr Str Str) (rest : List Tok) (hd : dupKey h.attrs = false) :
    paTail (prTail h ++ rest) = some ((h.attrs, h.inTys, h.outTys), rest) := by
  unfold prTail paTail
  simp only [List.append_assoc, List.cons_append]
  have e1 := paAttrs_pr h.attrs (.lparen :: (prTys h.inTys ++ .rparen :: .arrow :: (prOuts h.outTys ++ rest))) hd
  have e2 := paFnType_pr h.inTys h.outTys rest
  simp only [List.append_assoc, List.cons_append, List.nil_append] at e1 e2
  simp only [e1, e2]

theorem paLabelRest_pr (args : List (Str × Opq)) (n : Str) (rest : List Tok) :
    ∃ tl, prLabel (some n) args = .caret n :: tl ∧ paLabelRest (tl ++ rest) = some (args, rest) := by
  cases args with
  | nil => exact ⟨[.colon], rfl, by simp [paLabelRest, expect]⟩
  | cons a l =>
    refine ⟨.lparen :: prArgs (a :: l) ++ [.rparen, .colon], rfl, ?_⟩
    have := closed_args (a :: l) (.colon :: rest)
    simp only [List.cons_append, List.append_assoc, List.nil_append] at this ⊢
    simp [paLabelRest, this, expect]

theorem retro_id (names : List Nat) (props attrs : List Entry)
    (h : names.all (fun k => !hasKey attrs k || hasKey props k) = true) :
    retro names props attrs = (props, attrs) := by
  unfold retro
  induction names with
  | nil => rfl
  | cons k ks ih =>
    simp only [List.all_cons, Bool.and_eq_true] at h
    have hk : retroStep (props, attrs) k = (props, attrs) := by
      unfold retroStep
      have := h.1
      cases ha : hasKey attrs k <;> cases hp : hasKey props k <;> simp_all
    simp only [List.foldl_cons, hk]
    exact ih h.2

theorem mkHdr_id (defs : Nat → List Nat) (h : Hdr Str Str) (ok : hdrOK defs h = true) :
    mkHdr defs ⟨h.results, h.name, h.operands, h.succs, h.props⟩ (h.attrs, h.inTys, h.outTys) = h := by
  unfold hdrOK at ok
  simp only [Bool.and_eq_true] at ok
  unfold mkHdr
  simp only [retro_id _ _ _ ok.2]

theorem hdrOK_dup {V B : Type} (defs : Nat → List Nat) (h : Hdr V B) (ok : hdrOK defs h = true) :
    dupKey h.props = false ∧ dupKey h.attrs = false := by
  unfold hdrOK at ok
  simp only [Bool.and_eq_true, Bool.not_eq_true'] at ok
  exact ⟨ok.1.1, ok.1.2⟩

/-- fuel that suffices to read a tree back -/
def need : NTree → Nat
  | .nil => 0
  | .op _ rs nx => need rs + need nx + 1
  | .region bs nx => need bs + need nx + 1
  | .block (some _) _ ops nx => need ops + need nx + 1
  | .block none _ ops nx => need ops + need nx

/-- the next token does not start an operation -/
def StopsOps (rest : List Tok) : Prop := opStart rest = some false

def IsOpTok : Tok → Prop
  | .pct _ => True
  | .str _ => True
  | _ => False

theorem opStart_of (t : Tok) (tl : List Tok) (h : IsOpTok t) : opStart (t :: tl) = some true := by
  cases t <;> first | rfl | exact absurd h (by simp [IsOpTok])

theorem regionStart_of (t : Tok) (tl : List Tok) (h : IsOpTok t) :
    regionStart (.lbrace :: t :: tl) = .unlabelled (t :: tl) := by
  cases t <;> first | rfl | exact absurd h (by simp [IsOpTok])

theorem prHead_head (h : Hdr Str Str) : ∃ t tl, prHead h = t :: tl ∧ IsOpTok t := by
  unfold prHead
  cases hr : h.results with
  | nil => exact ⟨.str h.name, _, by simp; rfl, trivial⟩
  | cons a l =>
    obtain ⟨tl, e⟩ := prVals_head a l
    exact ⟨.pct a, _, by simp [e]; rfl, trivial⟩

theorem prTail_head (h : Hdr Str Str) :
    ∃ t tl, prTail h = t :: tl ∧ (t = .lbrace ∨ t = .colon) := by
  unfold prTail
  cases ha : h.attrs.isEmpty
  · exact ⟨.lbrace, _, by simp; rfl, Or.inl rfl⟩
  · exact ⟨.colon, _, by simp; rfl, Or.inr rfl⟩

theorem pr_op_head (h : Hdr Str Str) (rs nx : NTree) (X : List Tok) :
    ∃ t tl, pr (.op h rs nx) ++ X = t :: tl ∧ IsOpTok t := by
  obtain ⟨t, tl, e, ht⟩ := prHead_head h
  exact ⟨t, _, by simp [pr, e]; rfl, ht⟩

/-- what follows the operations of a block: the label of the next block or the `}` -/
theorem stops_blocks (defs : Nat → List Nat) (nx : NTree) (rest : List Tok)
    (hs : shape defs .blocks nx = true) (hl : labelsOK false nx = true) :
    StopsOps (pr nx ++ .rbrace :: rest) := by
  cases nx with
  | nil => rfl
  | op => simp [shape] at hs
  | region => simp [shape] at hs
  | block lab args ops nx' =>
    cases lab with
    | none => simp [labelsOK] at hl
    | some n =>
      obtain ⟨tl, e, -⟩ := paLabelRest_pr args n []
      simp [pr, e, StopsOps, opStart]

/-- the three readers, on the printed form of a tree of the right sort -/
structure Reads (defs : Nat → List Nat) (t : NTree) : Prop where
  ops : shape defs .ops t = true → labelsOK false t = true → ∀ f, need t < f →
    ∀ rest, StopsOps rest → paOps defs f (pr t ++ rest) = some (t, rest)
  regions : shape defs .regions t = true → labelsOK false t = true → t.isNil = false →
    ∀ f, need t < f → ∀ rest, paRegions defs f (pr t ++ rest) = some (t, rest)
  blocks : shape defs .blocks t = true → labelsOK false t = true → ∀ f, need t < f →
    ∀ rest, paBlocks defs f (pr t ++ .rbrace :: rest) = some (t, rest)

theorem reads_nil (defs : Nat → List Nat) : Reads defs .nil where
  ops := by
    intro _ _ f hf rest hr
    obtain ⟨f, rfl⟩ : ∃ g, f = g + 1 := ⟨f - 1, by omega⟩
    unfold paOps
    simp only [pr, List.nil_append]
    rw [show opStart rest = some false from hr]
  regions := by intro _ _ h; simp [Tree.isNil] at h
  blocks := by
    intro _ _ f hf rest
    obtain ⟨f, rfl⟩ : ∃ g, f = g + 1 := ⟨f - 1, by omega⟩
    unfold paBlocks
    simp [pr]

theorem reads_op (defs : Nat → List Nat) (h : Hdr Str Str) (rs nx : NTree)
    (ihr : Reads defs rs) (ihn : Reads defs nx) : Reads defs (.op h rs nx) where
  regions := by intro hs; simp [shape] at hs
  blocks := by intro hs; simp [shape] at hs
  ops := by
    intro hs hl f hf rest hr
    simp only [shape, Bool.and_eq_true] at hs
    simp only [labelsOK, Bool.and_eq_true] at hl
    obtain ⟨⟨hok, hsr⟩, hsn⟩ := hs
    obtain ⟨hlr, hln⟩ := hl
    obtain ⟨f, rfl⟩ : ∃ g, f = g + 1 := ⟨f - 1, by omega⟩
    simp only [need] at hf
    obtain ⟨hdp, hda⟩ := hdrOK_dup defs h hok
    unfold paOps
    obtain ⟨t0, tl0, e0, ht0⟩ := pr_op_head h rs nx rest
    rw [e0, opStart_of _ _ ht0, ← e0]
    obtain ⟨t1, tl1, e1, ht1⟩ := prTail_head h
    -- the regions
    cases rs with
    | nil =>
      have hh : paHead (prHead h ++ (prTail h ++ (pr nx ++ rest))) = _ :=
        paHead_pr h _ (by rw [e1]; rcases ht1 with rfl | rfl <;> simp [NotHead])
          (by rw [e1]; rcases ht1 with rfl | rfl <;> simp [NotHead]) hdp
      simp only [pr, List.append_assoc, List.nil_append]
      rw [hh]
      have hrs : regStart (prTail h ++ (pr nx ++ rest)) = .inr (prTail h ++ (pr nx ++ rest)) := by
        rw [e1]; rcases ht1 with rfl | rfl <;> rfl
      simp only [hrs, paTail_pr h _ hda, ihn.ops hsn hln f (by omega) rest hr, mkHdr_id defs h hok]
    | op => simp [shape] at hsr
    | block => simp [shape] at hsr
    | region bs nx2 =>
      have hh : paHead (prHead h ++ (.lparen :: (pr (.region bs nx2) ++ (prTail h ++ (pr nx ++ rest))))) = _ :=
        paHead_pr h _ (by simp [NotHead]) (by simp [NotHead]) hdp
      simp only [pr, List.append_assoc, List.nil_append, List.cons_append] at hh ⊢
      rw [hh]
      have hrs : ∀ X, regStart (.lparen :: .lbrace :: X) = .inl (.lbrace :: X) := fun _ => rfl
      have hreg := ihr.regions hsr hlr rfl f (by simp only [need] at hf ⊢; omega)
        (prTail h ++ (pr nx ++ rest))
      simp only [pr, List.append_assoc, List.nil_append, List.cons_append] at hreg
      simp only [hrs, hreg, paTail_pr h _ hda, ihn.ops hsn hln f (by omega) rest hr,
        mkHdr_id defs h hok]

theorem reads_block (defs : Nat → List Nat) (lab : Option Str) (args : List (Str × Opq))
    (ops nx : NTree) (iho : Reads defs ops) (ihn : Reads defs nx) :
    Reads defs (.block lab args ops nx) where
  ops := by intro hs; simp [shape] at hs
  regions := by intro hs; simp [shape] at hs
  blocks := by
    intro hs hl f hf rest
    simp only [shape, Bool.and_eq_true] at hs
    obtain ⟨hso, hsn⟩ := hs
    cases lab with
    | none => simp [labelsOK] at hl
    | some n =>
      simp only [labelsOK, Bool.and_eq_true, Bool.true_and] at hl
      obtain ⟨hlo, hln⟩ := hl
      obtain ⟨f, rfl⟩ : ∃ g, f = g + 1 := ⟨f - 1, by omega⟩
      simp only [need] at hf
      obtain ⟨tl, e, hp⟩ := paLabelRest_pr args n (pr ops ++ (pr nx ++ .rbrace :: rest))
      unfold paBlocks
      simp only [pr, e, List.append_assoc, List.cons_append, hp,
        iho.ops hso hlo f (by omega) _ (stops_blocks defs nx rest hsn hln),
        ihn.blocks hsn hln f (by omega) rest]

/-- a region whose blocks and successor regions read back reads back -/
theorem reads_region (defs : Nat → List Nat) (bs nx : NTree)
    (hbs : shape defs .blocks bs = true → labelsOK true bs = true → ∀ f, need bs < f →
      ∀ rest, regionBody (paOps defs f) (paBlocks defs f) (.lbrace :: (pr bs ++ .rbrace :: rest)) =
        some (bs, rest))
    (ihn : Reads defs nx) : Reads defs (.region bs nx) where
  ops := by intro hs; simp [shape] at hs
  blocks := by intro hs; simp [shape] at hs
  regions := by
    intro hs hl _ f hf rest
    simp only [shape, Bool.and_eq_true] at hs
    simp only [labelsOK, Bool.and_eq_true] at hl
    obtain ⟨hsb, hsn⟩ := hs
    obtain ⟨hlb, hln⟩ := hl
    obtain ⟨f, rfl⟩ : ∃ g, f = g + 1 := ⟨f - 1, by omega⟩
    simp only [need] at hf
    unfold paRegions
    cases nx with
    | nil =>
      have hb := hbs hsb hlb f (by omega) (.rparen :: rest)
      simp only [pr, List.append_assoc, List.cons_append, List.nil_append, hb]
    | op => simp [shape] at hsn
    | block => simp [shape] at hsn
    | region bs2 nx2 =>
      have hb := hbs hsb hlb f (by omega) (.comma :: (pr (.region bs2 nx2) ++ rest))
      have hn := ihn.regions hsn hln rfl f (by omega) rest
      simp only [pr, List.append_assoc, List.cons_append, List.nil_append] at hb hn ⊢
      simp only [hb, hn]

theorem reads (defs : Nat → List Nat) : ∀ t : NTree, Reads defs t
  | .nil => reads_nil defs
  | .op h rs nx => reads_op defs h rs nx (reads defs rs) (reads defs nx)
  | .block lab args ops nx => reads_block defs lab args ops nx (reads defs ops) (reads defs nx)
  | .region .nil nx =>
    reads_region defs .nil nx (fun _ _ f _ rest => by simp [pr, regionBody, regionStart])
      (reads defs nx)
  | .region (.op h rs nx') nx =>
    reads_region defs _ nx (fun hs => by simp [shape] at hs) (reads defs nx)
  | .region (.region bs' nx') nx =>
    reads_region defs _ nx (fun hs => by simp [shape] at hs) (reads defs nx)
  | .region (.block (some n) args ops nx') nx =>
    reads_region defs _ nx
      (fun hs hl f hf rest => by
        obtain ⟨tl, e, -⟩ := paLabelRest_pr args n []
        have hrs : regionStart (.lbrace :: (pr (.block (some n) args ops nx') ++ .rbrace :: rest)) =
            .labelled (pr (.block (some n) args ops nx') ++ .rbrace :: rest) := by
          simp [pr, e, regionStart]
        unfold regionBody
        rw [hrs]
        exact (reads defs (.block (some n) args ops nx')).blocks hs
            (by simpa [labelsOK] using hl) f hf rest)
      (reads defs nx)
  | .region (.block none args ops nx') nx =>
    reads_region defs _ nx
      (fun hs hl f hf rest => by
        simp only [shape, Bool.and_eq_true] at hs
        simp only [labelsOK, Bool.and_eq_true, Bool.true_and, List.isEmpty_iff,
          Bool.not_eq_true'] at hl
        obtain ⟨hso, hsn⟩ := hs
        obtain ⟨⟨⟨ha, hnn⟩, hlo⟩, hln⟩ := hl
        subst ha
        simp only [need] at hf
        cases ops with
        | nil => simp [Tree.isNil] at hnn
        | region => simp [shape] at hso
        | block => simp [shape] at hso
        | op h rs nx2 =>
          obtain ⟨t0, tl0, e0, ht0⟩ := pr_op_head h rs nx2 (pr nx' ++ .rbrace :: rest)
          have hrs : regionStart (.lbrace :: (pr (.block none [] (.op h rs nx2) nx') ++ .rbrace :: rest)) =
              .unlabelled (pr (.op h rs nx2) ++ (pr nx' ++ .rbrace :: rest)) := by
            have : pr (.block none [] (.op h rs nx2) nx') ++ .rbrace :: rest =
                pr (.op h rs nx2) ++ (pr nx' ++ .rbrace :: rest) := by
              simp [pr, prLabel]
            rw [this, e0, regionStart_of _ _ ht0]
          unfold regionBody
          rw [hrs]
          simp only [(reads defs (.op h rs nx2)).ops hso hlo f (by omega) _
                (stops_blocks defs nx' rest hsn hln),
              (reads defs nx').blocks hsn hln f (by omega) rest])
      (reads defs nx)

theorem need_le (defs : Nat → List Nat) : ∀ t : NTree, need t ≤ (pr t).length
  | .nil => by simp [need]
  | .op h rs nx => by
    have h1 := need_le defs rs
    have h2 := need_le defs nx
    obtain ⟨t, tl, e, -⟩ := prHead_head h
    cases rs <;> simp [need, pr, e] at h1 ⊢ <;> omega
  | .region bs nx => by
    have h1 := need_le defs bs
    have h2 := need_le defs nx
    cases nx <;> simp [need, pr] at h2 ⊢ <;> omega
  | .block (some n) args ops nx => by
    have h1 := need_le defs ops
    have h2 := need_le defs nx
    obtain ⟨tl, e, -⟩ := paLabelRest_pr args n []
    simp [need, pr, e]; omega
  | .block none args ops nx => by
    have h1 := need_le defs ops
    have h2 := need_le defs nx
    simp [need, pr]; omega

/-- Reading the printed form of an operation list gives the operation list back: for every tree
whose cells are of the right sort, whose dictionaries have no duplicate keys and no inherent
attribute outside the properties, and which omits only labels a text can omit. -/
theorem parseT_pr (defs : Nat → List Nat) (t : NTree) (hs : shape defs .ops t = true)
    (hl : labelsOK false t = true) : parseT defs (pr t) = some t := by
  unfold parseT
  have := (reads defs t).ops hs hl ((pr t).length + 1) (by have := need_le defs t; omega) [] rfl
  simp only [List.append_nil] at this
  simp only [this]

/-! ### the printed names and labels make a readable text -/

theorem shape_nameT (defs : Nat → List Nat) (nv nb : Nat → Str) (t : IR) :
    ∀ (m : Mode) (e : Bool), shape defs m (nameT nv nb e t) = shape defs m t := by
  induction t with
  | nil => intro m e; cases m <;> rfl
  | op h rs nx ihr ihn =>
    intro m e
    cases m <;> simp only [nameT, shape]
    rw [ihr, ihn]; rfl
  | region bs nx ihb ihn =>
    intro m e
    cases m <;> simp only [nameT, shape]
    rw [ihb, ihn]
  | block b args ops nx iho ihn =>
    intro m e
    cases m <;> simp only [nameT, shape]
    rw [iho, ihn]

theorem isNil_nameT (nv nb : Nat → Str) (e : Bool) (t : IR) :
    (nameT nv nb e t).isNil = t.isNil := by
  cases t <;> rfl

theorem labelsOK_nameT (nv nb : Nat → Str) (t : IR) :
    ∀ e : Bool, labelsOK e (nameT nv nb e t) = true := by
  induction t with
  | nil => intro e; rfl
  | op h rs nx ihr ihn => intro e; simp only [nameT, labelsOK, ihr, ihn]; rfl
  | region bs nx ihb ihn => intro e; simp only [nameT, labelsOK, ihb, ihn]; rfl
  | block b args ops nx iho ihn =>
    intro e
    simp only [nameT, labelsOK, iho, ihn, Bool.and_true]
    cases hc : (e && !entryLabelled b args ops nx) with
    | false => simp
    | true =>
      simp only [Bool.and_eq_true, Bool.not_eq_true', entryLabelled, Bool.or_eq_false_iff,
        Bool.not_eq_false'] at hc
      obtain ⟨he, ⟨ha, _⟩, hn⟩ := hc
      have : (mapArgs nv args).isEmpty = true := by
        cases args <;> simp_all [mapArgs]
      simp [he, this, isNil_nameT, hn]

end Xdsl.Skeleton
