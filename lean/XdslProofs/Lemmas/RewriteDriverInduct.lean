import XdslProofs.Lemmas.RewriteDriver
/-!
Induction principles for the closed driver (C11): an invariant preserved by `populate` (with the
reset of `op_was_modified`), by one pop + match, and by the post-walk holds of the state returned
by `process`, `sweep`, `outer` and `rewriteRegion`.
-/
namespace Xdsl.RewriteDriver
open Xdsl.Worklist (WL Inv abs)

variable {IR : Type}

/-- the state handed to `matchOp` after `popNext` returned `(x, w)` -/
abbrev popped (d : D IR) (w : WL) : D IR := { d with st := { d.st with wl := w } }

/-- the state at the start of a sweep -/
abbrev reset (d : D IR) : D IR := { d with st := { d.st with changed := false } }

theorem process_induct (P : Params IR) (Q : D IR → Prop)
    (h_match : ∀ d x w, Q d → popNext (P.pick.map fun f => f d.ir) d.st.wl = some (x, w) →
      Q (matchOp P (popped d w) x)) :
    ∀ fuel d d', Q d → process P fuel d = some d' → Q d' := by
  intro fuel
  induction fuel with
  | zero => intro d d' _ h; simp [process] at h
  | succ n ih =>
    intro d d' hq h
    simp only [process] at h
    split at h
    · cases h; exact hq
    · rename_i x w hp
      exact ih _ _ (h_match d x w hq hp) h

theorem sweep_induct (P : Params IR) (Q : D IR → Prop)
    (h_pop : ∀ d, Q d → Q (populate P (reset d)))
    (h_match : ∀ d x w, Q d → popNext (P.pick.map fun f => f d.ir) d.st.wl = some (x, w) →
      Q (matchOp P (popped d w) x))
    (h_post : ∀ d, Q d → Q (postWalk P d)) :
    ∀ fuel d d', Q d → sweep P fuel d = some d' → Q d' := by
  intro fuel d d' hq h
  simp only [sweep, Option.map_eq_some_iff] at h
  obtain ⟨d1, h1, rfl⟩ := h
  exact h_post _ (process_induct P Q h_match fuel _ _ (h_pop d hq) h1)

theorem outer_induct (P : Params IR) (Q : D IR → Prop) (fuel : Nat)
    (h_sweep : ∀ d d', Q d → sweep P fuel d = some d' → Q d') :
    ∀ n d d', Q d → outer P fuel n d = some d' → Q d' := by
  intro n
  induction n with
  | zero => intro d d' _ h; simp [outer] at h
  | succ n ih =>
    intro d d' hq h
    simp only [outer] at h
    split at h
    · split at h
      · cases h
      · rename_i d1 hs
        exact ih _ _ (h_sweep _ _ hq hs) h
    · cases h; exact hq

theorem rewriteRegion_induct (P : Params IR) (Q : D IR → Prop)
    (h_pop : ∀ d, Q d → Q (populate P (reset d)))
    (h_match : ∀ d x w, Q d → popNext (P.pick.map fun f => f d.ir) d.st.wl = some (x, w) →
      Q (matchOp P (popped d w) x))
    (h_post : ∀ d, Q d → Q (postWalk P d)) :
    ∀ fuel d r, Q d → rewriteRegion P fuel d = some r → Q r.1 := by
  intro fuel d r hq h
  have hs := sweep_induct P Q h_pop h_match h_post fuel
  simp only [rewriteRegion] at h
  split at h
  · cases h
  · rename_i d1 h1
    have q1 := hs _ _ hq h1
    split at h
    · cases h; exact q1
    · simp only [Option.map_eq_some_iff] at h
      obtain ⟨d2, h2, rfl⟩ := h
      exact outer_induct P Q fuel hs fuel _ _ q1 h2

/-- `outer` stops exactly when a sweep reports no change; its result is either its argument
(already unchanged) or the result of a sweep. -/
theorem outer_result (P : Params IR) (fuel : Nat) :
    ∀ n d d', outer P fuel n d = some d' →
      d'.st.changed = false ∧ (d' = d ∨ ∃ dp, sweep P fuel dp = some d') := by
  intro n
  induction n with
  | zero => intro d d' h; simp [outer] at h
  | succ n ih =>
    intro d d' h
    simp only [outer] at h
    split at h
    · split at h
      · cases h
      · rename_i d1 hs
        obtain ⟨c, r⟩ := ih _ _ h
        refine ⟨c, Or.inr ?_⟩
        rcases r with rfl | r
        · exact ⟨_, hs⟩
        · exact r
    · rename_i hc
      cases h
      exact ⟨by simpa using hc, Or.inl rfl⟩

end Xdsl.RewriteDriver
