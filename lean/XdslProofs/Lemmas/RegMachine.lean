import XdslModel.RegAlloc
/-!
Helper lemmas for C19: the two executions of `XdslModel.RegMachine` and the simulation step used by
`validator_sound`.
-/
namespace Xdsl.RegAlloc
open Xdsl.RegMachine

/-! ### writes in SSA form -/

theorem writeVals_not_mem (g : Nat → Word) (ds : List ValId) (i : Nat) (e : ValId → Word) (v : ValId)
    (h : v ∉ ds) : writeVals g i ds e v = e v := by
  induction ds generalizing i e with
  | nil => rfl
  | cons d ds ih =>
    simp only [List.mem_cons, not_or] at h
    simp only [writeVals]
    rw [ih _ _ h.2]
    simp [upd, h.1]

theorem writeVals_at (g : Nat → Word) (pre post : List ValId) (d : ValId) (i : Nat) (e : ValId → Word)
    (h : d ∉ post) : writeVals g i (pre ++ d :: post) e d = g (i + pre.length) := by
  induction pre generalizing i e with
  | nil =>
    simp only [List.nil_append, writeVals, List.length_nil, Nat.add_zero]
    rw [writeVals_not_mem _ _ _ _ _ h]
    simp [upd]
  | cons p pre ih =>
    simp only [List.cons_append, writeVals, List.length_cons]
    rw [ih]
    congr 1; omega

/-! ### writes on the register machine -/

theorem readReg_writeReg_same (z : Bool) (rf : Reg → Word) (r : Reg) (x : Word)
    (h : ¬ (z = true ∧ r = 0)) : readReg z (writeReg z rf r x) r = x := by
  unfold readReg writeReg
  by_cases hz : z = true
  · have hr : r ≠ 0 := fun e => h ⟨hz, e⟩
    simp [hz, hr, upd]
  · simp [hz, upd]

theorem readReg_writeReg_other (z : Bool) (rf : Reg → Word) (r r' : Reg) (x : Word)
    (h : r' ≠ r) : readReg z (writeReg z rf r x) r' = readReg z rf r' := by
  unfold readReg writeReg
  by_cases hc : (z && r == 0) = true
  · simp [hc]
  · simp only [hc]
    by_cases hc' : (z && r' == 0) = true
    · simp [hc']
    · simp [hc', upd, h]

theorem readReg_zero (rf : Reg → Word) : readReg true rf 0 = 0 := by
  simp [readReg]

theorem readReg_writeRegs_other (z : Bool) (alloc : ValId → Reg) (g : Nat → Word) (ds : List ValId)
    (i : Nat) (rf : Reg → Word) (r : Reg) (h : ∀ d ∈ ds, alloc d ≠ r) :
    readReg z (writeRegs z alloc g i ds rf) r = readReg z rf r := by
  induction ds generalizing i rf with
  | nil => rfl
  | cons d ds ih =>
    simp only [writeRegs]
    rw [ih _ _ (fun d' hd' => h d' (List.mem_cons_of_mem _ hd'))]
    exact readReg_writeReg_other z rf (alloc d) r _ (fun e => h d (List.mem_cons_self ..) e.symm)

theorem readReg_writeRegs_at (z : Bool) (alloc : ValId → Reg) (g : Nat → Word) (pre post : List ValId)
    (d : ValId) (i : Nat) (rf : Reg → Word)
    (hpost : ∀ d' ∈ post, alloc d' ≠ alloc d) (hz : ¬ (z = true ∧ alloc d = 0)) :
    readReg z (writeRegs z alloc g i (pre ++ d :: post) rf) (alloc d) = g (i + pre.length) := by
  induction pre generalizing i rf with
  | nil =>
    simp only [List.nil_append, writeRegs, List.length_nil, Nat.add_zero]
    rw [readReg_writeRegs_other _ _ _ _ _ _ _ hpost]
    exact readReg_writeReg_same z rf _ _ hz
  | cons p pre ih =>
    simp only [List.cons_append, writeRegs, List.length_cons]
    rw [ih]
    congr 1; omega

/-! ### the simulation invariant -/

/-- every value of `L` is found in its register -/
def Agree (z : Bool) (alloc : ValId → Reg) (rf : Reg → Word) (env : ValId → Word) (L : List ValId) : Prop :=
  ∀ v ∈ L, readReg z rf (alloc v) = env v

/-- every value known to be zero is zero -/
def ZeroInv (env : ValId → Word) (Z : List ValId) : Prop := ∀ v ∈ Z, env v = 0

theorem mem_liveIn_reads {o : Op} {L : List ValId} {v : ValId} (h : v ∈ o.reads) : v ∈ liveIn o L := by
  simp [liveIn, h]

theorem mem_liveIn_of_live {o : Op} {L : List ValId} {v : ValId} (h : v ∈ L) (hd : v ∉ o.defs) :
    v ∈ liveIn o L := by
  simp [liveIn, h, hd]

theorem reads_agree {z : Bool} {alloc : ValId → Reg} {rf : Reg → Word} {env : ValId → Word} {o : Op}
    {L : List ValId} (h : Agree z alloc rf env (liveIn o L)) :
    (o.reads.map fun v => readReg z rf (alloc v)) = o.reads.map env := by
  apply List.map_congr_left
  intro v hv
  exact h v (mem_liveIn_reads hv)

theorem mem_split_nodup {ds : List ValId} {d : ValId} (h : d ∈ ds) (hn : ds.Nodup) :
    ∃ pre post, ds = pre ++ d :: post ∧ d ∉ post ∧ d ∉ pre := by
  obtain ⟨pre, post, rfl⟩ := List.append_of_mem h
  refine ⟨pre, post, rfl, ?_, ?_⟩
  · intro hp
    have := (List.nodup_append.1 hn).2.1
    exact (List.nodup_cons.1 this).1 hp
  · intro hp
    have := (List.nodup_append.1 hn).2.2
    exact this d hp d (List.mem_cons_self ..) rfl

/-- unfolding of the per-operation check -/
theorem opOk_iff {z : Bool} {alloc : ValId → Reg} {Z Z' : List ValId} {o : Op} {L : List ValId} :
    opOk z alloc Z Z' o L = true ↔
      o.defs.Nodup ∧ (∀ d ∈ o.defs, d ∉ Z)
      ∧ (∀ d ∈ o.defs, ∀ w ∈ o.defs ++ L, w ≠ d → alloc w = alloc d → (z = true ∧ alloc d = 0))
      ∧ (z = true → ∀ d ∈ o.defs, alloc d = 0 → d ∈ Z')
      ∧ (∀ p ∈ o.ios, alloc p.1 = alloc p.2) := by
  unfold opOk clashFree
  simp only [Bool.and_eq_true, decide_eq_true_eq, List.all_eq_true, Bool.or_eq_true, Bool.not_eq_true',
    List.contains_eq_mem, decide_eq_false_iff_not, beq_iff_eq, bne_iff_ne, ne_eq]
  constructor
  · rintro ⟨⟨⟨⟨h1, h2⟩, h3⟩, h4⟩, h5⟩
    refine ⟨h1, h2, ?_, ?_, h5⟩
    · intro d hd w hw hne heq
      rcases h3 d hd w hw with (h | h) | h
      · exact absurd h hne
      · exact absurd heq h
      · exact h
    · intro hz d hd h0
      rcases h4 with h | h
      · simp [hz] at h
      · rcases h d hd with h | h
        · exact absurd h0 h
        · exact h
  · rintro ⟨h1, h2, h3, h4, h5⟩
    refine ⟨⟨⟨⟨h1, h2⟩, ?_⟩, ?_⟩, h5⟩
    · intro d hd w hw
      by_cases hne : w = d
      · exact Or.inl (Or.inl hne)
      · by_cases heq : alloc w = alloc d
        · exact Or.inr (h3 d hd w hw hne heq)
        · exact Or.inl (Or.inr heq)
    · cases z with
      | false => exact Or.inl rfl
      | true =>
        right
        intro d hd
        by_cases h0 : alloc d = 0
        · exact Or.inr (h4 rfl d hd h0)
        · exact Or.inl h0

theorem mem_newZero {Z : List ValId} {o : Op} {v : ValId} (h : v ∈ newZero true Z o) :
    (o.zk = 1 ∧ v ∈ o.defs)
    ∨ (o.zk ≠ 1 ∧ (o.zk = 2 ∨ o.zk = 3) ∧
        ∃ (k : Nat) (r : ValId), o.reads[k]? = some r ∧ o.defs[k]? = some v ∧ r ∈ Z) := by
  unfold newZero at h
  split at h
  · exact Or.inl ⟨by assumption, h⟩
  · rename_i h1
    split at h
    · rename_i h2
      right
      refine ⟨h1, by simpa using h2, ?_⟩
      rw [List.mem_filterMap] at h
      obtain ⟨⟨r, d⟩, hmem, hsome⟩ := h
      simp only at hsome
      split at hsome
      · rename_i hz
        simp only [Option.some.injEq] at hsome
        subst hsome
        obtain ⟨k, hk⟩ := List.mem_iff_getElem?.1 hmem
        rw [List.getElem?_zip_eq_some] at hk
        exact ⟨k, r, hk.1, hk.2, by simpa using hz⟩
      · exact absurd hsome (by simp)
    · simp at h

/-- one operation preserves the simulation -/
theorem step_sim {z : Bool} {alloc : ValId → Reg} {f : Sem} {Z : List ValId} {o : Op} {L : List ValId}
    {rf : Reg → Word} {env : ValId → Word}
    (hok : opOk z alloc Z (Z ++ newZero true Z o) o L = true)
    (hag : Agree z alloc rf env (liveIn o L)) (hz : ZeroInv env Z) :
    Agree z alloc (stepRegs z alloc f rf o) (stepSSA f env o) L
    ∧ ZeroInv (stepSSA f env o) (Z ++ newZero true Z o) := by
  obtain ⟨hnd, hdz, hclash, hzero, _⟩ := opOk_iff.1 hok
  have hreads := reads_agree hag
  -- zero knowledge is preserved
  have hZ' : ZeroInv (stepSSA f env o) (Z ++ newZero true Z o) := by
    intro v hv
    rcases List.mem_append.1 hv with hv | hv
    · have : v ∉ o.defs := fun hd => hdz v hd hv
      unfold stepSSA
      rw [writeVals_not_mem _ _ _ _ _ this]
      exact hz v hv
    · rcases mem_newZero hv with ⟨h1, hd⟩ | ⟨h1, h23, k, r, hr, hd, hrZ⟩
      · obtain ⟨pre, post, hsplit, hpost, _⟩ := mem_split_nodup hd hnd
        unfold stepSSA
        rw [hsplit, writeVals_at _ _ _ _ _ _ hpost]
        simp [opOut, h1]
      · have hmem : v ∈ o.defs := List.mem_of_getElem? hd
        obtain ⟨pre, post, hsplit, hpost, hpre⟩ := mem_split_nodup hmem hnd
        have hk : k = pre.length := by
          rw [hsplit] at hd
          by_cases hlt : k < pre.length
          · rw [List.getElem?_append_left hlt] at hd
            exact absurd (List.mem_of_getElem? hd) hpre
          · rw [List.getElem?_append_right (by omega)] at hd
            cases hkk : k - pre.length with
            | zero => omega
            | succ m =>
              rw [hkk] at hd
              simp only [List.getElem?_cons_succ] at hd
              exact absurd (List.mem_of_getElem? hd) hpost
        unfold stepSSA
        rw [hsplit, writeVals_at _ _ _ _ _ _ hpost]
        simp only [opOut, h1, if_false, h23, if_true, Nat.zero_add]
        rw [← hk]
        simp [List.getD, hr, hz r hrZ]
  refine ⟨?_, hZ'⟩
  intro w hw
  unfold stepRegs stepSSA
  rw [hreads]
  by_cases hwd : w ∈ o.defs
  · -- a value defined here
    obtain ⟨pre, post, hsplit, hpost, _⟩ := mem_split_nodup hwd hnd
    by_cases hz0 : z = true ∧ alloc w = 0
    · -- lives in the zero register: it is known to be zero
      have hwz := hzero hz0.1 w hwd hz0.2
      have := hZ' w hwz
      unfold stepSSA at this
      rw [this, hz0.2, hz0.1]
      exact readReg_zero _
    · rw [hsplit, writeVals_at _ _ _ _ _ _ hpost]
      apply readReg_writeRegs_at _ _ _ _ _ _ _ _ _ hz0
      intro d' hd' heq
      have hd'mem : d' ∈ o.defs := by rw [hsplit]; simp [hd']
      have hne : w ≠ d' := fun e => hpost (e ▸ hd')
      have := hclash d' hd'mem w (List.mem_append_right _ hw) hne heq.symm
      exact hz0 ⟨this.1, heq ▸ this.2⟩
  · -- a value that stays live across the operation
    rw [writeVals_not_mem _ _ _ _ _ hwd]
    by_cases hz0 : z = true ∧ alloc w = 0
    · have := hag w (mem_liveIn_of_live hw hwd)
      rw [← this, hz0.2, hz0.1]
      simp [readReg]
    · rw [readReg_writeRegs_other]
      · exact hag w (mem_liveIn_of_live hw hwd)
      · intro d hd heq
        have hne : w ≠ d := fun e => hwd (e ▸ hd)
        have := hclash d hd w (List.mem_append_right _ hw) hne heq.symm
        exact hz0 ⟨this.1, heq ▸ this.2⟩

/-- the whole block -/
theorem sim_ops {z : Bool} {alloc : ValId → Reg} {f : Sem} (os : List Op) :
    ∀ (Z L Lin : List ValId) (rf : Reg → Word) (env : ValId → Word),
      checkOps z alloc Z os L = some Lin → Agree z alloc rf env Lin → ZeroInv env Z →
      Agree z alloc (runRegs z alloc f rf os) (runSSA f env os) L := by
  induction os with
  | nil =>
    intro Z L Lin rf env h hag _
    simp only [checkOps, Option.some.injEq] at h
    subst h
    exact hag
  | cons o os ih =>
    intro Z L Lin rf env h hag hz
    simp only [checkOps] at h
    split at h
    · exact absurd h (by simp)
    · rename_i L' hL'
      split at h
      · rename_i hok
        simp only [Option.some.injEq] at h
        subst h
        obtain ⟨hag', hz'⟩ := step_sim (f := f) hok hag hz
        simp only [runRegs, runSSA, List.foldl_cons]
        exact ih _ _ _ _ _ hL' hag' hz'
      · exact absurd h (by simp)

theorem init_agree {z : Bool} {alloc : ValId → Reg} (args : List ValId) :
    ∀ (inputs : List Word) (rf0 : Reg → Word), inputs.length = args.length →
      (args.map alloc).Nodup → (z = true → ∀ a ∈ args, alloc a ≠ 0) →
      Agree z alloc (initRegs z alloc args inputs rf0) (initEnv args inputs) args := by
  induction args with
  | nil => intro _ _ _ _ _ v hv; simp at hv
  | cons a as ih =>
    intro inputs rf0 hlen hnd hzero
    cases inputs with
    | nil => simp at hlen
    | cons x xs =>
      simp only [List.length_cons, Nat.add_right_cancel_iff] at hlen
      simp only [List.map_cons, List.nodup_cons, List.mem_map, not_exists, not_and] at hnd
      have ih' := ih xs rf0 hlen hnd.2 (fun hz b hb => hzero hz b (List.mem_cons_of_mem _ hb))
      intro v hv
      simp only [initRegs, initEnv]
      rcases List.mem_cons.1 hv with rfl | hv
      · rw [readReg_writeReg_same]
        · simp [upd]
        · rintro ⟨hz, h0⟩
          exact hzero hz v (List.mem_cons_self ..) h0
      · have hne : alloc v ≠ alloc a := fun e => hnd.1 v hv e
        have hva : v ≠ a := fun e => hne (e ▸ rfl)
        rw [readReg_writeReg_other _ _ _ _ _ hne]
        simp only [upd, hva, if_false]
        exact ih' v hv

end Xdsl.RegAlloc
