import XdslModel.ParallelMov
/-!
Helper lemmas for `XdslProofs/C20Rename.lean`: every piece of the lowering algorithm commutes with a
renaming of the registers that is injective, keeps the register file (kind) and the allocation
status, and maps exactly `zero` to `zero`.  (Core Lean only.)
-/
namespace Xdsl.ParallelMov

/-- A placement of the registers of a parallel move in the register files: injective, preserves
the register file and the allocation status, and `zero` — the one register the algorithm singles
out — is the image of `zero` only. -/
structure Renaming (ρ : Reg → Reg) : Prop where
  inj : ∀ a b, ρ a = ρ b → a = b
  zero : ∀ r, ρ r = Reg.zero ↔ r = Reg.zero
  kind : ∀ r, (ρ r).kind = r.kind
  alloc : ∀ r, (ρ r).allocated = r.allocated

def Move.map (ρ : Reg → Reg) (m : Move) : Move := ⟨ρ m.src, ρ m.dst, m.w⟩

def Instr.map (ρ : Reg → Reg) : Instr → Instr
  | .mv d s => .mv (ρ d) (ρ s)
  | .fmv w d s => .fmv w (ρ d) (ρ s)
  | .xor d a b => .xor (ρ d) (ρ a) (ρ b)

def Val.map (ρ : Reg → Reg) (v : Val) : Val := ⟨v.d, ρ v.reg⟩

def St.map (ρ : Reg → Reg) (st : St) : St :=
  ⟨st.ops.map (Instr.map ρ), st.results.map (Option.map (Val.map ρ))⟩

def Out.map (ρ : Reg → Reg) (o : Out) : Out :=
  ⟨o.ops.map (Instr.map ρ), o.results.map (Option.map (Val.map ρ))⟩

def Env.map (ρ : Reg → Reg) (e : Env) : Env := ⟨e.moves.map (Move.map ρ), e.free.map ρ⟩

def cmap (ρ : Reg → Reg) (c : Cnt) : Cnt := c.map fun p => (ρ p.1, p.2)

/-- `Except.map` spelled out (core's is stated through `Functor`) -/
def emap {α β : Type} (f : α → β) : Except Err α → Except Err β
  | .error x => .error x
  | .ok a => .ok (f a)

variable {ρ : Reg → Reg}

theorem Renaming.eq_iff (h : Renaming ρ) (a b : Reg) : ρ a = ρ b ↔ a = b :=
  ⟨h.inj a b, fun e => by rw [e]⟩

theorem Renaming.dec_eq (h : Renaming ρ) (a b : Reg) : decide (ρ a = ρ b) = decide (a = b) := by
  simp [h.eq_iff]

/-! ### emitting -/

theorem emitMv_map (h : Renaming ρ) (st : St) (v : Val) (d : Reg) (w : Nat) :
    emitMv (st.map ρ) (v.map ρ) (ρ d) w
      = emap (fun p => (p.1.map ρ, p.2.map ρ)) (emitMv st v d w) := by
  unfold emitMv
  split
  · rfl
  · simp only [emap, St.map, Val.map, List.map_append, List.map_cons, List.map_nil, List.length_map,
      h.kind]
    cases d.kind <;> rfl

theorem emitSwap_map (st : St) (a b : Val) :
    emitSwap (st.map ρ) (a.map ρ) (b.map ρ)
      = ((emitSwap st a b).1.map ρ, (emitSwap st a b).2.1.map ρ, (emitSwap st a b).2.2.map ρ) := by
  simp [emitSwap, St.map, Val.map, Instr.map]

theorem setResult_map (st : St) (i : Nat) (v : Val) :
    setResult (st.map ρ) i (v.map ρ) = (setResult st i v).map ρ := by
  simp [setResult, St.map, List.map_set]

theorem results_isSome_map (st : St) (i : Nat) :
    ((st.map ρ).results.getD i none).isSome = (st.results.getD i none).isSome := by
  simp only [St.map, List.getD_eq_getElem?_getD, List.getElem?_map]
  cases st.results[i]? with
  | none => rfl
  | some o => cases o <;> rfl

/-! ### the static tables -/

theorem isEdge_map (h : Renaming ρ) (m : Move) : Env.isEdge (m.map ρ) = Env.isEdge m := by
  simp [Env.isEdge, Move.map, h.eq_iff, h.zero]

theorem outIdx_map (h : Renaming ρ) (e : Env) (r : Reg) : (e.map ρ).outIdx (ρ r) = e.outIdx r := by
  simp only [Env.outIdx, Env.map, List.zipIdx_map, ← List.map_reverse, List.find?_map,
    Option.map_map]
  have : ((fun p : Move × Nat => decide (p.1.dst = ρ r)) ∘ Prod.map (Move.map ρ) id)
      = fun p : Move × Nat => decide (p.1.dst = r) := by
    funext p
    simp [Move.map, h.eq_iff]
  rw [this]
  cases List.find? (fun p : Move × Nat => decide (p.1.dst = r)) e.moves.zipIdx.reverse <;> rfl

theorem widthOf_map (h : Renaming ρ) (e : Env) (r : Reg) : (e.map ρ).widthOf (ρ r) = e.widthOf r := by
  simp only [Env.widthOf, Env.map, ← List.map_reverse, List.find?_map, Option.map_map]
  have : ((fun m : Move => decide (m.src = ρ r)) ∘ Move.map ρ)
      = fun m : Move => decide (m.src = r) := by
    funext m
    simp [Move.map, h.eq_iff]
  rw [this]
  cases List.find? (fun m : Move => decide (m.src = r)) e.moves.reverse <;> rfl

theorem pred_map (h : Renaming ρ) (e : Env) (r : Reg) :
    (e.map ρ).pred (ρ r) = (e.pred r).map ρ := by
  simp only [Env.pred, Env.map, ← List.map_reverse, List.find?_map, Option.map_map]
  have : ((fun m : Move => Env.isEdge m && decide (m.dst = ρ r)) ∘ Move.map ρ)
      = fun m : Move => Env.isEdge m && decide (m.dst = r) := by
    funext m
    simp only [Function.comp, isEdge_map h]
    simp [Move.map, h.eq_iff]
  rw [this]
  cases List.find? (fun m : Move => Env.isEdge m && decide (m.dst = r)) e.moves.reverse <;> rfl

theorem isLeaf_map (h : Renaming ρ) (e : Env) (r : Reg) : (e.map ρ).isLeaf (ρ r) = e.isLeaf r := by
  simp only [Env.isLeaf, Env.map, List.any_map]
  congr 2
  funext m
  simp only [Function.comp, isEdge_map h]
  simp [Move.map, h.eq_iff]

theorem freeOf_map (h : Renaming ρ) (e : Env) (k : Kind) :
    (e.map ρ).freeOf k = (e.freeOf k).map ρ := by
  simp only [Env.freeOf, Env.map, List.filter_map]
  congr 2
  funext r
  simp [Function.comp, h.kind]

/-! ### the out-edge counter -/

theorem get_cmap (h : Renaming ρ) (c : Cnt) (r : Reg) : AL.get (cmap ρ c) (ρ r) = AL.get c r := by
  induction c with
  | nil => rfl
  | cons p c ih =>
    obtain ⟨k, v⟩ := p
    simp only [cmap, List.map_cons, AL.get] at ih ⊢
    by_cases hk : k = r
    · simp [hk]
    · have : ρ k ≠ ρ r := fun e => hk (h.inj _ _ e)
      simp only [hk, this, if_false]
      exact ih

theorem val_cmap (h : Renaming ρ) (c : Cnt) (r : Reg) : Cnt.val (cmap ρ c) (ρ r) = Cnt.val c r := by
  simp [Cnt.val, get_cmap h]

theorem del_cmap (h : Renaming ρ) (c : Cnt) (r : Reg) :
    AL.del (cmap ρ c) (ρ r) = cmap ρ (AL.del c r) := by
  induction c with
  | nil => rfl
  | cons p c ih =>
    obtain ⟨k, v⟩ := p
    simp only [cmap, List.map_cons, AL.del] at ih ⊢
    by_cases hk : k = r
    · simp only [hk, if_true]
      exact ih
    · have : ρ k ≠ ρ r := fun e => hk (h.inj _ _ e)
      simp only [hk, this, if_false, List.map_cons]
      rw [ih]

theorem set_cmap (h : Renaming ρ) (c : Cnt) (r : Reg) (v : Int) :
    AL.set (cmap ρ c) (ρ r) v = cmap ρ (AL.set c r v) := by
  simp only [AL.set, del_cmap h]
  rfl

/-! ### the loops -/

/-- pairs `(index, move)` as produced by `enum` -/
def emapMoves (ρ : Reg → Reg) (l : List (Nat × Move)) : List (Nat × Move) :=
  l.map fun p => (p.1, p.2.map ρ)

theorem enum_map (l : List Move) : enum (l.map (Move.map ρ)) = emapMoves ρ (enum l) := by
  simp [enum, emapMoves, List.zipIdx_map, Function.comp_def]

theorem val_src_map (r : Reg) : (⟨.src, ρ r⟩ : Val) = Val.map ρ ⟨.src, r⟩ := rfl

theorem stage0_map (h : Renaming ρ) (e : Env) (l : List (Nat × Move)) (st : St) (c : Cnt) :
    stage0 (e.map ρ) (emapMoves ρ l) (st.map ρ) (cmap ρ c)
      = emap (fun p => (p.1.map ρ, cmap ρ p.2)) (stage0 e l st c) := by
  induction l generalizing st c with
  | nil => rfl
  | cons p l ih =>
    obtain ⟨i, m⟩ := p
    simp only [emapMoves, List.map_cons, stage0]
    simp only [Move.map, h.eq_iff, h.zero]
    by_cases h1 : m.src = m.dst
    · simp only [h1, if_true]
      rw [val_src_map, setResult_map]
      exact ih _ _
    · simp only [h1, if_false]
      by_cases h2 : m.dst = Reg.zero
      · rw [if_pos h2, if_pos h2, val_src_map, emitMv_map h]
        cases emitMv st ⟨.src, m.src⟩ m.dst m.w with
        | error x => rfl
        | ok r =>
          obtain ⟨st', v⟩ := r
          simp only [emap]
          rw [setResult_map]
          exact ih _ _
      · simp only [h2, if_false]
        rw [val_cmap h, set_cmap h]
        exact ih _ _

theorem walkUp_map (h : Renaming ρ) (e : Env) (fuel : Nat) (d : Reg) (st : St) (c : Cnt) :
    walkUp (e.map ρ) fuel (ρ d) (st.map ρ) (cmap ρ c)
      = emap (fun p => (p.1.map ρ, cmap ρ p.2)) (walkUp e fuel d st c) := by
  induction fuel generalizing d st c with
  | zero => rfl
  | succ fuel ih =>
    simp only [walkUp]
    rw [pred_map h]
    cases e.pred d with
    | none => rfl
    | some s =>
      simp only [Option.map_some]
      rw [val_src_map, emitMv_map h, widthOf_map h]
      cases emitMv st ⟨.src, s⟩ d (e.widthOf s) with
      | error x => rfl
      | ok r =>
        obtain ⟨st', v⟩ := r
        simp only [emap]
        rw [outIdx_map h]
        cases e.outIdx d with
        | none => rfl
        | some i =>
          simp only
          rw [results_isSome_map]
          by_cases hs : ((st'.results.getD i none).isSome) = true
          · rw [if_pos hs, if_pos hs]
          · rw [if_neg hs, if_neg hs, setResult_map, val_cmap h, set_cmap h]
            by_cases hn : Cnt.val c s - 1 ≠ 0
            · rw [if_pos hn, if_pos hn]
            · rw [if_neg hn, if_neg hn]
              exact ih _ _ _

theorem stage1_map (h : Renaming ρ) (e : Env) (l : List Reg) (st : St) (c : Cnt) :
    stage1 (e.map ρ) (l.map ρ) (st.map ρ) (cmap ρ c)
      = emap (fun p => (p.1.map ρ, cmap ρ p.2)) (stage1 e l st c) := by
  induction l generalizing st c with
  | nil => rfl
  | cons d l ih =>
    simp only [List.map_cons, stage1]
    rw [isLeaf_map h]
    by_cases hl : e.isLeaf d = true
    · rw [if_pos hl, if_pos hl]
      have hlen : (e.map ρ).moves.length = e.moves.length := by simp [Env.map]
      rw [hlen, walkUp_map h]
      cases walkUp e (e.moves.length + 1) d st c with
      | error x => rfl
      | ok r =>
        obtain ⟨st', c'⟩ := r
        exact ih _ _
    · rw [if_neg hl, if_neg hl]
      exact ih _ _

theorem xorChain_map (h : Renaming ρ) (e : Env) (start : Reg) (fuel : Nat) (out inp : Val) (st : St) :
    xorChain (e.map ρ) (ρ start) fuel (out.map ρ) (inp.map ρ) (st.map ρ)
      = emap (St.map ρ) (xorChain e start fuel out inp st) := by
  induction fuel generalizing out inp st with
  | zero => rfl
  | succ fuel ih =>
    simp only [xorChain]
    have hreg : (inp.map ρ).reg = ρ inp.reg := rfl
    rw [hreg]
    by_cases hi : inp.reg = start
    · rw [if_pos hi, if_pos (by rw [hi])]
      have hout : (out.map ρ).reg = ρ out.reg := rfl
      rw [hout, outIdx_map h]
      cases e.outIdx out.reg with
      | none => rfl
      | some i => simp only [emap]; rw [setResult_map]
    · rw [if_neg hi, if_neg (fun e' => hi (h.inj _ _ e'))]
      rw [emitSwap_map]
      simp only
      have h1 : ((emitSwap st inp out).2.1.map ρ).reg = ρ (emitSwap st inp out).2.1.reg := rfl
      have h2 : ((emitSwap st inp out).2.2.map ρ).reg = ρ (emitSwap st inp out).2.2.reg := rfl
      rw [h1, outIdx_map h]
      cases e.outIdx (emitSwap st inp out).2.1.reg with
      | none => rfl
      | some i =>
        simp only
        rw [h2, pred_map h]
        cases e.pred (emitSwap st inp out).2.2.reg with
        | none => rfl
        | some p =>
          simp only [Option.map_some]
          rw [setResult_map, val_src_map]
          exact ih _ _ _

theorem tempWalk_map (h : Renaming ρ) (e : Env) (stop : Reg) (fuel : Nat) (d : Reg) (st : St) :
    tempWalk (e.map ρ) (ρ stop) fuel (ρ d) (st.map ρ) = emap (St.map ρ) (tempWalk e stop fuel d st) := by
  induction fuel generalizing d st with
  | zero => rfl
  | succ fuel ih =>
    simp only [tempWalk]
    by_cases hd : d = stop
    · rw [if_pos hd, if_pos (by rw [hd])]
      rfl
    · rw [if_neg hd, if_neg (fun e' => hd (h.inj _ _ e'))]
      rw [pred_map h]
      cases e.pred d with
      | none => rfl
      | some s =>
        simp only [Option.map_some]
        rw [val_src_map, emitMv_map h, widthOf_map h]
        cases emitMv st ⟨.src, s⟩ d (e.widthOf s) with
        | error x => rfl
        | ok r =>
          obtain ⟨st', v⟩ := r
          simp only [emap]
          rw [outIdx_map h]
          cases e.outIdx d with
          | none => rfl
          | some i =>
            simp only
            rw [setResult_map]
            exact ih _ _

theorem stage2_map (h : Renaming ρ) (e : Env) (l : List (Nat × Move)) (st : St) :
    stage2 (e.map ρ) (emapMoves ρ l) (st.map ρ) = emap (St.map ρ) (stage2 e l st) := by
  induction l generalizing st with
  | nil => rfl
  | cons p l ih =>
    obtain ⟨i, m⟩ := p
    simp only [emapMoves, List.map_cons, stage2]
    rw [results_isSome_map]
    have hlen : (e.map ρ).moves.length = e.moves.length := by simp [Env.map]
    by_cases hs : ((st.results.getD i none).isSome) = true
    · rw [if_pos hs, if_pos hs]
      exact ih _
    · rw [if_neg hs, if_neg hs]
      simp only [Move.map, h.kind]
      rw [freeOf_map h]
      cases e.freeOf m.dst.kind with
      | nil =>
        simp only [List.map_nil]
        by_cases hk : m.dst.kind ≠ .int
        · rw [if_pos hk, if_pos hk]
          rfl
        · rw [if_neg hk, if_neg hk, pred_map h]
          cases e.pred m.src with
          | none => rfl
          | some p =>
            simp only [Option.map_some]
            rw [hlen, val_src_map, val_src_map, xorChain_map h]
            cases xorChain e m.src (e.moves.length + 1) ⟨.src, m.src⟩ ⟨.src, p⟩ st with
            | error x => rfl
            | ok st' => exact ih _
      | cons temp rest =>
        simp only [List.map_cons]
        rw [val_src_map, emitMv_map h]
        cases emitMv st ⟨.src, m.src⟩ temp m.w with
        | error x => rfl
        | ok r =>
          obtain ⟨st1, tv⟩ := r
          simp only [emap]
          rw [hlen, tempWalk_map h]
          cases tempWalk e m.dst (e.moves.length + 1) m.src st1 with
          | error x => rfl
          | ok st2 =>
            simp only [emap]
            rw [emitMv_map h]
            cases emitMv st2 tv m.dst m.w with
            | error x => rfl
            | ok r3 =>
              obtain ⟨st3, v⟩ := r3
              simp only [emap]
              rw [setResult_map]
              exact ih _

theorem lower_map (h : Renaming ρ) (moves : List Move) (free : List Reg) :
    lower (moves.map (Move.map ρ)) (free.map ρ) = emap (Out.map ρ) (lower moves free) := by
  unfold lower
  have hall : ((moves.map (Move.map ρ)).all fun m => m.src.allocated && m.dst.allocated)
      = moves.all fun m => m.src.allocated && m.dst.allocated := by
    simp [List.all_map, Function.comp_def, Move.map, h.alloc]
  rw [hall]
  by_cases ha : (!(moves.all fun m => m.src.allocated && m.dst.allocated)) = true
  · rw [if_pos ha, if_pos ha]
    rfl
  · rw [if_neg ha, if_neg ha]
    simp only
    have henv : (⟨moves.map (Move.map ρ), free.map ρ⟩ : Env) = Env.map ρ ⟨moves, free⟩ := rfl
    have hst : ({ results := (moves.map (Move.map ρ)).map fun _ => none } : St)
        = St.map ρ { results := moves.map fun _ => none } := by
      simp [St.map, Function.comp_def]
    have h0 := stage0_map h ⟨moves, free⟩ (enum moves) { results := moves.map fun _ => none } []
    rw [show cmap ρ ([] : Cnt) = [] from rfl] at h0
    rw [henv, hst, enum_map, h0]
    cases stage0 ⟨moves, free⟩ (enum moves) { results := moves.map fun _ => none } [] with
    | error x => rfl
    | ok r0 =>
      obtain ⟨st0, c0⟩ := r0
      simp only [emap]
      have hd : (moves.map (Move.map ρ)).map (·.dst) = (moves.map (·.dst)).map ρ := by
        simp [Function.comp_def, Move.map]
      rw [hd, stage1_map h]
      cases stage1 ⟨moves, free⟩ (moves.map (·.dst)) st0 c0 with
      | error x => rfl
      | ok r1 =>
        obtain ⟨st1, c1⟩ := r1
        simp only [emap]
        rw [stage2_map h]
        cases stage2 ⟨moves, free⟩ (enum moves) st1 with
        | error x => rfl
        | ok st2 => rfl

end Xdsl.ParallelMov
