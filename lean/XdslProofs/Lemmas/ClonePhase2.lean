import XdslProofs.Lemmas.CloneIso
/-!
C02 helper lemmas, part 5: phase 2 (operand assignment by identity) and the by-identity updates.
-/
namespace Xdsl.Clone

/-! ## mkAssign -/

theorem mkAssign_frame (vm : AL Nat Nat) (os : List (List Nat)) (ns : List Nat)
    (m : AL Nat (List Nat)) (k : Nat) (hk : k ∉ ns) :
    AL.get (mkAssign vm os ns m) k = AL.get m k := by
  induction os generalizing ns m with
  | nil => cases ns <;> simp [mkAssign]
  | cons o os ih =>
    cases ns with
    | nil => simp [mkAssign]
    | cons n ns =>
      simp only [List.mem_cons, not_or] at hk
      simp only [mkAssign]
      rw [ih _ _ hk.2, AL.get_set]; simp [hk.1]

theorem mkAssign_get (vm : AL Nat Nat) (os : List (List Nat)) (ns : List Nat)
    (m : AL Nat (List Nat)) (nd : ns.Nodup) :
    ∀ p ∈ List.zip ns os, AL.get (mkAssign vm os ns m) p.1 = some (p.2.map (mapVal vm)) := by
  induction os generalizing ns m with
  | nil => cases ns <;> simp
  | cons o os ih =>
    cases ns with
    | nil => simp
    | cons n ns =>
      simp only [List.nodup_cons] at nd
      intro p hp
      simp only [List.zip_cons_cons, List.mem_cons] at hp
      simp only [mkAssign]
      rcases hp with hp | hp
      · subst hp
        rw [mkAssign_frame _ _ _ _ _ nd.1, AL.get_set]; simp
      · exact ih _ _ nd.2 p hp

/-! ## walks and identities -/

theorem walkIds_sub_ids {k : Kind} (t : T k) : ∀ i ∈ walkIds t, i ∈ ids t := by
  induction t with
  | nil => simp [walkIds]
  | op h rs nx ih1 ih2 =>
    intro i hi
    simp only [walkIds, List.mem_cons, List.mem_append] at hi
    simp only [ids, hdrIds, List.mem_append, List.mem_cons]
    rcases hi with hi | hi | hi
    · exact Or.inl (Or.inl hi)
    · exact Or.inr (Or.inl (ih1 i hi))
    · exact Or.inr (Or.inr (ih2 i hi))
  | region bs nx ih1 ih2 =>
    intro i hi
    simp only [walkIds, List.mem_append] at hi
    simp only [ids, List.mem_append]
    exact hi.imp (ih1 i) (ih2 i)
  | block h ops nx ih1 ih2 =>
    intro i hi
    simp only [walkIds, List.mem_append] at hi
    simp only [ids, List.mem_append]
    exact Or.inr (hi.imp (ih1 i) (ih2 i))

theorem walkIds_sublist_ids {k : Kind} (t : T k) : (walkIds t).Sublist (ids t) := by
  induction t with
  | nil => simp [walkIds, ids]
  | op h rs nx ih1 ih2 =>
    simp only [walkIds, ids, hdrIds, List.cons_append]
    apply List.Sublist.cons_cons
    apply List.Sublist.cons
    apply List.Sublist.cons
    exact List.Sublist.trans (ih1.append ih2) (List.sublist_append_right _ _)
  | region bs nx ih1 ih2 => simp only [walkIds, ids]; exact ih1.append ih2
  | block h ops nx ih1 ih2 =>
    simp only [walkIds, ids]
    exact List.Sublist.trans (ih1.append ih2) (List.sublist_append_right _ _)

theorem walkOperands_length {k : Kind} (t : T k) : (walkOperands t).length = (walkIds t).length := by
  induction t with
  | nil => simp [walkOperands, walkIds]
  | op h rs nx ih1 ih2 => simp [walkOperands, walkIds, ih1, ih2]
  | region bs nx ih1 ih2 => simp [walkOperands, walkIds, ih1, ih2]
  | block h ops nx ih1 ih2 => simp [walkOperands, walkIds, ih1, ih2]

theorem Iso_walk_length {co : Bool} {fv fb : Nat → Nat} {k : Kind} (t t' : T k)
    (i : Iso co fv fb t t') : (walkIds t').length = (walkIds t).length := by
  induction t with
  | nil => cases t' <;> simp_all [Iso, walkIds]
  | op h rs nx ih1 ih2 =>
    cases t' with
    | nil => simp [Iso] at i
    | op h' rs' nx' =>
      simp only [Iso] at i
      simp [walkIds, ih1 rs' i.2.2.2.2.2.2.1, ih2 nx' i.2.2.2.2.2.2.2]
  | region bs nx ih1 ih2 =>
    cases t' with
    | nil => simp [Iso] at i
    | region bs' nx' =>
      simp only [Iso] at i
      simp [walkIds, ih1 bs' i.1, ih2 nx' i.2]
  | block h ops nx ih1 ih2 =>
    cases t' with
    | nil => simp [Iso] at i
    | block h' ops' nx' =>
      simp only [Iso] at i
      simp [walkIds, ih1 ops' i.2.2.1, ih2 nx' i.2.2.2]

/-! ## applyOps -/

/-- assignments addressed to identities that do not occur in a tree leave it unchanged -/
theorem applyOps_frame {k : Kind} (m : AL Nat (List Nat)) (u : T k)
    (h : ∀ id ∈ walkIds u, AL.get m id = none) : applyOps m u = u := by
  induction u with
  | nil => rfl
  | op hd rs nx ih1 ih2 =>
    simp only [walkIds, List.mem_cons, List.mem_append] at h
    simp only [applyOps]
    rw [h hd.id (Or.inl rfl), ih1 (fun id hi => h id (Or.inr (Or.inl hi))),
      ih2 (fun id hi => h id (Or.inr (Or.inr hi)))]
  | region bs nx ih1 ih2 =>
    simp only [walkIds, List.mem_append] at h
    simp only [applyOps]
    rw [ih1 (fun id hi => h id (Or.inl hi)), ih2 (fun id hi => h id (Or.inr hi))]
  | block hd ops nx ih1 ih2 =>
    simp only [walkIds, List.mem_append] at h
    simp only [applyOps]
    rw [ih1 (fun id hi => h id (Or.inl hi)), ih2 (fun id hi => h id (Or.inr hi))]

theorem applyOps_ids {k : Kind} (m : AL Nat (List Nat)) (t : T k) : ids (applyOps m t) = ids t := by
  induction t with
  | nil => rfl
  | op h rs nx ih1 ih2 =>
    simp only [applyOps, ids, ih1, ih2]
    cases AL.get m h.id <;> simp [hdrIds]
  | region bs nx ih1 ih2 => simp only [applyOps, ids, ih1, ih2]
  | block h ops nx ih1 ih2 => simp only [applyOps, ids, ih1, ih2]

theorem applyOps_append {k : Kind} (m : AL Nat (List Nat)) (a b : T k) :
    applyOps m (append a b) = append (applyOps m a) (applyOps m b) := by
  induction a with
  | nil => simp [append, applyOps]
  | op h rs nx _ ih2 => simp only [append, applyOps, ih2]
  | region bs nx _ ih2 => simp only [append, applyOps, ih2]
  | block h ops nx _ ih2 => simp only [append, applyOps, ih2]

theorem applyOps_insertAt {k : Kind} (m : AL Nat (List Nat)) (i : Nat) (a b : T k) :
    applyOps m (insertAt i a b) = insertAt i (applyOps m a) (applyOps m b) := by
  induction b generalizing i with
  | nil => cases i <;> simp [insertAt, applyOps, applyOps_append]
  | op h rs nx _ ih2 => cases i <;> simp [insertAt, applyOps, applyOps_append, ih2]
  | region bs nx _ ih2 => cases i <;> simp [insertAt, applyOps, applyOps_append, ih2]
  | block h ops nx _ ih2 => cases i <;> simp [insertAt, applyOps, applyOps_append, ih2]

/-- phase 2 completes the renaming: if every new op is assigned the renamed operand tuple of the
source op at the same walk position, the result is the source renamed including operands -/
theorem Iso_applyOps {fv fb : Nat → Nat} {k : Kind} (m : AL Nat (List Nat)) (t t' : T k)
    (i : Iso false fv fb t t')
    (hm : ∀ p ∈ List.zip (walkIds t') (walkOperands t), AL.get m p.1 = some (p.2.map fv)) :
    Iso true fv fb t (applyOps m t') := by
  induction t with
  | nil => cases t' <;> simp_all [Iso, applyOps]
  | op h rs nx ih1 ih2 =>
    cases t' with
    | nil => simp [Iso] at i
    | op h' rs' nx' =>
      have len : (walkIds rs').length = (walkOperands rs).length := by
        rw [walkOperands_length]; exact Iso_walk_length rs rs' (by simp only [Iso] at i; exact i.2.2.2.2.2.2.1)
      simp only [walkIds, walkOperands, List.zip_cons_cons, List.zip_append len, List.mem_cons,
        List.mem_append] at hm
      simp only [Iso] at i
      obtain ⟨i1, i2, i3, i4, _, i6, i7, i8⟩ := i
      have e := hm (h'.id, h.operands) (Or.inl rfl)
      simp only [applyOps, Iso]
      rw [e]
      exact ⟨i1, i2, i3, i4, by simp, i6, ih1 rs' i7 (fun p hp => hm p (Or.inr (Or.inl hp))),
        ih2 nx' i8 (fun p hp => hm p (Or.inr (Or.inr hp)))⟩
  | region bs nx ih1 ih2 =>
    cases t' with
    | nil => simp [Iso] at i
    | region bs' nx' =>
      have len : (walkIds bs').length = (walkOperands bs).length := by
        rw [walkOperands_length]; exact Iso_walk_length bs bs' (by simp only [Iso] at i; exact i.1)
      simp only [walkIds, walkOperands, List.zip_append len, List.mem_append] at hm
      simp only [Iso] at i
      simp only [applyOps, Iso]
      exact ⟨ih1 bs' i.1 (fun p hp => hm p (Or.inl hp)), ih2 nx' i.2 (fun p hp => hm p (Or.inr hp))⟩
  | block h ops nx ih1 ih2 =>
    cases t' with
    | nil => simp [Iso] at i
    | block h' ops' nx' =>
      have len : (walkIds ops').length = (walkOperands ops).length := by
        rw [walkOperands_length]; exact Iso_walk_length ops ops' (by simp only [Iso] at i; exact i.2.2.1)
      simp only [walkIds, walkOperands, List.zip_append len, List.mem_append] at hm
      simp only [Iso] at i
      simp only [applyOps, Iso]
      exact ⟨i.1, i.2.1, ih1 ops' i.2.2.1 (fun p hp => hm p (Or.inl hp)),
        ih2 nx' i.2.2.2 (fun p hp => hm p (Or.inr hp))⟩

end Xdsl.Clone
