import XdslProofs.Lemmas.DCEMiniCalm
import XdslProofs.Lemmas.DCEComplete
import XdslProofs.Lemmas.DCEEff
import XdslProofs.SemMeta
/-!
From the model of the pass to the simulation (C13): the decidable hypotheses `cert` of
`XdslModel/DCEMini.lean` and the liveness fixpoint of `XdslModel/DCE.lean` give `SimOK`/`SimTop`/`CallOK`
of `Lemmas/DCEMiniSim.lean`.

* `toT_delA`, `toT_dceOnceA`: `delA` is `DCE.del` on the `T`-part, so what `dceOnceA` leaves is what the
  model of `region_dce` leaves.
* `dropRes_spec` + `no_live_use`: the core of dead-code elimination — an operation erased from a kept
  block has no live user (`liveSet_closed`, i.e. the fixpoint of `live_iff_least`), hence by `linkedB` no
  kept operation reads one of its results.
* `simOK_of_cert`, `simTop_of_cert`, `callOK_of_simTop`: the remaining needs of the simulation from the
  checks (`certB`: scoping of values defined inside erased operations / blocks, kept successors, calm
  names of erased operations; `keptReachB`).
* `dceOnceA_preserves`: the assembled statement for one call of `region_dce`.
No Mathlib.
-/
namespace Xdsl.DCEM
open Xdsl.DCE Xdsl.MiniIR Xdsl.Sem

variable {P : Prog} {D : Nat → Prop} {live hid rl : List Nat}

@[simp] theorem toT_nil : toT .nil = .nil := rfl
@[simp] theorem toT_op (h : Hdr) (m : MHdr) (rs next : AT) : toT (.op h m rs next) = .op h (toT rs) (toT next) := rfl
@[simp] theorem toT_block (i : Nat) (a : List (Nat × Ty)) (ops next : AT) :
    toT (.block i a ops next) = .block (toT ops) (toT next) := rfl
@[simp] theorem toT_region (bs next : AT) : toT (.region bs next) = .region (toT bs) (toT next) := rfl

/-! ## `would_be_trivially_dead` operations are calm by their names -/

/-- an effect that `would_be_trivially_dead` tolerates somewhere: a read, or an allocation attached to a value -/
def Harmless (e : EffI) : Prop := e = .read ∨ ∃ o, e = .allocOn o

theorem harmless_of_effOk {ins : List Nat} {e : EffI} (h : effOk ins e = true) : Harmless e := by
  cases e with
  | read => exact Or.inl rfl
  | allocOn o => exact Or.inr ⟨o, rfl⟩
  | write => simp [effOk] at h
  | free => simp [effOk] at h
  | alloc => simp [effOk] at h

theorem not_loud {h : Hdr} {own : List EffI} (he : h.eff = some own) (hh : ∀ e ∈ own, Harmless e) : loud h = false := by
  unfold loud
  rw [he]
  simp only [List.any_eq_false]
  intro e hm
  rcases hh e hm with rfl | ⟨o, rfl⟩ <;> simp

/-- one operation: known harmless effects and consistent flags make it calm by its names -/
theorem calmCell_of_eff {h : Hdr} {m : MHdr} {rs : AT} {es : List EffI}
    (ih : ∀ es, effAll (toT rs) = some es → (∀ e ∈ es, Harmless e) → hdrOkAll rs = true → calm rs = true)
    (he : opEff h (effAll (toT rs)) = some es) (hh : ∀ e ∈ es, Harmless e)
    (hok : hdrOk h m = true) (hokr : hdrOkAll rs = true) : calmCell m rs = true := by
  unfold opEff at he
  cases hown : h.eff with
  | none => rw [hown] at he; cases he
  | some own =>
    rw [hown] at he
    simp only at he
    simp only [hdrOk, Bool.and_eq_true, Bool.or_eq_true] at hok
    unfold calmCell
    simp only [Bool.or_eq_true, Bool.and_eq_true]
    cases hrec : h.recursive with
    | false =>
      simp only [hrec, Bool.false_eq_true, if_false, Option.some.injEq] at he
      subst he
      rcases hok.2 with ((h1 | h1) | h1) | h1
      · exact Or.inl (Or.inl h1)
      · exact Or.inl (Or.inr h1)
      · rw [hrec] at h1; simp at h1
      · rw [not_loud hown hh] at h1; cases h1
    | true =>
      simp only [hrec, if_true] at he
      cases hin : effAll (toT rs) with
      | none => rw [hin] at he; cases he
      | some inner =>
        rw [hin] at he
        simp only [Option.map, Option.some.injEq] at he
        subst he
        rcases hok.2 with ((h1 | h1) | h1) | h1
        · exact Or.inl (Or.inl h1)
        · exact Or.inl (Or.inr h1)
        · exact Or.inr ⟨h1.1, ih inner hin (fun e hm => hh e (List.mem_append_right _ hm)) hokr⟩
        · rw [not_loud hown (fun e hm => hh e (List.mem_append_left _ hm))] at h1; cases h1

/-- a tree whose effects are all known and harmless, with consistent flags, is calm by its names -/
theorem calm_of_eff (a : AT) : ∀ es, effAll (toT a) = some es → (∀ e ∈ es, Harmless e) →
    hdrOkAll a = true → calm a = true := by
  induction a with
  | nil => intro _ _ _ _; rfl
  | op h m rs next ihr ihn =>
    intro es he hh hok
    simp only [toT_op] at he
    obtain ⟨x, y, h1, h2, rfl⟩ := effAll_op.mp he
    simp only [hdrOkAll, Bool.and_eq_true] at hok
    have hc := calmCell_of_eff ihr h1 (fun e hm => hh e (List.mem_append_left _ hm)) hok.1.1 hok.1.2
    have hn := ihn y h2 (fun e hm => hh e (List.mem_append_right _ hm)) hok.2
    unfold calmCell at hc
    simp only [calm, hc, hn, Bool.and_self]
  | block i args ops next iho ihn =>
    intro es he hh hok
    simp only [toT_block] at he
    obtain ⟨x, y, h1, h2, rfl⟩ := effAll_block.mp he
    simp only [hdrOkAll, Bool.and_eq_true] at hok
    simp only [calm, iho x h1 (fun e hm => hh e (List.mem_append_left _ hm)) hok.1,
      ihn y h2 (fun e hm => hh e (List.mem_append_right _ hm)) hok.2, Bool.and_self]
  | region bs next ihb ihn =>
    intro es he hh hok
    simp only [toT_region] at he
    obtain ⟨x, y, h1, h2, rfl⟩ := effAll_region.mp he
    simp only [hdrOkAll, Bool.and_eq_true] at hok
    simp only [calm, ihb x h1 (fun e hm => hh e (List.mem_append_left _ hm)) hok.1,
      ihn y h2 (fun e hm => hh e (List.mem_append_right _ hm)) hok.2, Bool.and_self]

/-- **`would_be_trivially_dead` operations are calm**, when the trait flags agree with the names on the
operation and on everything nested in it -/
theorem calm_of_wbd {h : Hdr} {m : MHdr} {rs : AT} (hw : wbd h (toT rs) = true) (hok : hdrOk h m = true)
    (hokr : hdrOkAll rs = true) : calmCell m rs = true ∧ termNames.contains m.name = false := by
  simp only [wbd, Bool.and_eq_true, Bool.not_eq_true'] at hw
  obtain ⟨⟨ht, _⟩, hr⟩ := hw
  unfold resultOnlyEffects at hr
  split at hr
  · cases hr
  · rename_i es he
    have hh : ∀ e ∈ es, Harmless e := fun e hm => harmless_of_effOk (List.all_eq_true.mp hr e hm)
    refine ⟨calmCell_of_eff (fun es => calm_of_eff rs es) he hh hok hokr, ?_⟩
    simp only [hdrOk, Bool.and_eq_true, Bool.or_eq_true, Bool.not_eq_true'] at hok
    rcases hok.1 with h1 | h1
    · exact h1
    · rw [ht] at h1; cases h1

/-! ## `SimOK` from the checks -/

theorem firstKeptB_iff (b : Nat) (bs : AT) : ∀ first, firstKeptB live b bs first = true ↔ FirstKept live b bs first := by
  induction bs with
  | nil => intro f; simp [firstKeptB, FirstKept]
  | op _ _ _ _ _ _ => intro f; simp [firstKeptB, FirstKept]
  | region _ _ _ _ => intro f; simp [firstKeptB, FirstKept]
  | block i a ops next _ ihn =>
    intro f
    simp only [firstKeptB, FirstKept]
    split
    · simp
    · exact ihn false

theorem SimOK.regions_any {rs : AT} {K K' : Nat → Prop} {f f' : Bool} (h : SimOK P D live rs .regions K f) :
    SimOK P D live rs .regions K' f' := by
  cases rs with
  | nil => trivial
  | op _ _ _ _ => exact h.elim
  | block _ _ _ _ => exact h.elim
  | region _ _ => exact h

/-- `SimOK` from the decidable checks (`certB`), given that everything `delA` erases defines values of
`D` only, that `D` is covered by the two lists, and that no kept operation reads a value of `rl` -/
theorem simOK_of_cert (a : AT) : ∀ (s : Srt) (kb : Nat → Bool) (f : Bool) (K : Nat → Prop),
    certB live hid a s kb f = true → succB live a s kb f = true → (∀ b, kb b = true → K b) →
    (∀ v ∈ dropRes live a f, D v) → (∀ v ∈ hiddenDefs live a f, D v) →
    (∀ v, D v → v ∈ hid ∨ v ∈ rl) →
    (∀ c ∈ cellsA a, live.contains c.1.id = true → ∀ v ∈ uses c.2.1, v ∉ rl) →
    (∀ c ∈ dropCells live a f, wbd c.1 (toT c.2.2) = true) →
    SimOK P D live a s K f := by
  induction a with
  | nil => intro s kb f K _ _ _ _ _ _ _ _; cases s <;> trivial
  | op h m rs next ihr ihn =>
    intro s kb f K hc hsb hK hdr hhid hD hG hW
    cases s with
    | blocks => simp [certB] at hc
    | regions => simp [certB] at hc
    | ops =>
      simp only [certB, Bool.and_eq_true] at hc
      obtain ⟨hc1, hc2⟩ := hc
      simp only [succB, Bool.and_eq_true] at hsb
      obtain ⟨hsb1, hsb2⟩ := hsb
      simp only [dropRes, List.mem_append] at hdr
      simp only [hiddenDefs, List.mem_append] at hhid
      simp only [cellsA, List.mem_cons, List.mem_append] at hG
      simp only [dropCells, List.mem_append] at hW
      refine ⟨?_, ihn .ops kb false K hc2 hsb2 hK (fun v hv => hdr v (Or.inr hv)) (fun v hv => hhid v (Or.inr hv)) hD
        (fun c hc => hG c (Or.inr (Or.inr hc))) (fun c hc => hW c (Or.inr hc))⟩
      cases hl : live.contains h.id with
      | true =>
        simp only [hl, if_true, Bool.and_eq_true, List.all_eq_true, Bool.not_eq_true',
          List.contains_eq_mem, decide_eq_false_iff_not] at hc1 hdr hhid hW ⊢
        simp only [hl, Bool.not_true, Bool.false_or, Bool.and_eq_true, List.all_eq_true] at hsb1
        obtain ⟨hu, hcr⟩ := hc1
        obtain ⟨hs, hsr⟩ := hsb1
        refine ⟨?_, fun s hs' => hK _ (hs s hs'), ?_⟩
        · intro v hv hd
          rcases hD v hd with h1 | h1
          · exact hu v hv h1
          · exact hG (h, m, rs) (Or.inl rfl) (by simpa using hl) v hv h1
        · exact (ihr .regions (fun _ => true) true (fun _ => True) hcr hsr (fun _ _ => trivial)
            (fun v hv => hdr v (Or.inl hv)) (fun v hv => hhid v (Or.inl hv)) hD
            (fun c hc => hG c (Or.inr (Or.inl hc))) (fun c hc => hW c (Or.inl hc)))
      | false =>
        simp only [hl, Bool.false_eq_true, if_false, Bool.and_eq_true] at hc1 hdr hhid hW ⊢
        have hw := hW (h, m, rs) (Or.inl (by simp))
        obtain ⟨hcalm, hterm⟩ := calm_of_wbd hw hc1.1 hc1.2
        exact quiet_of_calm hcalm hterm (fun r hr => hdr _ (Or.inl (List.mem_map.mpr ⟨r, hr, rfl⟩)))
          (fun v hv => hhid v (Or.inl hv))
  | block i args ops next iho ihn =>
    intro s kb f K hc hsb hK hdr hhid hD hG hW
    cases s with
    | ops => simp [certB] at hc
    | regions => simp [certB] at hc
    | blocks =>
      simp only [certB, Bool.and_eq_true] at hc
      obtain ⟨hc1, hc2⟩ := hc
      simp only [succB, Bool.and_eq_true] at hsb
      obtain ⟨hsb1, hsb2⟩ := hsb
      simp only [dropRes, List.mem_append] at hdr
      simp only [hiddenDefs, List.mem_append] at hhid
      simp only [cellsA, List.mem_append] at hG
      simp only [dropCells, List.mem_append] at hW
      refine ⟨?_, ihn .blocks kb false K hc2 hsb2 hK (fun v hv => hdr v (Or.inr hv)) (fun v hv => hhid v (Or.inr hv)) hD
        (fun c hc => hG c (Or.inr hc)) (fun c hc => hW c (Or.inr hc))⟩
      intro hkeep
      have hk : (!f && !anyLiveA live ops) = false := by
        rcases hkeep with h | h <;> simp [h]
      rw [hk] at hc1 hsb1 hdr hhid hW
      simp only [Bool.false_eq_true, Bool.false_or, if_false] at hc1 hsb1 hdr hhid hW
      exact iho .ops kb false K hc1 hsb1 hK (fun v hv => hdr v (Or.inl hv)) (fun v hv => hhid v (Or.inl hv)) hD
        (fun c hc => hG c (Or.inl hc)) (fun c hc => hW c (Or.inl hc))
  | region bs next ihb ihn =>
    intro s kb f K hc hsb hK hdr hhid hD hG hW
    cases s with
    | ops => simp [certB] at hc
    | blocks => simp [certB] at hc
    | regions =>
      simp only [certB, Bool.and_eq_true] at hc
      simp only [succB, Bool.and_eq_true] at hsb
      simp only [dropRes, List.mem_append] at hdr
      simp only [hiddenDefs, List.mem_append] at hhid
      simp only [cellsA, List.mem_append] at hG
      simp only [dropCells, List.mem_append] at hW
      exact ⟨ihb .blocks _ true _ hc.1 hsb.1 (fun b hb => (firstKeptB_iff b bs true).mp hb)
          (fun v hv => hdr v (Or.inl hv)) (fun v hv => hhid v (Or.inl hv)) hD (fun c hc => hG c (Or.inl hc))
          (fun c hc => hW c (Or.inl hc)),
        ihn .regions _ true _ hc.2 hsb.2 (fun _ _ => trivial)
          (fun v hv => hdr v (Or.inr hv)) (fun v hv => hhid v (Or.inr hv)) hD (fun c hc => hG c (Or.inr hc))
          (fun c hc => hW c (Or.inr hc))⟩


/-! ## the liveness fixpoint: an erased operation of a kept block has no live user -/

/-- what is known of the live set at a list of cells of sort `s` that `delA` visits: closedness, for a
block list on the blocks that are kept -/
def HypC (t : T) (live : List Nat) (a : AT) (s : Srt) (f : Bool) : Prop :=
  match s with
  | .blocks => ∀ k, (keepMaskA live a f).getD k false = true → Closed t live (toT a) (some k)
  | _ => Closed t live (toT a) none

theorem dropRes_spec {t : T} (a : AT) : ∀ (s : Srt) (f : Bool), HypC t live a s f → keptReachB live a s f = true →
    ∀ v ∈ dropRes live a f, ∃ c ∈ cellsA a, v ∈ c.2.1.results.map (·.1) ∧ live.contains c.1.id = false
      ∧ (hasLiveUser t live c.1.id = true → c.1.id ∈ live) := by
  induction a with
  | nil => intro s f _ _ v hv; simp [dropRes] at hv
  | op h m rs next ihr ihn =>
    intro s f hy hk v hv
    cases s with
    | blocks => simp [keptReachB] at hk
    | regions => simp [keptReachB] at hk
    | ops =>
      simp only [keptReachB, Bool.and_eq_true, Bool.or_eq_true, Bool.not_eq_true'] at hk
      simp only [HypC, toT_op, Closed] at hy
      obtain ⟨hy1, hy2, hy3⟩ := hy
      simp only [dropRes, List.mem_append] at hv
      simp only [cellsA, List.mem_cons, List.mem_append]
      rcases hv with hv | hv
      · cases hl : live.contains h.id with
        | true =>
          simp only [hl, if_true] at hv
          have hk1 : keptReachB live rs .regions true = true := by
            rcases hk.1 with h0 | h0
            · rw [hl] at h0; cases h0
            · exact h0
          obtain ⟨c, hc, r⟩ := ihr .regions true (hy3 (by simpa using hl)) hk1 v hv
          exact ⟨c, Or.inr (Or.inl hc), r⟩
        | false =>
          simp only [hl, Bool.false_eq_true, if_false] at hv
          exact ⟨(h, m, rs), Or.inl rfl, hv, hl, fun hu => hy2 (Or.inr hu)⟩
      · obtain ⟨c, hc, r⟩ := ihn .ops false hy1 hk.2 v hv
        exact ⟨c, Or.inr (Or.inr hc), r⟩
  | block i args ops next iho ihn =>
    intro s f hy hk v hv
    cases s with
    | ops => simp [keptReachB] at hk
    | regions => simp [keptReachB] at hk
    | blocks =>
      simp only [keptReachB, Bool.and_eq_true] at hk
      simp only [HypC, toT_block, keepMaskA] at hy
      simp only [dropRes, List.mem_append] at hv
      simp only [cellsA, List.mem_append]
      rcases hv with hv | hv
      · cases hd : (!f && !anyLiveA live ops) with
        | true => simp [hd] at hv
        | false =>
          simp only [hd, Bool.false_eq_true, if_false] at hv
          have hk1 : keptReachB live ops .ops false = true := by
            have h0 := hk.1
            rw [hd] at h0
            simpa using h0
          have hkeep : (f || anyLiveA live ops) = true := by
            cases f <;> cases hq : anyLiveA live ops <;> simp_all
          have h0 := hy 0 (by simpa using hkeep)
          simp only [Closed] at h0
          obtain ⟨c, hc, r⟩ := iho .ops false h0 hk1 v hv
          exact ⟨c, Or.inl hc, r⟩
      · have hy' : HypC t live next .blocks false := by
          intro k hk'
          have := hy (k + 1) (by simpa using hk')
          simpa [Closed] using this
        obtain ⟨c, hc, r⟩ := ihn .blocks false hy' hk.2 v hv
        exact ⟨c, Or.inr hc, r⟩
  | region bs next ihb ihn =>
    intro s f hy hk v hv
    cases s with
    | ops => simp [keptReachB] at hk
    | blocks => simp [keptReachB] at hk
    | regions =>
      simp only [keptReachB, Bool.and_eq_true, List.all_eq_true, List.mem_range, Bool.or_eq_true,
        Bool.not_eq_true', List.contains_eq_mem, decide_eq_true_eq] at hk
      obtain ⟨⟨hk1, hk2⟩, hk3⟩ := hk
      simp only [HypC, toT_region, Closed] at hy
      simp only [dropRes, List.mem_append] at hv
      simp only [cellsA, List.mem_append]
      rcases hv with hv | hv
      · have hy' : HypC t live bs .blocks true := by
          intro k hk'
          have hlt : k < (keepMaskA live bs true).length := by
            by_cases hlt : k < (keepMaskA live bs true).length
            · exact hlt
            · simp [List.getD, List.getElem?_eq_none (by omega : (keepMaskA live bs true).length ≤ k)] at hk'
          rcases hk1 k hlt with h0 | h0
          · rw [h0] at hk'; cases hk'
          · exact hy.1 k h0
        obtain ⟨c, hc, r⟩ := ihb .blocks true hy' hk2 v hv
        exact ⟨c, Or.inl hc, r⟩
      · obtain ⟨c, hc, r⟩ := ihn .regions true hy.2 hk3 v hv
        exact ⟨c, Or.inr hc, r⟩


/-- every operation erased from a kept block is `would_be_trivially_dead` (the other liveness rule) -/
theorem dropCells_wbd {t : T} (a : AT) : ∀ (s : Srt) (f : Bool), HypC t live a s f → keptReachB live a s f = true →
    ∀ c ∈ dropCells live a f, wbd c.1 (toT c.2.2) = true := by
  induction a with
  | nil => intro s f _ _ c hc; simp [dropCells] at hc
  | op h m rs next ihr ihn =>
    intro s f hy hk c hc
    cases s with
    | blocks => simp [keptReachB] at hk
    | regions => simp [keptReachB] at hk
    | ops =>
      simp only [keptReachB, Bool.and_eq_true, Bool.or_eq_true, Bool.not_eq_true'] at hk
      simp only [HypC, toT_op, Closed] at hy
      obtain ⟨hy1, hy2, hy3⟩ := hy
      simp only [dropCells, List.mem_append] at hc
      rcases hc with hc | hc
      · cases hl : live.contains h.id with
        | true =>
          simp only [hl, if_true] at hc
          have hk1 : keptReachB live rs .regions true = true := by
            rcases hk.1 with h0 | h0
            · rw [hl] at h0; cases h0
            · exact h0
          exact ihr .regions true (hy3 (by simpa using hl)) hk1 c hc
        | false =>
          simp only [hl, Bool.false_eq_true, if_false, List.mem_singleton] at hc
          subst hc
          cases hw : wbd h (toT rs) with
          | true => rfl
          | false =>
            have := hy2 (Or.inl hw)
            simp only [List.contains_eq_mem, decide_eq_false_iff_not] at hl
            exact absurd this hl
      · exact ihn .ops false hy1 hk.2 c hc
  | block i args ops next iho ihn =>
    intro s f hy hk c hc
    cases s with
    | ops => simp [keptReachB] at hk
    | regions => simp [keptReachB] at hk
    | blocks =>
      simp only [keptReachB, Bool.and_eq_true] at hk
      simp only [HypC, toT_block, keepMaskA] at hy
      simp only [dropCells, List.mem_append] at hc
      rcases hc with hc | hc
      · cases hd : (!f && !anyLiveA live ops) with
        | true => simp [hd] at hc
        | false =>
          simp only [hd, Bool.false_eq_true, if_false] at hc
          have hk1 : keptReachB live ops .ops false = true := by
            have h0 := hk.1
            rw [hd] at h0
            simpa using h0
          have hkeep : (f || anyLiveA live ops) = true := by
            cases f <;> cases hq : anyLiveA live ops <;> simp_all
          have h0 := hy 0 (by simpa using hkeep)
          simp only [Closed] at h0
          exact iho .ops false h0 hk1 c hc
      · have hy' : HypC t live next .blocks false := by
          intro k hk'
          have := hy (k + 1) (by simpa using hk')
          simpa [Closed] using this
        exact ihn .blocks false hy' hk.2 c hc
  | region bs next ihb ihn =>
    intro s f hy hk c hc
    cases s with
    | ops => simp [keptReachB] at hk
    | blocks => simp [keptReachB] at hk
    | regions =>
      simp only [keptReachB, Bool.and_eq_true, List.all_eq_true, List.mem_range, Bool.or_eq_true,
        Bool.not_eq_true', List.contains_eq_mem, decide_eq_true_eq] at hk
      obtain ⟨⟨hk1, hk2⟩, hk3⟩ := hk
      simp only [HypC, toT_region, Closed] at hy
      simp only [dropCells, List.mem_append] at hc
      rcases hc with hc | hc
      · have hy' : HypC t live bs .blocks true := by
          intro k hk'
          have hlt : k < (keepMaskA live bs true).length := by
            by_cases hlt : k < (keepMaskA live bs true).length
            · exact hlt
            · simp [List.getD, List.getElem?_eq_none (by omega : (keepMaskA live bs true).length ≤ k)] at hk'
          rcases hk1 k hlt with h0 | h0
          · rw [h0] at hk'; cases hk'
          · exact hy.1 k h0
        exact ihb .blocks true hy' hk2 c hc
      · exact ihn .regions true hy.2 hk3 c hc

theorem allHdrs_toT (a : AT) : allHdrs (toT a) = (cellsA a).map (·.1) := by
  induction a with
  | nil => rfl
  | op h m rs next ihr ihn => simp [allHdrs, cellsA, ihr, ihn]
  | block i args ops next iho ihn => simp [allHdrs, cellsA, iho, ihn]
  | region bs next ihb ihn => simp [allHdrs, cellsA, ihb, ihn]

/-- **no live operation reads a result of an erased operation** (of those erased one by one): by
`linkedB` the reader's operand list names the erased operation, so the erased operation has a live
user, and the closedness of the live set would make it live -/
theorem no_live_use (a : AT) (hl : linkedB a = true)
    (hspec : ∀ v ∈ rl, ∃ c ∈ cellsA a, v ∈ c.2.1.results.map (·.1) ∧ live.contains c.1.id = false
      ∧ (hasLiveUser (toT a) live c.1.id = true → c.1.id ∈ live)) :
    ∀ u ∈ cellsA a, live.contains u.1.id = true → ∀ v ∈ uses u.2.1, v ∉ rl := by
  intro u hu hul v hv hvr
  obtain ⟨c, hc, hres, hcl, hclosed⟩ := hspec v hvr
  obtain ⟨r, hr, rfl⟩ := List.mem_map.mp hres
  simp only [linkedB, List.all_eq_true, Bool.or_eq_true, Bool.not_eq_true', List.contains_eq_mem,
    decide_eq_false_iff_not, decide_eq_true_eq] at hl
  have hop : c.1.id ∈ u.1.operands := by
    rcases hl u hu c hc r hr with h | h
    · exact absurd hv h
    · exact h
  have : c.1.id ∈ live := hclosed (hasLiveUser_iff.mpr ⟨u.1, by rw [allHdrs_toT]; exact List.mem_map.mpr ⟨u, hu, rfl⟩,
    hop, by simpa using hul⟩)
  simp only [List.contains_eq_mem, decide_eq_false_iff_not] at hcl
  exact hcl this

theorem nodupB_iff (l : List Nat) : nodupB l = true ↔ l.Nodup := by
  induction l with
  | nil => simp [nodupB]
  | cons x xs ih => simp [nodupB, ih]

/-! ## the module body -/

theorem simTop_of_cert (a : AT) (kb : Nat → Bool) : certTop live hid a = true →
    succB live a .ops kb false = true →
    (∀ v ∈ dropRes live a false, D v) → (∀ v ∈ hiddenDefs live a false, D v) →
    (∀ v, D v → v ∈ hid ∨ v ∈ rl) →
    (∀ c ∈ cellsA a, live.contains c.1.id = true → ∀ v ∈ uses c.2.1, v ∉ rl) →
    (∀ c ∈ dropCells live a false, wbd c.1 (toT c.2.2) = true) →
    SimTop P D live a := by
  induction a with
  | nil => intro _ _ _ _ _ _ _; trivial
  | block _ _ _ _ _ _ => intro _ _ _ _ _ _ _; trivial
  | region _ _ _ _ => intro _ _ _ _ _ _ _; trivial
  | op h m rs next _ ihn =>
    intro hc hsb hdr hhid hD hG hW
    simp only [succB, Bool.and_eq_true] at hsb
    simp only [dropCells, List.mem_append] at hW
    simp only [certTop, Bool.and_eq_true, Bool.or_eq_true, bne_iff_ne, ne_eq, beq_iff_eq] at hc
    simp only [dropRes, List.mem_append] at hdr
    simp only [hiddenDefs, List.mem_append] at hhid
    simp only [cellsA, List.mem_cons, List.mem_append] at hG
    refine ⟨?_, ihn hc.2 hsb.2 (fun v hv => hdr v (Or.inr hv)) (fun v hv => hhid v (Or.inr hv)) hD
      (fun c hc => hG c (Or.inr (Or.inr hc))) (fun c hc => hW c (Or.inr hc))⟩
    intro hname
    rcases hc.1 with h0 | ⟨⟨hl, hcb⟩, hbody⟩
    · exact absurd hname h0
    · simp only [hl, if_true] at hdr hhid hW
      have hsr : succB live rs .regions (fun _ => true) true = true := by
        have := hsb.1
        simp only [hl, Bool.not_true, Bool.false_or, Bool.and_eq_true] at this
        exact this.2
      exact ⟨hl, simOK_of_cert rs .regions _ true _ hcb hsr (fun _ _ => trivial) (fun v hv => hdr v (Or.inl hv))
        (fun v hv => hhid v (Or.inl hv)) hD (fun c hc => hG c (Or.inr (Or.inl hc)))
        (fun c hc => hW c (Or.inl hc)), hbody⟩

theorem bodyOf_some {l : List Region} {r : Region} (h : bodyOf l = some r) : l = [r] := by
  unfold bodyOf at h
  split at h
  · cases h; rfl
  · cases h

theorem callOK_of_simTop (mask : List Bool) (a : AT) (ht : SimTop P D live a) :
    ∀ name fn, findFunc ⟨funcsOf a⟩ name = some fn → ∃ fn', findFunc ⟨funcsOf (delA live a false mask)⟩ name = some fn' ∧
    ((fn.body = none ∧ fn'.body = none) ∨
     ∃ bs mask, fn.body = some (.mk (blocksOf bs)) ∧ fn'.body = some (.mk (blocksOf (delA live bs true mask)))
        ∧ SimOK P D live bs .blocks (fun b => FirstKept live b bs true) true) := by
  induction a with
  | nil => intro name fn h; simp [findFunc, funcsOf] at h
  | block _ _ _ _ _ _ => intro name fn h; simp [findFunc, funcsOf] at h
  | region _ _ _ _ => intro name fn h; simp [findFunc, funcsOf] at h
  | op h m rs next _ ihn =>
    intro name fn hf
    obtain ⟨h1, h2⟩ := ht
    by_cases hname : m.name = "func.func"
    · obtain ⟨hl, hsim, hbody⟩ := h1 hname
      simp only [findFunc, funcsOf, hname, if_true, List.find?_cons] at hf
      simp only [delA, hl, if_true, findFunc, funcsOf, hname, List.find?_cons]
      by_cases hn : symName m = name
      · simp only [hn, decide_true] at hf ⊢
        cases hf
        refine ⟨_, rfl, ?_⟩
        simp only
        cases hb : bodyOf (regionsOf rs) with
        | none =>
          rw [hb] at hbody
          left
          refine ⟨rfl, ?_⟩
          cases hb' : bodyOf (regionsOf (delA live rs true [])) with
          | none => rfl
          | some r => rw [hb'] at hbody; cases hbody
        | some r =>
          right
          rw [hb] at hbody
          obtain ⟨l, e1, e2, e3⟩ := regions_sim hsim true []
          have hr := bodyOf_some hb
          rw [e1] at hr
          rcases l with _ | ⟨p, _ | ⟨q, l⟩⟩
          · cases hr
          · simp only [List.map, List.cons.injEq, and_true] at hr e2
            cases hb' : bodyOf (regionsOf (delA live rs true [])) with
            | none => rw [hb'] at hbody; cases hbody
            | some r' =>
              have hr' := bodyOf_some hb'
              rw [e2] at hr'
              simp only [List.cons.injEq, and_true] at hr'
              exact ⟨p.1, p.2, by rw [← hr], by rw [hr'], e3 p (by simp)⟩
          · simp at hr
      · simp only [hn, decide_false] at hf ⊢
        exact ihn h2 name fn (by simpa [findFunc] using hf)
    · simp only [findFunc, funcsOf, hname, if_false] at hf
      have := ihn h2 name fn (by simpa [findFunc] using hf)
      simp only [delA]
      split
      · simpa [findFunc, funcsOf, hname] using this
      · exact this


/-! ## `delA` is `DCE.del` -/

theorem anyLiveA_toT (a : AT) : anyLiveA live a = anyLive live (toT a) := by
  induction a with
  | nil => rfl
  | op h m rs next _ ihn => simp [anyLiveA, anyLive, ihn]
  | block _ _ _ _ _ _ => rfl
  | region _ _ _ _ => rfl

theorem keepMaskA_toT (a : AT) : ∀ f, keepMaskA live a f = keepMask live (toT a) f := by
  induction a with
  | nil => intro f; rfl
  | op _ _ _ _ _ _ => intro f; rfl
  | region _ _ _ _ => intro f; rfl
  | block i args ops next _ ihn => intro f; simp [keepMaskA, keepMask, anyLiveA_toT, ihn]

theorem toT_delA (a : AT) : ∀ f mask, toT (delA live a f mask) = del live (toT a) f mask := by
  induction a with
  | nil => intro f mask; rfl
  | op h m rs next ihr ihn =>
    intro f mask
    simp only [delA, toT_op, del]
    split
    · simp [ihr, ihn]
    · exact ihn false mask
  | block i args ops next iho ihn =>
    intro f mask
    simp only [delA, toT_block, del, anyLiveA_toT]
    split
    · exact ihn false mask
    · simp [iho, ihn]
  | region bs next ihb ihn =>
    intro f mask
    simp [delA, del, ihb, ihn, keepMaskA_toT]

/-- the tree that the model of `region_dce` leaves is the `T`-part of `dceOnceA` -/
theorem toT_dceOnceA (a : AT) : toT (dceOnceA a).1 = (dceOnce (toT a)).1 ∧ (dceOnceA a).2 = (dceOnce (toT a)).2 := by
  unfold dceOnceA dceOnce
  simp only [toT_delA]
  split <;> simp [toT_delA]

end Xdsl.DCEM
