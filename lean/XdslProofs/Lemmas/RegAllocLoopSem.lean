import XdslModel.RegAllocLoop
import XdslProofs.Lemmas.RegMachine
import XdslProofs.Lemmas.RegAllocBasics
/-!
C19 (loops) helper lemmas, part 3: the validator for blocks with loops is sound — an accepted
assignment makes the register machine (loops as `convert-riscv-scf-to-riscv-cf` lowers them) compute
what the SSA execution computes, for every instruction semantics, every loop test / increment and every
trip count.
-/
namespace Xdsl.RegAllocLoop
open Xdsl.RegMachine Xdsl.RegAlloc

/-! ### sets as lists -/

theorem mem_uni {a b : List ValId} {v : ValId} : v ∈ uni a b ↔ v ∈ a ∨ v ∈ b := by
  unfold uni
  simp only [List.mem_append, List.mem_filter, List.contains_eq_mem, Bool.not_eq_true',
    decide_eq_false_iff_not]
  constructor
  · rintro (h | ⟨h, _⟩)
    · exact Or.inl h
    · exact Or.inr h
  · rintro (h | h)
    · exact Or.inl h
    · by_cases hv : v ∈ a
      · exact Or.inl hv
      · exact Or.inr ⟨h, hv⟩

theorem mem_optL {o : Option ValId} {v : ValId} : v ∈ optL o ↔ o = some v := by
  cases o <;> simp [optL, eq_comm]

theorem pwB_iff {z : Bool} {a : ValId → Reg} {L : List ValId} : pwB z a L = true ↔ PW z a L := by
  unfold pwB PW
  simp only [List.all_eq_true, Bool.or_eq_true, beq_iff_eq, bne_iff_ne, ne_eq, Bool.and_eq_true]
  constructor
  · intro h v hv w hw hne heq
    rcases h v hv w hw with (h1 | h1) | h1
    · exact absurd h1 hne
    · exact absurd heq h1
    · exact h1
  · intro h v hv w hw
    by_cases hvw : v = w
    · exact Or.inl (Or.inl hvw)
    · by_cases heq : a v = a w
      · exact Or.inr (h v hv w hw hvw heq)
      · exact Or.inl (Or.inr heq)

/-! ### the loop-carried groups -/

theorem groups_getElem : ∀ (bs is ys rs : List ValId) (k : Nat) (h1 : k < bs.length) (h2 : k < is.length)
    (h3 : k < ys.length) (h4 : k < rs.length), [bs[k], is[k], ys[k], rs[k]] ∈ groups bs is ys rs := by
  intro bs
  induction bs with
  | nil => intro is ys rs k h1; simp at h1
  | cons b bs ih =>
    intro is ys rs k h1 h2 h3 h4
    cases is with
    | nil => simp at h2
    | cons i is =>
      cases ys with
      | nil => simp at h3
      | cons y ys =>
        cases rs with
        | nil => simp at h4
        | cons r rs =>
          cases k with
          | zero => simp [groups]
          | succ k =>
            simp only [groups, List.getElem_cons_succ, List.mem_cons]
            right
            exact ih is ys rs k (by simpa using h1) (by simpa using h2) (by simpa using h3) (by simpa using h4)

/-! ### what `loopOk` says -/

structure LoopGood (z : Bool) (a : ValId → Reg) (Z : List ValId) (h : Loop)
    (L' through bodyOut bodyIn atEntry : List ValId) : Prop where
  ivlb : h.iv.isSome = h.lb.isSome
  ivub : h.iv.isSome = h.ub.isSome
  stepiv : h.step.isSome = true → h.iv.isSome = true
  repiv : h.rep.isSome = true → h.iv.isSome = false
  lenB : h.bargs.length = h.inits.length
  lenY : h.yields.length = h.inits.length
  lenR : h.res.length = h.inits.length
  nodup : (h.bound ++ h.res).Nodup
  fresh : ∀ v ∈ h.bound ++ h.res, v ∉ Z ∧ v ∉ through
  tied : ∀ g ∈ h.groups, tiedB a g = true
  nz : z = true → ∀ v ∈ h.bound ++ h.res, a v ≠ 0
  resFree : ∀ d ∈ h.res, ∀ w ∈ L', w ∉ h.res → a w ≠ a d
  pwAfter : PW z a L'
  pwOut : PW z a bodyOut
  ivY : ∀ d ∈ optL h.iv, ∀ y ∈ h.yields, a y ≠ a d
  inSub : ∀ v ∈ bodyIn, v ∈ h.bound ∨ v ∈ through
  pwEntry : PW z a atEntry
  ivFree : ∀ d ∈ optL h.iv, ∀ w, (w ∈ atEntry ∧ w ∉ h.bound) ∨ w ∈ h.inits → a w ≠ a d

theorem loopOk_good {z : Bool} {a : ValId → Reg} {Z : List ValId} {h : Loop}
    {L' through bodyOut bodyIn atEntry : List ValId}
    (hok : loopOk z a Z h L' through bodyOut bodyIn atEntry = true) :
    LoopGood z a Z h L' through bodyOut bodyIn atEntry := by
  unfold loopOk shapeOk at hok
  simp only [Bool.and_eq_true, beq_iff_eq, Bool.or_eq_true, Bool.not_eq_true', decide_eq_true_eq,
    List.all_eq_true, List.contains_eq_mem, decide_eq_false_iff_not, bne_iff_ne, ne_eq,
    List.mem_append, List.mem_filter] at hok
  obtain ⟨⟨⟨⟨⟨⟨⟨⟨⟨⟨⟨⟨⟨⟨⟨⟨⟨h1, h2⟩, h3⟩, h4⟩, h5⟩, h6⟩, h7⟩, h8⟩, h9⟩, h10⟩, h11⟩, h12⟩, h13⟩, h14⟩, h15⟩, h16⟩, h17⟩, h18⟩ := hok
  exact {
    ivlb := h1
    ivub := h2
    stepiv := fun hs => by
      rcases h3 with h3 | h3
      · rw [h3] at hs; exact absurd hs (by simp)
      · exact h3
    repiv := fun hr => by
      rcases h4 with h4 | h4
      · rw [h4] at hr; exact absurd hr (by simp)
      · exact h4
    lenB := h5
    lenY := h6
    lenR := h7
    nodup := h8
    fresh := fun v hv => h9 v (List.mem_append.1 hv)
    tied := h10
    nz := fun hz v hv => by
      rcases h11 with h11 | h11
      · rw [hz] at h11; exact absurd h11 (by simp)
      · exact h11 v (List.mem_append.1 hv)
    resFree := fun d hd w hw hwr => by
      have := h12 d hd
      unfold defFree at this
      simp only [List.all_eq_true, List.mem_filter, Bool.not_eq_true',
        decide_eq_false_iff_not, Bool.or_eq_true, beq_iff_eq, bne_iff_ne, ne_eq, and_imp] at this
      rcases this w hw hwr with e | e
      · exact absurd (e ▸ hd) hwr
      · exact e
    pwAfter := pwB_iff.1 h13
    pwOut := pwB_iff.1 h14
    ivY := h15
    inSub := h16
    pwEntry := pwB_iff.1 h17
    ivFree := fun d hd w hw => by
      refine h18 d hd w ?_
      rcases hw with ⟨hw1, hw2⟩ | hw
      · exact Or.inl ⟨hw1, hw2⟩
      · exact Or.inr hw }

/-! ### simultaneous assignment -/

theorem writeVals_shift (g : Nat → Word) : ∀ (ds : List ValId) (i : Nat) (e : ValId → Word),
    writeVals g (i + 1) ds e = writeVals (fun j => g (j + 1)) i ds e := by
  intro ds
  induction ds with
  | nil => intro i e; rfl
  | cons d ds ih => intro i e; simp only [writeVals]; rw [ih]

theorem bindVals_cons (d : ValId) (ds : List ValId) (x : Word) (xs : List Word) (e : ValId → Word) :
    bindVals (d :: ds) (x :: xs) e = bindVals ds xs (upd e d x) := by
  unfold bindVals
  simp only [writeVals]
  rw [writeVals_shift]
  simp

theorem bindVals_not_mem (ds : List ValId) (xs : List Word) (e : ValId → Word) (v : ValId) (h : v ∉ ds) :
    bindVals ds xs e v = e v := writeVals_not_mem _ _ _ _ _ h

theorem bindVals_getElem (ds : List ValId) (xs : List Word) (e : ValId → Word) (hn : ds.Nodup)
    (k : Nat) (hk : k < ds.length) : bindVals ds xs e ds[k] = xs.getD k 0 := by
  have hsplit : ds = ds.take k ++ ds[k] :: ds.drop (k + 1) := by
    rw [List.getElem_cons_drop]; exact (List.take_append_drop k ds).symm
  have hpost : ds[k] ∉ ds.drop (k + 1) := by
    intro hm
    have hnd : (ds.take k ++ ds[k] :: ds.drop (k + 1)).Nodup := by rw [← hsplit]; exact hn
    have := (List.nodup_append.1 hnd).2.1
    exact (List.nodup_cons.1 this).1 hm
  unfold bindVals
  have := writeVals_at (fun i => xs.getD i 0) (ds.take k) (ds.drop (k + 1)) ds[k] 0 e hpost
  rw [← hsplit] at this
  rw [this]
  simp [Nat.min_eq_left (Nat.le_of_lt hk)]

theorem zeroInv_bind {env : ValId → Word} {Z ds : List ValId} {xs : List Word}
    (hz : ZeroInv env Z) (hd : ∀ d ∈ ds, d ∉ Z) : ZeroInv (bindVals ds xs env) Z := by
  intro v hv
  rw [bindVals_not_mem _ _ _ _ (fun hm => hd v hm hv)]
  exact hz v hv

/-! ### the simulation -/

/-- both machines ran out of fuel, or both finished with every value of `L` in its register -/
def SimRes (z : Bool) (a : ValId → Reg) (L Z : List ValId) :
    Option (ValId → Word) → Option (Reg → Word) → Prop
  | none, none => True
  | some env, some rf => Agree z a rf env L ∧ ZeroInv env Z
  | _, _ => False

theorem tied4 {a : ValId → Reg} {b i y r : ValId} (h : tiedB a [b, i, y, r] = true) :
    a i = a b ∧ a y = a b ∧ a r = a b := by
  simp only [tiedB, List.all_cons, List.all_nil, Bool.and_true, Bool.and_eq_true, beq_iff_eq] at h
  exact ⟨h.1, h.2.1, h.2.2⟩

/-- the invariant at the loop test: everything that is live when the body is entered, and every
block argument, is in its register -/
def HeadInv (z : Bool) (a : ValId → Reg) (h : Loop) (atEntry : List ValId)
    (rf : Reg → Word) (env : ValId → Word) : Prop :=
  Agree z a rf env (atEntry ++ h.bargs)

theorem sim_fuel (z : Bool) (a : ValId → Reg) (m : LSem) : ∀ n : Nat,
    (∀ (t : LT) (Z L Lin : List ValId) (env : ValId → Word) (rf : Reg → Word),
      checkT z a Z t L = some Lin → Agree z a rf env Lin → ZeroInv env Z →
      SimRes z a L Z (runT m n .start env t) (runR z a m n .start rf t))
    ∧ (∀ (h : Loop) (body next : LT) (Z L L' bodyIn : List ValId) (k : Nat) (env : ValId → Word)
        (rf : Reg → Word),
      checkT z a Z next L = some L' →
      checkT z a Z body (bodyOutOf h (throughOf h body L')) = some bodyIn →
      LoopGood z a Z h L' (throughOf h body L') (bodyOutOf h (throughOf h body L')) bodyIn
        (atEntryOf h bodyIn (throughOf h body L')) →
      HeadInv z a h (atEntryOf h bodyIn (throughOf h body L')) rf env → ZeroInv env Z →
      SimRes z a L Z (runT m n (.head k) env (.loop h body next))
        (runR z a m n (.head k) rf (.loop h body next))) := by
  intro n
  induction n with
  | zero =>
    refine ⟨?_, ?_⟩
    · intro t Z L Lin env rf _ _ _; simp [runT, runR, SimRes]
    · intro h body next Z L L' bodyIn k env rf _ _ _ _ _; simp [runT, runR, SimRes]
  | succ n ih =>
    obtain ⟨ihS, ihH⟩ := ih
    refine ⟨?_, ?_⟩
    · -- a block from its start
      intro t Z L Lin env rf hchk hag hz
      cases t with
      | nil =>
        simp only [checkT, Option.some.injEq] at hchk
        subst hchk
        simp only [runT, runR, SimRes]
        exact ⟨hag, hz⟩
      | op o next =>
        simp only [checkT] at hchk
        split at hchk
        · exact absurd hchk (by simp)
        · rename_i L1 hL1
          split at hchk
          · rename_i hok
            simp only [Option.some.injEq] at hchk
            subst hchk
            obtain ⟨hag', hz'⟩ := step_sim (f := m.f) hok hag hz
            have := ihS next _ L L1 _ _ hL1 hag' hz'
            simp only [runT, runR]
            revert this
            cases runT m n .start (stepSSA m.f env o) next <;>
              cases runR z a m n .start (stepRegs z a m.f rf o) next <;> simp only [SimRes]
            · exact fun h => h
            · exact fun h => h
            · exact fun h => h
            · exact fun h => ⟨h.1, fun v hv => h.2 v (List.mem_append_left _ hv)⟩
          · exact absurd hchk (by simp)
      | loop h body next =>
        simp only [checkT] at hchk
        split at hchk
        · exact absurd hchk (by simp)
        rename_i L' hL'
        split at hchk
        · exact absurd hchk (by simp)
        rename_i bodyIn hbody
        have hok : loopOk z a Z h L' (throughOf h body L') (bodyOutOf h (throughOf h body L')) bodyIn
            (atEntryOf h bodyIn (throughOf h body L')) = true := by
          by_cases hok : loopOk z a Z h L' (throughOf h body L') (bodyOutOf h (throughOf h body L')) bodyIn
              (atEntryOf h bodyIn (throughOf h body L')) = true
          · exact hok
          · rw [if_neg hok] at hchk; exact absurd hchk (by simp)
        rw [if_pos hok] at hchk
        simp only [Option.some.injEq] at hchk
        subst hchk
        have G := loopOk_good hok
        -- the count of a frep loop is the same on both machines
        have hcnt : h.count m env = h.count m (fun v => readReg z rf (a v)) := by
          unfold Loop.count
          cases hr : h.rep with
          | none => rfl
          | some r =>
            simp only
            rw [hag r]
            unfold beforeOf
            rw [mem_uni, mem_uni]
            exact Or.inl (Or.inr (by simp [optL, hr]))
        simp only [runT, runR]
        rw [← hcnt]
        refine ihH h body next Z L L' bodyIn _ _ _ hL' hbody G ?_ ?_
        · -- the invariant holds when the loop is entered
          have hbefore : ∀ v, (v ∈ atEntryOf h bodyIn (throughOf h body L') ∧ v ∉ h.bound) → v ∈
              beforeOf h (atEntryOf h bodyIn (throughOf h body L')) := by
            intro v hv
            unfold beforeOf
            rw [mem_uni, mem_uni]
            exact Or.inl (Or.inl (List.mem_filter.2 ⟨hv.1, by simpa using hv.2⟩))
          have hinits : ∀ v ∈ h.inits, v ∈ beforeOf h (atEntryOf h bodyIn (throughOf h body L')) := by
            intro v hv; unfold beforeOf; rw [mem_uni]; exact Or.inr hv
          have hndB : h.bound.Nodup := (List.nodup_append.1 G.nodup).1
          cases hiv : h.iv with
          | none =>
            have hlb : h.lb = none := by
              have := G.ivlb; rw [hiv] at this
              cases hl : h.lb with
              | none => rfl
              | some l => rw [hl] at this; simp at this
            have hbound : h.bound = h.bargs := by simp [Loop.bound, hiv, optL]
            simp only [hlb, optL, List.nil_append, Loop.enterR, hiv]
            rw [hbound] at hndB
            intro v hv
            by_cases hvb : v ∈ h.bargs
            · obtain ⟨k, hk, rfl⟩ := List.getElem_of_mem hvb
              rw [bindVals_getElem _ _ _ hndB k hk]
              have hki : k < h.inits.length := by rw [← G.lenB]; exact hk
              have hky : k < h.yields.length := by rw [G.lenY]; exact hki
              have hkr : k < h.res.length := by rw [G.lenR]; exact hki
              have hg := tied4 (G.tied _ (groups_getElem h.bargs h.inits h.yields h.res k hk hki hky hkr))
              rw [← hg.1]
              have : (h.inits.map env).getD k 0 = env h.inits[k] := by
                simp [List.getD_eq_getElem?_getD, hki]
              rw [this]
              exact hag _ (hinits _ (List.getElem_mem hki))
            · rw [bindVals_not_mem _ _ _ _ hvb]
              rcases List.mem_append.1 hv with hv | hv
              · exact hag v (hbefore v ⟨hv, by rw [hbound]; exact hvb⟩)
              · exact absurd hv hvb
          | some i =>
            have hlb : ∃ l, h.lb = some l := by
              have := G.ivlb; rw [hiv] at this
              cases hl : h.lb with
              | none => rw [hl] at this; simp at this
              | some l => exact ⟨l, rfl⟩
            obtain ⟨l, hlb⟩ := hlb
            have hbound : h.bound = i :: h.bargs := by simp [Loop.bound, hiv, optL]
            rw [hbound] at hndB
            simp only [hlb, optL, List.cons_append, List.nil_append, List.map_cons, Loop.enterR, hiv]
            have hai : ¬ (z = true ∧ a i = 0) := fun ⟨hz', h0⟩ =>
              G.nz hz' i (List.mem_append_left _ (by rw [hbound]; exact List.mem_cons_self ..)) h0
            have hlB : l ∈ beforeOf h (atEntryOf h bodyIn (throughOf h body L')) := by
              unfold beforeOf; rw [mem_uni, mem_uni]
              exact Or.inl (Or.inr (by simp [optL, hlb]))
            have hfree : ∀ w, (w ∈ atEntryOf h bodyIn (throughOf h body L') ∧ w ∉ h.bound) ∨ w ∈ h.inits →
                a w ≠ a i := G.ivFree i (by simp [optL, hiv])
            intro v hv
            by_cases hvb : v ∈ i :: h.bargs
            · obtain ⟨k, hk, rfl⟩ := List.getElem_of_mem hvb
              rw [bindVals_getElem _ _ _ hndB k hk]
              cases k with
              | zero =>
                simp only [List.getElem_cons_zero, List.getD_cons_zero]
                rw [readReg_writeReg_same _ _ _ _ hai]
                exact hag l hlB
              | succ k =>
                simp only [List.getElem_cons_succ, List.getD_cons_succ]
                have hk' : k < h.bargs.length := by simpa using hk
                have hki : k < h.inits.length := by rw [← G.lenB]; exact hk'
                have hky : k < h.yields.length := by rw [G.lenY]; exact hki
                have hkr : k < h.res.length := by rw [G.lenR]; exact hki
                have hg := tied4 (G.tied _ (groups_getElem h.bargs h.inits h.yields h.res k hk' hki hky hkr))
                rw [← hg.1]
                have : (h.inits.map env).getD k 0 = env h.inits[k] := by
                  simp [List.getD_eq_getElem?_getD, hki]
                rw [this]
                have hne := hfree h.inits[k] (Or.inr (List.getElem_mem hki))
                rw [readReg_writeReg_other _ _ _ _ _ hne]
                exact hag _ (hinits _ (List.getElem_mem hki))
            · rw [bindVals_not_mem _ _ _ _ hvb]
              rcases List.mem_append.1 hv with hv | hv
              · have hvnb : v ∉ h.bound := by rw [hbound]; exact hvb
                rw [readReg_writeReg_other _ _ _ _ _ (hfree v (Or.inl ⟨hv, hvnb⟩))]
                exact hag v (hbefore v ⟨hv, hvnb⟩)
              · exact absurd (List.mem_cons_of_mem _ hv) hvb
        · exact zeroInv_bind hz (fun d hd => (G.fresh d (List.mem_append_left _ hd)).1)
    · -- at the loop test
      intro h body next Z L L' bodyIn k env rf hL' hbody G hHI hz
      have hthrough : ∀ v ∈ throughOf h body L', v ∈ atEntryOf h bodyIn (throughOf h body L') := by
        intro v hv; unfold atEntryOf; rw [mem_uni, mem_uni]; exact Or.inl (Or.inr hv)
      have hAt : ∀ v ∈ atEntryOf h bodyIn (throughOf h body L'), readReg z rf (a v) = env v :=
        fun v hv => hHI v (List.mem_append_left _ hv)
      -- the test gives the same answer
      have hgo : h.goes m env k = h.goes m (fun v => readReg z rf (a v)) k := by
        unfold Loop.goes
        cases hiv : h.iv with
        | none => rfl
        | some i =>
          cases hub : h.ub with
          | none => rfl
          | some u =>
            simp only
            rw [hAt i (by unfold atEntryOf; rw [mem_uni]; exact Or.inr (by simp [optL, hiv])),
              hAt u (hthrough u (by unfold throughOf; rw [mem_uni]; exact Or.inr (by simp [optL, hub])))]
      simp only [runT, runR]
      rw [← hgo]
      split
      · -- one more iteration
        have hagIn : Agree z a rf env bodyIn := by
          intro v hv
          exact hAt v (by unfold atEntryOf; rw [mem_uni, mem_uni]; exact Or.inl (Or.inl hv))
        have hb := ihS body Z _ bodyIn env rf hbody hagIn hz
        revert hb
        cases hT : runT m n .start env body <;> cases hR : runR z a m n .start rf body <;>
          simp only [SimRes]
        · exact fun _ => trivial
        · exact fun h => h.elim
        · exact fun h => h.elim
        rename_i env2 rf2
        rintro ⟨hag2, hz2⟩
        have hndB : h.bound.Nodup := (List.nodup_append.1 G.nodup).1
        have hout : ∀ v ∈ throughOf h body L', v ∈ bodyOutOf h (throughOf h body L') := by
          intro v hv; unfold bodyOutOf; rw [mem_uni, mem_uni]; exact Or.inl (Or.inl hv)
        have hyOut : ∀ y ∈ h.yields, y ∈ bodyOutOf h (throughOf h body L') := by
          intro v hv; unfold bodyOutOf; rw [mem_uni]; exact Or.inr hv
        refine ihH h body next Z L L' bodyIn (k - 1) _ _ hL' hbody G ?_ ?_
        · cases hiv : h.iv with
          | none =>
            have hbound : h.bound = h.bargs := by simp [Loop.bound, hiv, optL]
            rw [hbound] at hndB
            simp only [optL, List.nil_append, List.map_nil, Loop.advanceR, hiv]
            intro v hv
            by_cases hvb : v ∈ h.bargs
            · obtain ⟨j, hj, rfl⟩ := List.getElem_of_mem hvb
              rw [bindVals_getElem _ _ _ hndB j hj]
              have hji : j < h.inits.length := by rw [← G.lenB]; exact hj
              have hjy : j < h.yields.length := by rw [G.lenY]; exact hji
              have hjr : j < h.res.length := by rw [G.lenR]; exact hji
              have hg := tied4 (G.tied _ (groups_getElem h.bargs h.inits h.yields h.res j hj hji hjy hjr))
              rw [← hg.2.1]
              have : (h.yields.map env2).getD j 0 = env2 h.yields[j] := by
                simp [List.getD_eq_getElem?_getD, hjy]
              rw [this]
              exact hag2 _ (hyOut _ (List.getElem_mem hjy))
            · rw [bindVals_not_mem _ _ _ _ hvb]
              rcases List.mem_append.1 hv with hv | hv
              · -- not bound: live throughout
                have hvt : v ∈ throughOf h body L' := by
                  unfold atEntryOf at hv
                  rw [mem_uni, mem_uni] at hv
                  rcases hv with (hv | hv) | hv
                  · rcases G.inSub v hv with hb | hb
                    · rw [hbound] at hb; exact absurd hb hvb
                    · exact hb
                  · exact hv
                  · rw [hiv] at hv; simp [optL] at hv
                exact hag2 v (hout v hvt)
              · exact absurd hv hvb
          | some i =>
            have hbound : h.bound = i :: h.bargs := by simp [Loop.bound, hiv, optL]
            rw [hbound] at hndB
            simp only [optL, List.cons_append, List.nil_append, List.map_cons, List.map_nil, Loop.advanceR, hiv]
            have hai : ¬ (z = true ∧ a i = 0) := fun ⟨hz', h0⟩ =>
              G.nz hz' i (List.mem_append_left _ (by rw [hbound]; exact List.mem_cons_self ..)) h0
            have hiOut : i ∈ bodyOutOf h (throughOf h body L') := by
              unfold bodyOutOf; rw [mem_uni, mem_uni]; exact Or.inl (Or.inr (by simp [optL, hiv]))
            -- the step is the same on both machines
            have hstep : h.stepVal env2 = h.stepVal (fun v => readReg z rf2 (a v)) := by
              unfold Loop.stepVal
              cases hs : h.step with
              | none => rfl
              | some s =>
                simp only
                rw [hag2 s (hout s (by unfold throughOf; rw [mem_uni]; exact Or.inr (by simp [optL, hs])))]
            intro v hv
            by_cases hvb : v ∈ i :: h.bargs
            · obtain ⟨j, hj, rfl⟩ := List.getElem_of_mem hvb
              rw [bindVals_getElem _ _ _ hndB j hj]
              cases j with
              | zero =>
                simp only [List.getElem_cons_zero, List.getD_cons_zero]
                rw [readReg_writeReg_same _ _ _ _ hai, hag2 i hiOut, hstep]
              | succ j =>
                simp only [List.getElem_cons_succ, List.getD_cons_succ]
                have hj' : j < h.bargs.length := by simpa using hj
                have hji : j < h.inits.length := by rw [← G.lenB]; exact hj'
                have hjy : j < h.yields.length := by rw [G.lenY]; exact hji
                have hjr : j < h.res.length := by rw [G.lenR]; exact hji
                have hg := tied4 (G.tied _ (groups_getElem h.bargs h.inits h.yields h.res j hj' hji hjy hjr))
                rw [← hg.2.1]
                have : (h.yields.map env2).getD j 0 = env2 h.yields[j] := by
                  simp [List.getD_eq_getElem?_getD, hjy]
                rw [this]
                have hne := G.ivY i (by simp [optL, hiv]) _ (List.getElem_mem hjy)
                rw [readReg_writeReg_other _ _ _ _ _ hne]
                exact hag2 _ (hyOut _ (List.getElem_mem hjy))
            · rw [bindVals_not_mem _ _ _ _ hvb]
              rcases List.mem_append.1 hv with hv | hv
              · have hvt : v ∈ throughOf h body L' := by
                  unfold atEntryOf at hv
                  rw [mem_uni, mem_uni] at hv
                  rcases hv with (hv | hv) | hv
                  · rcases G.inSub v hv with hb | hb
                    · rw [hbound] at hb; exact absurd hb hvb
                    · exact hb
                  · exact hv
                  · rw [hiv] at hv
                    simp only [optL, List.mem_singleton] at hv
                    exact absurd (hv ▸ List.mem_cons_self ..) hvb
                have hvi : v ≠ i := fun e => hvb (e ▸ List.mem_cons_self ..)
                have hne : a v ≠ a i := by
                  intro e
                  have := G.pwOut v (hout v hvt) i hiOut hvi e
                  exact hai ⟨this.1, e ▸ this.2⟩
                rw [readReg_writeReg_other _ _ _ _ _ hne]
                exact hag2 v (hout v hvt)
              · exact absurd (List.mem_cons_of_mem _ hv) hvb
        · exact zeroInv_bind hz2 (fun d hd => (G.fresh d (List.mem_append_left _ hd)).1)
      · -- the loop is left: results := block arguments
        have hndR : h.res.Nodup := (List.nodup_append.1 G.nodup).2.1
        refine ihS next Z L L' _ rf hL' ?_ ?_
        · intro v hv
          by_cases hvr : v ∈ h.res
          · obtain ⟨j, hj, rfl⟩ := List.getElem_of_mem hvr
            rw [bindVals_getElem _ _ _ hndR j hj]
            have hji : j < h.inits.length := by rw [← G.lenR]; exact hj
            have hjb : j < h.bargs.length := by rw [G.lenB]; exact hji
            have hjy : j < h.yields.length := by rw [G.lenY]; exact hji
            have hg := tied4 (G.tied _ (groups_getElem h.bargs h.inits h.yields h.res j hjb hji hjy hj))
            rw [hg.2.2]
            have : (h.bargs.map env).getD j 0 = env h.bargs[j] := by
              simp [List.getD_eq_getElem?_getD, hjb]
            rw [this]
            exact hHI _ (List.mem_append_right _ (List.getElem_mem hjb))
          · rw [bindVals_not_mem _ _ _ _ hvr]
            exact hAt v (hthrough v (by
              unfold throughOf; rw [mem_uni, mem_uni]
              exact Or.inl (Or.inl (List.mem_filter.2 ⟨hv, by simpa using hvr⟩))))
        · exact zeroInv_bind hz (fun d hd => (G.fresh d (List.mem_append_right _ hd)).1)

end Xdsl.RegAllocLoop
