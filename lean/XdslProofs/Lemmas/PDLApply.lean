import XdslModel.PDL
/-!
The PDL rewrite section keeps the payload free of dangling uses (`IR.closed`): helper lemmas.
-/
namespace Xdsl.PDL
open Xdsl

/-- Prop form of `IR.closed` on the operation list -/
def Closed (nargs : Nat) (ops : List Op) : Prop :=
  ∀ x ∈ ops, ∀ v ∈ x.operands, validIn nargs ops v = true

theorem closed_iff (ir : IR) : ir.closed = true ↔ Closed ir.argTys.length ir.ops := by
  simp [IR.closed, IR.valid, Closed, List.all_eq_true]

theorem validIn_res {nargs : Nat} {ops : List Op} {o i : Nat} :
    validIn nargs ops (.res o i) = true ↔ ∃ x ∈ ops, x.id = o ∧ i < x.resTys.length := by
  simp [validIn, List.any_eq_true]

/-- `ops'` offers at least the results `ops` offers -/
def Offers (ops ops' : List Op) : Prop :=
  ∀ x ∈ ops, ∃ y ∈ ops', y.id = x.id ∧ y.resTys.length = x.resTys.length

theorem validIn_mono {nargs : Nat} {ops ops' : List Op} (h : Offers ops ops') {v : Val}
    (hv : validIn nargs ops v = true) : validIn nargs ops' v = true := by
  cases v with
  | arg k => simpa [validIn] using hv
  | res o i =>
    rw [validIn_res] at hv ⊢
    obtain ⟨x, hx, e1, e2⟩ := hv
    obtain ⟨y, hy, f1, f2⟩ := h x hx
    exact ⟨y, hy, by rw [f1, e1], by rw [f2]; exact e2⟩

/-! ### insertion -/

theorem mem_insertBefore {ops ops' : List Op} {a : OpId} {new : Op} (h : insertBefore ops a new = some ops') :
    ∀ y, y ∈ ops' ↔ y = new ∨ y ∈ ops := by
  induction ops generalizing ops' with
  | nil => simp [insertBefore] at h
  | cons x r ih =>
    simp only [insertBefore] at h
    split at h
    · cases h; intro y; simp
    · cases hr : insertBefore r a new with
      | none => simp [hr] at h
      | some r' =>
        simp only [hr, Option.map_some] at h
        cases h
        intro y
        simp only [List.mem_cons, ih hr y]
        constructor
        · rintro (h | h | h)
          · exact Or.inr (Or.inl h)
          · exact Or.inl h
          · exact Or.inr (Or.inr h)
        · rintro (h | h | h)
          · exact Or.inr (Or.inl h)
          · exact Or.inl h
          · exact Or.inr (Or.inr h)

theorem closed_insertBefore {nargs : Nat} {ops ops' : List Op} {a : OpId} {new : Op}
    (h : insertBefore ops a new = some ops') (hc : Closed nargs ops)
    (hnew : ∀ v ∈ new.operands, validIn nargs ops v = true) : Closed nargs ops' := by
  have hm := mem_insertBefore h
  have hoff : Offers ops ops' := fun x hx => ⟨x, (hm x).2 (Or.inr hx), rfl, rfl⟩
  intro x hx v hv
  rcases (hm x).1 hx with e | hx'
  · subst e; exact validIn_mono hoff (hnew v hv)
  · exact validIn_mono hoff (hc x hx' v hv)

/-! ### replacing uses -/

theorem offers_substOps (src dst : Val) (ops : List Op) : Offers ops (substOps src dst ops) ∧ Offers (substOps src dst ops) ops := by
  constructor
  · intro x hx
    exact ⟨{ x with operands := x.operands.map (substVal src dst) }, by
      simp only [substOps, List.mem_map]; exact ⟨x, hx, rfl⟩, rfl, rfl⟩
  · intro y hy
    simp only [substOps, List.mem_map] at hy
    obtain ⟨x, hx, e⟩ := hy
    subst e
    exact ⟨x, hx, rfl, rfl⟩

theorem closed_substOps {nargs : Nat} {ops : List Op} (src dst : Val) (hc : Closed nargs ops)
    (hd : validIn nargs ops dst = true) : Closed nargs (substOps src dst ops) := by
  intro y hy v hv
  simp only [substOps, List.mem_map] at hy
  obtain ⟨x, hx, e⟩ := hy
  subst e
  simp only [List.mem_map] at hv
  obtain ⟨w, hw, e⟩ := hv
  subst e
  apply validIn_mono (offers_substOps src dst ops).1
  unfold substVal
  split
  · exact hd
  · exact hc x hx w hw

theorem closed_replaceSeq {nargs : Nat} (o : OpId) :
    ∀ (vs : List Val) (k : Nat) (ops : List Op), Closed nargs ops → (∀ v ∈ vs, validIn nargs ops v = true) →
      Closed nargs (replaceSeq o k vs ops) ∧ Offers ops (replaceSeq o k vs ops) := by
  intro vs
  induction vs with
  | nil => intro k ops hc _; exact ⟨hc, fun x hx => ⟨x, hx, rfl, rfl⟩⟩
  | cons v vs ih =>
    intro k ops hc hv
    simp only [replaceSeq]
    have h1 := closed_substOps (Val.res o k) v hc (hv v (List.mem_cons_self ..))
    have hoff := (offers_substOps (Val.res o k) v ops).1
    obtain ⟨h2, h3⟩ := ih (k + 1) _ h1 (fun w hw => validIn_mono hoff (hv w (List.mem_cons_of_mem _ hw)))
    refine ⟨h2, fun x hx => ?_⟩
    obtain ⟨y, hy, e1, e2⟩ := hoff x hx
    obtain ⟨z, hz, f1, f2⟩ := h3 y hy
    exact ⟨z, hz, by rw [f1, e1], by rw [f2, e2]⟩

/-! ### erasure -/

theorem closed_eraseOp {nargs : Nat} {ops ops' : List Op} {o : OpId} (h : eraseOp ops o = some ops')
    (hc : Closed nargs ops) : Closed nargs ops' := by
  unfold eraseOp at h
  split at h
  · cases h
  · rename_i hu
    cases h
    intro x hx v hv
    simp only [List.mem_filter] at hx
    have hval := hc x hx.1 v hv
    cases v with
    | arg k => simpa [validIn] using hval
    | res o' i =>
      rw [validIn_res] at hval ⊢
      obtain ⟨y, hy, e1, e2⟩ := hval
      refine ⟨y, ?_, e1, e2⟩
      simp only [List.mem_filter]
      refine ⟨hy, ?_⟩
      have hne : o' ≠ o := by
        intro e
        apply hu
        simp only [usesOp, List.any_eq_true]
        exact ⟨x, hx.1, Val.res o' i, hv, by simp [e]⟩
      simp [e1, hne]

/-! ### evaluation of rewrite operands -/

theorem findOp_mem {ops : List Op} {o : OpId} {x : Op} (h : findOp ops o = some x) : x ∈ ops ∧ x.id = o := by
  induction ops with
  | nil => simp [findOp] at h
  | cons y r ih =>
    simp only [findOp] at h
    split at h
    · rename_i e; cases h; exact ⟨List.mem_cons_self .., e⟩
    · obtain ⟨h1, h2⟩ := ih h; exact ⟨List.mem_cons_of_mem _ h1, h2⟩

theorem evalVal_valid {st : RState} {b : Binding} {r : RVal} {v : Val} (h : evalVal st b r = some v) :
    st.ir.valid v = true := by
  unfold evalVal at h
  split at h
  · cases h
  · split at h
    · rename_i hv; cases h; exact hv
    · cases h

theorem evalVals_valid {st : RState} {b : Binding} :
    ∀ {rs : List RVal} {vs : List Val}, evalVals st b rs = some vs → ∀ v ∈ vs, st.ir.valid v = true := by
  intro rs
  induction rs with
  | nil => intro vs h; simp only [evalVals] at h; cases h; intro v hv; cases hv
  | cons r rs ih =>
    intro vs h
    simp only [evalVals] at h
    split at h
    · rename_i v vs' hv hvs
      cases h
      intro w hw
      rcases List.mem_cons.mp hw with e | hw'
      · subst e; exact evalVal_valid hv
      · exact ih hvs w hw'
    · cases h

theorem evalOp_mem {st : RState} {b : Binding} {r : ROp} {x : Op} (h : evalOp st b r = some x) : x ∈ st.ir.ops := by
  unfold evalOp at h
  split at h
  · cases h
  · exact (findOp_mem h).1

theorem closed_doReplace {st st' : RState} {x : Op} {vs : List Val} (h : doReplace st x vs = some st')
    (hc : Closed st.ir.argTys.length st.ir.ops) (hv : ∀ v ∈ vs, st.ir.valid v = true) :
    Closed st'.ir.argTys.length st'.ir.ops := by
  unfold doReplace at h
  split at h
  · split at h
    · rename_i ops hops
      cases h
      exact closed_eraseOp hops (closed_replaceSeq x.id vs 0 _ hc hv).1
    · cases h
  · cases h

theorem closed_step {rootId : OpId} {b : Binding} {st st' : RState} {a : Action} (h : step rootId b st a = some st')
    (hc : Closed st.ir.argTys.length st.ir.ops) : Closed st'.ir.argTys.length st'.ir.ops := by
  cases a with
  | create name operands attrs tys =>
    simp only [step] at h
    split at h
    · rename_i vs as ts hvs _ _
      split at h
      · rename_i ops hops
        cases h
        exact closed_insertBefore hops hc (fun v hv => evalVals_valid hvs v hv)
      · cases h
    · cases h
  | replaceVals t rs =>
    simp only [step] at h
    split at h
    · rename_i x vs _ hvs
      exact closed_doReplace h hc (evalVals_valid hvs)
    · cases h
  | replaceOp t w =>
    simp only [step] at h
    split at h
    · rename_i x y _ hy
      refine closed_doReplace h hc ?_
      intro v hv
      simp only [List.mem_map, List.mem_range] at hv
      obtain ⟨k, hk, e⟩ := hv
      subst e
      have := evalOp_mem hy
      simp only [IR.valid]
      rw [validIn_res]
      exact ⟨y, this, rfl, hk⟩
    · cases h
  | erase t =>
    simp only [step] at h
    split at h
    · split at h
      · rename_i ops hops
        cases h
        exact closed_eraseOp hops hc
      · cases h
    · cases h

theorem closed_steps {rootId : OpId} {b : Binding} :
    ∀ (rw : List Action) {st st' : RState}, steps rootId b st rw = some st' →
      Closed st.ir.argTys.length st.ir.ops → Closed st'.ir.argTys.length st'.ir.ops := by
  intro rw
  induction rw with
  | nil => intro st st' h hc; simp only [steps] at h; cases h; exact hc
  | cons a r ih =>
    intro st st' h hc
    simp only [steps] at h
    split at h
    · cases h
    · rename_i st1 h1
      exact ih h (closed_step h1 hc)

end Xdsl.PDL
