import XdslProofs.Lemmas.ConstraintBases
/-! Facts established by `AnyOf.__init__` and the dispatch of `AnyOf.verify` (C09). -/
namespace Xdsl.Constraint

def Disj (U : Univ) (c c' : C) : Prop := ∀ x, ¬ (hasBase U c x = true ∧ hasBase U c' x = true)
def NotBothAbs (U : Univ) (c c' : C) : Prop := ¬ (bases U c = none ∧ bases U c' = none)

theorem hasBase_of_none {U : Univ} {c : C} (h : bases U c = none) (x : Nat) : hasBase U c x = false := by
  simp [hasBase, h]

theorem hasBase_some {U : Univ} {c : C} {b : List Nat} (h : bases U c = some b) (x : Nat) :
    hasBase U c x = true ↔ x ∈ b := by
  simp [hasBase, h]

theorem checkLoop_spec (U : Univ) : ∀ cs based abstr B A, checkLoop U cs based abstr = some (B, A) →
    List.Pairwise (Disj U) cs ∧ List.Pairwise (NotBothAbs U) cs
    ∧ (∀ c ∈ cs, ∀ x, hasBase U c x = true → x ∉ based ∧ x ∈ B)
    ∧ (∀ x ∈ based, x ∈ B)
    ∧ (∀ c ∈ cs, bases U c = none → abstr = none ∧ ∃ d, c = .base d ∧ A = some d)
    ∧ (∀ d, abstr = some d → A = some d)
  | [], based, abstr, B, A, h => by
    simp only [checkLoop] at h
    cases h
    simp
  | c :: cs, based, abstr, B, A, h => by
    simp only [checkLoop] at h
    cases hb : bases U c with
    | none =>
      simp only [hb] at h
      split at h
      · cases h
      · rename_i habs
        have habs' : abstr = none := by cases abstr <;> simp_all
        split at h
        · rename_i d
          split at h
          · cases h
          · obtain ⟨p1, p2, p3, p4, p5, p6⟩ := checkLoop_spec U cs based (some d) B A h
            have noabs : ∀ c' ∈ cs, bases U c' ≠ none := fun c' hc' hn => by
              have := (p5 c' hc' hn).1; cases this
            refine ⟨List.pairwise_cons.2 ⟨?_, p1⟩, List.pairwise_cons.2 ⟨?_, p2⟩, ?_, p4, ?_, ?_⟩
            · intro c' _ x hx
              rw [hasBase_of_none hb] at hx; simp at hx
            · intro c' hc' hx; exact noabs c' hc' hx.2
            · intro c' hc' x hx
              rcases List.mem_cons.1 hc' with e | hc'
              · subst e; rw [hasBase_of_none hb] at hx; cases hx
              · exact p3 c' hc' x hx
            · intro c' hc' hn
              rcases List.mem_cons.1 hc' with e | hc'
              · subst e; exact ⟨habs', d, rfl, p6 d rfl⟩
              · exact absurd hn (noabs c' hc')
            · intro d' hd'; rw [habs'] at hd'; cases hd'
        · cases h
    | some b =>
      simp only [hb] at h
      split at h
      · cases h
      · rename_i hany
        obtain ⟨p1, p2, p3, p4, p5, p6⟩ := checkLoop_spec U cs (based ++ b) abstr B A h
        have hdis : ∀ x ∈ b, x ∉ based := by
          intro x hx hx'
          apply hany
          rw [List.any_eq_true]
          exact ⟨x, hx, by simpa using hx'⟩
        refine ⟨List.pairwise_cons.2 ⟨?_, p1⟩, List.pairwise_cons.2 ⟨?_, p2⟩, ?_, ?_, ?_, p6⟩
        · intro c' hc' x hx
          have h1 := (hasBase_some hb x).1 hx.1
          have h2 := (p3 c' hc' x hx.2).1
          exact h2 (List.mem_append_right _ h1)
        · intro c' _ hx; rw [hb] at hx; cases hx.1
        · intro c' hc' x hx
          rcases List.mem_cons.1 hc' with e | hc'
          · subst e
            have h1 := (hasBase_some hb x).1 hx
            exact ⟨hdis x h1, p4 x (List.mem_append_right _ h1)⟩
          · have := p3 c' hc' x hx
            exact ⟨fun hx' => this.1 (List.mem_append_left _ hx'), this.2⟩
        · intro x hx; exact p4 x (List.mem_append_left _ hx)
        · intro c' hc' hn
          rcases List.mem_cons.1 hc' with e | hc'
          · subst e; rw [hb] at hn; cases hn
          · exact p5 c' hc' hn

theorem lastBased_some (U : Univ) (x : Nat) : ∀ cs k, lastBased U cs x = some k →
    ∃ c, cs[k]? = some c ∧ hasBase U c x = true
  | [], k, h => by simp [lastBased] at h
  | c :: cs, k, h => by
    simp only [lastBased] at h
    cases hl : lastBased U cs x with
    | some k' =>
      simp only [hl] at h; cases h
      obtain ⟨c', h1, h2⟩ := lastBased_some U x cs k' hl
      exact ⟨c', by simpa using h1, h2⟩
    | none =>
      simp only [hl] at h
      split at h
      · cases h; exact ⟨c, by simp, by assumption⟩
      · cases h

theorem lastBased_none (U : Univ) (x : Nat) : ∀ cs, lastBased U cs x = none →
    ∀ c ∈ cs, hasBase U c x = false
  | [], _, c, hc => by simp at hc
  | c :: cs, h, c', hc' => by
    simp only [lastBased] at h
    cases hl : lastBased U cs x with
    | some k' => simp [hl] at h
    | none =>
      simp only [hl] at h
      rcases List.mem_cons.1 hc' with e | hc'
      · subst e
        split at h
        · cases h
        · simpa using ‹¬ hasBase U c' x = true›
      · exact lastBased_none U x cs hl c' hc'

theorem lastBased_of_mem (U : Univ) (x : Nat) : ∀ cs, List.Pairwise (Disj U) cs → ∀ c ∈ cs,
    hasBase U c x = true → ∃ k, lastBased U cs x = some k ∧ cs[k]? = some c
  | [], _, c, hc, _ => by simp at hc
  | c0 :: cs, hp, c, hc, hx => by
    obtain ⟨hp0, hp'⟩ := List.pairwise_cons.1 hp
    simp only [lastBased]
    cases hl : lastBased U cs x with
    | some k' =>
      obtain ⟨c', h1, h2⟩ := lastBased_some U x cs k' hl
      rcases List.mem_cons.1 hc with e | hc
      · subst e
        exact absurd ⟨hx, h2⟩ (hp0 c' (List.mem_of_getElem? h1) x)
      · obtain ⟨k, hk1, hk2⟩ := lastBased_of_mem U x cs hp' c hc hx
        rw [hl] at hk1; cases hk1
        exact ⟨k' + 1, rfl, by simpa using hk2⟩
    | none =>
      rcases List.mem_cons.1 hc with e | hc
      · subst e
        exact ⟨0, by simp [hx], by simp⟩
      · have := lastBased_none U x cs hl c hc
        rw [this] at hx; cases hx

theorem firstAbstract_of_mem (U : Univ) : ∀ cs, List.Pairwise (NotBothAbs U) cs → ∀ c ∈ cs,
    bases U c = none → ∃ k, firstAbstract U cs = some k ∧ cs[k]? = some c
  | [], _, c, hc, _ => by simp at hc
  | c0 :: cs, hp, c, hc, hn => by
    obtain ⟨hp0, hp'⟩ := List.pairwise_cons.1 hp
    simp only [firstAbstract]
    rcases List.mem_cons.1 hc with e | hc
    · subst e
      exact ⟨0, by simp [hn], by simp⟩
    · cases h0 : bases U c0 with
      | none => exact absurd ⟨h0, hn⟩ (hp0 c hc)
      | some b =>
        obtain ⟨k, hk1, hk2⟩ := firstAbstract_of_mem U cs hp' c hc hn
        exact ⟨k + 1, by simp [hk1], by simpa using hk2⟩

/-- under the constructor's check, `AnyOf.verify` dispatches to the (only) alternative that can
contain an attribute of class `x` -/
theorem select_complete (U : Univ) (cs : List C) (hck : checkAnyOf U cs = true) (c : C) (hc : c ∈ cs)
    (x : Nat) (h1 : ∀ b, bases U c = some b → x ∈ b)
    (h2 : ∀ d, c = .base d → isSub U x d = true) :
    ∃ k, selectIdx U cs x = some k ∧ cs[k]? = some c := by
  unfold checkAnyOf at hck
  cases hl : checkLoop U cs [] none with
  | none => simp [hl] at hck
  | some BA =>
    obtain ⟨B, A⟩ := BA
    obtain ⟨p1, p2, p3, _, p5, _⟩ := checkLoop_spec U cs [] none B A hl
    unfold selectIdx
    cases hb : bases U c with
    | some b =>
      obtain ⟨k, hk1, hk2⟩ := lastBased_of_mem U x cs p1 c hc ((hasBase_some hb x).2 (h1 b hb))
      exact ⟨k, by simp [hk1], hk2⟩
    | none =>
      obtain ⟨_, d, hd, hA⟩ := p5 c hc hb
      have hsub := h2 d hd
      have : lastBased U cs x = none := by
        cases hlb : lastBased U cs x with
        | none => rfl
        | some k =>
          obtain ⟨c', hc1, hc2⟩ := lastBased_some U x cs k hlb
          have hxB := (p3 c' (List.mem_of_getElem? hc1) x hc2).2
          subst hA
          simp only [hl] at hck
          have : (B.any fun b => isSub U b d) = true := List.any_eq_true.2 ⟨x, hxB, hsub⟩
          simp [this] at hck
      obtain ⟨k, hk1, hk2⟩ := firstAbstract_of_mem U cs p2 c hc hb
      exact ⟨k, by simp [this, hk1], hk2⟩

theorem verifyNth_eq (U : Univ) (a : Attr) (ctx : Ctx) : ∀ cs k c, cs[k]? = some c →
    verifyNth U cs k a ctx = verify U c a ctx
  | [], k, c, h => by simp at h
  | c0 :: cs, 0, c, h => by simp at h; subst h; simp [verifyNth]
  | c0 :: cs, k + 1, c, h => by
    simp at h; simp only [verifyNth]; exact verifyNth_eq U a ctx cs k c h

theorem verifyNth_some (U : Univ) (a : Attr) (ctx ctx' : Ctx) : ∀ cs k, verifyNth U cs k a ctx = some ctx' →
    ∃ c ∈ cs, verify U c a ctx = some ctx'
  | [], k, h => by simp [verifyNth] at h
  | c0 :: cs, 0, h => by simp only [verifyNth] at h; exact ⟨c0, by simp, h⟩
  | c0 :: cs, k + 1, h => by
    simp only [verifyNth] at h
    obtain ⟨c, hc, hv⟩ := verifyNth_some U a ctx ctx' cs k h
    exact ⟨c, List.mem_cons_of_mem _ hc, hv⟩

end Xdsl.Constraint
