import XdslModel.LowerAffine
/-!
Helper lemmas for `XdslProofs/C16LowerAffine.lean`: execution of the operations emitted by
`exprOps` (= `affine_expr_ops`) — append-only temporaries, value of the returned SSA value.
-/
namespace Xdsl.LowerAffine

theorem runInstrs_append (args : List Int) :
    ∀ (a b : List Instr) (t : List Int),
      runInstrs args (a ++ b) t = (runInstrs args a t).bind (runInstrs args b) := by
  intro a
  induction a with
  | nil => intro b t; rfl
  | cons i is ih =>
    intro b t
    simp only [List.cons_append, runInstrs]
    cases i.run args t with
    | none => rfl
    | some v => exact ih b (t ++ [v])

/-- every listed SSA value is an operand of the rewritten operation whose run-time value is the
environment's value of that position -/
def Binds (args : List Int) (vals : List Val) (env : Nat → Int) : Prop :=
  ∀ (p : Nat) (v : Val), vals[p]? = some v → ∃ i, v = .arg i ∧ args[i]? = some (env p)

/-- running the operations emitted for `e` appends one value per operation and leaves the value of
`e` (read with the emitted `arith` operations) in the returned SSA value, whatever is appended later -/
theorem exprOps_run (args : List Int) (dims syms : List Val) (d s : Nat → Int)
    (hd : Binds args dims d) (hs : Binds args syms s) :
    ∀ (e : Expr) (tmps : List Int) (ins : List Instr) (v : Val),
      exprOps dims syms tmps.length e = some (ins, v) →
      ∃ new, runInstrs args ins tmps = some (tmps ++ new) ∧ new.length = ins.length ∧
        ∀ ext, v.get args (tmps ++ new ++ ext) = some (e.evalLowered d s) := by
  intro e
  induction e with
  | const c =>
    intro tmps ins v h
    simp only [exprOps, Option.some.injEq, Prod.mk.injEq] at h
    obtain ⟨rfl, rfl⟩ := h
    refine ⟨[c], rfl, rfl, ?_⟩
    intro ext
    simp [Val.get, Expr.evalLowered]
  | dim p =>
    intro tmps ins v h
    simp only [exprOps, Option.map_eq_some_iff, Prod.mk.injEq] at h
    obtain ⟨w, hw, rfl, rfl⟩ := h
    obtain ⟨i, rfl, hi⟩ := hd p w hw
    exact ⟨[], by simp [runInstrs], rfl, fun _ => by simpa [Val.get, Expr.evalLowered] using hi⟩
  | sym q =>
    intro tmps ins v h
    simp only [exprOps, Option.map_eq_some_iff, Prod.mk.injEq] at h
    obtain ⟨w, hw, rfl, rfl⟩ := h
    obtain ⟨i, rfl, hi⟩ := hs q w hw
    exact ⟨[], by simp [runInstrs], rfl, fun _ => by simpa [Val.get, Expr.evalLowered] using hi⟩
  | bin k l r ihl ihr =>
    intro tmps ins v h
    rw [exprOps] at h
    cases hl : exprOps dims syms tmps.length l with
    | none => rw [hl] at h; cases h
    | some pl =>
      obtain ⟨lo, lv⟩ := pl
      rw [hl] at h
      simp only at h
      obtain ⟨n1, run1, len1, val1⟩ := ihl tmps lo lv hl
      have hbase : tmps.length + lo.length = (tmps ++ n1).length := by simp [len1]
      cases hr : exprOps dims syms (tmps.length + lo.length) r with
      | none => rw [hr] at h; cases h
      | some pr =>
        obtain ⟨ro, rv⟩ := pr
        rw [hr] at h
        simp only [Option.some.injEq, Prod.mk.injEq] at h
        obtain ⟨rfl, rfl⟩ := h
        rw [hbase] at hr
        obtain ⟨n2, run2, len2, val2⟩ := ihr (tmps ++ n1) ro rv hr
        have vl := val1 n2
        have vr := val2 []
        simp only [List.append_nil] at vr
        refine ⟨n1 ++ n2 ++ [k.arith (l.evalLowered d s) (r.evalLowered d s)], ?_, ?_, ?_⟩
        · rw [runInstrs_append, runInstrs_append, run1]
          simp only [Option.bind_some, run2]
          simp only [runInstrs, Instr.run, vl, vr]
          simp
        · simp [len1, len2]
        · intro ext
          have hlen : tmps.length + lo.length + ro.length = (tmps ++ (n1 ++ n2)).length := by
            simp [len1, len2]; omega
          rw [hlen]
          simp only [Val.get, Expr.evalLowered]
          have : tmps ++ (n1 ++ n2 ++ [k.arith (l.evalLowered d s) (r.evalLowered d s)]) ++ ext
              = (tmps ++ (n1 ++ n2)) ++ (k.arith (l.evalLowered d s) (r.evalLowered d s) :: ext) := by
            simp
          rw [this, List.getElem?_append_right (Nat.le_refl _)]
          simp

/-- `exprOps` succeeds (no `IndexError`) when every position is in range -/
theorem exprOps_isSome (dims syms : List Val) :
    ∀ (e : Expr) (base : Nat), e.wf dims.length syms.length = true →
      (exprOps dims syms base e).isSome = true := by
  intro e
  induction e with
  | const c => intro base _; rfl
  | dim p =>
    intro base h
    simp only [Expr.wf, decide_eq_true_eq] at h
    simp [exprOps, h]
  | sym q =>
    intro base h
    simp only [Expr.wf, decide_eq_true_eq] at h
    simp [exprOps, h]
  | bin k l r ihl ihr =>
    intro base h
    simp only [Expr.wf, Bool.and_eq_true] at h
    have h1 := ihl base h.1
    rw [exprOps]
    cases hl : exprOps dims syms base l with
    | none => rw [hl] at h1; cases h1
    | some pl =>
      obtain ⟨lo, lv⟩ := pl
      have h2 := ihr (base + lo.length) h.2
      simp only
      cases hr : exprOps dims syms (base + lo.length) r with
      | none => rw [hr] at h2; cases h2
      | some pr => rfl

/-- `exprOps` raises as soon as a position is out of range (converse of `exprOps_isSome`) -/
theorem exprOps_isSome_wf (dims syms : List Val) :
    ∀ (e : Expr) (base : Nat), (exprOps dims syms base e).isSome = true →
      e.wf dims.length syms.length = true := by
  intro e
  induction e with
  | const c => intro base _; rfl
  | dim p =>
    intro base h
    simp only [exprOps, Option.isSome_map] at h
    simp only [Expr.wf, decide_eq_true_eq]
    rcases Nat.lt_or_ge p dims.length with hlt | hge
    · exact hlt
    · rw [List.getElem?_eq_none hge] at h; cases h
  | sym q =>
    intro base h
    simp only [exprOps, Option.isSome_map] at h
    simp only [Expr.wf, decide_eq_true_eq]
    rcases Nat.lt_or_ge q syms.length with hlt | hge
    · exact hlt
    · rw [List.getElem?_eq_none hge] at h; cases h
  | bin k l r ihl ihr =>
    intro base h
    rw [exprOps] at h
    cases hl : exprOps dims syms base l with
    | none => rw [hl] at h; cases h
    | some pl =>
      obtain ⟨lo, lv⟩ := pl
      rw [hl] at h
      simp only at h
      cases hr : exprOps dims syms (base + lo.length) r with
      | none => rw [hr] at h; cases h
      | some pr =>
        simp only [Expr.wf, Bool.and_eq_true]
        exact ⟨ihl base (by rw [hl]; rfl), ihr (base + lo.length) (by rw [hr]; rfl)⟩

/-- where the expression is `safe`, the emitted `arith` operations compute the affine value -/
theorem evalLowered_eq_eval (d s : Nat → Int) :
    ∀ e : Expr, e.safe d s = true → e.evalLowered d s = e.eval d s := by
  intro e
  induction e with
  | const c => intro _; rfl
  | dim p => intro _; rfl
  | sym q => intro _; rfl
  | bin k l r ihl ihr =>
    intro h
    simp only [Expr.safe, Bool.and_eq_true, Bool.or_eq_true, bne_iff_ne, ne_eq, decide_eq_true_eq,
      beq_iff_eq] at h
    obtain ⟨⟨⟨hl, hr⟩, hm⟩, hp⟩ := h
    simp only [Expr.evalLowered, Expr.eval, ihl hl, ihr hr]
    cases k with
    | add => rfl
    | mul => rfl
    | floordiv => rfl
    | ceildiv => rfl
    | mod =>
      have h0 : 0 ≤ l.eval d s := by
        cases hm with
        | inl h => exact absurd rfl h
        | inr h => exact h
      have h1 : 0 < r.eval d s := by
        rcases hp with (h | h) | h
        · cases h
        · cases h
        · exact h
      simp only [Kind.arith, Kind.aff]
      rw [Int.tmod_eq_emod_of_nonneg h0, Int.fmod_eq_emod_of_nonneg _ (by omega)]

/-- the operands `a0 … a(n-1)` split at `nd`: position `p` of the first part is operand `p` -/
theorem binds_take (args : List Int) (nd n : Nat) (hlen : args.length = n) :
    Binds args ((operandVals n).take nd) (dimEnv args) := by
  intro p v h
  simp only [operandVals, List.getElem?_take, List.getElem?_map] at h
  split at h
  · rename_i hp
    cases hr : (List.range n)[p]? with
    | none => rw [hr] at h; cases h
    | some i =>
      rw [hr] at h
      simp only [Option.map_some, Option.some.injEq] at h
      have hi := List.getElem?_range (n := n) (i := p)
      have hpn : p < n := by
        rcases Nat.lt_or_ge p n with hlt | hge
        · exact hlt
        · rw [List.getElem?_eq_none (by simpa using hge)] at hr; cases hr
      rw [List.getElem?_range hpn] at hr
      cases hr
      refine ⟨p, h.symm, ?_⟩
      have : p < args.length := by omega
      simp [dimEnv, List.getD, List.getElem?_eq_getElem this]
  · cases h

/-- position `q` of the second part is operand `nd + q` -/
theorem binds_drop (args : List Int) (nd n : Nat) (hlen : args.length = n) :
    Binds args ((operandVals n).drop nd) (symEnv nd args) := by
  intro q v h
  simp only [operandVals, List.getElem?_drop, List.getElem?_map] at h
  have hpn : nd + q < n := by
    rcases Nat.lt_or_ge (nd + q) n with hlt | hge
    · exact hlt
    · rw [List.getElem?_eq_none (by simpa using hge)] at h; cases h
  rw [List.getElem?_range hpn] at h
  simp only [Option.map_some, Option.some.injEq] at h
  refine ⟨nd + q, h.symm, ?_⟩
  have : nd + q < args.length := by omega
  simp [symEnv, List.getD, List.getElem?_eq_getElem this]

theorem binds_nil (args : List Int) (env : Nat → Int) : Binds args [] env := by
  intro p v h
  simp at h

/-- `mapOps` (= `insert_affine_map_ops`): the operations of all result expressions run in sequence;
the `i`-th returned SSA value holds the value of the `i`-th result expression -/
theorem mapOps_run (args : List Int) (dims : List Val) (d s : Nat → Int) (hd : Binds args dims d) :
    ∀ (es : List Expr) (tmps : List Int) (ins : List Instr) (vs : List Val),
      mapOps dims tmps.length es = some (ins, vs) →
      ∃ new, runInstrs args ins tmps = some (tmps ++ new) ∧ new.length = ins.length ∧
        ∀ ext, vs.map (fun v => v.get args (tmps ++ new ++ ext))
          = es.map (fun e => some (e.evalLowered d s)) := by
  intro es
  induction es with
  | nil =>
    intro tmps ins vs h
    simp only [mapOps, Option.some.injEq, Prod.mk.injEq] at h
    obtain ⟨rfl, rfl⟩ := h
    exact ⟨[], by simp [runInstrs], rfl, fun _ => rfl⟩
  | cons e es ih =>
    intro tmps ins vs h
    rw [mapOps] at h
    cases he : exprOps dims [] tmps.length e with
    | none => rw [he] at h; cases h
    | some pe =>
      obtain ⟨ops, v⟩ := pe
      rw [he] at h
      simp only at h
      obtain ⟨n1, run1, len1, val1⟩ := exprOps_run args dims [] d s hd (binds_nil args s) e tmps ops v he
      have hbase : tmps.length + ops.length = (tmps ++ n1).length := by simp [len1]
      cases hm : mapOps dims (tmps.length + ops.length) es with
      | none => rw [hm] at h; cases h
      | some pm =>
        obtain ⟨ops', vs'⟩ := pm
        rw [hm] at h
        simp only [Option.some.injEq, Prod.mk.injEq] at h
        obtain ⟨rfl, rfl⟩ := h
        rw [hbase] at hm
        obtain ⟨n2, run2, len2, val2⟩ := ih (tmps ++ n1) ops' vs' hm
        refine ⟨n1 ++ n2, ?_, by simp [len1, len2], ?_⟩
        · rw [runInstrs_append, run1]
          simp only [Option.bind_some, run2, List.append_assoc]
        · intro ext
          have h1 := val1 (n2 ++ ext)
          have h2 := val2 ext
          simp only [List.append_assoc] at h1 h2 ⊢
          simp only [List.map_cons, h1, h2]

end Xdsl.LowerAffine
