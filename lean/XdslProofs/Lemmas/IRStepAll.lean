import XdslProofs.Lemmas.IRErase
import XdslProofs.Lemmas.IRStep
/-!
# C01 — the erasing calls, and the step lemma over all 58 call kinds

`Operation.erase`, `Block.erase`, `Region.erase`, `Block.erase_op`, `Region.erase_block` (by block and
by index), `Operation.drop_all_references`, `Rewriter.erase_op/replace_op/inline_block` and the
`PatternRewriter` wrappers `erase_op/replace_op/inline_block_*`: compositions of already covered
steps with `dropTree` on an object that the method's own guard (or, for
`Operation.drop_all_references`, the contract) makes detached.
-/
namespace Xdsl.IR
open Xdsl Xdsl.DLL IRStore

theorem Same.mono {s s' : IRStore} (h : Same s s') : Mono s s' :=
  ⟨fun _ hk => h.regO hk, fun _ hk => h.regB hk, fun _ hk => h.regR hk⟩

theorem mono_setOperand {s s' : IRStore} {o : Nat} {i : Int} {v : Nat}
    (hok : s.setOperand o i v = .ok s') : Mono s s' := by
  unfold IRStore.setOperand at hok
  dsimp only at hok
  split at hok
  · simp at hok
  · simp at hok; subst hok
    refine ⟨fun k hk => ?_, fun _ h => h, fun _ h => h⟩
    unfold IR.regO at *
    show (AL.get (AL.set s.ops o _) k).isSome
    rw [AL.get_set]; split <;> simp [hk]

theorem mono_replaceUsesIf {s s' : IRStore} {v w : Nat} {keep : Nat → Bool}
    (hok : s.replaceUsesIf v w keep = .ok s') : Mono s s' := by
  unfold IRStore.replaceUsesIf at hok
  exact foldlM_ok_inv (fun x => Mono s x) _ _ (fun x u x' _ hx hu => by
    dsimp only at hu
    split at hu
    · exact hx.trans (mono_setOperand hu)
    · simp at hu; exact hu ▸ hx) s s' (Mono.refl s) hok

theorem mono_replaceAllUsesWith {s s' : IRStore} {v w : Nat}
    (hok : s.replaceAllUsesWith v w = .ok s') : Mono s s' := by
  unfold IRStore.replaceAllUsesWith at hok
  split at hok
  · simp at hok; exact hok ▸ Mono.refl s
  · exact mono_replaceUsesIf hok

theorem mono_valueErase {s s' : IRStore} {v : Nat} {safe : Bool}
    (hok : s.valueErase v safe = .ok s') : Mono s s' := by
  unfold IRStore.valueErase at hok
  split at hok
  · simp at hok
  · split at hok
    · simp at hok; exact hok ▸ Mono.refl s
    · dsimp only at hok
      split at hok
      · exact mono_replaceAllUsesWith hok
      · exact Mono.trans (s2 := s.setVal (E_BASE + v) { kind := .erased, owner := v, index := 0 })
          ⟨fun _ h => h, fun _ h => h, fun _ h => h⟩ (mono_replaceAllUsesWith hok)

/-- folding a step that preserves `Inv` and never unregisters an id -/
theorem fold_inv_mono {α : Type} (f : IRStore → α → R) (l : List α)
    (step : ∀ s x s', x ∈ l → Inv s → f s x = .ok s' → Inv s' ∧ Mono s s') :
    ∀ s s', Inv s → l.foldlM f s = .ok s' → Inv s' ∧ Mono s s' := by
  intro s s' hi hok
  exact foldlM_ok_inv (fun t => Inv t ∧ Mono s t) f l
    (fun t x t' hx hp ht => by
      obtain ⟨h1, h2⟩ := step t x t' hx hp.1 ht
      exact ⟨h1, hp.2.trans h2⟩) s s' ⟨hi, Mono.refl s⟩ hok

theorem Inv.eraseValues {s s' : IRStore} (h : Inv s) {vs : List Nat} {safe : Bool}
    (hok : vs.foldlM (fun s v => s.valueErase v safe) s = .ok s') : Inv s' ∧ Mono s s' :=
  fold_inv_mono _ _ (fun _ _ _ _ ht hv => ⟨ht.valueErase hv, mono_valueErase hv⟩) _ _ h hok

/-! ### `Operation.erase`, `Operation.drop_all_references`, `Block.erase_op` -/

theorem Inv.opErase {s s' : IRStore} (h : Inv s) {o : Nat} {safe : Bool} (ho : regO s o)
    (hok : s.opErase o safe = .ok s') : Inv s' ∧ Mono s s' := by
  unfold IRStore.opErase at hok
  cases hp : s.opParent o with
  | some b => simp [hp] at hok
  | none =>
    simp only [hp, Option.isSome_none, Bool.false_eq_true, if_false] at hok
    have hroot : s.parentRef (.op o) = none := by simp [IRStore.parentRef, hp]
    obtain ⟨h1, m1⟩ := h.dropTree (root := .op o) hroot ho
    obtain ⟨h2, m2⟩ := h1.eraseValues hok
    exact ⟨h2, m1.trans m2⟩

/-- `Operation.drop_all_references` on a detached operation (the contract of the method: "called
prior to deleting an operation") -/
theorem Inv.dropAllReferences {s s' : IRStore} (h : Inv s) {o : Nat} (ho : regO s o)
    (hdet : s.opParent o = none) (hok : s.dropAllReferences o = .ok s') : Inv s' ∧ Mono s s' := by
  unfold IRStore.dropAllReferences at hok
  simp only [Except.ok.injEq] at hok
  subst hok
  exact h.dropTree (root := .op o) (by simp [IRStore.parentRef, hdet]) ho

theorem Inv.eraseOp {s s' : IRStore} (h : Inv s) {b o : Nat} {safe : Bool} (ho : regO s o)
    (hok : s.eraseOp b o safe = .ok s') : Inv s' ∧ Mono s s' := by
  unfold IRStore.eraseOp at hok
  simp only [bind_eq_ok_iff] at hok
  obtain ⟨t, ht, hok⟩ := hok
  obtain ⟨h1, m1⟩ := h.detachOp ht
  obtain ⟨h2, m2⟩ := h1.opErase (m1.regO ho) hok
  exact ⟨h2, m1.mono.trans m2⟩

theorem Inv.rwEraseOp {s s' : IRStore} (h : Inv s) {o : Nat} {safe : Bool} (ho : regO s o)
    (hok : s.rwEraseOp o safe = .ok s') : Inv s' ∧ Mono s s' := by
  unfold IRStore.rwEraseOp at hok
  cases hp : s.opParent o with
  | some b => simp only [hp] at hok; exact h.eraseOp ho hok
  | none => simp only [hp] at hok; exact h.opErase ho hok

/-! ### `Block.erase`, `Region.erase_block`, `Region.erase` -/

theorem Inv.blockErase {s s' : IRStore} (h : Inv s) {b : Nat} {safe : Bool} (hb : regB s b)
    (hok : s.blockErase b safe = .ok s') : Inv s' ∧ Mono s s' := by
  unfold IRStore.blockErase at hok
  cases hp : s.blockParent b with
  | some r => simp [hp] at hok
  | none =>
    simp only [hp, Option.isSome_none, Bool.false_eq_true, if_false] at hok
    have hroot : s.parentRef (.block b) = none := by simp [IRStore.parentRef, hp]
    obtain ⟨h1, m1⟩ := h.dropTree (root := .block b) hroot hb
    obtain ⟨h2, m2⟩ := fold_inv_mono _ _ (fun t rs t' _ ht hv => ht.eraseValues hv) _ _ h1 hok
    exact ⟨h2, m1.trans m2⟩

theorem Inv.eraseBlock {s s' : IRStore} (h : Inv s) {r b : Nat} {safe : Bool} (hb : regB s b)
    (hok : s.eraseBlock r b safe = .ok s') : Inv s' ∧ Mono s s' := by
  unfold IRStore.eraseBlock at hok
  simp only [bind_eq_ok_iff] at hok
  obtain ⟨t, ht, hok⟩ := hok
  obtain ⟨h1, m1⟩ := h.detachBlock ht
  obtain ⟨h2, m2⟩ := h1.blockErase (m1.regB hb) hok
  exact ⟨h2, m1.mono.trans m2⟩

theorem Inv.eraseBlockIdx {s s' : IRStore} (h : Inv s) {r : Nat} {idx : Int} {safe : Bool}
    (hok : s.eraseBlockIdx r idx safe = .ok s') : Inv s' ∧ Mono s s' := by
  unfold IRStore.eraseBlockIdx at hok
  simp only [bind_eq_ok_iff] at hok
  obtain ⟨b, hb, hok⟩ := hok
  obtain ⟨a, ha⟩ := h
  have hp := blockAt_ok ha hb
  have hreg : regB s b := (ha.regBlocks r b ((ha.blockL.mem_iff_parent r b).mpr hp)).1
  have h1 : Inv { s with blockL := s.blockL.remove r b } := Inv.removeBlock ⟨a, ha⟩ hp
  obtain ⟨h2, m2⟩ := h1.blockErase hreg hok
  exact ⟨h2, ⟨m2.o, m2.b, m2.r⟩⟩

theorem Inv.regionErase {s s' : IRStore} (h : Inv s) {r : Nat} (hr : regR s r)
    (hok : s.regionErase r = .ok s') : Inv s' ∧ Mono s s' := by
  unfold IRStore.regionErase at hok
  cases hp : s.regionParent r with
  | some o => simp [hp] at hok
  | none =>
    simp only [hp, Option.isSome_none, Bool.false_eq_true, if_false, Except.ok.injEq] at hok
    subst hok
    exact h.dropTree (root := .region r) (by simp [IRStore.parentRef, hp]) hr

/-! ### `Rewriter.replace_op`, `PatternRewriter.replace_op` -/

theorem Inv.replaceResults {s s' : IRStore} (h : Inv s) {olds : List Nat} {news : List (Option Nat)}
    {safe : Bool} (hok : s.replaceResults olds news safe = .ok s') : Inv s' ∧ Mono s s' := by
  unfold IRStore.replaceResults at hok
  refine fold_inv_mono _ _ (fun t p t' _ ht hp => ?_) _ _ h hok
  split at hp
  · exact ⟨ht.valueErase hp, mono_valueErase hp⟩
  · exact ⟨ht.replaceAllUsesWith hp, mono_replaceAllUsesWith hp⟩

theorem Mono.all {s s' : IRStore} (m : Mono s s') {l : List Nat} (h : ∀ o ∈ l, regO s o) :
    ∀ o ∈ l, regO s' o := fun o ho => m.o o (h o ho)

theorem Inv.rwReplaceOp {s s' : IRStore} (h : Inv s) {o : Nat} {newOps : List Nat}
    {newResults : Option (List (Option Nat))} {safe : Bool} (ho : regO s o)
    (hnew : ∀ x ∈ newOps, regO s x)
    (hok : s.rwReplaceOp o newOps newResults safe = .ok s') : Inv s' ∧ Mono s s' := by
  unfold IRStore.rwReplaceOp at hok
  cases hp : s.opParent o with
  | none => simp [hp] at hok
  | some b =>
    simp only [hp] at hok
    split at hok
    · simp at hok
    · simp only [bind_eq_ok_iff] at hok
      obtain ⟨t1, h1, t2, h2, h3⟩ := hok
      obtain ⟨i1, m1⟩ := h.replaceResults h1
      obtain ⟨i2, m2⟩ := i1.insertOpsAfter (m1.all hnew) h2
      obtain ⟨i3, m3⟩ := i2.eraseOp (m2.regO (m1.o o ho)) h3
      exact ⟨i3, (m1.trans m2.mono).trans m3⟩

theorem Inv.prReplace {s s' : IRStore} (h : Inv s) {o : Nat} {newOps : List Nat}
    {newResults : Option (List (Option Nat))} {safe : Bool} (ho : s.liveO o = true)
    (hnew : ∀ x ∈ newOps, regO s x)
    (hok : s.prReplace o newOps newResults safe = .ok s') : Inv s' ∧ Mono s s' := by
  unfold IRStore.prReplace at hok
  simp only [bind_eq_ok_iff] at hok
  obtain ⟨p, hp, hok⟩ := hok
  obtain ⟨a, ha⟩ := h
  have hregB := resolveIP_reg ha (ip := .before o) (by simpa [IRStore.okIP] using ho) hp
  -- the rest of the method, from the state `t1` after the insertion
  have rest : ∀ t1 t2, Inv t1 → Mono s t1 →
      ((t1.op! o).results.zip (newResults.getD (t1.defaultResults newOps))).foldlM (fun s q =>
          if q.2 = some q.1 then pure s
          else match q.2 with
            | none => s.valueErase q.1 safe
            | some w => s.replaceAllUsesWith q.1 w) t1 = .ok t2 →
      t2.rwEraseOp o safe = .ok s' → Inv s' ∧ Mono s s' := by
    intro t1 t2 i1 m1 h2 h3
    have st2 : Inv t2 ∧ Mono t1 t2 := by
      refine fold_inv_mono _ _ (fun t q t' _ ht hq => ?_) _ _ i1 h2
      split at hq
      · simp at hq; subst hq; exact ⟨ht, Mono.refl t⟩
      · split at hq
        · exact ⟨ht.valueErase hq, mono_valueErase hq⟩
        · exact ⟨ht.replaceAllUsesWith hq, mono_replaceAllUsesWith hq⟩
    obtain ⟨i2, m2⟩ := st2
    obtain ⟨i3, m3⟩ := i2.rwEraseOp (m2.o o (m1.o o (liveO_reg ho))) h3
    exact ⟨i3, (m1.trans m2).trans m3⟩
  split at hok
  · simp only [bind_eq_ok_iff, pure_eq_ok_iff] at hok
    obtain ⟨t1, rfl, hok⟩ := hok
    split at hok
    · simp at hok
    · simp only [bind_eq_ok_iff] at hok
      obtain ⟨t2, h2, h3⟩ := hok
      exact rest _ t2 ⟨a, ha⟩ (Mono.refl _) h2 h3
  · simp only [bind_eq_ok_iff] at hok
    obtain ⟨t1, h1, hok⟩ := hok
    obtain ⟨i1, m1⟩ := Inv.insertOpsAt ⟨a, ha⟩ hnew hregB h1
    split at hok
    · simp at hok
    · simp only [bind_eq_ok_iff] at hok
      obtain ⟨t2, h2, h3⟩ := hok
      exact rest t1 t2 i1 m1.mono h2 h3

/-! ### `Rewriter.inline_block` -/

theorem Inv.rwInlineBlock {s s' : IRStore} (h : Inv s) {src : Nat} {ip : IP} {argVals : List Nat}
    (hsrc : regB s src) (hip : s.okIP ip = true)
    (hok : s.rwInlineBlock src ip argVals = .ok s') : Inv s' ∧ Mono s s' := by
  unfold IRStore.rwInlineBlock at hok
  simp only [bind_eq_ok_iff] at hok
  obtain ⟨p, hp, hok⟩ := hok
  have hregB : regB s p.1 := by
    obtain ⟨a, ha⟩ := h
    exact resolveIP_reg ha hip hp
  split at hok
  · simp at hok
  · simp only [bind_eq_ok_iff] at hok
    obtain ⟨t1, h1, t2, h2, t3, h3, h4⟩ := hok
    -- the arguments are replaced
    obtain ⟨i1, m1⟩ : Inv t1 ∧ Mono s t1 :=
      fold_inv_mono _ _ (fun t q t' _ ht hq => ⟨ht.replaceAllUsesWith hq, mono_replaceAllUsesWith hq⟩) _ _ h h1
    -- the operations of `src` are registered
    have hops : ∀ x ∈ t1.opsOf src, regO t1 x := by
      obtain ⟨a1, ha1⟩ := i1
      intro x hx
      unfold IRStore.opsOf at hx
      rw [ha1.opL.toList_eq] at hx
      exact (ha1.regOps src x hx).1
    -- they are detached one by one …
    obtain ⟨i2, m2⟩ := fold_inv_same _ _ (fun t x t' _ ht hx => ht.opDetach hx) _ _ i1 h2
    -- … and inserted at the insertion point
    obtain ⟨i3, m3⟩ := i2.insertOpsAt (fun x hx => m2.regO (hops x hx)) (m2.regB (m1.b _ hregB)) h3
    -- the emptied block leaves its region
    cases hbp : t3.blockParent src with
    | none =>
      simp only [hbp] at h4
      obtain ⟨i5, m5⟩ := i3.blockErase (m3.regB (m2.regB (m1.b _ hsrc))) h4
      exact ⟨i5, ((m1.trans m2.mono).trans m3.mono).trans m5⟩
    | some r =>
      simp only [hbp, bind_eq_ok_iff] at h4
      obtain ⟨t4, h4, h5⟩ := h4
      obtain ⟨i4, m4⟩ := i3.detachBlock h4
      obtain ⟨i5, m5⟩ := i4.blockErase (m4.regB (m3.regB (m2.regB (m1.b _ hsrc)))) h5
      exact ⟨i5, (((m1.trans m2.mono).trans m3.mono).trans m4.mono).trans m5⟩

/-! ### the step lemma over every call kind -/

/-- What the harness never generates although xDSL does not raise (its `contract_ok`), as far as the
preservation of `Inv` depends on it: `Operation.drop_all_references` is only called on a detached
operation.  (The other clauses of `contract_ok` — no parent cycles through `move_blocks`,
`move_blocks_before`, `inline_region`, `add_region` — are not needed: `Inv` does not speak about
cycles and the erasing calls do not need acyclicity.) -/
def contract (s : IRStore) : Call → Bool
  | .dropAllReferences o => (s.opParent o).isNone
  | _ => true

theorem inv_api_erasing {s s' : IRStore} (h : Inv s) (c : Call) (hc : covered c = false)
    (hcon : contract s c = true) (href : s.refsOk c = true) (hok : s.api c = .ok s') : Inv s' := by
  cases c <;> simp only [covered] at hc <;> try (exact absurd hc (by decide))
  all_goals simp only [IRStore.refsOk, Bool.and_eq_true] at href
  all_goals simp only [IRStore.api] at hok
  case eraseOp b o safe => exact (h.eraseOp (liveO_reg href.2) hok).1
  case blockErase b safe => exact (h.blockErase (liveB_reg href) hok).1
  case eraseBlock r b safe => exact (h.eraseBlock (liveB_reg href.2) hok).1
  case eraseBlockIdx r idx safe => exact (h.eraseBlockIdx hok).1
  case regionErase r => exact (h.regionErase (liveR_reg href) hok).1
  case opErase o safe => exact (h.opErase (liveO_reg href) hok).1
  case dropAllReferences o =>
    simp only [contract, Option.isNone_iff_eq_none] at hcon
    exact (h.dropAllReferences (liveO_reg href) hcon hok).1
  case rwEraseOp o safe => exact (h.rwEraseOp (liveO_reg href) hok).1
  case rwReplaceOp o newOps newResults safe =>
    exact (h.rwReplaceOp (liveO_reg href.1.1) (manyO_reg href.1.2) hok).1
  case rwInlineBlock src ip vals => exact (h.rwInlineBlock (liveB_reg href.1.1) href.1.2 hok).1
  case prErase cur o safe =>
    simp only [IRStore.withCur, bind_eq_ok_iff] at hok
    obtain ⟨_, _, hok⟩ := hok
    exact (h.rwEraseOp (liveO_reg href.2) hok).1
  case prReplace cur o newOps newResults safe =>
    simp only [IRStore.withCur, bind_eq_ok_iff] at hok
    obtain ⟨_, _, hok⟩ := hok
    exact (h.prReplace href.1.1.2 (manyO_reg href.1.2) hok).1
  case prInlineBlock cur src ip vals =>
    simp only [IRStore.withCur, bind_eq_ok_iff] at hok
    obtain ⟨_, _, hok⟩ := hok
    exact (h.rwInlineBlock (liveB_reg href.1.1.2) href.1.2 hok).1

/-- every call kind -/
theorem inv_api_all {s s' : IRStore} (h : Inv s) (c : Call) (hcon : contract s c = true)
    (href : s.refsOk c = true) (hok : s.api c = .ok s') : Inv s' := by
  cases hc : covered c with
  | true => exact inv_api_covered h c hc href hok
  | false => exact inv_api_erasing h c hc hcon href hok

end Xdsl.IR
