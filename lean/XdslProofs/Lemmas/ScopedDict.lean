import XdslModel.ScopedDict
import XdslProofs.Lemmas.AL
namespace Xdsl.ScopedDict

theorem lookup_setitem_cons (s : Scope) (ps : Chain) (k k' : Nat) (v : Val) :
    lookup (setitem (s :: ps) k v) k' = if k' = k then some v else lookup (s :: ps) k' := by
  simp only [setitem, lookup, AL.get_set]
  split <;> simp

end Xdsl.ScopedDict
