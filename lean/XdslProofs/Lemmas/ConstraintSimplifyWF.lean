import XdslProofs.Lemmas.ConstraintSimplify
/-! `AnyOf.get` & co. preserve constructor well-formedness and well-declaredness (C09). -/
namespace Xdsl.Constraint
set_option linter.unusedSectionVars false

/-- a property of constraints that is determined node by node (instances: `WF U`, `WellDeclared decl`) -/
structure Compositional (U : Univ) (Q : C → Prop) : Prop where
  any : Q .any
  eq : ∀ a, Q (.eq a)
  set : ∀ vs, Q (.set vs)
  base : ∀ d, Q (.base d)
  param : ∀ d ps, Q (.param d ps) ↔ ∀ p ∈ ps, Q p
  anyOf_intro : ∀ cs, checkAnyOf U cs = true → (∀ c ∈ cs, Q c) → Q (.anyOf cs)
  anyOf_elim : ∀ cs, Q (.anyOf cs) → ∀ c ∈ cs, Q c

theorem WF_compositional (U : Univ) : Compositional U (WF U) where
  any := trivial
  eq _ := trivial
  set _ := trivial
  base _ := trivial
  param d ps := by simp only [WF]; exact WFL_iff U ps
  anyOf_intro cs h1 h2 := by simp only [WF]; exact ⟨h1, (WFL_iff U cs).2 h2⟩
  anyOf_elim cs h := by simp only [WF] at h; exact (WFL_iff U cs).1 h.2

theorem WD_compositional (U : Univ) (decl : Nat → C) : Compositional U (WellDeclared decl) where
  any := trivial
  eq _ := trivial
  set _ := trivial
  base _ := trivial
  param d ps := by simp only [WellDeclared]; exact WDL_iff decl ps
  anyOf_intro cs _ h2 := by simp only [WellDeclared]; exact (WDL_iff decl cs).2 h2
  anyOf_elim cs h := by simp only [WellDeclared] at h; exact (WDL_iff decl cs).1 h

theorem mem_setNth {v x : C} : ∀ {done : List C} {k : Nat}, x ∈ setNth done k v → x = v ∨ x ∈ done
  | [], _, h => by simp [setNth] at h
  | d :: done, 0, h => by
    simp only [setNth, List.mem_cons] at h
    rcases h with h | h
    · exact Or.inl h
    · exact Or.inr (List.mem_cons_of_mem _ h)
  | d :: done, k + 1, h => by
    simp only [setNth, List.mem_cons] at h
    rcases h with h | h
    · exact Or.inr (by simp [h])
    · rcases mem_setNth h with h | h
      · exact Or.inl h
      · exact Or.inr (List.mem_cons_of_mem _ h)

section
variable (U : Univ) (Q : C → Prop) (hQ : Compositional U Q)
include hQ

theorem setGet_pres (vs : List Attr) : Q (setGet vs) := by
  unfold setGet; split
  · exact hQ.eq _
  · exact hQ.set _

def RelaxP (f : Nat) : Prop := ∀ x y r, relax U f x y = .ok (some r) → Q x → Q y → Q r
def RelaxParamsP (f : Nat) : Prop := ∀ xs ys seen rs, relaxParams U f xs ys seen = .ok (some rs) →
  (∀ x ∈ xs, Q x) → (∀ y ∈ ys, Q y) → ∀ r ∈ rs, Q r
def OrP (f : Nat) : Prop := ∀ x y r, orC U f x y = .ok r → Q x → Q y → Q r
def TryP (f : Nat) : Prop := ∀ done c k v, tryMerge U f done c = .ok (some (k, v)) →
  (∀ x ∈ done, Q x) → Q c → Q v
def LoopP (f : Nat) : Prop := ∀ done todo r, getLoop U f done todo = .ok r →
  (∀ x ∈ done, Q x) → (∀ x ∈ todo, Q x) → Q r

theorem relaxP_step (f : Nat) (ihR : RelaxP U Q f) (ihP : RelaxParamsP U Q f) : RelaxP U Q (f + 1) := by
  intro x y r h qx qy
  cases x with
  | eq b =>
    cases y <;> simp only [relax] at h <;> try (cases h)
    all_goals exact setGet_pres U Q hQ _
  | set vs =>
    cases y <;> simp only [relax] at h <;> try (cases h)
    all_goals exact setGet_pres U Q hQ _
  | base d =>
    cases y with
    | base e =>
      simp only [relax] at h
      by_cases hde : d = e
      · subst hde; simp at h; cases h; exact qx
      · simp [hde] at h
    | any => simp only [relax] at h; exact ihR _ _ _ h qy qx
    | eq _ => simp only [relax] at h; exact ihR _ _ _ h qy qx
    | set _ => simp only [relax] at h; exact ihR _ _ _ h qy qx
    | anyOf _ => simp only [relax] at h; exact ihR _ _ _ h qy qx
    | allOf _ => simp only [relax] at h; exact ihR _ _ _ h qy qx
    | param _ _ => simp only [relax] at h; exact ihR _ _ _ h qy qx
    | var _ _ => simp only [relax] at h; exact ihR _ _ _ h qy qx
    | msg _ _ => simp only [relax] at h; exact ihR _ _ _ h qy qx
    | tvar _ _ => simp only [relax] at h; exact ihR _ _ _ h qy qx
    | arrayOf _ _ => simp only [relax] at h; exact ihR _ _ _ h qy qx
  | param d ps =>
    cases y <;> simp only [relax] at h <;> try (cases h)
    · rename_i e
      by_cases hde : d = e
      · subst hde; simp at h; cases h; exact qy
      · simp [hde] at h
    · rename_i e qs
      by_cases hde : d = e
      · subst hde
        simp only [beq_self_eq_true, if_true] at h
        cases hp : relaxParams U f ps qs false with
        | error e => simp [hp] at h
        | ok o =>
          cases o with
          | none => simp [hp] at h
          | some ps' =>
            simp only [hp] at h; cases h
            exact (hQ.param d ps').2 (ihP ps qs false ps' hp ((hQ.param d ps).1 qx) ((hQ.param d qs).1 qy))
      · simp [hde] at h
  | any => simp only [relax] at h; split at h <;> cases h; exact qx
  | anyOf _ => simp only [relax] at h; split at h <;> cases h; exact qx
  | allOf _ => simp only [relax] at h; split at h <;> cases h; exact qx
  | var _ _ => simp only [relax] at h; split at h <;> cases h; exact qx
  | msg _ _ => simp only [relax] at h; split at h <;> cases h; exact qx
  | tvar _ _ => simp only [relax] at h; split at h <;> cases h; exact qx
  | arrayOf _ _ => simp only [relax] at h; split at h <;> cases h; exact qx

theorem relaxParamsP_step (f : Nat) (ihP : RelaxParamsP U Q f) (ihO : OrP U Q f) : RelaxParamsP U Q (f + 1) := by
  intro xs ys seen rs h qx qy
  cases xs with
  | nil =>
    cases ys with
    | nil => simp only [relaxParams] at h; cases h; simp
    | cons y ys => simp [relaxParams] at h
  | cons x xs =>
    cases ys with
    | nil => simp [relaxParams] at h
    | cons y ys =>
      have qxs : ∀ x' ∈ xs, Q x' := fun x' hx' => qx x' (List.mem_cons_of_mem _ hx')
      have qys : ∀ y' ∈ ys, Q y' := fun y' hy' => qy y' (List.mem_cons_of_mem _ hy')
      simp only [relaxParams] at h
      split at h
      · cases hp : relaxParams U f xs ys seen with
        | error e => simp [hp] at h
        | ok o =>
          cases o with
          | none => simp [hp] at h
          | some r =>
            simp only [hp] at h; cases h
            intro r' hr'
            rcases List.mem_cons.1 hr' with e | hr'
            · subst e; exact qx _ (List.mem_cons_self ..)
            · exact ihP xs ys seen r hp qxs qys r' hr'
      · split at h
        · cases h
        · cases ho : orC U f x y with
          | error e => simp [ho] at h
          | ok xy =>
            simp only [ho] at h
            cases hp : relaxParams U f xs ys true with
            | error e => simp [hp] at h
            | ok o =>
              cases o with
              | none => simp [hp] at h
              | some r =>
                simp only [hp] at h; cases h
                intro r' hr'
                rcases List.mem_cons.1 hr' with e | hr'
                · subst e; exact ihO x y _ ho (qx _ (List.mem_cons_self ..)) (qy _ (List.mem_cons_self ..))
                · exact ihP xs ys true r hp qxs qys r' hr'

theorem orP_step (f : Nat) (ihL : LoopP U Q f) : OrP U Q (f + 1) := by
  intro x y r h qx qy
  simp only [orC] at h
  split at h
  · cases h; exact qy
  · exact ihL [] [x, y] r h (by simp) (by intro z hz; simp at hz; rcases hz with e | e <;> subst e <;> assumption)

theorem tryP_step (f : Nat) (ihR : RelaxP U Q f) (ihT : TryP U Q f) : TryP U Q (f + 1) := by
  intro done c k v h qd qc
  cases done with
  | nil => simp [tryMerge] at h
  | cons c2 rest =>
    simp only [tryMerge] at h
    cases hr : relax U f c2 c with
    | error e => simp [hr] at h
    | ok o =>
      cases o with
      | some v' =>
        simp only [hr] at h; cases h
        exact ihR c2 c v hr (qd _ (List.mem_cons_self ..)) qc
      | none =>
        simp only [hr] at h
        cases ht : tryMerge U f rest c with
        | error e => simp [ht] at h
        | ok o2 =>
          cases o2 with
          | none => simp [ht] at h
          | some kv =>
            obtain ⟨k', v'⟩ := kv
            simp only [ht] at h; cases h
            exact ihT rest c k' v ht (fun x hx => qd x (List.mem_cons_of_mem _ hx)) qc

theorem finishGet_pres (done : List C) (r : C) (h : finishGet U done = .ok r) (qd : ∀ x ∈ done, Q x) : Q r := by
  unfold finishGet at h
  split at h
  · cases h; exact qd _ (by simp)
  · split at h
    · rename_i hck; cases h; exact hQ.anyOf_intro _ hck qd
    · cases h

theorem loopP_step (f : Nat) (ihT : TryP U Q f) (ihL : LoopP U Q f) : LoopP U Q (f + 1) := by
  intro done todo r h qd qt
  cases todo with
  | nil => simp only [getLoop] at h; exact finishGet_pres U Q hQ done r h qd
  | cons c rest =>
    have qc : Q c := qt c (List.mem_cons_self ..)
    have qrest : ∀ x ∈ rest, Q x := fun x hx => qt x (List.mem_cons_of_mem _ hx)
    by_cases h1 : c = .any
    · subst h1; simp only [getLoop] at h; cases h; exact hQ.any
    · by_cases h2 : ∃ cs, c = .anyOf cs
      · obtain ⟨cs, hcs⟩ := h2; subst hcs
        simp only [getLoop] at h
        refine ihL done (cs ++ rest) r h qd ?_
        intro x hx
        rcases List.mem_append.1 hx with hx | hx
        · exact hQ.anyOf_elim cs qc x hx
        · exact qrest x hx
      · have h2' : ∀ cs, c ≠ .anyOf cs := fun cs e => h2 ⟨cs, e⟩
        rw [getLoop_other U f done rest c h1 h2'] at h
        cases ht : tryMerge U f done c with
        | error e => simp [ht] at h
        | ok o =>
          cases o with
          | none =>
            simp only [ht] at h
            refine ihL _ _ r h ?_ qrest
            intro x hx
            rcases List.mem_append.1 hx with hx | hx
            · exact qd x hx
            · simp at hx; subst hx; exact qc
          | some kv =>
            obtain ⟨k, v⟩ := kv
            simp only [ht] at h
            have qv := ihT done c k v ht qd qc
            refine ihL _ _ r h ?_ qrest
            intro x hx
            rcases mem_setNth hx with e | hx
            · subst e; exact qv
            · exact qd x hx

theorem simplify_pres : ∀ f, RelaxP U Q f ∧ RelaxParamsP U Q f ∧ OrP U Q f ∧ TryP U Q f ∧ LoopP U Q f
  | 0 => by
    refine ⟨?_, ?_, ?_, ?_, ?_⟩
    · intro x y r h; simp [relax] at h
    · intro xs ys seen rs h; simp [relaxParams] at h
    · intro x y r h; simp [orC] at h
    · intro done c k v h; simp [tryMerge] at h
    · intro done todo r h; simp [getLoop] at h
  | f + 1 => by
    obtain ⟨r, p, o, t, l⟩ := simplify_pres f
    exact ⟨relaxP_step U Q hQ f r p, relaxParamsP_step U Q hQ f p o, orP_step U Q hQ f l,
      tryP_step U Q hQ f r t, loopP_step U Q hQ f t l⟩

theorem anyOfGet_pres (cs : List C) (r : C) (h : anyOfGet U cs = .ok r) (q : ∀ c ∈ cs, Q c) : Q r :=
  (simplify_pres U Q hQ defaultFuel).2.2.2.2 [] cs r h (by simp) q

end

end Xdsl.Constraint
