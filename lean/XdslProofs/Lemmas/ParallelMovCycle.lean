import XdslProofs.Lemmas.ParallelMovTotal
import Mathlib.Logic.Relation
import Mathlib.Data.List.Nodup
/-!
Lemma for C20: a non-empty finite set of registers each of which is the target of an edge from the
set contains a cycle of the move graph (pigeonhole along the `pred` chain).
-/
namespace Xdsl.ParallelMov

open Env

/-- `k`-fold predecessor (stays put where there is none) -/
def iterPred (e : Env) : Nat → Reg → Reg
  | 0, u => u
  | k + 1, u => match e.pred (iterPred e k u) with
    | some p => p
    | none => iterPred e k u

theorem exists_cycle_of_closed {e : Env} (w : WF e) {U : List Reg} (hne : U ≠ [])
    (hcl : ∀ u ∈ U, ∃ p ∈ U, Edge e p u) : ∃ r ∈ U, Relation.TransGen (Edge e) r r := by
  obtain ⟨u0, hu0⟩ := List.exists_mem_of_ne_nil U hne
  have hmem : ∀ k, iterPred e k u0 ∈ U ∧ Edge e (iterPred e (k + 1) u0) (iterPred e k u0) := by
    intro k
    induction k with
    | zero =>
      obtain ⟨p, _, hE⟩ := hcl u0 hu0
      refine ⟨hu0, ?_⟩
      show Edge e (match e.pred u0 with | some p => p | none => u0) u0
      rw [edge_pred w hE]; exact hE
    | succ k ih =>
      have hin : iterPred e (k + 1) u0 ∈ U := by
        obtain ⟨p, hp, hE⟩ := hcl _ ih.1
        have := Edge.src_unique w hE ih.2
        exact this ▸ hp
      obtain ⟨p, _, hE⟩ := hcl _ hin
      refine ⟨hin, ?_⟩
      show Edge e (match e.pred (iterPred e (k + 1) u0) with | some p => p | none => _) _
      rw [edge_pred w hE]; exact hE
  have hpath : ∀ i d, Relation.TransGen (Edge e) (iterPred e (i + d + 1) u0) (iterPred e i u0) := by
    intro i d
    induction d with
    | zero => exact Relation.TransGen.single (hmem i).2
    | succ d ih =>
      exact Relation.TransGen.head (hmem (i + d + 1)).2 ih
  -- pigeonhole: |U|+1 iterates cannot be pairwise distinct
  by_cases hinj : ∀ i ∈ List.range (U.length + 1), ∀ j ∈ List.range (U.length + 1),
      iterPred e i u0 = iterPred e j u0 → i = j
  · exfalso
    have hnd := List.Nodup.map_on hinj List.nodup_range
    have hle := nodup_subset_length hnd (L := U) (by
      intro q hq
      obtain ⟨k, _, rfl⟩ := List.mem_map.mp hq
      exact (hmem k).1)
    simp only [List.length_map, List.length_range] at hle
    omega
  · simp only [not_forall] at hinj
    obtain ⟨i, _, j, _, heq, hij⟩ := hinj
    rcases Nat.lt_or_gt_of_ne hij with hlt | hlt
    · obtain ⟨d, rfl⟩ : ∃ d, j = i + d + 1 := ⟨j - i - 1, by omega⟩
      refine ⟨iterPred e i u0, (hmem i).1, ?_⟩
      have := hpath i d
      rw [← heq] at this
      exact this
    · obtain ⟨d, rfl⟩ : ∃ d, i = j + d + 1 := ⟨i - j - 1, by omega⟩
      refine ⟨iterPred e j u0, (hmem j).1, ?_⟩
      have := hpath j d
      rw [heq] at this
      exact this

/-! ### assembling the stages -/

variable {n : Nat}

/-- after the first loop: counters are out-degrees, and a register with no out-edge that is the target
of an edge is a leaf in the work list -/
theorem inv1_init {e : Env} (w : WF e) {c0 : Cnt} (hc0 : ∀ s, c0.val s = (cnt e [] s : Int)) :
    Inv1 e [] c0 (e.moves.map (·.dst)) none := by
  refine ⟨hc0, ?_⟩
  intro x ⟨s, hs⟩ _ hx0
  right
  obtain ⟨m, hm, hms, hmd, hne, hz⟩ := hs
  refine ⟨List.mem_map.mpr ⟨m, hm, hmd⟩, ?_⟩
  unfold Env.isLeaf
  simp only [Bool.not_eq_eq_eq_not, Bool.not_true, List.any_eq_false, Bool.and_eq_true,
    decide_eq_true_eq, Bool.or_eq_true, not_and, not_or]
  intro m' hm' hsrc
  constructor
  · intro hself
    have : m = m' := w.dst_unique hm hm' (by rw [hmd, ← hself, hsrc]) (by rw [hmd]; exact hz)
    subst this
    exact hne (by rw [← hms, ← hmd, hself])
  · intro hedge
    rw [isEdge_iff] at hedge
    have := (cnt_eq_zero_iff.mp hx0) m'.dst ⟨m', hm', hsrc, rfl, by rw [← hsrc]; exact hedge.1, hedge.2⟩
    simp at this

theorem dsts_pairwise {e : Env} (w : WF e) :
    (e.moves.map (·.dst)).Pairwise (fun a b => a = b → a = Reg.zero) := by
  rw [List.pairwise_map]; exact w.dstDistinct

/-- what the tree stage leaves behind is a union of cycles -/
theorem inv2_of_inv1 {e : Env} (w : WF e) {P : List Reg} {c : Cnt} (inv1 : Inv1 e P c [] none) :
    Inv2 e P := by
  obtain ⟨hinj, hpar⟩ := cycle_structure w (P := P) (by
    intro x hx hxP hx0
    rcases inv1.pend x hx hxP hx0 with h | ⟨h, _⟩
    · cases h
    · simp at h)
  exact ⟨hinj, hpar⟩

/-- On a well-formed, allocated parallel move with supported widths the first two stages succeed;
`lower` is then decided by the cycle stage, started in a state satisfying the invariants. -/
theorem lower_prefix (moves : List Move) (free : List Reg) (w : WF ⟨moves, free⟩)
    (hw : WidthsOK ⟨moves, free⟩) (ha : ∀ m ∈ moves, m.src.allocated = true ∧ m.dst.allocated = true)
    (ρ₀ : RegFile n) :
    ∃ st1 P1, Inv ⟨moves, free⟩ ρ₀ P1 st1 ∧ Inv2 ⟨moves, free⟩ P1 ∧
      lower moves free = match stage2 ⟨moves, free⟩ (enum moves) st1 with
        | .error x => .error x
        | .ok st2 => .ok ⟨st2.ops, st2.results⟩ := by
  unfold lower
  have hall : (moves.all fun m => m.src.allocated && m.dst.allocated) = true := by
    rw [List.all_eq_true]
    intro m hm
    simp [ha m hm]
  simp only [hall, Bool.not_true, Bool.false_eq_true, if_false]
  generalize he : (⟨moves, free⟩ : Env) = e at w hw
  have hmoves : e.moves = moves := by rw [← he]
  rw [← hmoves]
  obtain ⟨⟨st0, c0⟩, h0⟩ := stage0_isOk hw (enum e.moves) { results := e.moves.map fun _ => none } []
    (fun p hp => by obtain ⟨i, m⟩ := p; exact List.mem_of_getElem? (mem_enum.mp hp))
  obtain ⟨inv0, hc0⟩ := stage0_inv ρ₀ h0
  have i1 := inv1_init w hc0
  obtain ⟨⟨st1, c1⟩, h1⟩ := stage1_isOk w hw (ρ₀ := ρ₀) _ st0 c0 [] (dsts_pairwise w) inv0 i1
    (fun x _ _ => by simp)
  obtain ⟨P1, inv1, inv1'⟩ := stage1_inv w _ st0 c0 [] st1 c1 (dsts_pairwise w) inv0 i1
    (fun x _ _ => by simp) h1
  refine ⟨st1, P1, inv1, inv2_of_inv1 w inv1', ?_⟩
  simp only [h0, h1]
  cases stage2 e (enum e.moves) st1 <;> rfl

end Xdsl.ParallelMov
