import XdslModel.Lexer
/-!
Helper lemmas for C07: per-matcher bounds (length matched ≤ input length, ticks ≤ linear in what
was read) for `XdslModel/Lexer.lean`.
-/
namespace Xdsl.Lexer

theorem countWhile_le (p : CP → Bool) (l : List CP) : (countWhile p l).1 ≤ l.length := by
  induction l with
  | nil => simp [countWhile]
  | cons c r ih => simp only [countWhile]; split <;> simp <;> omega

theorem countWhile_ticks (p : CP → Bool) (l : List CP) :
    (countWhile p l).2 = (countWhile p l).1 + 1 := by
  induction l with
  | nil => simp [countWhile]
  | cons c r ih => simp only [countWhile]; split <;> simp <;> omega

theorem skipWs_le (b : Bool) (l : List CP) : (skipWs b l).1 ≤ l.length := by
  fun_induction skipWs b l <;> simp_all <;> omega

theorem skipWs_ticks (b : Bool) (l : List CP) : (skipWs b l).2 ≤ (skipWs b l).1 + 2 := by
  fun_induction skipWs b l <;> simp_all <;> omega

theorem suffixId_some {l : List CP} {n : Nat} (h : (suffixId l).1 = some n) :
    1 ≤ n ∧ n ≤ l.length ∧ (suffixId l).2 ≤ n + 1 := by
  cases l with
  | nil => simp [suffixId] at h
  | cons c r =>
    simp only [suffixId] at h ⊢
    split at h
    · have := countWhile_le isDigit r
      have := countWhile_ticks isDigit r
      simp_all; omega
    · split at h
      · have := countWhile_le isSuffixChar r
        have := countWhile_ticks isSuffixChar r
        simp_all; omega
      · simp at h

theorem suffixId_none {l : List CP} (h : (suffixId l).1 = none) : (suffixId l).2 = 1 := by
  cases l with
  | nil => simp [suffixId]
  | cons c r =>
    simp only [suffixId] at h ⊢
    split at h
    · simp at h
    · split at h
      · simp at h
      · simp_all

theorem strBody_ticks_le (l : List CP) : (strBody l).2 ≤ l.length + 1 := by
  fun_induction strBody l <;> simp_all <;> omega

theorem strBody_some' (l : List CP) : ∀ n, (strBody l).1 = some n →
    1 ≤ n ∧ n ≤ l.length ∧ (strBody l).2 = n := by
  fun_induction strBody l <;> simp_all
  all_goals
    rename_i ih
    intro a ha
    exact (ih a ha).2

theorem strBody_some {l : List CP} {n : Nat} (h : (strBody l).1 = some n) :
    1 ≤ n ∧ n ≤ l.length ∧ (strBody l).2 = n := strBody_some' l n h

theorem hasBackslash_ticks (l : List CP) : (hasBackslash l).2 ≤ l.length + 1 := by
  induction l with
  | nil => simp [hasBackslash]
  | cons c r ih => simp only [hasBackslash]; split <;> simp <;> omega

theorem utf8Enc_length (v : Nat) : (utf8Enc v).length ≤ 4 := by
  unfold utf8Enc
  split
  · simp
  · split
    · simp
    · split <;> simp

theorem litBytes_ticks (l : List CP) : (litBytes l).2 ≤ l.length + 1 := by
  fun_induction litBytes l <;> simp_all <;> omega

theorem litBytes_length (l : List CP) : (litBytes l).1.length ≤ 4 * l.length := by
  fun_induction litBytes l
  all_goals simp_all
  all_goals try omega
  all_goals
    rename_i ih
    have hq : (litBytes ‹List CP›).1.length ≤ 4 * (‹List CP›).length := ih
    first
      | (have := utf8Enc_length (‹CP›).val
         show _ + (litBytes _).1.length ≤ _
         omega)
      | (show (litBytes _).1.length + 1 ≤ _
         omega)

theorem utf8Valid_ticks (l : List Nat) : (utf8Valid l).2 ≤ l.length + 4 := by
  fun_induction utf8Valid l <;> simp_all <;> omega

theorem litKind_ticks (l : List CP) : (litKind l).2 ≤ 6 * l.length + 6 := by
  have h1 := hasBackslash_ticks l
  have h2 := litBytes_ticks l
  have h3 := litBytes_length l
  have h4 := utf8Valid_ticks (litBytes l).1
  simp only [litKind]
  split <;> simp <;> omega

theorem litKind_kind (l : List CP) : (litKind l).1 = .stringLit ∨ (litKind l).1 = .bytesLit := by
  simp only [litKind]
  split
  · split <;> simp
  · simp

theorem matchExp_le (l : List CP) : (matchExp l).1 ≤ l.length ∧ (matchExp l).2 ≤ (matchExp l).1 + 3 := by
  cases l with
  | nil => simp [matchExp]
  | cons c r =>
    simp only [matchExp]
    split
    · rename_i hc
      cases r with
      | nil =>
        simp [countWhile]
      | cons s r' =>
        simp only []
        split
        · have h1 := countWhile_le isDigit ((s :: r').drop 1)
          have h2 := countWhile_ticks isDigit ((s :: r').drop 1)
          simp only [List.drop_succ_cons, List.drop_zero] at h1 h2
          split <;> simp_all <;> omega
        · have h1 := countWhile_le isDigit ((s :: r').drop 0)
          have h2 := countWhile_ticks isDigit ((s :: r').drop 0)
          simp only [List.drop_zero] at h1 h2
          split <;> simp_all <;> omega
    · simp

/-- What one matcher run may do when `avail` code points are left: a token takes between one and
`avail` code points, costs at most `7·len + 5` ticks and is never of kind EOF; EOF is reported
only on empty input; an error costs at most `avail + 4` ticks and its span is non-empty and lies
within the `avail` code points. -/
def Good (avail : Nat) (q : Res × Nat) : Prop :=
  match q.1 with
  | .tok k len => 1 ≤ len ∧ len ≤ avail ∧ q.2 ≤ 7 * len + 5 ∧ k ≠ .eof
  | .eof => q.2 = 1 ∧ avail = 0
  | .err _ off len => q.2 ≤ avail + 4 ∧ 1 ≤ len ∧ off + len ≤ avail

theorem lexString_good (r : List CP) : Good (r.length + 1) (lexString r) := by
  unfold lexString
  rcases h : strBody r with ⟨o, t⟩
  cases o with
  | none =>
    have := strBody_ticks_le r
    simp [h] at this
    simp [Good]; omega
  | some l =>
    have hs := strBody_some (l := r) (n := l) (by simp [h])
    have hk := litKind_ticks (r.take l)
    have hkk := litKind_kind (r.take l)
    simp [h] at hs
    simp only [Good]
    refine ⟨by omega, by omega, ?_, ?_⟩
    · simp only [List.length_take] at hk
      have : min l r.length = l := by omega
      simp only [this] at hk
      omega
    · rcases hkk with e | e <;> simp [e]

theorem lexAt_good (r : List CP) : Good (r.length + 1) (lexAt r) := by
  cases r with
  | nil => simp [lexAt, Good]
  | cons d r =>
    simp only [lexAt]
    split
    · have h1 := countWhile_le isIdentChar r
      have h2 := countWhile_ticks isIdentChar r
      simp [Good]; omega
    · split
      · rcases h : strBody r with ⟨o, t⟩
        cases o with
        | none =>
          have := strBody_ticks_le r
          simp [h] at this
          simp [Good]; omega
        | some l =>
          have hs := strBody_some (l := r) (n := l) (by simp [h])
          have hk := litKind_ticks (r.take l)
          simp [h] at hs
          simp only [Good, List.length_cons]
          refine ⟨by omega, by omega, ?_, by simp⟩
          simp only [List.length_take] at hk
          have : min l r.length = l := by omega
          simp only [this] at hk
          omega
      · simp [Good]

theorem startsWith2_len {a b : Nat} {r : List CP} (h : startsWith2 a b r = true) : 2 ≤ r.length := by
  match r, h with
  | d :: e :: r', _ => simp

theorem isHexPrefix_len {d0 : Nat} {r : List CP} (h : isHexPrefix d0 r = true) : 2 ≤ r.length := by
  match r, h with
  | x :: y :: r', _ => simp

theorem lexNumber_good (d0 : Nat) (r : List CP) : Good (r.length + 1) (lexNumber d0 r) := by
  unfold lexNumber
  split
  · rename_i hp
    have h0 := isHexPrefix_len hp
    have h1 := countWhile_le isHex (r.drop 1)
    have h2 := countWhile_ticks isHex (r.drop 1)
    simp only [List.length_drop] at h1
    generalize countWhile isHex (r.drop 1) = q at *
    simp only [Good]
    refine ⟨by omega, by omega, by omega, by simp⟩
  · have h1 := countWhile_le isDigit r
    have h2 := countWhile_ticks isDigit r
    dsimp only
    split
    · simp only [Good]
      refine ⟨by omega, by omega, by omega, by simp⟩
    · rename_i dot r2 hd
      have hl : (r.drop (countWhile isDigit r).1).length = r2.length + 1 := by rw [hd]; simp
      simp only [List.length_drop] at hl
      split
      · have h3 := countWhile_le isDigit r2
        have h4 := countWhile_ticks isDigit r2
        have h5 := matchExp_le (r2.drop (countWhile isDigit r2).1)
        simp only [List.length_drop] at h5
        simp only [Good]
        refine ⟨by omega, by omega, by omega, by simp⟩
      · simp only [Good]
        refine ⟨by omega, by omega, by omega, by simp⟩

theorem startsWith1_len {a : Nat} {r : List CP} (h : startsWith1 a r = true) : 1 ≤ r.length := by
  match r, h with
  | d :: r', _ => simp

theorem singlePunct_ne_eof {n : Nat} {k : Kind} (h : singlePunct n = some k) : k ≠ .eof := by
  grind (splits := 30) [singlePunct]

theorem prefixKind_ne_eof (n : Nat) : prefixKind n ≠ .eof := by
  unfold prefixKind
  repeat' split
  all_goals simp

theorem lexTok_good (l : List CP) : Good l.length (lexTok l) := by
  cases l with
  | nil => simp [lexTok, Good]
  | cons c r =>
    simp only [lexTok, List.length_cons]
    split
    · have h1 := countWhile_le isIdentChar r
      have h2 := countWhile_ticks isIdentChar r
      simp only [Good]
      refine ⟨by omega, by omega, by omega, by simp⟩
    · split
      · rename_i k hk
        have := singlePunct_ne_eof hk
        simp [Good, this]
      · split
        · split
          · rename_i h; have := startsWith2_len h; simp [Good]; omega
          · simp [Good]
        · split
          · split
            · rename_i h; have := startsWith1_len h; simp [Good]; omega
            · simp [Good]
          · split
            · split
              · rename_i h; have := startsWith2_len h; simp [Good]; omega
              · simp [Good]
            · split
              · rename_i h
                have : startsWith2 45 125 r = true := by simp at h; exact h.2
                have := startsWith2_len this
                simp [Good]; omega
              · split
                · exact lexAt_good r
                · split
                  · rcases h : suffixId r with ⟨o, t⟩
                    cases o with
                    | none =>
                      have := suffixId_none (l := r) (by simp [h])
                      simp [h] at this
                      simp [Good]; omega
                    | some n =>
                      have := suffixId_some (l := r) (n := n) (by simp [h])
                      simp [h] at this
                      have hp := prefixKind_ne_eof c.val
                      simp only [Good]
                      refine ⟨by omega, by omega, by omega, hp⟩
                  · split
                    · exact lexString_good r
                    · split
                      · exact lexNumber_good c.val r
                      · simp [Good]

end Xdsl.Lexer
