import XdslProofs.Lemmas.ArgSpecParse
/-!
C18 typed-level lemmas: `spec()` emits the non-default fields in field order, `from_spec` consumes
them in the same order.
-/
namespace Xdsl.ArgSpec

section
variable {F : Type}

theorem allowsNone_of_isa_none {ty : Ty} (h : isa (FVal.none : FVal F) ty = true) : allowsNone ty = true := by
  simp only [isa, List.any_eq_true] at h
  obtain ⟨a, ha, hia⟩ := h
  cases a <;> simp [isaAlt] at hia
  simp only [allowsNone, List.contains_eq_mem, decide_eq_true_eq]
  exact ha

theorem dictGet_none_of_not_mem {α β : Type} [DecidableEq α] (d : List (α × β)) (k : α)
    (h : k ∉ d.map Prod.fst) : dictGet d k = none := by
  induction d with
  | nil => rfl
  | cons x d ih =>
    obtain ⟨a, b⟩ := x
    simp only [List.map_cons, List.mem_cons, not_or] at h
    simp [dictGet, Ne.symm h.1, ih h.2]

theorem normalizeParams_id (ps : List (List Char × List (PVal F)))
    (hn : ∀ p ∈ ps, normalizeKey p.1 = p.1) (hnd : (ps.map Prod.fst).Nodup) : normalizeParams ps = ps := by
  have : ∀ (d : List (List Char × List (PVal F))) (l : List (List Char × List (PVal F))),
      (∀ p ∈ l, normalizeKey p.1 = p.1) →
      l.foldl (fun d p => dictSet d (normalizeKey p.1) p.2) d = foldDict d l := by
    intro d l
    induction l generalizing d with
    | nil => intro _; rfl
    | cons p l ih =>
      intro hl
      simp only [List.foldl_cons, foldDict]
      rw [hl p (by simp), ih _ (fun q hq => hl q (by simp [hq]))]
      rfl
  unfold normalizeParams
  rw [this [] ps hn, foldDict_nodup [] ps (by simpa using hnd)]
  simp

variable [DecidableEq F]

theorem toSpecParams_keys_sublist (incl : Bool) (fs : List (Field F)) (vs : List (FVal F)) :
    ((toSpecParams incl fs vs).map Prod.fst).Sublist (fs.map (·.name)) := by
  induction fs generalizing vs with
  | nil => cases vs <;> simp [toSpecParams]
  | cons f fs ih =>
    cases vs with
    | nil => simp [toSpecParams]
    | cons v vs =>
      simp only [toSpecParams]
      split
      · exact (ih vs).trans (List.sublist_cons_self _ _)
      · simpa using (ih vs)

/-- the field loop of `from_spec` on what `spec()` emitted, given that each single value converts back -/
theorem fromSpecFields_toSpecParams (incl : Bool) (fs : List (Field F)) (vs : List (FVal F))
    (hlen : vs.length = fs.length) (hnd : (fs.map (·.name)).Nodup)
    (hok : ∀ fv ∈ fs.zip vs, convert (argList fv.2) fv.1.ty = .ok fv.2) :
    fromSpecFields fs (toSpecParams incl fs vs) = .ok (vs, []) := by
  induction fs generalizing vs with
  | nil =>
    cases vs with
    | nil => rfl
    | cons _ _ => simp at hlen
  | cons f fs ih =>
    cases vs with
    | nil => simp at hlen
    | cons v vs =>
      have hnd' : (fs.map (·.name)).Nodup := (List.nodup_cons.1 hnd).2
      have hf : f.name ∉ fs.map (·.name) := (List.nodup_cons.1 hnd).1
      have ih' := ih vs (by simpa using hlen) hnd' (fun fv h => hok fv (by simp [h]))
      have hnot : f.name ∉ (toSpecParams incl fs vs).map Prod.fst :=
        fun hm => hf ((toSpecParams_keys_sublist incl fs vs).subset hm)
      simp only [toSpecParams]
      split
      · rename_i hskip
        simp only [Bool.and_eq_true, decide_eq_true_eq, Bool.not_eq_true'] at hskip
        simp [fromSpecFields, dictGet_none_of_not_mem _ _ hnot, hskip.1.1, ih', hskip.1.2]
      · have hc := hok (f, v) (by simp)
        simp only at hc
        simp [fromSpecFields, dictGet, dictDel, hc, ih']

end
end Xdsl.ArgSpec
