import XdslProofs.Lemmas.RegAllocBasics
/-!
C19 helper lemmas, part 3: the invariant of the backward block-naive allocator
(`stack_inv`) and its preservation by `allocate_value`, `free_value` / `RegisterStack.push`.
-/
namespace Xdsl.RegAlloc
open Xdsl.RegMachine

/-- facts about the configuration that never change during allocation -/
structure Static (c : Cfg) (pre : AL ValId Reg) (A0 : List Reg) (U : List ValId) : Prop where
  zeroNotAlloc : c.z = true → 0 ∉ A0
  allocLt : ∀ r : Nat, r ∈ A0 → r < c.infBase
  basePos : c.z = true → 0 < c.infBase
  preLt : ∀ (v : ValId) (r : Nat), AL.get pre v = some r → r < c.infBase
  /-- registers of pre-assigned values that occur in the function are excluded from the pool -/
  usedOut : ∀ v ∈ U, ∀ r, AL.get pre v = some r → r ∉ A0

/-- The allocator invariant at a point of the backward walk.  `V`: values seen so far (they all
have a register), `L`: values live at this point, `Tie a`: the in/out ties seen so far hold in `a`
(a register that is neither from the pool nor new is forced by pre-assignment + ties). -/
structure Inv (c : Cfg) (pre : AL ValId Reg) (A0 : List Reg) (Zc : List ValId)
    (Tie : (ValId → Reg) → Prop) (s : St) (V L : List ValId) : Prop where
  ext : ∀ v r, AL.get pre v = some r → AL.get s.asg v = some r
  allocd : ∀ v ∈ V, (AL.get s.asg v).isSome = true
  only : ∀ v, (AL.get s.asg v).isSome = true → (AL.get pre v).isSome = true ∨ v ∈ V
  liveSub : ∀ v ∈ L, v ∈ V
  /-- no two live values share a register -/
  pw : PW c.z (allocOf s.asg) L
  /-- available ∩ live-assigned = ∅ -/
  notAvail : ∀ v ∈ L, allocOf s.asg v ∉ s.avail
  nodup : s.avail.Nodup
  /-- only pool registers and already created infinite registers are on the stack -/
  availOk : ∀ r : Nat, r ∈ s.avail → r ∈ A0 ∨ (c.infBase ≤ r ∧ r < c.infBase + s.nextInf)
  tbl : s.allocatable = A0
  infFresh : ∀ (v : ValId) (r : Nat), AL.get s.asg v = some r → c.infBase ≤ r → r < c.infBase + s.nextInf
  /-- where the register of a value that was not pre-assigned comes from -/
  origin : ∀ (v : ValId) (r : Nat), AL.get s.asg v = some r → AL.get pre v = none →
    r ∈ A0 ∨ c.infBase ≤ r ∨ (c.z = true ∧ r = 0 ∧ v ∈ Zc)
    ∨ (∀ a : ValId → Reg, (∀ v r, AL.get pre v = some r → a v = r) → Tie a → a v = r)

theorem allocOf_of_get {asg : AL ValId Reg} {v : ValId} {r : Reg} (h : AL.get asg v = some r) :
    allocOf asg v = r := by simp [allocOf, h]

theorem get_of_isSome {asg : AL ValId Reg} {v : ValId} (h : (AL.get asg v).isSome = true) :
    AL.get asg v = some (allocOf asg v) := by
  cases hg : AL.get asg v with
  | none => rw [hg] at h; simp at h
  | some r => simp [allocOf, hg]

theorem allocOf_set_ne {asg : AL ValId Reg} {v w : ValId} {r : Reg} (h : w ≠ v) :
    allocOf (AL.set asg v r) w = allocOf asg w := by
  simp [allocOf, AL.get_set, h]

theorem allocOf_set_eq {asg : AL ValId Reg} {v : ValId} {r : Reg} :
    allocOf (AL.set asg v r) v = r := by
  simp [allocOf, AL.get_set]

theorem Inv.mono {c : Cfg} {pre : AL ValId Reg} {A0 : List Reg} {Zc : List ValId}
    {Tie : (ValId → Reg) → Prop} {s : St}
    {V V2 L L2 : List ValId} (h : Inv c pre A0 Zc Tie s V L)
    (hV : ∀ v, v ∈ V ↔ v ∈ V2) (hL : ∀ v ∈ L2, v ∈ L) : Inv c pre A0 Zc Tie s V2 L2 where
  ext := h.ext
  allocd := fun v hv => h.allocd v ((hV v).2 hv)
  only := fun v hv => (h.only v hv).imp id (hV v).1
  liveSub := fun v hv => (hV v).1 (h.liveSub v (hL v hv))
  pw := fun v hv w hw => h.pw v (hL v hv) w (hL w hw)
  notAvail := fun v hv => h.notAvail v (hL v hv)
  nodup := h.nodup
  availOk := h.availOk
  tbl := h.tbl
  infFresh := h.infFresh
  origin := h.origin

theorem Inv.monoTie {c : Cfg} {pre : AL ValId Reg} {A0 : List Reg} {Zc : List ValId}
    {Tie Tie2 : (ValId → Reg) → Prop} {s : St} {V L : List ValId} (h : Inv c pre A0 Zc Tie s V L)
    (hT : ∀ a, Tie2 a → Tie a) : Inv c pre A0 Zc Tie2 s V L :=
  { h with
    origin := fun v r hv hp => by
      rcases h.origin v r hv hp with h1 | h1 | h1 | h1
      · exact Or.inl h1
      · exact Or.inr (Or.inl h1)
      · exact Or.inr (Or.inr (Or.inl h1))
      · exact Or.inr (Or.inr (Or.inr fun a ha hT2 => h1 a ha (hT a hT2))) }

/-! ### `allocate_value` -/

theorem pop_cases {c : Cfg} {s s' : St} {r : Nat} (h : pop c s = .ok (r, s')) :
    s'.asg = s.asg ∧ s'.allocatable = s.allocatable ∧
    ((s.avail = r :: s'.avail ∧ s'.nextInf = s.nextInf)
     ∨ (s.avail = [] ∧ s'.avail = [] ∧ r = c.infBase + s.nextInf ∧ s'.nextInf = s.nextInf + 1)) := by
  unfold pop at h
  split at h
  · rename_i r0 rest hav
    simp only [Except.ok.injEq, Prod.mk.injEq] at h
    obtain ⟨h1, h2⟩ := h
    subst h1; subst h2
    exact ⟨rfl, rfl, Or.inl ⟨hav, rfl⟩⟩
  · rename_i hav
    split at h
    · simp only [Except.ok.injEq, Prod.mk.injEq] at h
      obtain ⟨h1, h2⟩ := h
      subst h1; subst h2
      exact ⟨rfl, rfl, Or.inr ⟨hav, hav, rfl, rfl⟩⟩
    · exact absurd h (by simp)

theorem allocValue_cases {c : Cfg} {Zc : List ValId} {s s' : St} {v : ValId}
    (h : allocValue c Zc s v = .ok s') :
    ((AL.get s.asg v).isSome = true ∧ s' = s) ∨
    (AL.get s.asg v = none ∧ ∃ r : Nat, s'.asg = AL.set s.asg v r ∧ s'.allocatable = s.allocatable ∧
      ((c.z = true ∧ v ∈ Zc ∧ r = 0 ∧ s'.avail = s.avail ∧ s'.nextInf = s.nextInf)
       ∨ (s.avail = r :: s'.avail ∧ s'.nextInf = s.nextInf)
       ∨ (s.avail = [] ∧ s'.avail = [] ∧ r = c.infBase + s.nextInf ∧ s'.nextInf = s.nextInf + 1))) := by
  unfold allocValue at h
  split at h
  · rename_i hs
    simp only [Except.ok.injEq] at h
    exact Or.inl ⟨hs, h.symm⟩
  · rename_i hs
    have hnone : AL.get s.asg v = none := by
      cases hg : AL.get s.asg v with
      | none => rfl
      | some r => rw [hg] at hs; simp at hs
    right
    refine ⟨hnone, ?_⟩
    split at h
    · rename_i hz
      simp only [Except.ok.injEq] at h
      subst h
      simp at hz
      exact ⟨0, rfl, rfl, Or.inl ⟨hz.1, hz.2, rfl, rfl, rfl⟩⟩
    · split at h
      · exact absurd h (by simp)
      · rename_i r s1 hp
        simp only [Except.ok.injEq] at h
        subst h
        obtain ⟨h1, h2, h3⟩ := pop_cases hp
        refine ⟨r, ?_, h2, ?_⟩
        · simp [h1]
        · rcases h3 with h3 | h3
          · exact Or.inr (Or.inl h3)
          · exact Or.inr (Or.inr h3)

/-- `allocate_value` of a value that is live from here on (an operand, a returned value) -/
theorem inv_allocValue_live {c : Cfg} {pre : AL ValId Reg} {A0 : List Reg} {Zc U : List ValId}
    {Tie : (ValId → Reg) → Prop}
    {s s' : St} {V M T : List ValId} {v : ValId} {a0 : ValId → Reg}
    (hst : Static c pre A0 U) (hinv : Inv c pre A0 Zc Tie s V M) (hvU : v ∈ U)
    (h : allocValue c Zc s v = .ok s')
    (hVM : v ∈ V → v ∈ M)
    (hext0 : ∀ v r, AL.get pre v = some r → a0 v = r) (hTie0 : Tie a0)
    (ha0 : PW c.z a0 T) (hMT : ∀ w ∈ M, w ∈ T) (hvT : v ∈ T) :
    Inv c pre A0 Zc Tie s' (v :: V) (v :: M) := by
  rcases allocValue_cases h with ⟨hsome, hss⟩ | ⟨hnone, r, hasg, htbl, hcase⟩
  · -- already has a register
    rw [hss]
    by_cases hvM : v ∈ M
    · exact { hinv with
        allocd := fun w hw => by
          rcases List.mem_cons.1 hw with rfl | hw
          · exact hsome
          · exact hinv.allocd w hw
        only := fun w hw => (hinv.only w hw).imp id (List.mem_cons_of_mem _)
        liveSub := fun w hw => by
          rcases List.mem_cons.1 hw with rfl | hw
          · exact List.mem_cons_self ..
          · exact List.mem_cons_of_mem _ (hinv.liveSub w hw)
        pw := fun x hx y hy => by
          have hx' : x ∈ M := by rcases List.mem_cons.1 hx with rfl | hx <;> assumption
          have hy' : y ∈ M := by rcases List.mem_cons.1 hy with rfl | hy <;> assumption
          exact hinv.pw x hx' y hy'
        notAvail := fun x hx => by
          have hx' : x ∈ M := by rcases List.mem_cons.1 hx with rfl | hx <;> assumption
          exact hinv.notAvail x hx' }
    · -- then it is a pre-assigned value seen for the first time
      have hvV : v ∉ V := fun hv => hvM (hVM hv)
      have hpre : (AL.get pre v).isSome = true := (hinv.only v hsome).resolve_right hvV
      obtain ⟨rv, hrv⟩ := Option.isSome_iff_exists.1 hpre
      have halloc : allocOf s.asg v = rv := allocOf_of_get (hinv.ext v rv hrv)
      have hrvA0 : rv ∉ A0 := hst.usedOut v hvU rv hrv
      have hrvLt := hst.preLt v rv hrv
      -- a clash of `v` with a live `w`
      have hclash : ∀ w ∈ M, allocOf s.asg w = rv → (c.z = true ∧ rv = 0) := by
        intro w hw heq
        have hwne : w ≠ v := fun e => hvM (e ▸ hw)
        cases hpw : AL.get pre w with
        | some rw =>
          have hw2 : allocOf s.asg w = rw := allocOf_of_get (hinv.ext w rw hpw)
          have := ha0 w (hMT w hw) v hvT hwne (by rw [hext0 w rw hpw, hext0 v rv hrv, ← hw2, heq])
          rw [hext0 w rw hpw, ← hw2, heq] at this
          exact this
        | none =>
          have hg := get_of_isSome (hinv.allocd w (hinv.liveSub w hw))
          rcases hinv.origin w _ hg hpw with h1 | h1 | h1 | h1
          · rw [heq] at h1; exact absurd h1 hrvA0
          · rw [heq] at h1; omega
          · rw [heq] at h1; exact ⟨h1.1, h1.2.1⟩
          · have hw0 := h1 a0 hext0 hTie0
            rw [heq] at hw0
            have := ha0 w (hMT w hw) v hvT hwne (by rw [hw0, hext0 v rv hrv])
            rw [hw0] at this
            exact this
      exact { hinv with
        allocd := fun w hw => by
          rcases List.mem_cons.1 hw with rfl | hw
          · exact hsome
          · exact hinv.allocd w hw
        only := fun w hw => (hinv.only w hw).imp id (List.mem_cons_of_mem _)
        liveSub := fun w hw => by
          rcases List.mem_cons.1 hw with rfl | hw
          · exact List.mem_cons_self ..
          · exact List.mem_cons_of_mem _ (hinv.liveSub w hw)
        pw := fun x hx y hy hne heq => by
          rcases List.mem_cons.1 hx with hxv | hx <;> rcases List.mem_cons.1 hy with hyv | hy
          · exact absurd (hxv.trans hyv.symm) hne
          · rw [hxv, halloc] at heq ⊢
            exact hclash y hy heq.symm
          · rw [hyv, halloc] at heq
            have := hclash x hx heq
            exact ⟨this.1, heq ▸ this.2⟩
          · exact hinv.pw x hx y hy hne heq
        notAvail := fun x hx => by
          rcases List.mem_cons.1 hx with hxv | hx
          · rw [hxv, halloc]
            intro hmem
            rcases hinv.availOk rv hmem with h1 | h1
            · exact hrvA0 h1
            · omega
          · exact hinv.notAvail x hx }
  · -- gets a register now
    have hvV : v ∉ V := fun hv => by
      have := hinv.allocd v hv
      rw [hnone] at this; simp at this
    have hvM : v ∉ M := fun hv => hvV (hinv.liveSub v hv)
    have hne : ∀ w ∈ M, w ≠ v := fun w hw e => hvM (e ▸ hw)
    have hsame : ∀ w, w ≠ v → allocOf s'.asg w = allocOf s.asg w := by
      intro w hw; rw [hasg]; exact allocOf_set_ne hw
    have hnew : allocOf s'.asg v = r := by rw [hasg]; exact allocOf_set_eq
    have hget : ∀ w, AL.get s'.asg w = if w = v then some r else AL.get s.asg w := by
      intro w; rw [hasg, AL.get_set]
    have hprev : AL.get pre v = none := by
      cases hp : AL.get pre v with
      | none => rfl
      | some rp => have := hinv.ext v rp hp; rw [hnone] at this; simp at this
    have hext : ∀ w rw, AL.get pre w = some rw → AL.get s'.asg w = some rw := by
      intro w rw hw
      have hwv : w ≠ v := fun e => by rw [e, hprev] at hw; simp at hw
      rw [hget, if_neg hwv]; exact hinv.ext w rw hw
    have hallocd : ∀ w ∈ v :: V, (AL.get s'.asg w).isSome = true := by
      intro w hw
      rw [hget]
      split
      · rfl
      · rcases List.mem_cons.1 hw with hwv | hw
        · rename_i hn; exact absurd hwv hn
        · exact hinv.allocd w hw
    have honly : ∀ w, (AL.get s'.asg w).isSome = true → (AL.get pre w).isSome = true ∨ w ∈ v :: V := by
      intro w hw
      by_cases hwv : w = v
      · exact Or.inr (hwv ▸ List.mem_cons_self ..)
      · rw [hget, if_neg hwv] at hw
        exact (hinv.only w hw).imp id (List.mem_cons_of_mem _)
    have hlive : ∀ w ∈ v :: M, w ∈ v :: V := by
      intro w hw
      rcases List.mem_cons.1 hw with rfl | hw
      · exact List.mem_cons_self ..
      · exact List.mem_cons_of_mem _ (hinv.liveSub w hw)
    rcases hcase with ⟨hz, hvZ, hr0, hav, hni⟩ | ⟨hav, hni⟩ | ⟨hav, hav', hr, hni⟩
    · -- constant zero: the zero register
      subst hr0
      exact {
        ext := hext, allocd := hallocd, only := honly, liveSub := hlive
        pw := fun x hx y hy hne' heq => by
          rcases List.mem_cons.1 hx with hxv | hx <;> rcases List.mem_cons.1 hy with hyv | hy
          · exact absurd (hxv.trans hyv.symm) hne'
          · rw [hxv, hnew]; exact ⟨hz, rfl⟩
          · rw [hyv, hnew] at heq; exact ⟨hz, heq⟩
          · rw [hsame x (hne x hx), hsame y (hne y hy)] at heq
            rw [hsame x (hne x hx)]
            exact hinv.pw x hx y hy hne' heq
        notAvail := fun x hx => by
          rw [hav]
          rcases List.mem_cons.1 hx with hxv | hx
          · rw [hxv, hnew]
            intro hmem
            rcases hinv.availOk 0 hmem with h1 | h1
            · exact hst.zeroNotAlloc hz h1
            · have := hst.basePos hz; omega
          · rw [hsame x (hne x hx)]; exact hinv.notAvail x hx
        nodup := hav ▸ hinv.nodup
        availOk := fun r' hr' => by rw [hav] at hr'; rw [hni]; exact hinv.availOk r' hr'
        tbl := htbl.trans hinv.tbl
        infFresh := fun w rw hw hge => by
          rw [hni]
          rw [hget] at hw
          split at hw
          · simp only [Option.some.injEq] at hw
            have := hst.basePos hz; omega
          · exact hinv.infFresh w rw hw hge
        origin := fun w rw hw hp => by
          rw [hget] at hw
          split at hw
          · rename_i hwv
            simp only [Option.some.injEq] at hw
            exact Or.inr (Or.inr (Or.inl ⟨hz, hw.symm, hwv ▸ hvZ⟩))
          · exact hinv.origin w rw hw hp }
    · -- popped from the stack
      have hrmem : r ∈ s.avail := by rw [hav]; exact List.mem_cons_self ..
      have hnd := hinv.nodup
      rw [hav] at hnd
      have hr_notin : r ∉ s'.avail := (List.nodup_cons.1 hnd).1
      have hsub : ∀ x ∈ s'.avail, x ∈ s.avail := fun x hx => by rw [hav]; exact List.mem_cons_of_mem _ hx
      have hfresh : ∀ w ∈ M, allocOf s.asg w ≠ r := fun w hw e => hinv.notAvail w hw (e ▸ hrmem)
      exact {
        ext := hext, allocd := hallocd, only := honly, liveSub := hlive
        pw := fun x hx y hy hne' heq => by
          rcases List.mem_cons.1 hx with hxv | hx <;> rcases List.mem_cons.1 hy with hyv | hy
          · exact absurd (hxv.trans hyv.symm) hne'
          · rw [hxv, hnew, hsame y (hne y hy)] at heq
            exact absurd heq.symm (hfresh y hy)
          · rw [hyv, hnew, hsame x (hne x hx)] at heq
            exact absurd heq (hfresh x hx)
          · rw [hsame x (hne x hx), hsame y (hne y hy)] at heq
            rw [hsame x (hne x hx)]
            exact hinv.pw x hx y hy hne' heq
        notAvail := fun x hx => by
          rcases List.mem_cons.1 hx with hxv | hx
          · rw [hxv, hnew]; exact hr_notin
          · rw [hsame x (hne x hx)]
            exact fun hm => hinv.notAvail x hx (hsub _ hm)
        nodup := (List.nodup_cons.1 hnd).2
        availOk := fun r' hr' => by rw [hni]; exact hinv.availOk r' (hsub r' hr')
        tbl := htbl.trans hinv.tbl
        infFresh := fun w rw hw hge => by
          rw [hni]
          rw [hget] at hw
          split at hw
          · simp only [Option.some.injEq] at hw
            subst hw
            rcases hinv.availOk r hrmem with h1 | h1
            · have := hst.allocLt r h1; omega
            · exact h1.2
          · exact hinv.infFresh w rw hw hge
        origin := fun w rw hw hp => by
          rw [hget] at hw
          split at hw
          · simp only [Option.some.injEq] at hw
            subst hw
            rcases hinv.availOk r hrmem with h1 | h1
            · exact Or.inl h1
            · exact Or.inr (Or.inl h1.1)
          · exact hinv.origin w rw hw hp }
    · -- a new infinite register
      have hfresh : ∀ w ∈ M, allocOf s.asg w ≠ r := by
        intro w hw e
        have hg := get_of_isSome (hinv.allocd w (hinv.liveSub w hw))
        have := hinv.infFresh w _ hg (by rw [e, hr]; omega)
        rw [e, hr] at this; omega
      exact {
        ext := hext, allocd := hallocd, only := honly, liveSub := hlive
        pw := fun x hx y hy hne' heq => by
          rcases List.mem_cons.1 hx with hxv | hx <;> rcases List.mem_cons.1 hy with hyv | hy
          · exact absurd (hxv.trans hyv.symm) hne'
          · rw [hxv, hnew, hsame y (hne y hy)] at heq
            exact absurd heq.symm (hfresh y hy)
          · rw [hyv, hnew, hsame x (hne x hx)] at heq
            exact absurd heq (hfresh x hx)
          · rw [hsame x (hne x hx), hsame y (hne y hy)] at heq
            rw [hsame x (hne x hx)]
            exact hinv.pw x hx y hy hne' heq
        notAvail := fun x _ => by rw [hav']; simp
        nodup := by rw [hav']; exact List.nodup_nil
        availOk := fun r' hr' => by rw [hav'] at hr'; simp at hr'
        tbl := htbl.trans hinv.tbl
        infFresh := fun w rw hw hge => by
          rw [hni]
          rw [hget] at hw
          split at hw
          · simp only [Option.some.injEq] at hw
            omega
          · have := hinv.infFresh w rw hw hge; omega
        origin := fun w rw hw hp => by
          rw [hget] at hw
          split at hw
          · simp only [Option.some.injEq] at hw
            exact Or.inr (Or.inl (by omega))
          · exact hinv.origin w rw hw hp }

end Xdsl.RegAlloc

namespace Xdsl.RegAlloc
open Xdsl.RegMachine

/-! ### in/out pairs: `allocate_values_same_reg` -/

/-- the invariant looks at the assignment only through `AL.get` -/
theorem Inv.congr {c : Cfg} {pre : AL ValId Reg} {A0 : List Reg} {Zc : List ValId}
    {Tie : (ValId → Reg) → Prop} {s s2 : St} {V L : List ValId} (h : Inv c pre A0 Zc Tie s V L)
    (hasg : ∀ v, AL.get s2.asg v = AL.get s.asg v) (hav : s2.avail = s.avail)
    (htbl : s2.allocatable = s.allocatable) (hni : s2.nextInf = s.nextInf) :
    Inv c pre A0 Zc Tie s2 V L := by
  have hal : ∀ v, allocOf s2.asg v = allocOf s.asg v := fun v => by simp [allocOf, hasg v]
  exact {
    ext := fun v r hv => by rw [hasg]; exact h.ext v r hv
    allocd := fun v hv => by rw [hasg]; exact h.allocd v hv
    only := fun v hv => h.only v (by rw [← hasg]; exact hv)
    liveSub := h.liveSub
    pw := fun v hv w hw hne heq => by
      rw [hal v, hal w] at heq; rw [hal v]; exact h.pw v hv w hw hne heq
    notAvail := fun v hv => by rw [hal v, hav]; exact h.notAvail v hv
    nodup := hav ▸ h.nodup
    availOk := fun r hr => by rw [hni]; exact h.availOk r (hav ▸ hr)
    tbl := htbl.trans h.tbl
    infFresh := fun v r hv hge => by rw [hni]; exact h.infFresh v r (by rw [← hasg]; exact hv) hge
    origin := fun v r hv hp => h.origin v r (by rw [← hasg]; exact hv) hp }

theorem Inv.addV {c : Cfg} {pre : AL ValId Reg} {A0 : List Reg} {Zc : List ValId}
    {Tie : (ValId → Reg) → Prop} {s : St} {V L : List ValId} {i : ValId}
    (h : Inv c pre A0 Zc Tie s V L) (hi : (AL.get s.asg i).isSome = true) :
    Inv c pre A0 Zc Tie s (i :: V) L :=
  { h with
    allocd := fun v hv => by
      rcases List.mem_cons.1 hv with rfl | hv
      · exact hi
      · exact h.allocd v hv
    only := fun v hv => (h.only v hv).imp id (List.mem_cons_of_mem _)
    liveSub := fun v hv => List.mem_cons_of_mem _ (h.liveSub v hv) }

/-- the in/out operand `i` receives the register of its partner `d`; it is not live yet -/
theorem inv_set_dead {c : Cfg} {pre : AL ValId Reg} {A0 : List Reg} {Zc : List ValId}
    {Tie : (ValId → Reg) → Prop} {s : St} {V M : List ValId} {i d : ValId} {r : Nat}
    (hinv : Inv c pre A0 Zc Tie s V M) (hz : c.z = false)
    (hi : AL.get s.asg i = none) (hd : AL.get s.asg d = some r)
    (hforce : ∀ a, Tie a → a i = a d) :
    Inv c pre A0 Zc Tie { s with asg := AL.set s.asg i r } (i :: V) M := by
  have hiV : i ∉ V := fun hv => by have := hinv.allocd i hv; rw [hi] at this; simp at this
  have hiM : i ∉ M := fun hv => hiV (hinv.liveSub i hv)
  have hne : ∀ w ∈ M, w ≠ i := fun w hw e => hiM (e ▸ hw)
  have hget : ∀ w, AL.get (AL.set s.asg i r) w = if w = i then some r else AL.get s.asg w := by
    intro w; rw [AL.get_set]
  have hsame : ∀ w, w ≠ i → allocOf (AL.set s.asg i r) w = allocOf s.asg w :=
    fun w hw => allocOf_set_ne hw
  have hprei : AL.get pre i = none := by
    cases hp : AL.get pre i with
    | none => rfl
    | some rp => have := hinv.ext i rp hp; rw [hi] at this; simp at this
  exact {
    ext := fun w rw hw => by
      have hwi : w ≠ i := fun e => by rw [e, hprei] at hw; simp at hw
      simp only [hget, if_neg hwi]; exact hinv.ext w rw hw
    allocd := fun w hw => by
      simp only [hget]
      split
      · rfl
      · rcases List.mem_cons.1 hw with hwi | hw
        · rename_i hn; exact absurd hwi hn
        · exact hinv.allocd w hw
    only := fun w hw => by
      by_cases hwi : w = i
      · exact Or.inr (hwi ▸ List.mem_cons_self ..)
      · simp only [hget, if_neg hwi] at hw
        exact (hinv.only w hw).imp id (List.mem_cons_of_mem _)
    liveSub := fun w hw => List.mem_cons_of_mem _ (hinv.liveSub w hw)
    pw := fun x hx y hy hne' heq => by
      simp only [hsame x (hne x hx), hsame y (hne y hy)] at heq ⊢
      exact hinv.pw x hx y hy hne' heq
    notAvail := fun x hx => by
      simp only [hsame x (hne x hx)]; exact hinv.notAvail x hx
    nodup := hinv.nodup
    availOk := hinv.availOk
    tbl := hinv.tbl
    infFresh := fun w rw hw hge => by
      simp only [hget] at hw
      split at hw
      · simp only [Option.some.injEq] at hw
        subst hw
        exact hinv.infFresh d r hd hge
      · exact hinv.infFresh w rw hw hge
    origin := fun w rw hw hp => by
      simp only [hget] at hw
      split at hw
      · rename_i hwi
        simp only [Option.some.injEq] at hw
        subst hw
        subst hwi
        cases hpd : AL.get pre d with
        | some rd =>
          have := hinv.ext d rd hpd
          rw [hd] at this
          simp only [Option.some.injEq] at this
          refine Or.inr (Or.inr (Or.inr fun a ha hT => ?_))
          rw [hforce a hT, ha d rd hpd, this]
        | none =>
          rcases hinv.origin d r hd hpd with h1 | h1 | h1 | h1
          · exact Or.inl h1
          · exact Or.inr (Or.inl h1)
          · rw [hz] at h1; exact absurd h1.1 (by simp)
          · exact Or.inr (Or.inr (Or.inr fun a ha hT => by rw [hforce a hT]; exact h1 a ha hT))
      · exact hinv.origin w rw hw hp }

/-- the in/out result `d` receives the register of its (pre-assigned) operand `i` and holds it -/
theorem inv_set_live_from {c : Cfg} {pre : AL ValId Reg} {A0 : List Reg} {Zc U : List ValId}
    {Tie : (ValId → Reg) → Prop} {s : St} {V M T : List ValId} {i d : ValId} {r : Nat}
    {a0 : ValId → Reg}
    (hst : Static c pre A0 U) (hinv : Inv c pre A0 Zc Tie s V M) (hz : c.z = false)
    (hd : AL.get s.asg d = none) (hi : AL.get s.asg i = some r) (hiU : i ∈ U)
    (hiVM : i ∈ V → i ∈ M) (hforce : ∀ a, Tie a → a i = a d)
    (hext0 : ∀ v r, AL.get pre v = some r → a0 v = r) (hTie0 : Tie a0)
    (ha0 : PW c.z a0 T) (hMT : ∀ w ∈ M, w ∈ T) (hdT : d ∈ T) :
    Inv c pre A0 Zc Tie { s with asg := AL.set s.asg d r } (d :: V) (d :: M) := by
  have hdV : d ∉ V := fun hv => by have := hinv.allocd d hv; rw [hd] at this; simp at this
  have hdM : d ∉ M := fun hv => hdV (hinv.liveSub d hv)
  have hne : ∀ w ∈ M, w ≠ d := fun w hw e => hdM (e ▸ hw)
  have hid : i ≠ d := fun e => by rw [e, hd] at hi; simp at hi
  have ha0id : a0 i = a0 d := hforce a0 hTie0
  -- `i` is not live, hence pre-assigned
  have hiM : i ∉ M := by
    intro hm
    have := ha0 i (hMT i hm) d hdT hid ha0id
    rw [hz] at this; exact absurd this.1 (by simp)
  have hiV : i ∉ V := fun hv => hiM (hiVM hv)
  have hiS : (AL.get s.asg i).isSome = true := by rw [hi]; rfl
  have hprei : (AL.get pre i).isSome = true := (hinv.only i hiS).resolve_right hiV
  obtain ⟨ri, hri⟩ := Option.isSome_iff_exists.1 hprei
  have hrr : ri = r := by
    have := hinv.ext i ri hri; rw [hi] at this; simp only [Option.some.injEq] at this; exact this.symm
  subst hrr
  have hrA0 : ri ∉ A0 := hst.usedOut i hiU ri hri
  have hrLt := hst.preLt i ri hri
  have hfresh : ∀ w ∈ M, allocOf s.asg w ≠ ri := by
    intro w hw heq
    have hwd : w ≠ d := hne w hw
    have hcontra : ∀ (h0 : a0 w = ri), False := by
      intro h0
      have := ha0 w (hMT w hw) d hdT hwd (by rw [h0, ← ha0id, hext0 i ri hri])
      rw [hz] at this; exact absurd this.1 (by simp)
    cases hpw : AL.get pre w with
    | some rw =>
      have hw2 : allocOf s.asg w = rw := allocOf_of_get (hinv.ext w rw hpw)
      exact hcontra (by rw [hext0 w rw hpw, ← hw2, heq])
    | none =>
      have hg := get_of_isSome (hinv.allocd w (hinv.liveSub w hw))
      rcases hinv.origin w _ hg hpw with h1 | h1 | h1 | h1
      · rw [heq] at h1; exact hrA0 h1
      · rw [heq] at h1; omega
      · rw [hz] at h1; exact absurd h1.1 (by simp)
      · exact hcontra (by rw [h1 a0 hext0 hTie0, heq])
  have hget : ∀ w, AL.get (AL.set s.asg d ri) w = if w = d then some ri else AL.get s.asg w := by
    intro w; rw [AL.get_set]
  have hsame : ∀ w, w ≠ d → allocOf (AL.set s.asg d ri) w = allocOf s.asg w :=
    fun w hw => allocOf_set_ne hw
  have hnew : allocOf (AL.set s.asg d ri) d = ri := allocOf_set_eq
  have hpred : AL.get pre d = none := by
    cases hp : AL.get pre d with
    | none => rfl
    | some rp => have := hinv.ext d rp hp; rw [hd] at this; simp at this
  exact {
    ext := fun w rw hw => by
      have hwd : w ≠ d := fun e => by rw [e, hpred] at hw; simp at hw
      simp only [hget, if_neg hwd]; exact hinv.ext w rw hw
    allocd := fun w hw => by
      simp only [hget]
      split
      · rfl
      · rcases List.mem_cons.1 hw with hwd | hw
        · rename_i hn; exact absurd hwd hn
        · exact hinv.allocd w hw
    only := fun w hw => by
      by_cases hwd : w = d
      · exact Or.inr (hwd ▸ List.mem_cons_self ..)
      · simp only [hget, if_neg hwd] at hw
        exact (hinv.only w hw).imp id (List.mem_cons_of_mem _)
    liveSub := fun w hw => by
      rcases List.mem_cons.1 hw with rfl | hw
      · exact List.mem_cons_self ..
      · exact List.mem_cons_of_mem _ (hinv.liveSub w hw)
    pw := fun x hx y hy hne' heq => by
      rcases List.mem_cons.1 hx with hxd | hx <;> rcases List.mem_cons.1 hy with hyd | hy
      · exact absurd (hxd.trans hyd.symm) hne'
      · simp only [hxd, hnew, hsame y (hne y hy)] at heq
        exact absurd heq.symm (hfresh y hy)
      · simp only [hyd, hnew, hsame x (hne x hx)] at heq
        exact absurd heq (hfresh x hx)
      · simp only [hsame x (hne x hx), hsame y (hne y hy)] at heq ⊢
        exact hinv.pw x hx y hy hne' heq
    notAvail := fun x hx => by
      rcases List.mem_cons.1 hx with hxd | hx
      · simp only [hxd, hnew]
        intro hmem
        rcases hinv.availOk ri hmem with h1 | h1
        · exact hrA0 h1
        · omega
      · simp only [hsame x (hne x hx)]; exact hinv.notAvail x hx
    nodup := hinv.nodup
    availOk := hinv.availOk
    tbl := hinv.tbl
    infFresh := fun w rw hw hge => by
      simp only [hget] at hw
      split at hw
      · simp only [Option.some.injEq] at hw
        subst hw
        omega
      · exact hinv.infFresh w rw hw hge
    origin := fun w rw hw hp => by
      simp only [hget] at hw
      split at hw
      · rename_i hwd
        simp only [Option.some.injEq] at hw
        subst hw
        subst hwd
        refine Or.inr (Or.inr (Or.inr fun a ha hT => ?_))
        rw [← hforce a hT, ha i ri hri]
      · exact hinv.origin w rw hw hp }

end Xdsl.RegAlloc
