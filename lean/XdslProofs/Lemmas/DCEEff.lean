import XdslModel.DCE
/-!
Lemmas for C13: `RecursiveMemoryEffect.get_effects` (`effAll`) is the union over EVERY operation that
sits directly in a block of a region of the operation — whatever the index of the region, of the block
in the region and of the operation in the block — and is unknown as soon as one of them is unknown.
-/
namespace Xdsl.DCE

/-- the operation cells directly in the sequence: of an operation list its members, of a block list
the members of every block, of a region list the members of every block of every region (operations
nested below one of these are not listed) -/
def directCells : T → List (Hdr × T)
  | .nil => []
  | .op h rs next => (h, rs) :: directCells next
  | .block ops next => directCells ops ++ directCells next
  | .region bs next => directCells bs ++ directCells next

theorem effAll_op {h : Hdr} {rs next : T} {es : List EffI} :
    effAll (.op h rs next) = some es ↔
      ∃ a b, opEff h (effAll rs) = some a ∧ effAll next = some b ∧ es = a ++ b := by
  cases h1 : opEff h (effAll rs) <;> cases h2 : effAll next <;> simp [effAll, h1, h2, eq_comm]

theorem effAll_block {ops next : T} {es : List EffI} :
    effAll (.block ops next) = some es ↔
      ∃ a b, effAll ops = some a ∧ effAll next = some b ∧ es = a ++ b := by
  cases h1 : effAll ops <;> cases h2 : effAll next <;> simp [effAll, h1, h2, eq_comm]

theorem effAll_region {bs next : T} {es : List EffI} :
    effAll (.region bs next) = some es ↔
      ∃ a b, effAll bs = some a ∧ effAll next = some b ∧ es = a ++ b := by
  cases h1 : effAll bs <;> cases h2 : effAll next <;> simp [effAll, h1, h2, eq_comm]

/-- known effects: every direct child has known effects, all of them counted -/
theorem effAll_some_children (t : T) : ∀ es, effAll t = some es →
    ∀ c ∈ directCells t, ∃ ce, opEff c.1 (effAll c.2) = some ce ∧ ∀ e ∈ ce, e ∈ es := by
  induction t with
  | nil => intro es _ c hc; simp [directCells] at hc
  | op h rs next _ ihn =>
    intro es hes c hc
    obtain ⟨a, b, ha, hb, rfl⟩ := effAll_op.mp hes
    simp only [directCells, List.mem_cons] at hc
    rcases hc with rfl | hc
    · exact ⟨a, ha, fun e he => List.mem_append_left _ he⟩
    · obtain ⟨ce, h1, h2⟩ := ihn b hb c hc
      exact ⟨ce, h1, fun e he => List.mem_append_right _ (h2 e he)⟩
  | block ops next iho ihn =>
    intro es hes c hc
    obtain ⟨a, b, ha, hb, rfl⟩ := effAll_block.mp hes
    simp only [directCells, List.mem_append] at hc
    rcases hc with hc | hc
    · obtain ⟨ce, h1, h2⟩ := iho a ha c hc
      exact ⟨ce, h1, fun e he => List.mem_append_left _ (h2 e he)⟩
    · obtain ⟨ce, h1, h2⟩ := ihn b hb c hc
      exact ⟨ce, h1, fun e he => List.mem_append_right _ (h2 e he)⟩
  | region bs next ihb ihn =>
    intro es hes c hc
    obtain ⟨a, b, ha, hb, rfl⟩ := effAll_region.mp hes
    simp only [directCells, List.mem_append] at hc
    rcases hc with hc | hc
    · obtain ⟨ce, h1, h2⟩ := ihb a ha c hc
      exact ⟨ce, h1, fun e he => List.mem_append_left _ (h2 e he)⟩
    · obtain ⟨ce, h1, h2⟩ := ihn b hb c hc
      exact ⟨ce, h1, fun e he => List.mem_append_right _ (h2 e he)⟩

/-- nothing else is counted: every effect of the union comes from a direct child -/
theorem effAll_some_origin (t : T) : ∀ es, effAll t = some es →
    ∀ e ∈ es, ∃ c ∈ directCells t, ∃ ce, opEff c.1 (effAll c.2) = some ce ∧ e ∈ ce := by
  induction t with
  | nil => intro es hes e he; simp [effAll] at hes; subst hes; simp at he
  | op h rs next _ ihn =>
    intro es hes e he
    obtain ⟨a, b, ha, hb, rfl⟩ := effAll_op.mp hes
    rcases List.mem_append.mp he with he | he
    · exact ⟨(h, rs), by simp [directCells], a, ha, he⟩
    · obtain ⟨c, hc, ce, h1, h2⟩ := ihn b hb e he
      exact ⟨c, by simp [directCells, hc], ce, h1, h2⟩
  | block ops next iho ihn =>
    intro es hes e he
    obtain ⟨a, b, ha, hb, rfl⟩ := effAll_block.mp hes
    rcases List.mem_append.mp he with he | he
    · obtain ⟨c, hc, ce, h1, h2⟩ := iho a ha e he
      exact ⟨c, by simp [directCells, hc], ce, h1, h2⟩
    · obtain ⟨c, hc, ce, h1, h2⟩ := ihn b hb e he
      exact ⟨c, by simp [directCells, hc], ce, h1, h2⟩
  | region bs next ihb ihn =>
    intro es hes e he
    obtain ⟨a, b, ha, hb, rfl⟩ := effAll_region.mp hes
    rcases List.mem_append.mp he with he | he
    · obtain ⟨c, hc, ce, h1, h2⟩ := ihb a ha e he
      exact ⟨c, by simp [directCells, hc], ce, h1, h2⟩
    · obtain ⟨c, hc, ce, h1, h2⟩ := ihn b hb e he
      exact ⟨c, by simp [directCells, hc], ce, h1, h2⟩

theorem effAll_block_none {ops next : T} :
    effAll (.block ops next) = none ↔ effAll ops = none ∨ effAll next = none := by
  cases h1 : effAll ops <;> cases h2 : effAll next <;> simp [effAll, h1, h2]

theorem effAll_region_none {bs next : T} :
    effAll (.region bs next) = none ↔ effAll bs = none ∨ effAll next = none := by
  cases h1 : effAll bs <;> cases h2 : effAll next <;> simp [effAll, h1, h2]

theorem effAll_op_none {h : Hdr} {rs next : T} :
    effAll (.op h rs next) = none ↔ opEff h (effAll rs) = none ∨ effAll next = none := by
  cases h1 : opEff h (effAll rs) <;> cases h2 : effAll next <;> simp [effAll, h1, h2]

/-- unknown exactly when one direct child is unknown -/
theorem effAll_none_iff (t : T) :
    effAll t = none ↔ ∃ c ∈ directCells t, opEff c.1 (effAll c.2) = none := by
  induction t with
  | nil => simp [effAll, directCells]
  | op h rs next _ ihn =>
    rw [effAll_op_none, ihn]
    simp only [directCells, List.mem_cons]
    constructor
    · rintro (h1 | ⟨c, hc, h1⟩)
      · exact ⟨(h, rs), Or.inl rfl, h1⟩
      · exact ⟨c, Or.inr hc, h1⟩
    · rintro ⟨c, rfl | hc, h1⟩
      · exact Or.inl h1
      · exact Or.inr ⟨c, hc, h1⟩
  | block ops next iho ihn =>
    rw [effAll_block_none, iho, ihn]
    simp only [directCells, List.mem_append]
    constructor
    · rintro (⟨c, hc, h1⟩ | ⟨c, hc, h1⟩)
      · exact ⟨c, Or.inl hc, h1⟩
      · exact ⟨c, Or.inr hc, h1⟩
    · rintro ⟨c, hc | hc, h1⟩
      · exact Or.inl ⟨c, hc, h1⟩
      · exact Or.inr ⟨c, hc, h1⟩
  | region bs next ihb ihn =>
    rw [effAll_region_none, ihb, ihn]
    simp only [directCells, List.mem_append]
    constructor
    · rintro (⟨c, hc, h1⟩ | ⟨c, hc, h1⟩)
      · exact ⟨c, Or.inl hc, h1⟩
      · exact ⟨c, Or.inr hc, h1⟩
    · rintro ⟨c, hc | hc, h1⟩
      · exact Or.inl ⟨c, hc, h1⟩
      · exact Or.inr ⟨c, hc, h1⟩

end Xdsl.DCE
