import XdslProofs.Lemmas.BV
namespace Xdsl.C15

/-- the signed range of a `w`-bit integer type -/
def InSignedRange (w : Nat) (r : Int) : Prop := -(2 : Int) ^ (w - 1) ≤ r ∧ r < (2 : Int) ^ (w - 1)

theorem toInt_inRange {w : Nat} (x : BitVec w) : InSignedRange w x.toInt :=
  ⟨BitVec.le_toInt x, BitVec.toInt_lt⟩

/-- a value in the signed range of a narrower type is in the signed range of a wider one -/
theorem inSignedRange_mono {wi w : Nat} (h : wi ≤ w) {r : Int} (hr : InSignedRange wi r) :
    InSignedRange w r := by
  have hle : (2 : Int) ^ (wi - 1) ≤ 2 ^ (w - 1) := by
    have : (2 : Nat) ^ (wi - 1) ≤ 2 ^ (w - 1) := Nat.pow_le_pow_right (by omega) (by omega)
    exact_mod_cast this
  obtain ⟨h1, h2⟩ := hr
  exact ⟨by omega, by omega⟩

/-- Python's `abs(l) // abs(r)` with the sign fix-up used by `run_divsi`/`run_remsi` is truncating
division. -/
theorem pydiv_eq_tdiv (l r : Int) (hr : r ≠ 0) :
    (if (decide (l > 0) != decide (r > 0)) = true
      then -(Py.floordiv (Py.abs l) (Py.abs r)) else Py.floordiv (Py.abs l) (Py.abs r))
    = Int.tdiv l r := by
  have habs : ∀ x : Int, Py.abs x = if x < 0 then -x else x := fun x => rfl
  rcases Int.lt_trichotomy l 0 with hl | hl | hl <;> rcases Int.lt_trichotomy r 0 with hr' | hr' | hr'
  all_goals try (exact absurd hr' hr)
  · -- l<0, r<0
    have h1 : decide (l > 0) = false := by simp; omega
    have h2 : decide (r > 0) = false := by simp; omega
    simp only [h1, h2, habs, hl, hr', if_true]
    rw [Py.floordiv_eq_ediv _ _ (by omega)]
    have : l.tdiv r = (-l).tdiv (-r) := by rw [Int.neg_tdiv, Int.tdiv_neg]; omega
    rw [this, Int.tdiv_eq_ediv_of_nonneg (by omega)]
    simp
  · -- l<0, r>0
    have h1 : decide (l > 0) = false := by simp; omega
    have h2 : decide (r > 0) = true := by simp; omega
    have hr2 : ¬ r < 0 := by omega
    simp only [h1, h2, habs, hl, hr2, if_true, if_false]
    rw [Py.floordiv_eq_ediv _ _ (by omega)]
    have : l.tdiv r = -((-l).tdiv r) := by rw [Int.neg_tdiv]; omega
    rw [this, Int.tdiv_eq_ediv_of_nonneg (by omega)]
    simp
  · -- l=0, r<0
    subst hl
    simp [habs, Py.floordiv, hr']
  · subst hl
    have hr2 : ¬ r < 0 := by omega
    simp [habs, Py.floordiv, hr2]
  · -- l>0, r<0
    have h1 : decide (l > 0) = true := by simp; omega
    have h2 : decide (r > 0) = false := by simp; omega
    have hl2 : ¬ l < 0 := by omega
    simp only [h1, h2, habs, hl2, hr', if_true, if_false]
    rw [Py.floordiv_eq_ediv _ _ (by omega)]
    have : l.tdiv r = -(l.tdiv (-r)) := by rw [Int.tdiv_neg]; omega
    rw [this, Int.tdiv_eq_ediv_of_nonneg (by omega)]
    simp
  · -- l>0, r>0
    have h1 : decide (l > 0) = true := by simp; omega
    have h2 : decide (r > 0) = true := by simp; omega
    have hl2 : ¬ l < 0 := by omega
    have hr2 : ¬ r < 0 := by omega
    simp only [h1, h2, habs, hl2, hr2, if_false]
    rw [Py.floordiv_eq_ediv _ _ (by omega), Int.tdiv_eq_ediv_of_nonneg (by omega)]
    simp

end Xdsl.C15
