import XdslProofs.Lemmas.X86Poly
/-!
The symbolic executor of `XdslModel.X86` abstracts the machine: invariant `Inv`, one-step
preservation, whole-run soundness, and soundness of the source polynomial.
-/
namespace Xdsl.X86

/-! ### machine state updates -/

@[simp] theorem setReg_reg (σ : St) (r : Nat) (v : W) (x : Nat) :
    (setReg σ r v).reg x = if x = r then v else σ.reg x := rfl
@[simp] theorem setReg_mem (σ : St) (r : Nat) (v : W) : (setReg σ r v).mem = σ.mem := rfl
@[simp] theorem setMem_reg (σ : St) (a v : W) : (setMem σ a v).reg = σ.reg := rfl
@[simp] theorem setMem_mem (σ : St) (a v : W) (x : W) :
    (setMem σ a v).mem x = if x = a then v else σ.mem x := rfl

/-! ### truncation is a ring homomorphism and forgets what `wr` adds -/

theorem trunc_wr (sz : Sz) (old v : W) : trunc sz (wr sz old v) = trunc sz v := by
  cases sz
  · rfl
  · simp [trunc, wr, Sz.bits]
  · simp only [trunc, wr, Sz.bits]; bv_omega
  · simp only [trunc, wr, Sz.bits]; bv_omega

theorem bits_le (sz : Sz) : sz.bits ≤ 64 := by cases sz <;> decide

theorem trunc_add (sz : Sz) (a b : W) : trunc sz (a + b) = trunc sz a + trunc sz b :=
  BitVec.setWidth_add a b (bits_le sz)

theorem trunc_mul (sz : Sz) (a b : W) : trunc sz (a * b) = trunc sz a * trunc sz b :=
  BitVec.setWidth_mul a b (bits_le sz)

theorem trunc_sub (sz : Sz) (a b : W) : trunc sz (a - b) = trunc sz a - trunc sz b := by
  have : trunc sz (a - b) + trunc sz b = trunc sz a := by
    unfold trunc
    rw [← BitVec.setWidth_add _ _ (bits_le sz)]
    congr 1
    bv_omega
  rw [← this]
  grind

theorem trunc_ofInt (sz : Sz) (c : Int) : trunc sz (BitVec.ofInt 64 c) = BitVec.ofInt sz.bits c := by
  cases sz
  · simp [trunc, Sz.bits]
  all_goals
    simp only [trunc, Sz.bits]
    apply BitVec.eq_of_toNat_eq
    simp [BitVec.toNat_ofInt]
    omega

/-! ### the abstraction invariant -/

/-- the SysV argument vector of the entry state, at the width of the function -/
def envOf (sz : Sz) (σ0 : St) : Nat → BitVec sz.bits := fun i => trunc sz (argOf σ0 i)

def stackSlot (σ0 : St) (j : Nat) : W := σ0.reg RSP + BitVec.ofNat 64 (8 * (j + 1))

structure Inv (sz : Sz) (nstack : Nat) (σ0 σ : St) (S : Sym) : Prop where
  rsp : σ.reg RSP = σ0.reg RSP - BitVec.ofNat 64 (8 * S.depth)
  depth : S.depth ≤ depthCap
  stack : ∀ j, j < nstack → σ.mem (stackSlot σ0 j) = σ0.mem (stackSlot σ0 j)
  regs : ∀ r p, S.reg r = some p → trunc sz (σ.reg r) = evalPoly (envOf sz σ0) p
  sp : S.reg RSP = none

theorem slotOf_some {nstack depth j : Nat} {k : Int} (h : slotOf nstack depth k = some j) :
    j < nstack ∧ k = 8 * (depth : Int) + 8 * ((j : Int) + 1) := by
  unfold slotOf at h
  simp at h
  omega

theorem load_addr (r : W) (d j : Nat) (k : Int) (h : k = 8 * (d : Int) + 8 * ((j : Int) + 1)) :
    r - BitVec.ofNat 64 (8 * d) + BitVec.ofInt 64 k = r + BitVec.ofNat 64 (8 * (j + 1)) := by
  subst h
  bv_omega

theorem push_addr_ne (r : W) (d j : Nat) (hd : d ≤ 4097) (hj : j < 4096) :
    r + BitVec.ofNat 64 (8 * (j + 1)) ≠ r - BitVec.ofNat 64 (8 * d) := by
  bv_omega

theorem sub8 (r : W) (d : Nat) :
    r - BitVec.ofNat 64 (8 * d) - 8 = r - BitVec.ofNat 64 (8 * (d + 1)) := by bv_omega

theorem add8 (r : W) (d : Nat) (h : 0 < d) (h2 : d ≤ 4096) :
    r - BitVec.ofNat 64 (8 * d) + 8 = r - BitVec.ofNat 64 (8 * (d - 1)) := by bv_omega

@[simp] theorem Sym.set_reg (S : Sym) (r : Nat) (p : Option Poly) (x : Nat) :
    (S.set r p).reg x = if x = r then p else S.reg x := rfl
@[simp] theorem Sym.set_depth (S : Sym) (r : Nat) (p : Option Poly) : (S.set r p).depth = S.depth := rfl

/-- writing a register other than `rsp` with a value described by `p` keeps the invariant -/
theorem Inv.setReg {sz : Sz} {nstack : Nat} {σ0 σ : St} {S : Sym} (I : Inv sz nstack σ0 σ S)
    (d : Nat) (hd : d ≠ RSP) (v : W) (p : Poly)
    (hv : trunc sz v = evalPoly (envOf sz σ0) p) :
    Inv sz nstack σ0 (setReg σ d v) (S.set d (some p)) := by
  have hd' : RSP ≠ d := fun h => hd h.symm
  refine ⟨?_, I.depth, ?_, ?_, ?_⟩
  · simp [hd', I.rsp]
  · intro j hj; simpa using I.stack j hj
  · intro r q hq
    by_cases hr : r = d
    · subst hr; simp at hq; subst hq; simpa using hv
    · simp [hr] at hq ⊢; exact I.regs r q hq
  · simp [hd', I.sp]

theorem symStep_sound {sz : Sz} {nstack : Nat} (hn : nstack ≤ stackArgCap) {σ0 σ : St} {S S' : Sym}
    (I : Inv sz nstack σ0 σ S) (i : Instr) (h : symStep sz nstack i S = some S') :
    Inv sz nstack σ0 (step i σ) S' := by
  cases i with
  | mov sz' d s =>
    simp only [symStep] at h
    split at h
    · next hc =>
      obtain ⟨rfl, hd⟩ := hc
      split at h
      · next p hp =>
        cases h
        exact I.setReg d hd _ p (by rw [trunc_wr]; exact I.regs s p hp)
      · cases h
    · cases h
  | movi sz' d imm =>
    simp only [symStep] at h
    split at h
    · next hc =>
      obtain ⟨rfl, hd⟩ := hc
      cases h
      exact I.setReg d hd _ _ (by rw [trunc_wr, trunc_ofInt]; simp)
    · cases h
  | load sz' d k =>
    simp only [symStep] at h
    split at h
    · next hc =>
      obtain ⟨rfl, hd⟩ := hc
      split at h
      · next j hj =>
        cases h
        obtain ⟨hjn, hk⟩ := slotOf_some hj
        refine I.setReg d hd _ _ ?_
        rw [trunc_wr]
        have ha : addr σ k = stackSlot σ0 j := by
          unfold addr stackSlot
          rw [I.rsp]
          exact load_addr _ _ _ _ hk
        rw [ha, I.stack j hjn]
        have h6 : ¬ (6 + j < 6) := by omega
        simp [envOf, argOf, stackSlot, h6]
      · cases h
    · cases h
  | store k s => simp [symStep] at h
  | alu op sz' d s =>
    simp only [symStep] at h
    split at h
    · next hc =>
      obtain ⟨rfl, hd⟩ := hc
      split at h
      · next p q hp hq =>
        have hp' := I.regs d p hp
        have hq' := I.regs s q hq
        cases op with
        | add =>
          cases h
          refine I.setReg d hd _ _ ?_
          rw [trunc_wr, evalPoly_pclean, evalPoly_padd, ← hp', ← hq']; simp [aluOp, trunc_add]
        | sub =>
          cases h
          refine I.setReg d hd _ _ ?_
          rw [trunc_wr, evalPoly_pclean, evalPoly_padd, evalPoly_pneg, ← hp', ← hq',
            ← BitVec.sub_eq_add_neg]
          simp [aluOp, trunc_sub]
        | imul =>
          simp only at h
          split at h
          · next r hr =>
            cases h
            refine I.setReg d hd _ _ ?_
            rw [trunc_wr, evalPoly_pmul? _ p q r hr, ← hp', ← hq']; simp [aluOp, trunc_mul]
          · cases h
        | and => cases h
        | or => cases h
        | xor => cases h
      · cases h
    · cases h
  | push s =>
    simp only [symStep] at h
    split at h
    · next hc =>
      cases h
      have hcap : S.depth < 4096 := hc
      have hcap' : nstack ≤ 4096 := hn
      have hrsp : σ.reg RSP - 8#64 = σ0.reg RSP - BitVec.ofNat 64 (8 * (S.depth + 1)) := by
        rw [I.rsp]; exact sub8 _ _
      refine ⟨?_, ?_, ?_, ?_, I.sp⟩
      · simp [step, hrsp]
      · simp only [depthCap] at *; omega
      · intro j hj
        have hne : stackSlot σ0 j ≠ σ.reg RSP - 8#64 := by
          rw [hrsp]
          exact push_addr_ne (σ0.reg RSP) (S.depth + 1) j (by omega) (by omega)
        simp [step, hne]; exact I.stack j hj
      · intro r p hp
        by_cases hr : r = RSP
        · subst hr; rw [I.sp] at hp; cases hp
        · simp [step, hr]; exact I.regs r p hp
    · cases h
  | pop d =>
    simp only [symStep] at h
    split at h
    · next hc =>
      obtain ⟨hd, hpos⟩ := hc
      cases h
      have hle := I.depth
      have hrsp : σ.reg RSP + 8#64 = σ0.reg RSP - BitVec.ofNat 64 (8 * (S.depth - 1)) := by
        rw [I.rsp]; exact add8 _ _ hpos (by simpa [depthCap] using hle)
      have hd' : RSP ≠ d := fun h => hd h.symm
      refine ⟨?_, ?_, ?_, ?_, ?_⟩
      · simp [step, hd', hrsp]
      · simp only [depthCap] at *; simp; omega
      · intro j hj; simpa [step] using I.stack j hj
      · intro r p hp
        by_cases hr : r = d
        · subst hr; simp at hp
        · simp [hr] at hp
          by_cases hr4 : r = RSP
          · subst hr4; rw [I.sp] at hp; cases hp
          · simp [step, hr, hr4]; exact I.regs r p hp
      · simp [hd', I.sp]
    · cases h
  | ret => simp only [symStep] at h; cases h; exact I
  | label => simp only [symStep] at h; cases h; exact I

/-! ### whole run -/

theorem symRun_sound {sz : Sz} {nstack : Nat} (hn : nstack ≤ stackArgCap) {σ0 : St} (a : List Instr) :
    ∀ {σ : St} {S : Sym} {p : Poly}, Inv sz nstack σ0 σ S → symRun sz nstack a S = some p →
      ∃ σ', run a σ = some σ' ∧ trunc sz (σ'.reg RAX) = evalPoly (envOf sz σ0) p := by
  induction a with
  | nil => intro σ S p _ h; simp [symRun] at h
  | cons i rest ih =>
    intro σ S p I h
    by_cases hi : i = .ret
    · subst hi
      simp only [symRun] at h
      refine ⟨retStep σ, by simp [run], ?_⟩
      have h0 : RAX ≠ RSP := by decide
      simp [retStep, h0]
      exact I.regs RAX p h
    · have hrun : run (i :: rest) σ = run rest (step i σ) := by
        cases i <;> first | rfl | exact absurd rfl hi
      have hsym : symRun sz nstack (i :: rest) S =
          match symStep sz nstack i S with
          | some S' => symRun sz nstack rest S'
          | none => none := by
        cases i <;> first | rfl | exact absurd rfl hi
      rw [hsym] at h
      split at h
      · next S' hS' =>
        rw [hrun]
        exact ih (symStep_sound hn I i hS') h
      · cases h

/-! ### entry state -/

theorem argIdx_argReg {r i : Nat} (h : argIdx r = some i) : i < 6 ∧ argReg i = r := by
  unfold argIdx at h
  split at h <;> simp at h <;> subst h <;> decide

theorem Inv_init (sz : Sz) (nstack nargs : Nat) (σ0 : St) : Inv sz nstack σ0 σ0 (symInit nargs) := by
  refine ⟨by simp [symInit], by simp [symInit, depthCap], fun _ _ => rfl, ?_, by simp [symInit, RSP, argIdx]⟩
  intro r p hp
  simp only [symInit] at hp
  split at hp
  · next i hi =>
    split at hp
    · cases hp
      obtain ⟨h6, hr⟩ := argIdx_argReg hi
      simp [envOf, argOf, h6, hr]
    · cases hp
  · cases hp

/-! ### source polynomial -/

/-- the polynomial list describes the value list (entries without polynomial are unconstrained) -/
def Rel {w : Nat} (env : Nat → BitVec w) (P : List (Option Poly)) (V : List (BitVec w)) : Prop :=
  P.length = V.length ∧ ∀ (i : Nat) (p : Poly), P[i]? = some (some p) → V[i]? = some (evalPoly env p)

theorem Rel.get {w : Nat} {env : Nat → BitVec w} {P : List (Option Poly)} {V : List (BitVec w)}
    (R : Rel env P V) {a : Nat} {x : Option Poly} (h : P[a]? = some x) :
    ∃ v, V[a]? = some v ∧ ∀ p, x = some p → v = evalPoly env p := by
  have ha : a < P.length := by
    rcases Nat.lt_or_ge a P.length with h' | h'
    · exact h'
    · have hn : P[a]? = none := by simp; exact h'
      rw [hn] at h; cases h
  have hv : a < V.length := R.1 ▸ ha
  refine ⟨V[a], List.getElem?_eq_getElem hv, ?_⟩
  intro p hp
  subst hp
  have := R.2 a p h
  rw [List.getElem?_eq_getElem hv] at this
  exact Option.some.inj this

theorem Rel.snoc {w : Nat} {env : Nat → BitVec w} {P : List (Option Poly)} {V : List (BitVec w)}
    (R : Rel env P V) (x : Option Poly) (v : BitVec w) (h : ∀ p, x = some p → v = evalPoly env p) :
    Rel env (P ++ [x]) (V ++ [v]) := by
  refine ⟨by simp [R.1], ?_⟩
  intro i p hi
  rcases Nat.lt_or_ge i P.length with hlt | hge
  · rw [List.getElem?_append_left hlt] at hi
    rw [List.getElem?_append_left (R.1 ▸ hlt)]
    exact R.2 i p hi
  · rw [List.getElem?_append_right hge] at hi
    rw [List.getElem?_append_right (R.1 ▸ hge), ← R.1]
    generalize i - P.length = k at hi ⊢
    cases k with
    | zero =>
      have hx : x = some p := by simpa using hi
      simp [h p hx]
    | succ k => simp at hi

theorem polyOps_sound {w : Nat} (env : Nat → BitVec w) (ops : List SOp) :
    ∀ (P P' : List (Option Poly)) (V : List (BitVec w)), Rel env P V → polyOps ops P = some P' →
      ∃ V', evalOps ops V = some V' ∧ Rel env P' V' := by
  induction ops with
  | nil => intro P P' V R h; simp [polyOps] at h; subst h; exact ⟨V, rfl, R⟩
  | cons o r ih =>
    intro P P' V R h
    cases o with
    | const c =>
      simp only [polyOps] at h
      simp only [evalOps]
      exact ih _ _ _ (R.snoc _ _ (by intro p hp; cases hp; simp)) h
    | add a b =>
      simp only [polyOps] at h
      split at h
      · next x y hx hy =>
        obtain ⟨va, hva, ha⟩ := R.get hx
        obtain ⟨vb, hvb, hb⟩ := R.get hy
        simp only [evalOps, hva, hvb]
        refine ih _ _ _ (R.snoc _ _ ?_) h
        intro p hp
        split at hp
        · next px py => cases hp; rw [evalPoly_pclean, evalPoly_padd, ← ha _ rfl, ← hb _ rfl]
        · cases hp
      · cases h
    | mul a b =>
      simp only [polyOps] at h
      split at h
      · next x y hx hy =>
        obtain ⟨va, hva, ha⟩ := R.get hx
        obtain ⟨vb, hvb, hb⟩ := R.get hy
        simp only [evalOps, hva, hvb]
        refine ih _ _ _ (R.snoc _ _ ?_) h
        intro p hp
        split at hp
        · next px py => rw [evalPoly_pmul? env px py p hp, ← ha _ rfl, ← hb _ rfl]
        · cases hp
      · cases h

theorem srcPoly_sound (s : Src) (env : Nat → BitVec s.sz.bits) (q : Poly) (h : srcPoly s = some q) :
    evalSrc s env = some (evalPoly env q) := by
  unfold srcPoly at h
  split at h
  · next vals hv =>
    have R0 : Rel env ((List.range s.nargs).map fun i => some (pvar i)) ((List.range s.nargs).map env) := by
      refine ⟨by simp, ?_⟩
      intro i p hi
      rw [List.getElem?_map] at hi
      rw [List.getElem?_map]
      cases hr : (List.range s.nargs)[i]? with
      | none => simp [hr] at hi
      | some k => simp [hr] at hi; subst hi; simp
    obtain ⟨V', hV', R'⟩ := polyOps_sound env s.ops _ _ _ R0 hv
    split at h
    · next q' hq =>
      subst h
      simp only [evalSrc, hV']
      exact R'.2 s.ret q hq
    · cases h
  · cases h

end Xdsl.X86
