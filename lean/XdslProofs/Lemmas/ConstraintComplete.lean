import XdslProofs.Lemmas.ConstraintDispatch
/-! `verify` succeeds whenever the declarative meaning holds (completeness), C09. -/
namespace Xdsl.Constraint

/-- the context agrees with the assignment on everything it binds -/
def Sub (ctx : Ctx) (σ : Asg) : Prop := ∀ n v, AL.get ctx n = some v → σ n = some v

/-- the `foldl` used for `ArrayOfConstraint` (one `verify` per element, threading the context) -/
abbrev foldStep (U : Univ) (c : C) : Option Ctx → Attr → Option Ctx :=
  fun r e => match r with | some x => verify U c e x | none => none

theorem foldl_none (U : Univ) (c : C) : ∀ es : List Attr, es.foldl (foldStep U c) none = none
  | [] => rfl
  | _ :: es => by simp [List.foldl, foldl_none U c es]

section
variable (U : Univ) (σ : Asg)

/-- statement proved by induction on the constraint -/
def CompleteAt (c : C) : Prop := ∀ a ctx, WF U c → sat U σ c a → Sub ctx σ →
    ∃ ctx', verify U c a ctx = some ctx' ∧ Sub ctx' σ

theorem verifyAll_complete (a : Attr) : ∀ cs, (∀ c ∈ cs, CompleteAt U σ c) → ∀ ctx, WFL U cs →
    satAll U σ cs a → Sub ctx σ → ∃ ctx', verifyAll U cs a ctx = some ctx' ∧ Sub ctx' σ
  | [], _, ctx, _, _, hs => ⟨ctx, by simp [verifyAll], hs⟩
  | c :: cs, ih, ctx, hw, h, hs => by
    simp only [WFL] at hw; simp only [satAll] at h
    obtain ⟨ctx1, h1, hs1⟩ := ih c (List.mem_cons_self ..) a ctx hw.1 h.1 hs
    obtain ⟨ctx2, h2, hs2⟩ := verifyAll_complete a cs (fun c' hc' => ih c' (List.mem_cons_of_mem _ hc')) ctx1 hw.2 h.2 hs1
    exact ⟨ctx2, by simp [verifyAll, h1, h2], hs2⟩

theorem verifyZip_complete : ∀ cs as, (∀ c ∈ cs, CompleteAt U σ c) → ∀ ctx, WFL U cs →
    satZip U σ cs as → Sub ctx σ → ∃ ctx', verifyZip U cs as ctx = some ctx' ∧ Sub ctx' σ
  | [], [], _, ctx, _, _, hs => ⟨ctx, by simp [verifyZip], hs⟩
  | [], _ :: _, _, _, _, h, _ => by simp [satZip] at h
  | _ :: _, [], _, _, _, h, _ => by simp [satZip] at h
  | c :: cs, a :: as, ih, ctx, hw, h, hs => by
    simp only [WFL] at hw; simp only [satZip] at h
    obtain ⟨ctx1, h1, hs1⟩ := ih c (List.mem_cons_self ..) a ctx hw.1 h.1 hs
    obtain ⟨ctx2, h2, hs2⟩ := verifyZip_complete cs as (fun c' hc' => ih c' (List.mem_cons_of_mem _ hc')) ctx1 hw.2 h.2 hs1
    exact ⟨ctx2, by simp [verifyZip, h1, h2], hs2⟩

theorem fold_complete (c : C) (ih : CompleteAt U σ c) (hw : WF U c) : ∀ (es : List Attr) ctx, (∀ e ∈ es, sat U σ c e) →
    Sub ctx σ → ∃ ctx', es.foldl (foldStep U c) (some ctx) = some ctx' ∧ Sub ctx' σ
  | [], ctx, _, hs => ⟨ctx, rfl, hs⟩
  | e :: es, ctx, h, hs => by
    obtain ⟨ctx1, h1, hs1⟩ := ih e ctx hw (h e (List.mem_cons_self ..)) hs
    obtain ⟨ctx2, h2, hs2⟩ := fold_complete c ih hw es ctx1 (fun e' he' => h e' (List.mem_cons_of_mem _ he')) hs1
    exact ⟨ctx2, by simp only [List.foldl, foldStep, h1]; exact h2, hs2⟩

theorem verify_complete (hU : UnivOK U) : ∀ c, CompleteAt U σ c := by
  intro c
  induction c using C.ind with
  | any => intro a ctx _ _ hs; exact ⟨ctx, rfl, hs⟩
  | eq b =>
    intro a ctx _ h hs
    simp only [sat] at h; subst h
    exact ⟨ctx, by simp [verify], hs⟩
  | set vs =>
    intro a ctx _ h hs
    simp only [sat] at h
    exact ⟨ctx, by simp [verify, (memA_iff a vs).2 h], hs⟩
  | base d =>
    intro a ctx _ h hs
    simp only [sat] at h
    exact ⟨ctx, by simp [verify, h], hs⟩
  | anyOf cs ih =>
    intro a ctx hw h hs
    simp only [WF] at hw
    simp only [sat] at h
    obtain ⟨c, hc, hsat⟩ := (satAny_iff U σ a cs).1 h
    have hwc := (WFL_iff U cs).1 hw.2 c hc
    obtain ⟨k, hk1, hk2⟩ := select_complete U cs hw.1 c hc a.cls
      (fun b hb => bases_sat U hU σ c a b hwc hsat hb)
      (fun d hd => by subst hd; simpa [sat] using hsat)
    obtain ⟨ctx', h1, h2⟩ := ih c hc a ctx hwc hsat hs
    exact ⟨ctx', by simp only [verify, hk1]; rw [verifyNth_eq U a ctx cs k c hk2]; exact h1, h2⟩
  | allOf cs ih =>
    intro a ctx hw h hs
    simp only [WF] at hw; simp only [sat] at h
    obtain ⟨ctx', h1, h2⟩ := verifyAll_complete U σ a cs ih ctx hw h hs
    exact ⟨ctx', by simp only [verify]; exact h1, h2⟩
  | param d ps ih =>
    intro a ctx hw h hs
    simp only [WF] at hw; simp only [sat] at h
    obtain ⟨hsub, hz⟩ := h
    cases a with
    | param ca as =>
      simp only at hz
      obtain ⟨ctx', h1, h2⟩ := verifyZip_complete U σ ps as ih ctx hw hz hs
      exact ⟨ctx', by simp only [verify, hsub, if_true]; exact h1, h2⟩
    | data _ _ => simp at hz
    | arr _ _ => simp at hz
  | var n c ih =>
    intro a ctx hw h hs
    simp only [WF] at hw; simp only [sat] at h
    simp only [verify]
    cases hg : AL.get ctx n with
    | some v =>
      have := hs n v hg
      rw [h.1] at this; cases this
      exact ⟨ctx, by simp, hs⟩
    | none =>
      obtain ⟨ctx1, h1, hs1⟩ := ih a ctx hw h.2 hs
      refine ⟨AL.set ctx1 n a, by simp [h1], ?_⟩
      intro m v hm
      rw [AL.get_set] at hm
      split at hm
      · rename_i e; subst e; cases hm; exact h.1
      · exact hs1 m v hm
  | msg n c ih => intro a ctx hw h hs; exact ih a ctx hw h hs
  | tvar n c ih => intro a ctx hw h hs; exact ih a ctx hw h hs
  | arrayOf k c ih =>
    intro a ctx hw h hs
    simp only [WF] at hw; simp only [sat] at h
    obtain ⟨hsub, hz⟩ := h
    cases a with
    | arr ca es =>
      simp only at hz
      obtain ⟨ctx', h1, h2⟩ := fold_complete U σ c ih hw.2 es ctx hz hs
      exact ⟨ctx', by simp only [verify, hsub, if_true]; exact h1, h2⟩
    | data _ _ => simp at hz
    | param _ _ => simp at hz

end

end Xdsl.Constraint
