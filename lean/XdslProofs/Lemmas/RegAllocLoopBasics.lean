import XdslModel.RegAllocLoop
import XdslProofs.Lemmas.AL
import XdslProofs.C19Stack
import XdslProofs.Lemmas.RegAllocMain
/-!
C19 (loops) helper lemmas, part 1: the primitives of the allocator for blocks with loops
(`XdslModel/RegAllocLoop.lean`): what each does to the assignment, to the register stack, to the
reservation counts and to the log of stack calls.
-/
namespace Xdsl.RegAllocLoop
open Xdsl.RegMachine Xdsl.RegAlloc

/-! ### `foldL` -/

theorem foldL_cons {α β : Type} (f : β → α → Except LErr β) (s : β) (a : α) (as : List α) :
    foldL f s (a :: as) = match f s a with | .error e => .error e | .ok s' => foldL f s' as := rfl

/-- a relation that every successful step establishes and that is reflexive and transitive holds
between the ends of a successful fold -/
theorem foldL_rel {α β : Type} (f : β → α → Except LErr β) (R : β → β → Prop)
    (hrefl : ∀ s, R s s) (htrans : ∀ a b c, R a b → R b c → R a c)
    (hstep : ∀ s a s', f s a = .ok s' → R s s') :
    ∀ (as : List α) (s s' : β), foldL f s as = .ok s' → R s s' := by
  intro as
  induction as with
  | nil => intro s s' h; simp only [foldL, Except.ok.injEq] at h; subst h; exact hrefl _
  | cons a as ih =>
    intro s s' h
    rw [foldL_cons] at h
    split at h
    · exact absurd h (by simp)
    · rename_i s1 hs1
      exact htrans _ _ _ (hstep _ _ _ hs1) (ih _ _ h)

theorem foldl_rel {α β : Type} (f : β → α → β) (R : β → β → Prop)
    (hrefl : ∀ s, R s s) (htrans : ∀ a b c, R a b → R b c → R a c)
    (hstep : ∀ s a, R s (f s a)) :
    ∀ (as : List α) (s : β), R s (as.foldl f s) := by
  intro as
  induction as with
  | nil => intro s; exact hrefl _
  | cons a as ih => intro s; exact htrans _ _ _ (hstep s a) (ih _)

/-! ### the assignment only grows -/

/-- every value keeps the register it has -/
def LExt (s s' : LSt) : Prop := ∀ v r, AL.get s.st.asg v = some r → AL.get s'.st.asg v = some r

theorem LExt.refl (s : LSt) : LExt s s := fun _ _ h => h

theorem LExt.trans {a b c : LSt} (h1 : LExt a b) (h2 : LExt b c) : LExt a c :=
  fun v r h => h2 v r (h1 v r h)

theorem pop_asg {c : Cfg} {s : St} {r : Reg} {s' : St} (h : pop c s = .ok (r, s')) : s'.asg = s.asg :=
  (pop_cases h).1

theorem popR_ok {c : Cfg} {s s' : LSt} {r : Reg} (h : popR c s = .ok (r, s')) :
    pop c s.st = .ok (r, s'.st) ∧ s'.reserved = s.reserved ∧ s.isReserved r = false
    ∧ s'.log = (.pop, .reg r) :: s.log := by
  unfold popR at h
  split at h
  · exact absurd h (by simp)
  · rename_i r0 st' hp
    split at h
    · exact absurd h (by simp)
    · rename_i hres
      simp only [Except.ok.injEq, Prod.mk.injEq] at h
      obtain ⟨h1, h2⟩ := h
      subst h1; subst h2
      exact ⟨hp, rfl, by simpa using hres, rfl⟩

theorem setReg_ext {s : LSt} {v : ValId} {r : Reg} (h : AL.get s.st.asg v = none) : LExt s (setReg s v r) := by
  intro w x hw
  have : w ≠ v := fun e => by rw [e, h] at hw; simp at hw
  simp [setReg, AL.get_set, this, hw]

theorem pushR_asg (c : Cfg) (s : LSt) (r : Reg) : (pushR c s r).st.asg = s.st.asg := by
  unfold pushR
  split
  · rfl
  · show (push c s.st r).asg = s.st.asg
    unfold push; split <;> rfl

theorem freeValueR_asg (c : Cfg) (s : LSt) (v : ValId) : (freeValueR c s v).st.asg = s.st.asg := by
  unfold freeValueR
  split
  · exact pushR_asg ..
  · rfl

theorem reserveR_asg (s : LSt) (r : Reg) : (reserveR s r).st.asg = s.st.asg := rfl

theorem unreserveR_asg {s s' : LSt} {r : Reg} (h : unreserveR s r = .ok s') : s'.st.asg = s.st.asg := by
  unfold unreserveR at h
  split at h
  · exact absurd h (by simp)
  · simp only [Except.ok.injEq] at h; subst h; rfl

theorem allocValueR_cases {x : Ctx} {s s' : LSt} {v : ValId} (h : allocValueR x s v = .ok s') :
    ((AL.get s.st.asg v).isSome = true ∧ s' = s)
    ∨ (AL.get s.st.asg v = none ∧
        ((x.c.z = true ∧ isZeroNow x.zi s.st.asg (x.zi.mvs.length + 1) v = true ∧ s' = setReg s v 0)
         ∨ ∃ r s1, popR x.c s = .ok (r, s1) ∧ s' = setReg s1 v r)) := by
  unfold allocValueR at h
  split at h
  · rename_i hs
    simp only [Except.ok.injEq] at h
    exact Or.inl ⟨hs, h.symm⟩
  · rename_i hs
    have hnone : AL.get s.st.asg v = none := by
      cases hg : AL.get s.st.asg v with
      | none => rfl
      | some r => rw [hg] at hs; simp at hs
    refine Or.inr ⟨hnone, ?_⟩
    split at h
    · rename_i hz
      simp only [Except.ok.injEq] at h
      simp only [Bool.and_eq_true] at hz
      exact Or.inl ⟨hz.1, hz.2, h.symm⟩
    · split at h
      · exact absurd h (by simp)
      · rename_i r s1 hp
        simp only [Except.ok.injEq] at h
        exact Or.inr ⟨r, s1, hp, h.symm⟩

theorem allocValueR_ext {x : Ctx} {s s' : LSt} {v : ValId} (h : allocValueR x s v = .ok s') : LExt s s' := by
  rcases allocValueR_cases h with ⟨_, rfl⟩ | ⟨hn, ⟨_, _, rfl⟩ | ⟨r, s1, hp, rfl⟩⟩
  · exact LExt.refl _
  · exact setReg_ext hn
  · obtain ⟨hp', _, _, _⟩ := popR_ok hp
    have hasg : s1.st.asg = s.st.asg := pop_asg hp'
    have h1 : LExt s s1 := fun w r hw => by rw [hasg]; exact hw
    exact h1.trans (setReg_ext (by rw [hasg]; exact hn))

theorem dedup_eq_nil {l : List Nat} (h : dedup l = []) : l = [] := by
  induction l with
  | nil => rfl
  | cons a r ih =>
    simp only [dedup] at h
    split at h
    · rename_i hc
      have := ih h
      subst this
      simp [dedup] at hc
    · exact absurd h (by simp)

theorem mem_dedup {l : List Nat} {a : Nat} : a ∈ dedup l ↔ a ∈ l := by
  induction l with
  | nil => simp [dedup]
  | cons b r ih =>
    simp only [dedup]
    split
    · rename_i hc
      simp only [List.contains_eq_mem, decide_eq_true_eq] at hc
      rw [ih, List.mem_cons]
      constructor
      · exact Or.inr
      · rintro (rfl | h)
        · exact ih.1 hc
        · exact h
    · rw [List.mem_cons, List.mem_cons, ih]

/-- setting unassigned values only -/
theorem foldl_setReg_ext (r : Reg) : ∀ (vals : List ValId) (s : LSt),
    LExt s (vals.foldl (fun t v => if (AL.get t.st.asg v).isSome then t else setReg t v r) s) := by
  intro vals
  induction vals with
  | nil => intro s; exact LExt.refl _
  | cons v vals ih =>
    intro s
    simp only [List.foldl_cons]
    split
    · exact ih _
    · rename_i hs
      have hn : AL.get s.st.asg v = none := by
        cases hg : AL.get s.st.asg v with
        | none => rfl
        | some r => rw [hg] at hs; simp at hs
      exact (setReg_ext hn).trans (ih _)

/-- the fresh-register branch of `allocate_values_same_reg` is the other one on a state in which no
value of the group has a register -/
theorem foldl_setReg_all (r : Reg) : ∀ (vals : List ValId) (s : LSt),
    vals.foldl (fun t v => setReg t v r) s
    = vals.foldl (fun t v => if (AL.get t.st.asg v).isSome then setReg t v r else setReg t v r) s := by
  intro vals s; simp

theorem setReg_setReg_ext {s : LSt} {v : ValId} {r : Reg} (w : ValId) (x : Reg)
    (hw : AL.get s.st.asg w = some x) (hne : w ≠ v) : AL.get (setReg s v r).st.asg w = some x := by
  simp [setReg, AL.get_set, hne, hw]

theorem foldl_setReg_get (r : Reg) : ∀ (vals : List ValId) (s : LSt) (w : ValId),
    AL.get (vals.foldl (fun t v => setReg t v r) s).st.asg w
    = if w ∈ vals then some r else AL.get s.st.asg w := by
  intro vals
  induction vals with
  | nil => intro s w; simp
  | cons v vals ih =>
    intro s w
    simp only [List.foldl_cons, ih, List.mem_cons]
    by_cases h1 : w ∈ vals
    · simp [h1]
    · by_cases h2 : w = v
      · subst h2; simp [h1, setReg, AL.get_set]
      · simp [h1, h2, setReg, AL.get_set]

theorem foldl_setReg_fields (r : Reg) : ∀ (vals : List ValId) (s : LSt),
    let s' := vals.foldl (fun t v => setReg t v r) s
    s'.st.avail = s.st.avail ∧ s'.st.allocatable = s.st.allocatable ∧ s'.st.nextInf = s.st.nextInf
    ∧ s'.reserved = s.reserved ∧ s'.log = s.log := by
  intro vals
  induction vals with
  | nil => intro s; exact ⟨rfl, rfl, rfl, rfl, rfl⟩
  | cons v vals ih => intro s; simp only [List.foldl_cons]; exact ih (setReg s v r)

theorem foldl_setRegIf_fields (r : Reg) : ∀ (vals : List ValId) (s : LSt),
    let s' := vals.foldl (fun t v => if (AL.get t.st.asg v).isSome then t else setReg t v r) s
    s'.st.avail = s.st.avail ∧ s'.st.allocatable = s.st.allocatable ∧ s'.st.nextInf = s.st.nextInf
    ∧ s'.reserved = s.reserved ∧ s'.log = s.log := by
  intro vals
  induction vals with
  | nil => intro s; exact ⟨rfl, rfl, rfl, rfl, rfl⟩
  | cons v vals ih =>
    intro s
    simp only [List.foldl_cons]
    split
    · exact ih s
    · exact ih (setReg s v r)

theorem foldl_setRegIf_get (r : Reg) : ∀ (vals : List ValId) (s : LSt) (w : ValId),
    AL.get (vals.foldl (fun t v => if (AL.get t.st.asg v).isSome then t else setReg t v r) s).st.asg w
    = match AL.get s.st.asg w with
      | some x => some x
      | none => if w ∈ vals then some r else none := by
  intro vals
  induction vals with
  | nil => intro s w; cases hg : AL.get s.st.asg w <;> simp [hg]
  | cons v vals ih =>
    intro s w
    simp only [List.foldl_cons]
    split
    · rename_i hs
      rw [ih]
      cases hg : AL.get s.st.asg w with
      | some x => rfl
      | none =>
        have : w ≠ v := fun e => by rw [e] at hg; rw [hg] at hs; simp at hs
        simp [this]
    · rename_i hs
      have hn : AL.get s.st.asg v = none := by
        cases hg : AL.get s.st.asg v with
        | none => rfl
        | some r => rw [hg] at hs; simp at hs
      rw [ih]
      by_cases hwv : w = v
      · subst hwv; simp [setReg, AL.get_set, hn]
      · simp [setReg, AL.get_set, hwv]

/-- the three outcomes of `allocate_values_same_reg` -/
theorem sameRegN_cases {x : Ctx} {s s' : LSt} {vals : List ValId} (h : sameRegN x s vals = .ok s') :
    (vals = [] ∧ s' = s)
    ∨ (vals ≠ [] ∧ (∀ v ∈ vals, AL.get s.st.asg v = none) ∧
        ∃ r s1, popR x.c s = .ok (r, s1) ∧ s' = vals.foldl (fun t v => setReg t v r) s1)
    ∨ (∃ r, (∃ v ∈ vals, AL.get s.st.asg v = some r) ∧ (∀ v ∈ vals, ∀ r', AL.get s.st.asg v = some r' → r' = r)
        ∧ s' = vals.foldl (fun t v => if (AL.get t.st.asg v).isSome then t else setReg t v r) s) := by
  unfold sameRegN at h
  split at h
  · rename_i hd
    have hnil := dedup_eq_nil hd
    have hnone : ∀ v ∈ vals, AL.get s.st.asg v = none := by
      intro v hv
      cases hg : AL.get s.st.asg v with
      | none => rfl
      | some r =>
        have : r ∈ vals.filterMap (AL.get s.st.asg) := List.mem_filterMap.2 ⟨v, hv, hg⟩
        rw [hnil] at this; simp at this
    split at h
    · rename_i hv
      simp only [Except.ok.injEq] at h
      exact Or.inl ⟨hv, h.symm⟩
    · rename_i hv
      split at h
      · exact absurd h (by simp)
      · rename_i r s1 hp
        simp only [Except.ok.injEq] at h
        exact Or.inr (Or.inl ⟨hv, hnone, r, s1, hp, h.symm⟩)
  · rename_i r hd
    simp only [Except.ok.injEq] at h
    refine Or.inr (Or.inr ⟨r, ?_, ?_, h.symm⟩)
    · have : r ∈ dedup (vals.filterMap (AL.get s.st.asg)) := by rw [hd]; simp
      obtain ⟨v, hv, hg⟩ := List.mem_filterMap.1 (mem_dedup.1 this)
      exact ⟨v, hv, hg⟩
    · intro v hv r' hg
      have : r' ∈ dedup (vals.filterMap (AL.get s.st.asg)) :=
        mem_dedup.2 (List.mem_filterMap.2 ⟨v, hv, hg⟩)
      rw [hd] at this
      simpa using this
  · exact absurd h (by simp)

theorem sameRegN_ext {x : Ctx} {s s' : LSt} {vals : List ValId} (h : sameRegN x s vals = .ok s') :
    LExt s s' := by
  rcases sameRegN_cases h with ⟨_, rfl⟩ | ⟨_, hnone, r, s1, hp, rfl⟩ | ⟨r, _, _, rfl⟩
  · exact LExt.refl _
  · obtain ⟨hp', _, _, _⟩ := popR_ok hp
    have hasg : s1.st.asg = s.st.asg := pop_asg hp'
    intro w xw hw
    rw [foldl_setReg_get]
    have : w ∉ vals := fun hm => by rw [hnone w hm] at hw; simp at hw
    simp [this, hasg, hw]
  · exact foldl_setReg_ext r vals s

theorem foldL_ext {α : Type} (f : LSt → α → Except LErr LSt)
    (hstep : ∀ s a s', f s a = .ok s' → LExt s s') (as : List α) (s s' : LSt)
    (h : foldL f s as = .ok s') : LExt s s' :=
  foldL_rel f LExt LExt.refl (fun _ _ _ => LExt.trans) hstep as s s' h

theorem lext_of_asg {s s' : LSt} (h : s'.st.asg = s.st.asg) : LExt s s' :=
  fun w r hw => by rw [h]; exact hw

theorem freeFold_asg (c : Cfg) : ∀ (vs : List ValId) (s : LSt),
    (vs.foldl (freeValueR c) s).st.asg = s.st.asg := by
  intro vs
  induction vs with
  | nil => intro s; rfl
  | cons v vs ih => intro s; simp only [List.foldl_cons]; rw [ih, freeValueR_asg]

theorem reserveFold_asg : ∀ (rs : List Reg) (s : LSt), (rs.foldl reserveR s).st.asg = s.st.asg := by
  intro rs
  induction rs with
  | nil => intro s; rfl
  | cons r rs ih => intro s; simp only [List.foldl_cons]; rw [ih, reserveR_asg]

theorem allocOpR_ext {x : Ctx} {s s' : LSt} {o : Op} (h : allocOpR x s o = .ok s') : LExt s s' := by
  unfold allocOpR at h
  split at h
  · exact absurd h (by simp)
  · rename_i s1 hs1
    split at h
    · exact absurd h (by simp)
    · rename_i s2 hs2
      have e1 := foldL_ext _ (fun s p s' hh => sameRegN_ext hh) _ _ _ hs1
      have e2 := foldL_ext _ (fun s v s' hh => allocValueR_ext hh) _ _ _ hs2
      have e3 : LExt s2 (o.outs.reverse.foldl (freeValueR x.c) s2) := lext_of_asg (freeFold_asg ..)
      have e4 := foldL_ext _ (fun s v s' hh => allocValueR_ext hh) _ _ _ h
      exact e1.trans (e2.trans (e3.trans e4))

/-- **The assignment only grows**: whatever `allocate_block` does to a block (with loops, at any
nesting depth), a value that has a register keeps it. -/
theorem allocT_ext (x : Ctx) : ∀ (t : LT) (s s' : LSt), allocT x s t = .ok s' → LExt s s' := by
  intro t
  induction t with
  | nil => intro s s' h; simp only [allocT, Except.ok.injEq] at h; subst h; exact LExt.refl _
  | op o next ih =>
    intro s s' h
    simp only [allocT] at h
    split at h
    · exact absurd h (by simp)
    · rename_i s1 hs1
      exact (ih _ _ hs1).trans (allocOpR_ext h)
  | loop hd body next ihb ihn =>
    intro s s' h
    simp only [allocT] at h
    split at h
    · exact absurd h (by simp)
    rename_i s1 hs1
    split at h
    · exact absurd h (by simp)
    rename_i s2 hs2
    split at h
    · exact absurd h (by simp)
    rename_i s3 hs3
    split at h
    · exact absurd h (by simp)
    rename_i s4 hs4
    split at h
    · exact absurd h (by simp)
    rename_i s5 hs5
    split at h
    · exact absurd h (by simp)
    rename_i s6 hs6
    have e1 := ihn _ _ hs1
    have e2 := foldL_ext _ (fun s v s' hh => allocValueR_ext hh) _ _ _ hs2
    have e3 := foldL_ext _ (fun s v s' hh => sameRegN_ext hh) _ _ _ hs3
    have e4 := foldL_ext _ (fun s v s' hh => allocValueR_ext hh) _ _ _ hs4
    have e5 : LExt s4 ((regsOf s4 hd.inits).foldl reserveR s4) := lext_of_asg (reserveFold_asg ..)
    have e6 := ihb _ _ hs5
    have e7 := foldL_ext _ (fun s r s' hh => lext_of_asg (unreserveR_asg hh)) _ _ _ hs6
    have e8 : LExt s6 ((optL hd.iv).foldl (freeValueR x.c) s6) := lext_of_asg (freeFold_asg ..)
    have e9 := foldL_ext _ (fun s v s' hh => allocValueR_ext hh) _ _ _ h
    exact e1.trans (e2.trans (e3.trans (e4.trans (e5.trans (e6.trans (e7.trans (e8.trans e9)))))))

end Xdsl.RegAllocLoop
