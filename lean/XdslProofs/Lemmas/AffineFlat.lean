import XdslProofs.Lemmas.AffineArith
import XdslProofs.Lemmas.AffineCtor
/-!
Invariants of the flattener model (`flat`, `visitDiv`, `visitMod`, `fromFlat`) for C26.
A row `(co, k)` over the locals `L` denotes `Σ coᵢ·xᵢ + k`, where `x` lists the values of the
dimensions, the symbols and the local expressions.
-/
namespace Xdsl.Affine

variable (ρd ρs : Nat → Int)

/-- values of the columns `[dims, symbols, locals]` -/
def colVals (nd ns : Nat) (L : List Expr) : List Int := (colExprs nd ns L).map (eval ρd ρs)

/-- the value a row denotes -/
def Row.val (r : Row) (vs : List Int) : Int := dot r.co vs + r.k

theorem Row.val_mk (co : List Int) (k : Int) (vs : List Int) :
    Row.val { co := co, k := k } vs = dot co vs + k := rfl

theorem length_colVals (nd ns : Nat) (L : List Expr) :
    (colVals ρd ρs nd ns L).length = nd + ns + L.length := by
  simp [colVals, colExprs]; omega

theorem colVals_append (nd ns : Nat) (L ext : List Expr) :
    colVals ρd ρs nd ns (L ++ ext) = colVals ρd ρs nd ns L ++ ext.map (eval ρd ρs) := by
  simp [colVals, colExprs]

theorem colVals_getD_dim {nd : Nat} (ns : Nat) (L : List Expr) {p : Nat} (h : p < nd) :
    (colVals ρd ρs nd ns L).getD p 0 = ρd p := by
  simp [colVals, colExprs, List.getD_eq_getElem?_getD, List.getElem?_append, h, eval]

theorem colVals_getD_sym (nd : Nat) {ns : Nat} (L : List Expr) {p : Nat} (h : p < ns) :
    (colVals ρd ρs nd ns L).getD (nd + p) 0 = ρs p := by
  have : ¬ (nd + p < nd) := by omega
  simp [colVals, colExprs, List.getD_eq_getElem?_getD, List.getElem?_append, h, eval, this]

theorem colVals_getD_local (nd ns : Nat) (L : List Expr) {i : Nat} (h : i < L.length) :
    (colVals ρd ρs nd ns L).getD (nd + ns + i) 0 = eval ρd ρs L[i] := by
  simp [colVals, colExprs, List.getD_eq_getElem?_getD, List.getElem?_append]
  have : ¬ (nd + ns + i < nd) := by omega
  have h2 : ¬ (nd + ns + i - nd < ns) := by omega
  have h3 : nd + ns + i - nd - ns = i := by omega
  simp [this, h2, h3, h]

/-! ### `from_flat_form` -/

theorem eval_foldl_terms (es : List Expr) (cs : List Int) (acc : Expr) :
    eval ρd ρs (((es.zip cs).filter (fun p => !decide (p.2 = 0))).foldl
        (fun acc p => mkAdd acc (mulC p.1 p.2)) acc)
      = eval ρd ρs acc + dot cs (es.map (eval ρd ρs)) := by
  induction es generalizing cs acc with
  | nil => simp
  | cons e es ih =>
    cases cs with
    | nil => simp
    | cons c cs =>
      by_cases hc : c = 0
      · simp [hc, ih]
      · simp [hc, ih, eval_mkAdd', eval_mulC]; rw [Int.mul_comm]; omega

theorem fromFlat_eval {nd ns : Nat} {L : List Expr} {row : Row} {e : Expr}
    (h : fromFlat nd ns L row = .ok e) :
    eval ρd ρs e = row.val (colVals ρd ρs nd ns L) := by
  unfold fromFlat at h
  split at h
  · cases h
  · simp only [pure, Except.pure, Except.ok.injEq] at h
    subst h
    unfold Row.val colVals
    simp only [ne_eq, decide_not]
    split
    · rw [eval_mkAdd', eval_foldl_terms]; simp [eval]
    · rename_i hk
      have : row.k = 0 := by simpa using hk
      rw [eval_foldl_terms]; simp [eval, this]

theorem fromFlat_ok {nd ns : Nat} {L : List Expr} {row : Row}
    (h : row.co.length = nd + ns + L.length) : ∃ e, fromFlat nd ns L row = .ok e := by
  unfold fromFlat
  simp [h, pure, Except.pure]

/-! ### rows -/

theorem Row.val_extend (r : Row) (vs ws : List Int) (h : r.co.length = vs.length) :
    (r.extend ws.length).val (vs ++ ws) = r.val vs := by
  simp [Row.val, Row.extend, dot_append _ _ h, dot_replicate_zero]

theorem Row.length_divBy (r : Row) (g : Int) : (r.divBy g).co.length = r.co.length := by
  unfold Row.divBy; split <;> simp

theorem Row.val_divBy (r : Row) (vs : List Int) {g : Int} (hg : 0 < g)
    (hco : ∀ l ∈ r.co, g ∣ l) (hk : g ∣ r.k) : g * (r.divBy g).val vs = r.val vs := by
  unfold Row.divBy
  split
  · simp only [Row.val, Int.mul_add]
    rw [dot_map_div vs hg hco, mul_pyFloorDiv_of_dvd hg hk]
  · rename_i h
    have : g = 1 := by simpa using h
    simp [this]

theorem idxOf?_some {L : List Expr} {e : Expr} {i : Nat} (h : L.idxOf? e = some i) :
    ∃ hi : i < L.length, L[i] = e := by
  unfold List.idxOf? at h
  obtain ⟨hi, hp, _⟩ := List.findIdx?_eq_some_iff_getElem.1 h
  exact ⟨hi, by simpa using hp⟩

theorem isConst_eq {e : Expr} (h : isConst e = true) : ∃ v, e = .const v := by
  cases e <;> simp [isConst] at h
  exact ⟨_, rfl⟩

theorem evalBin_one {isCeil : Bool} (v : Int) :
    evalBin (if isCeil then .ceildiv else .floordiv) v 1 = v := by
  have h := (pyFloorDiv_spec (a := v) (c := 1) (by omega) v).2 (by omega)
  have h' := (pyCeilDiv_spec (a := v) (c := 1) (by omega) v).2 (by omega)
  cases isCeil <;> simp [evalBin, h, h']

theorem evalBin_cancel {isCeil : Bool} {g v c : Int} (hg : 0 < g) (hc : 0 < c) :
    evalBin (if isCeil then .ceildiv else .floordiv) (g * v) (g * c)
      = evalBin (if isCeil then .ceildiv else .floordiv) v c := by
  cases isCeil <;> simp [evalBin, pyFloorDiv_cancel hg hc, pyCeilDiv_cancel hg hc]

/-- common arithmetic of `visit_div_expr` / `visit_mod_expr`: `c = g * (c // g)` with a positive quotient -/
theorem divisor_facts (row : Row) {c : Int} (hc : 0 < c) :
    let g : Int := (rowGcd row c : Nat)
    0 < g ∧ c = g * pyFloorDiv c g ∧ 0 < pyFloorDiv c g := by
  intro g
  have hg : 0 < g := rowGcd_pos row hc
  have h1 : g * pyFloorDiv c g = c := mul_pyFloorDiv_of_dvd hg (rowGcd_dvd_c row c)
  refine ⟨hg, h1.symm, ?_⟩
  by_cases h : 0 < pyFloorDiv c g
  · exact h
  · exfalso
    have : pyFloorDiv c g ≤ 0 := by omega
    have := Int.mul_le_mul_of_nonneg_left this (Int.le_of_lt hg)
    omega

/-- `visit_div_expr`: the pushed row denotes `⌊lhs / c⌋` (resp. `⌈lhs / c⌉`) -/
theorem visitDiv_spec {nd ns : Nat} {isCeil : Bool} {lhs rhs : Row} {rhsExpr : Expr}
    {L L' : List Expr} {row : Row}
    (h : visitDiv nd ns isCeil lhs rhs rhsExpr L = .ok (row, L'))
    (hlen : lhs.co.length = nd + ns + L.length) :
    (∃ ext, L' = L ++ ext) ∧ row.co.length = nd + ns + L'.length ∧ 0 < rhs.k ∧
      row.val (colVals ρd ρs nd ns L')
        = evalBin (if isCeil then .ceildiv else .floordiv) (lhs.val (colVals ρd ρs nd ns L)) rhs.k := by
  unfold visitDiv at h
  by_cases hk : (!isConst rhsExpr) = true
  · rw [if_pos hk] at h; cases h
  rw [if_neg hk] at h
  dsimp only at h
  by_cases hc0 : rhs.k ≤ 0
  · rw [if_pos hc0] at h; cases h
  rw [if_neg hc0] at h
  have hc : 0 < rhs.k := by omega
  obtain ⟨hg, hcg, hq⟩ := divisor_facts lhs hc
  have hval := Row.val_divBy lhs (colVals ρd ρs nd ns L) hg
    (fun l hl => rowGcd_dvd_co hl) (rowGcd_dvd_k lhs rhs.k)
  have key : evalBin (if isCeil then .ceildiv else .floordiv) (lhs.val (colVals ρd ρs nd ns L)) rhs.k
      = evalBin (if isCeil then .ceildiv else .floordiv)
          ((lhs.divBy ((rowGcd lhs rhs.k : Nat) : Int)).val (colVals ρd ρs nd ns L))
          (pyFloorDiv rhs.k ((rowGcd lhs rhs.k : Nat) : Int)) := by
    rw [← hval]
    conv => lhs; arg 3; rw [hcg]
    exact evalBin_cancel hg hq
  by_cases h1 : pyFloorDiv rhs.k ((rowGcd lhs rhs.k : Nat) : Int) = 1
  · -- divisor = 1
    rw [if_pos h1] at h
    simp only [pure, Except.pure, Except.ok.injEq, Prod.mk.injEq] at h
    obtain ⟨rfl, rfl⟩ := h
    refine ⟨⟨[], by simp⟩, by rw [Row.length_divBy]; exact hlen, hc, ?_⟩
    rw [key, h1, evalBin_one]
  · rw [if_neg h1] at h
    simp only [bind, Except.bind] at h
    cases ha : fromFlat nd ns L (lhs.divBy ((rowGcd lhs rhs.k : Nat) : Int)) with
    | error e => rw [ha] at h; cases h
    | ok a =>
      rw [ha] at h
      dsimp only at h
      cases hd : mkDiv (if isCeil = true then Kind.ceildiv else Kind.floordiv) a
          (Expr.const (pyFloorDiv rhs.k ((rowGcd lhs rhs.k : Nat) : Int))) with
      | error e => rw [hd] at h; cases h
      | ok divExpr =>
        rw [hd] at h
        dsimp only at h
        have hda := eval_mkDiv' ρd ρs hd
        rw [fromFlat_eval ρd ρs ha] at hda
        simp only [eval] at hda
        cases hloc : List.idxOf? divExpr L with
        | some loc =>
          rw [hloc] at h
          simp only [pure, Except.pure, Except.ok.injEq, Prod.mk.injEq] at h
          obtain ⟨rfl, rfl⟩ := h
          obtain ⟨hi, hLi⟩ := idxOf?_some hloc
          refine ⟨⟨[], by simp⟩, by simp [length_unitCo], hc, ?_⟩
          rw [Row.val_mk]
          rw [dot_unitCo _ _ _ (length_colVals ρd ρs nd ns L), colVals_getD_local ρd ρs nd ns L hi, hLi,
            key, ← hda]
          simp
        | none =>
          rw [hloc] at h
          simp only [pure, Except.pure, Except.ok.injEq, Prod.mk.injEq] at h
          obtain ⟨rfl, rfl⟩ := h
          refine ⟨⟨[divExpr], rfl⟩, by simp [length_unitCo]; omega, hc, ?_⟩
          rw [Row.val_mk]
          have hl : (colVals ρd ρs nd ns (L ++ [divExpr])).length = nd + ns + L.length + 1 := by
            simp [length_colVals]; omega
          rw [dot_unitCo _ _ _ hl,
            colVals_getD_local ρd ρs nd ns (L ++ [divExpr]) (i := L.length) (by simp), key, ← hda]
          simp

/-- `visit_mod_expr`: the pushed row denotes `lhs mod c` -/
theorem visitMod_spec {nd ns : Nat} {lhs rhs : Row} {rhsExpr : Expr}
    {L L' : List Expr} {row : Row}
    (h : visitMod nd ns lhs rhs rhsExpr L = .ok (row, L'))
    (hlen : lhs.co.length = nd + ns + L.length) :
    (∃ ext, L' = L ++ ext) ∧ row.co.length = nd + ns + L'.length ∧ 0 < rhs.k ∧
      row.val (colVals ρd ρs nd ns L') = pyMod (lhs.val (colVals ρd ρs nd ns L)) rhs.k := by
  unfold visitMod at h
  by_cases hk : (!isConst rhsExpr) = true
  · rw [if_pos hk] at h; cases h
  rw [if_neg hk] at h
  dsimp only at h
  by_cases hc0 : rhs.k ≤ 0
  · rw [if_pos hc0] at h; cases h
  rw [if_neg hc0] at h
  have hc : 0 < rhs.k := by omega
  by_cases hall : (lhs.co.all (fun l => pyMod l rhs.k == 0) && pyMod lhs.k rhs.k == 0) = true
  · rw [if_pos hall] at h
    simp only [pure, Except.pure, Except.ok.injEq, Prod.mk.injEq] at h
    obtain ⟨rfl, rfl⟩ := h
    refine ⟨⟨[], by simp⟩, by simpa using hlen, hc, ?_⟩
    simp only [Bool.and_eq_true, List.all_eq_true, beq_iff_eq] at hall
    have hd : rhs.k ∣ lhs.val (colVals ρd ρs nd ns L) :=
      Int.dvd_add (dot_dvd _ (fun l hl => dvd_of_pyMod_eq_zero hc (hall.1 l hl)))
        (dvd_of_pyMod_eq_zero hc hall.2)
    rw [pyMod_eq_zero_of_dvd hc hd, Row.val_mk, dot_map_zero]
    rfl
  · rw [if_neg hall] at h
    obtain ⟨hg, hcg, hq⟩ := divisor_facts lhs hc
    have hval := Row.val_divBy lhs (colVals ρd ρs nd ns L) hg
      (fun l hl => rowGcd_dvd_co hl) (rowGcd_dvd_k lhs rhs.k)
    have key : pyFloorDiv (lhs.val (colVals ρd ρs nd ns L)) rhs.k
        = pyFloorDiv ((lhs.divBy ((rowGcd lhs rhs.k : Nat) : Int)).val (colVals ρd ρs nd ns L))
            (pyFloorDiv rhs.k ((rowGcd lhs rhs.k : Nat) : Int)) := by
      rw [← hval]
      conv => lhs; arg 2; rw [hcg]
      exact pyFloorDiv_cancel hg hq
    simp only [bind, Except.bind] at h
    cases ha : fromFlat nd ns L (lhs.divBy ((rowGcd lhs rhs.k : Nat) : Int)) with
    | error e => rw [ha] at h; cases h
    | ok a =>
      rw [ha] at h
      dsimp only at h
      cases hd : mkDiv Kind.floordiv a
          (Expr.const (pyFloorDiv rhs.k ((rowGcd lhs rhs.k : Nat) : Int))) with
      | error e => rw [hd] at h; cases h
      | ok fde =>
        rw [hd] at h
        dsimp only at h
        have hda := eval_mkDiv' ρd ρs hd
        rw [fromFlat_eval ρd ρs ha] at hda
        simp only [eval, evalBin] at hda
        rw [← key] at hda
        cases hloc : List.idxOf? fde L with
        | none =>
          rw [hloc] at h
          simp only [pure, Except.pure, Except.ok.injEq, Prod.mk.injEq] at h
          obtain ⟨rfl, rfl⟩ := h
          refine ⟨⟨[fde], rfl⟩, by simp [hlen]; omega, hc, ?_⟩
          rw [Row.val_mk, colVals_append,
            dot_append _ _ (by rw [hlen, length_colVals]), pyMod_def, ← hda]
          simp [Row.val, Int.neg_mul]
          omega
        | some loc =>
          rw [hloc] at h
          simp only [pure, Except.pure, Except.ok.injEq, Prod.mk.injEq] at h
          obtain ⟨rfl, rfl⟩ := h
          obtain ⟨hi, hLi⟩ := idxOf?_some hloc
          refine ⟨⟨[], by simp⟩, by simp [hlen], hc, ?_⟩
          rw [Row.val_mk, dot_modify _ _ _ (by rw [hlen, length_colVals]) (by omega),
            colVals_getD_local ρd ρs nd ns L hi, hLi, pyMod_def, ← hda]
          simp [Row.val]
          omega

/-- The flattener invariant (`flatten_denotes`): the row left for `e` has one column per dimension,
symbol and local, the list of locals only grows, and the row denotes the value of `e` at every point. -/
theorem flat_spec {nd ns : Nat} (e : Expr) {L0 L1 : List Expr} {row : Row}
    (h : flat nd ns e L0 = .ok (row, L1)) :
    (∃ ext, L1 = L0 ++ ext) ∧ row.co.length = nd + ns + L1.length ∧
      ∀ ρd ρs, row.val (colVals ρd ρs nd ns L1) = eval ρd ρs e := by
  induction e generalizing L0 L1 row with
  | const v =>
    simp only [flat, pure, Except.pure, Except.ok.injEq, Prod.mk.injEq] at h
    obtain ⟨rfl, rfl⟩ := h
    exact ⟨⟨[], by simp⟩, by simp, fun ρd ρs => by simp [Row.val, dot_replicate_zero, eval]⟩
  | dim p =>
    simp only [flat] at h
    split at h
    · rename_i hp
      simp only [pure, Except.pure, Except.ok.injEq, Prod.mk.injEq] at h
      obtain ⟨rfl, rfl⟩ := h
      refine ⟨⟨[], by simp⟩, by simp [length_unitCo], fun ρd ρs => ?_⟩
      rw [Row.val_mk, dot_unitCo _ _ _ (length_colVals ρd ρs nd ns L0), colVals_getD_dim ρd ρs ns L0 hp]
      simp [eval]
    · cases h
  | sym p =>
    simp only [flat] at h
    split at h
    · rename_i hp
      simp only [pure, Except.pure, Except.ok.injEq, Prod.mk.injEq] at h
      obtain ⟨rfl, rfl⟩ := h
      refine ⟨⟨[], by simp⟩, by simp [length_unitCo], fun ρd ρs => ?_⟩
      rw [Row.val_mk, dot_unitCo _ _ _ (length_colVals ρd ρs nd ns L0), colVals_getD_sym ρd ρs nd L0 hp]
      simp [eval]
    · cases h
  | bin k l r ihl ihr =>
    simp only [flat, bind, Except.bind] at h
    cases hl : flat nd ns l L0 with
    | error e => rw [hl] at h; cases h
    | ok v1 =>
      obtain ⟨lr, La⟩ := v1
      rw [hl] at h
      dsimp only at h
      cases hr : flat nd ns r La with
      | error e => rw [hr] at h; cases h
      | ok v2 =>
        obtain ⟨rr, Lb⟩ := v2
        rw [hr] at h
        dsimp only at h
        obtain ⟨⟨ext1, rfl⟩, hlen1, hval1⟩ := ihl hl
        obtain ⟨⟨ext2, rfl⟩, hlen2, hval2⟩ := ihr hr
        have hsub : (L0 ++ ext1 ++ ext2).length - (L0 ++ ext1).length = ext2.length := by
          simp; omega
        rw [hsub] at h
        have hlen1' : (lr.extend ext2.length).co.length = nd + ns + (L0 ++ ext1 ++ ext2).length := by
          simp [Row.extend, hlen1]; omega
        have hval1' : ∀ ρd ρs, (lr.extend ext2.length).val (colVals ρd ρs nd ns (L0 ++ ext1 ++ ext2))
            = eval ρd ρs l := by
          intro ρd ρs
          rw [colVals_append, ← List.length_map (f := eval ρd ρs) (as := ext2), Row.val_extend, hval1]
          rw [hlen1, length_colVals]
        generalize lr.extend ext2.length = lr' at h hlen1' hval1'
        cases k with
        | add =>
          simp only [pure, Except.pure, Except.ok.injEq, Prod.mk.injEq] at h
          obtain ⟨rfl, rfl⟩ := h
          refine ⟨⟨ext1 ++ ext2, by simp⟩, by simp [hlen1', hlen2], fun ρd ρs => ?_⟩
          rw [Row.val_mk, dot_zipWith_add _ (by rw [hlen1', hlen2]), eval, evalBin, ← hval1' ρd ρs,
            ← hval2 ρd ρs]
          simp [Row.val]; omega
        | mul =>
          dsimp only at h
          by_cases hk : (!isConst r) = true
          · rw [if_pos hk] at h; cases h
          rw [if_neg hk] at h
          simp only [pure, Except.pure, Except.ok.injEq, Prod.mk.injEq] at h
          obtain ⟨rfl, rfl⟩ := h
          obtain ⟨v, rfl⟩ := isConst_eq (by simpa using hk)
          simp only [flat, pure, Except.pure, Except.ok.injEq, Prod.mk.injEq] at hr
          obtain ⟨rfl, _⟩ := hr
          refine ⟨⟨ext1 ++ ext2, by simp⟩, by simp [hlen1'], fun ρd ρs => ?_⟩
          rw [Row.val_mk, dot_map_mul, eval, evalBin, ← hval1' ρd ρs]
          simp [Row.val, eval, Int.add_mul]
        | floordiv =>
          dsimp only at h
          obtain ⟨⟨ext3, rfl⟩, hlen3, hc, hv⟩ := visitDiv_spec (ρd := fun _ => 0) (ρs := fun _ => 0) h hlen1'
          refine ⟨⟨ext1 ++ ext2 ++ ext3, by simp⟩, hlen3, fun ρd ρs => ?_⟩
          obtain ⟨_, _, _, hv⟩ := visitDiv_spec (ρd := ρd) (ρs := ρs) h hlen1'
          rw [hv, hval1' ρd ρs, eval]
          have hconst : rr.k = eval ρd ρs r := by
            unfold visitDiv at h
            by_cases hk : (!isConst r) = true
            · rw [if_pos hk] at h; cases h
            obtain ⟨v, rfl⟩ := isConst_eq (by simpa using hk)
            simp only [flat, pure, Except.pure, Except.ok.injEq, Prod.mk.injEq] at hr
            obtain ⟨rfl, _⟩ := hr
            simp [eval]
          rw [hconst]; rfl
        | ceildiv =>
          dsimp only at h
          obtain ⟨⟨ext3, rfl⟩, hlen3, hc, hv⟩ := visitDiv_spec (ρd := fun _ => 0) (ρs := fun _ => 0) h hlen1'
          refine ⟨⟨ext1 ++ ext2 ++ ext3, by simp⟩, hlen3, fun ρd ρs => ?_⟩
          obtain ⟨_, _, _, hv⟩ := visitDiv_spec (ρd := ρd) (ρs := ρs) h hlen1'
          rw [hv, hval1' ρd ρs, eval]
          have hconst : rr.k = eval ρd ρs r := by
            unfold visitDiv at h
            by_cases hk : (!isConst r) = true
            · rw [if_pos hk] at h; cases h
            obtain ⟨v, rfl⟩ := isConst_eq (by simpa using hk)
            simp only [flat, pure, Except.pure, Except.ok.injEq, Prod.mk.injEq] at hr
            obtain ⟨rfl, _⟩ := hr
            simp [eval]
          rw [hconst]; rfl
        | mod =>
          dsimp only at h
          obtain ⟨⟨ext3, rfl⟩, hlen3, hc, hv⟩ := visitMod_spec (ρd := fun _ => 0) (ρs := fun _ => 0) h hlen1'
          refine ⟨⟨ext1 ++ ext2 ++ ext3, by simp⟩, hlen3, fun ρd ρs => ?_⟩
          obtain ⟨_, _, _, hv⟩ := visitMod_spec (ρd := ρd) (ρs := ρs) h hlen1'
          rw [hv, hval1' ρd ρs, eval]
          have hconst : rr.k = eval ρd ρs r := by
            unfold visitMod at h
            by_cases hk : (!isConst r) = true
            · rw [if_pos hk] at h; cases h
            obtain ⟨v, rfl⟩ := isConst_eq (by simpa using hk)
            simp only [flat, pure, Except.pure, Except.ok.injEq, Prod.mk.injEq] at hr
            obtain ⟨rfl, _⟩ := hr
            simp [eval]
          rw [hconst]; rfl

/-! ### totality on the expressions the statement covers -/

/-- Expressions inside the statement for `simplify(nd, ns)`: positions in range, multiplication by a
constant on the right (what `__mul__` builds), division-like operators by a positive constant. -/
inductive InScope (nd ns : Nat) : Expr → Prop
  | const (v : Int) : InScope nd ns (.const v)
  | dim {p : Nat} : p < nd → InScope nd ns (.dim p)
  | sym {p : Nat} : p < ns → InScope nd ns (.sym p)
  | add {l r : Expr} : InScope nd ns l → InScope nd ns r → InScope nd ns (.bin .add l r)
  | mul {l : Expr} (c : Int) : InScope nd ns l → InScope nd ns (.bin .mul l (.const c))
  | div {k : Kind} {l : Expr} {c : Int} :
      k.isDivLike = true → InScope nd ns l → 0 < c → InScope nd ns (.bin k l (.const c))

theorem InScope.pureAffine {nd ns : Nat} {e : Expr} (h : InScope nd ns e) : pureAffine e = true := by
  induction h with
  | const v => simp [Affine.pureAffine]
  | dim _ => simp [Affine.pureAffine]
  | sym _ => simp [Affine.pureAffine]
  | add _ _ ihl ihr => simp [Affine.pureAffine, ihl, ihr]
  | mul c _ ih => simp [Affine.pureAffine, ih]
  | @div k l c hk _ _ ih => cases k <;> simp_all [Affine.pureAffine, Kind.isDivLike]

theorem mkDiv_const_ok {k : Kind} (hk : k.isDivLike = true) (a : Expr) {y : Int} (hy : y ≠ 0) :
    ∃ e, mkDiv k a (.const y) = .ok e := by
  unfold mkDiv
  cases a with
  | const x => cases k <;> simp_all [foldConst, Kind.isDivLike, pure, Except.pure]
  | _ => simp [pure, Except.pure]

theorem visitDiv_ok {nd ns : Nat} (isCeil : Bool) {lhs rhs : Row} {L : List Expr} (v : Int)
    (hlen : lhs.co.length = nd + ns + L.length) (hc : 0 < rhs.k) :
    ∃ out, visitDiv nd ns isCeil lhs rhs (.const v) L = .ok out := by
  unfold visitDiv
  have hc0 : ¬ rhs.k ≤ 0 := by omega
  simp only [isConst, Bool.not_true, Bool.false_eq_true, if_false, hc0]
  obtain ⟨hg, hcg, hq⟩ := divisor_facts lhs hc
  by_cases h1 : pyFloorDiv rhs.k ((rowGcd lhs rhs.k : Nat) : Int) = 1
  · simp [h1, pure, Except.pure]
  · simp only [h1, if_false]
    obtain ⟨a, ha⟩ := fromFlat_ok (nd := nd) (ns := ns) (L := L)
      (row := lhs.divBy ((rowGcd lhs rhs.k : Nat) : Int)) (by rw [Row.length_divBy]; exact hlen)
    obtain ⟨d, hd⟩ := mkDiv_const_ok (k := if isCeil then .ceildiv else .floordiv)
      (by cases isCeil <;> rfl) a (y := pyFloorDiv rhs.k ((rowGcd lhs rhs.k : Nat) : Int)) (by omega)
    simp only [bind, Except.bind, ha, hd]
    cases List.idxOf? d L <;> simp [pure, Except.pure]

theorem visitMod_ok {nd ns : Nat} {lhs rhs : Row} {L : List Expr} (v : Int)
    (hlen : lhs.co.length = nd + ns + L.length) (hc : 0 < rhs.k) :
    ∃ out, visitMod nd ns lhs rhs (.const v) L = .ok out := by
  unfold visitMod
  have hc0 : ¬ rhs.k ≤ 0 := by omega
  simp only [isConst, Bool.not_true, Bool.false_eq_true, if_false, hc0]
  obtain ⟨hg, hcg, hq⟩ := divisor_facts lhs hc
  split
  · simp [pure, Except.pure]
  · obtain ⟨a, ha⟩ := fromFlat_ok (nd := nd) (ns := ns) (L := L)
      (row := lhs.divBy ((rowGcd lhs rhs.k : Nat) : Int)) (by rw [Row.length_divBy]; exact hlen)
    obtain ⟨d, hd⟩ := mkDiv_const_ok (k := .floordiv) rfl a
      (y := pyFloorDiv rhs.k ((rowGcd lhs rhs.k : Nat) : Int)) (by omega)
    simp only [bind, Except.bind, ha, hd]
    cases List.idxOf? d L <;> simp [pure, Except.pure]

/-- the flattener raises nothing on expressions inside the statement -/
theorem flat_total {nd ns : Nat} {e : Expr} (h : InScope nd ns e) (L0 : List Expr) :
    ∃ out, flat nd ns e L0 = .ok out := by
  induction h generalizing L0 with
  | const v => simp [flat, pure, Except.pure]
  | dim hp => simp [flat, hp, pure, Except.pure]
  | sym hp => simp [flat, hp, pure, Except.pure]
  | add _ _ ihl ihr =>
    obtain ⟨⟨lr, La⟩, hl⟩ := ihl L0
    obtain ⟨⟨rr, Lb⟩, hr⟩ := ihr La
    simp [flat, bind, Except.bind, hl, hr, pure, Except.pure]
  | mul c _ ih =>
    obtain ⟨⟨lr, La⟩, hl⟩ := ih L0
    simp [flat, bind, Except.bind, hl, pure, Except.pure, isConst]
  | @div k l c hk _ hc ih =>
    obtain ⟨⟨lr, La⟩, hl⟩ := ih L0
    obtain ⟨_, hlen, _⟩ := flat_spec l hl
    have hlen' : (lr.extend (La.length - La.length)).co.length = nd + ns + La.length := by
      simp [Row.extend, hlen]
    cases k with
    | add => cases hk
    | mul => cases hk
    | floordiv =>
      obtain ⟨out, ho⟩ := visitDiv_ok (nd := nd) (ns := ns) false
        (rhs := { co := List.replicate (nd + ns + La.length) 0, k := c }) c hlen' hc
      exact ⟨out, by simp only [flat, bind, Except.bind, hl, pure, Except.pure]; exact ho⟩
    | ceildiv =>
      obtain ⟨out, ho⟩ := visitDiv_ok (nd := nd) (ns := ns) true
        (rhs := { co := List.replicate (nd + ns + La.length) 0, k := c }) c hlen' hc
      exact ⟨out, by simp only [flat, bind, Except.bind, hl, pure, Except.pure]; exact ho⟩
    | mod =>
      obtain ⟨out, ho⟩ := visitMod_ok (nd := nd) (ns := ns)
        (rhs := { co := List.replicate (nd + ns + La.length) 0, k := c }) c hlen' hc
      exact ⟨out, by simp only [flat, bind, Except.bind, hl, pure, Except.pure]; exact ho⟩

end Xdsl.Affine
