import XdslProofs.Lemmas.DisjointSet
import XdslProofs.Lemmas.AL
/-!
Helper lemmas for the generic `DisjointSet` wrapper of `xdsl/utils/disjoint_set.py` (C12):
the dict comprehension of `__init__`, the wrapper invariant `GWF` ("`_index_by_value` is the inverse
of `_values`, `_base` has one node per value"), the translation of value operations to index
operations, and transport of the equivalence closure along the value ↔ index bijection.
-/
namespace Xdsl.DisjointSet

/-! ### the dict comprehension of `__init__` -/

theorem enumIndex_get (vs : List Nat) (hnd : vs.Nodup) : ∀ (i : Nat) (m : AL Nat Nat) (v k : Nat),
    (enumIndex vs i m).get v = some k ↔
      ((∃ j, vs[j]? = some v ∧ k = i + j) ∨ (v ∉ vs ∧ m.get v = some k)) := by
  induction vs with
  | nil => intro i m v k; simp [enumIndex]
  | cons a vs ih =>
    intro i m v k
    have hnd' := List.nodup_cons.mp hnd
    rw [enumIndex, ih hnd'.2, AL.get_set]
    constructor
    · rintro (⟨j, hj, rfl⟩ | ⟨hv, hg⟩)
      · exact Or.inl ⟨j + 1, by simpa using hj, by omega⟩
      · by_cases e : v = a
        · subst e
          rw [if_pos rfl] at hg
          exact Or.inl ⟨0, by simp, by simpa using hg.symm⟩
        · rw [if_neg e] at hg
          exact Or.inr ⟨by simp [e, hv], hg⟩
    · rintro (⟨j, hj, rfl⟩ | ⟨hv, hg⟩)
      · cases j with
        | zero =>
          have : a = v := by simpa using hj
          subst this
          exact Or.inr ⟨hnd'.1, by simp⟩
        | succ j => exact Or.inl ⟨j, by simpa using hj, by omega⟩
      · have hv' : ¬ v = a ∧ v ∉ vs := by simpa using hv
        exact Or.inr ⟨hv'.2, by rw [if_neg hv'.1]; exact hg⟩

/-! ### wrapper invariant -/

/-- Invariant of `DisjointSet` under its contract: the values are pairwise distinct, `_base` has
exactly one node per value, and `_index_by_value` maps `v` to `i` exactly when `_values[i] == v`. -/
structure GWF (g : GDS) : Prop where
  nodup : g.values.Nodup
  size : g.base.size = g.values.length
  index : ∀ v i, g.index.get v = some i ↔ g.values[i]? = some v

theorem ginit_wf (vs : List Nat) (h : vs.Nodup) : GWF (ginit vs) := by
  refine ⟨h, init_size _, ?_⟩
  intro v i
  simp only [ginit]
  rw [enumIndex_get vs h 0 [] v i]
  simp only [AL.get_nil, and_false, or_false, reduceCtorEq]
  constructor
  · rintro ⟨j, hj, rfl⟩; simpa using hj
  · intro hv; exact ⟨i, hv, by omega⟩

theorem GWF.get_of_mem {g : GDS} (h : GWF g) {v : Nat} (hv : v ∈ g.values) :
    g.index.get v = some (g.values.idxOf v) := by
  rw [h.index]
  exact List.getElem?_idxOf hv

theorem GWF.get_of_not_mem {g : GDS} (h : GWF g) {v : Nat} (hv : v ∉ g.values) :
    g.index.get v = none := by
  cases e : g.index.get v with
  | none => rfl
  | some i => exact absurd (List.mem_of_getElem? ((h.index v i).mp e)) hv

theorem GWF.idx_lt {g : GDS} (h : GWF g) {v : Nat} (hv : v ∈ g.values) :
    g.values.idxOf v < g.base.size := by
  rw [h.size]; exact List.idxOf_lt_length_iff.mpr hv

theorem GWF.idxOf_getElem {g : GDS} (h : GWF g) {i : Nat} {v : Nat} (hi : g.values[i]? = some v) :
    g.values.idxOf v = i := by
  have h1 := h.get_of_mem (List.mem_of_getElem? hi)
  have h2 := (h.index v i).mpr hi
  rw [h1] at h2; exact Option.some.inj h2

/-- `add` of a fresh value keeps the invariant -/
theorem gwf_add {g : GDS} (h : GWF g) {v : Nat} (hv : v ∉ g.values) :
    GWF { base := addState g.base, values := g.values ++ [v], index := g.index.set v g.base.size } := by
  refine ⟨?_, ?_, ?_⟩
  · exact List.nodup_append.mpr ⟨h.nodup, List.nodup_singleton v,
      fun a ha b hb => by
        have : b = v := by simpa using hb
        subst this; intro e; subst e; exact hv ha⟩
  · simp [add_size, h.size]
  · intro w i
    simp only [AL.get_set]
    have hsz := h.size
    by_cases e : w = v
    · subst e
      rw [if_pos rfl]
      constructor
      · intro hi
        have : g.base.size = i := Option.some.inj hi
        subst this
        rw [hsz]; simp
      · intro hi
        rcases Nat.lt_trichotomy i g.values.length with hlt | heq | hgt
        · rw [List.getElem?_append_left hlt] at hi
          exact absurd (List.mem_of_getElem? hi) hv
        · rw [hsz, heq]
        · rw [List.getElem?_eq_none (by simp; omega)] at hi
          cases hi
    · rw [if_neg e, h.index]
      rcases Nat.lt_trichotomy i g.values.length with hlt | heq | hgt
      · rw [List.getElem?_append_left hlt]
      · subst heq
        simp only [List.getElem?_eq_none (Nat.le_refl _), List.getElem?_append_right (Nat.le_refl _),
          Nat.sub_self, List.getElem?_cons_zero, reduceCtorEq, false_iff]
        intro e'; exact e (Option.some.inj e').symm
      · rw [List.getElem?_eq_none (by omega), List.getElem?_eq_none (by simp; omega)]

/-! ### transport of the equivalence closure along a map -/

theorem rel_map (f : Nat → Nat) {us : List (Nat × Nat)} {a b : Nat} (h : Rel us a b) :
    Rel (us.map (Prod.map f f)) (f a) (f b) := by
  induction h with
  | rel x y hxy =>
    exact Relation.EqvGen.rel _ _ (List.mem_map.mpr ⟨(x, y), hxy, rfl⟩)
  | refl x => exact Relation.EqvGen.refl _
  | symm x y _ ih => exact Relation.EqvGen.symm _ _ ih
  | trans x y z _ _ ih1 ih2 => exact Relation.EqvGen.trans _ _ _ ih1 ih2

/-- if `g` is a left inverse of `f` on every element mentioned in `us`, relatedness of images
reflects -/
theorem rel_unmap (f g : Nat → Nat) {us : List (Nat × Nat)}
    (hinv : ∀ q ∈ us, g (f q.1) = q.1 ∧ g (f q.2) = q.2) {x y : Nat}
    (h : Rel (us.map (Prod.map f f)) x y) : Rel us (g x) (g y) := by
  have := rel_map g h
  have e : (us.map (Prod.map f f)).map (Prod.map g g) = us := by
    rw [List.map_map]
    conv => rhs; rw [← List.map_id us]
    apply List.map_congr_left
    intro q hq
    obtain ⟨h1, h2⟩ := hinv q hq
    obtain ⟨a, b⟩ := q
    simp only [Function.comp, Prod.map, id] at *
    rw [h1, h2]
  rwa [e] at this

/-! ### value operations as index operations; the abstract side on values -/

/-- the index operation a value operation stands for (`none`: a value is absent → `KeyError`) -/
def toOp (vals : List Nat) : GOp → Option Op
  | .add _ => some .add
  | .find v => if v ∈ vals then some (.find (vals.idxOf v)) else none
  | .union a b =>
    if a ∈ vals ∧ b ∈ vals then some (.union (vals.idxOf a) (vals.idxOf b)) else none
  | .unionLeft a b =>
    if a ∈ vals ∧ b ∈ vals then some (.unionLeft (vals.idxOf a) (vals.idxOf b)) else none
  | .connected a b =>
    if a ∈ vals ∧ b ∈ vals then some (.connected (vals.idxOf a) (vals.idxOf b)) else none

def isFind : GOp → Bool
  | .find _ => true
  | _ => false

def valsStep (vals : List Nat) : GOp → List Nat
  | .add v => vals ++ [v]
  | _ => vals

/-- the documented contract of `add`: "add a *new* value" -/
def Fresh (vals : List Nat) : GOp → Prop
  | .add v => v ∉ vals
  | _ => True

def Contract (vals : List Nat) : List GOp → Prop
  | [] => True
  | o :: os => Fresh vals o ∧ Contract (valsStep vals o) os

/-- the index history a value history stands for (calls that raise `KeyError` on the dict lookup
never reach `_base`) -/
def transOps (vals : List Nat) : List GOp → List Op
  | [] => []
  | o :: os => (toOp vals o).toList ++ transOps (valsStep vals o) os

/-- abstract state on values: the values and the pairs of values successfully unioned -/
structure GSpec where
  values : List Nat
  vus : List (Nat × Nat) := []

def GSpec.step (γ : GSpec) : GOp → GSpec
  | .add v => { γ with values := γ.values ++ [v] }
  | .find _ => γ
  | .union a b => if a ∈ γ.values ∧ b ∈ γ.values then { γ with vus := (a, b) :: γ.vus } else γ
  | .unionLeft a b => if a ∈ γ.values ∧ b ∈ γ.values then { γ with vus := (a, b) :: γ.vus } else γ
  | .connected _ _ => γ

def GSpec.run (γ : GSpec) : List GOp → GSpec
  | [] => γ
  | o :: os => GSpec.run (γ.step o) os

/-- what the abstract state allows as result of a wrapper call: `KeyError` exactly for absent
values, otherwise the answers of the partition generated by `vus` -/
def GOutOK (γ : GSpec) : GOp → GOut → Prop
  | .add _, o => o = .unit
  | .find x, o =>
    if x ∈ γ.values then ∃ r, o = .val r ∧ r ∈ γ.values ∧ Rel γ.vus x r else o = .keyError
  | .union a b, o =>
    if a ∈ γ.values ∧ b ∈ γ.values then ∃ c, o = .bool c ∧ (c = true ↔ ¬ Rel γ.vus a b)
    else o = .keyError
  | .unionLeft a b, o =>
    if a ∈ γ.values ∧ b ∈ γ.values then ∃ c, o = .bool c ∧ (c = true ↔ ¬ Rel γ.vus a b)
    else o = .keyError
  | .connected a b, o =>
    if a ∈ γ.values ∧ b ∈ γ.values then ∃ c, o = .bool c ∧ (c = true ↔ Rel γ.vus a b)
    else o = .keyError

def GOutsOK (γ : GSpec) : List GOp → List GOut → Prop
  | [], [] => True
  | o :: os, out :: outs => GOutOK γ o out ∧ GOutsOK (γ.step o) os outs
  | _, _ => False

/-- `_values[i]` as a total function -/
def valF (vals : List Nat) (i : Nat) : Nat := vals.getD i 0

/-- the wrapper state represents the abstract value state: the wrapper invariant holds and `_base`
represents (`Repr`) an index-level abstract state whose unioned pairs, read through `_values`, are
the unioned value pairs -/
structure GRepr (g : GDS) (γ : GSpec) : Prop where
  wf : GWF g
  values : g.values = γ.values
  base : ∃ σ : Spec, Repr g.base σ ∧ (∀ q ∈ σ.us, q.1 < σ.n ∧ q.2 < σ.n) ∧
    γ.vus = σ.us.map (Prod.map (valF g.values) (valF g.values))

theorem valF_idxOf {vals : List Nat} {v : Nat} (hv : v ∈ vals) : valF vals (vals.idxOf v) = v := by
  simp [valF, List.getD_eq_getElem?_getD, List.getElem?_idxOf hv]

theorem GWF.idxOf_valF {g : GDS} (h : GWF g) {i : Nat} (hi : i < g.values.length) :
    g.values.idxOf (valF g.values i) = i := by
  apply h.idxOf_getElem
  simp [valF, List.getD_eq_getElem?_getD, List.getElem?_eq_getElem hi]

theorem valF_mem {vals : List Nat} {i : Nat} (hi : i < vals.length) : valF vals i ∈ vals := by
  simp [valF, List.getD_eq_getElem?_getD, List.getElem?_eq_getElem hi]

theorem valF_append {vals : List Nat} (v : Nat) {i : Nat} (hi : i < vals.length) :
    valF (vals ++ [v]) i = valF vals i := by
  simp [valF, List.getD_eq_getElem?_getD, List.getElem?_append_left hi]

/-- every well-formed forest represents its own partition -/
theorem repr_self (s : UF) (h : Inv s) (hc : Counts s) :
    Repr s { n := s.size, us := (List.range s.size).map (fun i => (i, root s i)) } := by
  refine ⟨h, hc, rfl, ?_, ?_⟩
  · intro q hq
    obtain ⟨i, _, rfl⟩ := List.mem_map.mp hq
    exact (root_idem s h i).symm
  · intro x
    by_cases hx : x < s.size
    · exact Relation.EqvGen.rel _ _ (List.mem_map.mpr ⟨x, List.mem_range.mpr hx, rfl⟩)
    · rw [root_of_size_le s (Nat.le_of_not_lt hx)]; exact Relation.EqvGen.refl x

end Xdsl.DisjointSet
