import XdslProofs.Lemmas.ArgSpecParse
/-!
C18 totality lemmas: the token stream of the lexer ends with exactly one `eof`/`bad` token, and on
such streams no parser state requests a token past the end.
-/
namespace Xdsl.ArgSpec

/-- a token stream as the lexer produces it: exactly one `eof`/`bad` token, at the end -/
inductive Terminated : List Token → Prop
  | last (t : Token) (h : t.kind = .eof ∨ t.kind = .bad) : Terminated [t]
  | cons (t : Token) (r : List Token) (h1 : t.kind ≠ .eof) (h2 : t.kind ≠ .bad) : Terminated r →
      Terminated (t :: r)

theorem Terminated.tail {t : Token} {r : List Token} (h : Terminated (t :: r)) (h1 : t.kind ≠ .eof)
    (h2 : t.kind ≠ .bad) : Terminated r := by
  cases h with
  | last _ h => rcases h with h | h <;> contradiction
  | cons _ _ _ _ hr => exact hr

theorem Terminated.ne_nil {l : List Token} (h : Terminated l) : l ≠ [] := by
  cases h <;> simp

theorem nextToken_kind {s : List Char} {k : Kind} {n : Nat} (h : nextToken s = some (k, n)) :
    k ≠ .eof ∧ k ≠ .bad := by
  unfold nextToken at h
  repeat' split at h
  all_goals first
    | (simp only [Option.some.injEq, Prod.mk.injEq] at h; obtain ⟨rfl, _⟩ := h; simp)
    | skip
  cases s with
  | nil => simp [matchPunct] at h
  | cons c r =>
    simp only [matchPunct] at h
    repeat' split at h
    all_goals first
      | (simp only [Option.some.injEq, Prod.mk.injEq] at h; obtain ⟨rfl, _⟩ := h; simp)
      | simp at h

theorem lexAll_terminated (s : List Char) : Terminated (lexAll s) := by
  induction hn : s.length using Nat.strongRecOn generalizing s with
  | _ n ih =>
    cases s with
    | nil => rw [lexAll_nil]; exact .last _ (Or.inl rfl)
    | cons c r =>
      rw [lexAll]
      cases h : nextToken (c :: r) with
      | none => exact .last _ (Or.inr rfl)
      | some kn =>
        obtain ⟨k, m⟩ := kn
        have hk := nextToken_kind h
        refine .cons _ _ hk.1 hk.2 (ih _ ?_ _ rfl)
        subst hn
        simp only [List.length_drop, List.length_cons]; omega

/-- the result is the internal "token requested after EOF" -/
def IsStop {F : Type} : Res F → Prop
  | .error (.stopIteration, _) => True
  | _ => False

theorem errTok_noStop {F : Type} (m : Msg) (hm : m ≠ .stopIteration) (t : Token) (r : List Token) :
    ¬ IsStop (F := F) (.error (errTok m (t :: r))) := by
  simp only [errTok]
  by_cases hb : t.kind = Kind.bad <;> simp [hb, IsStop, hm]


theorem ok_noStop {F : Type} (l : List (Spec F)) : ¬ IsStop (F := F) (.ok l) := by simp [IsStop]

theorem err_noStop {F : Type} (m : Msg) (hm : m ≠ .stopIteration) (l : List Token) :
    ¬ IsStop (F := F) (.error (m, l)) := by
  cases m <;> simp_all [IsStop]

/-- On a lexer-shaped token stream no parser state ever asks for a token that is not there. -/
theorem parser_noStop {F : Type} (ofText : List Char → F) :
    ∀ n, ∀ toks : List Token, toks.length ≤ n → Terminated toks →
      (∀ acc, ¬ IsStop (pPipeline ofText acc toks)) ∧
      (∀ acc, ¬ IsStop (pAfter ofText acc toks)) ∧
      (∀ acc name args, ¬ IsStop (pParams ofText acc name args toks)) ∧
      (∀ acc name args key elems, ¬ IsStop (pElems ofText acc name args key elems toks)) := by
  intro n
  induction n using Nat.strongRecOn with
  | _ n ih =>
    intro toks hlen hT
    cases toks with
    | nil => exact absurd rfl hT.ne_nil
    | cons t rest =>
      -- facts about the tail, available whenever `t` is not terminal
      have tailT : t.kind ≠ .eof → t.kind ≠ .bad → Terminated rest := hT.tail
      have IH : ∀ l : List Token, l.length < (t :: rest).length → Terminated l → _ :=
        fun l hl hTl => ih l.length (by simp at hl hlen ⊢; omega) l (Nat.le_refl _) hTl
      refine ⟨?_, ?_, ?_, ?_⟩
      · -- pPipeline
        intro acc
        by_cases he : t.kind = .eof
        · cases rest <;> simp [pPipeline, he, ok_noStop]
        by_cases hi : t.kind = .ident
        · have hTr := tailT he (by simp [hi])
          cases rest with
          | nil => exact absurd rfl hTr.ne_nil
          | cons t2 rest2 =>
            have tail2 : t2.kind ≠ .eof → t2.kind ≠ .bad → Terminated rest2 := hTr.tail
            have IH2 := fun h1 h2 => IH rest2 (by simp; omega) (tail2 h1 h2)
            simp only [pPipeline, hi, reduceCtorEq, ↓reduceIte, ne_eq, not_true_eq_false]
            cases hk : t2.kind <;> simp only []
            all_goals first
              | exact ok_noStop _
              | exact errTok_noStop _ (by simp) _ _
              | exact (IH2 (by simp [hk]) (by simp [hk])).1 _
              | exact (IH2 (by simp [hk]) (by simp [hk])).2.2.1 _ _ _
              | (split
                 · exact (IH2 (by simp [hk]) (by simp [hk])).2.1 _
                 · exact err_noStop Msg.expectedMlirOpt (by simp) _)
        · cases rest <;> simp only [pPipeline, he, hi, ↓reduceIte, ne_eq, not_false_eq_true] <;>
            exact errTok_noStop _ (by simp) _ _
      · -- pAfter
        intro acc
        simp only [pAfter]
        cases hk : t.kind <;> simp only []
        all_goals first
          | exact ok_noStop _
          | exact errTok_noStop _ (by simp) _ _
          | exact (IH rest (by simp) (tailT (by simp [hk]) (by simp [hk]))).1 _
      · -- pParams
        intro acc name args
        by_cases hr : t.kind = .rbrace
        · have hTr := tailT (by simp [hr]) (by simp [hr])
          have := (IH rest (by simp) hTr).2.1
          cases rest with
          | nil => exact absurd rfl hTr.ne_nil
          | cons t2 rest2 => simp only [pParams, hr, ↓reduceIte]; exact this _
        by_cases hi : t.kind = .ident
        · have hTr := tailT (by simp [hi]) (by simp [hi])
          cases rest with
          | nil => exact absurd rfl hTr.ne_nil
          | cons t2 rest2 =>
            have tail2 : t2.kind ≠ .eof → t2.kind ≠ .bad → Terminated rest2 := hTr.tail
            have IH2 := fun h1 h2 => IH rest2 (by simp; omega) (tail2 h1 h2)
            simp only [pParams, hi, reduceCtorEq, ↓reduceIte, ne_eq, not_true_eq_false]
            cases hk : t2.kind <;> simp only []
            all_goals first
              | exact errTok_noStop _ (by simp) _ _
              | exact (IH2 (by simp [hk]) (by simp [hk])).2.2.1 _ _ _
              | exact (IH2 (by simp [hk]) (by simp [hk])).2.1 _
              | exact (IH2 (by simp [hk]) (by simp [hk])).2.2.2 _ _ _ _ _
        · cases rest <;> simp only [pParams, hr, hi, ↓reduceIte, ne_eq, not_false_eq_true] <;>
            exact errTok_noStop _ (by simp) _ _
      · -- pElems
        intro acc name args key elems
        rw [pElems.eq_2]
        cases hp : parseElem ofText t with
        | none => exact errTok_noStop _ (by simp) _ _
        | some pv =>
          have hne : t.kind ≠ .eof ∧ t.kind ≠ .bad := by
            unfold parseElem at hp
            constructor <;> intro hk <;> simp [hk] at hp
          have hTr := tailT hne.1 hne.2
          cases rest with
          | nil => exact absurd rfl hTr.ne_nil
          | cons t2 rest2 =>
            have tail2 : t2.kind ≠ .eof → t2.kind ≠ .bad → Terminated rest2 := hTr.tail
            have IH2 := fun h1 h2 => IH rest2 (by simp; omega) (tail2 h1 h2)
            simp only []
            cases hk : t2.kind <;> simp only []
            all_goals first
              | exact errTok_noStop _ (by simp) _ _
              | exact (IH2 (by simp [hk]) (by simp [hk])).2.2.1 _ _ _
              | exact (IH2 (by simp [hk]) (by simp [hk])).2.1 _
              | exact (IH2 (by simp [hk]) (by simp [hk])).2.2.2 _ _ _ _ _

end Xdsl.ArgSpec
