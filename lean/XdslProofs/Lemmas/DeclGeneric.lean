import XdslModel.DeclGeneric
import XdslProofs.Lemmas.SkeletonSyntax
import XdslProofs.Lemmas.DeclFormatAgg
/-!
C05, generic form: parsing the generic text of an instance (C04 skeleton grammar) and reading the
instance off the parsed operation (`instOf`) gives the instance back.
-/
namespace Xdsl.DeclGeneric
open Xdsl.DeclFormat
set_option linter.unusedSimpArgs false

/-- the codec is a dictionary: every encoding has its decoding -/
structure CodecOK (C : Codec) : Prop where
  vn_nv : ∀ n, C.vn (C.nv n) = n
  bn_nb : ∀ n, C.bn (C.nb n) = n
  name_key : ∀ s, C.name (C.key s).id = s
  tyId_ty : ∀ n, C.tyId (C.ty n) = n
  avId_av : ∀ n, C.avId (C.av n) = n
  sizesOf_sizes : ∀ l, C.sizesOf (C.sizes l) = some l
  regionId_region : ∀ n, C.regionId (C.region n) = n

/-- the instance is one the generic form can carry: segments fit the definitions, the flat lists
determine the segments (one optional/variadic definition, or the sizes are stored), the
dictionaries are dictionaries that do not use the segment-size names, the regions are printable -/
structure GenericOK (C : Codec) (D : Defs) (M : Modes) (defs : Nat → List Nat) (op : OpInst) : Prop where
  fitsO : fits D.operandKinds op.operands = true
  fitsT : fits D.operandKinds op.operandTys = true
  fitsR : fits D.resultKinds op.resultTys = true
  fitsG : fits D.regionKinds op.regions = true
  fitsS : fits D.succKinds op.succs = true
  tysLen : lens op.operandTys = lens op.operands
  uniqO : M.operands = .unique → uniqueVar D.operandKinds = true
  uniqR : M.results = .unique → uniqueVar D.resultKinds = true
  uniqG : uniqueVar D.regionKinds = true
  uniqS : uniqueVar D.succKinds = true
  nodupP : (op.props.map Prod.fst).Nodup
  nodupA : (op.attrs.map Prod.fst).Nodup
  noSegP : ∀ p ∈ op.props, p.1 ≠ opSegName ∧ p.1 ≠ resSegName
  noSegA : ∀ p ∈ op.attrs, p.1 ≠ opSegName ∧ p.1 ≠ resSegName
  retro : ∀ k ∈ defs C.opName, Skeleton.hasKey (hdrOf C M op).attrs k = true →
    Skeleton.hasKey (hdrOf C M op).props k = true
  regions : ∀ n ∈ op.regions.flatten,
    Skeleton.shape defs .blocks (C.region n) = true ∧ Skeleton.labelsOK true (C.region n) = true

/-! ### the printed tree is readable -/

def segNamesOf (M : Modes) (asProp : Bool) : List String :=
  (if M.operands = .sized asProp then [opSegName] else []) ++
  (if M.results = .sized asProp then [resSegName] else [])

theorem names_segEntries (C : Codec) (hc : CodecOK C) (M : Modes) (op : OpInst) (b : Bool) :
    (segEntries C M op b).map (fun e => C.name e.1.id) = segNamesOf M b := by
  unfold segEntries segNamesOf
  by_cases h1 : M.operands = .sized b <;> by_cases h2 : M.results = .sized b <;>
    simp [h1, h2, hc.name_key]

theorem names_entries (C : Codec) (hc : CodecOK C) (l : AL String Nat) :
    (l.map (entryOf C)).map (fun e => C.name e.1.id) = l.map Prod.fst := by
  induction l with
  | nil => rfl
  | cons p l ih => simp [entryOf, hc.name_key]

theorem segNamesOf_nodup (M : Modes) (b : Bool) : (segNamesOf M b).Nodup := by
  unfold segNamesOf
  by_cases h1 : M.operands = .sized b <;> by_cases h2 : M.results = .sized b <;>
    simp [h1, h2, opSegName, resSegName]

theorem mem_segNamesOf {M : Modes} {b : Bool} {s : String} (h : s ∈ segNamesOf M b) :
    s = opSegName ∨ s = resSegName := by
  unfold segNamesOf at h
  by_cases h1 : M.operands = .sized b <;> by_cases h2 : M.results = .sized b <;>
    simp [h1, h2] at h <;> first | exact h | exact Or.inl h | exact Or.inr h

theorem dupKey_false_of_names (C : Codec) (l : List Entry)
    (hn : (l.map (fun e => C.name e.1.id)).Nodup) : Skeleton.dupKey l = false := by
  induction l with
  | nil => rfl
  | cons e r ih =>
    simp only [List.map_cons, List.nodup_cons] at hn
    simp only [Skeleton.dupKey, Bool.or_eq_false_iff, List.any_eq_false]
    refine ⟨fun f hf => ?_, ih hn.2⟩
    intro heq
    have heq' : f.1.id = e.1.id := by simpa using heq
    apply hn.1
    rw [← heq']
    exact List.mem_map.mpr ⟨f, hf, rfl⟩

theorem dupKey_dict (C : Codec) (hc : CodecOK C) (M : Modes) (op : OpInst) (b : Bool) (l : AL String Nat)
    (hn : (l.map Prod.fst).Nodup) (hs : ∀ p ∈ l, p.1 ≠ opSegName ∧ p.1 ≠ resSegName) :
    Skeleton.dupKey (l.map (entryOf C) ++ segEntries C M op b) = false := by
  apply dupKey_false_of_names C
  rw [List.map_append, names_entries C hc, names_segEntries C hc]
  rw [List.nodup_append]
  refine ⟨hn, segNamesOf_nodup M b, ?_⟩
  intro a ha b' hb' e
  obtain ⟨p, hp, rfl⟩ := List.mem_map.mp ha
  subst e
  rcases mem_segNamesOf hb' with h | h
  · exact (hs p hp).1 h
  · exact (hs p hp).2 h

theorem shape_chain (C : Codec) (defs : Nat → List Nat) (l : List Nat)
    (h : ∀ n ∈ l, Skeleton.shape defs .blocks (C.region n) = true ∧ Skeleton.labelsOK true (C.region n) = true) :
    Skeleton.shape defs .regions (regionChain C l) = true ∧ Skeleton.labelsOK false (regionChain C l) = true := by
  induction l with
  | nil => exact ⟨rfl, rfl⟩
  | cons n ns ih =>
    have h1 := h n (List.mem_cons_self ..)
    have h2 := ih (fun m hm => h m (List.mem_cons_of_mem _ hm))
    simp [regionChain, Skeleton.shape, Skeleton.labelsOK, h1.1, h1.2, h2.1, h2.2]

theorem generic_readable (C : Codec) (hc : CodecOK C) (D : Defs) (M : Modes) (defs : Nat → List Nat)
    (op : OpInst) (hg : GenericOK C D M defs op) :
    Skeleton.parseT defs (printGeneric C M op) = some (genericTree C M op) := by
  unfold printGeneric
  apply Skeleton.parseT_pr
  · have hsh := (shape_chain C defs op.regions.flatten hg.regions).1
    have hp := dupKey_dict C hc M op true op.props hg.nodupP hg.noSegP
    have ha := dupKey_dict C hc M op false op.attrs hg.nodupA hg.noSegA
    have hr : ((defs (hdrOf C M op).name).all fun k =>
        !Skeleton.hasKey (hdrOf C M op).attrs k || Skeleton.hasKey (hdrOf C M op).props k) = true := by
      rw [List.all_eq_true]
      intro k hk
      have := hg.retro k hk
      cases hh : Skeleton.hasKey (hdrOf C M op).attrs k with
      | false => rfl
      | true => simp [this hh]
    simp only [genericTree, Skeleton.shape, Skeleton.hdrOK, hsh, Bool.and_true]
    have hp' : Skeleton.dupKey (hdrOf C M op).props = false := hp
    have ha' : Skeleton.dupKey (hdrOf C M op).attrs = false := ha
    simp [hp', ha', hr]
  · have hl := (shape_chain C defs op.regions.flatten hg.regions).2
    simp [genericTree, Skeleton.labelsOK, hl]

/-! ### reading the instance off the parsed operation -/

theorem splitSizes_lens (segs : List (List Nat)) : splitSizes (lens segs) segs.flatten = segs := by
  induction segs with
  | nil => rfl
  | cons s ss ih =>
    simp only [lens, List.map_cons, List.flatten_cons, splitSizes, List.take_left, List.drop_left]
    exact congrArg _ ih

theorem segBySizes_lens (kinds : List Kind) (segs : List (List Nat)) (hf : fits kinds segs = true) :
    segBySizes kinds (lens segs) segs.flatten = some segs := by
  unfold segBySizes
  have h1 : (lens segs).length = kinds.length := by simp [lens, fits_length hf]
  have h2 : (lens segs).sum = segs.flatten.length := by simp [lens, List.length_flatten]
  simp [h1, h2, splitSizes_lens, hf]

theorem find_entries_none (C : Codec) (hc : CodecOK C) (l : AL String Nat) (name : String)
    (hs : ∀ p ∈ l, p.1 ≠ name) :
    (l.map (entryOf C)).find? (fun e => e.1.id == (C.key name).id) = none := by
  rw [List.find?_eq_none]
  intro e he
  obtain ⟨p, hp, rfl⟩ := List.mem_map.mp he
  intro heq
  have h : (C.key p.1).id = (C.key name).id := by simpa [entryOf] using heq
  have := congrArg C.name h
  rw [hc.name_key, hc.name_key] at this
  exact hs p hp this

theorem key_ne (C : Codec) (hc : CodecOK C) {a b : String} (h : a ≠ b) : (C.key a).id ≠ (C.key b).id := by
  intro e
  have := congrArg C.name e
  rw [hc.name_key, hc.name_key] at this
  exact h this

theorem lookup_op (C : Codec) (hc : CodecOK C) (M : Modes) (op : OpInst) (b : Bool) (l : AL String Nat)
    (hs : ∀ p ∈ l, p.1 ≠ opSegName ∧ p.1 ≠ resSegName) (hm : M.operands = .sized b) :
    lookupSizes C (l.map (entryOf C) ++ segEntries C M op b) opSegName = some (lens op.operands) := by
  unfold lookupSizes
  rw [List.find?_append, find_entries_none C hc l opSegName (fun p hp => (hs p hp).1)]
  simp [segEntries, hm, hc.sizesOf_sizes]

theorem lookup_res (C : Codec) (hc : CodecOK C) (M : Modes) (op : OpInst) (b : Bool) (l : AL String Nat)
    (hs : ∀ p ∈ l, p.1 ≠ opSegName ∧ p.1 ≠ resSegName) (hm : M.results = .sized b) :
    lookupSizes C (l.map (entryOf C) ++ segEntries C M op b) resSegName = some (lens op.resultTys) := by
  unfold lookupSizes
  rw [List.find?_append, find_entries_none C hc l resSegName (fun p hp => (hs p hp).2)]
  have hne : ((C.key opSegName).id == (C.key resSegName).id) = false := by
    simpa using key_ne C hc (a := opSegName) (b := resSegName) (by decide)
  by_cases h1 : M.operands = .sized b
  · simp [segEntries, hm, h1, hne, hc.sizesOf_sizes]
  · simp [segEntries, hm, h1, hc.sizesOf_sizes]

theorem map_map_id {α β : Type} (f : α → β) (g : β → α) (h : ∀ a, g (f a) = a) (l : List α) :
    (l.map f).map g = l := by
  induction l with
  | nil => rfl
  | cons a l ih => simp [h a] at ih ⊢; exact ih

theorem regionList_chain (C : Codec) (hc : CodecOK C) (l : List Nat) :
    regionList C (regionChain C l) = l := by
  induction l with
  | nil => rfl
  | cons n ns ih => simp [regionChain, regionList, hc.regionId_region, ih]

theorem dict_back (C : Codec) (hc : CodecOK C) (M : Modes) (op : OpInst) (b : Bool) (l : AL String Nat)
    (hs : ∀ p ∈ l, p.1 ≠ opSegName ∧ p.1 ≠ resSegName) :
    ((l.map (entryOf C) ++ segEntries C M op b).filter (notSeg C)).map (pairOf C) = l := by
  rw [List.filter_append]
  have h1 : (l.map (entryOf C)).filter (notSeg C) = l.map (entryOf C) := by
    rw [List.filter_eq_self]
    intro e he
    obtain ⟨p, hp, rfl⟩ := List.mem_map.mp he
    simp [notSeg, entryOf, hc.name_key, (hs p hp).1, (hs p hp).2]
  have h2 : (segEntries C M op b).filter (notSeg C) = [] := by
    rw [List.filter_eq_nil_iff]
    intro e he
    have hn : C.name e.1.id ∈ segNamesOf M b := by
      rw [← names_segEntries C hc M op b]
      exact List.mem_map.mpr ⟨e, he, rfl⟩
    rcases mem_segNamesOf hn with h | h <;> simp [notSeg, h]
  rw [h1, h2, List.append_nil]
  exact map_map_id (entryOf C) (pairOf C) (fun p => by simp [entryOf, pairOf, hc.name_key, hc.avId_av]) l

theorem segment_ok (C : Codec) (hc : CodecOK C) (M : Modes) (op : OpInst) (mode : SegMode)
    (kinds : List Kind) (segs : List (List Nat))
    (hf : fits kinds segs = true) (hu : mode = .unique → uniqueVar kinds = true)
    (name : String)
    (hl : ∀ b, mode = .sized b →
      lookupSizes C (if b then (hdrOf C M op).props else (hdrOf C M op).attrs) name = some (lens segs)) :
    segment C mode kinds name (hdrOf C M op) segs.flatten = some segs := by
  cases mode with
  | unique => exact splitByKinds_flatten kinds segs hf (hu rfl)
  | sized b =>
    simp only [segment, hl b rfl, Option.bind_some]
    exact segBySizes_lens kinds segs hf

/-- the accessors of the operation the generic parser builds return the segments of the instance -/
theorem instOf_genericTree (C : Codec) (hc : CodecOK C) (D : Defs) (M : Modes) (defs : Nat → List Nat)
    (op : OpInst) (hg : GenericOK C D M defs op) :
    instOf C D M (genericTree C M op) = some op := by
  have lookO : ∀ b, M.operands = .sized b →
      lookupSizes C (if b then (hdrOf C M op).props else (hdrOf C M op).attrs) opSegName =
        some (lens op.operands) := by
    intro b hb
    cases b with
    | true => exact lookup_op C hc M op true op.props hg.noSegP hb
    | false => exact lookup_op C hc M op false op.attrs hg.noSegA hb
  have lookR : ∀ b, M.results = .sized b →
      lookupSizes C (if b then (hdrOf C M op).props else (hdrOf C M op).attrs) resSegName =
        some (lens op.resultTys) := by
    intro b hb
    cases b with
    | true => exact lookup_res C hc M op true op.props hg.noSegP hb
    | false => exact lookup_res C hc M op false op.attrs hg.noSegA hb
  have e1 : (hdrOf C M op).operands.map C.vn = op.operands.flatten :=
    map_map_id C.nv C.vn hc.vn_nv _
  have e2 : (hdrOf C M op).inTys.map C.tyId = op.operandTys.flatten :=
    map_map_id C.ty C.tyId hc.tyId_ty _
  have e3 : (hdrOf C M op).outTys.map C.tyId = op.resultTys.flatten :=
    map_map_id C.ty C.tyId hc.tyId_ty _
  have e4 : (hdrOf C M op).succs.map C.bn = op.succs.flatten :=
    map_map_id C.nb C.bn hc.bn_nb _
  have s1 := segment_ok C hc M op M.operands D.operandKinds op.operands hg.fitsO hg.uniqO opSegName lookO
  have s2 := segment_ok C hc M op M.operands D.operandKinds op.operandTys hg.fitsT hg.uniqO opSegName
    (by rw [hg.tysLen]; exact lookO)
  have s3 := segment_ok C hc M op M.results D.resultKinds op.resultTys hg.fitsR hg.uniqR resSegName lookR
  have s4 := splitByKinds_flatten D.regionKinds op.regions hg.fitsG hg.uniqG
  have s5 := splitByKinds_flatten D.succKinds op.succs hg.fitsS hg.uniqS
  have d1 : ((hdrOf C M op).props.filter (notSeg C)).map (pairOf C) = op.props :=
    dict_back C hc M op true op.props hg.noSegP
  have d2 : ((hdrOf C M op).attrs.filter (notSeg C)).map (pairOf C) = op.attrs :=
    dict_back C hc M op false op.attrs hg.noSegA
  simp only [instOf, genericTree, instOfOp, e1, e2, e3, e4, s1, s2, s3, s4, s5, d1, d2,
    regionList_chain C hc, Option.bind_some, Option.map_some]

/-- **generic round trip of one instance** -/
theorem parseGeneric_printGeneric (C : Codec) (hc : CodecOK C) (D : Defs) (M : Modes)
    (defs : Nat → List Nat) (op : OpInst) (hg : GenericOK C D M defs op) :
    parseGeneric C D M defs (printGeneric C M op) = some op := by
  unfold parseGeneric
  rw [generic_readable C hc D M defs op hg]
  exact instOf_genericTree C hc D M defs op hg

end Xdsl.DeclGeneric
