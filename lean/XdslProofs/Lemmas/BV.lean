import XdslProofs.Lemmas.PyInt
/-! `BitVec.ofInt` vs. Python's bitwise operators on unbounded integers. -/
namespace Xdsl.BV

theorem getLsbD_ofInt (w : Nat) (z : Int) (i : Nat) :
    (BitVec.ofInt w z).getLsbD i = (decide (i < w) && z.testBit i) := by
  have hpos : 0 < 2 ^ w := Nat.two_pow_pos w
  cases z with
  | ofNat n =>
    have : BitVec.ofInt w (Int.ofNat n) = BitVec.ofNat w n := by
      simp
    rw [this, BitVec.getLsbD_ofNat]; rfl
  | negSucc n =>
    apply Eq.trans (b := (BitVec.ofNat w (2 ^ w - (n % 2 ^ w + 1))).getLsbD i)
    · congr 1
      apply BitVec.eq_of_toNat_eq
      simp only [BitVec.toNat_ofInt, BitVec.toNat_ofNat]
      have hb : (0 : Int) < ((2 ^ w : Nat) : Int) := by exact_mod_cast hpos
      rw [Int.negSucc_emod n hb]
      have hlt : n % 2 ^ w < 2 ^ w := Nat.mod_lt _ hpos
      have : (((2 ^ w : Nat) : Int) - 1 - (n : Int) % ((2 ^ w : Nat) : Int)) = ((2 ^ w - (n % 2 ^ w + 1) : Nat) : Int) := by
        rw [← Int.natCast_emod]; omega
      rw [this, Int.toNat_natCast]
      exact (Nat.mod_eq_of_lt (by omega)).symm
    · rw [BitVec.getLsbD_ofNat, Nat.testBit_two_pow_sub_succ (Nat.mod_lt _ hpos), Nat.testBit_mod_two_pow]
      simp only [Int.testBit]
      cases hd : decide (i < w) <;> simp

theorem ofInt_land (w : Nat) (a b : Int) :
    BitVec.ofInt w (Py.land a b) = BitVec.ofInt w a &&& BitVec.ofInt w b := by
  apply BitVec.eq_of_getLsbD_eq
  intro i hi
  rw [BitVec.getLsbD_and, getLsbD_ofInt, getLsbD_ofInt, getLsbD_ofInt, Py.land_eq, Int.testBit_land]
  simp [hi]

theorem ofInt_lor (w : Nat) (a b : Int) :
    BitVec.ofInt w (Py.lor a b) = BitVec.ofInt w a ||| BitVec.ofInt w b := by
  apply BitVec.eq_of_getLsbD_eq
  intro i hi
  rw [BitVec.getLsbD_or, getLsbD_ofInt, getLsbD_ofInt, getLsbD_ofInt, Py.lor_eq, Int.testBit_lor]
  simp [hi]

theorem ofInt_xor (w : Nat) (a b : Int) :
    BitVec.ofInt w (Py.xor a b) = BitVec.ofInt w a ^^^ BitVec.ofInt w b := by
  apply BitVec.eq_of_getLsbD_eq
  intro i hi
  rw [BitVec.getLsbD_xor, getLsbD_ofInt, getLsbD_ofInt, getLsbD_ofInt, Py.xor_eq, Int.testBit_lxor]
  simp [hi]

/-- narrowing a bit pattern given by an integer: keep the low bits of the same integer -/
theorem setWidth_ofInt_of_le (wi w : Nat) (h : w ≤ wi) (a : Int) :
    (BitVec.ofInt wi a).setWidth w = BitVec.ofInt w a := by
  apply BitVec.eq_of_getLsbD_eq
  intro i hi
  rw [BitVec.getLsbD_setWidth, getLsbD_ofInt, getLsbD_ofInt]
  have : i < wi := by omega
  simp [hi, this]

end Xdsl.BV
