import XdslProofs.Lemmas.DeclFormatStage1
import XdslProofs.Lemmas.DeclFormatDict
/-!
C05, stage 2c: `build` on the state `replayD fmt op {}` returns the operation's own lists.
-/
namespace Xdsl.DeclFormat
set_option linter.unusedSimpArgs false

theorem mapM_some_of_forall {α : Type} (l : List Nat) (f : Nat → Option α) (g : Nat → α)
    (h : ∀ i ∈ l, f i = some (g i)) : l.mapM f = some (l.map g) := by
  induction l with
  | nil => rfl
  | cons a l ih =>
    have h1 := h a (List.mem_cons_self ..)
    have h2 := ih (fun i hi => h i (List.mem_cons_of_mem _ hi))
    simp [List.mapM_cons, h1, h2]

theorem map_seg_range (l : List (List Nat)) : (List.range l.length).map (seg l) = l := by
  apply List.ext_getElem
  · simp
  · intro i h1 h2
    simp [seg, List.getD_eq_getElem?_getD, List.getElem?_eq_getElem (by simpa using h1)]

/-- coverage of the structural slots by the format (what the format compiler checks: every operand,
region, successor has its variable; every type is given or inferable) -/
structure CoversSlots (D : Defs) (fmt : List Dir) (op : OpInst) : Prop where
  lenO : op.operands.length = D.operandKinds.length
  lenT : op.operandTys.length = D.operandKinds.length
  lenR : op.resultTys.length = D.resultKinds.length
  lenG : op.regions.length = D.regionKinds.length
  lenS : op.succs.length = D.succKinds.length
  operands : ∀ i, i < D.operandKinds.length → bindsD .operands i fmt = true
  tysLen : ∀ i, i < D.operandKinds.length → (seg op.operandTys i).length = (seg op.operands i).length
  operandTys : ∀ i, i < D.operandKinds.length → bindsD .operandTys i fmt = true ∨
    ∃ t, D.operandFixed.getD i none = some t ∧ seg op.operandTys i = List.replicate (seg op.operands i).length t
  resultTys : ∀ i, i < D.resultKinds.length → bindsD .resultTys i fmt = true ∨
    ∃ t, D.resultFixed.getD i none = some t ∧ D.resultKinds.getD i Kind.var = Kind.single ∧ seg op.resultTys i = [t]
  regions : ∀ i, i < D.regionKinds.length → bindsD .regions i fmt = true
  succs : ∀ i, i < D.succKinds.length → bindsD .succs i fmt = true

theorem get_of_set_agree {fam : Fam} {op : OpInst} {st : PState} {i : Nat}
    (ha : AgreeF fam op st) (hs : SetF fam i st) : AL.get (getF fam st) i = some (seg (opF fam op) i) := by
  unfold SetF at hs
  cases h : AL.get (getF fam st) i with
  | none => simp [h] at hs
  | some xs => rw [ha i xs h]

theorem build_replayD (D : Defs) (op : OpInst) (fmt : List Dir) (K : List Cls)
    (hwf : wfD fmt K = true) (hfrag : fragD fmt = true) (hv : ValidD D op fmt) (hc : CoversSlots D fmt op) :
    build D (replayD D op fmt {}) =
      some { operands := op.operands, operandTys := op.operandTys, resultTys := op.resultTys,
             regions := op.regions, succs := op.succs,
             props := (replayD D op fmt {}).props, attrs := (replayD D op fmt {}).attrs } := by
  have agree : ∀ fam, AgreeF fam op (replayD D op fmt {}) :=
    fun fam => agreeF_replayD D op fmt {} fam hfrag hv (agreeF_init fam op)
  have isset : ∀ fam i, bindsD fam i fmt = true → i < (opF fam op).length → SetF fam i (replayD D op fmt {}) :=
    fun fam i hb hi => setF_replayD D op fmt K {} fam i hwf hfrag hb hi
  have hO : buildOperands (replayD D op fmt {}) D.operandKinds.length = some op.operands := by
    unfold buildOperands
    rw [mapM_some_of_forall _ _ (seg op.operands)]
    · rw [← hc.lenO, map_seg_range]
    · intro i hi
      have hi' : i < D.operandKinds.length := by simpa using hi
      have := get_of_set_agree (agree .operands) (isset .operands i (hc.operands i hi')
        (by simp only [opF]; rw [hc.lenO]; exact hi'))
      simpa [getF, opF] using this
  have hT : buildOperandTys D (replayD D op fmt {}) op.operands = some op.operandTys := by
    unfold buildOperandTys
    rw [mapM_some_of_forall _ _ (seg op.operandTys)]
    · rw [hc.lenO, ← hc.lenT, map_seg_range]
    · intro i hi
      have hi' : i < D.operandKinds.length := by rw [← hc.lenO]; simpa using hi
      cases hg : AL.get (replayD D op fmt {}).operandTys i with
      | some tys =>
        have := agree .operandTys i tys (by simpa [getF] using hg)
        simp only [opF] at this
        subst this
        simp [hc.tysLen i hi']
      | none =>
        rcases hc.operandTys i hi' with hb | ⟨t, ht1, ht2⟩
        · have := isset .operandTys i hb (by simp only [opF]; rw [hc.lenT]; exact hi')
          simp [SetF, getF, hg] at this
        · simp only [List.getD_eq_getElem?_getD] at ht1
          simp [ht1, ht2]
  have hR : buildResultTys D (replayD D op fmt {}) = some op.resultTys := by
    unfold buildResultTys
    rw [mapM_some_of_forall _ _ (seg op.resultTys)]
    · rw [← hc.lenR, map_seg_range]
    · intro i hi
      have hi' : i < D.resultKinds.length := by simpa using hi
      cases hg : AL.get (replayD D op fmt {}).resultTys i with
      | some tys =>
        have := agree .resultTys i tys (by simpa [getF] using hg)
        simp only [opF] at this
        subst this
        rfl
      | none =>
        rcases hc.resultTys i hi' with hb | ⟨t, ht1, ht2, ht3⟩
        · have := isset .resultTys i hb (by simp only [opF]; rw [hc.lenR]; exact hi')
          simp [SetF, getF, hg] at this
        · simp only [List.getD_eq_getElem?_getD] at ht1 ht2
          simp [ht1, ht2, ht3]
  have hG : buildSlots (replayD D op fmt {}).regions D.regionKinds = some op.regions := by
    unfold buildSlots
    rw [mapM_some_of_forall _ _ (seg op.regions)]
    · rw [← hc.lenG, map_seg_range]
    · intro i hi
      have hi' : i < D.regionKinds.length := by simpa using hi
      have := get_of_set_agree (agree .regions) (isset .regions i (hc.regions i hi')
        (by simp only [opF]; rw [hc.lenG]; exact hi'))
      simp only [getF, opF] at this
      simp [this]
  have hS : buildSlots (replayD D op fmt {}).succs D.succKinds = some op.succs := by
    unfold buildSlots
    rw [mapM_some_of_forall _ _ (seg op.succs)]
    · rw [← hc.lenS, map_seg_range]
    · intro i hi
      have hi' : i < D.succKinds.length := by simpa using hi
      have := get_of_set_agree (agree .succs) (isset .succs i (hc.succs i hi')
        (by simp only [opF]; rw [hc.lenS]; exact hi'))
      simp only [getF, opF] at this
      simp [this]
  simp [build, hO, hT, hR, hG, hS]

end Xdsl.DeclFormat
