import XdslProofs.Lemmas.ConstraintSound
/-! `infer` returns an attribute that `verify` accepts (C09). -/
namespace Xdsl.Constraint

mutual
/-- The region excluded from `infer_verifies`: an `AllOf` whose first inferable conjunct infers an
attribute that another conjunct rejects (known finding: `AllOf.infer` does not consult the other
conjuncts).  `AllOfAgree` says no `AllOf` node met by `infer` is of that kind. -/
def AllOfAgree (U : Univ) (ctx : Ctx) : C → Prop
  | .allOf cs => ∀ a, inferFirst U cs ctx = some a → verifyAll U cs a ctx = some ctx
  | .param _ ps => AllOfAgreeL U ctx ps
  | .var _ c => AllOfAgree U ctx c
  | .msg _ c => AllOfAgree U ctx c
  | _ => True
def AllOfAgreeL (U : Univ) (ctx : Ctx) : List C → Prop
  | [] => True
  | c :: cs => AllOfAgree U ctx c ∧ AllOfAgreeL U ctx cs
end

section
variable (U : Univ)

def InferAt (c : C) : Prop := ∀ ctx a, (∀ n ∈ vars c, (AL.get ctx n).isSome = true) → AllOfAgree U ctx c →
    canInfer U (ctxVars ctx) c = true → infer U c ctx = some a → verify U c a ctx = some ctx

theorem inferAll_verifyZip (ctx : Ctx) : ∀ ps as, (∀ p ∈ ps, InferAt U p) →
    (∀ n ∈ varsL ps, (AL.get ctx n).isSome = true) → AllOfAgreeL U ctx ps →
    canInferAll U (ctxVars ctx) ps = true → inferAll U ps ctx = some as → verifyZip U ps as ctx = some ctx
  | [], as, _, _, _, _, h => by simp only [inferAll] at h; cases h; simp [verifyZip]
  | p :: ps, as, ih, hb, hag, hc, h => by
    simp only [inferAll] at h
    simp only [canInferAll, Bool.and_eq_true] at hc
    simp only [AllOfAgreeL] at hag
    cases h1 : infer U p ctx with
    | none => simp [h1] at h
    | some a =>
      simp only [h1] at h
      cases h2 : inferAll U ps ctx with
      | none => simp [h2] at h
      | some as' =>
        simp only [h2] at h; cases h
        have hbp : ∀ n ∈ vars p, (AL.get ctx n).isSome = true := fun n hn => hb n (by simp [varsL, hn])
        have hbps : ∀ n ∈ varsL ps, (AL.get ctx n).isSome = true := fun n hn => hb n (by simp [varsL, hn])
        have v1 := ih p (List.mem_cons_self ..) ctx a hbp hag.1 hc.1 h1
        have v2 := inferAll_verifyZip ctx ps as' (fun p' hp' => ih p' (List.mem_cons_of_mem _ hp')) hbps hag.2 hc.2 h2
        simp [verifyZip, v1, v2]

/-- whenever `can_infer` holds (all variables of the constraint being bound, and outside the
`AllOf` region above) the inferred attribute verifies in the same context, which it leaves unchanged -/
theorem infer_verify : ∀ c, InferAt U c := by
  intro c
  induction c using C.ind with
  | any => intro ctx a _ _ hc _; simp [canInfer] at hc
  | eq b =>
    intro ctx a _ _ _ h
    simp only [infer] at h; cases h
    simp [verify]
  | set vs => intro ctx a _ _ hc _; simp [canInfer] at hc
  | base d =>
    intro ctx a _ _ _ h
    simp only [infer] at h
    split at h
    · cases h; simp [verify, Attr.cls, isSub_refl]
    · cases h
  | anyOf cs _ => intro ctx a _ _ hc _; simp [canInfer] at hc
  | allOf cs _ =>
    intro ctx a _ hag _ h
    simp only [infer] at h
    simp only [AllOfAgree] at hag
    simp only [verify]
    exact hag a h
  | param d ps ih =>
    intro ctx a hb hag hc h
    simp only [infer] at h
    simp only [canInfer, Bool.and_eq_true] at hc
    simp only [AllOfAgree] at hag
    cases h1 : inferAll U ps ctx with
    | none => simp [h1] at h
    | some as =>
      simp only [h1] at h
      split at h
      · cases h
        have := inferAll_verifyZip U ctx ps as ih (by simpa [vars] using hb) hag hc.2 h1
        simp [verify, Attr.cls, isSub_refl, this]
      · cases h
  | var n c _ =>
    intro ctx a hb _ _ h
    have hn := hb n (by simp [vars])
    simp only [infer] at h
    cases hg : AL.get ctx n with
    | none => simp [hg] at hn
    | some v =>
      simp only [hg] at h; cases h
      simp [verify, hg]
  | msg n c ih =>
    intro ctx a hb hag hc h
    exact ih ctx a (by simpa [vars] using hb) hag hc h
  | tvar n c _ => intro ctx a _ _ hc _; simp [canInfer] at hc
  | arrayOf k c _ => intro ctx a _ _ hc _; simp [canInfer] at hc

/-- `AllOf.infer` is the inference of its first inferable conjunct -/
theorem inferFirst_spec (ctx : Ctx) : ∀ cs a, inferFirst U cs ctx = some a →
    ∃ c ∈ cs, canInfer U (ctxVars ctx) c = true ∧ infer U c ctx = some a
  | [], a, h => by simp [inferFirst] at h
  | c :: cs, a, h => by
    simp only [inferFirst] at h
    split at h
    · rename_i hc; exact ⟨c, List.mem_cons_self .., hc, h⟩
    · obtain ⟨c', hc', h1, h2⟩ := inferFirst_spec ctx cs a h
      exact ⟨c', List.mem_cons_of_mem _ hc', h1, h2⟩

end

end Xdsl.Constraint
