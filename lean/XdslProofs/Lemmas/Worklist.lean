import XdslModel.Worklist
import XdslProofs.Lemmas.AL
namespace Xdsl.Worklist

/-- `map x = i` exactly when slot `i` of the stack holds `x` (the invariant the Python comments state). -/
def Inv (s : WL) : Prop := ∀ x i, AL.get s.map x = some i ↔ s.stack[i]? = some (some x)

theorem dm_decomp (l : List (Option Nat)) : ∃ k, l = dropMissing l ++ List.replicate k none := by
  induction l with
  | nil => exact ⟨0, rfl⟩
  | cons x r ih =>
    obtain ⟨k, hk⟩ := ih
    simp only [dropMissing]
    cases hd : dropMissing r with
    | nil =>
      rw [hd] at hk
      cases x with
      | none => exact ⟨k + 1, by simp [hk, List.replicate_succ]⟩
      | some y => exact ⟨k, by simp [hk]⟩
    | cons a t => exact ⟨k, by rw [hd] at hk; simp [← hk]⟩

theorem dm_last (l : List (Option Nat)) :
    dropMissing l = [] ∨ ∃ init x, dropMissing l = init ++ [some x] := by
  induction l with
  | nil => left; rfl
  | cons x r ih =>
    simp only [dropMissing]
    cases hd : dropMissing r with
    | nil =>
      cases x with
      | none => left; rfl
      | some y => right; exact ⟨[], y, rfl⟩
    | cons a t =>
      right
      rw [hd] at ih
      rcases ih with h | ⟨init, y, h⟩
      · cases h
      · exact ⟨x :: init, y, by simp [h]⟩

theorem unsnoc_append (init : List (Option Nat)) (a : Option Nat) :
    unsnoc? (init ++ [a]) = some (init, a) := by
  induction init with
  | nil => rfl
  | cons x r ih =>
    cases r with
    | nil => simp [unsnoc?]
    | cons y t => simp only [List.cons_append] at ih ⊢; simp [unsnoc?, ih]

theorem filterMap_replicate_none (k : Nat) :
    (List.replicate k (none : Option Nat)).filterMap id = [] := by
  induction k with
  | zero => rfl
  | succ n ih => simp [List.replicate_succ, ih]

theorem getElem_replicate_none (k i : Nat) (x : Nat) :
    (List.replicate k (none : Option Nat))[i]? ≠ some (some x) := by
  intro h
  have := List.mem_of_getElem? h
  simp at this

theorem filterMap_dm (l : List (Option Nat)) :
    (dropMissing l).filterMap id = l.filterMap id := by
  obtain ⟨k, hk⟩ := dm_decomp l
  conv => rhs; rw [hk]
  simp [filterMap_replicate_none]

theorem getElem_dm (l : List (Option Nat)) (i x : Nat) :
    (dropMissing l)[i]? = some (some x) ↔ l[i]? = some (some x) := by
  obtain ⟨k, hk⟩ := dm_decomp l
  conv => rhs; rw [hk]
  rw [List.getElem?_append]
  split
  · rfl
  · rename_i h
    constructor
    · intro h2
      have : (dropMissing l)[i]? = none := by simp at h; simp [h]
      rw [this] at h2; cases h2
    · intro h2; exact absurd h2 (getElem_replicate_none _ _ _)

theorem mem_abs_iff (s : WL) (x : Nat) : x ∈ abs s ↔ ∃ i : Nat, s.stack[i]? = some (some x) := by
  simp only [abs, List.mem_reverse, List.mem_filterMap, id]
  constructor
  · rintro ⟨a, ha, rfl⟩
    obtain ⟨i, hi⟩ := List.getElem?_of_mem ha
    exact ⟨i, hi⟩
  · rintro ⟨i, hi⟩
    exact ⟨some x, List.mem_of_getElem? hi, rfl⟩

theorem mem_abs_iff_map (s : WL) (h : Inv s) (x : Nat) :
    x ∈ abs s ↔ (AL.get s.map x).isSome = true := by
  rw [mem_abs_iff]
  constructor
  · rintro ⟨i, hi⟩; rw [(h x i).mpr hi]; rfl
  · intro hx
    cases hg : AL.get s.map x with
    | none => rw [hg] at hx; cases hx
    | some i => exact ⟨i, (h x i).mp hg⟩

theorem filterMap_set_none (l : List (Option Nat)) (i x : Nat)
    (hi : l[i]? = some (some x)) (huniq : ∀ j, l[j]? = some (some x) → j = i) :
    (l.set i none).filterMap id = (l.filterMap id).filter (fun y => !decide (y = x)) := by
  induction l generalizing i with
  | nil => simp at hi
  | cons a r ih =>
    cases i with
    | zero =>
      simp at hi; subst hi
      have hx : x ∉ r.filterMap id := by
        intro hm
        simp only [List.mem_filterMap, id] at hm
        obtain ⟨b, hb, rfl⟩ := hm
        obtain ⟨j, hj⟩ := List.getElem?_of_mem hb
        have := huniq (j + 1) (by simpa using hj)
        omega
      have : (r.filterMap id).filter (fun y => !decide (y = x)) = r.filterMap id := by
        rw [List.filter_eq_self]; intro y hy; simp; intro e; subst e; exact hx hy
      simp [this]
    | succ i' =>
      have ha : a ≠ some x := by
        intro e; subst e
        have := huniq 0 (by simp)
        omega
      have ih' := ih i' (by simpa using hi) (by
        intro j hj
        have := huniq (j + 1) (by simpa using hj)
        omega)
      cases a with
      | none => simpa using ih'
      | some y =>
        have hy : y ≠ x := by intro e; subst e; exact ha rfl
        simp [ih', hy]

end Xdsl.Worklist
