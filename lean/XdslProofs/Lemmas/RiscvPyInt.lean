import XdslModel.PyInt
import XdslModel.Generated.Comparisons
import XdslModel.Generated.BuiltinInt
/-!
Mathlib-free bridge between the Python-integer primitives of the translator (`XdslModel/PyInt.lean`),
the translated `utils/comparisons.py` / `IntegerType.normalized_value`, and `BitVec`.

The statements about `to_unsigned`, `to_signed`, `normalized_value` and `&`/`|`/`^` repeat those of
`Lemmas/PyInt.lean`, `Lemmas/BV.lean` and `Lemmas/ArithFold.lean` (C14/C15), which go through
`Mathlib.Data.Int.Bitwise`; they are re-proved here on core Lean only so that the C22 proof modules —
whose axiom audit runs on every check — do not load Mathlib.
-/
namespace Xdsl.RvK
open Xdsl Xdsl.Generated.Comparisons Xdsl.Generated.BuiltinInt

/-! ### arithmetic primitives -/

theorem mod_eq_emod (x m : Int) (hm : 0 ≤ m) : Py.mod x m = x % m :=
  Int.fmod_eq_emod_of_nonneg x hm

theorem shl_one_nat (w : Nat) : Py.shl 1 (w : Int) = (2 : Int) ^ w := by
  simp [Py.shl]

theorem shl_nat (a : Int) (w : Nat) : Py.shl a (w : Int) = a * (2 : Int) ^ w := by
  simp [Py.shl]

theorem shr_nat (a : Int) (k : Nat) : Py.shr a (k : Int) = a / (2 : Int) ^ k := by
  simp only [Py.shr, Int.toNat_natCast]
  exact Int.fdiv_eq_ediv_of_nonneg a (Int.pow_nonneg (by omega))

theorem shr_one (a : Int) : Py.shr a 1 = a / 2 := by
  have := shr_nat a 1
  simpa using this

theorem two_pow_cast (n : Nat) : ((2 : Int) ^ n) = (((2 : Nat) ^ n : Nat) : Int) := by push_cast; rfl

/-! ### `utils/comparisons.py` -/

theorem unsigned_upper_bound_eq (w : Nat) : unsigned_upper_bound (w : Int) = (2 : Int) ^ w := by
  simp [unsigned_upper_bound, shl_one_nat]

/-- `to_unsigned x w` is the unsigned value of the `w`-bit pattern of `x`. -/
theorem to_unsigned_eq (x : Int) (w : Nat) :
    to_unsigned x (w : Int) = ((BitVec.ofInt w x).toNat : Int) := by
  have hpos : (0 : Int) < 2 ^ w := Int.pow_pos (by omega)
  simp only [to_unsigned, unsigned_upper_bound_eq, BitVec.toNat_ofInt]
  rw [mod_eq_emod _ _ (Int.le_of_lt hpos)]
  rw [← two_pow_cast, Int.toNat_of_nonneg (Int.emod_nonneg _ (Int.ne_of_gt hpos))]
  simp

/-- `to_signed x w` is the two's-complement value of the `w`-bit pattern of `x`. -/
theorem to_signed_eq (x : Int) (w : Nat) :
    to_signed x (w : Int) = (BitVec.ofInt w x).toInt := by
  have hpos : (0 : Int) < 2 ^ w := Int.pow_pos (by omega)
  simp only [to_signed, unsigned_upper_bound_eq, shr_one, BitVec.toInt_ofInt]
  rw [mod_eq_emod _ _ (Int.le_of_lt hpos)]
  cases w with
  | zero => simp [Int.bmod]
  | succ n =>
    have h2 : (2 : Int) ^ (n + 1) = 2 * 2 ^ n := by rw [Int.pow_succ]; omega
    have hp : (0 : Int) < 2 ^ n := Int.pow_pos (by omega)
    rw [Int.bmod_def]
    have e1 : (2 : Int) ^ (n + 1) / 2 = 2 ^ n := by rw [h2]; omega
    have e2 : (((2 : Nat) ^ (n + 1) : Nat) : Int) = 2 * 2 ^ n := by push_cast; exact h2
    rw [e1]
    simp only [e2, h2]
    have e3 : (2 * (2 : Int) ^ n + 1) / 2 = 2 ^ n := by omega
    rw [e3]
    generalize (2 : Int) ^ n = h at *
    have hr := Int.emod_nonneg x (show (2 * h) ≠ 0 by omega)
    have hr2 := Int.emod_lt_of_pos x (show 0 < 2 * h by omega)
    rw [Int.add_emod]
    have hh : h % (2 * h) = h := Int.emod_eq_of_lt (by omega) (by omega)
    rw [hh]
    generalize x % (2 * h) = r at *
    split
    · rw [Int.emod_eq_of_lt (by omega) (by omega)]; omega
    · have : (r + h) % (2 * h) = r + h - 2 * h := by
        rw [← Int.sub_emod_right]
        exact Int.emod_eq_of_lt (by omega) (by omega)
      rw [this]; omega

theorem signed_upper_bound_eq (w : Nat) (hw : 1 ≤ w) :
    signed_upper_bound (w : Int) = (2 : Int) ^ (w - 1) := by
  have : Py.max ((w : Int) - 1) 0 = ((w - 1 : Nat) : Int) := by
    simp only [Py.max]; split <;> omega
  simp only [signed_upper_bound, this, shl_one_nat]

theorem signed_lower_bound_eq (w : Nat) (hw : 1 ≤ w) :
    signed_lower_bound (w : Int) = -(2 : Int) ^ (w - 1) := by
  simp only [signed_lower_bound, shl_one_nat, shr_one]
  obtain ⟨n, rfl⟩ : ∃ n, w = n + 1 := ⟨w - 1, by omega⟩
  rw [Int.pow_succ]; simp

/-! ### `IntegerType.normalized_value` (signless) -/

/-- uniqueness of the two's-complement representative -/
theorem toInt_unique (w : Nat) (hw : 1 ≤ w) (v r : Int) (hc : r % 2 ^ w = v % 2 ^ w)
    (hlo : -(2 : Int) ^ (w - 1) ≤ r) (hhi : r < (2 : Int) ^ (w - 1)) :
    r = (BitVec.ofInt w v).toInt := by
  have e : BitVec.ofInt w v = BitVec.ofInt w r := by
    apply BitVec.eq_of_toNat_eq
    simp only [BitVec.toNat_ofInt]
    rw [← two_pow_cast, hc]
  obtain ⟨n, rfl⟩ : ∃ n, w = n + 1 := ⟨w - 1, by omega⟩
  have h2 : (((2 : Nat) ^ (n + 1) : Nat) : Int) = 2 * 2 ^ n := by push_cast; rw [Int.pow_succ]; omega
  simp only [Nat.add_sub_cancel] at hlo hhi
  rw [e, BitVec.toInt_ofInt]
  symm
  apply Int.bmod_eq_of_le <;> rw [h2] <;> omega

/-- `IntegerType.normalized_value(v, truncate_bits=t)` for a signless type of width `w ≥ 1`: when
truncation is requested, or `v` already lies in the signless range `[-2^(w-1), 2^w)`, the result is
the two's-complement value of the `w`-bit pattern of `v` (in particular it is not `None`). -/
theorem normalized_eq (w : Nat) (hw : 1 ≤ w) (v : Int) (t : Bool)
    (h : t = true ∨ (-(2 : Int) ^ (w - 1) ≤ v ∧ v < (2 : Int) ^ w)) :
    normalized_value_signless (w : Int) v t = some (BitVec.ofInt w v).toInt := by
  have hpos : (0 : Int) < 2 ^ w := Int.pow_pos (by omega)
  have hm : (2 : Int) ^ w = 2 * 2 ^ (w - 1) := by
    obtain ⟨n, rfl⟩ : ∃ n, w = n + 1 := ⟨w - 1, by omega⟩
    rw [Int.pow_succ]; simp; omega
  simp only [normalized_value_signless, signless_value_range, signed_lower_bound_eq w hw,
    unsigned_upper_bound_eq, signed_upper_bound_eq w hw, Int.toNat_natCast]
  rw [mod_eq_emod _ _ (Int.le_of_lt hpos)]
  have hr0 := Int.emod_nonneg v (Int.ne_of_gt hpos)
  have hr1 := Int.emod_lt_of_pos v hpos
  have c1 : (v % 2 ^ w) % 2 ^ w = v % 2 ^ w := Int.emod_emod_of_dvd _ (Int.dvd_refl _)
  have c2 : (v % 2 ^ w - 2 ^ w) % 2 ^ w = v % 2 ^ w := by rw [Int.sub_emod_right, c1]
  have c3 : (v - 2 ^ w) % 2 ^ w = v % 2 ^ w := Int.sub_emod_right _ _
  generalize hh : (2 : Int) ^ (w - 1) = k at *
  simp only [decide_eq_true_eq, if_true]
  split
  · rename_i hout
    simp only [Bool.not_eq_true', Bool.and_eq_false_iff, decide_eq_false_iff_not] at hout
    have ht : t = true := by
      rcases h with h | h
      · exact h
      · omega
    subst ht
    simp only [Bool.not_true, Bool.false_eq_true, if_false]
    split
    · congr 1; apply toInt_unique w hw <;> (try rw [hh]) <;> first | exact c2 | omega
    · congr 1; apply toInt_unique w hw <;> (try rw [hh]) <;> first | exact c1 | omega
  · rename_i hin
    simp only [Bool.not_eq_true', Bool.and_eq_false_iff, decide_eq_false_iff_not, not_or,
      Decidable.not_not] at hin
    split
    · congr 1; apply toInt_unique w hw <;> (try rw [hh]) <;> first | exact c3 | omega
    · congr 1; apply toInt_unique w hw <;> (try rw [hh]) <;> first | rfl | omega

/-! ### `&`, `|`, `^` on unbounded integers -/

/-- bit `i` of a Python int in two's complement -/
def tb (z : Int) (i : Nat) : Bool :=
  match z with
  | .ofNat m => m.testBit i
  | .negSucc m => !m.testBit i

theorem getLsbD_ofInt (w : Nat) (z : Int) (i : Nat) :
    (BitVec.ofInt w z).getLsbD i = (decide (i < w) && tb z i) := by
  cases z with
  | ofNat n =>
    have : BitVec.ofInt w (Int.ofNat n) = BitVec.ofNat w n := by simp
    rw [this, BitVec.getLsbD_ofNat]; rfl
  | negSucc n =>
    rw [BitVec.ofInt_negSucc_eq_not_ofNat, BitVec.getLsbD_not, BitVec.getLsbD_ofNat]
    simp only [tb]
    cases decide (i < w) <;> simp

theorem natLdiff_testBit (m k i : Nat) : (Py.natLdiff m k).testBit i = (m.testBit i && !k.testBit i) := by
  unfold Py.natLdiff
  rw [Nat.testBit_bitwise (by rfl)]

theorem tb_land (a b : Int) (i : Nat) : tb (Py.land a b) i = (tb a i && tb b i) := by
  cases a <;> cases b <;> simp only [Py.land, tb, Nat.testBit_and, Nat.testBit_or, natLdiff_testBit]
  · rename_i m n; cases m.testBit i <;> cases n.testBit i <;> rfl
  · rename_i m n; cases m.testBit i <;> cases n.testBit i <;> rfl

theorem tb_lor (a b : Int) (i : Nat) : tb (Py.lor a b) i = (tb a i || tb b i) := by
  cases a <;> cases b <;> simp only [Py.lor, tb, Nat.testBit_and, Nat.testBit_or, natLdiff_testBit]
  all_goals (rename_i m n; cases m.testBit i <;> cases n.testBit i <;> rfl)

theorem tb_xor (a b : Int) (i : Nat) : tb (Py.xor a b) i = (tb a i ^^ tb b i) := by
  cases a <;> cases b <;> simp only [Py.xor, tb, Nat.testBit_xor]
  all_goals (rename_i m n; cases m.testBit i <;> cases n.testBit i <;> rfl)

theorem ofInt_land (w : Nat) (a b : Int) :
    BitVec.ofInt w (Py.land a b) = BitVec.ofInt w a &&& BitVec.ofInt w b := by
  apply BitVec.eq_of_getLsbD_eq
  intro i hi
  rw [BitVec.getLsbD_and, getLsbD_ofInt, getLsbD_ofInt, getLsbD_ofInt, tb_land]
  simp [hi]

theorem ofInt_lor (w : Nat) (a b : Int) :
    BitVec.ofInt w (Py.lor a b) = BitVec.ofInt w a ||| BitVec.ofInt w b := by
  apply BitVec.eq_of_getLsbD_eq
  intro i hi
  rw [BitVec.getLsbD_or, getLsbD_ofInt, getLsbD_ofInt, getLsbD_ofInt, tb_lor]
  simp [hi]

theorem ofInt_xor (w : Nat) (a b : Int) :
    BitVec.ofInt w (Py.xor a b) = BitVec.ofInt w a ^^^ BitVec.ofInt w b := by
  apply BitVec.eq_of_getLsbD_eq
  intro i hi
  rw [BitVec.getLsbD_xor, getLsbD_ofInt, getLsbD_ofInt, getLsbD_ofInt, tb_xor]
  simp [hi]

end Xdsl.RvK
