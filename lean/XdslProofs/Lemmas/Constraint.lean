import XdslModel.Constraint
import XdslProofs.Lemmas.AL
/-!
Helper lemmas and the declarative specification (`sat`) for the C09 constraint model.
-/
namespace Xdsl.Constraint

/-! ## attribute equality -/

mutual
theorem Attr.beq_iff : ∀ (a b : Attr), Attr.beq a b = true ↔ a = b
  | .param c ps, .param c' ps' => by simp [Attr.beq, Attr.beqL_iff ps ps']
  | .data c p, .data c' p' => by simp [Attr.beq]
  | .arr c ps, .arr c' ps' => by simp [Attr.beq, Attr.beqL_iff ps ps']
  | .param .., .data .. | .param .., .arr .. | .data .., .param .. | .data .., .arr ..
  | .arr .., .param .. | .arr .., .data .. => by simp [Attr.beq]
theorem Attr.beqL_iff : ∀ (a b : List Attr), Attr.beqL a b = true ↔ a = b
  | [], [] => by simp [Attr.beqL]
  | a :: as, b :: bs => by simp [Attr.beqL, Attr.beq_iff a b, Attr.beqL_iff as bs]
  | [], _ :: _ | _ :: _, [] => by simp [Attr.beqL]
end

instance : DecidableEq Attr := fun a b => decidable_of_iff _ (Attr.beq_iff a b)

@[simp] theorem Attr.beq_self (a : Attr) : a.beq a = true := (Attr.beq_iff a a).2 rfl

theorem memA_iff (a : Attr) (vs : List Attr) : memA a vs = true ↔ a ∈ vs := by
  unfold memA
  rw [List.any_eq_true]
  constructor
  · rintro ⟨v, hv, h⟩; rw [Attr.beq_iff] at h; subst h; exact hv
  · intro h; exact ⟨a, h, Attr.beq_self a⟩

theorem mem_dedupA (a : Attr) : ∀ (vs : List Attr), a ∈ dedupA vs ↔ a ∈ vs
  | [] => by simp [dedupA]
  | v :: vs => by
    simp only [dedupA, List.mem_cons, List.mem_filter, mem_dedupA a vs]
    constructor
    · rintro (h | ⟨h, _⟩)
      · exact Or.inl h
      · exact Or.inr h
    · rintro (h | h)
      · exact Or.inl h
      · by_cases e : a = v
        · exact Or.inl e
        · refine Or.inr ⟨h, ?_⟩
          have : a.beq v ≠ true := fun hb => e ((Attr.beq_iff a v).1 hb)
          simpa using this

/-! ## induction principle for the nested constraint type -/

section
set_option linter.unusedSectionVars false
variable {P : C → Prop}
    (any : P .any) (eq : ∀ a, P (.eq a)) (set : ∀ vs, P (.set vs)) (base : ∀ d, P (.base d))
    (anyOf : ∀ cs, (∀ c ∈ cs, P c) → P (.anyOf cs))
    (allOf : ∀ cs, (∀ c ∈ cs, P c) → P (.allOf cs))
    (param : ∀ d ps, (∀ c ∈ ps, P c) → P (.param d ps))
    (var : ∀ n c, P c → P (.var n c))
    (msg : ∀ n c, P c → P (.msg n c))
    (tvar : ∀ n c, P c → P (.tvar n c))
    (arrayOf : ∀ k c, P c → P (.arrayOf k c))
include any eq set base anyOf allOf param var msg tvar arrayOf

mutual
theorem C.ind : ∀ c, P c
  | .any => any
  | .eq a => eq a
  | .set vs => set vs
  | .base d => base d
  | .anyOf cs => anyOf cs (C.indL cs)
  | .allOf cs => allOf cs (C.indL cs)
  | .param d ps => param d ps (C.indL ps)
  | .var n c => var n c (C.ind c)
  | .msg n c => msg n c (C.ind c)
  | .tvar n c => tvar n c (C.ind c)
  | .arrayOf k c => arrayOf k c (C.ind c)
theorem C.indL : ∀ cs : List C, ∀ c ∈ cs, P c
  | [] => fun _ h => absurd h List.not_mem_nil
  | c :: cs => fun c' h =>
    match List.mem_cons.1 h with
    | .inl e => e ▸ C.ind c
    | .inr h => C.indL cs c' h
end
end

/-! ## declarative meaning of a constraint (the property sentence) -/

/-- a variable assignment -/
abbrev Asg := Nat → Option Attr

mutual
/-- `sat U σ c a`: attribute `a` is in the set described by `c` under the assignment `σ`.
union = some alternative, intersection = all, base/eq/set/param = class and parameters,
variable = the assignment maps the name to this very attribute (so all occurrences are equal). -/
def sat (U : Univ) (σ : Asg) : C → Attr → Prop
  | .any, _ => True
  | .eq b, a => a = b
  | .set vs, a => a ∈ vs
  | .base d, a => isSub U a.cls d = true
  | .anyOf cs, a => satAny U σ cs a
  | .allOf cs, a => satAll U σ cs a
  | .param d ps, a => isSub U a.cls d = true ∧ (match a with | .param _ as => satZip U σ ps as | _ => False)
  | .var n c, a => σ n = some a ∧ sat U σ c a
  | .msg _ c, a => sat U σ c a
  | .tvar _ b, a => sat U σ b a
  | .arrayOf k c, a => isSub U a.cls k = true ∧ (match a with | .arr _ es => ∀ e ∈ es, sat U σ c e | _ => False)
def satAny (U : Univ) (σ : Asg) : List C → Attr → Prop
  | [], _ => False
  | c :: cs, a => sat U σ c a ∨ satAny U σ cs a
def satAll (U : Univ) (σ : Asg) : List C → Attr → Prop
  | [], _ => True
  | c :: cs, a => sat U σ c a ∧ satAll U σ cs a
def satZip (U : Univ) (σ : Asg) : List C → List Attr → Prop
  | [], [] => True
  | c :: cs, a :: as => sat U σ c a ∧ satZip U σ cs as
  | _, _ => False
end

theorem satAny_iff (U : Univ) (σ : Asg) (a : Attr) : ∀ cs, satAny U σ cs a ↔ ∃ c ∈ cs, sat U σ c a
  | [] => by simp [satAny]
  | c :: cs => by simp [satAny, satAny_iff U σ a cs]

theorem satAll_iff (U : Univ) (σ : Asg) (a : Attr) : ∀ cs, satAll U σ cs a ↔ ∀ c ∈ cs, sat U σ c a
  | [] => by simp [satAll]
  | c :: cs => by simp [satAll, satAll_iff U σ a cs]

/-- class tables of real Python classes: a runtime-final class has no proper subclass -/
def UnivOK (U : Univ) : Prop := ∀ c d, isFinal U d = true → isSub U c d = true → c = d

theorem isSub_refl (U : Univ) (c : Nat) : isSub U c c = true := by simp [isSub]

mutual
/-- what the constructors enforce: every `AnyOf` node passed `AnyOf.__init__`; `ArrayOfConstraint`
is about the (runtime-final) class `ArrayAttr`. -/
def WF (U : Univ) : C → Prop
  | .any | .eq _ | .set _ | .base _ => True
  | .anyOf cs => checkAnyOf U cs = true ∧ WFL U cs
  | .allOf cs => WFL U cs
  | .param _ ps => WFL U ps
  | .var _ c => WF U c
  | .msg _ c => WF U c
  | .tvar _ c => WF U c
  | .arrayOf k c => isFinal U k = true ∧ WF U c
def WFL (U : Univ) : List C → Prop
  | [] => True
  | c :: cs => WF U c ∧ WFL U cs
end

theorem WFL_iff (U : Univ) : ∀ cs, WFL U cs ↔ ∀ c ∈ cs, WF U c
  | [] => by simp [WFL]
  | c :: cs => by simp [WFL, WFL_iff U cs]

end Xdsl.Constraint
