import XdslModel.Loops
/-! Helper lemmas for C16 (core Lean only). -/
namespace Xdsl.Loops

theorem tripCount_of_not_lt {lb ub step : Int} (h : ¬ lb < ub) : tripCount lb ub step = 0 := by
  unfold tripCount
  rw [if_neg]
  intro hh; exact h hh.1

theorem tripCount_of_step_nonpos {lb ub step : Int} (h : step ≤ 0) : tripCount lb ub step = 0 := by
  unfold tripCount
  rw [if_neg]
  intro hh; omega

theorem tripCount_pos {lb ub step : Int} (hs : 0 < step) (h : lb < ub) : 0 < tripCount lb ub step := by
  unfold tripCount
  rw [if_pos ⟨h, hs⟩]; omega

/-- the recurrence that characterises `tripCount` -/
theorem tripCount_succ {lb ub step : Int} (hs : 0 < step) (h : lb < ub) :
    tripCount lb ub step = tripCount (lb + step) ub step + 1 := by
  unfold tripCount
  rw [if_pos ⟨h, hs⟩]
  by_cases h2 : lb + step < ub
  · rw [if_pos ⟨h2, hs⟩]
    have e : ub - lb - 1 = (ub - (lb + step) - 1) + 1 * step := by omega
    have hne : step ≠ 0 := by omega
    rw [e, Int.add_mul_ediv_right _ _ hne]
    have : 0 ≤ (ub - (lb + step) - 1) / step := Int.ediv_nonneg (by omega) (by omega)
    omega
  · rw [if_neg (fun hh => h2 hh.1)]
    have : (ub - lb - 1) / step = 0 := Int.ediv_eq_zero_of_lt (by omega) (by omega)
    rw [this]; rfl

theorem tripCount_eq_zero_iff {lb ub step : Int} (hs : 0 < step) :
    tripCount lb ub step = 0 ↔ ¬ lb < ub := by
  constructor
  · intro h0 hlt
    have := tripCount_pos hs hlt
    omega
  · exact tripCount_of_not_lt

/-! ### iter / ivs -/

theorem iter_map {σ : Type} (body : Int → σ → Option σ) (f : Int → Int) (l : List Int) (s : σ) :
    iter body (l.map f) s = iter (fun i => body (f i)) l s := by
  induction l generalizing s with
  | nil => rfl
  | cons a r ih =>
    simp only [List.map, iter]
    congr 1; funext s'; exact ih s'

theorem iter_append {σ : Type} (body : Int → σ → Option σ) (l1 l2 : List Int) (s : σ) :
    iter body (l1 ++ l2) s = (iter body l1 s).bind (iter body l2) := by
  induction l1 generalizing s with
  | nil => rfl
  | cons a r ih =>
    simp only [List.cons_append, iter]
    cases body a s with
    | none => rfl
    | some s' => simpa using ih s'

theorem ivs_add (lb step c : Int) (n : Nat) : ivs (lb + c) step n = (ivs lb step n).map (· + c) := by
  induction n generalizing lb with
  | zero => rfl
  | succ n ih =>
    simp only [ivs, List.map]
    have : lb + c + step = (lb + step) + c := by omega
    rw [this, ih]

theorem ivs_mul (lb step c : Int) (n : Nat) : ivs (lb * c) (step * c) n = (ivs lb step n).map (· * c) := by
  induction n generalizing lb with
  | zero => rfl
  | succ n ih =>
    simp only [ivs, List.map]
    rw [← Int.add_mul, ih]

theorem ivs_length (lb step : Int) (n : Nat) : (ivs lb step n).length = n := by
  induction n generalizing lb with
  | zero => rfl
  | succ n ih => simp [ivs, ih]

theorem forLoop_pos {σ : Type} {lb ub step : Int} (hs : 0 < step) (body : Int → σ → Option σ) (s : σ) :
    forLoop lb ub step body s = iter body (ivs lb step (tripCount lb ub step)) s := by
  unfold forLoop
  rw [if_neg (by omega)]

theorem forLoop_nonpos {σ : Type} {lb ub step : Int} (hs : step ≤ 0) (body : Int → σ → Option σ) (s : σ) :
    forLoop lb ub step body s = none := by
  unfold forLoop
  rw [if_pos hs]

/-- zero-trip loop -/
theorem forLoop_zero_trip {σ : Type} {lb ub step : Int} (hs : 0 < step) (h : ¬ lb < ub)
    (body : Int → σ → Option σ) (s : σ) : forLoop lb ub step body s = some s := by
  rw [forLoop_pos hs, tripCount_of_not_lt h]; rfl

/-- peel the first iteration -/
theorem forLoop_unfold {σ : Type} {lb ub step : Int} (hs : 0 < step) (h : lb < ub)
    (body : Int → σ → Option σ) (s : σ) :
    forLoop lb ub step body s = (body lb s).bind (forLoop (lb + step) ub step body) := by
  rw [forLoop_pos hs, tripCount_succ hs h]
  simp only [ivs, iter]
  congr 1; funext s'
  rw [forLoop_pos hs]

theorem bind_const_none {α β : Type} (x : Option α) : x.bind (fun _ => (none : Option β)) = none := by
  cases x <;> rfl

end Xdsl.Loops
