import XdslModel.ArgSpec
/-!
Lexer lemmas for C18: character classes, `countWhile`, each matcher on the shapes of text the printer
emits, and `lexAll` on an emitted token followed by arbitrary text.
-/
namespace Xdsl.ArgSpec

/-! ### characters -/

/-- the characters that can follow an identifier or a number in printed text -/
def isDelim (c : Char) : Bool := c == '{' || c == '}' || c == ',' || c == ' ' || c == '='

/-- text that is empty or starts with a delimiter -/
def DelimStart : List Char → Prop
  | [] => True
  | d :: _ => isDelim d = true

/-- `[A-Za-z_]` : first character of names and keys covered by the theorems -/
def isNameStart (c : Char) : Bool := isLetter c || c.toNat == 95

theorem delim_cases {d : Char} (h : isDelim d = true) :
    d = '{' ∨ d = '}' ∨ d = ',' ∨ d = ' ' ∨ d = '=' := by
  have h' : (((d = '{' ∨ d = '}') ∨ d = ',') ∨ d = ' ') ∨ d = '=' := by simpa [isDelim] using h
  rcases h' with (((h | h) | h) | h) | h <;> simp [h]

theorem delim_not_digit {d : Char} (h : isDelim d = true) : isDigit d = false := by
  rcases delim_cases h with rfl | rfl | rfl | rfl | rfl <;> decide
theorem delim_not_identChar {d : Char} (h : isDelim d = true) : isIdentChar d = false := by
  rcases delim_cases h with rfl | rfl | rfl | rfl | rfl <;> decide
theorem delim_not_identStart1 {d : Char} (h : isDelim d = true) : isIdentStart1 d = false := by
  rcases delim_cases h with rfl | rfl | rfl | rfl | rfl <;> decide
theorem delim_not_dot {d : Char} (h : isDelim d = true) : (d == '.') = false := by
  rcases delim_cases h with rfl | rfl | rfl | rfl | rfl <;> decide
theorem delim_not_e {d : Char} (h : isDelim d = true) : (d == 'e' || d == 'E') = false := by
  rcases delim_cases h with rfl | rfl | rfl | rfl | rfl <;> decide

theorem digit_toNat {c : Char} (h : isDigit c = true) : 48 ≤ c.toNat ∧ c.toNat ≤ 57 := by
  simpa [isDigit] using h

theorem char_ne_of_toNat_ne {c d : Char} (h : c.toNat ≠ d.toNat) : c ≠ d := by
  intro e; exact h (by rw [e])

theorem beq_false_of_toNat_ne {c d : Char} (h : c.toNat ≠ d.toNat) : (c == d) = false := by
  simp [char_ne_of_toNat_ne h]

theorem digit_identChar {c : Char} (h : isDigit c = true) : isIdentChar c = true := by
  simp [isIdentChar, h]
theorem digit_not_identStart1 {c : Char} (h : isDigit c = true) : isIdentStart1 c = false := by
  have := digit_toNat h
  simp only [isIdentStart1, isLetter, Bool.or_eq_false_iff, Bool.and_eq_false_iff, decide_eq_false_iff_not,
    beq_eq_false_iff_ne, ne_eq]
  omega
theorem digit_not_sign {c : Char} (h : isDigit c = true) : (c == '-' || c == '+') = false := by
  have := digit_toNat h
  rw [beq_false_of_toNat_ne, beq_false_of_toNat_ne] <;> simp <;> omega
theorem digit_ne {c d : Char} (h : isDigit c = true) (hd : isDigit d = false) : (c == d) = false := by
  simp; intro e; subst e; simp [h] at hd

theorem nameStart_not_digit {c : Char} (h : isNameStart c = true) : isDigit c = false := by
  simp only [isNameStart, isLetter, Bool.or_eq_true, Bool.and_eq_true, decide_eq_true_eq,
    beq_iff_eq] at h
  simp only [isDigit, Bool.and_eq_false_iff, decide_eq_false_iff_not]
  omega
theorem nameStart_identChar {c : Char} (h : isNameStart c = true) : isIdentChar c = true := by
  simp only [isNameStart, Bool.or_eq_true, beq_iff_eq] at h
  simp only [isIdentChar, Bool.or_eq_true, beq_iff_eq]
  rcases h with h | h <;> simp [h]
theorem nameStart_not_sign {c : Char} (h : isNameStart c = true) : (c == '-' || c == '+') = false := by
  simp only [isNameStart, isLetter, Bool.or_eq_true, Bool.and_eq_true, decide_eq_true_eq,
    beq_iff_eq] at h
  rw [beq_false_of_toNat_ne, beq_false_of_toNat_ne] <;> simp <;> omega
theorem nameStart_not_space {c : Char} (h : isNameStart c = true) : isSpace c = false := by
  simp only [isNameStart, isLetter, Bool.or_eq_true, Bool.and_eq_true, decide_eq_true_eq,
    beq_iff_eq] at h
  simp only [isSpace, Bool.or_eq_false_iff, Bool.and_eq_false_iff, decide_eq_false_iff_not,
    beq_eq_false_iff_ne, ne_eq]
  omega

/-! ### `countWhile` -/

theorem countWhile_all {p : Char → Bool} {a : List Char} (ha : ∀ x ∈ a, p x = true) (b : List Char) :
    countWhile p (a ++ b) = a.length + countWhile p b := by
  induction a with
  | nil => simp
  | cons x a ih =>
    have hx : p x = true := ha x (by simp)
    have := ih (fun y hy => ha y (by simp [hy]))
    simp [countWhile, hx, this]; omega

theorem countWhile_stop {p : Char → Bool} {d : Char} (hd : p d = false) (r : List Char) :
    countWhile p (d :: r) = 0 := by simp [countWhile, hd]

theorem countWhile_nil (p : Char → Bool) : countWhile p [] = 0 := rfl

/-- a block of `p`-characters followed by the end or a non-`p` character -/
theorem countWhile_block {p : Char → Bool} {a rest : List Char} (ha : ∀ x ∈ a, p x = true)
    (hr : rest = [] ∨ ∃ d r, rest = d :: r ∧ p d = false) :
    countWhile p (a ++ rest) = a.length := by
  rw [countWhile_all ha]
  rcases hr with rfl | ⟨d, r, rfl, hd⟩
  · simp [countWhile]
  · simp [countWhile, hd]

theorem delimStart_stop {p : Char → Bool} {rest : List Char} (h : DelimStart rest)
    (hp : ∀ d, isDelim d = true → p d = false) : rest = [] ∨ ∃ d r, rest = d :: r ∧ p d = false := by
  cases rest with
  | nil => exact Or.inl rfl
  | cons d r => exact Or.inr ⟨d, r, rfl, hp d h⟩

/-! ### one token then the rest -/

theorem lexAll_nil : lexAll [] = [⟨.eof, []⟩] := by
  rw [lexAll]

theorem lexAll_step {t rest : List Char} {k : Kind} (ht : t ≠ [])
    (h : nextToken (t ++ rest) = some (k, t.length)) :
    lexAll (t ++ rest) = ⟨k, t⟩ :: lexAll rest := by
  cases t with
  | nil => exact absurd rfl ht
  | cons c t' =>
    rw [List.cons_append, lexAll]
    rw [List.cons_append] at h
    rw [h]
    simp only [List.length_cons, Nat.add_sub_cancel]
    have h1 : List.take (t'.length + 1) (c :: (t' ++ rest)) = c :: t' := by
      simp [List.take_succ_cons, List.take_left']
    have h2 : List.drop t'.length (t' ++ rest) = rest := List.drop_left' rfl
    rw [h1, h2]


/-! ### matchers that fail on the first character -/

theorem matchIdent1_head {c : Char} {r : List Char} (h : isDigit c = false) :
    matchIdent1 (c :: r) = none := by simp [matchIdent1, countWhile, h]

theorem matchNumber_head {c : Char} {r : List Char} (h : isDigit c = false)
    (hs : (c == '-' || c == '+') = false) : matchNumber (c :: r) = none := by
  simp [matchNumber, optSign, hs, countWhile, h]

theorem matchIdent_head {c : Char} {r : List Char} (h : isIdentChar c = false) :
    matchIdent (c :: r) = none := by simp [matchIdent, countWhile, h]

/-! ### punctuation -/

theorem next_lbrace (rest : List Char) : nextToken ('{' :: rest) = some (.lbrace, 1) := by
  simp [nextToken, matchIdent1_head, matchNumber_head, matchIdent_head, matchString, matchMlir, matchPunct,
    show isDigit '{' = false by decide, show isIdentChar '{' = false by decide]
theorem next_rbrace (rest : List Char) : nextToken ('}' :: rest) = some (.rbrace, 1) := by
  simp [nextToken, matchIdent1_head, matchNumber_head, matchIdent_head, matchString, matchMlir, matchPunct,
    show isDigit '}' = false by decide, show isIdentChar '}' = false by decide]
theorem next_equals (rest : List Char) : nextToken ('=' :: rest) = some (.equals, 1) := by
  simp [nextToken, matchIdent1_head, matchNumber_head, matchIdent_head, matchString, matchMlir, matchPunct,
    show isDigit '=' = false by decide, show isIdentChar '=' = false by decide]
theorem next_comma (rest : List Char) : nextToken (',' :: rest) = some (.comma, 1) := by
  simp [nextToken, matchIdent1_head, matchNumber_head, matchIdent_head, matchString, matchMlir, matchPunct,
    show isDigit ',' = false by decide, show isIdentChar ',' = false by decide,
    show isSpace ',' = false by decide]
theorem next_space {rest : List Char} (h : rest = [] ∨ ∃ d r, rest = d :: r ∧ isSpace d = false) :
    nextToken (' ' :: rest) = some (.space, 1) := by
  have hc : countWhile isSpace rest = 0 := by
    rcases h with rfl | ⟨d, r, rfl, hd⟩
    · rfl
    · simp [countWhile, hd]
  simp [nextToken, matchIdent1_head, matchNumber_head, matchIdent_head, matchString, matchMlir, matchPunct,
    show isDigit ' ' = false by decide, show isIdentChar ' ' = false by decide,
    show isSpace ' ' = true by decide, hc]

theorem lex_lbrace (rest : List Char) : lexAll ('{' :: rest) = ⟨.lbrace, ['{']⟩ :: lexAll rest :=
  lexAll_step (t := ['{']) (by simp) (next_lbrace rest)
theorem lex_rbrace (rest : List Char) : lexAll ('}' :: rest) = ⟨.rbrace, ['}']⟩ :: lexAll rest :=
  lexAll_step (t := ['}']) (by simp) (next_rbrace rest)
theorem lex_equals (rest : List Char) : lexAll ('=' :: rest) = ⟨.equals, ['=']⟩ :: lexAll rest :=
  lexAll_step (t := ['=']) (by simp) (next_equals rest)
theorem lex_comma (rest : List Char) : lexAll (',' :: rest) = ⟨.comma, [',']⟩ :: lexAll rest :=
  lexAll_step (t := [',']) (by simp) (next_comma rest)
theorem lex_space {rest : List Char} (h : rest = [] ∨ ∃ d r, rest = d :: r ∧ isSpace d = false) :
    lexAll (' ' :: rest) = ⟨.space, [' ']⟩ :: lexAll rest :=
  lexAll_step (t := [' ']) (by simp) (next_space h)

/-! ### identifiers -/

def AllDigits (ds : List Char) : Prop := ∀ x ∈ ds, isDigit x = true

/-- names and keys covered by the round-trip theorems: exactly the two shapes that lex as one
IDENT — `[A-Za-z_][A-Za-z0-9_-]*` (rule 3; pass names, Python field names) and
`[0-9]+[A-Za-z_-][A-Za-z0-9_-]*` (rule 1, the `2d-slice` shape) -/
def IsName (s : List Char) : Prop :=
  (∃ c r, s = c :: r ∧ isNameStart c = true ∧ ∀ x ∈ r, isIdentChar x = true) ∨
  (∃ ds c r, s = ds ++ c :: r ∧ ds ≠ [] ∧ AllDigits ds ∧ isIdentStart1 c = true ∧
    ∀ x ∈ r, isIdentChar x = true)

theorem next_ident_gen {c : Char} {r rest : List Char} (hd : isDigit c = false)
    (hn : matchNumber (c :: (r ++ rest)) = none) (hc : isIdentChar c = true)
    (hr : ∀ x ∈ r, isIdentChar x = true) (hrest : DelimStart rest) :
    nextToken ((c :: r) ++ rest) = some (.ident, (c :: r).length) := by
  have hcount : countWhile isIdentChar ((c :: r) ++ rest) = (c :: r).length :=
    countWhile_block (by intro x hx; rcases List.mem_cons.1 hx with rfl | hx; exact hc; exact hr x hx)
      (delimStart_stop hrest (fun d => delim_not_identChar))
  have hm : matchIdent ((c :: r) ++ rest) = some (c :: r).length := by
    simp only [matchIdent, hcount]; simp
  simp only [nextToken]
  rw [List.cons_append] at hm ⊢
  rw [matchIdent1_head hd, hn, hm]

theorem identStart1_not_digit {c : Char} (h : isIdentStart1 c = true) : isDigit c = false := by
  simp only [isIdentStart1, isLetter, Bool.or_eq_true, Bool.and_eq_true, decide_eq_true_eq,
    beq_iff_eq] at h
  simp only [isDigit, Bool.and_eq_false_iff, decide_eq_false_iff_not]
  omega

theorem next_name {t rest : List Char} (ht : IsName t) (hrest : DelimStart rest) :
    nextToken (t ++ rest) = some (.ident, t.length) := by
  rcases ht with ⟨c, r, rfl, hc, hr⟩ | ⟨ds, c, r, rfl, hne, hd, hc, hr⟩
  · exact next_ident_gen (nameStart_not_digit hc)
      (matchNumber_head (nameStart_not_digit hc) (nameStart_not_sign hc)) (nameStart_identChar hc) hr hrest
  · have hcount : countWhile isDigit ((ds ++ c :: r) ++ rest) = ds.length := by
      rw [List.append_assoc]
      exact countWhile_block hd (Or.inr ⟨c, _, rfl, identStart1_not_digit hc⟩)
    have hci : countWhile isIdentChar (r ++ rest) = r.length :=
      countWhile_block hr (delimStart_stop hrest (fun d => delim_not_identChar))
    have hdrop : ((ds ++ c :: r) ++ rest).drop ds.length = c :: (r ++ rest) := by
      rw [List.append_assoc]; exact List.drop_left' rfl
    have hlen : ds.length ≠ 0 := by simpa using hne
    simp only [nextToken, matchIdent1, hcount, hdrop, hc, hci, hlen]
    simp; omega

theorem isName_ne_nil {t : List Char} (ht : IsName t) : t ≠ [] := by
  rcases ht with ⟨c, r, rfl, _⟩ | ⟨ds, c, r, rfl, _⟩ <;> simp

/-- a name never starts with a whitespace character (so a SPACE token before it stops there) -/
theorem isName_head {t : List Char} (ht : IsName t) : ∃ c r, t = c :: r ∧ isSpace c = false := by
  rcases ht with ⟨c, r, rfl, hc, _⟩ | ⟨ds, c, r, rfl, hne, hd, _⟩
  · exact ⟨c, r, rfl, nameStart_not_space hc⟩
  · obtain ⟨d, ds', rfl⟩ := List.exists_cons_of_ne_nil hne
    refine ⟨d, ds' ++ c :: r, rfl, ?_⟩
    have := digit_toNat (hd d (by simp))
    simp only [isSpace, Bool.or_eq_false_iff, Bool.and_eq_false_iff, decide_eq_false_iff_not,
      beq_eq_false_iff_ne, ne_eq]
    omega

theorem lex_name {t rest : List Char} (ht : IsName t) (hrest : DelimStart rest) :
    lexAll (t ++ rest) = ⟨.ident, t⟩ :: lexAll rest :=
  lexAll_step (isName_ne_nil ht) (next_name ht hrest)

theorem isName_kwTrue : IsName kwTrue := Or.inl ⟨'t', ['r', 'u', 'e'], rfl, by decide, by decide⟩
theorem isName_kwFalse : IsName kwFalse := Or.inl ⟨'f', ['a', 'l', 's', 'e'], rfl, by decide, by decide⟩
theorem isName_kwInf : IsName kwInf := Or.inl ⟨'i', ['n', 'f'], rfl, by decide, by decide⟩
theorem isName_kwNan : IsName kwNan := Or.inl ⟨'n', ['a', 'n'], rfl, by decide, by decide⟩

theorem lex_negInf {rest : List Char} (hrest : DelimStart rest) :
    lexAll (kwNegInf ++ rest) = ⟨.ident, kwNegInf⟩ :: lexAll rest := by
  refine lexAll_step (by simp [kwNegInf]) ?_
  exact next_ident_gen (c := '-') (r := ['i', 'n', 'f']) (by decide)
    (by simp [matchNumber, optSign, countWhile, show isDigit 'i' = false by decide]) (by decide) (by decide) hrest


/-! ### numbers -/

theorem drop_block {a rest : List Char} : (a ++ rest).drop a.length = rest := List.drop_left' rfl

theorem matchIdent1_digits {ds tail : List Char} (hd : AllDigits ds)
    (ht : tail = [] ∨ ∃ d r, tail = d :: r ∧ isDigit d = false ∧ isIdentStart1 d = false) :
    matchIdent1 (ds ++ tail) = none := by
  have hcount : countWhile isDigit (ds ++ tail) = ds.length :=
    countWhile_block hd (by rcases ht with h | ⟨d, r, h, h1, _⟩; exact Or.inl h; exact Or.inr ⟨d, r, h, h1⟩)
  simp only [matchIdent1, hcount, drop_block]
  rcases ht with rfl | ⟨d, r, rfl, _, h2⟩
  · simp
  · simp [h2]

theorem matchNumber_neg {c : Char} {x : List Char} (hc : isDigit c = true) :
    matchNumber ('-' :: c :: x) = (matchNumber (c :: x)).map (· + 1) := by
  have h0 : optSign (c :: x) = 0 := by simp [optSign, digit_not_sign hc]
  have h1 : optSign ('-' :: c :: x) = 1 := by simp [optSign]
  simp only [matchNumber, h0, h1, List.drop_zero, List.drop_succ_cons]
  split
  · simp
  · split <;> (try split) <;> simp <;> omega

theorem matchNumber_int {ds rest : List Char} (hd : AllDigits ds) (hne : ds ≠ []) (hrest : DelimStart rest) :
    matchNumber (ds ++ rest) = some ds.length := by
  obtain ⟨c, ds', rfl⟩ := List.exists_cons_of_ne_nil hne
  have hc : isDigit c = true := hd c (by simp)
  have h0 : optSign ((c :: ds') ++ rest) = 0 := by simp [optSign, digit_not_sign hc]
  have hcount : countWhile isDigit ((c :: ds') ++ rest) = (c :: ds').length :=
    countWhile_block hd (delimStart_stop hrest (fun d => delim_not_digit))
  simp only [matchNumber, h0, List.drop_zero, hcount, drop_block]
  cases rest with
  | nil => simp
  | cons d r => simp [delim_not_dot hrest]

theorem matchExp_delim {rest : List Char} (hrest : DelimStart rest) : matchExp rest = 0 := by
  cases rest with
  | nil => rfl
  | cons d r => simp [matchExp, delim_not_e hrest]

/-- `e`, an explicit sign, digits -/
theorem matchExp_exp {es : Char} {ex rest : List Char} (hes : es = '-' ∨ es = '+') (hd : AllDigits ex)
    (hne : ex ≠ []) (hrest : DelimStart rest) :
    matchExp ('e' :: es :: (ex ++ rest)) = 2 + ex.length := by
  have hs : optSign (es :: (ex ++ rest)) = 1 := by rcases hes with rfl | rfl <;> simp [optSign]
  have hcount : countWhile isDigit (ex ++ rest) = ex.length :=
    countWhile_block hd (delimStart_stop hrest (fun d => delim_not_digit))
  have : ex.length ≠ 0 := by simpa using hne
  simp [matchExp, hs, hcount, this]

/-- integer part, `.`, fraction digits, then text on which the exponent matcher is evaluated -/
theorem matchNumber_frac {ip fp tail : List Char} (hi : AllDigits ip) (hine : ip ≠ []) (hf : AllDigits fp)
    (ht : tail = [] ∨ ∃ d r, tail = d :: r ∧ isDigit d = false) :
    matchNumber (ip ++ '.' :: (fp ++ tail)) = some (ip.length + 1 + fp.length + matchExp tail) := by
  obtain ⟨c, ip', rfl⟩ := List.exists_cons_of_ne_nil hine
  have hc : isDigit c = true := hi c (by simp)
  have h0 : optSign ((c :: ip') ++ '.' :: (fp ++ tail)) = 0 := by simp [optSign, digit_not_sign hc]
  have hcount : countWhile isDigit ((c :: ip') ++ '.' :: (fp ++ tail)) = (c :: ip').length :=
    countWhile_block hi (Or.inr ⟨'.', _, rfl, by decide⟩)
  have hcf : countWhile isDigit (fp ++ tail) = fp.length := countWhile_block hf ht
  simp only [matchNumber, h0, List.drop_zero, hcount, drop_block]
  simp [hcf]

theorem nextToken_number {s : List Char} {n : Nat} (h1 : matchIdent1 s = none)
    (h2 : matchNumber s = some n) : nextToken s = some (.number, n) := by
  simp [nextToken, h1, h2]

/-- optional `-` -/
def signText (neg : Bool) : List Char := if neg then ['-'] else []

theorem next_signed {neg : Bool} {body : List Char} {c : Char} {x : List Char} {n : Nat}
    (hb : body = c :: x) (hc : isDigit c = true) (h1 : matchIdent1 body = none)
    (h2 : matchNumber body = some n) :
    nextToken (signText neg ++ body) = some (.number, (signText neg).length + n) := by
  subst hb
  cases neg with
  | false => simpa [signText] using nextToken_number h1 h2
  | true =>
    refine nextToken_number (matchIdent1_head (by decide)) ?_
    simp [signText, matchNumber_neg hc, h2]; omega


/-! ### integers: `showInt`, `parseInt` -/

theorem digitVal_digitChar : ∀ d, d < 10 → digitVal (digitChar d) = d := by decide
theorem isDigit_digitChar : ∀ d, d < 10 → isDigit (digitChar d) = true := by decide

theorem digitsRev_allDigits (n : Nat) : AllDigits (digitsRev n) := by
  induction n using Nat.strongRecOn with
  | _ n ih =>
    rw [digitsRev]
    split
    · intro x hx; simp at hx; subst hx; exact isDigit_digitChar n (by omega)
    · intro x hx
      rcases List.mem_cons.1 hx with rfl | hx
      · exact isDigit_digitChar _ (Nat.mod_lt _ (by omega))
      · exact ih (n / 10) (by omega) x hx

theorem digitsRev_ne_nil (n : Nat) : digitsRev n ≠ [] := by
  rw [digitsRev]; split <;> simp

theorem showNat_allDigits (n : Nat) : AllDigits (showNat n) := by
  intro x hx; exact digitsRev_allDigits n x (by simpa [showNat] using hx)
theorem showNat_ne_nil (n : Nat) : showNat n ≠ [] := by simp [showNat, digitsRev_ne_nil]

theorem valDigits_append (ds : List Char) (c : Char) :
    valDigits (ds ++ [c]) = 10 * valDigits ds + digitVal c := by
  simp [valDigits, List.foldl_append]

theorem valDigits_showNat (n : Nat) : valDigits (showNat n) = n := by
  induction n using Nat.strongRecOn with
  | _ n ih =>
    rw [showNat, digitsRev]
    split
    · rename_i h; simp [valDigits, digitVal_digitChar n h]
    · have := ih (n / 10) (by omega)
      rw [showNat] at this
      rw [List.reverse_cons, valDigits_append, this, digitVal_digitChar _ (Nat.mod_lt _ (by omega))]
      omega

theorem showInt_eq (i : Int) : showInt i = signText (decide (i < 0)) ++ showNat i.natAbs := by
  unfold showInt signText
  by_cases h : i < 0
  · simp [h]
  · have : i.toNat = i.natAbs := by omega
    simp [h, this]

theorem parseInt_showInt (i : Int) : parseInt (showInt i) = i := by
  unfold showInt
  by_cases h : i < 0
  · simp only [h, ↓reduceIte, parseInt]
    simp [valDigits_showNat]; omega
  · simp only [h, ↓reduceIte]
    obtain ⟨c, ds, hcd⟩ := List.exists_cons_of_ne_nil (showNat_ne_nil i.toNat)
    have hc : isDigit c = true := showNat_allDigits i.toNat c (by simp [hcd])
    have hs := digit_not_sign hc
    simp only [Bool.or_eq_false_iff] at hs
    rw [hcd, parseInt]
    simp only [hs.1, hs.2]
    rw [← hcd, valDigits_showNat]
    simp; omega

theorem allDigits_not_contains {ds : List Char} (hd : AllDigits ds) {c : Char} (hc : isDigit c = false) :
    ds.contains c = false := by
  simp only [List.contains_eq_mem, decide_eq_false_iff_not]
  intro hm; simp [hd c hm] at hc

theorem showInt_no_dot (i : Int) : (showInt i).contains '.' = false := by
  rw [showInt_eq]
  have := allDigits_not_contains (showNat_allDigits i.natAbs) (c := '.') (by decide)
  cases h : decide (i < 0) <;> simp_all [signText]

theorem lex_int (i : Int) {rest : List Char} (hrest : DelimStart rest) :
    lexAll (showInt i ++ rest) = ⟨.number, showInt i⟩ :: lexAll rest := by
  have hne : showInt i ≠ [] := by rw [showInt_eq]; simp [showNat_ne_nil]
  refine lexAll_step hne ?_
  rw [showInt_eq, List.append_assoc]
  obtain ⟨c, ds, hcd⟩ := List.exists_cons_of_ne_nil (showNat_ne_nil i.natAbs)
  have hd := showNat_allDigits i.natAbs
  have hc : isDigit c = true := hd c (by simp [hcd])
  have := next_signed (neg := decide (i < 0)) (body := showNat i.natAbs ++ rest) (c := c) (x := ds ++ rest)
    (n := (showNat i.natAbs).length) (by simp [hcd]) hc
    (matchIdent1_digits hd (by
      cases rest with
      | nil => exact Or.inl rfl
      | cons d r => exact Or.inr ⟨d, r, rfl, delim_not_digit hrest, delim_not_identStart1 hrest⟩))
    (matchNumber_int hd (showNat_ne_nil _) hrest)
  simpa using this

/-! ### strings -/

theorem escapeChar_cases (c : Char) :
    (∃ e, escapeChar c = ['\\', e] ∧ isEscapable e = true ∧ unescapeChar e = c) ∨
    (escapeChar c = [c] ∧ (c == '"') = false ∧ (c == '\\') = false ∧ isLineBreak c = false) := by
  unfold escapeChar
  have key : ∀ n, c.toNat = n → c = Char.ofNat n := fun n h => by rw [← h, Char.ofNat_toNat]
  split
  · rename_i h; left; exact ⟨'\\', rfl, by decide, by simp at h; simp [h, unescapeChar]⟩
  split
  · rename_i h; left; exact ⟨'"', rfl, by decide, by simp at h; simp [h, unescapeChar]⟩
  split
  · rename_i h; left; exact ⟨'n', rfl, by decide, by simp at h; rw [key 10 h]; decide⟩
  split
  · rename_i h; left; exact ⟨'f', rfl, by decide, by simp at h; rw [key 12 h]; decide⟩
  split
  · rename_i h; left; exact ⟨'v', rfl, by decide, by simp at h; rw [key 11 h]; decide⟩
  split
  · rename_i h; left; exact ⟨'t', rfl, by decide, by simp at h; rw [key 9 h]; decide⟩
  split
  · rename_i h; left; exact ⟨'r', rfl, by decide, by simp at h; rw [key 13 h]; decide⟩
  · right
    rename_i h1 h2 h3 h4 h5 h6 h7
    refine ⟨rfl, by simpa using h2, by simpa using h1, ?_⟩
    simp only [isLineBreak, Bool.or_eq_false_iff]
    simp at h3 h4 h5 h7
    simp [h3, h4, h5, h7]

theorem scanBody_escape (close : Char) (hq : close = '"') (s rest : List Char) :
    scanBody close (escape s ++ close :: rest) = some ((escape s).length + 1) := by
  subst hq
  induction s with
  | nil => rw [scanBody.eq_def]; simp [escape]
  | cons c s ih =>
    rcases escapeChar_cases c with ⟨e, he, hesc, _⟩ | ⟨he, h1, h2, h3⟩
    · simp only [escape, he, List.cons_append, List.nil_append]
      rw [scanBody.eq_def]
      simp [hesc, ih]
    · simp only [escape, he, List.cons_append, List.nil_append]
      rw [scanBody.eq_def]
      simp [h1, h2, h3, ih]

theorem unescape_escape (s : List Char) : unescape (escape s) = s := by
  induction s with
  | nil => rfl
  | cons c s ih =>
    rcases escapeChar_cases c with ⟨e, he, _, hu⟩ | ⟨he, _, h2, _⟩
    · simp only [escape, he, List.cons_append, List.nil_append]
      rw [unescape.eq_def]
      simp [hu, ih]
    · simp only [escape, he, List.cons_append, List.nil_append]
      rw [unescape.eq_def]
      simp [h2, ih]

/-- the text of a printed string value -/
def strText (s : List Char) : List Char := '"' :: escape s ++ ['"']

theorem lex_string (s rest : List Char) :
    lexAll (strText s ++ rest) = ⟨.stringLit, strText s⟩ :: lexAll rest := by
  refine lexAll_step (by simp [strText]) ?_
  have hb := scanBody_escape '"' rfl s rest
  have : strText s ++ rest = '"' :: (escape s ++ '"' :: rest) := by simp [strText]
  rw [this]
  simp [nextToken, matchIdent1_head, matchNumber_head, matchIdent_head, matchString,
    show isDigit '"' = false by decide, show isIdentChar '"' = false by decide, hb, strText]

theorem strText_body (s : List Char) : ((strText s).drop 1).dropLast = escape s := by
  simp [strText]


/-! ### floats: the grammar of CPython's `repr(float)` and what the printer makes of it -/

/-- explicit sign of a printed exponent -/
def expSign (neg : Bool) : Char := if neg then '-' else '+'

/-- The shapes of `repr(x)` for a Python float: `[-]d+.d+`, `[-]d+e±d+`, `[-]d+.d+e±d+`, `inf`, `-inf`,
`nan`. (That CPython's `repr` only produces these is an assumption re-checked by the harness on
every generated float.) -/
inductive FloatRepr : List Char → Prop
  | fixed (neg : Bool) (ip fp : List Char) (hi : AllDigits ip) (hin : ip ≠ []) (hf : AllDigits fp)
      (hfn : fp ≠ []) : FloatRepr (signText neg ++ (ip ++ '.' :: fp))
  | expInt (neg : Bool) (ip : List Char) (eneg : Bool) (ex : List Char) (hi : AllDigits ip) (hin : ip ≠ [])
      (he : AllDigits ex) (hen : ex ≠ []) : FloatRepr (signText neg ++ (ip ++ 'e' :: expSign eneg :: ex))
  | expFrac (neg : Bool) (ip fp : List Char) (eneg : Bool) (ex : List Char) (hi : AllDigits ip)
      (hin : ip ≠ []) (hf : AllDigits fp) (hfn : fp ≠ []) (he : AllDigits ex) (hen : ex ≠ []) :
      FloatRepr (signText neg ++ (ip ++ '.' :: (fp ++ 'e' :: expSign eneg :: ex)))
  | inf : FloatRepr kwInf
  | negInf : FloatRepr kwNegInf
  | nan : FloatRepr kwNan

/-- the token a printed float is lexed to -/
def floatTok (t : List Char) : Token :=
  if t = kwInf ∨ t = kwNegInf ∨ t = kwNan then ⟨.ident, t⟩ else ⟨.number, t⟩

theorem insertDotZero_noE {a : List Char} (ha : ∀ x ∈ a, (x == 'e') = false) (b : List Char) :
    insertDotZero (a ++ b) = a ++ insertDotZero b := by
  induction a with
  | nil => rfl
  | cons x a ih =>
    have hx := ha x (by simp)
    simp only [List.cons_append, insertDotZero, hx]
    simp [ih (fun y hy => ha y (by simp [hy]))]

theorem allDigits_noE {ds : List Char} (hd : AllDigits ds) : ∀ x ∈ ds, (x == 'e') = false :=
  fun x hx => digit_ne (hd x hx) (by decide)

theorem signText_noE (neg : Bool) : ∀ x ∈ signText neg, (x == 'e') = false := by
  cases neg <;> simp [signText]

theorem contains_append (a b : List Char) (c : Char) : (a ++ b).contains c = (a.contains c || b.contains c) := by
  simp [List.contains_eq_mem, List.mem_append]

theorem signText_contains (neg : Bool) {c : Char} (h : (c == '-') = false) : (signText neg).contains c = false := by
  cases neg
  · simp [signText]
  · simp only [signText, ↓reduceIte, List.contains_eq_mem, List.mem_singleton, decide_eq_false_iff_not]
    simpa using h

theorem expSign_cases (eneg : Bool) : expSign eneg = '-' ∨ expSign eneg = '+' := by
  cases eneg <;> simp [expSign]

/-- digit-led body `ip . fp tail` of a printed number -/
theorem next_float_body {neg : Bool} {ip fp tail : List Char} (hi : AllDigits ip) (hin : ip ≠ [])
    (hf : AllDigits fp) (ht : tail = [] ∨ ∃ d r, tail = d :: r ∧ isDigit d = false) :
    nextToken (signText neg ++ (ip ++ '.' :: (fp ++ tail))) =
      some (.number, (signText neg).length + (ip.length + 1 + fp.length + matchExp tail)) := by
  obtain ⟨c, ip', rfl⟩ := List.exists_cons_of_ne_nil hin
  exact next_signed (c := c) (x := ip' ++ '.' :: (fp ++ tail)) (by simp) (hi c (by simp))
    (matchIdent1_digits hi (Or.inr ⟨'.', _, rfl, by decide, by decide⟩))
    (matchNumber_frac hi (by simp) hf ht)

theorem lex_number_of_next {t rest : List Char} (hne : t ≠ [])
    (h : nextToken (t ++ rest) = some (.number, t.length)) :
    lexAll (t ++ rest) = ⟨.number, t⟩ :: lexAll rest := lexAll_step hne h

theorem floatTok_of_dot {t : List Char} (h : t.contains '.' = true) : floatTok t = ⟨.number, t⟩ := by
  unfold floatTok
  have : ¬ (t = kwInf ∨ t = kwNegInf ∨ t = kwNan) := by
    rintro (rfl | rfl | rfl) <;> revert h <;> decide
  simp [this]

/-- what `_spec_parameter_type_str` prints for a float lexes as one token -/
theorem lex_float {r : List Char} (hr : FloatRepr r) {rest : List Char} (hrest : DelimStart rest) :
    lexAll (printFloatText r ++ rest) = floatTok (printFloatText r) :: lexAll rest := by
  have hstop : rest = [] ∨ ∃ d r', rest = d :: r' ∧ isDigit d = false :=
    delimStart_stop hrest (fun d => delim_not_digit)
  cases hr with
  | fixed neg ip fp hi hin hf hfn =>
    have hnoE : (signText neg ++ (ip ++ '.' :: fp)).contains 'e' = false := by
      simp only [contains_append, signText_contains neg (c := 'e') (by decide),
        allDigits_not_contains hi (c := 'e') (by decide), Bool.false_or]
      simp only [List.contains_cons, allDigits_not_contains hf (c := 'e') (by decide)]; decide
    have hp : printFloatText (signText neg ++ (ip ++ '.' :: fp)) = signText neg ++ (ip ++ '.' :: fp) := by
      simp [printFloatText]
    have hdot : (signText neg ++ (ip ++ '.' :: fp)).contains '.' = true := by
      simp
    rw [hp, floatTok_of_dot hdot]
    refine lex_number_of_next (by simp) ?_
    have := next_float_body (neg := neg) (tail := rest) hi hin hf hstop
    rw [matchExp_delim hrest] at this
    simp only [List.append_assoc, List.cons_append] at this ⊢
    rw [this]; simp; omega
  | expFrac neg ip fp eneg ex hi hin hf hfn he hen =>
    have hdot : (signText neg ++ (ip ++ '.' :: (fp ++ 'e' :: expSign eneg :: ex))).contains '.' = true := by
      simp
    have hp : printFloatText (signText neg ++ (ip ++ '.' :: (fp ++ 'e' :: expSign eneg :: ex))) =
        signText neg ++ (ip ++ '.' :: (fp ++ 'e' :: expSign eneg :: ex)) := by
      simp [printFloatText]
    rw [hp, floatTok_of_dot hdot]
    refine lex_number_of_next (by simp) ?_
    have := next_float_body (neg := neg) (tail := 'e' :: expSign eneg :: (ex ++ rest)) hi hin hf
      (Or.inr ⟨'e', _, rfl, by decide⟩)
    rw [matchExp_exp (expSign_cases eneg) he hen hrest] at this
    simp only [List.append_assoc, List.cons_append] at this ⊢
    rw [this]; simp; omega
  | expInt neg ip eneg ex hi hin he hen =>
    have hE : (signText neg ++ (ip ++ 'e' :: expSign eneg :: ex)).contains 'e' = true := by
      simp
    have hes : (expSign eneg == '.') = false := by cases eneg <;> decide
    have hnodot : (signText neg ++ (ip ++ 'e' :: expSign eneg :: ex)).contains '.' = false := by
      simp only [contains_append, signText_contains neg (c := '.') (by decide),
        allDigits_not_contains hi (c := '.') (by decide), Bool.false_or]
      simp only [List.contains_cons, allDigits_not_contains he (c := '.') (by decide)]
      cases eneg <;> decide
    have hexE : ∀ x ∈ expSign eneg :: ex, (x == 'e') = false := by
      intro x hx
      rcases List.mem_cons.1 hx with rfl | hx
      · cases eneg <;> decide
      · exact allDigits_noE he x hx
    have hp : printFloatText (signText neg ++ (ip ++ 'e' :: expSign eneg :: ex)) =
        signText neg ++ (ip ++ '.' :: (['0'] ++ 'e' :: expSign eneg :: ex)) := by
      simp only [printFloatText, hE, hnodot, Bool.not_false, Bool.and_self, ↓reduceIte]
      rw [insertDotZero_noE (signText_noE neg), insertDotZero_noE (allDigits_noE hi)]
      have : insertDotZero (expSign eneg :: ex) = expSign eneg :: ex := by
        have := insertDotZero_noE hexE []
        simpa [insertDotZero] using this
      rw [show insertDotZero ('e' :: expSign eneg :: ex) = '.' :: '0' :: 'e' :: insertDotZero (expSign eneg :: ex) by
        simp [insertDotZero], this]
      simp
    have hdot : (signText neg ++ (ip ++ '.' :: (['0'] ++ 'e' :: expSign eneg :: ex))).contains '.' = true := by
      simp
    rw [hp, floatTok_of_dot hdot]
    refine lex_number_of_next (by simp) ?_
    have := next_float_body (neg := neg) (fp := ['0']) (tail := 'e' :: expSign eneg :: (ex ++ rest)) hi hin
      (by intro x hx; simp at hx; subst hx; decide) (Or.inr ⟨'e', _, rfl, by decide⟩)
    rw [matchExp_exp (expSign_cases eneg) he hen hrest] at this
    simp only [List.append_assoc, List.cons_append, List.nil_append] at this ⊢
    rw [this]; simp; omega
  | inf =>
    have hp : printFloatText kwInf = kwInf := by decide
    rw [hp, show floatTok kwInf = ⟨.ident, kwInf⟩ by decide]
    exact lex_name isName_kwInf hrest
  | negInf =>
    have hp : printFloatText kwNegInf = kwNegInf := by decide
    rw [hp, show floatTok kwNegInf = ⟨.ident, kwNegInf⟩ by decide]
    exact lex_negInf hrest
  | nan =>
    have hp : printFloatText kwNan = kwNan := by decide
    rw [hp, show floatTok kwNan = ⟨.ident, kwNan⟩ by decide]
    exact lex_name isName_kwNan hrest

/-- the printed float text either has a `.` (NUMBER read by `float`) or is one of the three keywords -/
theorem printFloatText_shape {r : List Char} (hr : FloatRepr r) :
    (printFloatText r).contains '.' = true ∨ printFloatText r = kwInf ∨ printFloatText r = kwNegInf ∨
      printFloatText r = kwNan := by
  by_cases h : (printFloatText r).contains '.' = true
  · exact Or.inl h
  · right
    have hl := lex_float hr (rest := []) trivial
    cases hr with
    | inf => left; decide
    | negInf => right; left; decide
    | nan => right; right; decide
    | fixed neg ip fp hi hin hf hfn =>
      exfalso; apply h
      have hnoE : (signText neg ++ (ip ++ '.' :: fp)).contains 'e' = false := by
        simp only [contains_append, signText_contains neg (c := 'e') (by decide),
          allDigits_not_contains hi (c := 'e') (by decide), Bool.false_or]
        simp only [List.contains_cons, allDigits_not_contains hf (c := 'e') (by decide)]; decide
      simp [printFloatText]
    | expFrac neg ip fp eneg ex hi hin hf hfn he hen =>
      exfalso; apply h
      have hdot : (signText neg ++ (ip ++ '.' :: (fp ++ 'e' :: expSign eneg :: ex))).contains '.' = true := by
        simp
      simp [printFloatText]
    | expInt neg ip eneg ex hi hin he hen =>
      exfalso; apply h
      have hE : (signText neg ++ (ip ++ 'e' :: expSign eneg :: ex)).contains 'e' = true := by
        simp
      have hnodot : (signText neg ++ (ip ++ 'e' :: expSign eneg :: ex)).contains '.' = false := by
        simp only [contains_append, signText_contains neg (c := '.') (by decide),
          allDigits_not_contains hi (c := '.') (by decide), Bool.false_or]
        simp only [List.contains_cons, allDigits_not_contains he (c := '.') (by decide)]
        cases eneg <;> decide
      simp only [printFloatText, hE, hnodot, Bool.not_false, Bool.and_self, ↓reduceIte]
      rw [insertDotZero_noE (signText_noE neg), insertDotZero_noE (allDigits_noE hi)]
      simp [insertDotZero]

end Xdsl.ArgSpec
