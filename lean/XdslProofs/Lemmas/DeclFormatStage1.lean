import XdslProofs.Lemmas.DeclFormatGroup
/-!
C05, stage 1 of the round trip: parsing the printed tokens (followed by any `rest` whose first token
the format's trailing directives cannot mistake) consumes exactly the printed tokens and leaves the
parsing state `replayD fmt op st`.
-/
namespace Xdsl.DeclFormat
set_option linter.unusedSimpArgs false

theorem conflict_false_of_all {f : SDir} {F : List Cls} {toks : List Tok}
    (h : F.all (fun c => !conflict f c) = true) (hm : clsHd toks ∈ F) : conflict f (clsHd toks) = false := by
  have := List.all_eq_true.mp h _ hm
  simpa using this

theorem parseDir_printDir (D : Defs) (op : OpInst) (d : Dir) (ds : List Dir) (K : List Cls)
    (tail : List Tok) (st : PState)
    (hwf : wfD (d :: ds) K = true) (hfrag : fragD (d :: ds) = true) (ha : wfA D (d :: ds) = true)
    (hv : ValidD D op (d :: ds))
    (htail : clsHd tail ∈ firstD ds K) :
    parseDir D d (printDir D op d ++ tail) st = some (replayDir D op d st, tail) := by
  cases d with
  | s d =>
    simp only [wfD, Bool.and_eq_true] at hwf
    simp only [wfA, Bool.and_eq_true] at ha
    obtain ⟨⟨_, hfol⟩, _⟩ := hwf
    obtain ⟨b, hb⟩ := parseS_printS D op d tail st hv.1.1 ha.1
      (followOK_of_okFollow hfol htail)
    simp [parseDir, printDir, replayDir, hb]
  | group a f r e =>
    simp only [wfD, Bool.and_eq_true] at hwf
    simp only [fragD, Bool.and_eq_true] at hfrag
    obtain ⟨⟨⟨hf1, hf2⟩, hf3⟩, _⟩ := hfrag
    obtain ⟨⟨⟨⟨⟨⟨⟨⟨⟨hfirst, hanchor⟩, hlit⟩, hmem⟩, hing⟩, hinge⟩, hunt⟩, hwfT⟩, hwfE⟩, _⟩ := hwf
    obtain ⟨hv1, hv2, hcons, _⟩ := hv
    have hfragT : ∀ x ∈ f :: r, inFragment x = true := fun x hx => by
      rcases List.mem_cons.mp hx with h | h
      · exact h ▸ hf1
      · exact mem_all hf2 h
    by_cases hp : presentS op a = true
    · -- the group is taken
      simp only [GroupCons, hp, if_true] at hcons
      simp only [wfSeq, Bool.and_eq_true] at hwfT
      obtain ⟨hfolF, hwfR⟩ := hwfT
      have hfr : ∀ x ∈ r, inFragment x = true := fun x hx => hfragT x (List.mem_cons_of_mem _ hx)
      have hir : ∀ x ∈ r, okInst D op x := fun x hx => (hv1 x (List.mem_cons_of_mem _ hx)).1
      have hfirstR := clsHd_printSeq D op r (firstD ds K) tail hir htail
      have hpa : printS D op a ≠ [] → True := fun _ => trivial
      have hnef : printS D op f ≠ [] := by
        rcases Bool.or_eq_true .. |>.mp hlit with h | h
        · cases f <;> simp_all [isLiteral, printS]
        · have : a = f := by simpa using h
          subst this
          exact present_print D op a hfirst (hv1 a (List.mem_cons_self ..)) hp
      have h1 := parseOptS_present D op f (printSeq D op r ++ tail) st hf1 hfirst
        (hv1 f (List.mem_cons_self ..)).1 (followOK_of_okFollow hfolF hfirstR) hnef
      have h2 := parseSeq_printSeq D op r (firstD ds K) tail (replayS D op f st) hwfR hfr hir htail
      simp [parseDir, printDir, replayDir, hp, printSeq, List.append_assoc, h1, h2, replaySeq]
    · -- the group is not taken: the else branch was printed
      have hp' : presentS op a = false := by simpa using hp
      simp only [GroupCons, hp, if_false] at hcons
      have hfe : ∀ x ∈ e, inFragment x = true := fun x hx => mem_all hf3 hx
      have hie : ∀ x ∈ e, okInst D op x := fun x hx => (hv2 x hx).1
      have hfirstE := clsHd_printSeq D op e (firstD ds K) tail hie htail
      have h1 := parseOptS_absent D op f (printSeq D op e ++ tail) st hfirst
        (hcons f (List.mem_cons_self ..)) (conflict_false_of_all hunt hfirstE)
      have h2 := parseSeq_printSeq D op e (firstD ds K) tail (setEmptySeq (replayS D op f st) r) hwfE hfe hie
        htail
      simp [parseDir, printDir, replayDir, hp', h1, h2]

theorem wfD_tail {d : Dir} {ds : List Dir} {K : List Cls} (h : wfD (d :: ds) K = true) : wfD ds K = true := by
  cases d <;> simp only [wfD, Bool.and_eq_true] at h <;> exact h.2

theorem fragD_tail {d : Dir} {ds : List Dir} (h : fragD (d :: ds) = true) : fragD ds = true := by
  cases d with
  | s d => exact h
  | group a f r e => simp only [fragD, Bool.and_eq_true] at h; exact h.2

theorem wfA_tail {D : Defs} {d : Dir} {ds : List Dir} (h : wfA D (d :: ds) = true) : wfA D ds = true := by
  cases d with
  | s d => simp only [wfA, Bool.and_eq_true] at h; exact h.2
  | group a f r e => exact h

theorem validD_tail {D : Defs} {op : OpInst} {d : Dir} {ds : List Dir} (h : ValidD D op (d :: ds)) :
    ValidD D op ds := by
  cases d with
  | s d => exact h.2
  | group a f r e => exact h.2.2.2

/-- Stage 1. -/
theorem parseD_printD (D : Defs) (op : OpInst) (fmt : List Dir) (K : List Cls) (rest : List Tok) (st : PState)
    (hwf : wfD fmt K = true) (hfrag : fragD fmt = true) (ha : wfA D fmt = true) (hv : ValidD D op fmt)
    (hK : clsHd rest ∈ K) :
    parseD D fmt (printD D fmt op ++ rest) st = some (replayD D op fmt st, rest) := by
  induction fmt generalizing st with
  | nil => simp [parseD, printD, replayD]
  | cons d ds ih =>
    have htail := clsHd_printD D op ds K rest (validD_tail hv) hK
    have h1 := parseDir_printDir D op d ds K (printD D ds op ++ rest) st hwf hfrag ha hv htail
    simp only [printD, List.append_assoc, parseD, h1, replayD]
    exact ih _ (wfD_tail hwf) (fragD_tail hfrag) (wfA_tail ha) (validD_tail hv)

end Xdsl.DeclFormat
