import XdslProofs.Lemmas.OpDefConstraints
import XdslProofs.Lemmas.OpDef
/-!
The loops of `OpDef.verify` over regions, properties and attributes as `verifyPieces` (C10).
-/
namespace Xdsl.OpDef

theorem verifyPieces_append : ∀ (a b : List (RangeC × List Nat)) (ctx : Ctx),
    verifyPieces (a ++ b) ctx = (verifyPieces a ctx).bind (verifyPieces b)
  | [], b, ctx => rfl
  | (c, as) :: r, b, ctx => by
    simp only [List.cons_append, verifyPieces]
    cases c.verify as ctx with
    | none => rfl
    | some ctx' => exact verifyPieces_append r b ctx'

theorem verifyPieces_append_some (a b : List (RangeC × List Nat)) (ctx ctx'' : Ctx) :
    verifyPieces (a ++ b) ctx = some ctx'' ↔
      ∃ ctx', verifyPieces a ctx = some ctx' ∧ verifyPieces b ctx' = some ctx'' := by
  rw [verifyPieces_append]
  cases verifyPieces a ctx <;> simp

/-- the entry-argument pieces of the regions in one segment: only regions that have a block -/
def entryPieces (c : RangeC) (rs : List RegionInst) : List (RangeC × List Nat) :=
  (rs.filter fun r => r.blocks != 0).map fun r => (c, r.entryArgs)

theorem verifyEntryArgs_eq (c : RangeC) : ∀ (rs : List RegionInst) (ctx : Ctx),
    verifyEntryArgs c rs ctx = verifyPieces (entryPieces c rs) ctx
  | [], ctx => rfl
  | r :: rs, ctx => by
    simp only [verifyEntryArgs, entryPieces, List.filter_cons]
    by_cases hb : r.blocks = 0
    · simp only [hb, if_true, bne_self_eq_false, Bool.false_eq_true, if_false]
      exact verifyEntryArgs_eq c rs ctx
    · have : (r.blocks != 0) = true := by simpa using hb
      simp only [hb, if_false, this, if_true, List.map_cons, verifyPieces]
      cases c.verify r.entryArgs ctx with
      | none => rfl
      | some ctx' => exact verifyEntryArgs_eq c rs ctx'

/-- the property (attribute) pieces: one per definition that is present on the operation -/
def dictPieces (defs : List AttrDef) (m : AL Nat Nat) : List (RangeC × List Nat) :=
  defs.filterMap fun d => (AL.get m d.name).map fun a => (RangeC.single d.constr, [a])

/-- every non-optional definition is present -/
def RequiredPresent (defs : List AttrDef) (m : AL Nat Nat) : Prop :=
  ∀ d ∈ defs, d.optional = false → (AL.get m d.name).isSome = true

theorem verifyDict_iff : ∀ (defs : List AttrDef) (m : AL Nat Nat) (ctx ctx' : Ctx),
    verifyDict defs m ctx = some ctx' ↔
      RequiredPresent defs m ∧ verifyPieces (dictPieces defs m) ctx = some ctx'
  | [], m, ctx, ctx' => by
    simp [verifyDict, dictPieces, verifyPieces, RequiredPresent]
  | d :: ds, m, ctx, ctx' => by
    have ih := verifyDict_iff ds m
    simp only [verifyDict, List.foldlM_cons] at ih ⊢
    cases hget : AL.get m d.name with
    | none =>
      cases ho : d.optional with
      | true =>
        simp only [if_true, Option.bind_eq_bind, Option.bind_some]
        rw [ih ctx ctx']
        simp [RequiredPresent, dictPieces, hget, ho]
      | false =>
        simp only [Bool.false_eq_true, if_false, Option.bind_eq_bind, Option.bind_none]
        simp [RequiredPresent, hget, ho]
    | some a =>
      simp only [Option.bind_eq_bind]
      have hp : dictPieces (d :: ds) m = (RangeC.single d.constr, [a]) :: dictPieces ds m := by
        simp [dictPieces, hget]
      have hr : RequiredPresent (d :: ds) m ↔ RequiredPresent ds m := by
        simp [RequiredPresent, hget]
      rw [hp, hr]
      simp only [verifyPieces, RangeC.verify]
      cases d.constr.verify a ctx with
      | none => simp
      | some ctx₁ =>
        simp only [Option.bind_some]
        exact ih ctx₁ ctx'


/-- pieces contributed by the region definitions `rest`, the first of which has number `i` -/
def regionPiecesFrom (sizes : List Nat) (rs : List RegionInst) : List SegDef → Nat → List (RangeC × List Nat)
  | [], _ => []
  | sd :: r, i => entryPieces sd.constr (segAt sizes rs i) ++ regionPiecesFrom sizes rs r (i + 1)

/-- every region in a segment declared `single_block` has exactly one block -/
def SingleBlockOk (sizes : List Nat) (rs : List RegionInst) : List SegDef → Nat → Prop
  | [], _ => True
  | sd :: r, i =>
    (sd.singleBlock = true → ∀ x ∈ segAt sizes rs i, x.blocks = 1) ∧ SingleBlockOk sizes rs r (i + 1)

theorem verifyRegionsLoop_iff (kinds : List Seg) (opt : Opt) (attr : SizeAttr)
    (rs : List RegionInst) (sizes : List Nat) :
    ∀ (rest : List SegDef) (i : Nat) (ctx : Ctx),
      (∀ j, i ≤ j → j < i + rest.length → accessor kinds opt attr rs j = .ok (segAt sizes rs j)) →
      (∀ ctx', verifyRegionsLoop kinds opt attr rs rest i ctx = .ok ctx' ↔
        SingleBlockOk sizes rs rest i ∧ verifyPieces (regionPiecesFrom sizes rs rest i) ctx = some ctx')
      ∧ ∀ e, verifyRegionsLoop kinds opt attr rs rest i ctx = .error e → e = .verify
  | [], i, ctx, _ => by
    simp [verifyRegionsLoop, SingleBlockOk, regionPiecesFrom, verifyPieces]
  | sd :: r, i, ctx, h => by
    have ih := fun ctx' => verifyRegionsLoop_iff kinds opt attr rs sizes r (i + 1) ctx'
      (fun j h1 h2 => h j (by omega) (by simp only [List.length_cons]; omega))
    simp only [verifyRegionsLoop, SingleBlockOk, regionPiecesFrom]
    rw [h i (Nat.le_refl _) (by simp)]
    simp only
    by_cases hsb : (sd.singleBlock && (segAt sizes rs i).any fun r => r.blocks != 1) = true
    · simp only [hsb, if_true]
      have hneg : ¬ (sd.singleBlock = true → ∀ x ∈ segAt sizes rs i, x.blocks = 1) := by
        simp only [Bool.and_eq_true, List.any_eq_true, bne_iff_ne, ne_eq] at hsb
        obtain ⟨h1, x, hx, hne⟩ := hsb
        intro hall
        exact hne (hall h1 x hx)
      constructor
      · intro ctx'
        constructor
        · intro hh; cases hh
        · rintro ⟨⟨hok, -⟩, -⟩; exact absurd hok hneg
      · intro e he; simp only [Except.error.injEq] at he; exact he.symm
    · have hpos : (sd.singleBlock = true → ∀ x ∈ segAt sizes rs i, x.blocks = 1) := by
        intro h1 x hx
        by_contra hne
        apply hsb
        simp only [Bool.and_eq_true, List.any_eq_true, bne_iff_ne, ne_eq]
        exact ⟨h1, x, hx, hne⟩
      simp only [hsb, Bool.false_eq_true, if_false, verifyEntryArgs_eq]
      cases hp : verifyPieces (entryPieces sd.constr (segAt sizes rs i)) ctx with
      | none =>
        simp only
        constructor
        · intro ctx'
          constructor
          · intro hh; cases hh
          · rintro ⟨-, hh⟩
            rw [verifyPieces_append, hp] at hh
            simp at hh
        · intro e he; simp only [Except.error.injEq] at he; exact he.symm
      | some ctx₁ =>
        simp only
        obtain ⟨ih1, ih2⟩ := ih ctx₁
        refine ⟨fun ctx' => ?_, ih2⟩
        rw [ih1 ctx', verifyPieces_append, hp]
        simp only [Option.bind_some]
        constructor
        · rintro ⟨a, b⟩; exact ⟨⟨hpos, a⟩, b⟩
        · rintro ⟨⟨-, a⟩, b⟩; exact ⟨a, b⟩

set_option linter.unusedSimpArgs false in
theorem verifyOp_unfold (d : Def) (o : Inst) :
    verifyOp d o = .ok () ↔
      ∃ c1 c2 c3 c4 c5,
        verifyArgList d.operands o.operands o.operandAttr {} = .ok c1 ∧
        verifyArgList d.results o.results o.resultAttr c1 = .ok c2 ∧
        verifyRegions d.regions o.regions o.regionAttr c2 = .ok c3 ∧
        verifySizes d.successors.kinds d.successors.opt o.successors o.succAttr = true ∧
        verifyDict d.props o.props c3 = some c4 ∧
        (o.props.any fun kv => !(d.props.any fun pd => pd.name == kv.1)) = false ∧
        verifyDict d.attrs o.attrs c4 = some c5 := by
  unfold verifyOp
  cases h1 : verifyArgList d.operands o.operands o.operandAttr {} with
  | error e => simp [bind, Except.bind]
  | ok c1 =>
    cases h2 : verifyArgList d.results o.results o.resultAttr c1 with
    | error e => simp [bind, Except.bind, h2]
    | ok c2 =>
      cases h3 : verifyRegions d.regions o.regions o.regionAttr c2 with
      | error e => simp [bind, Except.bind, h2, h3]
      | ok c3 =>
        cases h4 : verifySizes d.successors.kinds d.successors.opt o.successors o.succAttr with
        | false => simp [bind, Except.bind, throw, throwThe, MonadExceptOf.throw, h2, h3, h4]
        | true =>
          cases h5 : verifyDict d.props o.props c3 with
          | none => simp [bind, Except.bind, throw, throwThe, MonadExceptOf.throw, pure, Except.pure, h2, h3, h4, h5]
          | some c4 =>
            cases h6 : (o.props.any fun kv => !(d.props.any fun pd => pd.name == kv.1)) with
            | true => simp [bind, Except.bind, throw, throwThe, MonadExceptOf.throw, pure, Except.pure, h2, h3, h4, h5, h6]
            | false =>
              cases h7 : verifyDict d.attrs o.attrs c4 with
              | none => simp [bind, Except.bind, throw, throwThe, MonadExceptOf.throw, pure, Except.pure, h2, h3, h4, h5, h6, h7]
              | some c5 => simp [bind, Except.bind, throw, throwThe, MonadExceptOf.throw, pure, Except.pure, h2, h3, h4, h5, h6, h7]

end Xdsl.OpDef
