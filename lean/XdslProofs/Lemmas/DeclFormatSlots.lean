import XdslProofs.Lemmas.DeclFormatGroup
import XdslProofs.Lemmas.AL
/-!
C05, stage 2a: the structural slots (operands, operand types, result types, regions, successors) of
the state `replayD fmt op {}` hold the operation's own lists.
-/
namespace Xdsl.DeclFormat
set_option linter.unusedSimpArgs false

def getF : Fam → PState → AL Nat (List Nat)
  | .operands, st => st.operands
  | .operandTys, st => st.operandTys
  | .resultTys, st => st.resultTys
  | .regions, st => st.regions
  | .succs, st => st.succs

def opF : Fam → OpInst → List (List Nat)
  | .operands, op => op.operands
  | .operandTys, op => op.operandTys
  | .resultTys, op => op.resultTys
  | .regions, op => op.regions
  | .succs, op => op.succs

/-- the slot a directive of the proved fragment writes -/
def dirSlot : SDir → Option (Fam × Nat)
  | .operand i _ => some (.operands, i)
  | .operandTy i _ => some (.operandTys, i)
  | .resultTy i _ => some (.resultTys, i)
  | .region i _ => some (.regions, i)
  | .succ i _ => some (.succs, i)
  | _ => none

theorem getF_replayS (D : Defs) (op : OpInst) (d : SDir) (st : PState) (fam : Fam)
    (hfrag : inFragment d = true) :
    getF fam (replayS D op d st) =
      match dirSlot d with
      | some (fam', i) => if fam' = fam then AL.set (getF fam st) i (seg (opF fam op) i) else getF fam st
      | none => getF fam st := by
  cases d <;> first | (simp [inFragment] at hfrag; done) | skip
  all_goals (cases fam <;> simp [replayS, dirSlot, getF, opF, dictState, setDict])
  all_goals (first | rfl | (split <;> (try split) <;> (try split) <;> rfl) | skip)

/-! ### maps that hold the operation's own segments -/

def AgreeM (segs : List (List Nat)) (m : AL Nat (List Nat)) : Prop :=
  ∀ i xs, AL.get m i = some xs → xs = seg segs i

theorem get_foldl_set (l : List Nat) (m : AL Nat (List Nat)) (f : Nat → List Nat) (i : Nat) :
    AL.get (l.foldl (fun m j => AL.set m j (f j)) m) i = if i ∈ l then some (f i) else AL.get m i := by
  induction l generalizing m with
  | nil => simp
  | cons a l ih =>
    simp only [List.foldl_cons, ih, AL.get_set, List.mem_cons]
    by_cases h1 : i ∈ l
    · simp [h1]
    · by_cases h2 : i = a
      · subst h2; simp [h1]
      · simp [h1, h2]

theorem get_setAll (m : AL Nat (List Nat)) (segs : List (List Nat)) (i : Nat) :
    AL.get (setAll m segs) i = if i < segs.length then some (seg segs i) else AL.get m i := by
  unfold setAll
  rw [get_foldl_set]
  simp [seg]

theorem agreeM_set {segs : List (List Nat)} {m : AL Nat (List Nat)} (j : Nat) (h : AgreeM segs m) :
    AgreeM segs (AL.set m j (seg segs j)) := by
  intro i xs hx
  rw [AL.get_set] at hx
  by_cases hij : i = j
  · subst hij; simp at hx; exact hx.symm
  · simp [hij] at hx; exact h i xs hx

theorem agreeM_setAll {segs : List (List Nat)} {m : AL Nat (List Nat)} (h : AgreeM segs m) :
    AgreeM segs (setAll m segs) := by
  intro i xs hx
  rw [get_setAll] at hx
  by_cases hi : i < segs.length
  · simp [hi] at hx; exact hx.symm
  · simp [hi] at hx; exact h i xs hx


def emptyVal : SDir → List Nat
  | .region _ .single => [0]
  | _ => []

/-- the slot `set_empty` writes -/
def emptySlot : SDir → Option (Fam × Nat)
  | .operand _ .single => none
  | .operand i _ => some (.operands, i)
  | .operandTy i _ => some (.operandTys, i)
  | .resultTy i _ => some (.resultTys, i)
  | .region i _ => some (.regions, i)
  | .succ _ .single => none
  | .succ i _ => some (.succs, i)
  | _ => none

theorem getF_setEmptyS (d : SDir) (st : PState) (fam : Fam) (hfrag : inFragment d = true) :
    getF fam (setEmptyS st d) =
      match emptySlot d with
      | some (fam', i) => if fam' = fam then AL.set (getF fam st) i (emptyVal d) else getF fam st
      | none => getF fam st := by
  cases d with
  | operand i k => cases k <;> cases fam <;> simp [setEmptyS, emptySlot, getF, emptyVal]
  | operandTy i k => cases fam <;> simp [setEmptyS, emptySlot, getF, emptyVal]
  | resultTy i k => cases fam <;> simp [setEmptyS, emptySlot, getF, emptyVal]
  | region i k => cases k <;> cases fam <;> simp [setEmptyS, emptySlot, getF, emptyVal]
  | succ i k => cases k <;> cases fam <;> simp [setEmptyS, emptySlot, getF, emptyVal]
  | operandsAll => simp [inFragment] at hfrag
  | _ => cases fam <;> simp [setEmptyS, emptySlot, getF]

/-- everything the state holds in family `fam` is the operation's own list -/
def AgreeF (fam : Fam) (op : OpInst) (st : PState) : Prop :=
  ∀ i xs, AL.get (getF fam st) i = some xs → xs = seg (opF fam op) i

theorem agreeF_iff (fam : Fam) (op : OpInst) (st : PState) :
    AgreeF fam op st ↔ AgreeM (opF fam op) (getF fam st) := Iff.rfl

theorem agreeF_replayTy (op : OpInst) (r : TyRef) (st : PState) (fam : Fam)
    (h : AgreeF fam op st) : AgreeF fam op (replayTy op r st) := by
  cases r <;> cases fam <;>
    first
    | exact h
    | exact agreeM_set (segs := op.operandTys) _ h
    | exact agreeM_set (segs := op.resultTys) _ h
    | exact agreeM_setAll (segs := op.operandTys) h
    | exact agreeM_setAll (segs := op.resultTys) h

theorem agreeF_replayS (D : Defs) (op : OpInst) (d : SDir) (st : PState) (fam : Fam)
    (h : AgreeF fam op st) : AgreeF fam op (replayS D op d st) := by
  by_cases hfrag : inFragment d = true
  · intro i xs hx
    rw [getF_replayS D op d st fam hfrag] at hx
    cases hs : dirSlot d with
    | none => rw [hs] at hx; exact h i xs hx
    | some p =>
      obtain ⟨fam', j⟩ := p
      rw [hs] at hx
      simp only at hx
      by_cases hf : fam' = fam
      · simp only [hf, if_true, AL.get_set] at hx
        by_cases hij : i = j
        · subst hij; simp at hx; exact hx.symm
        · simp [hij] at hx; exact h i xs hx
      · simp only [hf, if_false] at hx; exact h i xs hx
  · cases d <;> first | (simp [inFragment] at hfrag; done) | skip
    · cases fam <;> first | exact h | exact agreeM_setAll (segs := op.operands) h
    · cases fam <;> first | exact h | exact agreeM_setAll (segs := op.operandTys) h
    · cases fam <;> first | exact h | exact agreeM_setAll (segs := op.resultTys) h
    · exact agreeF_replayTy op _ _ fam (agreeF_replayTy op _ _ fam h)

theorem emptyVal_eq_of_emptyS (op : OpInst) (d : SDir) (fam : Fam) (i : Nat)
    (hs : emptySlot d = some (fam, i)) (he : emptyS op d) : emptyVal d = seg (opF fam op) i := by
  cases d with
  | operand j k =>
    cases k <;> simp only [emptySlot, Option.some.injEq, Prod.mk.injEq, reduceCtorEq] at hs <;>
      obtain ⟨rfl, rfl⟩ := hs <;> simpa [emptyS, emptyVal, opF] using he.symm
  | operandTy j k =>
    simp only [emptySlot, Option.some.injEq, Prod.mk.injEq] at hs
    obtain ⟨rfl, rfl⟩ := hs
    simpa [emptyS, emptyVal, opF] using he.symm
  | resultTy j k =>
    simp only [emptySlot, Option.some.injEq, Prod.mk.injEq] at hs
    obtain ⟨rfl, rfl⟩ := hs
    simpa [emptyS, emptyVal, opF] using he.symm
  | region j k =>
    cases k <;> simp only [emptySlot, Option.some.injEq, Prod.mk.injEq] at hs <;>
      obtain ⟨rfl, rfl⟩ := hs <;> simpa [emptyS, emptyVal, opF] using he.symm
  | succ j k =>
    cases k <;> simp only [emptySlot, Option.some.injEq, Prod.mk.injEq, reduceCtorEq] at hs <;>
      obtain ⟨rfl, rfl⟩ := hs <;> simpa [emptyS, emptyVal, opF] using he.symm
  | _ => simp [emptySlot] at hs

theorem agreeF_setEmptyS (op : OpInst) (d : SDir) (st : PState) (fam : Fam) (hfrag : inFragment d = true)
    (he : emptyS op d) (h : AgreeF fam op st) : AgreeF fam op (setEmptyS st d) := by
  intro i xs hx
  rw [getF_setEmptyS d st fam hfrag] at hx
  cases hs : emptySlot d with
  | none => rw [hs] at hx; exact h i xs hx
  | some p =>
    obtain ⟨fam', j⟩ := p
    rw [hs] at hx
    simp only at hx
    by_cases hf : fam' = fam
    · subst hf
      simp only [if_true, AL.get_set] at hx
      by_cases hij : i = j
      · subst hij; simp at hx; rw [← hx]; exact emptyVal_eq_of_emptyS op d fam' i hs he
      · simp [hij] at hx; exact h i xs hx
    · simp only [hf, if_false] at hx; exact h i xs hx

theorem agreeF_replaySeq (D : Defs) (op : OpInst) (ds : List SDir) (st : PState) (fam : Fam)
    (h : AgreeF fam op st) : AgreeF fam op (replaySeq D op ds st) := by
  induction ds generalizing st with
  | nil => exact h
  | cons d ds ih => exact ih _ (agreeF_replayS D op d st fam h)

theorem agreeF_setEmptySeq (op : OpInst) (ds : List SDir) (st : PState) (fam : Fam)
    (hfrag : ∀ d ∈ ds, inFragment d = true) (he : ∀ d ∈ ds, emptyS op d)
    (h : AgreeF fam op st) : AgreeF fam op (setEmptySeq st ds) := by
  induction ds generalizing st with
  | nil => exact h
  | cons d ds ih =>
    exact ih _ (fun x hx => hfrag x (List.mem_cons_of_mem _ hx)) (fun x hx => he x (List.mem_cons_of_mem _ hx))
      (agreeF_setEmptyS op d st fam (hfrag d (List.mem_cons_self ..)) (he d (List.mem_cons_self ..)) h)

theorem agreeF_replayD (D : Defs) (op : OpInst) (fmt : List Dir) (st : PState) (fam : Fam)
    (hfrag : fragD fmt = true) (hv : ValidD D op fmt) (h : AgreeF fam op st) :
    AgreeF fam op (replayD D op fmt st) := by
  induction fmt generalizing st with
  | nil => exact h
  | cons d ds ih =>
    cases d with
    | s d =>
      exact ih _ hfrag hv.2 (agreeF_replayS D op d st fam h)
    | group a f r e =>
      simp only [fragD, Bool.and_eq_true] at hfrag
      obtain ⟨⟨⟨hf1, hf2⟩, hf3⟩, hf4⟩ := hfrag
      obtain ⟨_, _, hcons, hv4⟩ := hv
      refine ih _ hf4 hv4 ?_
      simp only [replayDir]
      by_cases hp : presentS op a = true
      · simp only [hp, if_true]
        simp only [GroupCons, hp, if_true] at hcons
        exact agreeF_setEmptySeq op e _ fam (fun x hx => mem_all hf3 hx) hcons.1
          (agreeF_replaySeq D op (f :: r) st fam h)
      · simp only [hp, if_false, Bool.false_eq_true]
        simp only [GroupCons, hp, if_false, Bool.false_eq_true] at hcons
        exact agreeF_replaySeq D op e _ fam
          (agreeF_setEmptySeq op r _ fam (fun x hx => mem_all hf2 hx)
            (fun x hx => hcons x (List.mem_cons_of_mem _ hx)) (agreeF_replayS D op f st fam h))

theorem agreeF_init (fam : Fam) (op : OpInst) : AgreeF fam op {} := by
  intro i xs hx
  cases fam <;> simp [getF] at hx


theorem wfD_tail' {d : Dir} {ds : List Dir} {K : List Cls} (h : wfD (d :: ds) K = true) : wfD ds K = true := by
  cases d <;> simp only [wfD, Bool.and_eq_true] at h <;> exact h.2

/-! ### which slots are set -/

def SetF (fam : Fam) (i : Nat) (st : PState) : Prop := (AL.get (getF fam st) i).isSome = true

theorem setM_set_mono {m : AL Nat (List Nat)} (i j : Nat) (v : List Nat)
    (h : (AL.get m i).isSome = true) : (AL.get (AL.set m j v) i).isSome = true := by
  rw [AL.get_set]; by_cases hij : i = j <;> simp [hij, h]

theorem setM_setAll_mono {m : AL Nat (List Nat)} (i : Nat) (segs : List (List Nat))
    (h : (AL.get m i).isSome = true) : (AL.get (setAll m segs) i).isSome = true := by
  rw [get_setAll]; by_cases hi : i < segs.length <;> simp [hi, h]

theorem setM_setAll_hit {m : AL Nat (List Nat)} (i : Nat) (segs : List (List Nat))
    (hi : i < segs.length) : (AL.get (setAll m segs) i).isSome = true := by
  rw [get_setAll]; simp [hi]

theorem setF_replayTy_mono (op : OpInst) (r : TyRef) (st : PState) (fam : Fam) (i : Nat)
    (h : SetF fam i st) : SetF fam i (replayTy op r st) := by
  cases r <;> cases fam <;>
    first
    | exact h
    | exact setM_set_mono _ _ _ h
    | exact setM_setAll_mono _ _ h

theorem pos_ite {a b : Nat} (h : 0 < if a = b then 1 else 0) : a = b := by
  by_cases e : a = b
  · exact e
  · simp [e] at h

theorem setF_replayTy_hit (op : OpInst) (r : TyRef) (st : PState) (fam : Fam) (i : Nat)
    (hb : tyRefBindN fam i r > 0) (hi : i < (opF fam op).length) : SetF fam i (replayTy op r st) := by
  cases r <;> cases fam <;> simp [tyRefBindN] at hb
  · exact setM_setAll_hit _ _ hi
  · exact setM_setAll_hit _ _ hi
  · have e := pos_ite hb; subst e; unfold SetF; simp [replayTy, getF, AL.get_set]
  · have e := pos_ite hb; subst e; unfold SetF; simp [replayTy, getF, AL.get_set]

theorem setF_replayS_mono (D : Defs) (op : OpInst) (d : SDir) (st : PState) (fam : Fam) (i : Nat)
    (h : SetF fam i st) : SetF fam i (replayS D op d st) := by
  by_cases hfrag : inFragment d = true
  · unfold SetF at *
    rw [getF_replayS D op d st fam hfrag]
    cases hs : dirSlot d with
    | none => exact h
    | some p =>
      obtain ⟨fam', j⟩ := p
      simp only
      by_cases hf : fam' = fam
      · simp only [hf, if_true, AL.get_set]
        by_cases hij : i = j <;> simp [hij, h]
      · simp only [hf, if_false]; exact h
  · cases d <;> first | (simp [inFragment] at hfrag; done) | skip
    · cases fam <;> first | exact h | exact setM_setAll_mono _ _ h
    · cases fam <;> first | exact h | exact setM_setAll_mono _ _ h
    · cases fam <;> first | exact h | exact setM_setAll_mono _ _ h
    · exact setF_replayTy_mono op _ _ fam i (setF_replayTy_mono op _ _ fam i h)

def bindsS (fam : Fam) (i : Nat) (d : SDir) : Bool := decide (bindN fam i d > 0)

theorem bindsS_frag {fam : Fam} {i : Nat} {d : SDir} (hfrag : inFragment d = true)
    (hb : bindsS fam i d = true) : dirSlot d = some (fam, i) := by
  cases d <;> first | (simp [inFragment] at hfrag; done) | skip
  all_goals (cases fam <;> simp_all [bindsS, bindN, dirSlot])
  all_goals exact pos_ite hb

theorem setF_replayS_hit (D : Defs) (op : OpInst) (d : SDir) (st : PState) (fam : Fam) (i : Nat)
    (hb : bindsS fam i d = true) (hi : i < (opF fam op).length) : SetF fam i (replayS D op d st) := by
  by_cases hfrag : inFragment d = true
  · have hs := bindsS_frag hfrag hb
    unfold SetF
    rw [getF_replayS D op d st fam hfrag, hs]
    simp [AL.get_set]
  · cases d <;> first | (simp [inFragment] at hfrag; done) | skip
    · cases fam <;> simp [bindsS, bindN] at hb
      exact setM_setAll_hit _ _ hi
    · cases fam <;> simp [bindsS, bindN] at hb
      exact setM_setAll_hit _ _ hi
    · cases fam <;> simp [bindsS, bindN] at hb
      exact setM_setAll_hit _ _ hi
    · rename_i ins outs
      have hb' : tyRefBindN fam i ins + tyRefBindN fam i outs > 0 := by simpa [bindsS, bindN] using hb
      by_cases h1 : tyRefBindN fam i outs > 0
      · exact setF_replayTy_hit op outs _ fam i h1 hi
      · exact setF_replayTy_mono op outs _ fam i (setF_replayTy_hit op ins st fam i (by omega) hi)

theorem setF_setEmptyS_mono (d : SDir) (st : PState) (fam : Fam) (i : Nat) (hfrag : inFragment d = true)
    (h : SetF fam i st) : SetF fam i (setEmptyS st d) := by
  unfold SetF at *
  rw [getF_setEmptyS d st fam hfrag]
  cases hs : emptySlot d with
  | none => exact h
  | some p =>
    obtain ⟨fam', j⟩ := p
    simp only
    by_cases hf : fam' = fam
    · simp only [hf, if_true, AL.get_set]
      by_cases hij : i = j <;> simp [hij, h]
    · simp only [hf, if_false]; exact h

theorem setF_setEmptyS_hit (d : SDir) (st : PState) (fam : Fam) (i : Nat) (hfrag : inFragment d = true)
    (hs : emptySlot d = some (fam, i)) : SetF fam i (setEmptyS st d) := by
  unfold SetF
  rw [getF_setEmptyS d st fam hfrag, hs]
  simp [AL.get_set]

theorem setF_replaySeq_mono (D : Defs) (op : OpInst) (ds : List SDir) (st : PState) (fam : Fam) (i : Nat)
    (h : SetF fam i st) : SetF fam i (replaySeq D op ds st) := by
  induction ds generalizing st with
  | nil => exact h
  | cons d ds ih => exact ih _ (setF_replayS_mono D op d st fam i h)

theorem setF_replayS_slot (D : Defs) (op : OpInst) (d : SDir) (st : PState) (fam : Fam) (i : Nat)
    (hfrag : inFragment d = true) (hs : dirSlot d = some (fam, i)) : SetF fam i (replayS D op d st) := by
  unfold SetF
  rw [getF_replayS D op d st fam hfrag, hs]
  simp [AL.get_set]

theorem setF_replaySeq_hit (D : Defs) (op : OpInst) (ds : List SDir) (st : PState) (fam : Fam) (i : Nat)
    (hfrag : ∀ d ∈ ds, inFragment d = true)
    (h : ∃ d ∈ ds, dirSlot d = some (fam, i)) : SetF fam i (replaySeq D op ds st) := by
  induction ds generalizing st with
  | nil => obtain ⟨d, hd, _⟩ := h; cases hd
  | cons d ds ih =>
    obtain ⟨x, hx, hs⟩ := h
    rcases List.mem_cons.mp hx with rfl | hx'
    · exact setF_replaySeq_mono D op ds _ fam i
        (setF_replayS_slot D op x st fam i (hfrag x (List.mem_cons_self ..)) hs)
    · exact ih _ (fun y hy => hfrag y (List.mem_cons_of_mem _ hy)) ⟨x, hx', hs⟩

theorem setF_setEmptySeq_mono (ds : List SDir) (st : PState) (fam : Fam) (i : Nat)
    (hfrag : ∀ d ∈ ds, inFragment d = true) (h : SetF fam i st) : SetF fam i (setEmptySeq st ds) := by
  induction ds generalizing st with
  | nil => exact h
  | cons d ds ih =>
    exact ih _ (fun x hx => hfrag x (List.mem_cons_of_mem _ hx))
      (setF_setEmptyS_mono d st fam i (hfrag d (List.mem_cons_self ..)) h)

theorem setF_setEmptySeq_hit (ds : List SDir) (st : PState) (fam : Fam) (i : Nat)
    (hfrag : ∀ d ∈ ds, inFragment d = true) (h : ∃ d ∈ ds, emptySlot d = some (fam, i)) :
    SetF fam i (setEmptySeq st ds) := by
  induction ds generalizing st with
  | nil => obtain ⟨d, hd, _⟩ := h; cases hd
  | cons d ds ih =>
    have hfr' : ∀ x ∈ ds, inFragment x = true := fun x hx => hfrag x (List.mem_cons_of_mem _ hx)
    obtain ⟨x, hx, hs⟩ := h
    rcases List.mem_cons.mp hx with rfl | hx'
    · exact setF_setEmptySeq_mono ds _ fam i hfr' (setF_setEmptyS_hit x st fam i (hfrag x (List.mem_cons_self ..)) hs)
    · exact ih _ hfr' ⟨x, hx', hs⟩

/-- inside a group `set_empty` reaches the slot the directive writes -/
theorem emptySlot_of_okInGroup (d : SDir) (p : Fam × Nat) (hg : okInGroup d = true) (hs : dirSlot d = some p) :
    emptySlot d = some p := by
  cases d with
  | operand i k => cases k <;> simp_all [okInGroup, kindNullable, dirSlot, emptySlot]
  | operandTy i k => simp_all [dirSlot, emptySlot]
  | resultTy i k => simp_all [dirSlot, emptySlot]
  | region i k => cases k <;> simp_all [dirSlot, emptySlot]
  | succ i k => cases k <;> simp_all [okInGroup, kindNullable, dirSlot, emptySlot]
  | _ => simp [dirSlot] at hs

/-- some directive of the format (at top level or inside a group) writes slot `(fam, i)` -/
def bindsD (fam : Fam) (i : Nat) : List Dir → Bool
  | [] => false
  | .s d :: ds => bindsS fam i d || bindsD fam i ds
  | .group _ f r e :: ds => (f :: r).any (bindsS fam i) || e.any (bindsS fam i) || bindsD fam i ds

theorem setF_replayD_mono (D : Defs) (op : OpInst) (fmt : List Dir) (st : PState) (fam : Fam) (i : Nat)
    (hfrag : fragD fmt = true) (h : SetF fam i st) : SetF fam i (replayD D op fmt st) := by
  induction fmt generalizing st with
  | nil => exact h
  | cons d ds ih =>
    cases d with
    | s d =>
      exact ih _ hfrag (setF_replayS_mono D op d st fam i h)
    | group a f r e =>
      simp only [fragD, Bool.and_eq_true] at hfrag
      obtain ⟨⟨⟨hf1, hf2⟩, hf3⟩, hf4⟩ := hfrag
      refine ih _ hf4 ?_
      simp only [replayDir]
      split
      · exact setF_setEmptySeq_mono e _ fam i (fun x hx => mem_all hf3 hx) (setF_replaySeq_mono D op (f :: r) st fam i h)
      · exact setF_replaySeq_mono D op e _ fam i
          (setF_setEmptySeq_mono r _ fam i (fun x hx => mem_all hf2 hx) (setF_replayS_mono D op f st fam i h))

theorem any_bindsS {fam : Fam} {i : Nat} {ds : List SDir} (hfrag : ∀ d ∈ ds, inFragment d = true)
    (h : ds.any (bindsS fam i) = true) :
    ∃ d ∈ ds, dirSlot d = some (fam, i) := by
  obtain ⟨d, hd, hb⟩ := List.any_eq_true.mp h
  exact ⟨d, hd, bindsS_frag (hfrag d hd) hb⟩

theorem setF_replayD (D : Defs) (op : OpInst) (fmt : List Dir) (K : List Cls) (st : PState) (fam : Fam) (i : Nat)
    (hwf : wfD fmt K = true) (hfrag : fragD fmt = true) (hb : bindsD fam i fmt = true)
    (hi : i < (opF fam op).length) :
    SetF fam i (replayD D op fmt st) := by
  induction fmt generalizing st with
  | nil => simp [bindsD] at hb
  | cons d ds ih =>
    cases d with
    | s d =>
      simp only [bindsD, Bool.or_eq_true] at hb
      rcases hb with hb | hb
      · exact setF_replayD_mono D op ds _ fam i hfrag
          (setF_replayS_hit D op d st fam i hb hi)
      · exact ih _ (wfD_tail' hwf) hfrag hb
    | group a f r e =>
      simp only [fragD, Bool.and_eq_true] at hfrag
      obtain ⟨⟨⟨hf1, hf2⟩, hf3⟩, hf4⟩ := hfrag
      have hfT : ∀ x ∈ f :: r, inFragment x = true := fun x hx => by
        rcases List.mem_cons.mp hx with h | h
        · exact h ▸ hf1
        · exact mem_all hf2 h
      have hwf0 := hwf
      simp only [wfD, Bool.and_eq_true] at hwf
      obtain ⟨⟨⟨⟨⟨⟨⟨⟨⟨_, _⟩, _⟩, _⟩, hing⟩, hinge⟩, _⟩, _⟩, _⟩, hwfds⟩ := hwf
      simp only [bindsD, Bool.or_eq_true] at hb
      rcases hb with (hb | hb) | hb
      · -- bound in the then-branch
        obtain ⟨x, hx, hs⟩ := any_bindsS hfT hb
        refine setF_replayD_mono D op ds _ fam i hf4 ?_
        simp only [replayDir]
        split
        · exact setF_setEmptySeq_mono e _ fam i (fun y hy => mem_all hf3 hy)
            (setF_replaySeq_hit D op (f :: r) st fam i hfT ⟨x, hx, hs⟩)
        · refine setF_replaySeq_mono D op e _ fam i ?_
          rcases List.mem_cons.mp hx with rfl | hx'
          · exact setF_setEmptySeq_mono r _ fam i (fun y hy => mem_all hf2 hy)
              (setF_replayS_slot D op x st fam i hf1 hs)
          · exact setF_setEmptySeq_hit r _ fam i (fun y hy => mem_all hf2 hy)
              ⟨x, hx', emptySlot_of_okInGroup x _ (mem_all hing (List.mem_cons_of_mem _ hx')) hs⟩
      · -- bound in the else-branch
        obtain ⟨x, hx, hs⟩ := any_bindsS (fun y hy => mem_all hf3 hy) hb
        refine setF_replayD_mono D op ds _ fam i hf4 ?_
        simp only [replayDir]
        split
        · have hxg : okInGroup x = true := by
            have := mem_all hinge hx
            simp only [Bool.and_eq_true] at this
            exact this.1
          exact setF_setEmptySeq_hit e _ fam i (fun y hy => mem_all hf3 hy) ⟨x, hx, emptySlot_of_okInGroup x _ hxg hs⟩
        · exact setF_replaySeq_hit D op e _ fam i (fun y hy => mem_all hf3 hy) ⟨x, hx, hs⟩
      · exact ih _ hwfds hf4 hb

end Xdsl.DeclFormat
