import XdslModel.LLVM
/-! Helper lemmas for C23 (`XdslProofs/C23.lean`): the mapping tables of `convert_op.py`, the
`val_map` relation, the per-op / per-block simulation.  No Mathlib. -/
namespace Xdsl.LLVM

/-! ## tables -/

theorem bit_cases (ovf : Nat) (h : ovf < 4) :
    (ovf = 0 ∧ bit ovf 0 = false ∧ bit ovf 1 = false) ∨ (ovf = 1 ∧ bit ovf 0 = true ∧ bit ovf 1 = false) ∨
    (ovf = 2 ∧ bit ovf 0 = false ∧ bit ovf 1 = true) ∨ (ovf = 3 ∧ bit ovf 0 = true ∧ bit ovf 1 = true) := by
  match ovf, h with
  | 0, _ => decide
  | 1, _ => decide
  | 2, _ => decide
  | 3, _ => decide

theorem overflowFlags_spec (ovf : Nat) (fl : List IFlag) (h : overflowFlags ovf = some fl) :
    fl.contains .nsw = bit ovf 0 ∧ fl.contains .nuw = bit ovf 1 ∧ fl.contains .exact = false ∧
    fl.contains .disjoint = false ∧ fl.contains .nneg = false := by
  match ovf with
  | 0 => simp [overflowFlags] at h; subst h; decide
  | 1 => simp [overflowFlags] at h; subst h; decide
  | 2 => simp [overflowFlags] at h; subst h; decide
  | 3 => simp [overflowFlags] at h; subst h; decide
  | n + 4 => simp [overflowFlags] at h

theorem convBin_eval (k : DBin) (ovf : Nat) (ex dj : Bool) (fl : List IFlag)
    (h : convBinFlags k ovf ex dj = some fl) {w : Nat} (x y : BitVec w) :
    (convBin k).eval fl x y = k.eval ovf ex dj x y := by
  cases k <;> simp only [convBinFlags] at h
  case AddOp | SubOp | MulOp | ShlOp =>
    all_goals
      obtain ⟨h1, h2, _, _, _⟩ := overflowFlags_spec ovf fl h
      simp only [convBin, IBin.eval, DBin.eval, h1, h2]
  case UDivOp | SDivOp | LShrOp | AShrOp =>
    all_goals
      cases h
      cases ex <;> simp [convBin, IBin.eval, DBin.eval]
  case OrOp =>
    cases h
    cases dj <;> simp [convBin, IBin.eval, DBin.eval]
  case URemOp | SRemOp | AndOp | XOrOp =>
    all_goals
      cases h
      simp [convBin, IBin.eval, DBin.eval]

theorem convICmp_eval (p : Nat) (q : IPred) (h : convICmpPred p = some q) {w : Nat} (x y : BitVec w) :
    dICmp p x y = some (q.eval x y) := by
  unfold convICmpPred icmpPredMap at h
  match p with
  | 0 | 1 | 2 | 3 | 4 | 5 | 6 | 7 | 8 | 9 => simp [llvmliteICmp] at h; subst h; rfl
  | n + 10 => simp at h

def fcmpRowOK (p : Nat) : Bool :=
  match convFCmpPred p with
  | some q => dFCmp p .lt == some (q.eval .lt) && dFCmp p .eq == some (q.eval .eq) &&
              dFCmp p .gt == some (q.eval .gt) && dFCmp p .un == some (q.eval .un)
  | none => true

theorem convFCmp_table : ∀ p : Fin 16, fcmpRowOK p.val = true := by decide

theorem convFCmp_eval (p : Nat) (q : IFPred) (h : convFCmpPred p = some q) (r : FRel) :
    dFCmp p r = some (q.eval r) := by
  by_cases hp : p < 16
  · have := convFCmp_table ⟨p, hp⟩
    simp only [fcmpRowOK, h, Bool.and_eq_true, beq_iff_eq] at this
    obtain ⟨⟨⟨a, b⟩, c⟩, d⟩ := this
    cases r <;> assumption
  · have : fcmpFlagName p = none := by
      unfold fcmpFlagName
      apply List.getElem?_eq_none
      simp; omega
    simp [convFCmpPred, this] at h

theorem convCast_core (k : DCast) (ovf : Nat) (nneg : Bool) (fl : List IFlag)
    (h : convCastFlags k ovf nneg = some fl) (toTy : Ty) (a : Val) :
    castCore (convCast k).kind toTy a (convCast k = .trunc && fl.contains .nsw)
        (convCast k = .trunc && fl.contains .nuw) (convCast k = .zext && fl.contains .nneg)
      = castCore k.kind toTy a (k = .TruncOp && bit ovf 0) (k = .TruncOp && bit ovf 1) (k = .ZExtOp && nneg) := by
  cases k <;> simp only [convCastFlags] at h
  case TruncOp =>
    obtain ⟨h1, h2, _, _, _⟩ := overflowFlags_spec ovf fl h
    simp only [convCast, ICast.kind, DCast.kind, h1, h2]
    simp
  case ZExtOp =>
    cases h
    cases nneg <;> simp [convCast, ICast.kind, DCast.kind]
  all_goals
    cases h
    simp [convCast, ICast.kind, DCast.kind]

/-! ## `allSome`, association lists -/

theorem allSome_one {α β : Type} (f : α → Option β) (a : α) (vs : List β) :
    allSome f [a] = some vs ↔ ∃ x, f a = some x ∧ vs = [x] := by
  simp only [allSome]
  cases f a <;> simp [eq_comm]

theorem allSome_two {α β : Type} (f : α → Option β) (a b : α) (vs : List β) :
    allSome f [a, b] = some vs ↔ ∃ x y, f a = some x ∧ f b = some y ∧ vs = [x, y] := by
  simp only [allSome]
  cases f a <;> cases f b <;> simp [eq_comm]

theorem allSome_three {α β : Type} (f : α → Option β) (a b c : α) (vs : List β) :
    allSome f [a, b, c] = some vs ↔ ∃ x y z, f a = some x ∧ f b = some y ∧ f c = some z ∧ vs = [x, y, z] := by
  simp only [allSome]
  cases f a <;> cases f b <;> cases f c <;> simp [eq_comm]

theorem allSome_cons {α β : Type} (f : α → Option β) (a : α) (l : List α) (vs : List β) :
    allSome f (a :: l) = some vs ↔ ∃ x xs, f a = some x ∧ allSome f l = some xs ∧ vs = x :: xs := by
  simp only [allSome]
  cases f a <;> cases allSome f l <;> simp [eq_comm]

theorem allSome_length {α β : Type} (f : α → Option β) : ∀ (l : List α) (vs : List β),
    allSome f l = some vs → vs.length = l.length
  | [], vs, h => by simp [allSome] at h; subst h; rfl
  | a :: l, vs, h => by
    obtain ⟨x, xs, _, h2, rfl⟩ := (allSome_cons f a l vs).1 h
    simp [allSome_length f l xs h2]

theorem allSome_getElem {α β : Type} (f : α → Option β) : ∀ (l : List α) (vs : List β),
    allSome f l = some vs → ∀ (i : Nat) (a : α), l[i]? = some a → ∃ v, vs[i]? = some v ∧ f a = some v
  | [], _, _, i, a, hi => by simp at hi
  | x :: l, vs, h, i, a, hi => by
    obtain ⟨y, ys, h1, h2, rfl⟩ := (allSome_cons f x l vs).1 h
    cases i with
    | zero => simp at hi; subst hi; exact ⟨y, by simp, h1⟩
    | succ i => simp at hi; simpa using allSome_getElem f l ys h2 i a hi

theorem AL_get_mem {α β : Type} [DecidableEq α] : ∀ (m : AL α β) (k : α) (v : β), AL.get m k = some v → (k, v) ∈ m
  | [], _, _, h => by simp [AL.get] at h
  | (k', v') :: r, k, v, h => by
    simp only [AL.get] at h
    by_cases hk : k' = k
    · simp [hk] at h; subst hk; subst h; simp
    · simp [hk] at h; exact List.mem_cons_of_mem _ (AL_get_mem r k v h)

theorem allDistinct_cons (x : Nat) (xs : List Nat) :
    allDistinct (x :: xs) = true ↔ x ∉ xs ∧ allDistinct xs = true := by
  simp [allDistinct]

theorem AL_get_of_mem : ∀ (m : VMap) (k : Nat) (o : IOperand),
    allDistinct (m.map (·.1)) = true → (k, o) ∈ m → AL.get m k = some o
  | [], _, _, _, h => by simp at h
  | (k', o') :: r, k, o, hd, h => by
    simp only [List.map_cons, allDistinct_cons] at hd
    simp only [List.mem_cons] at h
    rcases h with h | h
    · injection h with h1 h2; subst h1; subst h2; simp [AL.get]
    · have : k' ≠ k := by
        intro e; subst e
        exact hd.1 (List.mem_map.2 ⟨(k', o), h, rfl⟩)
      simp [AL.get, this, AL_get_of_mem r k o hd.2 h]

/-! ## the `val_map` relation -/

def IOperand.isConst : IOperand → Bool
  | .reg _ => false
  | _ => true

/-- `val_map` sends an SSA id either to the register created for it or to an inline constant -/
def WFMap (m : VMap) : Prop := ∀ id o, look m id = some o → o = .reg (.v id) ∨ o.isConst = true

/-- every dialect value that is bound has the same value as the LLVM value `val_map` holds for it -/
def Rel (m : VMap) (eD : Env) (eI : IEnv) : Prop :=
  ∀ id o v, look m id = some o → AL.get eD id = some v → evalOperand eI o = some v

theorem evalOperand_const (eI eI' : IEnv) (o : IOperand) (h : o.isConst = true) :
    evalOperand eI o = evalOperand eI' o := by
  cases o <;> simp_all [IOperand.isConst, evalOperand]

theorem Rel_bind {m : VMap} (hw : WFMap m) {r : Nat} (hr : look m r = some (.reg (.v r)))
    {eD : Env} {eI : IEnv} (h : Rel m eD eI) (v : Val) : Rel m ((r, v) :: eD) ((.v r, v) :: eI) := by
  intro id o x ho hx
  by_cases e : r = id
  · subst e
    rw [hr] at ho; cases ho
    simp [AL.get] at hx; subst hx
    simp [evalOperand, AL.get]
  · simp [AL.get, e] at hx
    have := h id o x ho hx
    rcases hw id o ho with rfl | hc
    · have e' : (IReg.v r = IReg.v id) = False := by simp [e]
      simpa [evalOperand, AL.get, e'] using this
    · rw [evalOperand_const _ eI o hc]; exact this

theorem Rel_bindConst {m : VMap} {r : Nat} {o : IOperand} (hr : look m r = some o) {v : Val}
    (hv : ∀ eI, evalOperand eI o = some v) {eD : Env} {eI : IEnv} (h : Rel m eD eI) :
    Rel m ((r, v) :: eD) eI := by
  intro id o' x ho hx
  by_cases e : r = id
  · subst e
    rw [hr] at ho; cases ho
    simp [AL.get] at hx; subst hx
    exact hv eI
  · simp [AL.get, e] at hx
    exact h id o' x ho hx

theorem Rel_extS {m : VMap} (hw : WFMap m) {eD : Env} {eI : IEnv} (h : Rel m eD eI) (b i : Nat) (v : Val) :
    Rel m eD ((.s b i, v) :: eI) := by
  intro id o x ho hx
  have := h id o x ho hx
  rcases hw id o ho with rfl | hc
  · simpa [evalOperand, AL.get] using this
  · rw [evalOperand_const _ eI o hc]; exact this

theorem Rel_allSome {m : VMap} {eD : Env} {eI : IEnv} (h : Rel m eD eI) :
    ∀ (ids : List Nat) (os : List IOperand) (vs : List Val),
      allSome (look m) ids = some os → allSome (AL.get eD) ids = some vs → allSome (evalOperand eI) os = some vs
  | [], os, vs, h1, h2 => by
    simp [allSome] at h1 h2; subst h1; subst h2; rfl
  | a :: l, os, vs, h1, h2 => by
    obtain ⟨o, os', ho, hos, rfl⟩ := (allSome_cons _ _ _ _).1 h1
    obtain ⟨v, vs', hv, hvs, rfl⟩ := (allSome_cons _ _ _ _).1 h2
    exact (allSome_cons _ _ _ _).2 ⟨v, vs', h a o v ho hv, Rel_allSome h l os' vs' hos hvs, rfl⟩

/-! ## one op -/

theorem runInstrs_single (i : IInstr) (eI : IEnv) (mem : Mem) :
    runInstrs eI mem [i] = i.step eI mem := by
  simp only [runInstrs]
  cases i.step eI mem with
  | none => rfl
  | some x => cases x; rfl

theorem runInstrs_append : ∀ (is js : List IInstr) (eI : IEnv) (mem : Mem),
    runInstrs eI mem (is ++ js) = (runInstrs eI mem is).bind fun x => runInstrs x.1 x.2 js
  | [], js, eI, mem => by simp [runInstrs]
  | i :: is, js, eI, mem => by
    simp only [List.cons_append, runInstrs]
    cases i.step eI mem with
    | none => rfl
    | some x => cases x; exact runInstrs_append is js _ _

/-- the generic part of the simulation of one converted op -/
theorem step_sim {m : VMap} (hw : WFMap m) (op : DOp) (i : IInstr) {eD : Env} {eI : IEnv} {mem : Mem}
    {eD' : Env} {mem' : Mem} (hrel : Rel m eD eI)
    (hres : i.res = op.res.map IReg.v)
    (hlook : ∀ x, op.res = some x → look m x = some (.reg (.v x)))
    (hargs : ∀ vs, allSome (AL.get eD) op.args = some vs →
      ∃ vs', allSome (evalOperand eI) i.args = some vs' ∧ ∀ mem, i.den mem vs' = op.den mem vs)
    (hs : op.step eD mem = some (eD', mem')) :
    ∃ eI', runInstrs eI mem [i] = some (eI', mem') ∧ Rel m eD' eI' := by
  rw [runInstrs_single]
  simp only [DOp.step, Option.bind_eq_bind, Option.bind_eq_some_iff] at hs
  obtain ⟨vs, hvs, ⟨mem1, r⟩, hden, hout⟩ := hs
  simp only [Option.some.injEq, Prod.mk.injEq] at hout
  obtain ⟨rfl, rfl⟩ := hout
  obtain ⟨vs', hvs', hd⟩ := hargs vs hvs
  refine ⟨bindRes i.res r eI, ?_, ?_⟩
  · simp [IInstr.step, hvs', hd, hden]
  · rw [hres]
    cases hr : op.res with
    | none => simpa [bindRes] using hrel
    | some x =>
      cases r with
      | none => simpa [bindRes] using hrel
      | some v => simpa [bindRes] using Rel_bind hw (hlook x hr) hrel v

theorem intOf_constVal (w : Nat) (i : Int) : intOf w (constVal w i) = some (BitVec.ofInt w i) := by
  simp only [intOf, constVal, ↓reduceIte, BitVec.ofNat_toNat, BitVec.setWidth_eq]

/-- `convert_op` on one op preserves the relation (constants: no instruction, the value is substituted) -/
theorem convOp_step {m : VMap} (hw : WFMap m) (op : DOp) (is : List IInstr) (h : convOp m op = some is)
    (hdef : ∀ r o, op.operand = some (r, o) → look m r = some o)
    {eD : Env} {eI : IEnv} {mem : Mem} {eD' : Env} {mem' : Mem} (hrel : Rel m eD eI)
    (hs : op.step eD mem = some (eD', mem')) :
    ∃ eI', runInstrs eI mem is = some (eI', mem') ∧ Rel m eD' eI' := by
  cases op with
  | const r w v =>
    simp [convOp] at h; subst h
    simp [DOp.step, DOp.args, allSome, DOp.den, DOp.res, bindRes] at hs
    obtain ⟨rfl, rfl⟩ := hs
    refine ⟨eI, rfl, ?_⟩
    exact Rel_bindConst (hdef r (.cint w v) rfl) (fun _ => rfl) hrel
  | fconst r ty d =>
    cases ty with
    | int w => simp [convOp] at h
    | ptr => simp [convOp] at h
    | f32 =>
      simp [convOp] at h; subst h
      simp [DOp.step, DOp.args, allSome, DOp.den, DOp.res, pure1, fconstVal, bindRes] at hs
      obtain ⟨rfl, rfl⟩ := hs
      exact ⟨eI, rfl, Rel_bindConst (hdef r (.cf32 d) rfl) (fun _ => rfl) hrel⟩
    | f64 =>
      simp [convOp] at h; subst h
      simp [DOp.step, DOp.args, allSome, DOp.den, DOp.res, pure1, fconstVal, bindRes] at hs
      obtain ⟨rfl, rfl⟩ := hs
      exact ⟨eI, rfl, Rel_bindConst (hdef r (.cf64 d) rfl) (fun _ => rfl) hrel⟩
  | bin k r w a b ovf ex dj =>
    simp only [convOp, Option.bind_eq_bind, Option.bind_eq_some_iff, Option.some.injEq] at h
    obtain ⟨fl, hfl, oa, ha, ob, hb, rfl⟩ := h
    refine step_sim hw _ _ hrel rfl (fun x hx => ?_) (fun vs hvs => ?_) hs
    · cases hx; exact hdef r _ rfl
    · obtain ⟨va, vb, h1, h2, rfl⟩ := (allSome_two _ _ _ _).1 hvs
      refine ⟨[va, vb], (allSome_two _ _ _ _).2 ⟨va, vb, hrel _ _ _ ha h1, hrel _ _ _ hb h2, rfl⟩, fun mem => ?_⟩
      simp [IInstr.den, DOp.den, convBin_eval k ovf ex dj fl hfl]
  | icmp r p w a b =>
    simp only [convOp, Option.bind_eq_bind, Option.bind_eq_some_iff, Option.some.injEq] at h
    obtain ⟨q, hq, oa, ha, ob, hb, rfl⟩ := h
    refine step_sim hw _ _ hrel rfl (fun x hx => ?_) (fun vs hvs => ?_) hs
    · cases hx; exact hdef r _ rfl
    · obtain ⟨va, vb, h1, h2, rfl⟩ := (allSome_two _ _ _ _).1 hvs
      refine ⟨[va, vb], (allSome_two _ _ _ _).2 ⟨va, vb, hrel _ _ _ ha h1, hrel _ _ _ hb h2, rfl⟩, fun mem => ?_⟩
      simp only [IInstr.den, DOp.den, Option.bind_eq_bind]
      cases intOf w va <;> cases intOf w vb <;> simp [convICmp_eval p q hq]
  | fbin k r ty a b =>
    simp only [convOp, Option.bind_eq_bind, Option.bind_eq_some_iff, Option.some.injEq] at h
    obtain ⟨oa, ha, ob, hb, rfl⟩ := h
    refine step_sim hw _ _ hrel rfl (fun x hx => ?_) (fun vs hvs => ?_) hs
    · cases hx; exact hdef r _ rfl
    · obtain ⟨va, vb, h1, h2, rfl⟩ := (allSome_two _ _ _ _).1 hvs
      refine ⟨[va, vb], (allSome_two _ _ _ _).2 ⟨va, vb, hrel _ _ _ ha h1, hrel _ _ _ hb h2, rfl⟩, fun mem => ?_⟩
      cases k <;> simp [IInstr.den, DOp.den, convFBin, IFBin.arith, DFBin.arith]
  | fcmp r p ty a b =>
    simp only [convOp, Option.bind_eq_bind, Option.bind_eq_some_iff, Option.some.injEq] at h
    obtain ⟨q, hq, oa, ha, ob, hb, rfl⟩ := h
    refine step_sim hw _ _ hrel rfl (fun x hx => ?_) (fun vs hvs => ?_) hs
    · cases hx; exact hdef r _ rfl
    · obtain ⟨va, vb, h1, h2, rfl⟩ := (allSome_two _ _ _ _).1 hvs
      refine ⟨[va, vb], (allSome_two _ _ _ _).2 ⟨va, vb, hrel _ _ _ ha h1, hrel _ _ _ hb h2, rfl⟩, fun mem => ?_⟩
      simp only [IInstr.den, DOp.den, Option.bind_eq_bind]
      cases frelOf ty va vb <;> simp [convFCmp_eval p q hq]
  | fneg r ty a =>
    simp only [convOp, Option.bind_eq_bind, Option.bind_eq_some_iff, Option.some.injEq] at h
    obtain ⟨oa, ha, rfl⟩ := h
    refine step_sim hw _ _ hrel rfl (fun x hx => ?_) (fun vs hvs => ?_) hs
    · cases hx; exact hdef r _ rfl
    · obtain ⟨va, h1, rfl⟩ := (allSome_one _ _ _).1 hvs
      exact ⟨[va], (allSome_one _ _ _).2 ⟨va, hrel _ _ _ ha h1, rfl⟩, fun mem => by simp [IInstr.den, DOp.den]⟩
  | cast k r ft tt a ovf nn =>
    simp only [convOp, Option.bind_eq_bind, Option.bind_eq_some_iff, Option.some.injEq] at h
    obtain ⟨fl, hfl, oa, ha, rfl⟩ := h
    refine step_sim hw _ _ hrel rfl (fun x hx => ?_) (fun vs hvs => ?_) hs
    · cases hx; exact hdef r _ (by cases k <;> rfl)
    · obtain ⟨va, h1, rfl⟩ := (allSome_one _ _ _).1 hvs
      refine ⟨[va], (allSome_one _ _ _).2 ⟨va, hrel _ _ _ ha h1, rfl⟩, fun mem => ?_⟩
      simp only [IInstr.den, DOp.den, convCast_core k ovf nn fl hfl]
  | select r ty c a b =>
    simp only [convOp, Option.bind_eq_bind, Option.bind_eq_some_iff, Option.some.injEq] at h
    obtain ⟨oc, hc, oa, ha, ob, hb, rfl⟩ := h
    refine step_sim hw _ _ hrel rfl (fun x hx => ?_) (fun vs hvs => ?_) hs
    · cases hx; exact hdef r _ rfl
    · obtain ⟨vc, va, vb, h0, h1, h2, rfl⟩ := (allSome_three _ _ _ _ _).1 hvs
      exact ⟨[vc, va, vb], (allSome_three _ _ _ _ _).2 ⟨vc, va, vb, hrel _ _ _ hc h0, hrel _ _ _ ha h1, hrel _ _ _ hb h2, rfl⟩,
        fun mem => by simp [IInstr.den, DOp.den]⟩
  | alloca r elem sw sz =>
    simp only [convOp, Option.bind_eq_bind, Option.bind_eq_some_iff, Option.some.injEq] at h
    obtain ⟨oa, ha, rfl⟩ := h
    refine step_sim hw _ _ hrel rfl (fun x hx => ?_) (fun vs hvs => ?_) hs
    · cases hx; exact hdef r _ rfl
    · obtain ⟨va, h1, rfl⟩ := (allSome_one _ _ _).1 hvs
      exact ⟨[va], (allSome_one _ _ _).2 ⟨va, hrel _ _ _ ha h1, rfl⟩, fun mem => by simp [IInstr.den, DOp.den]⟩
  | load r ty pp =>
    simp only [convOp, Option.bind_eq_bind, Option.bind_eq_some_iff, Option.some.injEq] at h
    obtain ⟨oa, ha, rfl⟩ := h
    refine step_sim hw _ _ hrel rfl (fun x hx => ?_) (fun vs hvs => ?_) hs
    · cases hx; exact hdef r _ rfl
    · obtain ⟨va, h1, rfl⟩ := (allSome_one _ _ _).1 hvs
      exact ⟨[va], (allSome_one _ _ _).2 ⟨va, hrel _ _ _ ha h1, rfl⟩, fun mem => by simp [IInstr.den, DOp.den]⟩
  | store ty v pp =>
    simp only [convOp, Option.bind_eq_bind, Option.bind_eq_some_iff, Option.some.injEq] at h
    obtain ⟨oa, ha, ob, hb, rfl⟩ := h
    refine step_sim hw _ _ hrel rfl (fun x hx => ?_) (fun vs hvs => ?_) hs
    · cases hx
    · obtain ⟨va, vb, h1, h2, rfl⟩ := (allSome_two _ _ _ _).1 hvs
      exact ⟨[va, vb], (allSome_two _ _ _ _).2 ⟨va, vb, hrel _ _ _ ha h1, hrel _ _ _ hb h2, rfl⟩,
        fun mem => by simp [IInstr.den, DOp.den]⟩
  | gep r elem pp idx inb =>
    cases idx with
    | const ci =>
      simp only [convOp, Option.bind_eq_bind, Option.bind_eq_some_iff, Option.some.injEq] at h
      obtain ⟨oa, ha, rfl⟩ := h
      refine step_sim hw _ _ hrel rfl (fun x hx => ?_) (fun vs hvs => ?_) hs
      · cases hx; exact hdef r _ rfl
      · obtain ⟨va, h1, rfl⟩ := (allSome_one _ _ _).1 hvs
        refine ⟨[va, constVal 32 ci], (allSome_two _ _ _ _).2 ⟨va, _, hrel _ _ _ ha h1, rfl, rfl⟩, fun mem => ?_⟩
        simp [IInstr.den, DOp.den, intOf_constVal]
    | ssa si sw =>
      simp only [convOp, Option.bind_eq_bind, Option.bind_eq_some_iff, Option.some.injEq] at h
      obtain ⟨oa, ha, ob, hb, rfl⟩ := h
      refine step_sim hw _ _ hrel rfl (fun x hx => ?_) (fun vs hvs => ?_) hs
      · cases hx; exact hdef r _ rfl
      · obtain ⟨va, vb, h1, h2, rfl⟩ := (allSome_two _ _ _ _).1 hvs
        exact ⟨[va, vb], (allSome_two _ _ _ _).2 ⟨va, vb, hrel _ _ _ ha h1, hrel _ _ _ hb h2, rfl⟩,
          fun mem => by simp [IInstr.den, DOp.den]⟩

/-! ## a block's ops -/

theorem convOps_sim {m : VMap} (hw : WFMap m) : ∀ (ops : List DOp) (is : List IInstr),
    convOps m ops = some is →
    (∀ op ∈ ops, ∀ r o, op.operand = some (r, o) → look m r = some o) →
    ∀ {eD : Env} {eI : IEnv} {mem : Mem} {eD' : Env} {mem' : Mem}, Rel m eD eI →
      runOpsD eD mem ops = some (eD', mem') →
      ∃ eI', runInstrs eI mem is = some (eI', mem') ∧ Rel m eD' eI'
  | [], is, h, _, eD, eI, mem, eD', mem', hrel, hr => by
    simp [convOps] at h; subst h
    simp [runOpsD] at hr
    obtain ⟨rfl, rfl⟩ := hr
    exact ⟨eI, rfl, hrel⟩
  | op :: rest, is, h, hdef, eD, eI, mem, eD', mem', hrel, hr => by
    simp only [convOps, Option.bind_eq_bind, Option.bind_eq_some_iff, Option.some.injEq] at h
    obtain ⟨is1, h1, js, h2, rfl⟩ := h
    simp only [runOpsD] at hr
    cases hs : op.step eD mem with
    | none => simp [hs] at hr
    | some x =>
      obtain ⟨eD1, mem1⟩ := x
      simp only [hs] at hr
      obtain ⟨eI1, hi1, hrel1⟩ := convOp_step hw op is1 h1 (hdef op (List.mem_cons_self)) hrel hs
      obtain ⟨eI2, hi2, hrel2⟩ := convOps_sim hw rest js h2 (fun o ho => hdef o (List.mem_cons_of_mem _ ho)) hrel1 hr
      exact ⟨eI2, by simp [runInstrs_append, hi1, hi2], hrel2⟩

/-! ## incoming lists -/

theorem incomingFrom_snd (d i b : Nat) (es : List Edge) (x : IOperand × Nat) (h : x ∈ incomingFrom d i b es) :
    x.2 = b := by
  simp only [incomingFrom, List.mem_filterMap] at h
  obtain ⟨e, _, he⟩ := h
  split at he
  · cases hv : e.vals[i]? with
    | none => simp [hv] at he
    | some o => simp [hv] at he; subst he; rfl
  · cases he

theorem incomingAll_snd_ge (d i : Nat) : ∀ (cs : List CBlock) (k : Nat) (x : IOperand × Nat),
    x ∈ incomingAll d i k cs → k ≤ x.2
  | [], _, _, h => by simp [incomingAll] at h
  | c :: rest, k, x, h => by
    simp only [incomingAll, List.mem_append] at h
    rcases h with h | h
    · exact Nat.le_of_eq (incomingFrom_snd d i k c.edges x h).symm
    · exact Nat.le_of_succ_le (incomingAll_snd_ge d i rest (k + 1) x h)

theorem find_all_sat {α : Type} (p : α → Bool) : ∀ (l : List α), (∀ x ∈ l, p x = true) → l.find? p = l.head?
  | [], _ => rfl
  | a :: l, h => by simp [List.find?, h a (List.mem_cons_self)]

theorem incomingAll_find (d i b : Nat) : ∀ (cs : List CBlock) (k : Nat) (c : CBlock), k ≤ b →
    cs[b - k]? = some c →
    (incomingAll d i k cs).find? (fun x => x.2 = b) = (incomingFrom d i b c.edges).head?
  | [], _, _, _, h => by simp at h
  | c0 :: rest, k, c, hk, h => by
    simp only [incomingAll, List.find?_append]
    by_cases e : k = b
    · subst e
      simp at h; subst h
      have h1 : (incomingFrom d i k c0.edges).find? (fun x => x.2 = k) = (incomingFrom d i k c0.edges).head? :=
        find_all_sat _ _ (fun x hx => by simp [incomingFrom_snd d i k _ x hx])
      have h2 : (incomingAll d i (k + 1) rest).find? (fun x => decide (x.2 = k)) = none := by
        rw [List.find?_eq_none]
        intro x hx
        have := incomingAll_snd_ge d i rest (k + 1) x hx
        simp; omega
      rw [h1, h2]; simp
    · have hlt : k < b := Nat.lt_of_le_of_ne hk e
      have h1 : (incomingFrom d i k c0.edges).find? (fun x => decide (x.2 = b)) = none := by
        rw [List.find?_eq_none]
        intro x hx
        have := incomingFrom_snd d i k _ x hx
        simp; omega
      rw [h1]
      have hb : b - k = (b - (k + 1)) + 1 := by omega
      rw [hb] at h
      simp at h
      simpa using incomingAll_find d i b rest (k + 1) c (by omega) h

/-! ## phis -/

theorem evalPhis_mk (cs : List CBlock) (d b : Nat) (eI : IEnv) :
    ∀ (args : List (Nat × Ty)) (i : Nat) (vs : List Val),
      (∀ j, j < args.length → ∃ o v, (incomingAll d (i + j) 0 cs).find? (fun x => x.2 = b) = some (o, b) ∧
        vs[j]? = some v ∧ evalOperand eI o = some v) →
      vs.length = args.length →
      evalPhis eI b (mkPhis cs d i args) = some ((args.map fun a => IReg.v a.1).zip vs)
  | [], _, vs, _, hl => by
    cases vs with
    | nil => simp [mkPhis, evalPhis, allSome]
    | cons _ _ => simp at hl
  | (id, ty) :: rest, i, vs, h, hl => by
    cases vs with
    | nil => simp at hl
    | cons v vs' =>
      obtain ⟨o, v0, hf, hv, he⟩ := h 0 (by simp)
      simp at hv; subst hv
      have ih := evalPhis_mk cs d b eI rest (i + 1) vs' (fun j hj => by
        obtain ⟨o', v', h1, h2, h3⟩ := h (j + 1) (by simp; omega)
        refine ⟨o', v', ?_, ?_, h3⟩
        · have : i + (j + 1) = i + 1 + j := by omega
          rw [this] at h1; exact h1
        · simpa using h2) (by simpa using hl)
      simp only [evalPhis] at ih ⊢
      simp only [mkPhis, allSome, evalPhi, Nat.add_zero] at hf ⊢
      simp [hf, he, ih]

theorem bindArgs_zip {κ : Type} : ∀ (ks : List κ) (vs : List Val) (binds : List (κ × Val)),
    bindArgs ks vs = some binds → binds = ks.zip vs ∧ vs.length = ks.length
  | [], [], binds, h => by simp [bindArgs] at h; subst h; simp
  | [], _ :: _, _, h => by simp [bindArgs] at h
  | _ :: _, [], _, h => by simp [bindArgs] at h
  | k :: ks, v :: vs, binds, h => by
    simp only [bindArgs, Option.map_eq_some_iff] at h
    obtain ⟨bs, hb, rfl⟩ := h
    obtain ⟨rfl, hl⟩ := bindArgs_zip ks vs bs hb
    simp [hl]

theorem Rel_zip {m : VMap} (hw : WFMap m) : ∀ (ids : List Nat) (vs : List Val) {eD : Env} {eI : IEnv},
    (∀ id ∈ ids, look m id = some (.reg (.v id))) → Rel m eD eI →
    Rel m (ids.zip vs ++ eD) ((ids.map IReg.v).zip vs ++ eI)
  | [], _, _, _, _, h => by simpa using h
  | _ :: _, [], _, _, _, h => by simpa using h
  | id :: ids, v :: vs, eD, eI, hl, h => by
    simp only [List.zip_cons_cons, List.map_cons, List.cons_append]
    exact Rel_bind hw (hl id (List.mem_cons_self)) (Rel_zip hw ids vs (fun x hx => hl x (List.mem_cons_of_mem _ hx)) h) v

/-! ## terminators -/

/-- operands that `val_map` can hold are never one of the select registers -/
def NoS (o : IOperand) : Prop := ∀ b j, o ≠ .reg (.s b j)

theorem WFMap_NoS {m : VMap} (hw : WFMap m) {x : Nat} {o : IOperand} (h : look m x = some o) : NoS o := by
  intro b j e
  subst e
  rcases hw x _ h with h1 | h1
  · cases h1
  · simp [IOperand.isConst] at h1

def OnlyS (b i : Nat) (news : IEnv) : Prop := ∀ r v, (r, v) ∈ news → ∃ j, r = IReg.s b j ∧ i ≤ j

theorem AL_get_append_skip : ∀ (news rest : IEnv) (k : IReg), (∀ v, (k, v) ∉ news) →
    AL.get (news ++ rest) k = AL.get rest k
  | [], _, _, _ => rfl
  | (k', v') :: news, rest, k, h => by
    have hne : k' ≠ k := by
      intro e; subst e; exact h v' (List.mem_cons_self)
    simp only [List.cons_append, AL.get, hne, if_false]
    exact AL_get_append_skip news rest k (fun v hv => h v (List.mem_cons_of_mem _ hv))

theorem evalOperand_news {b i : Nat} {news : IEnv} (hn : OnlyS b i news) (eI : IEnv) {o : IOperand} (ho : NoS o) :
    evalOperand (news ++ eI) o = evalOperand eI o := by
  cases o with
  | reg r =>
    simp only [evalOperand]
    apply AL_get_append_skip
    intro v hv
    obtain ⟨j, rfl, _⟩ := hn r v hv
    exact ho b j rfl
  | _ => rfl

theorem Rel_news {m : VMap} (hw : WFMap m) {b i : Nat} {news : IEnv} (hn : OnlyS b i news) {eD : Env} {eI : IEnv}
    (h : Rel m eD eI) : Rel m eD (news ++ eI) := by
  intro id o v ho hv
  rw [evalOperand_news hn eI (WFMap_NoS hw ho)]
  exact h id o v ho hv

theorem condOf_some {cv : Val} {bb : Bool} (h : condOf cv = some bb) : ∃ n, cv = .int 1 n ∧ bb = decide (n = 1) := by
  cases cv with
  | int w n =>
    by_cases hw : w = 1
    · subst hw; simp [condOf] at h; exact ⟨n, rfl, h.symm⟩
    · unfold condOf at h; split at h <;> simp_all
  | _ => simp [condOf] at h

theorem mergeArgs_sim {m : VMap} (hw : WFMap m) (b : Nat) (tys : List Ty) (c : IOperand) (hcn : NoS c) :
    ∀ (ta ea : List Nat) (i : Nat) (is : List IInstr) (os : List IOperand),
    mergeArgs m b tys c i ta ea = some (is, os) →
    ∀ {eD : Env} {eI : IEnv} (mem : Mem) (cv : Val) (bb : Bool), Rel m eD eI →
      evalOperand eI c = some cv → condOf cv = some bb →
    ∀ (tv ev : List Val), allSome (AL.get eD) ta = some tv → allSome (AL.get eD) ea = some ev →
    ∃ news : IEnv, runInstrs eI mem is = some (news ++ eI, mem) ∧ OnlyS b i news ∧
      allSome (evalOperand (news ++ eI)) os = some (if bb then tv else ev)
  | [], [], i, is, os, h, eD, eI, mem, cv, bb, hrel, hc, hcb, tv, ev, htv, hev => by
    simp [mergeArgs] at h
    obtain ⟨rfl, rfl⟩ := h
    simp [allSome] at htv hev
    subst htv; subst hev
    refine ⟨[], rfl, ?_, ?_⟩
    · intro r v hv; simp at hv
    · simp [allSome]
  | [], _ :: _, _, _, _, h, _, _, _, _, _, _, _, _, _, _, _, _ => by simp [mergeArgs] at h
  | _ :: _, [], _, _, _, h, _, _, _, _, _, _, _, _, _, _, _, _ => by simp [mergeArgs] at h
  | t :: ts, e :: es, i, is, os, h, eD, eI, mem, cv, bb, hrel, hc, hcb, tv, ev, htv, hev => by
    obtain ⟨vt, tv', hvt, htv', rfl⟩ := (allSome_cons _ _ _ _).1 htv
    obtain ⟨ve, ev', hve, hev', rfl⟩ := (allSome_cons _ _ _ _).1 hev
    simp only [mergeArgs] at h
    cases ht : look m t with
    | none => simp [ht] at h
    | some t' =>
      cases he : look m e with
      | none => simp [ht, he] at h
      | some e' =>
        cases hrec : mergeArgs m b tys c (i + 1) ts es with
        | none => simp [ht, he, hrec] at h
        | some p =>
          obtain ⟨is', os'⟩ := p
          simp only [ht, he, hrec] at h
          have et : evalOperand eI t' = some vt := hrel _ _ _ ht hvt
          have ee : evalOperand eI e' = some ve := hrel _ _ _ he hve
          by_cases hte : t = e
          · simp only [hte, if_true, Option.some.injEq, Prod.mk.injEq] at h
            obtain ⟨rfl, rfl⟩ := h
            subst hte
            obtain ⟨news, hrun, hn, hos⟩ := mergeArgs_sim hw b tys c hcn ts es (i + 1) _ os' hrec mem cv bb hrel hc hcb tv' ev' htv' hev'
            refine ⟨news, hrun, fun r v hv => ?_, ?_⟩
            · obtain ⟨j, hj, hle⟩ := hn r v hv; exact ⟨j, hj, by omega⟩
            · have hvv : vt = ve := by rw [hvt] at hve; cases hve; rfl
              subst hvv
              refine (allSome_cons _ _ _ _).2 ⟨vt, (if bb then tv' else ev'), ?_, hos, ?_⟩
              · rw [evalOperand_news hn eI (WFMap_NoS hw ht)]; exact et
              · cases bb <;> rfl
          · simp only [hte, if_false, Option.some.injEq, Prod.mk.injEq] at h
            obtain ⟨rfl, rfl⟩ := h
            obtain ⟨n, rfl, rfl⟩ := condOf_some hcb
            let val : Val := if n = 1 then vt else ve
            have hstep : (IInstr.select (.s b i) ((tys[i]?).getD (.int 1)) c t' e').step eI mem
                = some ((.s b i, val) :: eI, mem) := by
              simp [IInstr.step, IInstr.args, allSome, hc, et, ee, IInstr.den, pure1, selectVal, IInstr.res, bindRes, val]
            have hn1 : OnlyS b i [(IReg.s b i, val)] := by
              intro r v hv; simp at hv; exact ⟨i, hv.1, Nat.le_refl _⟩
            have hrel1 : Rel m eD ((.s b i, val) :: eI) := Rel_extS hw hrel b i val
            have hc1 : evalOperand ((.s b i, val) :: eI) c = some (.int 1 n) := by
              have := evalOperand_news hn1 eI hcn
              simpa using this.trans hc
            obtain ⟨news, hrun, hn, hos⟩ := mergeArgs_sim hw b tys c hcn ts es (i + 1) is' os' hrec mem (.int 1 n) (decide (n = 1)) hrel1 hc1 hcb tv' ev' htv' hev'
            refine ⟨news ++ [(.s b i, val)], ?_, ?_, ?_⟩
            · simp only [runInstrs, hstep]
              simpa using hrun
            · intro r v hv
              simp only [List.mem_append, List.mem_singleton] at hv
              rcases hv with hv | hv
              · obtain ⟨j, hj, hle⟩ := hn r v hv; exact ⟨j, hj, by omega⟩
              · cases hv; exact ⟨i, rfl, Nat.le_refl _⟩
            · have happ : (news ++ [(IReg.s b i, val)]) ++ eI = news ++ ((.s b i, val) :: eI) := by simp
              rw [happ]
              refine (allSome_cons _ _ _ _).2 ⟨val, _, ?_, hos, ?_⟩
              · simp only [evalOperand]
                rw [AL_get_append_skip]
                · simp [AL.get]
                · intro v hv
                  obtain ⟨j, hj, hle⟩ := hn _ v hv
                  cases hj; omega
              · by_cases h1 : n = 1 <;> simp [val, h1]

/-- what the converted terminator guarantees for the successor's phis -/
def TermPost (b : Nat) (term : ITerm) (edges : List Edge) (eI' : IEnv) : DNext → Prop
  | .ret v => term.eval eI' = some (.ret v)
  | .jump d vs => term.eval eI' = some (.jump d) ∧
      ∃ os, allSome (evalOperand eI') os = some vs ∧
        ∀ i : Nat, (incomingFrom d i b edges).head? = (os[i]?).map (fun o => (o, b))

theorem incomingFrom_single (d i b : Nat) (os : List IOperand) :
    (incomingFrom d i b [⟨d, os⟩]).head? = (os[i]?).map (fun o => (o, b)) := by
  simp only [incomingFrom, List.filterMap_cons, List.filterMap_nil, if_true]
  cases os[i]? <;> simp

theorem convTerm_sim {m : VMap} (hw : WFMap m) (argTys : Nat → List Ty) (b : Nat) (t : DTerm)
    (extra : List IInstr) (term : ITerm) (edges : List Edge)
    (h : convTerm m argTys b t = some (extra, term, edges))
    {eD : Env} {eI : IEnv} (hrel : Rel m eD eI) (mem : Mem) (nx : DNext) (hD : t.eval eD = some nx) :
    ∃ eI', runInstrs eI mem extra = some (eI', mem) ∧ Rel m eD eI' ∧ TermPost b term edges eI' nx := by
  cases t with
  | ret ty v =>
    simp only [convTerm, Option.bind_eq_bind, Option.bind_eq_some_iff, Option.some.injEq, Prod.mk.injEq] at h
    obtain ⟨o, ho, rfl, rfl, rfl⟩ := h
    simp only [DTerm.eval, Option.bind_eq_bind, Option.bind_eq_some_iff] at hD
    obtain ⟨x, hx, hD⟩ := hD
    refine ⟨eI, rfl, hrel, ?_⟩
    split at hD
    · cases hD
      rename_i hty
      simp [TermPost, ITerm.eval, hrel _ _ _ ho hx, hty]
    · cases hD
  | br d args =>
    simp only [convTerm, Option.bind_eq_bind, Option.bind_eq_some_iff, Option.some.injEq, Prod.mk.injEq] at h
    obtain ⟨os, hos, rfl, rfl, rfl⟩ := h
    simp only [DTerm.eval, Option.bind_eq_bind, Option.bind_eq_some_iff, Option.some.injEq] at hD
    obtain ⟨vs, hvs, rfl⟩ := hD
    exact ⟨eI, rfl, hrel, rfl, os, Rel_allSome hrel args os vs hos hvs, fun i => incomingFrom_single d i b os⟩
  | unreachable => simp [DTerm.eval] at hD
  | condbr c t ta e ea =>
    simp only [DTerm.eval, Option.bind_eq_bind, Option.bind_eq_some_iff, Option.some.injEq] at hD
    obtain ⟨cv, hcv, bb, hbb, tv, htv, ev, hev, rfl⟩ := hD
    simp only [convTerm, Option.bind_eq_bind, Option.bind_eq_some_iff] at h
    obtain ⟨c', hc', h⟩ := h
    have ec : evalOperand eI c' = some cv := hrel _ _ _ hc' hcv
    by_cases hte : t = e
    · subst hte
      simp only [if_true, Option.bind_eq_some_iff, Option.some.injEq, Prod.mk.injEq] at h
      obtain ⟨⟨is, os⟩, hm, rfl, rfl, rfl⟩ := h
      obtain ⟨news, hrun, hn, hos⟩ := mergeArgs_sim hw b (argTys t) c' (WFMap_NoS hw hc') ta ea 0 is os hm mem cv bb hrel ec hbb tv ev htv hev
      refine ⟨news ++ eI, hrun, Rel_news hw hn hrel, ?_⟩
      have ec' : evalOperand (news ++ eI) c' = some cv := by
        rw [evalOperand_news hn eI (WFMap_NoS hw hc')]; exact ec
      have hinc : ∀ i : Nat, (incomingFrom t i b [⟨t, os⟩, ⟨t, os⟩]).head? = (os[i]?).map (fun o => (o, b)) := by
        intro i
        simp only [incomingFrom, List.filterMap_cons, List.filterMap_nil, if_true]
        cases os[i]? <;> simp
      cases bb
      · exact ⟨by simp [ITerm.eval, ec', hbb], os, by simpa using hos, hinc⟩
      · exact ⟨by simp [ITerm.eval, ec', hbb], os, by simpa using hos, hinc⟩
    · simp only [hte, if_false, Option.bind_eq_some_iff, Option.some.injEq, Prod.mk.injEq] at h
      obtain ⟨ta', hta, ea', hea, rfl, rfl, rfl⟩ := h
      refine ⟨eI, rfl, hrel, ?_⟩
      cases bb
      · refine ⟨by simp [ITerm.eval, ec, hbb], ea', Rel_allSome hrel ea ea' ev hea hev, fun i => ?_⟩
        have hne : ¬ t = e := hte
        simp only [incomingFrom, List.filterMap_cons, List.filterMap_nil, hne, if_false, if_true]
        cases ea'[i]? <;> simp
      · refine ⟨by simp [ITerm.eval, ec, hbb], ta', Rel_allSome hrel ta ta' tv hta htv, fun i => ?_⟩
        have hne : ¬ e = t := fun h => hte h.symm
        simp only [incomingFrom, List.filterMap_cons, List.filterMap_nil, hne, if_false, if_true]
        cases ta'[i]? <;> simp

/-! ## what `conv f = some q` establishes -/

set_option linter.unusedSimpArgs false in
theorem operand_wf (op : DOp) (k : Nat) (o : IOperand) (h : op.operand = some (k, o)) :
    o = .reg (.v k) ∨ o.isConst = true := by
  cases op with
  | fconst r ty d => cases ty <;> simp [DOp.operand, DOp.res] at h <;> (obtain ⟨rfl, rfl⟩ := h; simp [IOperand.isConst])
  | const r w v => simp [DOp.operand] at h; obtain ⟨rfl, rfl⟩ := h; simp [IOperand.isConst]
  | store ty v pp => simp [DOp.operand, DOp.res] at h
  | _ => simp [DOp.operand, DOp.res] at h; obtain ⟨rfl, rfl⟩ := h; simp

theorem mem_defs_arg (f : DFunc) (blk : DBlock) (hb : blk ∈ f.blocks) (a : Nat × Ty) (ha : a ∈ blk.args) :
    (a.1, IOperand.reg (.v a.1)) ∈ f.defs := by
  simp only [DFunc.defs, List.mem_flatMap]
  exact ⟨blk, hb, by simp only [DBlock.defs, List.mem_append, List.mem_map]; exact Or.inl ⟨a, ha, rfl⟩⟩

theorem mem_defs_op (f : DFunc) (blk : DBlock) (hb : blk ∈ f.blocks) (op : DOp) (ho : op ∈ blk.ops)
    (r : Nat) (o : IOperand) (h : op.operand = some (r, o)) : (r, o) ∈ f.defs := by
  simp only [DFunc.defs, List.mem_flatMap]
  exact ⟨blk, hb, by simp only [DBlock.defs, List.mem_append, List.mem_filterMap]; exact Or.inr ⟨op, ho, h⟩⟩

theorem defs_wf (f : DFunc) : WFMap f.defs := by
  intro id o h
  have hm := AL_get_mem f.defs id o h
  simp only [DFunc.defs, List.mem_flatMap, DBlock.defs, List.mem_append, List.mem_map, List.mem_filterMap] at hm
  obtain ⟨blk, _, hm⟩ := hm
  rcases hm with ⟨a, _, ha⟩ | ⟨op, _, hop⟩
  · cases ha; exact Or.inl rfl
  · exact operand_wf op id o hop

structure Conv (f : DFunc) (q : IFunc) (cs : List CBlock) : Prop where
  distinct : allDistinct (f.defs.map (·.1)) = true
  dests : f.destsOK = true
  blocks : convBlocks f f.defs 0 f.blocks = some cs
  entry : ∃ e rest, f.blocks = e :: rest ∧ q = ⟨f.ret, e.args, assemble f cs 0 f.blocks cs⟩

theorem conv_unpack {f : DFunc} {q : IFunc} (h : conv f = some q) : ∃ cs, Conv f q cs := by
  simp only [conv] at h
  split at h
  · rename_i hg
    simp only [Bool.and_eq_true] at hg
    obtain ⟨⟨⟨h1, _⟩, h3⟩, _⟩ := hg
    split at h
    · cases h
    · rename_i e rest hb
      split at h
      · cases h
      · rename_i cs hcs
        cases h
        exact ⟨cs, h1, h3, hcs, e, rest, hb, by rw [hb]⟩
  · cases h

theorem convBlocks_get (f : DFunc) (m : VMap) : ∀ (bs : List DBlock) (k : Nat) (cs : List CBlock),
    convBlocks f m k bs = some cs → ∀ (j : Nat) (blk : DBlock), bs[j]? = some blk →
      ∃ c, cs[j]? = some c ∧ convBlock f m (k + j) blk = some c
  | [], _, _, _, j, _, hj => by simp at hj
  | b0 :: bs, k, cs, h, j, blk, hj => by
    simp only [convBlocks, Option.bind_eq_bind, Option.bind_eq_some_iff, Option.some.injEq] at h
    obtain ⟨c0, hc0, cs', hcs', rfl⟩ := h
    cases j with
    | zero => simp at hj; subst hj; exact ⟨c0, by simp, by simpa using hc0⟩
    | succ j =>
      simp at hj
      obtain ⟨c, h1, h2⟩ := convBlocks_get f m bs (k + 1) cs' hcs' j blk hj
      have e : k + (j + 1) = k + 1 + j := by omega
      exact ⟨c, by simpa using h1, by rw [e]; exact h2⟩

def phisOf (cs : List CBlock) (b : Nat) (blk : DBlock) : List IPhi :=
  if b = 0 then [] else mkPhis cs b 0 blk.args

theorem assemble_get (f : DFunc) (cs : List CBlock) : ∀ (bs : List DBlock) (cs' : List CBlock) (k j : Nat)
    (blk : DBlock) (c : CBlock), bs[j]? = some blk → cs'[j]? = some c →
    (assemble f cs k bs cs')[j]? = some ⟨phisOf cs (k + j) blk, c.instrs, c.term⟩
  | [], _, _, j, _, _, hj, _ => by simp at hj
  | _ :: _, [], _, j, _, _, _, hc => by simp at hc
  | b0 :: bs, c0 :: cs', k, j, blk, c, hj, hc => by
    cases j with
    | zero =>
      simp at hj hc; subst hj; subst hc
      simp [assemble, phisOf]
    | succ j =>
      simp at hj hc
      have := assemble_get f cs bs cs' (k + 1) j blk c hj hc
      have e : k + (j + 1) = k + 1 + j := by omega
      simpa [assemble, e] using this

theorem mem_of_getElem? {α : Type} {l : List α} {i : Nat} {x : α} (h : l[i]? = some x) : x ∈ l :=
  List.mem_of_getElem? h

/-! ## one block, then whole runs -/

def Pre (f : DFunc) (cs : List CBlock) (d : Nat) (vs : List Val) (eD : Env) (eI : IEnv) (pred : Nat) : Prop :=
  ∀ blk bindsD, f.blocks[d]? = some blk → bindArgs (blk.args.map (·.1)) vs = some bindsD →
    ∃ bindsI, evalPhis eI pred (phisOf cs d blk) = some bindsI ∧ Rel f.defs (bindsD ++ eD) (bindsI ++ eI)

def BlockPost (f : DFunc) (q : IFunc) (cs : List CBlock) (b pred : Nat) (eI : IEnv) (mem : Mem) (eD' : Env) (mem' : Mem) :
    DNext → Prop
  | .ret v => ∃ eI', blockI q b pred eI mem = some (.ret v, eI', mem')
  | .jump d vs => ∃ eI', blockI q b pred eI mem = some (.jump d, eI', mem') ∧ Pre f cs d vs eD' eI' b

theorem eval_dest (t : DTerm) (eD : Env) (d : Nat) (vs : List Val) (h : t.eval eD = some (.jump d vs)) :
    d ∈ t.dests := by
  cases t with
  | ret ty v =>
    simp only [DTerm.eval, Option.bind_eq_bind, Option.bind_eq_some_iff] at h
    obtain ⟨x, _, h⟩ := h
    split at h <;> cases h
  | br d' args =>
    simp only [DTerm.eval, Option.bind_eq_bind, Option.bind_eq_some_iff, Option.some.injEq] at h
    obtain ⟨_, _, h⟩ := h
    cases h; simp [DTerm.dests]
  | condbr c t ta e ea =>
    simp only [DTerm.eval, Option.bind_eq_bind, Option.bind_eq_some_iff, Option.some.injEq] at h
    obtain ⟨_, _, bb, _, _, _, _, _, h⟩ := h
    cases bb <;> (simp at h; simp [DTerm.dests, h.1])
  | unreachable => simp [DTerm.eval] at h

theorem block_sim {f : DFunc} {q : IFunc} {cs : List CBlock} (hc : Conv f q cs)
    {b : Nat} {vals : List Val} {eD : Env} {eI : IEnv} {mem : Mem} {pred : Nat}
    (pre : Pre f cs b vals eD eI pred) {nx : DNext} {eD' : Env} {mem' : Mem}
    (hD : blockD f b vals eD mem = some (nx, eD', mem')) :
    BlockPost f q cs b pred eI mem eD' mem' nx := by
  have hw := defs_wf f
  simp only [blockD] at hD
  cases hblk : f.blocks[b]? with
  | none => simp [hblk] at hD
  | some blk =>
    simp only [hblk] at hD
    cases hbind : bindArgs (blk.args.map (·.1)) vals with
    | none => simp [hbind] at hD
    | some bindsD =>
      simp only [hbind] at hD
      cases hops : runOpsD (bindsD ++ eD) mem blk.ops with
      | none => simp [hops] at hD
      | some x =>
        obtain ⟨eD1, mem1⟩ := x
        simp only [hops] at hD
        cases hterm : blk.term.eval eD1 with
        | none => simp [hterm] at hD
        | some nx1 =>
          simp only [hterm, Option.some.injEq, Prod.mk.injEq] at hD
          obtain ⟨rfl, rfl, rfl⟩ := hD
          have hmem : blk ∈ f.blocks := mem_of_getElem? hblk
          obtain ⟨c, hcb, hconv⟩ := convBlocks_get f f.defs f.blocks 0 cs hc.blocks b blk hblk
          simp only [Nat.zero_add, convBlock, Option.bind_eq_bind, Option.bind_eq_some_iff, Option.some.injEq] at hconv
          obtain ⟨is, his, ⟨extra, t, es⟩, hct, rfl⟩ := hconv
          obtain ⟨e0, rest, _, hq⟩ := hc.entry
          have hqb : q.blocks[b]? = some ⟨phisOf cs b blk, is ++ extra, t⟩ := by
            rw [hq]
            simpa using assemble_get f cs f.blocks cs 0 b blk _ hblk hcb
          obtain ⟨bindsI, hphis, hrel⟩ := pre blk bindsD hblk hbind
          obtain ⟨eI1, hrun1, hrel1⟩ := convOps_sim hw blk.ops is his
            (fun op ho r o h => AL_get_of_mem _ _ _ hc.distinct (mem_defs_op f blk hmem op ho r o h)) hrel hops
          obtain ⟨eI2, hrun2, hrel2, hpost⟩ := convTerm_sim hw f.argTys b blk.term extra t es hct hrel1 mem1 nx1 hterm
          have hrun : runInstrs (bindsI ++ eI) mem (is ++ extra) = some (eI2, mem1) := by
            simp [runInstrs_append, hrun1, hrun2]
          cases nx1 with
          | ret v =>
            simp only [TermPost] at hpost
            exact ⟨eI2, by simp [blockI, hqb, hphis, hrun, hpost]⟩
          | jump d vs =>
            simp only [TermPost] at hpost
            obtain ⟨hjump, os, hos, hinc⟩ := hpost
            refine ⟨eI2, by simp [blockI, hqb, hphis, hrun, hjump], ?_⟩
            -- the successor's phis read exactly the values the dialect passes
            intro blk' bindsD' hblk' hbind'
            have hd0 : d ≠ 0 := by
              have hdest := hc.dests
              simp only [DFunc.destsOK, List.all_eq_true] at hdest
              have := hdest blk hmem d (eval_dest _ _ _ _ hterm)
              simp at this
              exact this.1
            obtain ⟨rfl, hlen⟩ := bindArgs_zip _ _ _ hbind'
            simp only [List.length_map] at hlen
            have hol : os.length = vs.length := (allSome_length _ _ _ hos).symm
            have hphi := evalPhis_mk cs d b eI2 blk'.args 0 vs (fun j hj => by
              have hjo : j < os.length := by omega
              have ho : os[j]? = some os[j] := List.getElem?_eq_getElem hjo
              obtain ⟨v, hv, hev⟩ := allSome_getElem _ _ _ hos j _ ho
              refine ⟨os[j], v, ?_, hv, hev⟩
              rw [Nat.zero_add, incomingAll_find d j b cs 0 ⟨is ++ extra, t, es⟩ (Nat.zero_le _) (by simpa using hcb), hinc j, ho]
              rfl) hlen
            refine ⟨_, by simpa [phisOf, hd0] using hphi, ?_⟩
            have hmem' : blk' ∈ f.blocks := mem_of_getElem? hblk'
            have := Rel_zip hw (blk'.args.map (·.1)) vs (eD := eD1) (eI := eI2) (fun id hid => by
              simp only [List.mem_map] at hid
              obtain ⟨a, ha, rfl⟩ := hid
              exact AL_get_of_mem _ _ _ hc.distinct (mem_defs_arg f blk' hmem' a ha)) hrel2
            simpa [List.map_map, Function.comp_def] using this

theorem run_sim {f : DFunc} {q : IFunc} {cs : List CBlock} (hc : Conv f q cs) :
    ∀ (fuel b : Nat) (vals : List Val) (eD : Env) (eI : IEnv) (mem : Mem) (pred : Nat),
      Pre f cs b vals eD eI pred → runD f fuel b vals eD mem ≠ .ub →
      runI q fuel b pred eI mem = runD f fuel b vals eD mem
  | 0, _, _, _, _, _, _, _, _ => rfl
  | fuel + 1, b, vals, eD, eI, mem, pred, pre, hne => by
    simp only [runD] at hne ⊢
    simp only [runI]
    cases hD : blockD f b vals eD mem with
    | none => simp [hD] at hne
    | some x =>
      obtain ⟨nx, eD', mem'⟩ := x
      have hpost := block_sim hc pre hD
      cases nx with
      | ret v =>
        obtain ⟨eI', hI⟩ := hpost
        simp [hI]
      | jump d vs =>
        obtain ⟨eI', hI, pre'⟩ := hpost
        simp only [hD] at hne
        simp only [hI]
        exact run_sim hc fuel d vs eD' eI' mem' b pre' hne

end Xdsl.LLVM
