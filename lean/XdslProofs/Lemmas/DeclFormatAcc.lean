import XdslProofs.Lemmas.DeclFormatMain
/-!
C05: what the format compiler's own checks give.  `wfD` implies that optional groups hold no aggregate
directive (`fragD`); the binding checks `accD` imply `wfA` and the coverage part of `CoversSlots`.
-/
namespace Xdsl.DeclFormat
set_option linter.unusedSimpArgs false

theorem inFragment_of_okInGroup {d : SDir} (h : okInGroup d = true) : inFragment d = true := by
  cases d <;> simp_all [okInGroup, inFragment]

theorem fragD_of_wfD (fmt : List Dir) (K : List Cls) (h : wfD fmt K = true) : fragD fmt = true := by
  induction fmt with
  | nil => rfl
  | cons d ds ih =>
    cases d with
    | s d => exact ih (wfD_tail' h)
    | group a f r e =>
      have h0 := h
      simp only [wfD, Bool.and_eq_true] at h
      obtain ⟨⟨⟨⟨⟨⟨⟨⟨⟨_, _⟩, _⟩, _⟩, hing⟩, hinge⟩, _⟩, _⟩, _⟩, _⟩ := h
      simp only [fragD, Bool.and_eq_true, List.all_eq_true]
      refine ⟨⟨⟨?_, ?_⟩, ?_⟩, ih (wfD_tail' h0)⟩
      · exact inFragment_of_okInGroup (mem_all hing (List.mem_cons_self ..))
      · intro x hx; exact inFragment_of_okInGroup (mem_all hing (List.mem_cons_of_mem _ hx))
      · intro x hx
        have := mem_all hinge hx
        simp only [Bool.and_eq_true] at this
        exact inFragment_of_okInGroup this.1

theorem bindsD_eq_any (fam : Fam) (i : Nat) (fmt : List Dir) :
    bindsD fam i fmt = (allS fmt).any (bindsS fam i) := by
  induction fmt with
  | nil => rfl
  | cons d ds ih =>
    cases d with
    | s d => simp [bindsD, allS, ih]
    | group a f r e => simp [bindsD, allS, ih, Bool.or_assoc]

theorem sum_pos_any (l : List SDir) (g : SDir → Nat) (h : (l.map g).sum > 0) :
    l.any (fun d => decide (g d > 0)) = true := by
  induction l with
  | nil => simp at h
  | cons a l ih =>
    simp only [List.map_cons, List.sum_cons] at h
    simp only [List.any_cons, Bool.or_eq_true, decide_eq_true_eq]
    by_cases ha : g a > 0
    · exact Or.inl ha
    · exact Or.inr (ih (by omega))

theorem bindsD_of_count {fam : Fam} {i : Nat} {fmt : List Dir} (h : bindCount fam i fmt > 0) :
    bindsD fam i fmt = true := by
  rw [bindsD_eq_any]
  exact sum_pos_any (allS fmt) (bindN fam i) h

theorem wfA_of_all (D : Defs) (fmt : List Dir) (h : ∀ d ∈ allS fmt, okAgg D d = true) : wfA D fmt = true := by
  induction fmt with
  | nil => rfl
  | cons d ds ih =>
    cases d with
    | s d =>
      simp only [wfA, Bool.and_eq_true]
      exact ⟨h d (by simp [allS]), ih (fun x hx => h x (by simp [allS, hx]))⟩
    | group a f r e =>
      simp only [wfA]
      exact ih (fun x hx => h x (by simp [allS, hx]))

/-- the format compiler's binding checks make the aggregate directives unambiguous -/
theorem wfA_of_accD (D : Defs) (fmt : List Dir) (h : accD D fmt = true) : wfA D fmt = true := by
  simp only [accD, Bool.and_eq_true, List.all_eq_true] at h
  exact wfA_of_all D fmt h.2

/-- what "the instance verifies" says about lengths and inferred types -/
structure InstOK (D : Defs) (op : OpInst) : Prop where
  lenO : op.operands.length = D.operandKinds.length
  lenT : op.operandTys.length = D.operandKinds.length
  lenR : op.resultTys.length = D.resultKinds.length
  lenG : op.regions.length = D.regionKinds.length
  lenS : op.succs.length = D.succKinds.length
  tysLen : ∀ i, i < D.operandKinds.length → (seg op.operandTys i).length = (seg op.operands i).length
  fixedO : ∀ i t, i < D.operandKinds.length → D.operandFixed.getD i none = some t →
    seg op.operandTys i = List.replicate (seg op.operands i).length t
  fixedR : ∀ i t, i < D.resultKinds.length → D.resultFixed.getD i none = some t →
    D.resultKinds.getD i Kind.var = Kind.single → seg op.resultTys i = [t]

/-- `FormatParser.verify_operands/_results/_regions/_successors` deliver the coverage hypotheses -/
theorem coversSlots_of_accD (D : Defs) (fmt : List Dir) (op : OpInst)
    (h : accD D fmt = true) (hi : InstOK D op) : CoversSlots D fmt op := by
  simp only [accD, Bool.and_eq_true, List.all_eq_true, List.mem_range, beq_iff_eq, decide_eq_true_eq,
    Bool.or_eq_true, Option.isSome_iff_exists] at h
  obtain ⟨⟨⟨⟨⟨hO, hT⟩, hR⟩, hG⟩, hS⟩, _⟩ := h
  refine ⟨hi.lenO, hi.lenT, hi.lenR, hi.lenG, hi.lenS, ?_, hi.tysLen, ?_, ?_, ?_, ?_⟩
  · intro i hlt; exact bindsD_of_count (by rw [hO i hlt]; omega)
  · intro i hlt
    rcases (hT i hlt).2 with h1 | ⟨t, ht⟩
    · exact Or.inl (bindsD_of_count (by rw [h1]; omega))
    · exact Or.inr ⟨t, ht, hi.fixedO i t hlt ht⟩
  · intro i hlt
    rcases (hR i hlt).2 with h1 | ⟨⟨t, ht⟩, hk⟩
    · exact Or.inl (bindsD_of_count (by rw [h1]; omega))
    · exact Or.inr ⟨t, ht, hk, hi.fixedR i t hlt ht hk⟩
  · intro i hlt; exact bindsD_of_count (by rw [hG i hlt]; omega)
  · intro i hlt; exact bindsD_of_count (by rw [hS i hlt]; omega)

end Xdsl.DeclFormat
