import XdslProofs.C09Simplify
/-! Type hints: `mapping_type_vars`, `ParamAttrConstraint.get`, `irdl_to_attr_constraint`, `isa` (C09). -/
namespace Xdsl.Constraint

theorem varsL_nil_iff : ∀ cs : List C, varsL cs = [] ↔ ∀ c ∈ cs, vars c = []
  | [] => by simp [varsL]
  | c :: cs => by simp [varsL, varsL_nil_iff cs]

/-- a constraint without variables is well declared whatever the declarations -/
theorem wellDeclared_of_novars (decl : Nat → C) : ∀ c, vars c = [] → WellDeclared decl c := by
  intro c
  induction c using C.ind with
  | any => intro _; trivial
  | eq _ => intro _; trivial
  | set _ => intro _; trivial
  | base _ => intro _; trivial
  | anyOf cs ih =>
    intro h; simp only [vars] at h; simp only [WellDeclared]
    exact (WDL_iff decl cs).2 fun c hc => ih c hc ((varsL_nil_iff cs).1 h c hc)
  | allOf cs ih =>
    intro h; simp only [vars] at h; simp only [WellDeclared]
    exact (WDL_iff decl cs).2 fun c hc => ih c hc ((varsL_nil_iff cs).1 h c hc)
  | param d ps ih =>
    intro h; simp only [vars] at h; simp only [WellDeclared]
    exact (WDL_iff decl ps).2 fun c hc => ih c hc ((varsL_nil_iff ps).1 h c hc)
  | var n c _ => intro h; simp [vars] at h
  | msg n c ih => intro h; exact ih h
  | tvar n c ih => intro h; exact ih h
  | arrayOf k c ih => intro h; exact ih h

/-- what conversion of hints produces: constructor-well-formed constraints without variables -/
def Good (U : Univ) (c : C) : Prop := WF U c ∧ vars c = []

theorem Good_compositional (U : Univ) : Compositional U (Good U) where
  any := ⟨trivial, rfl⟩
  eq _ := ⟨trivial, rfl⟩
  set _ := ⟨trivial, rfl⟩
  base _ := ⟨trivial, rfl⟩
  param d ps := by
    simp only [Good, WF, vars, WFL_iff, varsL_nil_iff]
    exact ⟨fun h p hp => ⟨h.1 p hp, h.2 p hp⟩, fun h => ⟨fun p hp => (h p hp).1, fun p hp => (h p hp).2⟩⟩
  anyOf_intro cs h1 h2 := by
    simp only [Good, WF, vars, WFL_iff, varsL_nil_iff]
    exact ⟨⟨h1, fun c hc => (h2 c hc).1⟩, fun c hc => (h2 c hc).2⟩
  anyOf_elim cs h c hc := by
    simp only [Good, WF, vars, WFL_iff, varsL_nil_iff] at h
    exact ⟨h.1.2 c hc, h.2 c hc⟩

section
variable (U : Univ)

theorem paramGet_good (d : Nat) (cs : List C) (h : ∀ c ∈ cs, Good U c) : Good U (paramGet U d cs) := by
  unfold paramGet
  split
  · exact ⟨trivial, rfl⟩
  · split
    · exact ⟨trivial, rfl⟩
    · exact ((Good_compositional U).param d cs).2 h

theorem mapTVL_good (m : AL Nat C) : ∀ cs, (∀ c ∈ cs, Good U c → ∀ r, mapTV U m c = .ok r → Good U r) →
    (∀ c ∈ cs, Good U c) → ∀ rs, mapTVL U m cs = .ok rs → ∀ r ∈ rs, Good U r
  | [], _, _, rs, h => by simp only [mapTVL] at h; cases h; simp
  | c :: cs, ih, hg, rs, h => by
    simp only [mapTVL] at h
    cases h1 : mapTV U m c with
    | error e => simp [h1] at h
    | ok c' =>
      simp only [h1] at h
      cases h2 : mapTVL U m cs with
      | error e => simp [h2] at h
      | ok cs' =>
        simp only [h2] at h; cases h
        intro r hr
        rcases List.mem_cons.1 hr with e | hr
        · subst e; exact ih c (List.mem_cons_self ..) (hg c (List.mem_cons_self ..)) _ h1
        · exact mapTVL_good m cs (fun c' hc' => ih c' (List.mem_cons_of_mem _ hc'))
            (fun c' hc' => hg c' (List.mem_cons_of_mem _ hc')) cs' h2 r hr

/-- `mapping_type_vars` keeps constraints good when the substituted constraints are -/
theorem mapTV_good (m : AL Nat C) (hm : ∀ i c, AL.get m i = some c → Good U c) :
    ∀ t, Good U t → ∀ r, mapTV U m t = .ok r → Good U r := by
  intro t
  induction t using C.ind with
  | any => intro hg r h; simp only [mapTV] at h; cases h; exact hg
  | eq _ => intro hg r h; simp only [mapTV] at h; cases h; exact hg
  | set _ => intro hg r h; simp only [mapTV] at h; cases h; exact hg
  | base _ => intro hg r h; simp only [mapTV] at h; cases h; exact hg
  | anyOf cs ih =>
    intro hg r h
    simp only [mapTV] at h
    cases h1 : mapTVL U m cs with
    | error e => simp [h1] at h
    | ok cs' =>
      simp only [h1] at h
      exact anyOfGet_pres U (Good U) (Good_compositional U) cs' r h
        (mapTVL_good U m cs ih ((Good_compositional U).anyOf_elim cs hg) cs' h1)
  | allOf cs ih =>
    intro hg r h
    simp only [mapTV] at h
    cases h1 : mapTVL U m cs with
    | error e => simp [h1] at h
    | ok cs' =>
      simp only [h1] at h; cases h
      have hcs : ∀ c ∈ cs, Good U c := by
        simp only [Good, WF, vars, WFL_iff, varsL_nil_iff] at hg
        exact fun c hc => ⟨hg.1 c hc, hg.2 c hc⟩
      have := mapTVL_good U m cs ih hcs cs' h1
      simp only [Good, WF, vars, WFL_iff, varsL_nil_iff]
      exact ⟨fun c hc => (this c hc).1, fun c hc => (this c hc).2⟩
  | param d ps ih =>
    intro hg r h
    simp only [mapTV] at h
    cases h1 : mapTVL U m ps with
    | error e => simp [h1] at h
    | ok ps' =>
      simp only [h1] at h; cases h
      exact paramGet_good U d ps' (mapTVL_good U m ps ih (((Good_compositional U).param d ps).1 hg) ps' h1)
  | var n c _ => intro hg; simp [Good, vars] at hg
  | msg k c ih =>
    intro hg r h
    simp only [mapTV] at h
    cases h1 : mapTV U m c with
    | error e => simp [h1] at h
    | ok c' => simp only [h1] at h; cases h; exact ih hg c' h1
  | tvar i b _ =>
    intro _ r h
    simp only [mapTV] at h
    cases h1 : AL.get m i with
    | none => simp [h1] at h
    | some c => simp only [h1] at h; cases h; exact hm i _ h1
  | arrayOf k c ih =>
    intro hg r h
    simp only [mapTV] at h
    cases h1 : mapTV U m c with
    | error e => simp [h1] at h
    | ok c' =>
      simp only [h1] at h; cases h
      have hc : Good U c := ⟨hg.1.2, hg.2⟩
      have := ih hc c' h1
      exact ⟨⟨hg.1.1, this.1⟩, this.2⟩

theorem get_zipTV_mem : ∀ (tvs : List Nat) (cs : List C) (i : Nat) (c : C),
    AL.get (zipTV tvs cs) i = some c → c ∈ cs
  | [], _, _, _, h => by simp [zipTV] at h
  | _ :: _, [], _, _, h => by simp [zipTV] at h
  | n :: ns, c0 :: cs, i, c, h => by
    simp only [zipTV, AL.get_cons] at h
    split at h
    · cases h; exact List.mem_cons_self ..
    · exact List.mem_cons_of_mem _ (get_zipTV_mem ns cs i c h)

end

/-! ### induction principle for hints -/

section
set_option linter.unusedSectionVars false
variable {P : Hint → Prop}
    (cls : ∀ c r, P (.cls c r))
    (union : ∀ hs, (∀ h ∈ hs, P h) → P (.union hs))
    (generic : ∀ t tvs args, (∀ h ∈ args, P h) → P (.generic t tvs args))
    (annotated : ∀ hs, (∀ h ∈ hs, P h) → P (.annotated hs))
include cls union generic annotated

mutual
theorem Hint.ind : ∀ h, P h
  | .cls c r => cls c r
  | .union hs => union hs (Hint.indL hs)
  | .generic t tvs args => generic t tvs args (Hint.indL args)
  | .annotated hs => annotated hs (Hint.indL hs)
theorem Hint.indL : ∀ hs : List Hint, ∀ h ∈ hs, P h
  | [] => fun _ h => absurd h List.not_mem_nil
  | h0 :: hs => fun h' hm =>
    match List.mem_cons.1 hm with
    | .inl e => e ▸ Hint.ind h0
    | .inr hm => Hint.indL hs h' hm
end
end

mutual
/-- side conditions on a hint: the class marked as root really is the root (`Attribute`), and the
class templates of generic attribute classes are good constraints -/
def HintOK (U : Univ) : Hint → Prop
  | .cls c root => root = true → ∀ x, isSub U x c = true
  | .union hs => HintOKL U hs
  | .generic t _ args => Good U t ∧ HintOKL U args
  | .annotated hs => HintOKL U hs
def HintOKL (U : Univ) : List Hint → Prop
  | [] => True
  | h :: hs => HintOK U h ∧ HintOKL U hs
end

theorem HintOKL_iff (U : Univ) : ∀ hs, HintOKL U hs ↔ ∀ h ∈ hs, HintOK U h
  | [] => by simp [HintOKL]
  | h :: hs => by simp [HintOKL, HintOKL_iff U hs]

section
variable (U : Univ)

/-- `hs` converts element by element to `cs` -/
def ConvAll (U : Univ) : List Hint → List C → Prop
  | [], [] => True
  | h :: hs, c :: cs => convHint U h = .ok c ∧ ConvAll U hs cs
  | _, _ => False

theorem convHints_spec : ∀ hs cs, convHints U hs = .ok cs → ConvAll U hs cs
  | [], cs, h => by simp only [convHints] at h; cases h; trivial
  | h0 :: hs, cs, h => by
    simp only [convHints] at h
    cases h1 : convHint U h0 with
    | error e => simp [h1] at h
    | ok c =>
      simp only [h1] at h
      cases h2 : convHints U hs with
      | error e => simp [h2] at h
      | ok cs' =>
        simp only [h2] at h; cases h
        exact ⟨h1, convHints_spec hs cs' h2⟩

theorem convAll_good : ∀ (hs : List Hint) (cs : List C), ConvAll U hs cs →
    (∀ h ∈ hs, HintOK U h → ∀ c, convHint U h = .ok c → Good U c) →
    (∀ h ∈ hs, HintOK U h) → ∀ c ∈ cs, Good U c
  | [], [], _, _, _ => by simp
  | [], _ :: _, hf, _, _ => by simp [ConvAll] at hf
  | _ :: _, [], hf, _, _ => by simp [ConvAll] at hf
  | h0 :: hs, c0 :: cs, hf, ih, hok => by
    simp only [ConvAll] at hf
    intro c hc
    rcases List.mem_cons.1 hc with e | hc
    · subst e; exact ih _ (List.mem_cons_self ..) (hok _ (List.mem_cons_self ..)) _ hf.1
    · exact convAll_good hs cs hf.2 (fun h hh => ih h (List.mem_cons_of_mem _ hh))
        (fun h hh => hok h (List.mem_cons_of_mem _ hh)) c hc

/-- every converted hint is a good constraint -/
theorem convHint_good : ∀ h, HintOK U h → ∀ c, convHint U h = .ok c → Good U c := by
  intro h
  induction h using Hint.ind with
  | cls c r =>
    intro _ c' hc
    simp only [convHint] at hc; cases hc
    split <;> exact ⟨trivial, rfl⟩
  | union hs ih =>
    intro hok c hc
    simp only [HintOK] at hok
    simp only [convHint] at hc
    cases h1 : convHints U hs with
    | error e => simp [h1] at hc
    | ok cs =>
      simp only [h1] at hc
      exact anyOfGet_pres U (Good U) (Good_compositional U) cs c hc
        (convAll_good U hs cs (convHints_spec U hs cs h1) ih ((HintOKL_iff U hs).1 hok))
  | generic t tvs args ih =>
    intro hok c hc
    simp only [HintOK] at hok
    simp only [convHint] at hc
    cases h1 : convHints U args with
    | error e => simp [h1] at hc
    | ok cs =>
      simp only [h1] at hc
      split at hc
      · have hcs := convAll_good U args cs (convHints_spec U args cs h1) ih ((HintOKL_iff U args).1 hok.2)
        exact mapTV_good U _ (fun i c' hi => hcs c' (get_zipTV_mem tvs cs i c' hi)) t hok.1 c hc
      · cases hc
  | annotated hs ih =>
    intro hok c hc
    simp only [HintOK] at hok
    simp only [convHint] at hc
    cases h1 : convHints U hs with
    | error e => simp [h1] at hc
    | ok cs =>
      have hcs := convAll_good U hs cs (convHints_spec U hs cs h1) ih ((HintOKL_iff U hs).1 hok)
      simp only [h1] at hc
      split at hc
      · cases hc; exact ⟨trivial, rfl⟩
      · rename_i c1 heq; cases hc; cases heq; exact hcs c (by simp)
      · cases hc
        rename_i cs' _ _ heq
        cases heq
        simp only [Good, WF, vars, WFL_iff, varsL_nil_iff]
        exact ⟨fun c hc => (hcs c hc).1, fun c hc => (hcs c hc).2⟩
      · cases hc

end

end Xdsl.Constraint
