import XdslModel.Clone
import XdslProofs.Lemmas.AL
/-!
Helper definitions and lemmas for C02 (clone).  Property theorems are in `XdslProofs/C02.lean`.
-/
namespace Xdsl.Clone

/-! ## vocabulary -/

/-- identities carried by an op: the op itself, its two dict objects, its results -/
def hdrIds (h : OpHdr) : List Nat := h.id :: h.aref :: h.pref :: h.results.map Prod.fst

/-- every identity that occurs as a *definition* in the tree (ops, dicts, results, blocks, args) -/
def ids : {k : Kind} → T k → List Nat
  | _, .nil => []
  | _, .op h rs nx => hdrIds h ++ (ids rs ++ ids nx)
  | _, .block h ops nx => (h.id :: h.args.map Prod.fst) ++ (ids ops ++ ids nx)
  | _, .region bs nx => ids bs ++ ids nx

/-- identities of the blocks of a block chain itself (empty for other chains) -/
def directIds : {k : Kind} → T k → List Nat
  | _, .block h _ nx => h.id :: directIds nx
  | _, _ => []

/-- number of blocks of a block chain itself -/
def dlen : {k : Kind} → T k → Nat
  | _, .block _ _ nx => 1 + dlen nx
  | _, _ => 0

/-- identities of the blocks that get *registered* in `block_mapper` while `c1` runs over the tree:
all blocks of all regions inside it (the blocks of a block chain itself are registered by the
enclosing region cell, before `c1` enters the chain). -/
def regd : {k : Kind} → T k → List Nat
  | _, .nil => []
  | _, .op _ rs nx => regd rs ++ regd nx
  | _, .block _ ops nx => regd ops ++ regd nx
  | _, .region bs nx => (directIds bs ++ regd bs) ++ regd nx

/-- all block identities of a tree: direct blocks first, then the nested ones -/
def blockIds {k : Kind} (t : T k) : List Nat := directIds t ++ regd t

/-- all successors mentioned by ops of the tree -/
def succsOf : {k : Kind} → T k → List Nat
  | _, .nil => []
  | _, .op h rs nx => h.succs ++ (succsOf rs ++ succsOf nx)
  | _, .block _ ops nx => succsOf ops ++ succsOf nx
  | _, .region bs nx => succsOf bs ++ succsOf nx

/-- all operands mentioned by ops of the tree -/
def operandsOf : {k : Kind} → T k → List Nat
  | _, .nil => []
  | _, .op h rs nx => h.operands ++ (operandsOf rs ++ operandsOf nx)
  | _, .block _ ops nx => operandsOf ops ++ operandsOf nx
  | _, .region bs nx => operandsOf bs ++ operandsOf nx

/-- No op refers to a block that is created (registered in `block_mapper`) only *after* the op has
been cloned.  `Operation.verify` enforces more: a successor is a block of the op's own region,
and those are all registered before any op of the region is cloned. -/
def SuccOK : {k : Kind} → T k → Prop
  | _, .nil => True
  | _, .op h rs nx =>
    (∀ s ∈ h.succs, s ∉ regd rs ∧ s ∉ regd nx) ∧ (∀ s ∈ succsOf rs, s ∉ regd nx) ∧ SuccOK rs ∧ SuccOK nx
  | _, .block _ ops nx => (∀ s ∈ succsOf ops, s ∉ regd nx) ∧ SuccOK ops ∧ SuccOK nx
  | _, .region bs nx => (∀ s ∈ succsOf bs, s ∉ regd nx) ∧ SuccOK bs ∧ SuccOK nx

/-- `t'` is `t` with every defined value renamed by `fv`, every block by `fb`, references renamed
accordingly (`co = true`) or operands dropped (`co = false`, the state after phase 1); names, types
and dict *contents* equal.  Op identities and dict identities of `t'` are unconstrained here
(freshness is a separate statement). -/
def Iso (co : Bool) (fv fb : Nat → Nat) : {k : Kind} → T k → T k → Prop
  | _, .nil, .nil => True
  | _, .op h rs nx, .op h' rs' nx' =>
    h'.name = h.name ∧ h'.attrs = h.attrs ∧ h'.props = h.props
      ∧ h'.results = h.results.map (fun p => (fv p.1, p.2))
      ∧ h'.operands = (if co then h.operands.map fv else [])
      ∧ h'.succs = h.succs.map fb ∧ Iso co fv fb rs rs' ∧ Iso co fv fb nx nx'
  | _, .block h ops nx, .block h' ops' nx' =>
    h'.id = fb h.id ∧ h'.args = h.args.map (fun p => (fv p.1, p.2))
      ∧ Iso co fv fb ops ops' ∧ Iso co fv fb nx nx'
  | _, .region bs nx, .region bs' nx' => Iso co fv fb bs bs' ∧ Iso co fv fb nx nx'
  | _, _, _ => False

/-- `block_mapper` holds `old block j ↦ nb + j` for the blocks of the chain itself -/
def Reg (bm : AL Nat Nat) (nb : Nat) : {k : Kind} → T k → Prop
  | _, .block h _ nx => AL.get bm h.id = some nb ∧ Reg bm (nb + 1) nx
  | _, _ => True

/-! ## mapVal -/

theorem mapVal_of_get {m : AL Nat Nat} {k v : Nat} (h : AL.get m k = some v) : mapVal m k = v := by
  simp [mapVal, h]

theorem mapVal_congr {m m' : AL Nat Nat} {k : Nat} (h : AL.get m' k = AL.get m k) :
    mapVal m' k = mapVal m k := by
  simp [mapVal, h]

/-! ## cloneVals -/

theorem cloneVals_next (vm : AL Nat Nat) (n : Nat) (vs : List (Nat × Nat)) :
    (cloneVals vm n vs).2.2 = n + vs.length := by
  induction vs generalizing vm n with
  | nil => simp [cloneVals]
  | cons p r ih =>
    obtain ⟨v, ty⟩ := p
    simp only [cloneVals, List.length_cons]
    rw [ih]; omega

theorem cloneVals_ids (vm : AL Nat Nat) (n : Nat) (vs : List (Nat × Nat)) :
    (cloneVals vm n vs).1.map Prod.fst = List.range' n vs.length := by
  induction vs generalizing vm n with
  | nil => simp [cloneVals]
  | cons p r ih =>
    obtain ⟨v, ty⟩ := p
    simp only [cloneVals, List.length_cons, List.map_cons, List.range'_succ]
    rw [ih]

theorem cloneVals_frame (vm : AL Nat Nat) (n : Nat) (vs : List (Nat × Nat)) (k : Nat)
    (hk : k ∉ vs.map Prod.fst) : AL.get (cloneVals vm n vs).2.1 k = AL.get vm k := by
  induction vs generalizing vm n with
  | nil => simp [cloneVals]
  | cons p r ih =>
    obtain ⟨v, ty⟩ := p
    simp only [List.map_cons, List.mem_cons, not_or] at hk
    simp only [cloneVals]
    rw [ih _ _ hk.2, AL.get_set]
    simp [hk.1]

/-- distinct old values: the new list is the old one renamed by the resulting mapper -/
theorem cloneVals_map (vm : AL Nat Nat) (n : Nat) (vs : List (Nat × Nat))
    (nd : (vs.map Prod.fst).Nodup) :
    (cloneVals vm n vs).1 = vs.map (fun p => (mapVal (cloneVals vm n vs).2.1 p.1, p.2)) := by
  induction vs generalizing vm n with
  | nil => simp [cloneVals]
  | cons p r ih =>
    obtain ⟨v, ty⟩ := p
    simp only [List.map_cons, List.nodup_cons] at nd
    simp only [cloneVals, List.map_cons]
    rw [← ih _ _ nd.2]
    have : AL.get (cloneVals (AL.set vm v n) (n + 1) r).2.1 v = some n := by
      rw [cloneVals_frame _ _ _ _ nd.1, AL.get_set]; simp
    rw [mapVal_of_get this]

/-- every old value gets a mapping ≥ `n` -/
theorem cloneVals_get_ge (vm : AL Nat Nat) (n : Nat) (vs : List (Nat × Nat)) (k : Nat)
    (hk : k ∈ vs.map Prod.fst) :
    ∃ m, AL.get (cloneVals vm n vs).2.1 k = some m ∧ n ≤ m ∧ m < n + vs.length := by
  induction vs generalizing vm n with
  | nil => simp at hk
  | cons p r ih =>
    obtain ⟨v, ty⟩ := p
    simp only [cloneVals, List.length_cons]
    by_cases hr : k ∈ r.map Prod.fst
    · obtain ⟨m, h1, h2, h3⟩ := ih (AL.set vm v n) (n + 1) hr
      exact ⟨m, h1, by omega, by omega⟩
    · have : k = v := by
        simp only [List.map_cons, List.mem_cons] at hk
        rcases hk with h | h
        · exact h
        · exact absurd h hr
      subst this
      refine ⟨n, ?_, by omega, by omega⟩
      rw [cloneVals_frame _ _ _ _ hr, AL.get_set]; simp

/-! ## regBlocks -/

theorem regBlocks_next {k : Kind} (bm : AL Nat Nat) (n : Nat) (t : T k) :
    (regBlocks bm n t).2 = n + dlen t := by
  induction t generalizing bm n with
  | nil => simp [regBlocks, dlen]
  | op h rs nx _ _ => simp [regBlocks, dlen]
  | region bs nx _ _ => simp [regBlocks, dlen]
  | block h ops nx _ ih2 => simp only [regBlocks, dlen]; rw [ih2]; omega

theorem regBlocks_frame {k : Kind} (bm : AL Nat Nat) (n : Nat) (t : T k) (b : Nat)
    (hb : b ∉ directIds t) : AL.get (regBlocks bm n t).1 b = AL.get bm b := by
  induction t generalizing bm n with
  | nil => simp [regBlocks]
  | op h rs nx _ _ => simp [regBlocks]
  | region bs nx _ _ => simp [regBlocks]
  | block h ops nx _ ih2 =>
    simp only [directIds, List.mem_cons, not_or] at hb
    simp only [regBlocks]
    rw [ih2 _ _ hb.2, AL.get_set]; simp [hb.1]

theorem regBlocks_reg {k : Kind} (bm : AL Nat Nat) (n : Nat) (t : T k)
    (nd : (directIds t).Nodup) : Reg (regBlocks bm n t).1 n t := by
  induction t generalizing bm n with
  | nil => simp [Reg]
  | op h rs nx _ _ => simp [Reg]
  | region bs nx _ _ => simp [Reg]
  | block h ops nx _ ih2 =>
    simp only [directIds, List.nodup_cons] at nd
    simp only [regBlocks, Reg]
    refine ⟨?_, ih2 _ _ nd.2⟩
    rw [regBlocks_frame _ _ _ _ nd.1, AL.get_set]; simp

/-- every direct block gets a mapping in `[n, n + dlen t)` -/
theorem regBlocks_get_ge {k : Kind} (bm : AL Nat Nat) (n : Nat) (t : T k) (b : Nat)
    (hb : b ∈ directIds t) :
    ∃ m, AL.get (regBlocks bm n t).1 b = some m ∧ n ≤ m ∧ m < n + dlen t := by
  induction t generalizing bm n with
  | nil => simp [directIds] at hb
  | op h rs nx _ _ => simp [directIds] at hb
  | region bs nx _ _ => simp [directIds] at hb
  | block h ops nx _ ih2 =>
    simp only [regBlocks, dlen]
    by_cases hr : b ∈ directIds nx
    · obtain ⟨m, h1, h2, h3⟩ := ih2 (AL.set bm h.id n) (n + 1) hr
      exact ⟨m, h1, by omega, by omega⟩
    · have : b = h.id := by
        simp only [directIds, List.mem_cons] at hb
        rcases hb with h' | h'
        · exact h'
        · exact absurd h' hr
      subst this
      refine ⟨n, ?_, by omega, by omega⟩
      rw [regBlocks_frame _ _ _ _ hr, AL.get_set]; simp

theorem Reg_congr {k : Kind} {bm bm' : AL Nat Nat} {nb : Nat} (t : T k)
    (h : ∀ b ∈ directIds t, AL.get bm' b = AL.get bm b) (r : Reg bm nb t) : Reg bm' nb t := by
  induction t generalizing nb with
  | nil => simp [Reg]
  | op h rs nx _ _ => simp [Reg]
  | region bs nx _ _ => simp [Reg]
  | block hd ops nx _ ih2 =>
    simp only [Reg] at r ⊢
    refine ⟨?_, ih2 (fun b hb => h b (by simp [directIds, hb])) r.2⟩
    rw [h _ (by simp [directIds])]; exact r.1

end Xdsl.Clone
