import XdslProofs.Lemmas.CloneMisc
import XdslProofs.Lemmas.CloneScoped
/-!
C02 helper definitions and lemmas, part 8: vocabulary of the property theorems (`SrcOK`, `Old`),
the named intermediate results of `clone_into` / `Operation.clone`, and their basic facts.
-/
namespace Xdsl.Clone

/-- The source is a real IR tree: every value and every block is defined once (distinct objects),
and no op branches to a block that is created only after the op has been cloned (`SuccOK`; implied
by `Operation.verify`'s "successor belongs to the op's own region"). -/
structure SrcOK {k : Kind} (t : T k) : Prop where
  vals : (defVals t).Nodup
  blocks : (blockIds t).Nodup
  succ : SuccOK t

/-- every identity defined in `u` existed before the call -/
def Old (st : St) {k : Kind} (u : T k) : Prop := ∀ i ∈ ids u, i < st.next

/-- state after the first loop of `clone_into` (all new blocks created and registered) -/
def st1 (st : St) (src : T .blocks) : St :=
  { st with bm := (regBlocks st.bm st.next src).1, next := (regBlocks st.bm st.next src).2 }

/-- new blocks (without operands) and mappers after phase 1 -/
def p1 (st : St) (src : T .blocks) : T .blocks × St := c1 st.next (st1 st src) src

/-- the phase-2 assignments of the repaired `clone_into` -/
def asg (st : St) (src : T .blocks) : AL Nat (List Nat) :=
  mkAssign (p1 st src).2.vm (walkOperands src) (walkIds (p1 st src).1) []

theorem cloneInto_eq (st : St) (src dst : T .blocks) (idx : Option Nat) :
    cloneInto st src dst idx true =
      { src := applyOps (asg st src) src
        out := applyOps (asg st src) (insertAt (idx.getD (chainLen dst)) (p1 st src).1 dst)
        new := applyOps (asg st src) (p1 st src).1
        st := (p1 st src).2 } := by
  simp [cloneInto, cloneIntoG, c1, firstRegion, asg, p1, st1]

theorem st1_next (st : St) (src : T .blocks) : (st1 st src).next = st.next + dlen src := by
  simp [st1, regBlocks_next]

theorem p1_next_ge (st : St) (src : T .blocks) : st.next + dlen src ≤ (p1 st src).2.next := by
  have := c1_next_le src st.next (st1 st src)
  rw [st1_next] at this
  exact this

theorem p1_ids_range (st : St) (src : T .blocks) :
    ∀ i ∈ ids (p1 st src).1, st.next ≤ i ∧ i < (p1 st src).2.next := by
  intro i hi
  have := c1_ids_range src st.next (st1 st src) i hi
  have := p1_next_ge st src
  rw [st1_next] at *
  simp only [p1] at *
  omega

theorem p1_ids_nodup (st : St) (src : T .blocks) : (ids (p1 st src).1).Nodup :=
  c1_ids_nodup src st.next (st1 st src) (by rw [st1_next]; exact Nat.le_refl _)

theorem p1_iso (st : St) (src : T .blocks) (ok : SrcOK src) :
    Iso false (mapVal (p1 st src).2.vm) (mapVal (p1 st src).2.bm) src (p1 st src).1 := by
  have nd : (directIds src).Nodup := by
    have := ok.blocks
    simp only [blockIds, List.nodup_append] at this
    exact this.1
  exact c1_iso src st.next (st1 st src) ok.vals ok.blocks ok.succ (regBlocks_reg _ _ _ nd)

/-- an identity that is not an op of the new blocks is not assigned to in phase 2 -/
theorem asg_none (st : St) (src : T .blocks) (id : Nat) (h : id ∉ walkIds (p1 st src).1) :
    AL.get (asg st src) id = none := by
  simp only [asg]
  rw [mkAssign_frame _ _ _ _ _ h]; rfl

/-- phase-2 assignments of `Operation.clone` -/
def asgO (st : St) (o : T .ops) : AL Nat (List Nat) :=
  mkAssign (c1 0 st o).2.vm (walkOperands o) (walkIds (c1 0 st o).1) []

theorem cloneOp_eq (st : St) (h : OpHdr) (rs : T .regions) :
    cloneOp st (.op h rs .nil) true =
      { src := applyOps (asgO st (.op h rs .nil)) (.op h rs .nil)
        out := applyOps (asgO st (.op h rs .nil)) (c1 0 st (.op h rs .nil)).1
        new := .nil
        st := (c1 0 st (.op h rs .nil)).2 } := by
  simp [cloneOp, headOp, asgO]

theorem q1_ids_range (st : St) (o : T .ops) :
    ∀ i ∈ ids (c1 0 st o).1, st.next ≤ i ∧ i < (c1 0 st o).2.next := by
  intro i hi
  have := c1_ids_range o 0 st i hi
  simp only [dlen_ops] at this
  omega

theorem q1_ids_nodup (st : St) (o : T .ops) : (ids (c1 0 st o).1).Nodup :=
  c1_ids_nodup o 0 st (by simp [dlen_ops])

theorem append_nil {k : Kind} (t : T k) : append t .nil = t := by
  induction t with
  | nil => rfl
  | op _ _ _ _ ih => simp [append, ih]
  | region _ _ _ ih => simp [append, ih]
  | block _ _ _ _ ih => simp [append, ih]


end Xdsl.Clone
