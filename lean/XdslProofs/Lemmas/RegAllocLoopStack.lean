import XdslProofs.Lemmas.RegAllocLoopBasics
/-!
C19 (loops) helper lemmas, part 2: the register stack inside the allocator for blocks with loops.
* `Replays`: the log of stack calls is faithful — running the logged calls on the `RegisterStack`
  model of `XdslProofs.C19Stack` (`srun`) from the old stack gives the new stack and the logged results;
* reservation counts are restored by every block, and no logged `pop` returned a register that was
  reserved when the block was entered (`allocT_restored`).
-/
namespace Xdsl.RegAllocLoop
open Xdsl.RegMachine Xdsl.RegAlloc

/-! ### `srun` on concatenations -/

theorem srun_append (c : Cfg) : ∀ (a b : List SOp) (s : RStack),
    srun c s (a ++ b) = ((srun c (srun c s a).1 b).1, (srun c s a).2 ++ (srun c (srun c s a).1 b).2) := by
  intro a
  induction a with
  | nil => intro b s; simp [srun]
  | cons o a ih =>
    intro b s
    simp only [List.cons_append, srun]
    rw [ih]

/-- the stack calls logged between two states, replayed on the `RegisterStack` model -/
def Replays (c : Cfg) (s s' : LSt) : Prop :=
  ∃ l : List (SOp × SOut), s'.log = l ++ s.log ∧
    srun c s.stack (l.reverse.map Prod.fst) = (s'.stack, l.reverse.map Prod.snd)

theorem Replays.refl (c : Cfg) (s : LSt) : Replays c s s := ⟨[], rfl, rfl⟩

theorem Replays.trans {c : Cfg} {a b d : LSt} (h1 : Replays c a b) (h2 : Replays c b d) : Replays c a d := by
  obtain ⟨l1, e1, r1⟩ := h1
  obtain ⟨l2, e2, r2⟩ := h2
  refine ⟨l2 ++ l1, by rw [e2, e1, List.append_assoc], ?_⟩
  rw [List.reverse_append, List.map_append, srun_append, r1]
  simp only
  rw [r2, List.map_append]

theorem replays_of_eq {c : Cfg} {s s' : LSt} (hst : s'.stack = s.stack) (hlog : s'.log = s.log) :
    Replays c s s' := ⟨[], hlog, by simp [srun, hst]⟩

theorem replays_one {c : Cfg} {s s' : LSt} {o : SOp} {out : SOut} (hlog : s'.log = (o, out) :: s.log)
    (h : sstep c s.stack o = (s'.stack, out)) : Replays c s s' :=
  ⟨[(o, out)], hlog, by simp [srun, h]⟩

theorem setReg_stack (s : LSt) (v : ValId) (r : Reg) : (setReg s v r).stack = s.stack := rfl

theorem pushR_replays (c : Cfg) (s : LSt) (r : Reg) : Replays c s (pushR c s r) := by
  refine replays_one (o := .push r) (out := .unit) ?_ ?_
  · unfold pushR; split <;> rfl
  · show (spush c s.stack r, SOut.unit) = ((pushR c s r).stack, SOut.unit)
    congr 1
    unfold pushR spush
    by_cases hres : s.isReserved r = true
    · have : s.stack.isReserved r = true := hres
      rw [if_pos hres, if_pos this]; rfl
    · have : ¬ s.stack.isReserved r = true := hres
      rw [if_neg hres, if_neg this]
      unfold push LSt.stack
      simp only
      split <;> rfl

theorem popR_replays {c : Cfg} {s s' : LSt} {r : Reg} (h : popR c s = .ok (r, s')) : Replays c s s' := by
  obtain ⟨hp, hres, hnr, hlog⟩ := popR_ok h
  refine replays_one (o := .pop) (out := .reg r) hlog ?_
  show spop c s.stack = (s'.stack, .reg r)
  have hnr' : s.stack.isReserved r = false := hnr
  obtain ⟨_, htbl, hc⟩ := pop_cases hp
  have hst : s'.stack = { s.stack with avail := s'.st.avail, nextInf := s'.st.nextInf } := by
    simp only [LSt.stack, htbl, hres]
  rcases hc with ⟨hav, hni⟩ | ⟨hav, hav', hr, hni⟩
  · unfold spop
    have : s.stack.avail = r :: s'.st.avail := hav
    rw [this]
    simp only [hnr']
    rw [hst, hni]
    rfl
  · have hinf : c.allowInf = true := by
      unfold pop at hp
      rw [hav] at hp
      simp only at hp
      by_cases hi : c.allowInf = true
      · exact hi
      · rw [if_neg hi] at hp; exact absurd hp (by simp)
    unfold spop
    have : s.stack.avail = [] := hav
    rw [this]
    simp only [hinf, if_true]
    have e : s.stack.nextInf = s.st.nextInf := rfl
    rw [e, ← hr, hnr', hst, hav', hni]
    simp [LSt.stack, hav]

theorem reserveR_replays (c : Cfg) (s : LSt) (r : Reg) : Replays c s (reserveR s r) :=
  replays_one (o := .reserve r) (out := .unit) rfl rfl

theorem unreserveR_replays {c : Cfg} {s s' : LSt} {r : Reg} (h : unreserveR s r = .ok s') : Replays c s s' := by
  unfold unreserveR at h
  split at h
  · exact absurd h (by simp)
  · rename_i n hn
    simp only [Except.ok.injEq] at h
    subst h
    refine replays_one (o := .unreserve r) (out := .unit) rfl ?_
    show sunreserve s.stack r = _
    unfold sunreserve
    have : AL.get s.stack.reserved r = some n := hn
    rw [this]
    simp only
    split <;> rfl

theorem foldL_replays {α : Type} (c : Cfg) (f : LSt → α → Except LErr LSt)
    (hstep : ∀ s a s', f s a = .ok s' → Replays c s s') (as : List α) (s s' : LSt)
    (h : foldL f s as = .ok s') : Replays c s s' :=
  foldL_rel f (Replays c) (Replays.refl c) (fun _ _ _ => Replays.trans) hstep as s s' h

theorem allocValueR_replays {x : Ctx} {s s' : LSt} {v : ValId} (h : allocValueR x s v = .ok s') :
    Replays x.c s s' := by
  rcases allocValueR_cases h with ⟨_, rfl⟩ | ⟨_, ⟨_, _, rfl⟩ | ⟨r, s1, hp, rfl⟩⟩
  · exact Replays.refl _ _
  · exact replays_of_eq rfl rfl
  · exact (popR_replays hp).trans (replays_of_eq rfl rfl)

theorem sameRegN_replays {x : Ctx} {s s' : LSt} {vals : List ValId} (h : sameRegN x s vals = .ok s') :
    Replays x.c s s' := by
  rcases sameRegN_cases h with ⟨_, rfl⟩ | ⟨_, _, r, s1, hp, rfl⟩ | ⟨r, _, _, rfl⟩
  · exact Replays.refl _ _
  · obtain ⟨h1, h2, h3, h4, h5⟩ := foldl_setReg_fields r vals s1
    exact (popR_replays hp).trans (replays_of_eq (by simp only [LSt.stack, h1, h2, h3, h4]) h5)
  · obtain ⟨h1, h2, h3, h4, h5⟩ := foldl_setRegIf_fields r vals s
    exact replays_of_eq (by simp only [LSt.stack, h1, h2, h3, h4]) h5

theorem freeValueR_replays (c : Cfg) (s : LSt) (v : ValId) : Replays c s (freeValueR c s v) := by
  unfold freeValueR
  split
  · exact pushR_replays ..
  · exact Replays.refl _ _

theorem freeFold_replays (c : Cfg) (vs : List ValId) (s : LSt) : Replays c s (vs.foldl (freeValueR c) s) :=
  foldl_rel (freeValueR c) (Replays c) (Replays.refl c) (fun _ _ _ => Replays.trans)
    (fun s v => freeValueR_replays c s v) vs s

theorem allocOpR_replays {x : Ctx} {s s' : LSt} {o : Op} (h : allocOpR x s o = .ok s') : Replays x.c s s' := by
  unfold allocOpR at h
  split at h
  · exact absurd h (by simp)
  · rename_i s1 hs1
    split at h
    · exact absurd h (by simp)
    · rename_i s2 hs2
      exact (foldL_replays _ _ (fun s p s' hh => sameRegN_replays hh) _ _ _ hs1).trans
        ((foldL_replays _ _ (fun s v s' hh => allocValueR_replays hh) _ _ _ hs2).trans
          ((freeFold_replays ..).trans
            (foldL_replays _ _ (fun s v s' hh => allocValueR_replays hh) _ _ _ h)))

/-- **The log is faithful**: the stack calls that `allocate_block` logs, replayed on the
`RegisterStack` model, lead from the old stack to the new one with the logged results. -/
theorem allocT_replays (x : Ctx) : ∀ (t : LT) (s s' : LSt), allocT x s t = .ok s' → Replays x.c s s' := by
  intro t
  induction t with
  | nil => intro s s' h; simp only [allocT, Except.ok.injEq] at h; subst h; exact Replays.refl _ _
  | op o next ih =>
    intro s s' h
    simp only [allocT] at h
    split at h
    · exact absurd h (by simp)
    · rename_i s1 hs1
      exact (ih _ _ hs1).trans (allocOpR_replays h)
  | loop hd body next ihb ihn =>
    intro s s' h
    simp only [allocT] at h
    split at h
    · exact absurd h (by simp)
    rename_i s1 hs1
    split at h
    · exact absurd h (by simp)
    rename_i s2 hs2
    split at h
    · exact absurd h (by simp)
    rename_i s3 hs3
    split at h
    · exact absurd h (by simp)
    rename_i s4 hs4
    split at h
    · exact absurd h (by simp)
    rename_i s5 hs5
    split at h
    · exact absurd h (by simp)
    rename_i s6 hs6
    have e1 := ihn _ _ hs1
    have e2 := foldL_replays x.c _ (fun s v s' hh => allocValueR_replays hh) _ _ _ hs2
    have e3 := foldL_replays x.c _ (fun s v s' hh => sameRegN_replays hh) _ _ _ hs3
    have e4 := foldL_replays x.c _ (fun s v s' hh => allocValueR_replays hh) _ _ _ hs4
    have e5 : Replays x.c s4 ((regsOf s4 hd.inits).foldl reserveR s4) :=
      foldl_rel reserveR (Replays x.c) (Replays.refl _) (fun _ _ _ => Replays.trans)
        (fun s r => reserveR_replays x.c s r) _ _
    have e6 := ihb _ _ hs5
    have e7 := foldL_replays x.c _ (fun s r s' hh => unreserveR_replays hh) _ _ _ hs6
    have e8 := freeFold_replays x.c (optL hd.iv) s6
    have e9 := foldL_replays x.c _ (fun s v s' hh => allocValueR_replays hh) _ _ _ h
    exact e1.trans (e2.trans (e3.trans (e4.trans (e5.trans (e6.trans (e7.trans (e8.trans e9)))))))

theorem reserveFold_st : ∀ (rs : List Reg) (s : LSt), (rs.foldl reserveR s).st = s.st := by
  intro rs
  induction rs with
  | nil => intro s; rfl
  | cons a rs ih => intro s; simp only [List.foldl_cons]; rw [ih]; rfl

theorem unreserveFold_st : ∀ (rs : List Reg) (s s' : LSt), foldL unreserveR s rs = .ok s' → s'.st = s.st := by
  intro rs
  induction rs with
  | nil => intro s s' h; simp only [foldL, Except.ok.injEq] at h; subst h; rfl
  | cons r rs ih =>
    intro s s' h
    rw [foldL_cons] at h
    split at h
    · exact absurd h (by simp)
    · rename_i s1 hs1
      have h1 : s1.st = s.st := by
        unfold unreserveR at hs1
        split at hs1
        · exact absurd hs1 (by simp)
        · simp only [Except.ok.injEq] at hs1; subst hs1; rfl
      rw [ih s1 s' h, h1]

/-! ### reservation counts -/

def LSt.cnt (s : LSt) (r : Reg) : Nat := (AL.get s.reserved r).getD 0

/-- stored reservation counts are positive -/
def RPos (s : LSt) : Prop := ∀ r n, AL.get s.reserved r = some n → 0 < n

theorem isReserved_iff_cnt {s : LSt} (hp : RPos s) (r : Reg) : s.isReserved r = true ↔ 0 < s.cnt r := by
  unfold LSt.isReserved LSt.cnt
  cases hg : AL.get s.reserved r with
  | none => simp
  | some n => simpa using hp r n hg

theorem reserveR_cnt (s : LSt) (r x : Reg) : (reserveR s r).cnt x = s.cnt x + if x = r then 1 else 0 := by
  unfold reserveR LSt.cnt
  simp only [AL.get_set]
  split
  · rename_i h; subst h; simp
  · simp

theorem reserveR_pos {s : LSt} (hp : RPos s) (r : Reg) : RPos (reserveR s r) := by
  intro x n hx
  simp only [reserveR, AL.get_set] at hx
  split at hx
  · simp only [Option.some.injEq] at hx; omega
  · exact hp x n hx

theorem unreserveR_cnt {s s' : LSt} {r : Reg} (hp : RPos s) (h : unreserveR s r = .ok s') :
    RPos s' ∧ 0 < s.cnt r ∧ ∀ x, s'.cnt x = s.cnt x - if x = r then 1 else 0 := by
  unfold unreserveR at h
  split at h
  · exact absurd h (by simp)
  · rename_i n hn
    simp only [Except.ok.injEq] at h
    subst h
    have hn0 := hp r n hn
    refine ⟨?_, by simp [LSt.cnt, hn, hn0], ?_⟩
    · intro x m hx
      simp only at hx
      split at hx
      · rw [AL.get_del] at hx
        split at hx
        · exact absurd hx (by simp)
        · exact hp x m hx
      · rename_i hne
        rw [AL.get_set] at hx
        split at hx
        · simp only [Option.some.injEq] at hx; omega
        · exact hp x m hx
    · intro x
      simp only [LSt.cnt]
      split
      · rename_i h0
        rw [AL.get_del]
        split
        · rename_i hx; subst hx; simp [hn]; omega
        · simp
      · rw [AL.get_set]
        split
        · rename_i hx; subst hx; simp [hn]
        · simp

theorem reserveFold_cnt : ∀ (rs : List Reg) (s : LSt) (x : Reg),
    (rs.foldl reserveR s).cnt x = s.cnt x + rs.count x := by
  intro rs
  induction rs with
  | nil => intro s x; simp
  | cons r rs ih =>
    intro s x
    simp only [List.foldl_cons, ih, reserveR_cnt, List.count_cons]
    by_cases h : x = r
    · subst h; simp; omega
    · have : ¬ (r == x) = true := by simpa using fun e => h e.symm
      simp [h, this]

theorem reserveFold_pos : ∀ (rs : List Reg) (s : LSt), RPos s → RPos (rs.foldl reserveR s) := by
  intro rs
  induction rs with
  | nil => intro s h; exact h
  | cons r rs ih => intro s h; simp only [List.foldl_cons]; exact ih _ (reserveR_pos h r)

theorem unreserveFold_cnt : ∀ (rs : List Reg) (s s' : LSt), RPos s → foldL unreserveR s rs = .ok s' →
    RPos s' ∧ ∀ x, s'.cnt x = s.cnt x - rs.count x := by
  intro rs
  induction rs with
  | nil =>
    intro s s' hp h
    simp only [foldL, Except.ok.injEq] at h
    subst h
    exact ⟨hp, fun x => by simp⟩
  | cons r rs ih =>
    intro s s' hp h
    rw [foldL_cons] at h
    split at h
    · exact absurd h (by simp)
    · rename_i s1 hs1
      obtain ⟨hp1, _, hc1⟩ := unreserveR_cnt hp hs1
      obtain ⟨hp2, hc2⟩ := ih s1 s' hp1 h
      refine ⟨hp2, fun x => ?_⟩
      rw [hc2, hc1, List.count_cons]
      by_cases hx : x = r
      · subst hx; simp; omega
      · have : ¬ (r == x) = true := by simpa using fun e => hx e.symm
        simp [hx, this]

/-! ### no reserved register is handed out -/

/-- between the two states the reservation table is untouched, no logged `pop` returned a register
that is reserved, and nothing was un-reserved -/
def Kept (s s' : LSt) : Prop :=
  s'.reserved = s.reserved ∧
    ∃ l : List (SOp × SOut), s'.log = l ++ s.log
      ∧ (∀ r, s.isReserved r = true → (SOp.pop, SOut.reg r) ∉ l)
      ∧ ∀ e ∈ l, ∀ r, e.1 ≠ SOp.unreserve r

theorem Kept.refl (s : LSt) : Kept s s :=
  ⟨rfl, [], rfl, fun _ _ h => by simp at h, fun _ h => by simp at h⟩

theorem Kept.trans {a b d : LSt} (h1 : Kept a b) (h2 : Kept b d) : Kept a d := by
  obtain ⟨r1, l1, e1, n1, u1⟩ := h1
  obtain ⟨r2, l2, e2, n2, u2⟩ := h2
  refine ⟨r2.trans r1, l2 ++ l1, by rw [e2, e1, List.append_assoc], ?_, ?_⟩
  · intro r hr hm
    rcases List.mem_append.1 hm with hm | hm
    · exact n2 r (by unfold LSt.isReserved at hr ⊢; rw [r1]; exact hr) hm
    · exact n1 r hr hm
  · intro e he
    rcases List.mem_append.1 he with he | he
    · exact u2 e he
    · exact u1 e he

theorem kept_of_eq {s s' : LSt} (hres : s'.reserved = s.reserved) (hlog : s'.log = s.log) : Kept s s' :=
  ⟨hres, [], hlog, fun _ _ h => by simp at h, fun _ h => by simp at h⟩

theorem pushR_kept (c : Cfg) (s : LSt) (r : Reg) : Kept s (pushR c s r) := by
  refine ⟨?_, [(.push r, .unit)], ?_, fun _ _ h => by simp at h, ?_⟩
  · unfold pushR; split <;> rfl
  · unfold pushR; split <;> rfl
  · intro e he; simp only [List.mem_singleton] at he; subst he; simp

theorem popR_kept {c : Cfg} {s s' : LSt} {r : Reg} (h : popR c s = .ok (r, s')) : Kept s s' := by
  obtain ⟨_, hres, hnr, hlog⟩ := popR_ok h
  refine ⟨hres, [(.pop, .reg r)], hlog, ?_, ?_⟩
  · intro r' hr' hm
    simp only [List.mem_singleton, Prod.mk.injEq, SOut.reg.injEq, true_and] at hm
    subst hm
    rw [hnr] at hr'; exact absurd hr' (by simp)
  · intro e he; simp only [List.mem_singleton] at he; subst he; simp

theorem foldL_kept {α : Type} (f : LSt → α → Except LErr LSt)
    (hstep : ∀ s a s', f s a = .ok s' → Kept s s') (as : List α) (s s' : LSt)
    (h : foldL f s as = .ok s') : Kept s s' :=
  foldL_rel f Kept Kept.refl (fun _ _ _ => Kept.trans) hstep as s s' h

theorem allocValueR_kept {x : Ctx} {s s' : LSt} {v : ValId} (h : allocValueR x s v = .ok s') : Kept s s' := by
  rcases allocValueR_cases h with ⟨_, rfl⟩ | ⟨_, ⟨_, _, rfl⟩ | ⟨r, s1, hp, rfl⟩⟩
  · exact Kept.refl _
  · exact kept_of_eq rfl rfl
  · exact (popR_kept hp).trans (kept_of_eq rfl rfl)

theorem sameRegN_kept {x : Ctx} {s s' : LSt} {vals : List ValId} (h : sameRegN x s vals = .ok s') :
    Kept s s' := by
  rcases sameRegN_cases h with ⟨_, rfl⟩ | ⟨_, _, r, s1, hp, rfl⟩ | ⟨r, _, _, rfl⟩
  · exact Kept.refl _
  · obtain ⟨_, _, _, h4, h5⟩ := foldl_setReg_fields r vals s1
    exact (popR_kept hp).trans (kept_of_eq h4 h5)
  · obtain ⟨_, _, _, h4, h5⟩ := foldl_setRegIf_fields r vals s
    exact kept_of_eq h4 h5

theorem freeFold_kept (c : Cfg) (vs : List ValId) (s : LSt) : Kept s (vs.foldl (freeValueR c) s) :=
  foldl_rel (freeValueR c) Kept Kept.refl (fun _ _ _ => Kept.trans)
    (fun s v => by unfold freeValueR; split; exact pushR_kept ..; exact Kept.refl _) vs s

theorem allocOpR_kept {x : Ctx} {s s' : LSt} {o : Op} (h : allocOpR x s o = .ok s') : Kept s s' := by
  unfold allocOpR at h
  split at h
  · exact absurd h (by simp)
  · rename_i s1 hs1
    split at h
    · exact absurd h (by simp)
    · rename_i s2 hs2
      exact (foldL_kept _ (fun s p s' hh => sameRegN_kept hh) _ _ _ hs1).trans
        ((foldL_kept _ (fun s v s' hh => allocValueR_kept hh) _ _ _ hs2).trans
          ((freeFold_kept ..).trans (foldL_kept _ (fun s v s' hh => allocValueR_kept hh) _ _ _ h)))

/-- what a whole block does to the reservations: counts are restored, and no `pop` logged while the
block was allocated returned a register that was reserved when the block was entered -/
structure Restored (s s' : LSt) : Prop where
  pos : RPos s'
  cnt : ∀ r, s'.cnt r = s.cnt r
  nopop : ∃ l : List (SOp × SOut), s'.log = l ++ s.log ∧
    ∀ r, 0 < s.cnt r → (SOp.pop, SOut.reg r) ∉ l

theorem Restored.of_kept {s s' : LSt} (hp : RPos s) (h : Kept s s') : Restored s s' := by
  obtain ⟨hres, l, hl, hn, _⟩ := h
  refine ⟨fun r n hr => hp r n (by rw [← hres]; exact hr), fun r => by simp [LSt.cnt, hres], l, hl, ?_⟩
  intro r hr
  exact hn r ((isReserved_iff_cnt hp r).2 hr)

theorem Restored.trans {a b d : LSt} (h1 : Restored a b) (h2 : Restored b d) : Restored a d := by
  obtain ⟨l1, e1, n1⟩ := h1.nopop
  obtain ⟨l2, e2, n2⟩ := h2.nopop
  refine ⟨h2.pos, fun r => (h2.cnt r).trans (h1.cnt r), l2 ++ l1, by rw [e2, e1, List.append_assoc], ?_⟩
  intro r hr hm
  rcases List.mem_append.1 hm with hm | hm
  · exact n2 r (by rw [h1.cnt r]; exact hr) hm
  · exact n1 r hr hm

theorem reserveFold_log : ∀ (rs : List Reg) (s : LSt),
    ∃ l : List (SOp × SOut), (rs.foldl reserveR s).log = l ++ s.log ∧ ∀ e ∈ l, e.1 ≠ SOp.pop := by
  intro rs
  induction rs with
  | nil => intro s; exact ⟨[], rfl, fun _ h => by simp at h⟩
  | cons r rs ih =>
    intro s
    obtain ⟨l, hl, hn⟩ := ih (reserveR s r)
    refine ⟨l ++ [(.reserve r, .unit)], ?_, ?_⟩
    · rw [List.foldl_cons, hl]
      simp [reserveR]
    · intro e he
      rcases List.mem_append.1 he with he | he
      · exact hn e he
      · simp only [List.mem_singleton] at he; subst he; simp

theorem unreserveFold_log : ∀ (rs : List Reg) (s s' : LSt), foldL unreserveR s rs = .ok s' →
    ∃ l : List (SOp × SOut), s'.log = l ++ s.log ∧ ∀ e ∈ l, e.1 ≠ SOp.pop := by
  intro rs
  induction rs with
  | nil =>
    intro s s' h
    simp only [foldL, Except.ok.injEq] at h; subst h
    exact ⟨[], rfl, fun _ h => by simp at h⟩
  | cons r rs ih =>
    intro s s' h
    rw [foldL_cons] at h
    split at h
    · exact absurd h (by simp)
    · rename_i s1 hs1
      obtain ⟨l, hl, hn⟩ := ih s1 s' h
      have h1 : s1.log = (.unreserve r, .unit) :: s.log := by
        unfold unreserveR at hs1
        split at hs1
        · exact absurd hs1 (by simp)
        · simp only [Except.ok.injEq] at hs1; subst hs1; rfl
      refine ⟨l ++ [(.unreserve r, .unit)], by rw [hl, h1]; simp, ?_⟩
      intro e he
      rcases List.mem_append.1 he with he | he
      · exact hn e he
      · simp only [List.mem_singleton] at he; subst he; simp

/-- **Reserved registers are never handed out** (general form, any nesting depth): while a block is
allocated no `pop` returns a register that is reserved when the block is entered, and when the block
is done every reservation count is what it was. -/
theorem allocT_restored (x : Ctx) : ∀ (t : LT) (s s' : LSt), RPos s → allocT x s t = .ok s' →
    Restored s s' := by
  intro t
  induction t with
  | nil =>
    intro s s' hp h
    simp only [allocT, Except.ok.injEq] at h; subst h
    exact Restored.of_kept hp (Kept.refl _)
  | op o next ih =>
    intro s s' hp h
    simp only [allocT] at h
    split at h
    · exact absurd h (by simp)
    · rename_i s1 hs1
      have r1 := ih _ _ hp hs1
      exact r1.trans (Restored.of_kept r1.pos (allocOpR_kept h))
  | loop hd body next ihb ihn =>
    intro s s' hp h
    simp only [allocT] at h
    split at h
    · exact absurd h (by simp)
    rename_i s1 hs1
    split at h
    · exact absurd h (by simp)
    rename_i s2 hs2
    split at h
    · exact absurd h (by simp)
    rename_i s3 hs3
    split at h
    · exact absurd h (by simp)
    rename_i s4 hs4
    split at h
    · exact absurd h (by simp)
    rename_i s5 hs5
    split at h
    · exact absurd h (by simp)
    rename_i s6 hs6
    have r1 := ihn _ _ hp hs1
    have r2 := Restored.of_kept r1.pos (foldL_kept _ (fun s v s' hh => allocValueR_kept hh) _ _ _ hs2)
    have r3 := Restored.of_kept r2.pos (foldL_kept _ (fun s v s' hh => sameRegN_kept hh) _ _ _ hs3)
    have r4 := Restored.of_kept r3.pos (foldL_kept _ (fun s v s' hh => allocValueR_kept hh) _ _ _ hs4)
    -- reservation, body, un-reservation
    have hp4r := reserveFold_pos (regsOf s4 hd.inits) s4 r4.pos
    have r5 := ihb _ _ hp4r hs5
    obtain ⟨hp6, hc6⟩ := unreserveFold_cnt _ _ _ r5.pos hs6
    have r46 : Restored s4 s6 := by
      refine ⟨hp6, ?_, ?_⟩
      · intro r
        rw [hc6, r5.cnt, reserveFold_cnt]; omega
      · obtain ⟨la, ha, hna⟩ := reserveFold_log (regsOf s4 hd.inits) s4
        obtain ⟨lb, hb, hnb⟩ := r5.nopop
        obtain ⟨lc, hc, hnc⟩ := unreserveFold_log _ _ _ hs6
        refine ⟨lc ++ (lb ++ la), by rw [hc, hb, ha]; simp, ?_⟩
        intro r hr hm
        rcases List.mem_append.1 hm with hm | hm
        · exact hnc _ hm rfl
        · rcases List.mem_append.1 hm with hm | hm
          · exact hnb r (by rw [reserveFold_cnt]; omega) hm
          · exact hna _ hm rfl
    have r7 := Restored.of_kept r46.pos (freeFold_kept x.c (optL hd.iv) s6)
    have r8 := Restored.of_kept r7.pos (foldL_kept _ (fun s v s' hh => allocValueR_kept hh) _ _ _ h)
    exact r1.trans (r2.trans (r3.trans (r4.trans (r46.trans (r7.trans r8)))))

theorem foldL_allocValueR_assigned (x : Ctx) : ∀ (vs : List ValId) (s s' : LSt),
    foldL (allocValueR x) s vs = .ok s' → ∀ v ∈ vs, (AL.get s'.st.asg v).isSome = true := by
  intro vs
  induction vs with
  | nil => intro s s' _ v hv; simp at hv
  | cons w vs ih =>
    intro s s' h v hv
    rw [foldL_cons] at h
    split at h
    · exact absurd h (by simp)
    · rename_i s1 hs1
      rcases List.mem_cons.1 hv with rfl | hv
      · have h1 : (AL.get s1.st.asg v).isSome = true := by
          rcases allocValueR_cases hs1 with ⟨hs, rfl⟩ | ⟨_, ⟨_, _, rfl⟩ | ⟨r, s2, _, rfl⟩⟩
          · exact hs
          · simp [setReg, AL.get_set]
          · simp [setReg, AL.get_set]
        obtain ⟨r, hr⟩ := Option.isSome_iff_exists.1 h1
        have := foldL_ext _ (fun s v s' hh => allocValueR_ext hh) _ _ _ h v r hr
        rw [this]; rfl
      · exact ih _ _ h v hv

/-- the pieces of `ForRofOperation.allocate_registers`, named: `sLive` after the live-ins have been
allocated, `sIn` / `sOut` when the body is entered / left (`sIn` = the reservations made on `sPre`) -/
theorem allocT_loop_split {x : Ctx} {h : Loop} {body next : LT} {s s' : LSt}
    (hrun : allocT x s (.loop h body next) = .ok s') :
    ∃ s1 sLive sPre sOut s6 : LSt,
      allocT x s next = .ok s1
      ∧ foldL (allocValueR x) s1 (liveIns h body) = .ok sLive
      ∧ LExt sLive sPre
      ∧ allocT x ((regsOf sPre h.inits).foldl reserveR sPre) body = .ok sOut
      ∧ foldL unreserveR sOut (regsOf sPre h.inits) = .ok s6
      ∧ LExt s6 s' := by
  simp only [allocT] at hrun
  split at hrun
  · exact absurd hrun (by simp)
  rename_i s1 hs1
  split at hrun
  · exact absurd hrun (by simp)
  rename_i s2 hs2
  split at hrun
  · exact absurd hrun (by simp)
  rename_i s3 hs3
  split at hrun
  · exact absurd hrun (by simp)
  rename_i s4 hs4
  split at hrun
  · exact absurd hrun (by simp)
  rename_i s5 hs5
  split at hrun
  · exact absurd hrun (by simp)
  rename_i s6 hs6
  refine ⟨s1, s2, s4, s5, s6, hs1, hs2, ?_, hs5, hs6, ?_⟩
  · exact (foldL_ext _ (fun s v s' hh => sameRegN_ext hh) _ _ _ hs3).trans
      (foldL_ext _ (fun s v s' hh => allocValueR_ext hh) _ _ _ hs4)
  · exact (lext_of_asg (freeFold_asg ..)).trans
      (foldL_ext _ (fun s v s' hh => allocValueR_ext hh) _ _ _ hrun)

theorem reserveFold_isReserved : ∀ (rs : List Reg) (s : LSt) (r : Reg), r ∈ rs →
    (rs.foldl reserveR s).isReserved r = true := by
  intro rs s r hr
  have hc := reserveFold_cnt rs s r
  have : 0 < rs.count r := List.count_pos_iff.2 hr
  unfold LSt.isReserved
  unfold LSt.cnt at hc
  cases hg : AL.get (rs.foldl reserveR s).reserved r with
  | none => rw [hg] at hc; simp at hc; omega
  | some n => rfl

/-- a loop-free block makes no `unreserve` call -/
theorem allocT_flat_log (x : Ctx) : ∀ (os : List Op) (s s' : LSt), allocT x s (LT.ofOps os) = .ok s' →
    ∃ l : List (SOp × SOut), s'.log = l ++ s.log ∧ ∀ e ∈ l, ∀ r, e.1 ≠ SOp.unreserve r := by
  intro os
  induction os with
  | nil =>
    intro s s' h
    simp only [LT.ofOps, allocT, Except.ok.injEq] at h; subst h
    exact ⟨[], rfl, fun _ h => by simp at h⟩
  | cons o os ih =>
    intro s s' h
    simp only [LT.ofOps, allocT] at h
    split at h
    · exact absurd h (by simp)
    · rename_i s1 hs1
      obtain ⟨l1, e1, n1⟩ := ih _ _ hs1
      obtain ⟨_, l2, e2, _, n2⟩ := allocOpR_kept h
      refine ⟨l2 ++ l1, by rw [e2, e1, List.append_assoc], ?_⟩
      intro e he
      rcases List.mem_append.1 he with he | he
      · exact n2 e he
      · exact n1 e he

end Xdsl.RegAllocLoop
