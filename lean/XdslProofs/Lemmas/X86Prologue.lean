import XdslProofs.Lemmas.X86Frame
/-!
The model of the repaired prologue/epilogue insertion (`insertPrologue`) always produces a frame
that `frameOk` accepts, and it does not change what the function computes.
-/
namespace Xdsl.X86

/-! ### `usedCS` -/

theorem addUsed_inv (acc : List Nat) (d : Nat) (hn : acc.Nodup) (hs : ∀ x ∈ acc, x ∈ calleeSaved) :
    (addUsed acc d).Nodup ∧ (∀ x ∈ addUsed acc d, x ∈ calleeSaved) ∧
    (∀ x ∈ acc, x ∈ addUsed acc d) ∧ (d ∈ calleeSaved → d ∈ addUsed acc d) := by
  unfold addUsed
  by_cases h1 : calleeSaved.contains d = true
  · by_cases h2 : acc.contains d = true
    · simp only [h1, h2, Bool.not_true, Bool.and_false]
      exact ⟨hn, hs, fun x hx => hx, fun _ => by simpa using h2⟩
    · have h2' : d ∉ acc := by simpa using h2
      simp only [h1, h2, Bool.not_false, Bool.and_self, if_true]
      refine ⟨?_, ?_, ?_, ?_⟩
      · rw [List.nodup_append]
        refine ⟨hn, by simp, ?_⟩
        intro a ha b hb
        simp at hb; subst hb
        intro hab; subst hab; exact h2' ha
      · intro x hx
        simp at hx
        rcases hx with hx | rfl
        · exact hs x hx
        · simpa using h1
      · intro x hx; simp [hx]
      · intro _; simp
  · simp only [h1, Bool.false_and]
    refine ⟨hn, hs, fun x hx => hx, fun hd => ?_⟩
    exact absurd (by simpa using hd) h1

theorem foldl_addUsed_inv (ds : List Nat) :
    ∀ (acc : List Nat), acc.Nodup → (∀ x ∈ acc, x ∈ calleeSaved) →
      (ds.foldl addUsed acc).Nodup ∧ (∀ x ∈ ds.foldl addUsed acc, x ∈ calleeSaved) ∧
      (∀ x ∈ acc, x ∈ ds.foldl addUsed acc) ∧
      (∀ d ∈ ds, d ∈ calleeSaved → d ∈ ds.foldl addUsed acc) := by
  induction ds with
  | nil => intro acc hn hs; exact ⟨hn, hs, fun x hx => hx, by simp⟩
  | cons d r ih =>
    intro acc hn hs
    obtain ⟨a1, a2, a3, a4⟩ := addUsed_inv acc d hn hs
    obtain ⟨b1, b2, b3, b4⟩ := ih (addUsed acc d) a1 a2
    refine ⟨b1, b2, fun x hx => b3 x (a3 x hx), ?_⟩
    intro x hx hcs
    simp at hx
    rcases hx with rfl | hx
    · exact b3 _ (a4 hcs)
    · exact b4 x hx hcs

/-- pigeonhole for duplicate-free lists -/
theorem nodup_subset_length (l s : List Nat) (hn : l.Nodup) (hs : ∀ x ∈ l, x ∈ s) :
    l.length ≤ s.length := by
  induction l generalizing s with
  | nil => simp
  | cons x t ih =>
    have hx : x ∈ s := hs x (by simp)
    have hn' := List.nodup_cons.mp hn
    have : t.length ≤ (s.erase x).length := by
      apply ih _ hn'.2
      intro y hy
      have hne : y ≠ x := fun h => hn'.1 (h ▸ hy)
      exact (List.mem_erase_of_ne hne).mpr (hs y (by simp [hy]))
    rw [List.length_erase_of_mem hx] at this
    have hpos : 0 < s.length := List.length_pos_of_mem hx
    simp; omega

theorem usedCS_spec (body : List Instr) :
    (usedCS body).length ≤ 6 ∧ (∀ x ∈ usedCS body, x ∈ calleeSaved) ∧
    (∀ i ∈ body, ∀ d, destOf i = some d → d ∈ calleeSaved → d ∈ usedCS body) := by
  obtain ⟨h1, h2, _, h4⟩ := foldl_addUsed_inv (body.filterMap destOf) [] (by simp) (by simp)
  refine ⟨?_, h2, ?_⟩
  · exact nodup_subset_length _ calleeSaved h1 h2
  · intro i hi d hd hcs
    exact h4 d (List.mem_filterMap.mpr ⟨i, hi, hd⟩) hcs

/-! ### `frameOk` accepts the canonical shape -/

theorem takePushes_map_push (rs : List Nat) (Y : List Instr) (hY : ∀ i ∈ Y.head?, pushReg? i = none) :
    takePushes (rs.map Instr.push ++ Y) = (rs, Y) := by
  induction rs with
  | nil =>
    cases Y with
    | nil => rfl
    | cons y r =>
      have := hY y (by simp)
      cases y <;> first | rfl | simp [pushReg?] at this
  | cons r rs ih => simp [takePushes, ih]

theorem beforeRet_append_ret (Z t : List Instr) (h : ∀ i ∈ Z, i ≠ Instr.ret) :
    beforeRet (Z ++ Instr.ret :: t) = some Z := by
  induction Z with
  | nil => rfl
  | cons i r ih =>
    have hi : i ≠ .ret := h i (by simp)
    have : beforeRet (i :: r ++ Instr.ret :: t) = (beforeRet (r ++ Instr.ret :: t)).map (i :: ·) := by
      cases i <;> first | rfl | exact absurd rfl hi
    rw [this, ih (fun j hj => h j (by simp [hj]))]; rfl

theorem frameOk_shape (rs : List Nat) (body t : List Instr) (hlen : rs.length ≤ depthCap)
    (h4 : RSP ∉ rs)
    (hb : ∀ i ∈ body, bodyInstrOk rs i = true ∧ isLabel i = false) :
    frameOk (Instr.label :: (rs.map Instr.push ++ body ++ rs.reverse.map Instr.pop ++ Instr.ret :: t)) = true := by
  have hnl : ∀ i ∈ body, i ≠ Instr.ret ∧ pushReg? i = none := by
    intro i hi
    have := (hb i hi).1
    cases i <;> simp [bodyInstrOk, pushReg?] at this ⊢
  -- what follows the pushes
  let Y := body ++ rs.reverse.map Instr.pop ++ Instr.ret :: t
  have hYhead : ∀ i ∈ Y.head?, pushReg? i = none ∧ isLabel i = false := by
    intro i hi
    cases hbody : body with
    | cons b r =>
      simp [Y, hbody] at hi; subst hi
      exact ⟨(hnl b (by simp [hbody])).2, (hb b (by simp [hbody])).2⟩
    | nil =>
      cases hrs : rs.reverse with
      | nil => simp [Y, hbody, hrs] at hi; subst hi; simp [pushReg?, isLabel]
      | cons r0 r => simp [Y, hbody, hrs] at hi; subst hi; simp [pushReg?, isLabel]
  have hdrop : (Instr.label :: (rs.map Instr.push ++ body ++ rs.reverse.map Instr.pop ++ Instr.ret :: t)).dropWhile isLabel
      = rs.map Instr.push ++ Y := by
    simp only [List.dropWhile_cons, isLabel, if_true]
    cases rs with
    | nil =>
      simp only [List.map_nil, List.nil_append, List.reverse_nil]
      cases hY : Y with
      | nil => simp [Y] at hY
      | cons y r =>
        have := (hYhead y (by simp [hY])).2
        simp only [Y, List.reverse_nil, List.map_nil, List.append_nil] at hY
        simp only [List.append_nil, hY, List.dropWhile_cons, this]
        simp
    | cons r0 r => simp [isLabel, Y]
  have htp := takePushes_map_push rs Y (fun i hi => (hYhead i hi).1)
  unfold frameOk
  simp only [hdrop, htp]
  have hZ : ∀ i ∈ body ++ rs.reverse.map Instr.pop, i ≠ Instr.ret := by
    intro i hi
    simp only [List.mem_append, List.mem_map] at hi
    rcases hi with hi | ⟨r, _, rfl⟩
    · exact (hnl i hi).1
    · simp
  have hbr : beforeRet Y = some (body ++ rs.reverse.map Instr.pop) := by
    have : Y = (body ++ rs.reverse.map Instr.pop) ++ Instr.ret :: t := by simp [Y]
    rw [this]; exact beforeRet_append_ret _ _ hZ
  simp only [hbr]
  have hl : (body ++ rs.reverse.map Instr.pop).length - rs.length = body.length := by simp
  have h4' : rs.contains RSP = false := by simpa using h4
  simp only [hl, List.drop_left, List.take_left, h4', Bool.not_false, Bool.and_true,
    Bool.and_eq_true, decide_eq_true_eq, beq_self_eq_true, List.all_eq_true]
  refine ⟨⟨by simp, hlen⟩, fun i hi => (hb i hi).1⟩

/-! ### the inserted frame is accepted -/

theorem plain_rebase_ok (body : List Instr) (hp : ∀ i ∈ body, plainInstr i = true) (n : Nat) :
    ∀ i ∈ body.map (rebase n), bodyInstrOk (usedCS body) i = true ∧ isLabel i = false := by
  intro i hi
  obtain ⟨j, hj, rfl⟩ := List.mem_map.mp hi
  have hpl := hp j hj
  obtain ⟨_, _, hused⟩ := usedCS_spec body
  have key : ∀ d, destOf j = some d → d ≠ RSP → writeOk (usedCS body) d = true := by
    intro d hd h4
    simp only [writeOk, Bool.and_eq_true, decide_eq_true_eq, Bool.or_eq_true, Bool.not_eq_true']
    refine ⟨by simpa using h4, ?_⟩
    by_cases hc : calleeSaved.contains d = true
    · right; simpa using hused j hj d hd (by simpa using hc)
    · left; simpa using hc
  cases j <;> simp [plainInstr] at hpl <;> simp [rebase, bodyInstrOk, isLabel]
  · exact key _ rfl hpl.1
  · exact key _ rfl hpl
  · exact key _ rfl hpl.1.1
  · exact key _ rfl hpl.1

theorem insertPrologue_frameOk' (body : List Instr) (hp : ∀ i ∈ body, plainInstr i = true) :
    frameOk (insertPrologue body) = true := by
  obtain ⟨hlen, hcs, _⟩ := usedCS_spec body
  have h4 : RSP ∉ usedCS body := by
    intro h; have := hcs _ h; simp [calleeSaved, RSP] at this
  have := frameOk_shape (usedCS body) (body.map (rebase (usedCS body).length)) []
    (by simp [depthCap]; omega) h4 (plain_rebase_ok body hp _)
  simpa [insertPrologue] using this

/-! ### the inserted frame does not change the computation -/

theorem exec_pushes (rs : List Nat) :
    ∀ σ : St, let σ' := exec (rs.map Instr.push) σ
      (∀ r, r ≠ RSP → σ'.reg r = σ.reg r) ∧
      σ'.reg RSP = below (σ.reg RSP) rs.length ∧
      (∀ x, (∀ i, 1 ≤ i → i ≤ rs.length → x ≠ below (σ.reg RSP) i) → σ'.mem x = σ.mem x) := by
  induction rs with
  | nil => intro σ; simp [below]
  | cons r0 rs ih =>
    intro σ
    simp only [List.map_cons, exec_cons]
    obtain ⟨h1, h2, h3⟩ := ih (step (Instr.push r0) σ)
    have hrsp : (step (Instr.push r0) σ).reg RSP = σ.reg RSP - 8#64 := by simp [step]
    refine ⟨?_, ?_, ?_⟩
    · intro r hr; rw [h1 r hr]; simp [step, hr]
    · rw [h2, hrsp, below_shift]; simp
    · intro x hx
      rw [h3 x ?_]
      · have : x ≠ σ.reg RSP - 8#64 := by
          have := hx 1 (by omega) (by simp)
          simpa [below] using this
        simp [step, this]
      · intro i hi1 hi2
        rw [hrsp, below_shift]
        exact hx (i + 1) (by omega) (by simp; omega)

theorem exec_pops (rs : List Nat) :
    ∀ σ : St, ∀ r, r ∉ rs → r ≠ RSP → (exec (rs.map Instr.pop) σ).reg r = σ.reg r := by
  induction rs with
  | nil => intro σ r _ _; rfl
  | cons r0 rs ih =>
    intro σ r hr h4
    simp only [List.map_cons, exec_cons]
    rw [ih _ r (fun h => hr (by simp [h])) h4]
    have : r ≠ r0 := fun h => hr (by simp [h])
    simp [step, this, h4]

structure Sim (n : Nat) (rsp0 : W) (σo σn : St) : Prop where
  regs : ∀ r, r ≠ RSP → σn.reg r = σo.reg r
  rspo : σo.reg RSP = rsp0
  rspn : σn.reg RSP = below rsp0 n
  mem : ∀ k : Int, 0 ≤ k → k < 4294967296 → σn.mem (rsp0 + BitVec.ofInt 64 k) = σo.mem (rsp0 + BitVec.ofInt 64 k)

theorem rebased_addr (rsp0 : W) (n : Nat) (k : Int) :
    below rsp0 n + BitVec.ofInt 64 (k + 8 * (n : Int)) = rsp0 + BitVec.ofInt 64 k := by
  unfold below
  rw [BitVec.ofInt_add, show (8 * (n : Int)) = ((8 * n : Nat) : Int) by simp, BitVec.ofInt_natCast]
  generalize BitVec.ofInt 64 k = x
  generalize BitVec.ofNat 64 (8 * n) = y
  bv_omega

theorem Sim.setReg {n : Nat} {rsp0 : W} {σo σn : St} (S : Sim n rsp0 σo σn) (d : Nat) (hd : d ≠ RSP) (v : W) :
    Sim n rsp0 (setReg σo d v) (setReg σn d v) := by
  have hd' : RSP ≠ d := fun h => hd h.symm
  refine ⟨?_, by simp [hd', S.rspo], by simp [hd', S.rspn], by simpa using S.mem⟩
  intro r hr
  by_cases h : r = d
  · simp [h]
  · simp [h, S.regs r hr]

theorem step_sim {n : Nat} {rsp0 : W} {σo σn : St} (S : Sim n rsp0 σo σn) (i : Instr)
    (hp : plainInstr i = true) : Sim n rsp0 (step i σo) (step (rebase n i) σn) := by
  cases i <;> simp [plainInstr] at hp
  · next sz d s =>
    simp only [step, rebase]; rw [S.regs s hp.2, S.regs d hp.1]; exact S.setReg d hp.1 _
  · next sz d imm => simp only [step, rebase]; rw [S.regs d hp]; exact S.setReg d hp _
  · next sz d k =>
    simp only [step, rebase, addr]
    rw [S.rspn, S.rspo, rebased_addr, S.mem k hp.1.2 hp.2, S.regs d hp.1.1]
    exact S.setReg d hp.1.1 _
  · next op sz d s =>
    simp only [step, rebase]; rw [S.regs s hp.2, S.regs d hp.1]; exact S.setReg d hp.1 _

theorem exec_sim {n : Nat} {rsp0 : W} (body : List Instr) (hp : ∀ i ∈ body, plainInstr i = true) :
    ∀ {σo σn : St}, Sim n rsp0 σo σn → Sim n rsp0 (exec body σo) (exec (body.map (rebase n)) σn) := by
  induction body with
  | nil => intro σo σn S; exact S
  | cons i r ih =>
    intro σo σn S
    simp only [List.map_cons, exec_cons]
    exact ih (fun j hj => hp j (by simp [hj])) (step_sim S i (hp i (by simp)))

theorem push_slot_ne (rsp0 : W) (i : Nat) (k : Int) (h1 : 1 ≤ i) (h2 : i ≤ 4096) (hk : 0 ≤ k)
    (hk2 : k < 4294967296) : rsp0 + BitVec.ofInt 64 k ≠ below rsp0 i := by
  unfold below
  obtain ⟨m, rfl⟩ := Int.eq_ofNat_of_zero_le hk
  rw [BitVec.ofInt_natCast]
  have : m < 4294967296 := by omega
  bv_omega

theorem plain_no_ret (body : List Instr) (hp : ∀ i ∈ body, plainInstr i = true) :
    ∀ i ∈ body, i ≠ Instr.ret := by
  intro i hi h; subst h; have := hp _ hi; simp [plainInstr] at this

end Xdsl.X86
