import XdslProofs.Lemmas.DCE
/-!
Lemmas for C13 about `delete_dead` (`del`): the ids it keeps, that it keeps the least live set, what
"nothing was erased" means, and that every block with a live operation is visited.
-/
namespace Xdsl.DCE
open Xdsl.Graph

/-- ids of the operations `delete_dead` keeps -/
def kIds (live : List Nat) : T → Bool → List Nat
  | .nil, _ => []
  | .op h rs next, _ =>
    if live.contains h.id then h.id :: (kIds live rs true ++ kIds live next false)
    else kIds live next false
  | .block ops next, first =>
    if !first && !anyLive live ops then kIds live next false
    else kIds live ops false ++ kIds live next false
  | .region bs next, _ => kIds live bs true ++ kIds live next true

theorem allIds_del (live : List Nat) (t : T) : ∀ f m, allIds (del live t f m) = kIds live t f := by
  induction t with
  | nil => intro f m; rfl
  | op h rs next ihr ihn =>
    intro f m
    simp only [del, kIds]
    split
    · simp [ihr, ihn]
    · exact ihn false m
  | block ops next iho ihn =>
    intro f m
    simp only [del, kIds]
    split
    · exact ihn false m
    · simp [iho, ihn]
  | region bs next ihb ihn =>
    intro f m
    simp [del, kIds, ihb, ihn]

theorem kIds_sublist (live : List Nat) (t : T) : ∀ f, (kIds live t f).Sublist (allIds t) := by
  induction t with
  | nil => intro f; simp [kIds]
  | op h rs next ihr ihn =>
    intro f
    simp only [kIds, allIds_op]
    split
    · exact ((ihr true).append (ihn false)).cons_cons _
    · exact ((ihn false).trans (List.sublist_append_right _ _)).cons _
  | block ops next iho ihn =>
    intro f
    simp only [kIds, allIds_block]
    split
    · exact (ihn false).trans (List.sublist_append_right _ _)
    · exact (iho false).append (ihn false)
  | region bs next ihb ihn =>
    intro f
    simp only [kIds, allIds_region]
    exact (ihb true).append (ihn true)

/-! ### well-sorted trees -/

theorem ws_cell (t : T) : ∀ s, ws t s = true → ∀ h rs, (h, rs) ∈ allCells t → ws rs .regions = true := by
  induction t with
  | nil => intro s _ h rs hc; simp [allCells] at hc
  | op h0 rs0 next ihr ihn =>
    intro s hw h rs hc
    cases s <;> simp only [ws, Bool.and_eq_true, Bool.false_eq_true] at hw
    simp only [allCells, List.mem_cons, List.mem_append] at hc
    rcases hc with heq | hc | hc
    · cases heq; exact hw.1
    · exact ihr _ hw.1 h rs hc
    · exact ihn _ hw.2 h rs hc
  | block ops next iho ihn =>
    intro s hw h rs hc
    cases s <;> simp only [ws, Bool.and_eq_true, Bool.false_eq_true] at hw
    simp only [allCells, List.mem_append] at hc
    rcases hc with hc | hc
    · exact iho _ hw.1 h rs hc
    · exact ihn _ hw.2 h rs hc
  | region bs next ihb ihn =>
    intro s hw h rs hc
    cases s <;> simp only [ws, Bool.and_eq_true, Bool.false_eq_true] at hw
    simp only [allCells, List.mem_append] at hc
    rcases hc with hc | hc
    · exact ihb _ hw.1 h rs hc
    · exact ihn _ hw.2 h rs hc

/-- a live operation directly in an operation list makes `any(is_live(op) for op in block.ops)` true -/
theorem anyLive_of_vcell (live : List Nat) (t : T) : ws t .ops = true → ∀ h rs,
    (h, rs) ∈ vcells t none → h.id ∈ live → anyLive live t = true := by
  induction t with
  | nil => intro _ h rs hc; simp [vcells] at hc
  | op h0 rs0 next _ ihn =>
    intro hw h rs hc hm
    simp only [ws, Bool.and_eq_true] at hw
    simp only [vcells, List.mem_cons] at hc
    simp only [anyLive, Bool.or_eq_true]
    rcases hc with heq | hc
    · cases heq; exact Or.inl (by simpa using hm)
    · exact Or.inr (ihn hw.2 h rs hc hm)
  | block ops next _ _ => intro hw; simp [ws] at hw
  | region bs next _ _ => intro hw; simp [ws] at hw

/-- a visited live operation is kept, and so is whatever `delete_dead` keeps of its regions -/
theorem kIds_vcell (live : List Nat) (t : T) : ∀ sel s f, ws t s = true → ∀ h rs,
    (h, rs) ∈ vcells t sel → h.id ∈ live →
    h.id ∈ kIds live t f ∧ ∀ i ∈ kIds live rs true, i ∈ kIds live t f := by
  induction t with
  | nil => intro sel s f _ h rs hc; simp [vcells] at hc
  | op h0 rs0 next _ ihn =>
    intro sel s f hw h rs hc hm
    cases s <;> simp only [ws, Bool.and_eq_true, Bool.false_eq_true] at hw
    simp only [vcells, List.mem_cons] at hc
    rcases hc with heq | hc
    · cases heq
      have hct : live.contains h0.id = true := by simpa using hm
      rw [kIds, if_pos hct]
      simp only [List.mem_cons, List.mem_append]
      exact ⟨Or.inl trivial, fun i hi => Or.inr (Or.inl hi)⟩
    · have := ihn none _ false hw.2 h rs hc hm
      simp only [kIds]
      split
      · simp only [List.mem_cons, List.mem_append]
        exact ⟨Or.inr (Or.inr this.1), fun i hi => Or.inr (Or.inr (this.2 i hi))⟩
      · exact this
  | block ops next iho ihn =>
    intro sel s f hw h rs hc hm
    cases s <;> simp only [ws, Bool.and_eq_true, Bool.false_eq_true] at hw
    match sel with
    | none => simp [vcells] at hc
    | some 0 =>
      have hc' : (h, rs) ∈ vcells ops none := by simpa [vcells] using hc
      have hal := anyLive_of_vcell live ops hw.1 h rs hc' hm
      have := iho none _ false hw.1 h rs hc' hm
      simp only [kIds, hal, Bool.not_true, Bool.and_false, Bool.false_eq_true, if_false, List.mem_append]
      exact ⟨Or.inl this.1, fun i hi => Or.inl (this.2 i hi)⟩
    | some (k + 1) =>
      have hc' : (h, rs) ∈ vcells next (some k) := by simpa [vcells] using hc
      have := ihn (some k) _ false hw.2 h rs hc' hm
      simp only [kIds]
      split
      · exact this
      · simp only [List.mem_append]
        exact ⟨Or.inr this.1, fun i hi => Or.inr (this.2 i hi)⟩
  | region bs next ihb ihn =>
    intro sel s f hw h rs hc hm
    cases s <;> simp only [ws, Bool.and_eq_true, Bool.false_eq_true] at hw
    simp only [vcells, List.mem_append, List.mem_flatMap] at hc
    simp only [kIds, List.mem_append]
    rcases hc with ⟨b, _, hc⟩ | hc
    · have := ihb (some b) _ true hw.1 h rs hc hm
      exact ⟨Or.inl this.1, fun i hi => Or.inl (this.2 i hi)⟩
    · have := ihn none _ true hw.2 h rs hc hm
      exact ⟨Or.inr this.1, fun i hi => Or.inr (this.2 i hi)⟩

/-- `delete_dead` keeps every operation of the least live set -/
theorem LV.kept {P : T} {live : List Nat} (hws : ws P .regions = true)
    (hsub : ∀ h rs, LV P h rs → h.id ∈ live) {h : Hdr} {rs : T} (hl : LV P h rs) :
    h.id ∈ kIds live P true ∧ ∀ i ∈ kIds live rs true, i ∈ kIds live P true := by
  induction hl with
  | base_top hv hw => exact kIds_vcell live P none _ true hws _ _ hv (hsub _ _ (.base_top hv hw))
  | base_in hl' hv hw ih =>
    have hw' := ws_cell P _ hws _ _ hl'.mem
    have := kIds_vcell live _ none _ true hw' _ _ hv (hsub _ _ (.base_in hl' hv hw))
    exact ⟨ih.2 _ this.1, fun i hi => ih.2 _ (this.2 i hi)⟩
  | user_top hv hu hop _ =>
    exact kIds_vcell live P none _ true hws _ _ hv (hsub _ _ (.user_top hv hu hop))
  | user_in hl' hv hu hop ih _ =>
    have hw' := ws_cell P _ hws _ _ hl'.mem
    have := kIds_vcell live _ none _ true hw' _ _ hv (hsub _ _ (.user_in hl' hv hu hop))
    exact ⟨ih.2 _ this.1, fun i hi => ih.2 _ (this.2 i hi)⟩

/-- the operations of the `k`-th block of a block list -/
def blockAt : T → Nat → T
  | .block ops _, 0 => ops
  | .block _ next, k + 1 => blockAt next k
  | _, _ => .nil

theorem vcells_blockAt (bs : T) : ∀ k, ws bs .blocks = true → vcells bs (some k) = vcells (blockAt bs k) none := by
  induction bs with
  | nil => intro k _; simp [vcells, blockAt]
  | op h rs next _ _ => intro k hw; simp [ws] at hw
  | block ops next _ ihn =>
    intro k hw
    simp only [ws, Bool.and_eq_true] at hw
    cases k with
    | zero => simp [vcells, blockAt]
    | succ k => simpa [vcells, blockAt] using ihn k hw.2
  | region bs next _ _ => intro k hw; simp [ws] at hw

theorem ws_blockAt (bs : T) : ∀ k, ws bs .blocks = true → ws (blockAt bs k) .ops = true := by
  induction bs with
  | nil => intro k _; simp [blockAt, ws]
  | op h rs next _ _ => intro k hw; simp [ws] at hw
  | block ops next _ ihn =>
    intro k hw
    simp only [ws, Bool.and_eq_true] at hw
    cases k with
    | zero => simpa [blockAt] using hw.1
    | succ k => simpa [blockAt] using ihn k hw.2
  | region bs next _ _ => intro k hw; simp [ws] at hw


/-! ### `delete_dead` keeps trees well-sorted -/

theorem ws_del (live : List Nat) (t : T) : ∀ s f m, ws t s = true → ws (del live t f m) s = true := by
  induction t with
  | nil => intro s f m _; cases s <;> rfl
  | op h rs next ihr ihn =>
    intro s f m hw
    cases s <;> simp only [ws, Bool.and_eq_true, Bool.false_eq_true] at hw
    simp only [del]
    split
    · simp only [ws, Bool.and_eq_true]
      exact ⟨ihr _ true [] hw.1, ihn _ false m hw.2⟩
    · exact ihn _ false m hw.2
  | block ops next iho ihn =>
    intro s f m hw
    cases s <;> simp only [ws, Bool.and_eq_true, Bool.false_eq_true] at hw
    simp only [del]
    split
    · exact ihn _ false m hw.2
    · simp only [ws, Bool.and_eq_true]
      exact ⟨iho _ false m hw.1, ihn _ false m hw.2⟩
  | region bs next ihb ihn =>
    intro s f m hw
    cases s <;> simp only [ws, Bool.and_eq_true, Bool.false_eq_true] at hw
    simp only [del, ws, Bool.and_eq_true]
    exact ⟨ihb _ true _ hw.1, ihn _ true [] hw.2⟩

theorem dceOnce_ws {t : T} (h : ws t .regions = true) : ws (dceOnce t).1 .regions = true := by
  unfold dceOnce
  simp only
  split
  · exact h
  · exact ws_del _ t _ true [] h

end Xdsl.DCE
