import XdslProofs.Lemmas.Clone
/-!
C02 helper: the verifier's successor rule implies `SuccOK`.
-/
namespace Xdsl.Clone

/-- `Operation.verify`'s rule, relative to the cloned part whose blocks are `B`: a successor of an op
is a block of the region the op sits in (`env` = the blocks of that region), or it is not a block of
the cloned part at all (an outside block — only possible for the root of an `Operation.clone`). -/
def Scoped (B : List Nat) : {k : Kind} → List Nat → T k → Prop
  | _, _, .nil => True
  | _, env, .op h rs nx => (∀ s ∈ h.succs, s ∈ env ∨ s ∉ B) ∧ Scoped B [] rs ∧ Scoped B env nx
  | _, env, .region bs nx => Scoped B (directIds bs) bs ∧ Scoped B env nx
  | _, env, .block _ ops nx => Scoped B env ops ∧ Scoped B env nx

theorem scoped_succ_cases {B : List Nat} {k : Kind} (t : T k) (env : List Nat) (sc : Scoped B env t) :
    ∀ s ∈ succsOf t, s ∈ env ∨ s ∈ regd t ∨ s ∉ B := by
  induction t generalizing env with
  | nil => simp [succsOf]
  | op h rs nx ih1 ih2 =>
    simp only [Scoped] at sc
    intro s hs
    simp only [succsOf, List.mem_append] at hs
    simp only [regd, List.mem_append]
    rcases hs with hs | hs | hs
    · rcases sc.1 s hs with h1 | h1
      · exact Or.inl h1
      · exact Or.inr (Or.inr h1)
    · rcases ih1 [] sc.2.1 s hs with h1 | h1 | h1
      · simp at h1
      · exact Or.inr (Or.inl (Or.inl h1))
      · exact Or.inr (Or.inr h1)
    · rcases ih2 env sc.2.2 s hs with h1 | h1 | h1
      · exact Or.inl h1
      · exact Or.inr (Or.inl (Or.inr h1))
      · exact Or.inr (Or.inr h1)
  | region bs nx ih1 ih2 =>
    simp only [Scoped] at sc
    intro s hs
    simp only [succsOf, List.mem_append] at hs
    simp only [regd, List.mem_append]
    rcases hs with hs | hs
    · rcases ih1 _ sc.1 s hs with h1 | h1 | h1
      · exact Or.inr (Or.inl (Or.inl (Or.inl h1)))
      · exact Or.inr (Or.inl (Or.inl (Or.inr h1)))
      · exact Or.inr (Or.inr h1)
    · rcases ih2 env sc.2 s hs with h1 | h1 | h1
      · exact Or.inl h1
      · exact Or.inr (Or.inl (Or.inr h1))
      · exact Or.inr (Or.inr h1)
  | block h ops nx ih1 ih2 =>
    simp only [Scoped] at sc
    intro s hs
    simp only [succsOf, List.mem_append] at hs
    simp only [regd, List.mem_append]
    rcases hs with hs | hs
    · rcases ih1 env sc.1 s hs with h1 | h1 | h1
      · exact Or.inl h1
      · exact Or.inr (Or.inl (Or.inl h1))
      · exact Or.inr (Or.inr h1)
    · rcases ih2 env sc.2 s hs with h1 | h1 | h1
      · exact Or.inl h1
      · exact Or.inr (Or.inl (Or.inr h1))
      · exact Or.inr (Or.inr h1)

/-- IR that obeys the verifier's successor rule (and whose blocks are distinct objects) satisfies the
precondition `SuccOK` of the clone theorems. -/
theorem succOK_of_scoped {B : List Nat} {k : Kind} (t : T k) (env : List Nat) (sc : Scoped B env t)
    (sub : ∀ b ∈ regd t, b ∈ B) (nd : (regd t).Nodup) (dj : ∀ e ∈ env, e ∉ regd t) : SuccOK t := by
  induction t generalizing env with
  | nil => simp [SuccOK]
  | op h rs nx ih1 ih2 =>
    simp only [Scoped] at sc
    simp only [regd, List.mem_append] at sub dj
    simp only [regd, List.nodup_append] at nd
    obtain ⟨nd1, nd2, nd3⟩ := nd
    simp only [SuccOK]
    refine ⟨?_, ?_, ih1 [] sc.2.1 (fun b hb => sub b (Or.inl hb)) nd1 (by simp),
      ih2 env sc.2.2 (fun b hb => sub b (Or.inr hb)) nd2 (fun e he hh => dj e he (Or.inr hh))⟩
    · intro s hs
      rcases sc.1 s hs with h1 | h1
      · exact ⟨fun hh => dj s h1 (Or.inl hh), fun hh => dj s h1 (Or.inr hh)⟩
      · exact ⟨fun hh => h1 (sub s (Or.inl hh)), fun hh => h1 (sub s (Or.inr hh))⟩
    · intro s hs hh
      rcases scoped_succ_cases rs [] sc.2.1 s hs with h1 | h1 | h1
      · simp at h1
      · exact nd3 s h1 s hh rfl
      · exact h1 (sub s (Or.inr hh))
  | region bs nx ih1 ih2 =>
    simp only [Scoped] at sc
    simp only [regd, List.mem_append] at sub dj
    simp only [regd, List.nodup_append, List.mem_append] at nd
    obtain ⟨⟨nd1, nd2, nd3⟩, nd4, nd5⟩ := nd
    simp only [SuccOK]
    refine ⟨?_, ih1 _ sc.1 (fun b hb => sub b (Or.inl (Or.inr hb))) nd2 (fun e he hh => nd3 e he e hh rfl),
      ih2 env sc.2 (fun b hb => sub b (Or.inr hb)) nd4 (fun e he hh => dj e he (Or.inr hh))⟩
    intro s hs hh
    rcases scoped_succ_cases bs _ sc.1 s hs with h1 | h1 | h1
    · exact nd5 s (Or.inl h1) s hh rfl
    · exact nd5 s (Or.inr h1) s hh rfl
    · exact h1 (sub s (Or.inr hh))
  | block h ops nx ih1 ih2 =>
    simp only [Scoped] at sc
    simp only [regd, List.mem_append] at sub dj
    simp only [regd, List.nodup_append] at nd
    obtain ⟨nd1, nd2, nd3⟩ := nd
    simp only [SuccOK]
    refine ⟨?_, ih1 env sc.1 (fun b hb => sub b (Or.inl hb)) nd1 (fun e he hh => dj e he (Or.inl hh)),
      ih2 env sc.2 (fun b hb => sub b (Or.inr hb)) nd2 (fun e he hh => dj e he (Or.inr hh))⟩
    intro s hs hh
    rcases scoped_succ_cases ops env sc.1 s hs with h1 | h1 | h1
    · exact dj s h1 (Or.inr hh)
    · exact nd3 s h1 s hh rfl
    · exact h1 (sub s (Or.inr hh))

end Xdsl.Clone
