import XdslModel.RawScan
/-!
# C07 — parsing terminates promptly and fails only with diagnostics (raw scan of dialect symbol bodies)

"For any input text, the parser finishes in time roughly proportional to the input size and either
returns IR or reports a parse or verification diagnostic; it never hangs …"

The body of an unregistered dialect attribute or type is not lexed: `AttrParser._raw_scan_balanced`
walks over the raw characters to the matching `>`.  `XdslModel/RawScan.lean` is the model of that
loop (bracket stack + string skipping, one tick per loop iteration).  For every input — every list
of code points, every start position, every bracket stack, both loop modes —:

* `scan_steps_le` — "time roughly proportional to the input size / never hangs": the number of loop
  iterations is at most the number of code points after the start position, plus one;
* `scan_ok_steps` — a successful scan stops at the `>` it returns: it never reads past it, so the
  scans of all bodies of one text together read every character at most once;
* `scan_cases` — "either returns … or reports a parse diagnostic": the outcome is the position of a
  `>` inside the text at or after the start, or one of the three `ParseError`s, whose position (where
  it has one) is inside the text and points at the offending closer / at the opening quote.

Tied to `/repo` by differential scanning (`harness/props/c07.py`, stream `rawscan`): result, error
kind and position of the real `_raw_scan_balanced` against `scan`, plus a CPU guard on the real call.
Not proved: wall-clock time of the Python loop (measured), and that the real function *is* this loop
(correspondence only).
-/
namespace Xdsl.RawScan

/-- loop invariant of both loops: ticks are bounded by the remaining length -/
theorem go_steps_le (m : Mode) (st : List Nat) (pos : Nat) (cs : List Nat) :
    (go m st pos cs).2 ≤ cs.length + 1 := by
  fun_induction go m st pos cs <;> simp_all [tick] <;> omega

private theorem step1 {p pos t c : Nat} {r : List Nat}
    (h : pos + 1 ≤ p ∧ p < pos + 1 + r.length ∧ r[p - (pos + 1)]? = some 62 ∧ t ≤ p - (pos + 1) + 1) :
    pos ≤ p ∧ p < pos + (c :: r).length ∧ (c :: r)[p - pos]? = some 62 ∧ t + 1 ≤ p - pos + 1 := by
  obtain ⟨h1, h2, h3, h4⟩ := h
  refine ⟨by omega, by simp only [List.length_cons]; omega, ?_, by omega⟩
  have e : p - pos = (p - (pos + 1)) + 1 := by omega
  rw [e]; simpa using h3

private theorem step2 {p pos t c d : Nat} {r : List Nat}
    (h : pos + 2 ≤ p ∧ p < pos + 2 + r.length ∧ r[p - (pos + 2)]? = some 62 ∧ t ≤ p - (pos + 2) + 1) :
    pos ≤ p ∧ p < pos + (c :: d :: r).length ∧ (c :: d :: r)[p - pos]? = some 62 ∧
      t + 1 ≤ p - pos + 1 := by
  obtain ⟨h1, h2, h3, h4⟩ := h
  refine ⟨by omega, by simp only [List.length_cons]; omega, ?_, by omega⟩
  have e : p - pos = (p - (pos + 2)) + 1 + 1 := by omega
  rw [e]; simpa using h3

/-- a returned position is a `>` at or after `pos`, inside the scanned text, and the loop did not
iterate past it -/
theorem go_ok (m : Mode) (st : List Nat) (pos : Nat) (cs : List Nat) (p : Nat)
    (h : (go m st pos cs).1 = .ok p) :
    pos ≤ p ∧ p < pos + cs.length ∧ cs[p - pos]? = some 62 ∧ (go m st pos cs).2 ≤ p - pos + 1 := by
  fun_induction go m st pos cs
  all_goals (try simp only [tick] at h ⊢)
  all_goals first
    | (rename_i ih; first | exact step1 (ih h) | exact step2 (ih h))
    | simp_all

private theorem stepc1 {p pos c x : Nat} {r : List Nat}
    (h : pos + 1 ≤ p ∧ p < pos + 1 + r.length ∧ r[p - (pos + 1)]? = some x) :
    pos ≤ p ∧ p < pos + (c :: r).length ∧ (c :: r)[p - pos]? = some x := by
  obtain ⟨h1, h2, h3⟩ := h
  refine ⟨by omega, by simp only [List.length_cons]; omega, ?_⟩
  have e : p - pos = (p - (pos + 1)) + 1 := by omega
  rw [e]; simpa using h3

private theorem stepc2 {p pos c d x : Nat} {r : List Nat}
    (h : pos + 2 ≤ p ∧ p < pos + 2 + r.length ∧ r[p - (pos + 2)]? = some x) :
    pos ≤ p ∧ p < pos + (c :: d :: r).length ∧ (c :: d :: r)[p - pos]? = some x := by
  obtain ⟨h1, h2, h3⟩ := h
  refine ⟨by omega, by simp only [List.length_cons]; omega, ?_⟩
  have e : p - pos = (p - (pos + 2)) + 1 + 1 := by omega
  rw [e]; simpa using h3

/-- "Unbalanced '<c>'" is reported at a closing bracket `c` of the scanned text -/
theorem go_unbalanced (m : Mode) (st : List Nat) (pos : Nat) (cs : List Nat) (c p : Nat)
    (h : (go m st pos cs).1 = .unbalanced c p) :
    (pos ≤ p ∧ p < pos + cs.length ∧ cs[p - pos]? = some c) ∧ isClose c = true := by
  fun_induction go m st pos cs
  all_goals (try simp only [tick] at h ⊢)
  all_goals first
    | (rename_i ih; first | exact ⟨stepc1 (ih h).1, (ih h).2⟩ | exact ⟨stepc2 (ih h).1, (ih h).2⟩)
    | simp_all

/-- "Unterminated string literal" is reported at the opening quote of the string the inner loop was
in: the one it was started in (`m = str s`), or a `"` of the scanned text -/
theorem go_unterminated (m : Mode) (st : List Nat) (pos : Nat) (cs : List Nat) (s : Nat)
    (h : (go m st pos cs).1 = .unterminated s) :
    m = .str s ∨ (pos ≤ s ∧ s < pos + cs.length ∧ cs[s - pos]? = some 34) := by
  fun_induction go m st pos cs
  all_goals (try simp only [tick] at h ⊢)
  all_goals first
    | (rename_i ih
       rcases ih h with e | e
       · first
         | exact Or.inl e
         | (cases e; right; simp_all)
         | cases e
       · first | exact Or.inr (stepc1 e) | exact Or.inr (stepc2 e))
    | simp_all

/-! ## The function as called by the parser -/

/-- **scan_steps_le** — "finishes in time roughly proportional to the input size … never hangs": the
two loops of `_raw_scan_balanced` together iterate at most once per code point after the start
position (plus the final test), whatever the text: unterminated strings, unbalanced or unclosed
brackets, backslashes at the end included. -/
theorem scan_steps_le (content : List Nat) (pos : Nat) :
    (scan content pos).2 ≤ (content.length - pos) + 1 := by
  have := go_steps_le .norm [] pos (content.drop pos)
  simpa [scan] using this

/-- **scan_ok_steps** — a successful scan does not read past the `>` it returns (the lexer resumes
right after it, so over a whole text the scans of all bodies read each character at most once). -/
theorem scan_ok_steps (content : List Nat) (pos p : Nat) (h : (scan content pos).1 = .ok p) :
    (scan content pos).2 ≤ p - pos + 1 :=
  (go_ok .norm [] pos (content.drop pos) p h).2.2.2

private theorem drop_get {content : List Nat} {pos p : Nat} (h : pos ≤ p) :
    (content.drop pos)[p - pos]? = content[p]? := by
  rw [List.getElem?_drop]; congr 1; omega

/-- **scan_cases** — "either returns … or reports a parse diagnostic": the outcome is the position
of a `>` of the text at or after the start position, or one of the three `ParseError`s of the
function; a reported position lies inside the text and points at the closing bracket named in the
message, resp. at the opening quote of the unterminated string. -/
theorem scan_cases (content : List Nat) (pos : Nat) :
    (∃ p, (scan content pos).1 = .ok p ∧ pos ≤ p ∧ p < content.length ∧ content[p]? = some 62) ∨
    (∃ c p, (scan content pos).1 = .unbalanced c p ∧ pos ≤ p ∧ p < content.length ∧
      content[p]? = some c ∧ isClose c = true) ∨
    (∃ s, (scan content pos).1 = .unterminated s ∧ pos ≤ s ∧ s < content.length ∧
      content[s]? = some 34) ∨
    (scan content pos).1 = .eof := by
  have hl : (content.drop pos).length = content.length - pos := by simp
  cases hr : (scan content pos).1 with
  | ok p =>
    obtain ⟨h1, h2, h3, _⟩ := go_ok .norm [] pos (content.drop pos) p hr
    exact Or.inl ⟨p, rfl, h1, by omega, by rw [← drop_get h1]; exact h3⟩
  | unbalanced c p =>
    obtain ⟨⟨h1, h2, h3⟩, h4⟩ := go_unbalanced .norm [] pos (content.drop pos) c p hr
    exact Or.inr (Or.inl ⟨c, p, rfl, h1, by omega, by rw [← drop_get h1]; exact h3, h4⟩)
  | unterminated s =>
    rcases go_unterminated .norm [] pos (content.drop pos) s hr with e | ⟨h1, h2, h3⟩
    · cases e
    · exact Or.inr (Or.inr (Or.inl ⟨s, rfl, h1, by omega, by rw [← drop_get h1]; exact h3⟩))
  | eof => exact Or.inr (Or.inr (Or.inr rfl))

/-! ## Non-vacuity (texts as code-point lists; the literal is quoted in the comment) -/

/-- `#d.n<a<b>, "x>\"" -> (c)>rest` from position 5: brackets inside strings and `->` do not count;
the outer `>` is found -/
example : (scan [35, 100, 46, 110, 60, 97, 60, 98, 62, 44, 32, 34, 120, 62, 92, 34, 34, 32, 45, 62, 32, 40, 99, 41, 62, 114, 101, 115, 116] 5).1 = .ok 24 := by decide +kernel

/-- the shape of the seeded change C07-C,
`#mydialect.layout<"row_major, tile = [4, 4]>} : () -> () loc(unknown)` from position 18: the closing
quote of the last string of the text is missing; the scan ends with the diagnostic at the opening
quote after one pass over the rest of the text (69 code points) -/
example : scan [35, 109, 121, 100, 105, 97, 108, 101, 99, 116, 46, 108, 97, 121, 111, 117, 116, 60, 34, 114, 111, 119, 95, 109, 97, 106, 111, 114, 44, 32, 116, 105, 108, 101, 32, 61, 32, 91, 52, 44, 32, 52, 93, 62, 125, 32, 58, 32, 40, 41, 32, 45, 62, 32, 40, 41, 32, 108, 111, 99, 40, 117, 110, 107, 110, 111, 119, 110, 41] 18 = (.unterminated 18, 52) := by decide +kernel

/-- `<(]>`: a closer that does not match the innermost opener; `<)`: a closer other than `>` at depth
0; `<(a`: end of text inside brackets; `<"a\`: a backslash as the last character of a string -/
example : (scan [60, 40, 93, 62] 1).1 = .unbalanced 93 2 ∧ (scan [60, 41] 1).1 = .unbalanced 41 1 ∧
    (scan [60, 40, 97] 1).1 = .eof ∧ (scan [60, 34, 97, 92] 1).1 = .unterminated 1 := by decide +kernel

end Xdsl.RawScan
