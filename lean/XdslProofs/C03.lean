import XdslProofs.Lemmas.StructEq
/-!
# C03 — structural equivalence holds exactly for isomorphic IR

Model: `XdslModel/StructEq.lean` (`structEq` = the walk of
`Operation/Block/Region.is_structurally_equivalent` with its `context` dictionary followed by the
final one-to-one check, as repaired by the C03 `fix:` commits).  Vocabulary (`XdslProofs/Lemmas/StructEq.lean`):

* `Agree f a b` — under the map `f` of values and blocks every operation agrees on name, operands
  (`f`-images), result types, attributes, properties, successors and nested regions, every block on
  argument types, and definitions correspond position by position;
* `Iso a b` — some `f` that is the identity on everything not defined inside `a` ("values defined
  outside the compared trees must be identical") and one-to-one on everything `a` mentions makes
  the trees `Agree`;
* `WF a` — every value/block is defined at one place (true of every real object graph);
* `Scoped a` — region scoping as the walk needs it: when an operand or successor is looked up it
  is already in the context (defined in the same or an enclosing region *in any order* — graph
  regions, blocks in any layout order —, or in a region the walk has left) or it is not defined in
  the tree at all.  Not scoped = a value of a nested region used outside of it before the walk
  gets there (invalid IR under MLIR's scoping rules);
* `Sep a b` — what `a` takes from outside is not a definition of `b`.  Fails only when the two
  compared trees are parts of one program and one refers into the other; the repaired code checks
  it after the walk (`oneToOne`, lemma `oneToOne_iff_sep`), so no theorem needs it as hypothesis.
-/
namespace Xdsl.StructEq

/-- "The check is reflexive (including IR with graph regions or values used before their
definition)": for EVERY tree — no well-formedness, scoping or ordering hypothesis at all. -/
theorem structEq_refl (a : T) : structEq a a = true := by
  obtain ⟨c', e, hp⟩ := eqT_self a [] (by intro k x h; simp at h)
  simp [structEq, e, oneToOne_pid hp]

/-- The independent decision procedure (`iso` in the driver's answers; the harness's Python oracle
is compared with it) decides `Iso`: the only candidate correspondence is the positional one. -/
theorem isoDecide_iff {a b : T} (hwa : WF a) (hwb : WF b) : isoDecide a b = true ↔ Iso a b := by
  unfold isoDecide
  rw [Bool.and_eq_true, agreeB_iff, sep_iff]
  exact (iso_iff_agree hwa hwb).symm

/-- "… reported structurally equivalent exactly when a one-to-one correspondence … makes every
operation agree …", direction ⇐ (no isomorphic pair is rejected), for every region-scoped `a`:
graph regions, use-before-def, blocks in any order included. -/
theorem structEq_complete {a b : T} (hwa : WF a) (hsc : Scoped a) (h : Iso a b) :
    structEq a b = true :=
  (structEq_iff_agree hwa hsc).mpr (iso_imp_agree hwa h)

/-- Direction ⇒ (only isomorphic pairs are accepted: names, operand wiring, result types,
attributes, properties, successors, regions, block argument types all matter, and the
correspondence is one-to-one also on what the trees take from outside).  No separation hypothesis:
two parts of one program that refer into each other are covered. -/
theorem structEq_sound {a b : T} (hwa : WF a) (hwb : WF b) (hsc : Scoped a)
    (h : structEq a b = true) : Iso a b :=
  agree_imp_iso hwa hwb ((structEq_iff_agree hwa hsc).mp h)

/-- The property's "exactly when". -/
theorem structEq_iff_iso {a b : T} (hwa : WF a) (hwb : WF b) (hsc : Scoped a) :
    structEq a b = true ↔ Iso a b :=
  ⟨structEq_sound hwa hwb hsc, structEq_complete hwa hsc⟩

/-- The verdict spelled out on the positional correspondence: equivalent ⇔ all fields agree under
it and nothing `a` takes from outside is a definition of `b`. -/
theorem structEq_iff_agree_positional {a b : T} (hwa : WF a) (hsc : Scoped a) :
    structEq a b = true ↔ Agree (lookup (pairs a b)) a b ∧ Sep a b :=
  structEq_iff_agree hwa hsc

/-- The relation the check is meant to decide is symmetric … -/
theorem iso_symmetric {a b : T} (hwa : WF a) (hwb : WF b) : Iso a b ↔ Iso b a :=
  ⟨iso_symm hwa hwb, iso_symm hwb hwa⟩

/-- … and so is the check ("symmetric"), for every pair of region-scoped trees. -/
theorem structEq_symm {a b : T} (hwa : WF a) (hwb : WF b) (hsa : Scoped a) (hsb : Scoped b) :
    structEq a b = structEq b a := by
  have h : structEq a b = true ↔ structEq b a = true := by
    rw [structEq_iff_iso hwa hwb hsa, structEq_iff_iso hwb hwa hsb]
    exact iso_symmetric hwa hwb
  cases hx : structEq a b <;> cases hy : structEq b a <;> simp_all

/-- A clone (objects defined inside get fresh, pairwise distinct identities; references to
anything else are kept) is isomorphic to its source — for every tree. -/
theorem iso_clone (ρ : Nat → Nat) (a : T)
    (hinj : ∀ x ∈ defs a, ∀ y ∈ defs a, ρ x = ρ y → x = y)
    (hfresh : ∀ x ∈ defs a, ρ x ∉ vals a) : Iso a (cloneT ρ a) :=
  iso_mapT_renId ρ a hinj hfresh

/-- "… and holds between IR and its clone": for every region-scoped tree. -/
theorem structEq_clone (ρ : Nat → Nat) {a : T} (hwa : WF a) (hsc : Scoped a)
    (hinj : ∀ x ∈ defs a, ∀ y ∈ defs a, ρ x = ρ y → x = y)
    (hfresh : ∀ x ∈ defs a, ρ x ∉ vals a) : structEq a (cloneT ρ a) = true :=
  structEq_complete hwa hsc (iso_clone ρ a hinj hfresh)

/-! ## The former counterexample (repaired finding) and non-vacuity -/

/-- `%1 = "op"(%2)` — uses `%2` from outside -/
def cexA : T := .op ⟨0, [2], [(1, 0)], [], [], []⟩ .nil .nil
/-- `%2 = "op"(%2)` — uses its own result (graph region) -/
def cexB : T := .op ⟨0, [2], [(2, 0)], [], [], []⟩ .nil .nil

/-- The pair that the walk alone accepts in one order (every lookup succeeds: `%2` stands for
itself in `a` and is the image of `%1`) is rejected in both orders by the repaired check, in
accordance with `¬ Iso`: `%2` would have to be the image of `%1` (results) and of itself. -/
example : WF cexA ∧ WF cexB ∧ Scoped cexA ∧ Scoped cexB ∧ (eqT cexA cexB []).isSome = true
    ∧ structEq cexA cexB = false ∧ structEq cexB cexA = false ∧ isoDecide cexA cexB = false := by
  decide

/-- a module-like tree: a graph region whose first op uses the result of the second, a nested
region using an enclosing later value, two blocks with successors in both directions -/
def sample : T :=
  .op ⟨0, [], [], [], [], []⟩
    (.region
      (.block 100 [(1, 7)]
        (.op ⟨1, [3, 1, 50], [(2, 7)], [(0, 0)], [], []⟩
            (.region (.block 101 [] (.op ⟨2, [3, 2], [], [], [], [102]⟩ .nil .nil) .nil) .nil)
          (.op ⟨1, [2], [(3, 8)], [], [(1, 1)], [102]⟩ .nil .nil))
        (.block 102 [] (.op ⟨3, [3], [], [], [], [100]⟩ .nil .nil) .nil))
      .nil)
    .nil

/-- the hypotheses of the theorems are satisfiable together on IR with forward references, and the
clone is accepted; a clone with one result type changed is rejected. -/
example : WF sample ∧ Scoped sample ∧ structEq sample (cloneT (· + 1000) sample) = true := by decide

example : structEq (.op ⟨0, [], [(1, 32)], [], [], []⟩ .nil .nil)
    (.op ⟨0, [], [(2, 1)], [], [], []⟩ .nil .nil) = false := by decide

end Xdsl.StructEq
